package main

// Structure-aware mutation operators for C02, applied as a DETERMINISTIC SWEEP (class `st:<op>:t<k>` = the k-th target of operator
// <op> in the fixture, targets ordered shallow-first; no randomness), to every extractor's fixtures and to the files an extractor
// reads next to the file under test (`sib:s<j>:<class>`: the j-th sibling — 0 is etc/os-release — is mutated, the file under test is not).
//
// Why: the byte- and line-level classes (mutate.go) practically never turn ONE value of a well-formed document into another
// well-formed but hostile value. The crashes a hand-written consumer of a decoded document has are exactly there:
//   - null as an ARRAY ELEMENT or as a member value ("maintainers":[null], "packages":[null], a top-level [null]): nil receiver / nil map;
//   - a NUMBER changed to a neighbouring one ("version": 2 -> 1 selects a code path that expects members the document does not have);
//   - a member deleted (the code dereferences what it believed mandatory);
//   - a 1–2 byte value after KEY= ( ID=" in os-release: value[1:len-1] with len 1 );
//   - a string that consists of a recognised prefix and suffix that OVERLAP ("__MSG__" for prefix "__MSG_" + suffix "__").
//
// Syntaxes (sniffed per file, several may apply): JSON (own span parser: every value — scalar, array element, whole array / object —
// and every member), line-oriented key/value text (YAML `k: v`, `- item`, TOML / properties / os-release `k = v`, MANIFEST `K: v`),
// XML / plist (element text, attribute values, single-line elements).
//
// Operators:
//   JSON  jrep<i>   value -> jsonTokens[i] (null, "", [], {}, 0, [null], {"a":null}, "x", true, -1, 1e999, [[]])
//         jnum<i>   NUMBER -> 0, 1, 2, 3, -1, 99999999999999999999
//         jdel      delete a member          jdelel  delete an array element        jinsnull  null as first element of an array
//         jver<i>   a string that looks like a version / format tag -> neighbouring values
//         jaffix<i> a string -> keyword prefix + keyword suffix of the extractor, overlapping by 0.. characters (and with 0..1 characters between)
//   k/v   kvrep<i>  value -> kvTokens[i] (", ', "\, \, empty, "", =, :, null, ~, [], {}, 0, -1, [null], a lone space)
//         kvnum<i>  a number inside a value -> 0, 1, 2, 3, -1, huge      kvdel  delete the line      kvaffix<i> as jaffix
//   XML   xrep<i>   text / attribute value -> xmlTokens[i]             xdel   delete a single-line element

import (
	"bytes"
	"regexp"
	"sort"
	"strconv"
	"strings"
	"unicode/utf8"
)

var jsonTokens = []string{`null`, `""`, `[]`, `{}`, `0`, `[null]`, `{"a":null}`, `"x"`, `true`, `-1`, `1e999`, `[[]]`}
var numTokens = []string{"0", "1", "2", "3", "-1", "99999999999999999999"}
var kvTokens = []string{`"`, `'`, `"\`, `\`, ``, `""`, `=`, `:`, `null`, `~`, `[]`, `{}`, `0`, `-1`, `[null]`, ` `}
var xmlTokens = []string{``, ` `, `0`, `-1`, `&`, `<`, `"`, `]]>`}

type span struct {
	a, b   int // [a,b) of the value
	depth  int
	kind   byte   // JSON: s n l(iteral) a o ; kv: v ; xml: t(ext) q(attribute)
	key    string // JSON: member name ("" for the top value; "<name>[]" for the elements of an array member); kv: the key text
	ma, mb int    // JSON member / element incl. its separating comma, kv: the whole line, xml: the whole line of a single-line element (-1: none)
}

// ------------------------------------------------------------------------------------------------ JSON spans

type jparser struct {
	b     []byte
	i     int
	spans []span
	ok    bool
}

func (p *jparser) ws() {
	for p.i < len(p.b) && (p.b[p.i] == ' ' || p.b[p.i] == '\t' || p.b[p.i] == '\n' || p.b[p.i] == '\r') {
		p.i++
	}
}

func (p *jparser) str() bool {
	if p.i >= len(p.b) || p.b[p.i] != '"' {
		return false
	}
	p.i++
	for p.i < len(p.b) {
		switch p.b[p.i] {
		case '\\':
			p.i += 2
		case '"':
			p.i++
			return true
		default:
			p.i++
		}
	}
	return false
}

// value parses one value and records its span; returns the index of the span (-1 on error).
func (p *jparser) value(depth int, key string) int {
	p.ws()
	if p.i >= len(p.b) || len(p.spans) > 20000 || depth > 64 {
		return -1
	}
	idx := len(p.spans)
	p.spans = append(p.spans, span{a: p.i, depth: depth, ma: -1, mb: -1, key: key})
	switch c := p.b[p.i]; {
	case c == '"':
		if !p.str() {
			return -1
		}
		p.spans[idx].kind = 's'
	case c == '{' || c == '[':
		closer := byte('}')
		p.spans[idx].kind = 'o'
		if c == '[' {
			closer, p.spans[idx].kind = ']', 'a'
		}
		p.i++
		p.ws()
		if p.i < len(p.b) && p.b[p.i] == closer {
			p.i++
			break
		}
		for {
			p.ws()
			ma := p.i
			ckey := key + "[]"
			if c == '{' {
				if !p.str() {
					return -1
				}
				ckey = string(p.b[ma:p.i])
				p.ws()
				if p.i >= len(p.b) || p.b[p.i] != ':' {
					return -1
				}
				p.i++
			}
			k := p.value(depth+1, ckey)
			if k < 0 {
				return -1
			}
			p.spans[k].ma, p.spans[k].mb = ma, p.i
			p.ws()
			if p.i >= len(p.b) {
				return -1
			}
			if p.b[p.i] == ',' {
				p.i++
				continue
			}
			if p.b[p.i] == closer {
				p.i++
				break
			}
			return -1
		}
	default:
		j := p.i
		for j < len(p.b) && !strings.ContainsRune(" \t\r\n,]}:", rune(p.b[j])) {
			j++
		}
		if j == p.i {
			return -1
		}
		tok := string(p.b[p.i:j])
		p.spans[idx].kind = 'l'
		if _, err := strconv.ParseFloat(tok, 64); err == nil {
			p.spans[idx].kind = 'n'
		} else if tok != "true" && tok != "false" && tok != "null" {
			return -1
		}
		p.i = j
	}
	p.spans[idx].b = p.i
	return idx
}

func jsonSpans(b []byte) []span {
	p := &jparser{b: b}
	if p.value(0, "") < 0 {
		return nil
	}
	p.ws()
	if p.i != len(p.b) {
		return nil
	}
	return p.spans
}

// ------------------------------------------------------------------------------------------------ key/value and XML spans

var (
	reKV      = regexp.MustCompile(`(?m)^[ \t]*(?:-[ \t]+)?["']?[A-Za-z_][A-Za-z0-9_.\-/]*["']?[ \t]*[:=][ \t]*([^\r\n]*?)[ \t]*\r?$`)
	reItem    = regexp.MustCompile(`(?m)^[ \t]*-[ \t]+([^\r\n:=]*?)[ \t]*\r?$`)
	reXMLText = regexp.MustCompile(`>([^<>\r\n]+)<`)
	reXMLAttr = regexp.MustCompile(`[A-Za-z_:][\w:.\-]*="([^"\r\n]*)"`)
	reXMLLine = regexp.MustCompile(`(?m)^[ \t]*<([A-Za-z_][\w:.\-]*)(?:\s[^<>\r\n]*)?>[^<>\r\n]*</[A-Za-z_][\w:.\-]*>[ \t]*\r?\n`)
	reNumber  = regexp.MustCompile(`\d+`)
	reVerTag  = regexp.MustCompile(`^v?\d+(\.\d+){0,3}$`)
)

func lineOf(b []byte, at int) (int, int) {
	s := bytes.LastIndexByte(b[:at], '\n') + 1
	e := bytes.IndexByte(b[at:], '\n')
	if e < 0 {
		return s, len(b)
	}
	return s, at + e + 1
}

func kvSpans(b []byte) []span {
	var out []span
	for _, re := range []*regexp.Regexp{reKV, reItem} {
		for _, m := range re.FindAllSubmatchIndex(b, 4000) {
			ls, le := lineOf(b, m[0])
			depth := 0
			for i := ls; i < le && (b[i] == ' ' || b[i] == '\t'); i++ {
				depth++
			}
			out = append(out, span{a: m[2], b: m[3], depth: depth, kind: 'v', ma: ls, mb: le, key: strings.TrimSpace(string(b[ls:m[2]]))})
		}
	}
	sort.SliceStable(out, func(i, j int) bool { return out[i].a < out[j].a })
	return out
}

func xmlSpans(b []byte) []span {
	var out []span
	for _, m := range reXMLText.FindAllSubmatchIndex(b, 4000) {
		if len(bytes.TrimSpace(b[m[2]:m[3]])) == 0 {
			continue
		}
		out = append(out, span{a: m[2], b: m[3], kind: 't', ma: -1, mb: -1})
	}
	for _, m := range reXMLAttr.FindAllSubmatchIndex(b, 4000) {
		out = append(out, span{a: m[2], b: m[3], kind: 'q', ma: -1, mb: -1})
	}
	sort.SliceStable(out, func(i, j int) bool { return out[i].a < out[j].a })
	return out
}

func xmlLines(b []byte) []span {
	var out []span
	for _, m := range reXMLLine.FindAllIndex(b, 2000) {
		out = append(out, span{a: m[0], b: m[1], ma: m[0], mb: m[1]})
	}
	return out
}

// ------------------------------------------------------------------------------------------------ operators

func splice(b []byte, a, e int, with string) []byte {
	out := make([]byte, 0, len(b)-(e-a)+len(with))
	out = append(out, b[:a]...)
	out = append(out, with...)
	return append(out, b[e:]...)
}

// shallowFirst orders span indexes by (the key occurred earlier in this file at that depth, depth, position): the members of the first
// element of an array of similar records come before the same members of the other 49 (a pure function of the file: `t<k>` is stable).
func shallowFirst(sp []span, keep func(s span) bool) []int {
	var ix []int
	dup := map[int]bool{}
	seen := map[string]bool{}
	for i, s := range sp {
		if keep(s) {
			ix = append(ix, i)
			k := strconv.Itoa(s.depth) + "/" + s.key
			if s.key != "" && seen[k] {
				dup[i] = true
			}
			seen[k] = true
		}
	}
	sort.SliceStable(ix, func(i, j int) bool {
		a, b := ix[i], ix[j]
		if dup[a] != dup[b] {
			return !dup[a]
		}
		return sp[a].depth < sp[b].depth
	})
	return ix
}

// docKeys: the distinct (depth, key) pairs of a file (plan time: fixtures are chosen so that few of them cover many keys).
func docKeys(b []byte) map[string]bool {
	d := newSdoc(b, nil)
	out := map[string]bool{}
	for _, sp := range [][]span{d.js, d.kv} {
		for _, s := range sp {
			if s.key != "" {
				out[strconv.Itoa(s.depth)+"/"+s.key] = true
			}
		}
	}
	if len(d.xt) > 0 {
		out["xml"] = true
	}
	return out
}

// deleteMember removes [ma,mb) of a JSON member / element together with ONE adjacent comma.
func deleteMember(b []byte, s span) []byte {
	a, e := s.ma, s.mb
	j := e
	for j < len(b) && (b[j] == ' ' || b[j] == '\t' || b[j] == '\n' || b[j] == '\r') {
		j++
	}
	if j < len(b) && b[j] == ',' {
		return splice(b, a, j+1, "")
	}
	i := a
	for i > 0 && (b[i-1] == ' ' || b[i-1] == '\t' || b[i-1] == '\n' || b[i-1] == '\r') {
		i--
	}
	if i > 0 && b[i-1] == ',' {
		return splice(b, i-1, e, "")
	}
	return splice(b, a, e, "")
}

// affixStrings: strings made of a keyword used as prefix and a keyword used as suffix, overlapping by o = 0.. characters, and with one
// character between them — the boundary lengths around "prefix and suffix both match".
func affixStrings(kws []string) []string {
	// keywords of at most 8 bytes, those with delimiter characters (anything but letters and digits) first
	var short, plain []string
	for _, k := range kws {
		if len(k) < 1 || len(k) > 8 || strings.ContainsAny(k, "\"\\\n") {
			continue
		}
		if strings.IndexFunc(k, func(r rune) bool { return !(r >= 'a' && r <= 'z' || r >= 'A' && r <= 'Z' || r >= '0' && r <= '9') }) >= 0 {
			short = append(short, k)
		} else {
			plain = append(plain, k)
		}
	}
	short = append(short, plain...)
	if len(short) > 10 {
		short = short[:10]
	}
	seen := map[string]bool{}
	var out []string
	add := func(s string) {
		if !seen[s] && len(out) < 48 {
			seen[s] = true
			out = append(out, s)
		}
	}
	for _, p := range short {
		for _, q := range short {
			for o := 1; o <= len(p) && o <= len(q); o++ {
				if p[len(p)-o:] == q[:o] {
					add(p + q[o:])
				}
			}
		}
	}
	for _, p := range short {
		add(p)
		for _, q := range short {
			add(p + q)
			add(p + "x" + q)
		}
	}
	return out
}

func verNeighbours(v string) []string {
	pre := ""
	if strings.HasPrefix(v, "v") {
		pre, v = "v", v[1:]
	}
	parts := strings.Split(v, ".")
	n, _ := strconv.Atoi(parts[0])
	var out []string
	for _, m := range []int{n - 1, n + 1, 0} {
		if m >= 0 && m != n {
			out = append(out, pre+strings.Join(append([]string{strconv.Itoa(m)}, parts[1:]...), "."))
		}
	}
	out = append(out, pre+v+".0", pre+parts[0], pre+"999999999", pre+"00", pre)
	return out[:5]
}

type sop struct {
	name    string
	targets func(d *sdoc) []int         // span indexes (into the operator's span list), shallow-first
	apply   func(d *sdoc, t int) []byte // t = one of targets
}

type sdoc struct {
	b              []byte
	js, kv, xt, xl []span
	kws            []string
	affix          []string
	toks           []string
}

func newSdoc(b []byte, kws []string) *sdoc {
	d := &sdoc{b: b, kws: kws}
	if len(b) == 0 || len(b) > 512<<10 || !utf8.Valid(b) || bytes.IndexByte(b, 0) >= 0 {
		return d
	}
	t := bytes.TrimSpace(b)
	if len(t) > 0 && (t[0] == '{' || t[0] == '[') {
		d.js = jsonSpans(b)
	}
	if d.js == nil {
		if len(t) > 0 && t[0] == '<' {
			d.xt, d.xl = xmlSpans(b), xmlLines(b)
		} else {
			d.kv = kvSpans(b)
		}
	}
	d.affix = affixStrings(kws)
	return d
}

func quoteJSON(s string) string {
	var sb strings.Builder
	sb.WriteByte('"')
	for _, c := range []byte(s) {
		switch {
		case c == '"' || c == '\\':
			sb.WriteByte('\\')
			sb.WriteByte(c)
		case c < 0x20:
			sb.WriteString(`\u00` + strconv.FormatInt(int64(c)+0x100, 16)[1:])
		default:
			sb.WriteByte(c)
		}
	}
	sb.WriteByte('"')
	return sb.String()
}

// structOps is the operator table; the order is the order of the sweep.
var structOps = func() []sop {
	var ops []sop
	all := func(d *sdoc) []int { return shallowFirst(d.js, func(span) bool { return true }) }
	for i, tok := range jsonTokens {
		tok := tok
		ops = append(ops, sop{"jrep" + strconv.Itoa(i), all, func(d *sdoc, t int) []byte { return splice(d.b, d.js[t].a, d.js[t].b, tok) }})
	}
	nums := func(d *sdoc) []int { return shallowFirst(d.js, func(s span) bool { return s.kind == 'n' }) }
	for i, tok := range numTokens {
		tok := tok
		ops = append(ops, sop{"jnum" + strconv.Itoa(i), nums, func(d *sdoc, t int) []byte { return splice(d.b, d.js[t].a, d.js[t].b, tok) }})
	}
	ops = append(ops,
		sop{"jdel", func(d *sdoc) []int {
			return shallowFirst(d.js, func(s span) bool { return s.ma >= 0 && s.ma < s.a && d.b[s.ma] == '"' })
		}, func(d *sdoc, t int) []byte { return deleteMember(d.b, d.js[t]) }},
		sop{"jdelel", func(d *sdoc) []int {
			return shallowFirst(d.js, func(s span) bool { return s.ma >= 0 && s.ma == s.a })
		}, func(d *sdoc, t int) []byte { return deleteMember(d.b, d.js[t]) }},
		sop{"jinsnull", func(d *sdoc) []int {
			return shallowFirst(d.js, func(s span) bool { return s.kind == 'a' && s.b-s.a > 2 })
		}, func(d *sdoc, t int) []byte { return splice(d.b, d.js[t].a+1, d.js[t].a+1, "null,") }})
	vers := func(d *sdoc) []int {
		return shallowFirst(d.js, func(s span) bool { return s.kind == 's' && reVerTag.Match(d.b[s.a+1:s.b-1]) })
	}
	for i := 0; i < 5; i++ {
		i := i
		ops = append(ops, sop{"jver" + strconv.Itoa(i), vers, func(d *sdoc, t int) []byte {
			return splice(d.b, d.js[t].a, d.js[t].b, quoteJSON(verNeighbours(string(d.b[d.js[t].a+1 : d.js[t].b-1]))[i]))
		}})
	}
	strs := func(d *sdoc) []int {
		if len(d.affix) == 0 {
			return nil
		}
		// strings that already start / end with a keyword first
		ix := shallowFirst(d.js, func(s span) bool { return s.kind == 's' })
		sort.SliceStable(ix, func(i, j int) bool { return d.hasAffix(d.js[ix[i]]) && !d.hasAffix(d.js[ix[j]]) })
		return ix
	}
	for i := 0; i < 48; i++ {
		i := i
		ops = append(ops, sop{"jaffix" + strconv.Itoa(i), func(d *sdoc) []int {
			if i >= len(d.affix) {
				return nil
			}
			return strs(d)
		}, func(d *sdoc, t int) []byte { return splice(d.b, d.js[t].a, d.js[t].b, quoteJSON(d.affix[i])) }})
	}
	kvall := func(d *sdoc) []int { return shallowFirst(d.kv, func(span) bool { return true }) }
	for i, tok := range kvTokens {
		tok := tok
		ops = append(ops, sop{"kvrep" + strconv.Itoa(i), kvall, func(d *sdoc, t int) []byte { return splice(d.b, d.kv[t].a, d.kv[t].b, tok) }})
	}
	kvnums := func(d *sdoc) []int {
		return shallowFirst(d.kv, func(s span) bool { return reNumber.Match(d.b[s.a:s.b]) })
	}
	for i, tok := range numTokens {
		tok := tok
		ops = append(ops, sop{"kvnum" + strconv.Itoa(i), kvnums, func(d *sdoc, t int) []byte {
			s := d.kv[t]
			loc := reNumber.FindIndex(d.b[s.a:s.b])
			return splice(d.b, s.a+loc[0], s.a+loc[1], tok)
		}})
	}
	ops = append(ops, sop{"kvdel", kvall, func(d *sdoc, t int) []byte { return splice(d.b, d.kv[t].ma, d.kv[t].mb, "") }})
	for i := 0; i < 48; i++ {
		i := i
		ops = append(ops, sop{"kvaffix" + strconv.Itoa(i), func(d *sdoc) []int {
			if i >= len(d.affix) {
				return nil
			}
			return kvall(d)
		}, func(d *sdoc, t int) []byte { return splice(d.b, d.kv[t].a, d.kv[t].b, d.affix[i]) }})
	}
	// single-value files (a version file, portage's PF, a pid file): the WHOLE content replaced by each of its own components and by short tokens
	for i := 0; i < 40; i++ {
		i := i
		ops = append(ops, sop{"tok" + strconv.Itoa(i), func(d *sdoc) []int {
			if i >= len(d.tokens()) {
				return nil
			}
			return []int{0}
		}, func(d *sdoc, _ int) []byte {
			t := d.tokens()[i]
			if bytes.HasSuffix(d.b, []byte("\n")) && i%2 == 0 {
				t += "\n"
			}
			return []byte(t)
		}})
	}
	xall := func(d *sdoc) []int { return shallowFirst(d.xt, func(span) bool { return true }) }
	for i, tok := range xmlTokens {
		tok := tok
		ops = append(ops, sop{"xrep" + strconv.Itoa(i), xall, func(d *sdoc, t int) []byte { return splice(d.b, d.xt[t].a, d.xt[t].b, tok) }})
	}
	ops = append(ops, sop{"xdel", func(d *sdoc) []int { return shallowFirst(d.xl, func(span) bool { return true }) },
		func(d *sdoc, t int) []byte { return splice(d.b, d.xl[t].a, d.xl[t].b, "") }})
	return ops
}()

var shortTokens = []string{"r1", "1", "1.0", "-", "--", "-1", "a", "a-", "-a", "a-1", "_", ".", "r", "v1", "0", "-r1", "a-r1", "a-1-r1", "1-r1", " r1 "}

// tokens: for a small text file of at most four lines, its components (split at - _ . / : @ = and blanks), the last two and the first two of them
// joined again, and shortTokens; nil for anything else.
func (d *sdoc) tokens() []string {
	if d.toks != nil || len(d.b) == 0 || len(d.b) > 256 || !utf8.Valid(d.b) || bytes.Count(d.b, []byte("\n")) > 4 || bytes.IndexByte(d.b, 0) >= 0 {
		return d.toks
	}
	txt := strings.TrimSpace(string(d.b))
	seen := map[string]bool{}
	add := func(t string) {
		if t != "" && !seen[t] && t != txt && len(d.toks) < 40 {
			seen[t] = true
			d.toks = append(d.toks, t)
		}
	}
	parts := strings.FieldsFunc(txt, func(r rune) bool { return strings.ContainsRune("-_./:@= \t\n", r) })
	for _, t := range shortTokens {
		add(t)
	}
	for _, p := range parts {
		add(p)
	}
	if n := len(parts); n >= 2 {
		add(parts[n-2] + "-" + parts[n-1])
		add(parts[0] + "-" + parts[1])
		add(parts[n-1] + "-" + parts[0])
	}
	return d.toks
}

func (d *sdoc) hasAffix(s span) bool {
	v := string(d.b[s.a+1 : s.b-1])
	for _, k := range d.kws {
		if len(k) >= 2 && len(k) <= 8 && (strings.HasPrefix(v, k) || strings.HasSuffix(v, k)) {
			return true
		}
	}
	return false
}

var structOpByName = func() map[string]sop {
	m := map[string]sop{}
	for _, o := range structOps {
		m[o.name] = o
	}
	return m
}()

// opFamily: jrep3 -> jrep (budgets are per family)
func opFamily(name string) string { return strings.TrimRight(name, "0123456789") }

// structMutate regenerates the bytes of `st:<op>:<k>`.
func structMutate(class string, orig []byte, kws []string) []byte {
	f := strings.Split(class, ":")
	if len(f) != 3 {
		panic("c02gen: bad structural class " + class)
	}
	op, ok := structOpByName[f[1]]
	k, err := strconv.Atoi(strings.TrimPrefix(f[2], "t"))
	if !ok || err != nil {
		panic("c02gen: bad structural class " + class)
	}
	d := newSdoc(orig, kws)
	ts := op.targets(d)
	if k >= len(ts) {
		return orig // the fixture changed: the sha guard of the case line reports it
	}
	return op.apply(d, ts[k])
}

// structPlan lists the (op, k) pairs of the sweep over one file: per operator family at most `perFamily` targets (shallow-first), every
// operator of the family applied to each of them in the thorough tier, and rotated over the targets in the quick tier so that every
// operator occurs (quick: each target gets `perTarget` operators of the family, the null-like ones first).
func structPlan(orig []byte, kws []string, perFamily, perTarget int) []string {
	d := newSdoc(orig, kws)
	byFam := map[string][]sop{}
	var fams []string
	for _, o := range structOps {
		f := opFamily(o.name)
		if _, ok := byFam[f]; !ok {
			fams = append(fams, f)
		}
		byFam[f] = append(byFam[f], o)
	}
	var out []string
	tg := map[string][]int{}
	for _, o := range structOps {
		tg[o.name] = o.targets(d)
	}
	for _, f := range fams {
		var live []sop
		n := 0
		for _, o := range byFam[f] {
			if k := len(tg[o.name]); k > 0 {
				live = append(live, o)
				if k > n {
					n = k
				}
			}
		}
		if len(live) == 0 {
			continue
		}
		if n > perFamily {
			n = perFamily
		}
		pt := perTarget
		if f == "tok" {
			pt = 0 // a small single-value file: every token
		}
		if strings.HasSuffix(f, "affix") && perTarget > 0 { // the overlapping prefix+suffix strings come first in d.affix: the first 8 on the first 6 targets
			pt = 8
			if n > 6 {
				n = 6
			}
		}
		for k := 0; k < n; k++ {
			picked := map[string]bool{}
			pick := func(o sop) {
				if !picked[o.name] && k < len(tg[o.name]) {
					picked[o.name] = true
					out = append(out, "st:"+o.name+":t"+strconv.Itoa(k))
				}
			}
			if pt <= 0 || pt >= len(live) {
				for _, o := range live {
					pick(o)
				}
				continue
			}
			if f == "jrep" { // null and [null] for every target, the other tokens in rotation
				pick(structOpByName["jrep0"])
				pick(structOpByName["jrep5"])
			}
			if strings.HasSuffix(f, "affix") {
				for j := 0; j < pt; j++ {
					pick(live[j])
				}
				continue
			}
			for j := 0; j < pt; j++ {
				pick(live[(k*pt+j)%len(live)])
			}
		}
	}
	return out
}
