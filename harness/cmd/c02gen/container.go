package main

// Member-level mutations: structurally VALID containers whose inner members are broken. Two extractors read
// zip archives (python/wheelegg: *.egg; java/archive: jar/war/ear/… incl. nested jars); no built-in
// filesystem extractor reads tar. The outer-byte mutations of mutate.go almost always destroy the zip
// central directory, so the extractor's per-member code is never reached with bad content; these classes
// keep the archive intact and damage what is inside:
//   zipmem   the fixture IS a zip: rebuild it with one member's CONTENT mutated (emptied, truncated, header
//            lines dropped, any byte-level class), optionally duplicated under another metadata name
//   zipwrap  the fixture's (mutated) bytes become a member of a fresh zip, stored under a metadata entry name
//            (EGG-INFO/PKG-INFO, *.egg-info, *.dist-info/METADATA, META-INF/MANIFEST.MF, pom.properties,
//            a nested *.jar …), next to 0-2 further members (healthy / empty / garbage)
//   zipmeta:* (generic, seed-independent) one zip holding every metadata entry name with empty content, with
//            a name but no version, with garbage, and with a member whose deflate stream is corrupted
// Everything is a pure function of (class, seed, fixture bytes), like the other mutation classes.

import (
	"archive/zip"
	"bytes"
	"io"
	"math/rand"
	"strings"
)

// metaNames: entry names the zip-reading extractors treat as metadata (plus a neutral one).
var metaNames = []string{
	"EGG-INFO/PKG-INFO", "pkg-1.0.egg-info", "pkg-1.0.egg-info/PKG-INFO", "pkg-1.0.dist-info/METADATA",
	"META-INF/MANIFEST.MF", "META-INF/maven/org.example/lib/pom.properties", "pom.properties",
	"lib/inner.jar", "BOOT-INF/lib/inner-1.0.jar", "WEB-INF/lib/x.war", "README.txt",
}

type zmember struct {
	name   string
	data   []byte
	method uint16
}

func buildZip(ms []zmember) []byte {
	var buf bytes.Buffer
	zw := zip.NewWriter(&buf)
	for _, m := range ms {
		w, err := zw.CreateHeader(&zip.FileHeader{Name: m.name, Method: m.method})
		if err != nil {
			continue
		}
		_, _ = w.Write(m.data)
	}
	_ = zw.Close()
	return buf.Bytes()
}

// corruptMember flips a byte inside the stored data of the first member (the central directory stays valid:
// the reader opens the archive, the member fails with a flate / checksum error when read).
func corruptMember(z []byte, r *rand.Rand) []byte {
	if len(z) < 64 || !bytes.HasPrefix(z, []byte("PK\x03\x04")) {
		return z
	}
	nameLen := int(z[26]) | int(z[27])<<8
	extraLen := int(z[28]) | int(z[29])<<8
	start := 30 + nameLen + extraLen
	end := bytes.Index(z[start:], []byte("PK\x01\x02"))
	if end <= 0 {
		return z
	}
	if nx := bytes.Index(z[start:], []byte("PK\x03\x04")); nx > 0 && nx < end {
		end = nx
	}
	out := clone(z)
	out[start+r.Intn(end)] ^= byte(1 + r.Intn(255))
	return out
}

var headerPrefixes = []string{"Name:", "Version:", "Metadata-Version:", "Implementation-Version:", "Implementation-Title:", "Bundle-Version:",
	"Bundle-SymbolicName:", "version=", "artifactId=", "groupId=", "Manifest-Version:"}

// innerMutate damages the content of ONE member.
func innerMutate(r *rand.Rand, data []byte, other func(r *rand.Rand) []byte) []byte {
	switch r.Intn(10) {
	case 0, 1:
		return nil // empty member
	case 2: // drop the header lines that carry name / version
		var out [][]byte
		drop := headerPrefixes[r.Intn(len(headerPrefixes))]
		all := r.Intn(2) == 0
		for _, l := range splitLines(data) {
			t := strings.TrimSpace(string(l))
			hit := strings.HasPrefix(t, drop)
			if all {
				hit = false
				for _, p := range headerPrefixes[:2] {
					hit = hit || strings.HasPrefix(t, p)
				}
				hit = hit || strings.HasPrefix(t, "version=") || strings.HasPrefix(t, "Implementation-Version:")
			}
			if !hit {
				out = append(out, l)
			}
		}
		return joinLines(out)
	case 3:
		if len(data) == 0 {
			return nil
		}
		return clone(data[:r.Intn(len(data))])
	case 4:
		return []byte(confusions[r.Intn(len(confusions))])
	case 5:
		return data
	default:
		return mutate(mutClasses[r.Intn(len(mutClasses))], r.Int63(), data, other)
	}
}

func fillerMember(r *rand.Rand, other func(r *rand.Rand) []byte) []byte {
	switch r.Intn(5) {
	case 0:
		return nil
	case 1:
		return []byte("Metadata-Version: 2.1\nName: healthy\nVersion: 1.0\n")
	case 2:
		return []byte("version=1.0\ngroupId=org.example\nartifactId=lib\n")
	case 3:
		return []byte("\x00\xff\xfe garbage \r\n: :\n")
	default:
		return other(r)
	}
}

func method(r *rand.Rand) uint16 {
	if r.Intn(3) == 0 {
		return zip.Store
	}
	return zip.Deflate
}

func zipWrap(r *rand.Rand, orig []byte, other func(r *rand.Rand) []byte) []byte {
	ms := []zmember{{name: metaNames[r.Intn(len(metaNames))], data: innerMutate(r, orig, other), method: method(r)}}
	for k := r.Intn(3); k > 0; k-- {
		ms = append(ms, zmember{name: metaNames[r.Intn(len(metaNames))], data: fillerMember(r, other), method: method(r)})
	}
	r.Shuffle(len(ms), func(i, j int) { ms[i], ms[j] = ms[j], ms[i] })
	z := buildZip(ms)
	if r.Intn(8) == 0 {
		z = corruptMember(z, r)
	}
	return z
}

func isMetaName(n string) bool {
	for _, s := range []string{"PKG-INFO", ".egg-info", "METADATA", "MANIFEST.MF", "pom.properties", ".jar", ".war", ".ear"} {
		if strings.HasSuffix(n, s) {
			return true
		}
	}
	return false
}

func zipMember(r *rand.Rand, orig []byte, other func(r *rand.Rand) []byte) []byte {
	zr, err := zip.NewReader(bytes.NewReader(orig), int64(len(orig)))
	if err != nil || len(zr.File) == 0 {
		return zipWrap(r, orig, other)
	}
	var ms []zmember
	var metas []int
	total := 0
	for _, f := range zr.File {
		if strings.HasSuffix(f.Name, "/") {
			continue
		}
		rc, err := f.Open()
		if err != nil {
			continue
		}
		b, _ := io.ReadAll(io.LimitReader(rc, 1<<20))
		rc.Close()
		total += len(b)
		if total > 4<<20 || len(ms) >= 400 {
			break
		}
		if isMetaName(f.Name) {
			metas = append(metas, len(ms))
		}
		ms = append(ms, zmember{name: f.Name, data: b, method: f.Method})
	}
	if len(ms) == 0 {
		return zipWrap(r, orig, other)
	}
	v := r.Intn(len(ms))
	if len(metas) > 0 && r.Intn(10) < 8 {
		v = metas[r.Intn(len(metas))]
	}
	ms[v].data = innerMutate(r, ms[v].data, other)
	switch r.Intn(6) {
	case 0: // the same (broken) content once more under another metadata name
		ms = append(ms, zmember{name: metaNames[r.Intn(len(metaNames))], data: ms[v].data, method: method(r)})
	case 1: // a second, different broken member
		w := r.Intn(len(ms))
		ms[w].data = innerMutate(r, ms[w].data, other)
	}
	z := buildZip(ms)
	if r.Intn(10) == 0 {
		z = corruptMember(z, r)
	}
	return z
}

func zipMeta(content string, corrupt bool) func() []byte {
	return func() []byte {
		var ms []zmember
		for _, n := range metaNames {
			c := []byte(content)
			if strings.HasSuffix(n, ".jar") || strings.HasSuffix(n, ".war") {
				c = buildZip([]zmember{{name: "META-INF/MANIFEST.MF", data: []byte(content), method: zip.Deflate}, {name: "pom.properties", data: []byte(content), method: zip.Store}})
			}
			ms = append(ms, zmember{name: n, data: c, method: zip.Deflate})
		}
		z := buildZip(ms)
		if corrupt {
			z = corruptMember(z, rand.New(rand.NewSource(7)))
		}
		return z
	}
}

func init() {
	genericDocs["zipmeta:empty"] = zipMeta("", false)
	genericDocs["zipmeta:noversion"] = zipMeta("Metadata-Version: 2.1\nName: onlyname\nartifactId=onlyname\nImplementation-Title: onlyname\n", false)
	genericDocs["zipmeta:noname"] = zipMeta("Metadata-Version: 2.1\nVersion: 1.0\nversion=1.0\nImplementation-Version: 1.0\n", false)
	genericDocs["zipmeta:garbage"] = zipMeta("\x00\xff\xfe: :\r\n\r\n=\n[", false)
	genericDocs["zipmeta:healthy"] = zipMeta("Metadata-Version: 2.1\nName: pkg\nVersion: 1.0\ngroupId=org.example\nartifactId=lib\nversion=1.0\n", false)
	genericDocs["zipmeta:badflate"] = zipMeta(strings.Repeat("Name: pkg\nVersion: 1.0\n", 40), true)
	genericDocs["zipmeta:nomembers"] = func() []byte { return buildZip(nil) }
	// own-<extractor tag>-…: documents planned for ONE extractor only (ownDocs), reaching branches no testdata file of /repo reaches.
	// java/archive, manifest.go: the Apache Maven Bundle Plugin rule (artifact id = last part of Bundle-SymbolicName) and the place-holder
	// artifact ids ("${…}", "%pluginName") that must be passed over.
	mf := func(content string) func() []byte {
		return func() []byte {
			return buildZip([]zmember{{name: "META-INF/MANIFEST.MF", data: []byte("Manifest-Version: 1.0\r\n" + content), method: zip.Deflate}})
		}
	}
	// rust/cargotoml: dependency tables whose version / rev / git are not strings (UnmarshalTOML's getString errors)
	genericDocs["own-cargotoml-version-int"] = lit("[package]\nname = \"a\"\nversion = \"1.0.0\"\n[dependencies]\nb = { version = 1 }\n")
	genericDocs["own-cargotoml-rev-int"] = lit("[package]\nname = \"a\"\nversion = \"1.0.0\"\n[dependencies]\nb = { git = \"https://x/y\", rev = 2 }\n")
	genericDocs["own-cargotoml-git-int"] = lit("[package]\nname = \"a\"\nversion = \"1.0.0\"\n[dependencies]\nb = { git = 3, tag = [1] }\nc = 4\n")
	// os/pacman: a line beyond bufio.Scanner's token limit inside the %DEPENDS% block / as the value of %NAME%
	genericDocs["own-pacman-longdep"] = lit("%NAME%\nzlib\n\n%VERSION%\n1.3.1-2\n\n%DEPENDS%\nglibc\n" + strings.Repeat("a", 70000) + "\n\n")
	genericDocs["own-pacman-longname"] = lit("%NAME%\n" + strings.Repeat("a", 70000) + "\n\n%VERSION%\n1\n")
	genericDocs["own-pacman-nodepend-end"] = lit("%NAME%\nzlib\n\n%VERSION%\n1.3.1-2\n\n%DEPENDS%\nglibc")
	// python/requirements: comparison operators in odd places (getLowestVersion)
	genericDocs["own-req-operators"] = lit("a>=1,<2\nb==\nc===1==2\nd~=1.0,!=1.1\ne<1,>0\n==1\nf>=\ng==1;python_version<'3'\nh @ file:///x\n")
	for k, v := range map[string]string{
		"bundle":        "Created-By: Apache Maven Bundle Plugin\r\nBundle-SymbolicName: com.google.guava.failureaccess\r\nBundle-Version: 1.0.1\r\nImplementation-Vendor-Id: com.google.guava\r\n",
		"bundle-noname": "Created-By: Apache Maven Bundle Plugin\r\nBundle-Version: 1.0.1\r\nImplementation-Vendor-Id: com.google.guava\r\n",
		"bundle-dot":    "Created-By: Apache Maven Bundle Plugin\r\nBundle-SymbolicName: com.google.guava.\r\nBundle-Version: 1.0.1\r\nBundle-Name: x\r\n",
		"bundle-dollar": "Created-By: Apache Maven Bundle Plugin\r\nBundle-SymbolicName: org.${bundle}\r\nBundle-Version: 1.0.1\r\nImplementation-Title: ${project.name}\r\nBundle-Name: %pluginName\r\nName: ok\r\nImplementation-Vendor-Id: org.x\r\n",
		"percent":       "Bundle-SymbolicName: %pluginName\r\nBundle-Name: %pluginName\r\nImplementation-Title: %t\r\nName: %n\r\nBundle-Version: 2.0\r\nImplementation-Vendor-Id: org.x\r\n",
		"axis":          "Name: org/apache/axis\r\nImplementation-Version: 1.4\r\nImplementation-Vendor-Id: org.apache\r\n",
	} {
		genericDocs["own-jar-"+k] = mf(v)
	}
}

// containerPaths: extractors that read zip containers -> the accepted path names a container is presented at.
var containerPaths = map[string][]string{
	"python/wheelegg": {"usr/lib/python3/site-packages/pkg-1.0-py3.10.egg"},
	"java/archive":    {"app/lib.jar", "app/app.war"},
}
