package main

// reqtree: requirements files that include each other.
//
// A case is a small file system: a top-level requirements file (the scan input) and 0..7 other files in the same
// directory, in sub-directories and in sibling directories. Every file is a generated requirements file (genReq's
// records and fillers) with include lines between its records:
//
//	-r <operand>      followed by the extractor; the operand is RELATIVE TO THE DIRECTORY OF THE FILE THAT CONTAINS THE LINE
//	                  (spellings: "-r x", "-rx", "-r  x", "-r\tx", "./x", "d/../x", "../d/x")
//	--requirement x, --requirement=x, -c x, --constraint x      NOT followed ("global options other than -r are not implemented")
//
// Shapes: include chains of depth 1..4 through sub-directories and "../", several routes to one file, cycles (also back to
// the top-level file), self-includes, targets that do not exist or leave the root, and DECOYS: when a file in another
// directory includes a neighbour by its bare name, a file of the same name with other packages may be put next to the
// top-level file (an implementation that resolves against the wrong directory reads it).
//
// Expected (the generator's own closure, computed with package `path`, not with the extractor's code): the pins of the
// top-level file with Locations [top], and the pins of every other existing file reachable through followed include lines,
// each file once, with Locations [top, file] — as requirements.go documents ("Note the path through which we refer to this
// requirements.txt file").
//
// Case line:  reqtree <hex top bytes> <expected> T:<hex top path>:<hex reachable paths in discovery order, ','-joined, or '-'>
//	                  F:<hex path>:<hex content|->:<R token|->  (one per file of the file system, the top-level file included)
// expected / pk entries: hex(name)@hex(version)@hex(location)/hex(location)

import (
	"encoding/hex"
	"math/rand"
	"path"
	"sort"
	"strings"
)

type gfile struct {
	path string
	data []byte
	rtok string
}

type tinc struct {
	line     string // the line as written
	operand  string
	followed bool
}

type tnode struct {
	path string
	recs []reqRec
	incs []tinc
	core bool
}

var treeDirs = []string{"", "", "reqs", "reqs/sub", "common", "app", "deps/py", "requirements"}

func hexList(ps []string) string {
	if len(ps) == 0 {
		return "-"
	}
	xs := make([]string, len(ps))
	for i, p := range ps {
		xs[i] = hexs(p)
	}
	return strings.Join(xs, ",")
}

// relTo writes target relative to directory dir (both clean, slash-separated, relative to the root).
func relTo(dir, target string) string {
	var d []string
	if dir != "" && dir != "." {
		d = strings.Split(dir, "/")
	}
	t := strings.Split(target, "/")
	i := 0
	for i < len(d) && i < len(t)-1 && d[i] == t[i] {
		i++
	}
	return strings.Repeat("../", len(d)-i) + strings.Join(t[i:], "/")
}

func dirOf(p string) string {
	d := path.Dir(p)
	if d == "." {
		return ""
	}
	return d
}

// spell decorates an operand without changing what it denotes.
func spellOperand(r *rand.Rand, from, operand string) string {
	switch r.Intn(8) {
	case 0:
		if !strings.HasPrefix(operand, "../") {
			return "./" + operand
		}
	case 1:
		return "x/../" + operand
	case 2:
		if d := dirOf(from); d != "" { // down and up again through the own directory
			return "../" + path.Base(d) + "/" + operand
		}
	case 3:
		return strings.Replace(operand, "/", "//", 1)
	}
	return operand
}

func incLine(r *rand.Rand, operand string, followed bool) string {
	if followed {
		return pick(r, []string{"-r ", "-r ", "-r ", "-r", "-r  ", "-r\t"}) + operand
	}
	return pick(r, []string{"--requirement ", "--requirement=", "-c ", "--constraint ", "--requirement  "}) + operand
}

var treeNames = []string{"base.txt", "pinned.txt", "dev.txt", "test.txt", "prod.txt", "common.txt", "requirements.txt", "constraints.txt", "extra-requirements.txt", "a.txt"}

// treeFiller: the filler lines of genReq without include lines and environment variables (every include of a tree is deliberate).
func treeFiller(r *rand.Rand) []string {
	for {
		f := reqFiller(r)
		ok := true
		for _, l := range f {
			if strings.HasPrefix(strings.TrimSpace(l), "-r") || strings.Contains(l, "${") {
				ok = false
			}
		}
		if ok {
			return f
		}
	}
}

// genTree builds the abstract tree; nodes[0] is the top-level file.
func genTree(r *rand.Rand) []*tnode {
	topDir := pick(r, []string{"", "", "", "app", "deps/py"})
	topName := pick(r, []string{"requirements.txt", "requirements.txt", "requirements-dev.txt", "dev-requirements.txt", "requirements_test.txt"})
	nodes := []*tnode{{path: path.Join(topDir, topName)}}
	used := map[string]bool{nodes[0].path: true}
	n := r.Intn(8)
	for len(nodes) < 1+n {
		p := path.Join(pick(r, treeDirs), pick(r, treeNames))
		if used[p] {
			continue
		}
		used[p] = true
		nodes = append(nodes, &tnode{path: p})
	}
	addInc := func(from *tnode, target string, followed bool) {
		op := relTo(dirOf(from.path), target)
		op = spellOperand(r, from.path, op)
		from.incs = append(from.incs, tinc{incLine(r, op, followed), op, followed})
	}
	// a spanning structure (chains through the directories) …
	for i := 1; i < len(nodes); i++ {
		if r.Intn(7) != 0 {
			addInc(nodes[r.Intn(i)], nodes[i].path, r.Intn(9) != 0)
		}
	}
	// … extra routes, cycles, self-includes, missing targets, paths that leave the root
	for k := r.Intn(len(nodes) + 1); k > 0; k-- {
		from := nodes[r.Intn(len(nodes))]
		switch r.Intn(8) {
		case 0:
			addInc(from, path.Join(pick(r, treeDirs), "missing.txt"), true)
		case 1:
			from.incs = append(from.incs, tinc{"-r ../../../outside.txt", "../../../outside.txt", true})
		case 2:
			addInc(from, from.path, true)
		default:
			addInc(from, nodes[r.Intn(len(nodes))].path, r.Intn(6) != 0)
		}
	}
	// decoys: a same-named file next to the top-level file for bare-name includes made from another directory
	for _, nd := range append([]*tnode{}, nodes...) {
		for _, in := range nd.incs {
			if strings.Contains(in.operand, "/") || dirOf(nd.path) == topDir || r.Intn(2) == 0 {
				continue
			}
			d := path.Join(topDir, in.operand)
			if !used[d] {
				used[d] = true
				nodes = append(nodes, &tnode{path: d})
			}
		}
	}
	coreTree := r.Intn(4) != 0
	for _, nd := range nodes {
		nd.core = coreTree
		k := r.Intn(4)
		if r.Intn(6) == 0 {
			k = nrec(r) % 12
		}
		nd.recs = make([]reqRec, k)
		for i := range nd.recs {
			nd.recs[i] = genReqRec(r)
			if nd.core {
				nd.recs[i].marker, nd.recs[i].hashes, nd.recs[i].cont, nd.recs[i].sp[0] = "", nil, false, ""
			}
		}
	}
	return nodes
}

// closure: the generator's own reading of the include lines (package path; every file once; discovery order).
func treeClosure(nodes []*tnode) (reach []string) {
	byPath := map[string]*tnode{}
	for _, nd := range nodes[1:] {
		byPath[nd.path] = nd
	}
	seen := map[string]bool{nodes[0].path: true}
	var visit func(nd *tnode)
	visit = func(nd *tnode) {
		for _, in := range nd.incs {
			if !in.followed {
				continue
			}
			t := path.Join(path.Dir(nd.path), in.operand)
			if seen[t] {
				continue
			}
			if c := byPath[t]; c != nil {
				seen[t] = true
				reach = append(reach, t)
				visit(c)
			}
		}
	}
	visit(nodes[0])
	return reach
}

func renderNode(r *rand.Rand, nd *tnode) gfile {
	// the include lines are spread over the gaps before the records and the end of the file
	slots := make([][]string, len(nd.recs)+1)
	for _, in := range nd.incs {
		i := r.Intn(len(slots))
		slots[i] = append(slots[i], in.line)
	}
	fill := r.Intn(3)
	filler := func() []string {
		if nd.core {
			return treeFiller(r)
		}
		f := reqFiller(r)
		for len(f) == 1 && strings.HasPrefix(f[0], "-r") {
			f = reqFiller(r)
		}
		return f
	}
	mix := func(incs []string) []string {
		var out []string
		for k := r.Intn(1 + fill); k > 0; k-- {
			out = append(out, filler()...)
		}
		for _, l := range incs {
			out = append(out, l)
			if r.Intn(3) == 0 {
				out = append(out, filler()...)
			}
		}
		return out
	}
	before := make([][]string, len(nd.recs))
	for i := range before {
		before[i] = mix(slots[i])
	}
	after := mix(slots[len(nd.recs)])
	e := randEols(r)
	if !e.final && len(after) > 0 && after[len(after)-1] == "" {
		e.final = true // an unterminated file cannot end in an empty line
	}
	data := renderReq(nd.recs, func(i int) []string { return before[i] }, after, e)
	return gfile{path: nd.path, data: data, rtok: rtTok()}
}

type nvl struct {
	name, ver string
	locs      []string
}

func listOfL(ps []nvl) string {
	if len(ps) == 0 {
		return "-"
	}
	xs := make([]string, len(ps))
	for i, p := range ps {
		ls := make([]string, len(p.locs))
		for j, l := range p.locs {
			ls[j] = hexs(l)
		}
		xs[i] = hexs(p.name) + "@" + hexs(p.ver) + "@" + strings.Join(ls, "/")
	}
	sort.Strings(xs)
	return strings.Join(xs, ",")
}

func treeTokens(top string, reach []string, files []gfile) string {
	var sb strings.Builder
	sb.WriteString("T:" + hexs(top) + ":" + hexList(reach))
	for _, f := range files {
		c := "-"
		if len(f.data) > 0 {
			c = hex.EncodeToString(f.data)
		}
		rt := f.rtok
		if rt == "" {
			rt = "-"
		}
		sb.WriteString(" F:" + hexs(f.path) + ":" + c + ":" + rt)
	}
	return sb.String()
}

func genReqTree(r *rand.Rand) gcase {
	nodes := genTree(r)
	files := make([]gfile, len(nodes))
	for i, nd := range nodes {
		files[i] = renderNode(r, nd)
	}
	reach := treeClosure(nodes)
	byPath := map[string]*tnode{}
	for _, nd := range nodes {
		byPath[nd.path] = nd
	}
	top := nodes[0].path
	var exp []nvl
	for _, q := range nodes[0].recs {
		exp = append(exp, nvl{q.name, q.ver, []string{top}})
	}
	for _, p := range reach {
		for _, q := range byPath[p].recs {
			exp = append(exp, nvl{q.name, q.ver, []string{top, p}})
		}
	}
	cls := "tree-files" + itoa(minI(len(nodes), 4)) + "-reach" + itoa(minI(len(reach), 3))
	return gcase{format: "reqtree", data: files[0].data, path: top, files: files, expectL: listOfL(exp), known: true, class: cls,
		rtok: treeTokens(top, reach, files)}
}

func itoa(i int) string { return string(rune('0' + i)) }

func minI(a, b int) int {
	if a < b {
		return a
	}
	return b
}

// odd include operands: only model / implementation agreement is checked (expected = ?)
var oddOperands = []string{"", " ", ".", "..", "/", "./", "../", "reqs", "reqs/", "/etc/requirements.txt", "a b.txt", "a.txt b.txt", "-r a.txt", "a.txt # c", "a.txt#c",
	"a.txt;x", "a[x].txt", "[x]a.txt", "a.txt\\", "${HOME}/a.txt", "a.txt --hash=sha256:ab", "-C", "a.txt -C x", "reqs\\base.txt", "a.TXT", "A.txt", "a.txt/", "a.txt/.", "a.txt/..", "./././a.txt",
	"../" + "x/" + "../a.txt", strings.Repeat("d/", 40) + "a.txt", strings.Repeat("../", 40) + "a.txt", "\xc3\xa9.txt", "a\x00.txt", "==1.0", "a.txt==1.0", "r", "-r", "--requirement a.txt"}

func badReqTree(r *rand.Rand) gcase {
	top := pick(r, []string{"requirements.txt", "app/requirements.txt"})
	names := []string{"a.txt", "reqs/a.txt", "reqs/base.txt", "app/a.txt", "b.txt", "reqs", "a.TXT"}
	var files []gfile
	line := func() string {
		switch r.Intn(4) {
		case 0:
			return pick(r, []string{"-r", "-r ", "-r\t", " -r ", "-r=", "-R ", "- r ", "-r-r "}) + pick(r, oddOperands)
		case 1:
			return "-r " + pick(r, names)
		case 2:
			return pick(r, reqPool)
		default:
			return "-r " + relTo(dirOf(top), pick(r, names))
		}
	}
	body := func() []byte {
		var ls []string
		for k := 1 + r.Intn(6); k > 0; k-- {
			ls = append(ls, line())
		}
		return []byte(strings.Join(ls, pick(r, []string{"\n", "\n", "\r\n"})) + pick(r, []string{"\n", ""}))
	}
	files = append(files, gfile{path: top, data: body()})
	for _, n := range names {
		if r.Intn(2) == 0 && n != "reqs" {
			files = append(files, gfile{path: n, data: body()})
		}
	}
	return gcase{format: "reqtree", data: files[0].data, path: top, files: files, class: "bad-tree", rtok: treeTokens(top, nil, files)}
}

// smallReqTree (thorough): the seed shapes — chain depth 1..3 x directory placement x decoy x cycle x spelling.
func smallReqTree(emit func(gcase)) {
	r := rand.New(rand.NewSource(7))
	tops := []string{"requirements.txt", "app/requirements.txt"}
	places := [][]string{{"base.txt", "pinned.txt", "leaf.txt"}, {"reqs/base.txt", "reqs/pinned.txt", "reqs/leaf.txt"}, {"reqs/base.txt", "reqs/sub/pinned.txt", "common/leaf.txt"},
		{"common/base.txt", "pinned.txt", "reqs/leaf.txt"}}
	for _, top := range tops {
		for _, pl := range places {
			for depth := 1; depth <= 3; depth++ {
				for decoy := 0; decoy < 2; decoy++ {
					for cyc := 0; cyc < 2; cyc++ {
						for sp := 0; sp < 3; sp++ {
							nodes := []*tnode{{path: top, core: true, recs: []reqRec{{name: "top", op: "==", ver: "1.0"}}}}
							for d := 0; d < depth; d++ {
								nodes = append(nodes, &tnode{path: pl[d], core: true, recs: []reqRec{{name: "pkg" + itoa(d), op: "==", ver: itoa(d+1) + ".0"}}})
							}
							for d := 0; d < depth; d++ {
								op := relTo(dirOf(nodes[d].path), nodes[d+1].path)
								nodes[d].incs = append(nodes[d].incs, tinc{[]string{"-r ", "-r", "-r  "}[sp] + op, op, true})
							}
							if cyc == 1 {
								last := nodes[depth]
								op := relTo(dirOf(last.path), nodes[r.Intn(depth)].path)
								last.incs = append(last.incs, tinc{"-r " + op, op, true})
							}
							if decoy == 1 {
								for d := 1; d <= depth; d++ {
									p := path.Join(dirOf(top), path.Base(nodes[d].path))
									dup := false
									for _, nd := range nodes {
										dup = dup || nd.path == p
									}
									if !dup {
										nodes = append(nodes, &tnode{path: p, core: true, recs: []reqRec{{name: "decoy" + itoa(d), op: "==", ver: "0"}}})
									}
								}
							}
							files := make([]gfile, len(nodes))
							for i, nd := range nodes {
								files[i] = renderNode(r, nd)
							}
							reach := treeClosure(nodes)
							byPath := map[string]*tnode{}
							for _, nd := range nodes {
								byPath[nd.path] = nd
							}
							exp := []nvl{{"top", "1.0", []string{top}}}
							for _, p := range reach {
								for _, q := range byPath[p].recs {
									exp = append(exp, nvl{q.name, q.ver, []string{top, p}})
								}
							}
							emit(gcase{format: "reqtree", data: files[0].data, path: top, files: files, expectL: listOfL(exp), known: true, class: "small-tree",
								rtok: treeTokens(top, reach, files)})
						}
					}
				}
			}
		}
	}
}
