package main

// Generators for the seven library-decoded formats. The harness has its own small JSON / TOML / go.mod writers
// so that layout (indentation, key order, line endings, final newline, unrelated fields) is under its control.

import (
	goversion "go/version"
	"bytes"
	"encoding/hex"
	"encoding/json"
	"fmt"
	"math/rand"
	"sort"
	"strings"

	"github.com/google/osv-scalibr/extractor/filesystem/language/dotnet/packageslockjson"
	"golang.org/x/mod/modfile"
)

// ---- ordered JSON -------------------------------------------------------------------------------------------

type jkv struct {
	k string
	v any
}
type jobj []jkv
type jarr []any

type jlayout struct {
	indent  string // "" = compact
	nl      string
	final   bool
	shuffle bool
	r       *rand.Rand
}

func randJLayout(r *rand.Rand) jlayout {
	l := jlayout{indent: pick(r, []string{"", "  ", "  ", "    ", "\t"}), nl: pick(r, []string{"\n", "\n", "\r\n"}), final: r.Intn(3) != 0, shuffle: r.Intn(2) == 0, r: r}
	return l
}

func (l jlayout) String() string {
	return fmt.Sprintf("ind%d-crlf%v-fin%v-shuf%v", len(l.indent), l.nl == "\r\n", l.final, l.shuffle)
}

func jstr(s string) string {
	b, err := json.Marshal(s)
	if err != nil {
		panic(err)
	}
	return string(b)
}

func (l jlayout) write(sb *strings.Builder, v any, depth int) {
	pad := func(d int) {
		if l.indent != "" {
			sb.WriteString(l.nl)
			sb.WriteString(strings.Repeat(l.indent, d))
		}
	}
	switch x := v.(type) {
	case jobj:
		if len(x) == 0 {
			sb.WriteString("{}")
			return
		}
		kvs := append(jobj{}, x...)
		if l.shuffle {
			l.r.Shuffle(len(kvs), func(i, j int) { kvs[i], kvs[j] = kvs[j], kvs[i] })
		}
		sb.WriteString("{")
		for i, kv := range kvs {
			if i > 0 {
				sb.WriteString(",")
			}
			pad(depth + 1)
			sb.WriteString(jstr(kv.k))
			sb.WriteString(":")
			if l.indent != "" {
				sb.WriteString(" ")
			}
			l.write(sb, kv.v, depth+1)
		}
		pad(depth)
		sb.WriteString("}")
	case jarr:
		if len(x) == 0 {
			sb.WriteString("[]")
			return
		}
		sb.WriteString("[")
		for i, e := range x {
			if i > 0 {
				sb.WriteString(",")
			}
			pad(depth + 1)
			l.write(sb, e, depth+1)
		}
		pad(depth)
		sb.WriteString("]")
	case string:
		sb.WriteString(jstr(x))
	case bool:
		fmt.Fprintf(sb, "%v", x)
	case int:
		fmt.Fprintf(sb, "%d", x)
	case nil:
		sb.WriteString("null")
	default:
		panic(fmt.Sprintf("jlayout: %T", v))
	}
}

func (l jlayout) render(v any) []byte {
	var sb strings.Builder
	l.write(&sb, v, 0)
	if l.final {
		sb.WriteString(l.nl)
	}
	return []byte(sb.String())
}

func dedup(ps []nv) []nv {
	seen := map[nv]bool{}
	var out []nv
	for _, p := range ps {
		if !seen[p] {
			seen[p] = true
			out = append(out, p)
		}
	}
	return out
}

func semver(r *rand.Rand) string {
	return edgeVer(r, []string{"1", "9", "0", "x", "10", "1a", "10.20.30-alpha.beta.gamma.delta.1+build.20230101.sha.abcdef0123456789abcdef"}, semverUsual(r))
}

func semverUsual(r *rand.Rand) string {
	return word(r, digits, 1, 2) + "." + word(r, digits, 1, 2) + "." + word(r, digits, 1, 2) + pick(r, []string{"", "", "", "-beta.1", "-rc.2+build.5"})
}

func sha(r *rand.Rand) string { return word(r, "0123456789abcdef", 40, 40) }

// ---- package-lock.json ------------------------------------------------------------------------------------------

func npmName(r *rand.Rand) string {
	n := word(r, lower, 1, 1) + word(r, lower+digits+"-._", 0, 12)
	if r.Intn(4) == 0 {
		n = "@" + word(r, lower, 1, 8) + "/" + n
	}
	return n
}

// one abstract installed package of an npm tree
type npmPkg struct {
	key      string // name under which it is installed (alias name for aliases)
	name     string // real package name
	ver      string // reported version ("" for file:/git in v1)
	kind     int    // 0 registry, 1 alias, 2 alias without version (v1 only), 3 file: (v1) , 4 git
	commit   string
	dev, opt bool
	children []*npmPkg
}

func genNpmTree(r *rand.Rand, n int, v1 bool) []*npmPkg {
	var roots []*npmPkg
	var all []*npmPkg
	used := map[string]map[string]bool{} // parent path -> key used
	for i := 0; i < n; i++ {
		p := &npmPkg{name: npmName(r), ver: semver(r), dev: r.Intn(4) == 0, opt: r.Intn(6) == 0}
		p.key = p.name
		if len(all) > 0 && r.Intn(6) == 0 { // the same package at a second place in the tree (possibly another version)
			q := all[r.Intn(len(all))]
			if q.kind == 0 {
				p.name, p.key = q.name, q.key
				if r.Intn(2) == 0 {
					p.ver = q.ver // identical name@version twice: one package
				}
			}
		}
		switch r.Intn(14) {
		case 0:
			p.kind, p.key = 1, npmName(r)
		case 1:
			if v1 {
				p.kind, p.key, p.ver = 2, npmName(r), ""
			}
		case 2:
			if v1 {
				p.kind, p.ver = 3, ""
			}
		case 3:
			p.kind, p.commit = 4, sha(r)
			if v1 {
				p.ver = ""
			}
		}
		// attach
		var sibKey string
		if len(all) > 0 && r.Intn(3) == 0 {
			par := all[r.Intn(len(all))]
			sibKey = fmt.Sprintf("%p", par)
			if used[sibKey] == nil {
				used[sibKey] = map[string]bool{}
			}
			if used[sibKey][p.key] {
				continue
			}
			used[sibKey][p.key] = true
			par.children = append(par.children, p)
		} else {
			if used[""] == nil {
				used[""] = map[string]bool{}
			}
			if used[""][p.key] {
				continue
			}
			used[""][p.key] = true
			roots = append(roots, p)
		}
		all = append(all, p)
	}
	return roots
}

func (p *npmPkg) v1Version() string {
	switch p.kind {
	case 1:
		return "npm:" + p.name + "@" + p.ver
	case 2:
		return "npm:" + p.name
	case 3:
		return "file:../" + strings.ReplaceAll(p.name, "/", "-")
	case 4:
		return "git+https://github.com/a/" + strings.TrimPrefix(strings.ReplaceAll(p.name, "/", "-"), "@") + ".git#" + p.commit
	}
	return p.ver
}

func npmExtras(r *rand.Rand, p *npmPkg, o jobj) jobj {
	if p.kind == 0 || p.kind == 1 {
		o = append(o, jkv{"resolved", "https://registry.npmjs.org/" + p.name + "/-/" + p.name + "-" + p.ver + ".tgz"})
		o = append(o, jkv{"integrity", "sha512-" + word(r, lower+upper+digits+"+/", 20, 20) + "=="})
	}
	if p.dev {
		o = append(o, jkv{"dev", true})
	}
	if p.opt {
		o = append(o, jkv{"optional", true})
	}
	if r.Intn(3) == 0 {
		o = append(o, jkv{"requires", jobj{{"dep-a", "^1.0.0"}, {"version", "1.2.3"}}})
	}
	if r.Intn(5) == 0 {
		o = append(o, jkv{"engines", jobj{{"node", ">=10"}}}, jkv{"funding", jarr{jobj{{"type", "github"}, {"url", "https://x"}}}})
	}
	return o
}

func v1Deps(r *rand.Rand, ps []*npmPkg) jobj {
	var o jobj
	for _, p := range ps {
		e := jobj{{"version", p.v1Version()}}
		if p.kind == 4 {
			e = append(e, jkv{"from", "github:a/b"})
		}
		e = npmExtras(r, p, e)
		if len(p.children) > 0 {
			e = append(e, jkv{"dependencies", v1Deps(r, p.children)})
		}
		o = append(o, jkv{p.key, e})
	}
	return o
}

func v2Packages(r *rand.Rand, ps []*npmPkg, prefix string, o jobj) jobj {
	for _, p := range ps {
		path := prefix + "node_modules/" + p.key
		e := jobj{}
		if p.kind == 1 || (p.kind != 1 && r.Intn(10) == 0) {
			e = append(e, jkv{"name", p.name})
		}
		e = append(e, jkv{"version", p.ver})
		if p.kind == 4 {
			e = append(e, jkv{"resolved", "git+ssh://git@github.com/a/b.git#" + p.commit})
			if p.dev {
				e = append(e, jkv{"dev", true})
			}
		} else {
			e = npmExtras(r, p, e)
		}
		if r.Intn(4) == 0 {
			e = append(e, jkv{"dependencies", jobj{{"x", "^1"}}}, jkv{"peerDependencies", jobj{{"y", "*"}}})
		}
		o = append(o, jkv{path, e})
		o = v2Packages(r, p.children, path+"/", o)
	}
	return o
}

func npmExpect(ps []*npmPkg, out []nv) []nv {
	for _, p := range ps {
		out = append(out, nv{p.name, p.ver})
		out = npmExpect(p.children, out)
	}
	return out
}

func genPlock(r *rand.Rand) gcase {
	ver := 1 + r.Intn(3)
	tree := genNpmTree(r, nrec(r), ver == 1)
	doc := jobj{{"name", "root-project"}, {"version", "1.0.0"}, {"lockfileVersion", ver}, {"requires", true}}
	if ver >= 2 {
		pk := jobj{{"", jobj{{"name", "root-project"}, {"version", "1.0.0"}, {"license", "MIT"}, {"dependencies", jobj{{"a", "^1.0.0"}}}}}}
		pk = v2Packages(r, tree, "", pk)
		doc = append(doc, jkv{"packages", pk})
	}
	var nokey []nv
	nk := ""
	if ver <= 2 {
		deps := v1Deps(r, tree)
		// entries that name no package (fix 4dbc0083): an empty key, an alias without a target; what is nested below them IS listed
		if r.Intn(5) == 0 {
			var e jkv
			switch r.Intn(3) {
			case 0:
				e = jkv{"", jobj{{"version", "9.9.9"}}}
			case 1:
				e = jkv{"alias-without-target", jobj{{"version", "npm:"}}}
			default:
				e = jkv{"", jobj{{"version", "9.9.9"}, {"dependencies", jobj{{"zz-below-nameless", jobj{{"version", "3.2.1"}}}}}}}
				nokey = append(nokey, nv{"zz-below-nameless", "3.2.1"})
			}
			at := r.Intn(len(deps) + 1)
			deps = append(deps[:at:at], append(jobj{e}, deps[at:]...)...)
			nk = "-nokey"
		}
		doc = append(doc, jkv{"dependencies", deps})
	}
	l := randJLayout(r)
	exp := dedup(npmExpect(tree, nil))
	// a git dependency is keyed by its commit: two of them with the same name are two packages with the same (name, "") pair in v1
	if ver == 1 {
		exp = append(npmExpectV1(tree), nokey...)
	} else {
		exp = npmExpectV2(tree)
	}
	return gcase{format: "plock", data: l.render(doc), expect: exp, known: true, class: fmt.Sprintf("wf-v%d-%s%s", ver, l, nk)}
}

// the set of distinct packages a v1 tree lists: registry/alias packages by (name, version); file: packages by
// (name, spec); git packages by (name, commit)
func npmExpectV1(ps []*npmPkg) []nv {
	seen := map[string]bool{}
	var out []nv
	var walk func(ps []*npmPkg)
	walk = func(ps []*npmPkg) {
		for _, p := range ps {
			id := p.name + "@" + p.v1Version()
			if p.kind == 4 {
				id = p.name + "@" + p.commit
			}
			if p.kind == 1 || p.kind == 2 {
				id = p.name + "@" + p.v1Version()
			}
			if !seen[id] {
				seen[id] = true
				out = append(out, nv{p.name, p.ver})
			}
			walk(p.children)
		}
	}
	walk(ps)
	return out
}

func npmExpectV2(ps []*npmPkg) []nv {
	seen := map[string]bool{}
	var out []nv
	var walk func(ps []*npmPkg)
	walk = func(ps []*npmPkg) {
		for _, p := range ps {
			id := p.name + "@" + p.ver
			if p.kind == 4 {
				id = p.name + "@" + p.commit
			}
			if !seen[id] {
				seen[id] = true
				out = append(out, nv{p.name, p.ver})
			}
			walk(p.children)
		}
	}
	walk(ps)
	return out
}

// ---- composer.lock ----------------------------------------------------------------------------------------------

func genComposer(r *rand.Rand) gcase {
	n := nrec(r)
	var prod, dev jarr
	var exp []nv
	seen := map[string]bool{}
	for i := 0; i < n; i++ {
		name := word(r, lower, 1, 8) + "/" + word(r, lower+digits+"-_.", 1, 12)
		if seen[name] {
			continue
		}
		seen[name] = true
		ver := pick(r, []string{"", "v"}) + semver(r)
		if r.Intn(10) == 0 {
			ver = "dev-" + pick(r, []string{"main", "master", "feature/x"})
		}
		e := jobj{{"name", name}, {"version", ver}}
		if r.Intn(2) == 0 {
			e = append(e, jkv{"source", jobj{{"type", "git"}, {"url", "https://github.com/" + name + ".git"}, {"reference", sha(r)}}})
		}
		if r.Intn(3) != 0 {
			e = append(e, jkv{"dist", jobj{{"type", "zip"}, {"url", "https://api.github.com/x"}, {"reference", sha(r)}, {"shasum", ""}}})
		}
		e = append(e, jkv{"require", jobj{{"php", ">=7.2"}, {"name", "not/a-package"}}}, jkv{"type", "library"}, jkv{"license", jarr{"MIT"}})
		if r.Intn(4) == 0 {
			dev = append(dev, e)
		} else {
			prod = append(prod, e)
		}
		exp = append(exp, nv{name, ver})
	}
	doc := jobj{{"_readme", jarr{"This file locks the dependencies of your project to a known state"}}, {"content-hash", sha(r)}, {"packages", prod}, {"packages-dev", dev},
		{"aliases", jarr{}}, {"minimum-stability", "stable"}, {"platform", jobj{{"php", ">=7.2"}}}, {"plugin-api-version", "2.3.0"}}
	if len(dev) == 0 && r.Intn(2) == 0 { // composer writes [] but a hand-trimmed file may lack the key
		doc = append(doc[:3:3], doc[4:]...)
	}
	l := randJLayout(r)
	return gcase{format: "composer", data: l.render(doc), expect: exp, known: true, class: "wf-" + l.String()}
}

// ---- Pipfile.lock -------------------------------------------------------------------------------------------------

func genPipfile(r *rand.Rand) gcase {
	n := nrec(r)
	var def, dev jobj
	var exp []nv
	seenD, seenV := map[string]string{}, map[string]string{}
	for i := 0; i < n; i++ {
		name := strings.ToLower(pepName(r))
		ver := pepVer(r)
		e := jobj{{"hashes", jarr{"sha256:" + sha(r)}}, {"index", "pypi"}}
		listed := true
		switch r.Intn(10) {
		case 0: // VCS / path dependency: no version recorded in the lock
			e = jobj{{"git", "https://github.com/a/b.git"}, {"ref", sha(r)}}
			if r.Intn(2) == 0 {
				e = jobj{{"editable", true}, {"path", "."}}
			}
			listed = false
		case 1: // not pinned with "==": "this lockfile is not in the format we expect", the entry is skipped
			e = append(e, jkv{"version", pick(r, []string{"*", ">=" + ver, "~=" + ver, "==", "=", "=" + ver, " ==" + ver})})
			listed = false
		default:
			e = append(e, jkv{"version", "==" + ver})
			if r.Intn(4) == 0 {
				e = append(e, jkv{"markers", "python_version >= '3.6'"})
			}
		}
		toDev := r.Intn(4) == 0
		both := r.Intn(12) == 0
		if _, ok := seenD[name]; ok {
			continue
		}
		if _, ok := seenV[name]; ok {
			continue
		}
		if toDev || both {
			dev = append(dev, jkv{name, e})
			seenV[name] = ver
		}
		if !toDev || both {
			def = append(def, jkv{name, e})
			seenD[name] = ver
		}
		if listed {
			exp = append(exp, nv{name, ver})
		}
	}
	pnk := ""
	if r.Intn(5) == 0 { // an entry under an empty key names no package (fix ed6d851c)
		e := jkv{"", jobj{{"version", "==" + pick(r, []string{"1.0", "2.3.4"})}}}
		if r.Intn(2) == 0 {
			def = append(def, e)
		} else {
			dev = append(jobj{e}, dev...)
		}
		pnk = "-nokey"
	}
	doc := jobj{{"_meta", jobj{{"hash", jobj{{"sha256", sha(r)}}}, {"pipfile-spec", 6}, {"requires", jobj{{"python_version", "3.11"}}},
		{"sources", jarr{jobj{{"name", "pypi"}, {"url", "https://pypi.org/simple"}, {"verify_ssl", true}}}}}}, {"default", def}, {"develop", dev}}
	l := randJLayout(r)
	return gcase{format: "pipfile", data: l.render(doc), expect: exp, known: true, class: "wf-" + l.String() + pnk}
}

// ---- packages.lock.json ---------------------------------------------------------------------------------------------

func decodePkgsLock(b []byte) (string, error) {
	p, err := packageslockjson.Parse(bytes.NewReader(b))
	if err != nil {
		return "", err
	}
	fws := make([]string, 0, len(p.Dependencies))
	for k := range p.Dependencies {
		fws = append(fws, k)
	}
	sort.Strings(fws)
	var parts []string
	for _, fw := range fws {
		names := make([]string, 0, len(p.Dependencies[fw]))
		for k := range p.Dependencies[fw] {
			names = append(names, k)
		}
		sort.Strings(names)
		xs := make([]string, len(names))
		for i, k := range names {
			xs[i] = hexs(k) + ":" + hexs(p.Dependencies[fw][k].Resolved) + ":" + hexs(p.Dependencies[fw][k].Type)
		}
		parts = append(parts, hexs(fw)+"="+strings.Join(xs, ","))
	}
	if len(parts) == 0 {
		return "-", nil
	}
	return strings.Join(parts, "|"), nil
}

func genPkgsLock(r *rand.Rand) gcase {
	n := nrec(r)
	nfw := 1
	cls := "wf-1fw"
	if r.Intn(2) == 0 {
		nfw = 2 + r.Intn(2)
		cls = "wf-multifw-disjoint"
	}
	fwNames := []string{"net6.0", ".NETFramework,Version=v4.8", "net8.0/win-x64", ".NETStandard,Version=v2.0"}
	r.Shuffle(len(fwNames), func(i, j int) { fwNames[i], fwNames[j] = fwNames[j], fwNames[i] })
	fws := make([]jobj, nfw)
	var exp []nv
	used := map[string]bool{}
	shared, sharedDiff, project := false, false, false
	mkVer := func() string {
		return edgeVer(r, []string{"1", "9", "0", "10", "1a", "10.20.30.40-preview.1.23456.7+sha.abcdef0123456789"}, word(r, digits, 1, 2)+"."+word(r, digits, 1, 2)+"."+word(r, digits, 1, 3)+pick(r, []string{"", "", "-preview.1", ".4"}))
	}
	entry := func(ver string) jobj {
		e := jobj{{"type", pick(r, []string{"Direct", "Transitive", "CentralTransitive"})}, {"resolved", ver}, {"contentHash", word(r, lower+upper+digits+"+/", 30, 30) + "=="}}
		if r.Intn(3) == 0 {
			e = append(jobj{{"requested", "[" + ver + ", )"}}, e...)
		}
		if r.Intn(3) == 0 {
			e = append(e, jkv{"dependencies", jobj{{"System.Memory", "4.5.4"}, {"resolved", "9.9.9"}}})
		}
		return e
	}
	for i := 0; i < n; i++ {
		name := word(r, upper, 1, 1) + word(r, lower+upper+digits+".", 1, 18) + word(r, lower, 1, 1)
		if used[strings.ToLower(name)] {
			continue
		}
		used[strings.ToLower(name)] = true
		ver := mkVer()
		e := entry(ver)
		k := r.Intn(nfw)
		fws[k] = append(fws[k], jkv{name, e})
		exp = append(exp, nv{name, ver})
		// NuGet resolves every target framework on its own: the same id may be needed by several frameworks, at the SAME version
		// (one package) or at DIFFERENT versions (one package per distinct version)
		for k2 := 0; k2 < nfw; k2++ {
			if k2 == k || r.Intn(3) != 0 {
				continue
			}
			if r.Intn(2) == 0 {
				fws[k2] = append(fws[k2], jkv{name, e})
				shared = true
			} else {
				v2 := mkVer()
				for v2 == ver {
					v2 = mkVer()
				}
				fws[k2] = append(fws[k2], jkv{name, entry(v2)})
				dup := false
				for _, x := range exp {
					dup = dup || (x.name == name && x.ver == v2)
				}
				if !dup {
					exp = append(exp, nv{name, v2})
				}
				sharedDiff = true
			}
		}
	}
	// project references ("type": "Project", no "resolved"): not NuGet packages, nothing to report for them
	if r.Intn(6) == 0 {
		for k := 1 + r.Intn(2); k > 0; k-- {
			name := pick(r, []string{"mylib", "Company.Core", "shared.contracts", "App.Tests"})
			if used[strings.ToLower(name)] {
				continue
			}
			used[strings.ToLower(name)] = true
			e := jobj{{"type", "Project"}}
			if r.Intn(2) == 0 {
				e = append(e, jkv{"dependencies", jobj{{"Newtonsoft.Json", "[13.0.1, )"}}})
			}
			for f := 0; f < nfw; f++ {
				if f == 0 || r.Intn(2) == 0 {
					fws[f] = append(fws[f], jkv{name, e})
				}
			}
			project = true
		}
	}
	nokey := false
	if r.Intn(5) == 0 { // an entry under an empty key names no package (fix 94fb6b98)
		f := r.Intn(nfw)
		fws[f] = append(fws[f], jkv{"", jobj{{"type", pick(r, []string{"Direct", "Transitive"})}, {"resolved", "1.2.3"}}})
		nokey = true
	}
	switch {
	case nokey:
		cls = "wf-nokey"
	case project:
		cls = "wf-project"
	case sharedDiff:
		cls = "wf-multifw-shared-diffver"
	case shared:
		cls = "wf-multifw-shared"
	}
	deps := jobj{}
	for i := 0; i < nfw; i++ {
		deps = append(deps, jkv{fwNames[i], fws[i]})
	}
	doc := jobj{{"version", 1}, {"dependencies", deps}}
	l := randJLayout(r)
	return gcase{format: "pkgslock", data: l.render(doc), expect: exp, known: true, class: cls}
}

// ---- TOML ----------------------------------------------------------------------------------------------------------------

type tlayout struct {
	nl      string
	final   bool
	spaced  bool // "k = v" vs "k=v"
	literal bool // 'v' instead of "v" where possible
	blank   int  // blank lines between tables
	comment bool
}

func randTLayout(r *rand.Rand) tlayout {
	return tlayout{nl: pick(r, []string{"\n", "\n", "\r\n"}), final: r.Intn(3) != 0, spaced: r.Intn(4) != 0, literal: r.Intn(5) == 0, blank: r.Intn(3), comment: r.Intn(2) == 0}
}

func (l tlayout) String() string {
	return fmt.Sprintf("crlf%v-fin%v-sp%v-lit%v-bl%d", l.nl == "\r\n", l.final, l.spaced, l.literal, l.blank)
}

func (l tlayout) kv(k, v string) string {
	q := jstr(v) // TOML basic strings accept JSON escapes
	if l.literal && !strings.ContainsAny(v, "'\n\r") {
		q = "'" + v + "'"
	}
	if l.spaced {
		return k + " = " + q
	}
	return k + "=" + q
}

func (l tlayout) join(lines []string) []byte {
	s := strings.Join(lines, l.nl)
	if l.final && len(lines) > 0 {
		s += l.nl
	}
	return []byte(s)
}

func genCargo(r *rand.Rand) gcase {
	l := randTLayout(r)
	n := nrec(r)
	var lines []string
	if l.comment {
		lines = append(lines, "# This file is automatically @generated by Cargo.", "# It is not intended for manual editing.")
	}
	if r.Intn(3) != 0 {
		lines = append(lines, l.kv("version", "")[:len(l.kv("version", ""))-2]+fmt.Sprint(3+r.Intn(2)))
	}
	var exp []nv
	for i := 0; i < n; i++ {
		name := word(r, lower, 1, 1) + word(r, lower+digits+"_-", 0, 14)
		ver := semver(r)
		lines = append(lines, blanks(l.blank)...)
		lines = append(lines, "[[package]]")
		fs := []string{l.kv("name", name), l.kv("version", ver)}
		if r.Intn(4) != 0 {
			fs = append(fs, l.kv("source", "registry+https://github.com/rust-lang/crates.io-index"), l.kv("checksum", sha(r)+sha(r)[:24]))
		}
		if r.Intn(3) == 0 {
			fs = append(fs, "dependencies = [", " \"libc\",", " \"name 1.0.0 (registry+https://github.com/rust-lang/crates.io-index)\",", "]")
		}
		if r.Intn(5) == 0 { // key order inside a table is free (the array, being multi-line, stays last)
			fs[0], fs[1] = fs[1], fs[0]
		}
		lines = append(lines, fs...)
		exp = append(exp, nv{name, ver})
	}
	if r.Intn(4) == 0 {
		lines = append(lines, "", "[metadata]", l.kv("\"checksum foo 1.0.0 (registry+https://x)\"", sha(r)))
	}
	return gcase{format: "cargo", data: l.join(lines), expect: exp, known: true, class: "wf-" + l.String()}
}

func genPoetry(r *rand.Rand) gcase {
	l := randTLayout(r)
	n := nrec(r)
	var lines []string
	if l.comment {
		lines = append(lines, "# This file is automatically @generated by Poetry 1.8.2 and should not be changed by hand.")
	}
	var exp []nv
	for i := 0; i < n; i++ {
		name := strings.ToLower(pepName(r))
		ver := pepVer(r)
		lines = append(lines, blanks(l.blank)...)
		lines = append(lines, "[[package]]", l.kv("name", name), l.kv("version", ver), l.kv("description", "A \"quoted\" description = with # signs"))
		if l.spaced {
			lines = append(lines, "optional = "+pick(r, []string{"false", "false", "true"}))
		} else {
			lines = append(lines, "optional="+pick(r, []string{"false", "false", "true"}))
		}
		lines = append(lines, l.kv("python-versions", ">=3.7"))
		if r.Intn(3) == 0 {
			lines = append(lines, "groups = "+pick(r, []string{"[\"main\", \"dev\"]", "[\"dev\"]", "[\"docs\", \"test\"]", "[]"}))
		}
		if r.Intn(3) == 0 {
			lines = append(lines, "files = [", "    {file = \"x-1.0-py3-none-any.whl\", hash = \"sha256:"+sha(r)+"\"},", "]")
		}
		if r.Intn(3) == 0 {
			lines = append(lines, "", "[package.dependencies]", l.kv("name", "looks-like-a-package-name"), "version = {version = \">=1.0\", markers = \"python_version < '3.8'\"}")
		}
		if r.Intn(5) == 0 {
			lines = append(lines, "", "[package.extras]", "dev = [\"pytest (>=6)\"]")
		}
		if r.Intn(6) == 0 {
			lines = append(lines, "", "[package.source]", l.kv("type", "git"), l.kv("url", "https://github.com/a/b.git"), l.kv("reference", "main"), l.kv("resolved_reference", sha(r)))
		}
		exp = append(exp, nv{name, ver})
	}
	lines = append(lines, "", "[metadata]", l.kv("lock-version", "2.0"), l.kv("python-versions", "^3.8"), l.kv("content-hash", sha(r)))
	return gcase{format: "poetry", data: l.join(lines), expect: exp, known: true, class: "wf-" + l.String()}
}

// ---- go.mod ------------------------------------------------------------------------------------------------------------------

func decodeGoMod(b []byte) (string, error) {
	f, err := modfile.Parse("go.mod", b, nil)
	if err != nil {
		return "", err
	}
	var rq, rp []string
	for _, r := range f.Require {
		rq = append(rq, hexs(r.Mod.Path)+":"+hexs(r.Mod.Version))
	}
	for _, r := range f.Replace {
		rp = append(rp, hexs(r.Old.Path)+":"+hexs(r.Old.Version)+":"+hexs(r.New.Path)+":"+hexs(r.New.Version))
	}
	gv, tc := "", ""
	if f.Go != nil {
		gv = f.Go.Version
	}
	if f.Toolchain != nil {
		tc = f.Toolchain.Name
	}
	j := func(xs []string) string {
		if len(xs) == 0 {
			return "-"
		}
		return strings.Join(xs, ",")
	}
	return j(rq) + "|" + j(rp) + "|" + hex.EncodeToString([]byte(gv)) + "|" + hex.EncodeToString([]byte(tc)), nil
}

// goOlderThan117: the generator's own reading of "go 1.N[.p] is older than go 1.17" (the generated versions are of the form 1.N, 1.N.p, 1.NrcK)
func goOlderThan117(v string) bool {
	f := strings.Split(v, ".")
	if len(f) < 2 || f[0] != "1" {
		return false
	}
	n := 0
	for _, c := range f[1] {
		if c < '0' || c > '9' {
			break
		}
		n = n*10 + int(c-'0')
	}
	return n < 17
}

// goSumDoc: what the go.sum branch reads, for the Lean model: `<1: the extractor consults go.sum | 0>|<entries hexname:hexversion,… | ! (a line
// without three fields: go.sum is ignored) | - (no go.sum)>`; go/version.Compare (trusted) decides the first field.
func goSumDoc(goMod []byte, files []gfile) string {
	use := "0"
	if f, err := modfile.Parse("go.mod", goMod, nil); err == nil {
		gv := ""
		if f.Go != nil {
			gv = f.Go.Version
		}
		if f.Toolchain != nil && f.Toolchain.Name != "" {
			v, _, _ := strings.Cut(f.Toolchain.Name, "-")
			gv = strings.TrimPrefix(v, "go")
		}
		if gv != "" && goversion.Compare("go"+gv, "go1.17") < 0 {
			use = "1"
		}
	}
	var sum []byte
	found := false
	for _, g := range files {
		if g.path == "go.sum" {
			sum, found = g.data, true
		}
	}
	if !found {
		return use + "|-"
	}
	var es []string
	for _, l := range strings.Split(string(sum), "\n") {
		if l == "" {
			continue
		}
		p := strings.Fields(l)
		if len(p) != 3 {
			return use + "|!"
		}
		es = append(es, hexs(p[0])+":"+hexs(p[1]))
	}
	if len(es) == 0 {
		return use + "|"
	}
	return use + "|" + strings.Join(es, ",")
}

func num(r *rand.Rand, max int) string { return fmt.Sprint(r.Intn(max)) }

// modReq: a module path with the version a go.mod may carry for it (major version must agree with the path suffix)
func modReq(r *rand.Rand) (string, string) {
	base := word(r, lower, 1, 8) + pick(r, []string{"", "/" + word(r, lower, 1, 1) + word(r, lower+digits+"-_.", 0, 6) + word(r, lower+digits, 1, 1)})
	major := r.Intn(2)
	path := ""
	suffix := ""
	if r.Intn(8) == 0 {
		major = r.Intn(5)
		if major == 0 && r.Intn(2) == 0 {
			major = 3
		}
		path = "gopkg.in/" + strings.ReplaceAll(base, "/", "-") + ".v" + fmt.Sprint(major)
	} else {
		path = pick(r, []string{"github.com/", "golang.org/x/", "example.com/", "k8s.io/", "go.uber.org/"}) + base
		switch r.Intn(6) {
		case 0:
			major = 2 + r.Intn(3)
			path += "/v" + fmt.Sprint(major)
		case 1:
			major = 2 + r.Intn(8)
			suffix = "+incompatible"
		}
	}
	pre := pick(r, []string{"", "", "", "-rc.1", "-beta", "-0.20230101120000-" + sha(r)[:12]})
	return path, "v" + fmt.Sprint(major) + "." + num(r, 60) + "." + num(r, 90) + pre + suffix
}

func genGoMod(r *rand.Rand) gcase {
	n := nrec(r)
	type req struct {
		path, ver string
		indirect  bool
	}
	var reqs []req
	seen := map[string]bool{}
	for i := 0; i < n; i++ {
		p, v := modReq(r)
		if seen[p] {
			continue
		}
		seen[p] = true
		reqs = append(reqs, req{p, v, r.Intn(3) == 0})
	}
	nl := pick(r, []string{"\n", "\n", "\r\n"})
	final := r.Intn(4) != 0
	var lines []string
	if r.Intn(3) == 0 {
		lines = append(lines, "// Copyright header", "")
	}
	lines = append(lines, "module example.com/m"+pick(r, []string{"", " // the module"}), "")
	goVer := ""
	if r.Intn(5) != 0 {
		goVer = pick(r, []string{"1.17", "1.18", "1.20", "1.21.0", "1.22.3", "1.23rc1", "1.24.0", "1.16", "1.13", "1.16.5", "1.9"})
		lines = append(lines, "go "+goVer, "")
	}
	stdVer := goVer
	if goVer != "" && r.Intn(4) == 0 {
		tv := pick(r, []string{"1.22.5", "1.23.0", "1.24.1"})
		lines = append(lines, "toolchain go"+tv+pick(r, []string{"", "-custom"}), "")
		stdVer = tv
	}
	// replace directives: versioned, unversioned, to another module; never to a local path. The expectation follows the go command's published
	// rule ("go.mod reference", replace directives): a directive with a version on its left side applies to exactly that version of the module
	// and takes precedence over one without a version, wherever the two are written; replacements are NOT applied to each other's results.
	final2 := map[string]nv{}
	for _, q := range reqs {
		final2[q.path] = nv{q.path, strings.TrimPrefix(q.ver, "v")}
	}
	var reps []string
	shapes := ""
	fork := func() (string, string) {
		return "example.org/fork/" + word(r, lower, 1, 6), "v" + fmt.Sprint(r.Intn(2)) + "." + num(r, 30) + "." + num(r, 30)
	}
	for _, q := range reqs {
		if r.Intn(8) != 0 {
			continue
		}
		if k := r.Intn(10); k < 5 {
			xp, xv := fork()
			yp, yv := fork()
			switch k {
			case 0, 1: // both kinds for the same module, in both orders: the version-specific one wins
				a, b := q.path+" "+q.ver+" => "+xp+" "+xv, q.path+" => "+yp+" "+yv
				if k == 1 {
					a, b = b, a
				}
				reps = append(reps, a, b)
				final2[q.path] = nv{xp, strings.TrimPrefix(xv, "v")}
				shapes += fmt.Sprintf("-both%d", k)
			case 2: // a replacement whose result is the left side of another wildcard directive: not chained
				reps = append(reps, q.path+" => "+xp+" "+xv, xp+" => "+yp+" "+yv)
				final2[q.path] = nv{xp, strings.TrimPrefix(xv, "v")}
				shapes += "-chainw"
			case 3: // the same through a version-specific first directive
				reps = append(reps, q.path+" "+q.ver+" => "+xp+" "+xv, xp+" => "+yp+" "+yv)
				final2[q.path] = nv{xp, strings.TrimPrefix(xv, "v")}
				shapes += "-chains"
			case 4: // a pin to another version of the SAME path (version-specific), and a wildcard directive for the path: the pin wins
				reps = append(reps, q.path+" "+q.ver+" => "+q.path+" "+xv, q.path+" => "+yp+" "+yv)
				final2[q.path] = nv{q.path, strings.TrimPrefix(xv, "v")}
				shapes += "-pin"
			}
			if r.Intn(2) == 0 { // the directives need not be adjacent
				reps = append(reps[:len(reps)-1], "example.net/unrelated/"+word(r, lower, 1, 6)+" => "+yp+" "+yv, reps[len(reps)-1])
			}
			continue
		}
		np, nver := "example.org/fork/"+word(r, lower, 1, 6), "v"+fmt.Sprint(r.Intn(2))+"."+num(r, 30)+"."+num(r, 30)
		old := q.path
		switch r.Intn(3) {
		case 0:
			old += " " + q.ver // replaces exactly this version
		case 1:
			// a version of the module that is not the required one: the directive has no effect
			mj := strings.SplitN(q.ver, ".", 2)[0]
			nr := mj + ".999.0"
			if strings.HasSuffix(q.ver, "+incompatible") {
				nr += "+incompatible"
			}
			old += " " + nr
			reps = append(reps, old+" => "+np+" "+nver)
			continue
		}
		reps = append(reps, old+" => "+np+" "+nver)
		final2[q.path] = nv{np, strings.TrimPrefix(nver, "v")}
	}
	// layout of requires: blocks and single lines, direct / indirect
	block := r.Intn(4) != 0
	if block && len(reqs) > 0 {
		k := len(reqs)
		if r.Intn(2) == 0 {
			k = r.Intn(len(reqs) + 1)
		}
		for _, part := range [][]req{reqs[:k], reqs[k:]} {
			if len(part) == 0 {
				continue
			}
			lines = append(lines, "require (")
			for _, q := range part {
				l := "\t" + q.path + " " + q.ver
				if q.indirect {
					l += " // indirect"
				}
				lines = append(lines, l)
				if r.Intn(10) == 0 {
					lines = append(lines, "", "\t// a comment inside the block")
				}
			}
			lines = append(lines, ")", "")
		}
	} else {
		for _, q := range reqs {
			l := "require " + q.path + " " + q.ver
			if q.indirect {
				l += " // indirect"
			}
			lines = append(lines, l)
		}
	}
	if len(reps) > 0 {
		if r.Intn(2) == 0 {
			lines = append(lines, "replace (")
			for _, x := range reps {
				lines = append(lines, "\t"+x)
			}
			lines = append(lines, ")")
		} else {
			for _, x := range reps {
				lines = append(lines, "replace "+x)
			}
		}
	}
	if r.Intn(5) == 0 {
		lines = append(lines, "", "exclude github.com/bad/mod v1.0.0", "retract v0.9.0 // broken")
	}
	var exp []nv
	for _, q := range reqs {
		exp = append(exp, final2[q.path])
	}
	exp = dedup(exp)
	if stdVer != "" {
		exp = append(exp, nv{"stdlib", stdVer})
	}
	s := strings.Join(lines, nl)
	if final {
		s += nl
	}
	cls := fmt.Sprintf("wf-crlf%v-fin%v-block%v-rep%d%s", nl == "\r\n", final, block, len(reps), shapes)
	c := gcase{format: "gomod", data: []byte(s), expect: exp, known: true, class: cls}
	// go < 1.17 (the go directive, or the toolchain when there is one): go.mod does not list indirect requirements, the extractor adds the
	// modules of go.sum (every "<module> <version> h1:…" line; "<version>/go.mod" lines are hashes of go.mod files). Merge by (name, version).
	if r.Intn(3) != 0 {
		var sl []string
		add := func(p, v string) {
			sl = append(sl, p+" "+v+" h1:"+sha(r)[:40]+"abc=")
			if r.Intn(4) != 0 {
				sl = append(sl, p+" "+v+"/go.mod h1:"+sha(r)[:40]+"abc=")
			}
		}
		var sumPk []nv
		for _, q := range reqs {
			if r.Intn(3) != 0 {
				add(q.path, q.ver)
				sumPk = append(sumPk, nv{q.path, strings.TrimPrefix(q.ver, "v")})
			}
		}
		for k := r.Intn(6); k > 0; k-- {
			p, v := modReq(r)
			add(p, v)
			sumPk = append(sumPk, nv{p, strings.TrimPrefix(v, "v")})
		}
		if r.Intn(4) == 0 && len(sl) > 1 {
			sl = append(sl[:1], append([]string{""}, sl[1:]...)...) // an empty line is skipped
		}
		broken := r.Intn(8) == 0
		if broken && len(sl) > 0 {
			sl[r.Intn(len(sl))] = "github.com/only/two-fields v1.0.0" // a line without three fields: the whole go.sum is ignored (logged)
		}
		sum := strings.Join(sl, "\n")
		if len(sl) > 0 && r.Intn(4) != 0 {
			sum += "\n"
		}
		c.path = "go.mod"
		c.files = []gfile{{path: "go.mod", data: c.data}, {path: "go.sum", data: []byte(sum)}}
		old := stdVer != "" && goOlderThan117(stdVer)
		if old && !(broken && len(sl) > 0) {
			c.expect = dedup(append(append([]nv{}, exp...), sumPk...))
			c.class += "-gosum"
		} else if old {
			c.class += "-gosum-broken"
		} else {
			c.class += "-gosum-unused"
		}
	}
	return c
}
