package main

// Generators for the five line formats: well-formed files in every layout, a malformed stream, and the
// exhaustive small-layout enumeration of the thorough tier.

import (
	"fmt"
	"math/rand"
	"strconv"
	"strings"
)

const (
	lower  = "abcdefghijklmnopqrstuvwxyz"
	upper  = "ABCDEFGHIJKLMNOPQRSTUVWXYZ"
	digits = "0123456789"
)

func pick(r *rand.Rand, xs []string) string { return xs[r.Intn(len(xs))] }

func word(r *rand.Rand, alpha string, lo, hi int) string {
	n := lo + r.Intn(hi-lo+1)
	b := make([]byte, n)
	for i := range b {
		b[i] = alpha[r.Intn(len(alpha))]
	}
	return string(b)
}

// nrec: number of records, 0..40, skewed to small
func nrec(r *rand.Rand) int {
	switch r.Intn(10) {
	case 0:
		return 0
	case 1:
		return 1
	case 2, 3, 4:
		return 2 + r.Intn(4)
	case 5, 6, 7:
		return 6 + r.Intn(10)
	default:
		return 16 + r.Intn(25)
	}
}

// eols: line-ending layout
type eols struct {
	mode  int // 0 LF, 1 CRLF, 2 mixed
	final bool
	r     *rand.Rand
}

func randEols(r *rand.Rand) eols {
	m := 0
	switch r.Intn(5) {
	case 0, 1:
		m = 1
	case 2:
		m = 2
	}
	return eols{mode: m, final: r.Intn(3) != 0, r: r}
}

func (e eols) String() string { return fmt.Sprintf("eol%d-fin%v", e.mode, e.final) }

// join renders lines; an unterminated file never ends in an empty line (that would be the same bytes as one line less)
func (e eols) join(lines []string) []byte {
	var sb strings.Builder
	rt.crlf, rt.final = nil, true
	for i, l := range lines {
		sb.WriteString(l)
		last := i == len(lines)-1
		if last && !e.final && l != "" {
			rt.final = false
			break
		}
		if e.mode == 1 || (e.mode == 2 && e.r.Intn(2) == 0) {
			sb.WriteString("\r\n")
			rt.crlf = append(rt.crlf, '1')
		} else {
			sb.WriteString("\n")
			rt.crlf = append(rt.crlf, '0')
		}
	}
	return []byte(sb.String())
}

func blanks(n int) []string { return make([]string, n) }

func mutate(r *rand.Rand, data []byte) []byte {
	if len(data) == 0 {
		return []byte(pick(r, []string{"\n", "\r\n", " ", ":", "x", "\x00", "\xff"}))
	}
	b := append([]byte{}, data...)
	switch r.Intn(6) {
	case 0: // truncate
		b = b[:r.Intn(len(b))]
	case 1: // swap a delimiter
		from := pick(r, []string{":", "=", "(", ")", " ", "\n", "-", "@", ";", "[", "]", "#", "\\"})
		to := pick(r, []string{":", "=", "(", ")", " ", "\n", "-", "", "\t", "\r", "#", "!", "\\"})
		idx := []int{}
		for i := range b {
			if string(b[i]) == from {
				idx = append(idx, i)
			}
		}
		if len(idx) > 0 {
			i := idx[r.Intn(len(idx))]
			b = append(append(append([]byte{}, b[:i]...), to...), b[i+1:]...)
		}
	case 2: // delete a byte range
		i := r.Intn(len(b))
		j := i + 1 + r.Intn(8)
		if j > len(b) {
			j = len(b)
		}
		b = append(b[:i:i], b[j:]...)
	case 3: // duplicate a line
		ls := strings.SplitAfter(string(b), "\n")
		i := r.Intn(len(ls))
		ls = append(ls[:i+1], ls[i:]...)
		b = []byte(strings.Join(ls, ""))
	case 4: // insert odd bytes
		i := r.Intn(len(b) + 1)
		ins := pick(r, []string{"\r", "\x00", "\xc2\xa0", "\xe2\x80\x83", "\xff", "\xc2", "\t", "\x0b", "\x0c", " ", "\x7f", "é", "\xe3\x80\x80", "\xc2\x85"})
		b = append(append(append([]byte{}, b[:i]...), ins...), b[i:]...)
	case 5: // swap two lines
		ls := strings.SplitAfter(string(b), "\n")
		if len(ls) > 1 {
			i, j := r.Intn(len(ls)), r.Intn(len(ls))
			ls[i], ls[j] = ls[j], ls[i]
		}
		b = []byte(strings.Join(ls, ""))
	}
	return b
}

func soup(r *rand.Rand, pool []string, maxLines int) []byte {
	n := r.Intn(maxLines)
	nls := []string{"\n", "\n", "\r\n"}
	var sb strings.Builder
	for i := 0; i < n; i++ {
		sb.WriteString(pool[r.Intn(len(pool))])
		if i < n-1 || r.Intn(2) == 0 {
			sb.WriteString(nls[r.Intn(len(nls))])
		}
	}
	return []byte(sb.String())
}

// perms of 0..n-1
func perms(n int) [][]int {
	if n == 0 {
		return [][]int{{}}
	}
	var out [][]int
	for _, p := range perms(n - 1) {
		for i := 0; i <= len(p); i++ {
			q := append(append(append([]int{}, p[:i]...), n-1), p[i:]...)
			out = append(out, q)
		}
	}
	return out
}

// subsets of {0,1,2} in every order
func orderedSubsets3() [][]int {
	var out [][]int
	for mask := 0; mask < 8; mask++ {
		var idx []int
		for i := 0; i < 3; i++ {
			if mask&(1<<i) != 0 {
				idx = append(idx, i)
			}
		}
		for _, p := range perms(len(idx)) {
			q := make([]int, len(p))
			for i, j := range p {
				q[i] = idx[j]
			}
			out = append(out, q)
		}
	}
	return out
}

// ---------------------------------------------------------------------------------------------- apk

type apkRec struct {
	name, ver            string
	pre, mid, post       []string // "k:v" lines
	vFirst               bool
}

var apkKeys = []string{"C", "A", "S", "I", "T", "U", "L", "o", "m", "t", "c", "D", "p", "F", "R", "a", "M", "Z", "r", "q", "i", "k"}

func apkExtra(r *rand.Rand) string {
	k := pick(r, apkKeys)
	v := pick(r, []string{"x86_64", "Q1abcdef=", "musl", "a <b@c.org>", "MIT", "so:libc.musl-x86_64.so.1 cmd:sh=1.36", "https://x.org/a:b", "", " lead", "tab\there", "0:0:755", "1700000000"})
	if r.Intn(200) == 0 {
		v = strings.Repeat("y", 50000+r.Intn(15000)) // long but below the scanner's limit
	}
	return k + ":" + v
}

func apkName(r *rand.Rand) string { return word(r, lower, 1, 1) + word(r, lower+digits+"+._-", 0, 12) }
// edgeVer: every fifth version string is an edge of what the format allows — ONE character (a digit; a letter where versions need not be
// numeric), two characters, or a long one — instead of the usual shape (a reader that measures the version, or cuts a prefix off it, is
// wrong first on these).
func edgeVer(r *rand.Rand, edges []string, usual string) string {
	if r.Intn(5) == 0 {
		return pick(r, edges)
	}
	return usual
}

func apkVer(r *rand.Rand) string {
	return edgeVer(r, []string{"1", "9", "0", "10", "1a", "1.2.3.4.5.6.7.8.9.10.11.12_p20230101_git20240202-r100"}, apkVerUsual(r))
}

func apkVerUsual(r *rand.Rand) string {
	return word(r, digits, 1, 2) + "." + word(r, digits, 1, 2) + pick(r, []string{"", ".3", "_rc1", "_git20230101", "a"}) + "-r" + word(r, digits, 1, 2)
}

func (a apkRec) lines() []string {
	p, v := "P:"+a.name, "V:"+a.ver
	first, second := p, v
	if a.vFirst {
		first, second = v, p
	}
	ls := append([]string{}, a.pre...)
	ls = append(ls, first)
	ls = append(ls, a.mid...)
	ls = append(ls, second)
	return append(ls, a.post...)
}

func renderApk(recs []apkRec, lead int, gap func(i int) int, tail int, e eols) []byte {
	rtReset()
	ls := blanks(lead)
	for k := 0; k < lead; k++ {
		rtItem("b")
	}
	for i, a := range recs {
		ls = append(ls, a.lines()...)
		rtItem("r" + hq(a.name) + "," + hq(a.ver) + "," + b01(a.vFirst) + "," + kvList(a.pre) + "," + kvList(a.mid) + "," + kvList(a.post))
		if i < len(recs)-1 {
			g := 1 + gap(i)
			ls = append(ls, blanks(g)...)
			for k := 0; k < g; k++ {
				rtItem("b")
			}
		}
	}
	ls = append(ls, blanks(tail)...)
	for k := 0; k < tail; k++ {
		rtItem("b")
	}
	return e.join(ls)
}

func genApk(r *rand.Rand) gcase {
	n := nrec(r)
	recs := make([]apkRec, n)
	var exp []nv
	for i := range recs {
		a := apkRec{name: apkName(r), ver: apkVer(r), vFirst: r.Intn(6) == 0}
		if i > 0 && r.Intn(15) == 0 { // a duplicate listing is reported twice: the file lists it twice
			a.name, a.ver = recs[i-1].name, recs[i-1].ver
		}
		for k := r.Intn(4); k > 0; k-- {
			a.pre = append(a.pre, apkExtra(r))
		}
		for k := r.Intn(3); k > 0; k-- {
			a.mid = append(a.mid, apkExtra(r))
		}
		for k := r.Intn(5); k > 0; k-- {
			a.post = append(a.post, apkExtra(r))
		}
		recs[i] = a
		exp = append(exp, nv{a.name, a.ver})
	}
	e := randEols(r)
	lead, tail := 0, r.Intn(3)
	if r.Intn(5) == 0 {
		lead = 1 + r.Intn(3)
	}
	if !e.final {
		tail = 0
	}
	gaps := r.Intn(3)
	data := renderApk(recs, lead, func(int) int {
		if gaps == 0 {
			return 0
		}
		return r.Intn(1 + gaps)
	}, tail, e)
	return gcase{format: "apk", data: data, expect: exp, known: true, class: "wf-" + e.String(), rtok: rtTok()}
}

var apkPool = []string{"P:musl", "P:busybox", "P:", "V:1.2.3-r0", "V:", "V:2.0", "A:x86_64", "o:musl", "m:a <b@c>", "L:MIT", "c:abc123", "", "", "garbage", "P:zlib\r", "V:1.3\r", "\r", "X", ":novalue", "k:v:w", "P musl", " P:x", "P:a\x00b", "\xff:\xfe"}

func badApk(r *rand.Rand) gcase {
	var data []byte
	cls := "soup"
	k := r.Intn(2)
	if r.Intn(12) == 0 {
		k = 2
	}
	switch k {
	case 0:
		data = soup(r, apkPool, 9)
	case 1:
		data = mutate(r, genApk(r).data)
		cls = "mutated"
	default:
		// a line at / around the scanner's 64 KiB limit
		n := 65530 + r.Intn(12)
		data = []byte("P:a\nV:1\n\nP:b\nV:2\nL:" + strings.Repeat("z", n-2) + pick(r, []string{"\n", "\r\n", ""}) + pick(r, []string{"", "\nP:c\nV:3\n"}))
		cls = "longline"
	}
	return gcase{format: "apk", data: data, class: "bad-" + cls}
}

func smallApk(emit func(gcase)) {
	base := []apkRec{{name: "musl", ver: "1.2.4-r2"}, {name: "busybox", ver: "1.36.1-r5"}, {name: "zlib", ver: "1.3-r0"}}
	for _, idx := range orderedSubsets3() {
		for eol := 0; eol < 2; eol++ {
			for fin := 0; fin < 2; fin++ {
				for gap := 0; gap < 2; gap++ {
					for extra := 0; extra < 3; extra++ {
						for lead := 0; lead < 2; lead++ {
							recs := make([]apkRec, len(idx))
							var exp []nv
							for i, j := range idx {
								a := base[j]
								switch extra {
								case 1:
									a.pre, a.post = []string{"C:Q1x="}, []string{"A:x86_64", "L:MIT"}
								case 2:
									a.mid, a.vFirst = []string{"o:" + a.name}, true
								}
								recs[i] = a
								exp = append(exp, nv{a.name, a.ver})
							}
							e := eols{mode: eol, final: fin == 1}
							tail := 0
							if fin == 1 && gap == 1 {
								tail = 1
							}
							data := renderApk(recs, lead, func(int) int { return gap }, tail, e)
							emit(gcase{format: "apk", data: data, expect: exp, known: true, class: "small", rtok: rtTok()})
						}
					}
				}
			}
		}
	}
}

// ---------------------------------------------------------------------------------------------- gradle

type gradleRec struct{ group, artifact, ver, confs, lead, trail string }

func (g gradleRec) line() string {
	return g.lead + g.group + ":" + g.artifact + ":" + g.ver + "=" + g.confs + g.trail
}

var inlineWs = []string{"", "", "", " ", "  ", "\t", " \t", "\x0c", "\x0b "}

func gradleFiller(r *rand.Rand) string {
	switch r.Intn(6) {
	case 0:
		return "# This is a Gradle generated file for dependency locking."
	case 1:
		return pick(r, inlineWs) + "#" + pick(r, []string{"", " Manual edits can break the build", "x:y:1=z", " généré", "\xff"})
	case 2:
		return pick(r, inlineWs) + "empty=" + pick(r, []string{"", "annotationProcessor", "a,b,c"}) + pick(r, inlineWs)
	case 3:
		return ""
	case 4:
		return pick(r, []string{" ", "\t", "  \t "})
	default:
		return "# " + word(r, lower+" :=", 0, 30)
	}
}

func genGradleRec(r *rand.Rand) gradleRec {
	g := gradleRec{
		group:    word(r, lower, 1, 1) + word(r, lower+digits+".-_", 0, 20),
		artifact: word(r, lower+upper+digits+"._-", 1, 15),
		ver:      word(r, digits, 1, 2) + word(r, lower+upper+digits+".+_-", 0, 12),
		confs:    pick(r, []string{"compileClasspath", "compileClasspath,runtimeClasspath", "", "testRuntimeClasspath", "a=b", "x y"}),
		lead:     pick(r, inlineWs), trail: pick(r, inlineWs),
	}
	if r.Intn(12) == 0 {
		g.group = pick(r, []string{"empty", "emptyx", "e", "empt", "edu.x", "Empty"})
	}
	g.ver = edgeVer(r, []string{"1", "9", "0", "a", "Z", "10", "1a", "10.20.30.40.50-SNAPSHOT+build_20240101.abcdef0123456789.RELEASE"}, g.ver)
	if r.Intn(20) == 0 {
		g.ver += ":" + word(r, digits, 1, 3) // a ':' inside the version part
	}
	return g
}

func renderGradle(recs []gradleRec, before func(i int) []string, after []string, e eols) []byte {
	var ls []string
	rtReset()
	for i, g := range recs {
		for _, f := range before(i) {
			ls = append(ls, f)
			rtItem("f" + hq(f))
		}
		ls = append(ls, g.line())
		rtItem("r" + hq(g.group) + "," + hq(g.artifact) + "," + hq(g.ver) + "," + hq(g.confs) + "," + hq(g.lead) + "," + hq(g.trail))
	}
	for _, f := range after {
		ls = append(ls, f)
		rtItem("f" + hq(f))
	}
	return e.join(ls)
}

func genGradle(r *rand.Rand) gcase {
	n := nrec(r)
	recs := make([]gradleRec, n)
	var exp []nv
	for i := range recs {
		recs[i] = genGradleRec(r)
		if i > 0 && r.Intn(15) == 0 {
			recs[i] = recs[i-1]
		}
		exp = append(exp, nv{recs[i].group + ":" + recs[i].artifact, recs[i].ver})
	}
	e := randEols(r)
	fill := r.Intn(3)
	before := func(i int) []string {
		var fs []string
		if i == 0 && r.Intn(2) == 0 {
			fs = append(fs, "# This is a Gradle generated file for dependency locking.", "# Manual edits can break the build and are not advised.", "# This file is expected to be part of source control.")
		}
		for k := r.Intn(1 + fill); k > 0; k-- {
			fs = append(fs, gradleFiller(r))
		}
		return fs
	}
	var after []string
	for k := r.Intn(3); k > 0; k-- {
		after = append(after, gradleFiller(r))
	}
	data := renderGradle(recs, before, after, e)
	return gcase{format: "gradle", data: data, expect: exp, known: true, class: "wf-" + e.String(), rtok: rtTok()}
}

var gradlePool = []string{"# comment", "empty=", "empty=annotationProcessor", "com.g:guava:31.1-jre=compileClasspath,runtimeClasspath", "org.s:slf4j:1.7=rt", "a:b", "a:b:c", "a:b:=x", ":b:1=x", "  org.x:y:2=z  ", "", "a:b:c:d=e", "\t#x", "x:y:1==", "emptyfoo:b:1=c", "\xc2\xa0a:b:1=c\xc2\xa0", "\xe2\x80\x83#c", "a:b:1=c\xe2\x80\x83", "\xc2a:b:1=c", "a:b:1=c\xa0", "\xe3\x80\x80empty=", "a:b:1=\x85", "\x85a:b:2=c", "\xe2\x80a:b:3=c", "a:b:4=c\xe2\x80", "a:b:5=c\x80\x80", "\xe1\x9a\x80a:b:6=c\xe2\x81\x9f"}

func badGradle(r *rand.Rand) gcase {
	var data []byte
	cls := "soup"
	k := r.Intn(2)
	if r.Intn(12) == 0 {
		k = 2
	}
	switch k {
	case 0:
		data = soup(r, gradlePool, 10)
	case 1:
		data = mutate(r, genGradle(r).data)
		cls = "mutated"
	default:
		n := 65525 + r.Intn(14)
		data = []byte("a:b:1=c\n" + "x:y:" + strings.Repeat("9", n-6) + "=z" + pick(r, []string{"\n", "\r\n", ""}) + pick(r, []string{"", "\nq:r:3=s\n"}))
		cls = "longline"
	}
	return gcase{format: "gradle", data: data, class: "bad-" + cls}
}

func smallGradle(emit func(gcase)) {
	base := []gradleRec{{group: "com.google.guava", artifact: "guava", ver: "31.1-jre", confs: "compileClasspath,runtimeClasspath"},
		{group: "org.slf4j", artifact: "slf4j-api", ver: "1.7.36", confs: "rt"}, {group: "edu.x", artifact: "empty", ver: "2", confs: ""}}
	for _, idx := range orderedSubsets3() {
		for eol := 0; eol < 2; eol++ {
			for fin := 0; fin < 2; fin++ {
				for fill := 0; fill < 3; fill++ {
					for ws := 0; ws < 2; ws++ {
						for emp := 0; emp < 3; emp++ { // the empty= line: absent / last / first
							recs := make([]gradleRec, len(idx))
							var exp []nv
							for i, j := range idx {
								g := base[j]
								if ws == 1 {
									g.lead, g.trail = "  ", " \t"
								}
								recs[i] = g
								exp = append(exp, nv{g.group + ":" + g.artifact, g.ver})
							}
							before := func(i int) []string {
								var fs []string
								if i == 0 && fill > 0 {
									fs = append(fs, "# header")
								}
								if i == 0 && emp == 2 {
									fs = append(fs, "empty=")
								}
								if i > 0 && fill == 2 {
									fs = append(fs, "", " ")
								}
								return fs
							}
							var after []string
							if emp == 1 {
								after = []string{"empty=annotationProcessor"}
							}
							data := renderGradle(recs, before, after, eols{mode: eol, final: fin == 1})
							emit(gcase{format: "gradle", data: data, expect: exp, known: true, class: "small", rtok: rtTok()})
						}
					}
				}
			}
		}
	}
}

// ---------------------------------------------------------------------------------------------- Gemfile.lock

type gemSpec struct {
	name, ver, plat string
	deps            []string
}
type gemSec struct {
	name   string
	source bool
	opts   []string  // "  remote: …" lines
	specs  []gemSpec // 4-space entries
	other  []string  // lines of non-source sections
}

func gemName(r *rand.Rand) string { return word(r, lower, 1, 1) + word(r, lower+digits+"_-.", 0, 14) }
func gemVer(r *rand.Rand) string {
	return edgeVer(r, []string{"1", "9", "0", "a", "10", "1a", "10.20.30.40.50.60.70.80.90.100.pre.rc.1.beta.2"}, gemVerUsual(r))
}

func gemVerUsual(r *rand.Rand) string {
	return word(r, digits, 1, 2) + "." + word(r, digits, 1, 2) + pick(r, []string{"", ".0", ".3.pre", ".rc1", ".beta.2"})
}

func (s gemSec) lines(r *rand.Rand) []string {
	ls := []string{s.name}
	ls = append(ls, s.opts...)
	for _, sp := range s.specs {
		l := "    " + sp.name + " (" + sp.ver
		if sp.plat != "" {
			l += "-" + sp.plat
		}
		ls = append(ls, l+")")
		for _, d := range sp.deps {
			ls = append(ls, "      "+d)
		}
	}
	return append(ls, s.other...)
}

func genGemSecs(r *rand.Rand, n int) ([]gemSec, []nv) {
	var secs []gemSec
	var exp []nv
	left := n
	nsrc := 1 + r.Intn(3)
	for k := 0; k < nsrc; k++ {
		s := gemSec{name: pick(r, []string{"GEM", "GEM", "GIT", "PATH", "PLUGIN SOURCE"}), source: true}
		switch s.name {
		case "GEM":
			s.opts = []string{"  remote: https://rubygems.org/", "  specs:"}
		case "GIT":
			s.opts = []string{"  remote: https://github.com/a/b.git", "  revision: " + word(r, "0123456789abcdef", 40, 40), "  branch: main", "  specs:"}
		case "PATH":
			s.opts = []string{"  remote: .", "  specs:"}
		default:
			s.opts = []string{"  remote: https://plug.example/", "  type: x", "  specs:"}
		}
		m := left
		if k < nsrc-1 {
			m = r.Intn(left + 1)
		}
		left -= m
		for ; m > 0; m-- {
			sp := gemSpec{name: gemName(r), ver: gemVer(r)}
			if r.Intn(6) == 0 {
				sp.plat = pick(r, []string{"x86_64-linux", "java", "arm64-darwin-22", "x64-mingw-ucrt"})
			}
			for d := r.Intn(3); d > 0; d-- {
				sp.deps = append(sp.deps, gemName(r)+pick(r, []string{"", " (~> 1.4)", " (>= 2.0, < 4)", " (= 1.0.0)"}))
			}
			s.specs = append(s.specs, sp)
			exp = append(exp, nv{sp.name, sp.ver})
		}
		secs = append(secs, s)
	}
	// non-source sections
	if r.Intn(4) != 0 {
		secs = append(secs, gemSec{name: "PLATFORMS", other: []string{"  ruby", "  x86_64-linux"}})
	}
	if r.Intn(4) != 0 {
		d := gemSec{name: "DEPENDENCIES"}
		for _, p := range exp {
			if r.Intn(3) == 0 {
				d.other = append(d.other, "  "+p.name+pick(r, []string{"", "!", " (~> 1.0)", " (>= 0)!"}))
			}
		}
		secs = append(secs, d)
	}
	if r.Intn(4) == 0 { // a non-source section with 4-space entries: these are not installed gems
		secs = append(secs, gemSec{name: pick(r, []string{"CHECKSUMS", "VENDORED", "GEMS"}), specs: []gemSpec{{name: gemName(r), ver: gemVer(r)}, {name: gemName(r), ver: gemVer(r)}}})
	}
	if r.Intn(3) == 0 {
		secs = append(secs, gemSec{name: "RUBY VERSION", other: []string{"   ruby 3.1.2p20"}})
	}
	if r.Intn(3) != 0 {
		secs = append(secs, gemSec{name: "BUNDLED WITH", other: []string{"   2.3.7"}})
	}
	if r.Intn(3) == 0 { // section order is free
		r.Shuffle(len(secs), func(i, j int) { secs[i], secs[j] = secs[j], secs[i] })
	}
	return secs, exp
}

func renderGem(r *rand.Rand, secs []gemSec, gap func(i int) int, e eols) []byte {
	var ls []string
	rtReset()
	for i, s := range secs {
		g := gap(i)
		ls = append(ls, blanks(g)...)
		for k := 0; k < g; k++ {
			rtItem("b")
		}
		ls = append(ls, s.lines(r)...)
		rtItem("s" + hq(s.name))
		aux := func(l string) {
			t := strings.TrimLeft(l, " ")
			rtItem("a" + strconv.Itoa(len(l)-len(t)) + "," + hq(t))
		}
		for _, o := range s.opts {
			aux(o)
		}
		for _, sp := range s.specs {
			pl := "!"
			if sp.plat != "" {
				pl = hq(sp.plat)
			}
			rtItem("p" + hq(sp.name) + "," + hq(sp.ver) + "," + pl)
			for _, d := range sp.deps {
				aux("      " + d)
			}
		}
		for _, o := range s.other {
			aux(o)
		}
	}
	return e.join(ls)
}

func genGemfile(r *rand.Rand) gcase {
	secs, exp := genGemSecs(r, nrec(r))
	// installed = the specs of source sections only, in file order
	exp = nil
	for _, s := range secs {
		if s.source {
			for _, sp := range s.specs {
				exp = append(exp, nv{sp.name, sp.ver})
			}
		}
	}
	e := randEols(r)
	g := r.Intn(3)
	data := renderGem(r, secs, func(i int) int {
		if i == 0 {
			return r.Intn(2) * r.Intn(2)
		}
		return 1 + r.Intn(1+g) - r.Intn(2)*r.Intn(2) // usually ≥ 1 blank line, sometimes none
	}, e)
	return gcase{format: "gemfile", data: data, expect: exp, known: true, class: "wf-" + e.String(), rtok: rtTok()}
}

var gemPool = []string{"GEM", "GIT", "PATH", "PLUGIN SOURCE", "PLATFORMS", "DEPENDENCIES", "BUNDLED WITH", "  remote: https://rubygems.org/", "  revision: abc123", "  specs:", "    ast (2.4.2)", "    nokogiri (1.13.3-x86_64-linux)", "      racc (~> 1.4)", "    racc (1.6.0)", "    bare", "    weird (", "    x ()", "    y (-1)", "    z (1.0)!", "", "  ruby", "   2.3.7", "    a b (1)", "    q (1)-2)", "    p (1-2)!", "    ! (1)", "    (2)", "     five (1)", "\tGEM", "    m (1) (2)", "    n (1)(2)!", "    o (1-)", "    r (1)!!", "    s (1-2-3))!"}

func badGemfile(r *rand.Rand) gcase {
	var data []byte
	cls := "soup"
	k := r.Intn(2)
	if r.Intn(12) == 0 {
		k = 2
	}
	switch k {
	case 0:
		data = soup(r, gemPool, 10)
	case 1:
		data = mutate(r, genGemfile(r).data)
		cls = "mutated"
	default:
		n := 65525 + r.Intn(14)
		data = []byte("GEM\n    a (1)\n    b (" + strings.Repeat("2", n-7) + ")" + pick(r, []string{"\n", "\r\n", ""}) + pick(r, []string{"", "\n    c (3)\n"}))
		cls = "longline"
	}
	return gcase{format: "gemfile", data: data, class: "bad-" + cls}
}

func smallGemfile(emit func(gcase)) {
	base := []gemSpec{{name: "ast", ver: "2.4.2"}, {name: "nokogiri", ver: "1.13.3", plat: "x86_64-linux", deps: []string{"racc (~> 1.4)"}}, {name: "racc", ver: "1.6.0"}}
	for _, idx := range orderedSubsets3() {
		for eol := 0; eol < 2; eol++ {
			for fin := 0; fin < 2; fin++ {
				for gap := 0; gap < 3; gap++ {
					for lay := 0; lay < 4; lay++ {
						// lay 0: one GEM section; 1: GIT + GEM split; 2: + a non-source section with 4-space entries last; 3: the same first
						var secs []gemSec
						specs := make([]gemSpec, len(idx))
						for i, j := range idx {
							specs[i] = base[j]
						}
						gem := gemSec{name: "GEM", source: true, opts: []string{"  remote: https://rubygems.org/", "  specs:"}}
						git := gemSec{name: "GIT", source: true, opts: []string{"  remote: https://github.com/a/b.git", "  revision: 0123abc", "  specs:"}}
						if lay >= 1 && len(specs) > 0 {
							git.specs, gem.specs = specs[:1], specs[1:]
							secs = []gemSec{git, gem}
						} else {
							gem.specs = specs
							secs = []gemSec{gem}
						}
						var exp []nv
						for _, s := range secs {
							for _, sp := range s.specs {
								exp = append(exp, nv{sp.name, sp.ver})
							}
						}
						ni := gemSec{name: "CHECKSUMS", specs: []gemSpec{{name: "notinstalled", ver: "9.9"}}}
						deps := gemSec{name: "DEPENDENCIES", other: []string{"  ast", "  nokogiri!"}}
						bw := gemSec{name: "BUNDLED WITH", other: []string{"   2.3.7"}}
						switch lay {
						case 2:
							secs = append(secs, deps, bw, ni)
						case 3:
							secs = append([]gemSec{ni}, append(secs, deps, bw)...)
						default:
							secs = append(secs, deps, bw)
						}
						data := renderGem(nil, secs, func(i int) int {
							if i == 0 {
								return 0
							}
							return gap
						}, eols{mode: eol, final: fin == 1})
						emit(gcase{format: "gemfile", data: data, expect: exp, known: true, class: "small", rtok: rtTok()})
					}
				}
			}
		}
	}
}
