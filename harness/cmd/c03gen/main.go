// c03gen: correspondence + oracle stream for C03 (and the modelled parsers of C02).
// For each of the twelve formats: an abstract package set (0..40 records) + a layout is serialised with the
// harness's OWN encoders, the real extractor's Extract is run on the bytes through a ScanInput, and the
// (name, version) list it reports is printed next to the generated set (the specification).
// Case line (see lean/Drivers/C03.lean):
//   <format> <hex file bytes|-> <expected list|?> [<decoded document>]      reply: pk=<sorted list|-|err|panic>
// list = hex(name)@hex(version) joined by ','.  `?` marks inputs outside the well-formed generator
// (malformed stream, deliberately out-of-core classes): only model/implementation agreement is checked there.
// The class of every case is appended as a trailing comment token `#<class>` AFTER the tab-separated reply
// so that the case line itself stays replayable:  <case>\t<reply> cls=<class>
package main

import (
	"bytes"
	"context"
	"encoding/hex"
	"fmt"
	"io/fs"
	"math/rand"
	"os"
	"runtime"
	"sort"
	"strings"
	"sync/atomic"
	"testing/fstest"
	"time"

	"github.com/google/osv-scalibr/extractor/filesystem"
	"github.com/google/osv-scalibr/extractor/filesystem/language/dotnet/packageslockjson"
	"github.com/google/osv-scalibr/extractor/filesystem/language/golang/gomod"
	"github.com/google/osv-scalibr/extractor/filesystem/language/java/gradlelockfile"
	"github.com/google/osv-scalibr/extractor/filesystem/language/javascript/packagelockjson"
	"github.com/google/osv-scalibr/extractor/filesystem/language/php/composerlock"
	"github.com/google/osv-scalibr/extractor/filesystem/language/python/pipfilelock"
	"github.com/google/osv-scalibr/extractor/filesystem/language/python/poetrylock"
	"github.com/google/osv-scalibr/extractor/filesystem/language/python/requirements"
	"github.com/google/osv-scalibr/extractor/filesystem/language/ruby/gemfilelock"
	"github.com/google/osv-scalibr/extractor/filesystem/language/rust/cargolock"
	"github.com/google/osv-scalibr/extractor/filesystem/os/apk"
	"github.com/google/osv-scalibr/extractor/filesystem/os/dpkg"
	"github.com/google/osv-scalibr/extractor/filesystem/simplefileapi"

	"verif/harness/hx"
)

type nv struct{ name, ver string }

// gcase is one generated file.
type gcase struct {
	format string
	data   []byte
	expect []nv // nil + known=false: '?'
	known  bool
	class  string
	rtok   string // abstract records + layout for the Lean driver (line formats; "" = none)
	// reqtree only (gen_tree.go): path of the scanned file, the file system, expected list with locations
	path    string
	files   []gfile
	expectL string
}

type format struct {
	name   string
	path   string
	ex     filesystem.Extractor
	lineA  bool                                     // (a) line format: the Lean model parses the bytes
	decode func(b []byte) (string, error)           // (b): decoded document for the Lean model
	gen    func(r *rand.Rand) gcase                 // well-formed generator
	bad    func(r *rand.Rand) gcase                 // malformed stream ((a) only; nil otherwise)
	small  func(emit func(gcase))                   // thorough: every layout of every ≤3-record set ((a) only)
	smallQuick bool                                 // run `small` in the quick tier too
	locs   bool                                     // print Locations with every package
}

var formats []*format

func init() {
	formats = []*format{
		{name: "apk", path: "lib/apk/db/installed", ex: apk.NewDefault(), lineA: true, gen: withLong("apk", genApk), bad: badApk, small: smallApk},
		{name: "gradle", path: "gradle.lockfile", ex: gradlelockfile.New(), lineA: true, gen: withLong("gradle", genGradle), bad: badGradle, small: smallGradle},
		{name: "gemfile", path: "Gemfile.lock", ex: gemfilelock.New(), lineA: true, gen: withLong("gemfile", genGemfile), bad: badGemfile, small: smallGemfile},
		{name: "dpkg", path: "var/lib/dpkg/status", ex: dpkg.NewDefault(), lineA: true, gen: genDpkg, bad: badDpkg, small: smallDpkg},
		{name: "dpkgd", path: "var/lib/dpkg/status.d/base-files", ex: dpkg.NewDefault(), lineA: true, gen: genDpkgD, bad: badDpkgD},
		{name: "requirements", path: "requirements.txt", ex: requirements.NewDefault(), lineA: true, gen: withLong("requirements", genReq), bad: badReq, small: smallReq},
		{name: "reqtree", path: "requirements.txt", ex: requirements.NewDefault(), lineA: true, gen: genReqTree, bad: badReqTree, small: smallReqTree, smallQuick: true, locs: true},
		{name: "plock", path: "package-lock.json", ex: packagelockjson.NewDefault(), decode: packagelockjson.VerifDecodeDoc, gen: genPlock, bad: badOf(genPlock)},
		{name: "composer", path: "composer.lock", ex: composerlock.New(), decode: composerlock.VerifDecodeDoc, gen: genComposer, bad: badOf(genComposer)},
		{name: "cargo", path: "Cargo.lock", ex: cargolock.New(), decode: cargolock.VerifDecodeDoc, gen: genCargo, bad: badOf(genCargo)},
		{name: "poetry", path: "poetry.lock", ex: poetrylock.New(), decode: poetrylock.VerifDecodeDoc, gen: genPoetry, bad: badOf(genPoetry)},
		{name: "pipfile", path: "Pipfile.lock", ex: pipfilelock.New(), decode: pipfilelock.VerifDecodeDoc, gen: genPipfile, bad: badOf(genPipfile)},
		{name: "pkgslock", path: "packages.lock.json", ex: packageslockjson.NewDefault(), decode: decodePkgsLock, gen: genPkgsLock, bad: badOf(genPkgsLock)},
		{name: "gomod", path: "go.mod", ex: gomod.New(), decode: decodeGoMod, gen: genGoMod, bad: badOf(genGoMod)},
	}
}

// withLong: every sixth well-formed case of a line format gets ONE more line the format allows and a reader must pass over — a comment
// (gradle.lockfile, requirements.txt), a dependency field inside the first record (apk), a platform entry in a section of its own in front
// of everything (Gemfile.lock) — whose length lies around bufio.Scanner's 64 KiB token limit: 65 534 and 65 535 bytes fit, 65 536 and
// 70 000 do not. None of the formats limits the length of a line, so the expected list is that of the file without the line. These cases
// carry no record token: the Lean Spec's WF assumes short lines, the generator's list is the specification here (src=gen).
var longCount = map[string]int{}

func withLong(name string, gen func(r *rand.Rand) gcase) func(r *rand.Rand) gcase {
	return func(r *rand.Rand) gcase {
		c := gen(r)
		if r.Intn(6) != 0 || !c.known || len(c.files) > 0 {
			return c
		}
		if name == "gemfile" && r.Intn(2) == 0 {
			// a multi-platform lock file: the same gem at the same version once more for a native platform ("nokogiri (1.13.0)" and
			// "nokogiri (1.13.0-x86_64-linux)"): ONE package, the platform is not part of the version
			for _, e := range c.expect {
				if strings.ContainsAny(e.ver, "-") || e.ver == "" {
					continue
				}
				l := []byte("    " + e.name + " (" + e.ver + ")")
				i := bytes.Index(c.data, append(append([]byte{'\n'}, l...), '\n'))
				if i < 0 {
					continue
				}
				at := i + 1 + len(l) + 1
				twin := "    " + e.name + " (" + e.ver + "-" + []string{"x86_64-linux", "arm64-darwin", "java"}[r.Intn(3)] + ")\n"
				d := append(append(append([]byte{}, c.data[:at]...), twin...), c.data[at:]...)
				return gcase{format: c.format, data: d, expect: c.expect, known: true, class: c.class + "-twin"}
			}
			return c
		}
		// at most 160 of these per format and run: each is a 130 KB case line (the thorough tier would otherwise carry a gigabyte of them)
		if longCount[name] >= 160 {
			return c
		}
		longCount[name]++
		k := []int{65534, 65535, 65536, 70000}[r.Intn(4)]
		body := func(prefix string) string { return prefix + strings.Repeat("x", k-len(prefix)) }
		var bounds []int // offsets just after a '\n' (and 0) where a whole line may be inserted
		bounds = append(bounds, 0)
		for i, b := range c.data {
			if b == '\n' && !(name == "requirements" && i > 0 && (c.data[i-1] == '\\' || (i > 1 && c.data[i-1] == '\r' && c.data[i-2] == '\\'))) {
				bounds = append(bounds, i+1)
			}
		}
		at, ins, pos := 0, "", "top"
		switch name {
		case "gradle", "requirements":
			j := r.Intn(len(bounds))
			at, ins = bounds[j], body("# ")+"\n"
			if j > 0 {
				pos = "mid"
			}
			if at == len(c.data) {
				pos = "end"
			}
		case "gemfile":
			ins = "PLATFORMS\n" + body("  ") + "\n\n"
		case "apk":
			if len(bounds) < 2 || bounds[1] < 3 { // no record / a blank first line
				return c
			}
			at, ins, pos = bounds[1], body("D:")+"\n", "rec"
		default:
			return c
		}
		d := append(append(append([]byte{}, c.data[:at]...), ins...), c.data[at:]...)
		return gcase{format: c.format, data: d, expect: c.expect, known: true, class: fmt.Sprintf("%s-long%d-%s", c.class, k, pos)}
	}
}

// badOf: the malformed stream of a library-decoded format: a well-formed file with a byte- / line-level mutation. Either the extractor's own
// decoder rejects it — then Extract must fail too (emitCase) — or it decodes, and model and implementation must agree on that document.
func badOf(gen func(r *rand.Rand) gcase) func(r *rand.Rand) gcase {
	return func(r *rand.Rand) gcase {
		c := gen(r)
		return gcase{format: c.format, data: mutate(r, c.data), class: "bad-mutated"}
	}
}

func byName(n string) *format {
	for _, f := range formats {
		if f.name == n {
			return f
		}
	}
	return nil
}

type fakeInfo struct {
	name string
	size int64
}

func (f fakeInfo) Name() string       { return f.name }
func (f fakeInfo) Size() int64        { return f.size }
func (f fakeInfo) Mode() fs.FileMode  { return 0o644 }
func (f fakeInfo) ModTime() time.Time { return time.Time{} }
func (f fakeInfo) IsDir() bool        { return false }
func (f fakeInfo) Sys() any           { return nil }

func hexs(s string) string { return hex.EncodeToString([]byte(s)) }

func listOf(ps []nv) string {
	if len(ps) == 0 {
		return "-"
	}
	xs := make([]string, len(ps))
	for i, p := range ps {
		xs[i] = hexs(p.name) + "@" + hexs(p.ver)
	}
	sort.Strings(xs)
	return strings.Join(xs, ",")
}

// run executes the real Extract on the bytes, under recover, a 5 s watchdog (pk=hang: the goroutine is abandoned) and,
// through memGuard, a heap bound (pk=oom: the stream ends there, what was produced so far is kept).
func run(f *format, data []byte, at string, files []gfile) string {
	done := make(chan string, 1)
	if at == "" {
		at = f.path
	}
	go func() {
		done <- hx.Guard(func() string {
			fsys := fstest.MapFS{}
			for _, g := range files {
				fsys[g.path] = &fstest.MapFile{Data: g.data, Mode: 0o644}
			}
			in := &filesystem.ScanInput{
				FS:     fsys,
				Path:   at,
				Root:   "",
				Info:   fakeInfo{name: at, size: int64(len(data))},
				Reader: strings.NewReader(string(data)),
			}
			inv, err := f.ex.Extract(context.Background(), in)
			if err != nil {
				return "pk=err"
			}
			if f.locs {
				ps := make([]nvl, 0, len(inv.Packages))
				for _, p := range inv.Packages {
					ps = append(ps, nvl{p.Name, p.Version, p.Locations})
				}
				return "pk=" + listOfL(ps)
			}
			ps := make([]nv, 0, len(inv.Packages))
			for _, p := range inv.Packages {
				ps = append(ps, nv{p.Name, p.Version})
			}
			return "pk=" + listOf(ps)
		})
	}()
	select {
	case r := <-done:
		return r
	case <-time.After(caseWatchdog):
		hangs[f.name]++
		return "pk=hang"
	}
}

const (
	caseWatchdog = 5 * time.Second
	maxHangs     = 2       // per format: afterwards the format is dropped from the stream (each hang leaves a spinning goroutine behind)
	heapBound    = 1 << 30 // bytes of live heap during one Extract
)

var (
	hangs   = map[string]int{}
	dropped = map[string]int{} // format -> cases not generated after repeated hangs
	curCase atomic.Value        // the case line in flight (string), for memGuard
	curCls  atomic.Value
)

// memGuard ends the stream when an Extract call allocates without bound: the case in flight is reported as pk=oom.
func memGuard(out *hx.Out) {
	var ms runtime.MemStats
	for {
		time.Sleep(20 * time.Millisecond)
		runtime.ReadMemStats(&ms)
		if ms.HeapAlloc > heapBound {
			if l, _ := curCase.Load().(string); l != "" {
				c, _ := curCls.Load().(string)
				out.Emit(l, "pk=oom cls="+c)
			}
			out.Flush()
			fmt.Fprintf(os.Stderr, "c03gen: live heap above %d MiB during Extract: stream ended early\n", heapBound>>20)
			os.Exit(0)
		}
	}
}

func caseLine(f *format, c gcase) (string, bool) {
	h := "-"
	if len(c.data) > 0 {
		h = hex.EncodeToString(c.data)
	}
	exp := "?"
	if c.known {
		exp = listOf(c.expect)
		if f.locs {
			exp = c.expectL
		}
	}
	line := f.name + " " + h + " " + exp
	if f.lineA && c.rtok != "" {
		line += " " + c.rtok
	}
	if !f.lineA {
		doc, err := f.decode(c.data)
		if err != nil {
			if os.Getenv("C03GEN_DEBUG") != "" {
				fmt.Fprintf(os.Stderr, "decode %s: %v\n%s\n", f.name, err, c.data)
			}
			return "", false // the decoder rejects the bytes: nothing for the record-loop model to do
		}
		line += " " + doc
		if f.name == "gomod" && len(c.files) > 0 {
			// go.mod with a go.sum next to it: what the go.sum branch reads goes to the model, the bytes of go.sum make the line replayable
			line += "|" + goSumDoc(c.data, c.files)
			for _, g := range c.files {
				if g.path == "go.sum" {
					sh := "-"
					if len(g.data) > 0 {
						sh = hex.EncodeToString(g.data)
					}
					line += " S:" + sh
				}
			}
		}
	}
	return line, true
}

func emitCase(out *hx.Out, f *format, c gcase) {
	if hangs[f.name] >= maxHangs {
		dropped[f.name]++
		return
	}
	line, ok := caseLine(f, c)
	curCls.Store(f.name + "/" + c.class)
	curCase.Store(line)
	reply := run(f, c.data, c.path, c.files)
	curCase.Store("")
	if !ok {
		// (b) format whose decoder failed: the implementation must fail too (or the harness decoder is out of step)
		if reply != "pk=err" {
			fmt.Fprintf(os.Stderr, "c03gen: %s: harness decoder failed but Extract did not (%s) on %q\n", f.name, reply, c.data)
			os.Exit(3)
		}
		return
	}
	out.Emit(line, reply+" cls="+f.name+"/"+c.class)
}

func replay(out *hx.Out, l string) {
	t := strings.Split(l, " ")
	f := byName(t[0])
	if f == nil || len(t) < 3 {
		fmt.Fprintln(os.Stderr, "c03gen: bad replay line")
		os.Exit(2)
	}
	var data []byte
	if t[1] != "-" {
		b, err := hex.DecodeString(t[1])
		if err != nil {
			panic(err)
		}
		data = b
	}
	// the case line is re-emitted VERBATIM (incl. the decoded document it carries) so that model and oracle see what was recorded
	curCls.Store(f.name + "/replay")
	curCase.Store(l)
	at, files := "", []gfile(nil)
	for _, tok := range t[3:] { // gomod: `S:<hex go.sum>`
		if strings.HasPrefix(tok, "S:") {
			var sb []byte
			if tok != "S:-" {
				sb, _ = hex.DecodeString(tok[2:])
			}
			at, files = f.path, []gfile{{path: f.path, data: data}, {path: "go.sum", data: sb}}
		}
	}
	if f.locs { // T:<hex top path>:<reach> F:<hex path>:<hex content>:<R token> …
		for _, tok := range t[3:] {
			x := strings.SplitN(tok, ":", 4)
			switch {
			case x[0] == "T" && len(x) >= 2:
				b, _ := hex.DecodeString(x[1])
				at = string(b)
			case x[0] == "F" && len(x) >= 3:
				pb, _ := hex.DecodeString(x[1])
				var cb []byte
				if x[2] != "-" {
					cb, _ = hex.DecodeString(x[2])
				}
				files = append(files, gfile{path: string(pb), data: cb})
			}
		}
	}
	reply := run(f, data, at, files)
	curCase.Store("")
	out.Emit(l, reply+" cls="+f.name+"/replay")
}

type statFails struct{ p string }

func (s statFails) Path() string               { return s.p }
func (s statFails) Stat() (fs.FileInfo, error) { return nil, fs.ErrPermission }

// probes: assertions about the entry of every extractor that the generated files do not reach (run once per invocation; a failure ends the
// generator with exit status 3 and the message, which the check reports). (1) FileRequired: the documented file names are accepted, look-alikes are
// refused, a file whose Stat fails is refused by the extractors that stat. (2) A scan context that is already cancelled: the two record loops that
// poll it (apk, dpkg) must stop with an error and report nothing.
func probes() {
	fr := map[string][][2]string{ // format -> {path, "1" accepted / "0" refused}
		"apk":          {{"lib/apk/db/installed", "1"}, {"lib/apk/db/installed.bak", "0"}, {"usr/lib/apk/db/installed", "0"}, {"installed", "0"}},
		"gradle":       {{"gradle.lockfile", "1"}, {"sub/buildscript-gradle.lockfile", "1"}, {"gradle.lock", "0"}, {"gradle.lockfile.bak", "0"}},
		"gemfile":      {{"Gemfile.lock", "1"}, {"a/b/Gemfile.lock", "1"}, {"gemfile.lock", "0"}, {"Gemfile.lock.orig", "0"}},
		"dpkg":         {{"var/lib/dpkg/status", "1"}, {"usr/lib/opkg/status", "1"}, {"var/lib/dpkg/status.d/libc6", "1"}, {"var/lib/dpkg/status.d/libc6.md5sums", "0"}, {"var/lib/dpkg/status-old", "0"}, {"var/lib/dpkg/status.d", "0"}, {"lib/dpkg/status", "0"}},
		"requirements": {{"requirements.txt", "1"}, {"a/requirements-dev.txt", "1"}, {"dev_requirements.txt", "1"}, {"requirements.in", "0"}, {"reqs.txt", "0"}, {"requirements.txt.bak", "0"}},
		"plock":        {{"package-lock.json", "1"}, {"a/b/package-lock.json", "1"}, {"node_modules/x/package-lock.json", "0"}, {"a/node_modules/b/c/package-lock.json", "0"}, {"package-lock.json5", "0"}, {"npm-shrinkwrap.json", "0"}},
		"composer":     {{"composer.lock", "1"}, {"x/composer.lock", "1"}, {"composer.json", "0"}},
		"cargo":        {{"Cargo.lock", "1"}, {"x/Cargo.lock", "1"}, {"cargo.lock", "0"}, {"Cargo.toml", "0"}},
		"poetry":       {{"poetry.lock", "1"}, {"x/poetry.lock", "1"}, {"pyproject.toml", "0"}},
		"pipfile":      {{"Pipfile.lock", "1"}, {"x/Pipfile.lock", "1"}, {"Pipfile", "0"}},
		"pkgslock":     {{"packages.lock.json", "1"}, {"src/App/packages.lock.json", "1"}, {"packages.lock", "0"}, {"package.lock.json", "0"}},
		"gomod":        {{"go.mod", "1"}, {"x/go.mod", "1"}, {"go.sum", "0"}, {"go.mod.bak", "0"}},
	}
	fail := func(f string, a ...any) {
		fmt.Fprintf(os.Stderr, "c03gen: PROBE FAILED: "+f+"\n", a...)
		os.Exit(3)
	}
	statting := map[string]bool{"apk": true, "dpkg": true, "requirements": true, "plock": true, "pkgslock": true}
	for _, f := range formats {
		for _, pw := range fr[f.name] {
			got := f.ex.FileRequired(simplefileapi.New(pw[0], fakeInfo{name: pw[0], size: 10}))
			if got != (pw[1] == "1") {
				fail("%s FileRequired(%q) = %v, the documented file names say %s", f.ex.Name(), pw[0], got, pw[1])
			}
		}
		if statting[f.name] && f.ex.FileRequired(statFails{f.path}) {
			fail("%s FileRequired accepts %q although its Stat fails", f.ex.Name(), f.path)
		}
	}
	ctx, cancel := context.WithCancel(context.Background())
	cancel()
	for _, c := range []struct{ name, data string }{{"apk", "P:a\nV:1\n\nP:b\nV:2\n\n"}, {"dpkg", "Package: a\nStatus: install ok installed\nVersion: 1\n\n"}} {
		f := byName(c.name)
		inv, err := f.ex.Extract(ctx, &filesystem.ScanInput{FS: fstest.MapFS{}, Path: f.path, Info: fakeInfo{name: f.path, size: int64(len(c.data))}, Reader: strings.NewReader(c.data)})
		if err == nil || len(inv.Packages) != 0 {
			fail("%s Extract with a cancelled context returned %d package(s), err=%v (expected an error and nothing reported)", f.ex.Name(), len(inv.Packages), err)
		}
	}
}

func main() {
	o := hx.Parse()
	out := hx.NewOut()
	defer out.Flush()
	go memGuard(out)
	defer func() {
		for f, n := range dropped {
			fmt.Fprintf(os.Stderr, "c03gen: %s: %d case(s) not generated after %d hangs\n", f, n, maxHangs)
		}
	}()
	for _, f := range formats {
		if !f.ex.FileRequired(simplefileapi.New(f.path, fakeInfo{name: f.path, size: 10})) {
			fmt.Fprintf(os.Stderr, "c03gen: extractor %s does not accept %s\n", f.ex.Name(), f.path)
			os.Exit(2)
		}
	}
	probes()
	if o.Replay != "" {
		for _, l := range hx.ReplayLines(o.Replay) {
			replay(out, l)
		}
		return
	}
	if o.Tier == "thorough" {
		for _, f := range formats {
			if f.small != nil && !f.smallQuick {
				f.small(func(c gcase) { emitCase(out, f, c) })
			}
		}
	}
	for _, f := range formats {
		if f.small != nil && f.smallQuick {
			f.small(func(c gcase) { emitCase(out, f, c) })
		}
	}
	r := hx.Rng(o)
	// -n is the number of well-formed files PER FORMAT; (a) formats get n/2 malformed inputs on top
	for i := 0; i < o.N; i++ {
		for _, f := range formats {
			emitCase(out, f, f.gen(r))
			if f.bad != nil && i%2 == 0 {
				emitCase(out, f, f.bad(r))
			}
		}
	}
}
