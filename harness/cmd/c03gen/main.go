// c03gen: correspondence + oracle stream for C03 (and the modelled parsers of C02).
// For each of the twelve formats: an abstract package set (0..40 records) + a layout is serialised with the
// harness's OWN encoders, the real extractor's Extract is run on the bytes through a ScanInput, and the
// (name, version) list it reports is printed next to the generated set (the specification).
// Case line (see lean/Drivers/C03.lean):
//   <format> <hex file bytes|-> <expected list|?> [<decoded document>]      reply: pk=<sorted list|-|err|panic>
// list = hex(name)@hex(version) joined by ','.  `?` marks inputs outside the well-formed generator
// (malformed stream, deliberately out-of-core classes): only model/implementation agreement is checked there.
// The class of every case is appended as a trailing comment token `#<class>` AFTER the tab-separated reply
// so that the case line itself stays replayable:  <case>\t<reply> cls=<class>
package main

import (
	"context"
	"encoding/hex"
	"fmt"
	"io/fs"
	"math/rand"
	"os"
	"runtime"
	"sort"
	"strings"
	"sync/atomic"
	"testing/fstest"
	"time"

	"github.com/google/osv-scalibr/extractor/filesystem"
	"github.com/google/osv-scalibr/extractor/filesystem/language/dotnet/packageslockjson"
	"github.com/google/osv-scalibr/extractor/filesystem/language/golang/gomod"
	"github.com/google/osv-scalibr/extractor/filesystem/language/java/gradlelockfile"
	"github.com/google/osv-scalibr/extractor/filesystem/language/javascript/packagelockjson"
	"github.com/google/osv-scalibr/extractor/filesystem/language/php/composerlock"
	"github.com/google/osv-scalibr/extractor/filesystem/language/python/pipfilelock"
	"github.com/google/osv-scalibr/extractor/filesystem/language/python/poetrylock"
	"github.com/google/osv-scalibr/extractor/filesystem/language/python/requirements"
	"github.com/google/osv-scalibr/extractor/filesystem/language/ruby/gemfilelock"
	"github.com/google/osv-scalibr/extractor/filesystem/language/rust/cargolock"
	"github.com/google/osv-scalibr/extractor/filesystem/os/apk"
	"github.com/google/osv-scalibr/extractor/filesystem/os/dpkg"
	"github.com/google/osv-scalibr/extractor/filesystem/simplefileapi"

	"verif/harness/hx"
)

type nv struct{ name, ver string }

// gcase is one generated file.
type gcase struct {
	format string
	data   []byte
	expect []nv // nil + known=false: '?'
	known  bool
	class  string
	rtok   string // abstract records + layout for the Lean driver (line formats; "" = none)
	// reqtree only (gen_tree.go): path of the scanned file, the file system, expected list with locations
	path    string
	files   []gfile
	expectL string
}

type format struct {
	name   string
	path   string
	ex     filesystem.Extractor
	lineA  bool                                     // (a) line format: the Lean model parses the bytes
	decode func(b []byte) (string, error)           // (b): decoded document for the Lean model
	gen    func(r *rand.Rand) gcase                 // well-formed generator
	bad    func(r *rand.Rand) gcase                 // malformed stream ((a) only; nil otherwise)
	small  func(emit func(gcase))                   // thorough: every layout of every ≤3-record set ((a) only)
	smallQuick bool                                 // run `small` in the quick tier too
	locs   bool                                     // print Locations with every package
}

var formats []*format

func init() {
	formats = []*format{
		{name: "apk", path: "lib/apk/db/installed", ex: apk.NewDefault(), lineA: true, gen: genApk, bad: badApk, small: smallApk},
		{name: "gradle", path: "gradle.lockfile", ex: gradlelockfile.New(), lineA: true, gen: genGradle, bad: badGradle, small: smallGradle},
		{name: "gemfile", path: "Gemfile.lock", ex: gemfilelock.New(), lineA: true, gen: genGemfile, bad: badGemfile, small: smallGemfile},
		{name: "dpkg", path: "var/lib/dpkg/status", ex: dpkg.NewDefault(), lineA: true, gen: genDpkg, bad: badDpkg, small: smallDpkg},
		{name: "requirements", path: "requirements.txt", ex: requirements.NewDefault(), lineA: true, gen: genReq, bad: badReq, small: smallReq},
		{name: "reqtree", path: "requirements.txt", ex: requirements.NewDefault(), lineA: true, gen: genReqTree, bad: badReqTree, small: smallReqTree, smallQuick: true, locs: true},
		{name: "plock", path: "package-lock.json", ex: packagelockjson.NewDefault(), decode: packagelockjson.VerifDecodeDoc, gen: genPlock},
		{name: "composer", path: "composer.lock", ex: composerlock.New(), decode: composerlock.VerifDecodeDoc, gen: genComposer},
		{name: "cargo", path: "Cargo.lock", ex: cargolock.New(), decode: cargolock.VerifDecodeDoc, gen: genCargo},
		{name: "poetry", path: "poetry.lock", ex: poetrylock.New(), decode: poetrylock.VerifDecodeDoc, gen: genPoetry},
		{name: "pipfile", path: "Pipfile.lock", ex: pipfilelock.New(), decode: pipfilelock.VerifDecodeDoc, gen: genPipfile},
		{name: "pkgslock", path: "packages.lock.json", ex: packageslockjson.NewDefault(), decode: decodePkgsLock, gen: genPkgsLock},
		{name: "gomod", path: "go.mod", ex: gomod.New(), decode: decodeGoMod, gen: genGoMod},
	}
}

func byName(n string) *format {
	for _, f := range formats {
		if f.name == n {
			return f
		}
	}
	return nil
}

type fakeInfo struct {
	name string
	size int64
}

func (f fakeInfo) Name() string       { return f.name }
func (f fakeInfo) Size() int64        { return f.size }
func (f fakeInfo) Mode() fs.FileMode  { return 0o644 }
func (f fakeInfo) ModTime() time.Time { return time.Time{} }
func (f fakeInfo) IsDir() bool        { return false }
func (f fakeInfo) Sys() any           { return nil }

func hexs(s string) string { return hex.EncodeToString([]byte(s)) }

func listOf(ps []nv) string {
	if len(ps) == 0 {
		return "-"
	}
	xs := make([]string, len(ps))
	for i, p := range ps {
		xs[i] = hexs(p.name) + "@" + hexs(p.ver)
	}
	sort.Strings(xs)
	return strings.Join(xs, ",")
}

// run executes the real Extract on the bytes, under recover, a 5 s watchdog (pk=hang: the goroutine is abandoned) and,
// through memGuard, a heap bound (pk=oom: the stream ends there, what was produced so far is kept).
func run(f *format, data []byte, at string, files []gfile) string {
	done := make(chan string, 1)
	if at == "" {
		at = f.path
	}
	go func() {
		done <- hx.Guard(func() string {
			fsys := fstest.MapFS{}
			for _, g := range files {
				fsys[g.path] = &fstest.MapFile{Data: g.data, Mode: 0o644}
			}
			in := &filesystem.ScanInput{
				FS:     fsys,
				Path:   at,
				Root:   "",
				Info:   fakeInfo{name: at, size: int64(len(data))},
				Reader: strings.NewReader(string(data)),
			}
			inv, err := f.ex.Extract(context.Background(), in)
			if err != nil {
				return "pk=err"
			}
			if f.locs {
				ps := make([]nvl, 0, len(inv.Packages))
				for _, p := range inv.Packages {
					ps = append(ps, nvl{p.Name, p.Version, p.Locations})
				}
				return "pk=" + listOfL(ps)
			}
			ps := make([]nv, 0, len(inv.Packages))
			for _, p := range inv.Packages {
				ps = append(ps, nv{p.Name, p.Version})
			}
			return "pk=" + listOf(ps)
		})
	}()
	select {
	case r := <-done:
		return r
	case <-time.After(caseWatchdog):
		hangs[f.name]++
		return "pk=hang"
	}
}

const (
	caseWatchdog = 5 * time.Second
	maxHangs     = 2       // per format: afterwards the format is dropped from the stream (each hang leaves a spinning goroutine behind)
	heapBound    = 1 << 30 // bytes of live heap during one Extract
)

var (
	hangs   = map[string]int{}
	dropped = map[string]int{} // format -> cases not generated after repeated hangs
	curCase atomic.Value        // the case line in flight (string), for memGuard
	curCls  atomic.Value
)

// memGuard ends the stream when an Extract call allocates without bound: the case in flight is reported as pk=oom.
func memGuard(out *hx.Out) {
	var ms runtime.MemStats
	for {
		time.Sleep(20 * time.Millisecond)
		runtime.ReadMemStats(&ms)
		if ms.HeapAlloc > heapBound {
			if l, _ := curCase.Load().(string); l != "" {
				c, _ := curCls.Load().(string)
				out.Emit(l, "pk=oom cls="+c)
			}
			out.Flush()
			fmt.Fprintf(os.Stderr, "c03gen: live heap above %d MiB during Extract: stream ended early\n", heapBound>>20)
			os.Exit(0)
		}
	}
}

func caseLine(f *format, c gcase) (string, bool) {
	h := "-"
	if len(c.data) > 0 {
		h = hex.EncodeToString(c.data)
	}
	exp := "?"
	if c.known {
		exp = listOf(c.expect)
		if f.locs {
			exp = c.expectL
		}
	}
	line := f.name + " " + h + " " + exp
	if f.lineA && c.rtok != "" {
		line += " " + c.rtok
	}
	if !f.lineA {
		doc, err := f.decode(c.data)
		if err != nil {
			if os.Getenv("C03GEN_DEBUG") != "" {
				fmt.Fprintf(os.Stderr, "decode %s: %v\n%s\n", f.name, err, c.data)
			}
			return "", false // the decoder rejects the bytes: nothing for the record-loop model to do
		}
		line += " " + doc
	}
	return line, true
}

func emitCase(out *hx.Out, f *format, c gcase) {
	if hangs[f.name] >= maxHangs {
		dropped[f.name]++
		return
	}
	line, ok := caseLine(f, c)
	curCls.Store(f.name + "/" + c.class)
	curCase.Store(line)
	reply := run(f, c.data, c.path, c.files)
	curCase.Store("")
	if !ok {
		// (b) format whose decoder failed: the implementation must fail too (or the harness decoder is out of step)
		if reply != "pk=err" {
			fmt.Fprintf(os.Stderr, "c03gen: %s: harness decoder failed but Extract did not (%s) on %q\n", f.name, reply, c.data)
			os.Exit(3)
		}
		return
	}
	out.Emit(line, reply+" cls="+f.name+"/"+c.class)
}

func replay(out *hx.Out, l string) {
	t := strings.Split(l, " ")
	f := byName(t[0])
	if f == nil || len(t) < 3 {
		fmt.Fprintln(os.Stderr, "c03gen: bad replay line")
		os.Exit(2)
	}
	var data []byte
	if t[1] != "-" {
		b, err := hex.DecodeString(t[1])
		if err != nil {
			panic(err)
		}
		data = b
	}
	// the case line is re-emitted VERBATIM (incl. the decoded document it carries) so that model and oracle see what was recorded
	curCls.Store(f.name + "/replay")
	curCase.Store(l)
	at, files := "", []gfile(nil)
	if f.locs { // T:<hex top path>:<reach> F:<hex path>:<hex content>:<R token> …
		for _, tok := range t[3:] {
			x := strings.SplitN(tok, ":", 4)
			switch {
			case x[0] == "T" && len(x) >= 2:
				b, _ := hex.DecodeString(x[1])
				at = string(b)
			case x[0] == "F" && len(x) >= 3:
				pb, _ := hex.DecodeString(x[1])
				var cb []byte
				if x[2] != "-" {
					cb, _ = hex.DecodeString(x[2])
				}
				files = append(files, gfile{path: string(pb), data: cb})
			}
		}
	}
	reply := run(f, data, at, files)
	curCase.Store("")
	out.Emit(l, reply+" cls="+f.name+"/replay")
}

func main() {
	o := hx.Parse()
	out := hx.NewOut()
	defer out.Flush()
	go memGuard(out)
	defer func() {
		for f, n := range dropped {
			fmt.Fprintf(os.Stderr, "c03gen: %s: %d case(s) not generated after %d hangs\n", f, n, maxHangs)
		}
	}()
	for _, f := range formats {
		if !f.ex.FileRequired(simplefileapi.New(f.path, fakeInfo{name: f.path, size: 10})) {
			fmt.Fprintf(os.Stderr, "c03gen: extractor %s does not accept %s\n", f.ex.Name(), f.path)
			os.Exit(2)
		}
	}
	if o.Replay != "" {
		for _, l := range hx.ReplayLines(o.Replay) {
			replay(out, l)
		}
		return
	}
	if o.Tier == "thorough" {
		for _, f := range formats {
			if f.small != nil && !f.smallQuick {
				f.small(func(c gcase) { emitCase(out, f, c) })
			}
		}
	}
	for _, f := range formats {
		if f.small != nil && f.smallQuick {
			f.small(func(c gcase) { emitCase(out, f, c) })
		}
	}
	r := hx.Rng(o)
	// -n is the number of well-formed files PER FORMAT; (a) formats get n/2 malformed inputs on top
	for i := 0; i < o.N; i++ {
		for _, f := range formats {
			emitCase(out, f, f.gen(r))
			if f.bad != nil && i%2 == 0 {
				emitCase(out, f, f.bad(r))
			}
		}
	}
}
