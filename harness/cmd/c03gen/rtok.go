package main

// The "R token": the abstract records and the layout of a generated line-format file, in file order, so that the
// Lean driver can (1) rebuild `Layout` and `List GRec`, (2) evaluate the theorems' hypotheses (`wf=`), (3) run the
// Lean `render` and compare its bytes with the file the harness wrote (`same=`), and (4) compute `spec=` from the
// Spec definition `installed rs` instead of echoing the generator's expectation.
//   R:<final 0|1>,<crlf bits per line or ->|<item>;<item>;…
// items are format-specific (see lean/Drivers/C03.lean); strings are hex; an item `x` marks something the Lean
// generator-side types cannot express (the case is then outside the theorems' domain: no wf / spec from Lean).

import (
	"encoding/hex"
	"strings"
)

var rt struct {
	items []string
	crlf  []byte
	final bool
}

func rtReset() { rt.items, rt.crlf, rt.final = nil, nil, true }

func rtItem(s string) { rt.items = append(rt.items, s) }

func hq(s string) string { return hex.EncodeToString([]byte(s)) }

func rtTok() string {
	bits := "-"
	if len(rt.crlf) > 0 {
		bits = string(rt.crlf)
	}
	f := "0"
	if rt.final {
		f = "1"
	}
	return "R:" + f + "," + bits + "|" + strings.Join(rt.items, ";")
}

func kvList(lines []string) string {
	xs := make([]string, len(lines))
	for i, l := range lines {
		k, v, _ := strings.Cut(l, ":")
		xs[i] = hq(k) + "=" + hq(v)
	}
	return strings.Join(xs, ".")
}

func b01(b bool) string {
	if b {
		return "1"
	}
	return "0"
}
