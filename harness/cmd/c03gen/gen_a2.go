package main

import (
	"math/rand"
	"strings"
)

// ---------------------------------------------------------------------------------------------- dpkg status

type dpkgField struct {
	key   string
	sep   string   // what follows the colon on the first line ("" | " " | "  " | "\t")
	value string   // first-line value
	cont  []string // continuation lines, each starting with a space or tab
}
type dpkgRec struct {
	name, ver, status string
	installed         bool
	fields            []dpkgField // all fields in file order (Package / Status / Version among them)
}

var dpkgStatuses = []struct {
	s    string
	inst bool
}{
	{"install ok installed", true}, {"install ok installed", true}, {"install ok installed", true}, {"hold ok installed", true},
	{"deinstall ok config-files", false}, {"install ok half-installed", false}, {"purge ok not-installed", false},
	{"install ok unpacked", false}, {"install reinstreq half-configured", false}, {"install ok triggers-pending", false},
}

func dpkgName(r *rand.Rand) string { return word(r, lower+digits, 1, 1) + word(r, lower+digits+"+-.", 1, 14) }
func dpkgVer(r *rand.Rand) string {
	return edgeVer(r, []string{"1", "9", "0", "10", "1a", "1:2.3.4.5.6.7.8.9+really10.11.12~rc1+git20240101.abcdef0-0ubuntu0.22.04.1+esm1"}, dpkgVerUsual(r))
}

func dpkgVerUsual(r *rand.Rand) string {
	return pick(r, []string{"", "", "1:", "2:"}) + word(r, digits, 1, 2) + "." + word(r, digits+lower+".+~", 0, 8) + pick(r, []string{"", "-1", "-1ubuntu2.3", "-0+deb12u1", "~rc1-2"})
}

func keyCase(r *rand.Rand, k string) string {
	switch r.Intn(12) {
	case 0:
		return strings.ToLower(k)
	case 1:
		return strings.ToUpper(k)
	}
	return k
}

func dpkgExtras(r *rand.Rand, name string) []dpkgField {
	var fs []dpkgField
	add := func(k, v string, cont ...string) { fs = append(fs, dpkgField{key: k, sep: " ", value: v, cont: cont}) }
	if r.Intn(2) == 0 {
		add("Priority", pick(r, []string{"required", "optional", "important"}))
	}
	if r.Intn(2) == 0 {
		add("Section", pick(r, []string{"libs", "admin", "universe/net"}))
	}
	if r.Intn(2) == 0 {
		add("Installed-Size", word(r, digits, 1, 5))
	}
	if r.Intn(2) == 0 {
		add("Maintainer", "Ubuntu Developers <ubuntu-devel-discuss@lists.ubuntu.com>")
	}
	if r.Intn(2) == 0 {
		add("Architecture", pick(r, []string{"amd64", "all", "arm64"}))
	}
	if r.Intn(4) == 0 {
		add("Multi-Arch", "same")
	}
	if r.Intn(3) == 0 {
		add("Source", pick(r, []string{name + "-src", name + " (1.2-3)", "glibc (2.36-9+deb12u4)"}))
	}
	if r.Intn(3) == 0 {
		add("Depends", "libc6 (>= 2.34), libgcc-s1 (>= 3.0) | foo, bar:any")
	}
	if r.Intn(3) == 0 {
		add("Conffiles", "", " /etc/x.conf 0123456789abcdef0123456789abcdef", " /etc/y: z 0123 obsolete")
		fs[len(fs)-1].sep = "" // dpkg writes "Conffiles:" with nothing after the colon
	}
	if r.Intn(2) == 0 {
		add("Description", pick(r, []string{"GNU C Library: Shared libraries", "transitional package", "short: with colon"}),
			" Contains the standard libraries that are used by nearly all programs on", " the system.", " .", "  Package: looks-like-a-field", " Version: 9.9-fake", "\tStatus: install ok installed")
	}
	if r.Intn(4) == 0 {
		add("Homepage", "https://www.gnu.org/software/libc/libc.html")
	}
	if r.Intn(6) == 0 {
		add("X-Üñí", "obs-text é ü \xff") // bytes ≥ 0x80 are legal in values; the key is ASCII-only so spell it plainly
		fs[len(fs)-1].key = "X-Odd.Field_1"
	}
	return fs
}

func genDpkgRec(r *rand.Rand) dpkgRec {
	st := dpkgStatuses[r.Intn(len(dpkgStatuses))]
	d := dpkgRec{name: dpkgName(r), ver: dpkgVer(r), status: st.s, installed: st.inst}
	sig := []dpkgField{{key: keyCase(r, "Package"), value: d.name}, {key: keyCase(r, "Status"), value: d.status}, {key: keyCase(r, "Version"), value: d.ver}}
	for i := range sig {
		sig[i].sep = pick(r, []string{" ", " ", " ", "", "  ", "\t"})
	}
	ex := dpkgExtras(r, d.name)
	if r.Intn(3) == 0 { // any field order
		all := append(sig, ex...)
		r.Shuffle(len(all), func(i, j int) { all[i], all[j] = all[j], all[i] })
		d.fields = all
	} else { // dpkg's own order: Package, Status, extras…, Version somewhere after
		k := r.Intn(len(ex) + 1)
		d.fields = append([]dpkgField{sig[0], sig[1]}, ex[:k]...)
		d.fields = append(d.fields, sig[2])
		d.fields = append(d.fields, ex[k:]...)
	}
	return d
}

func (d dpkgRec) lines() []string {
	var ls []string
	for _, f := range d.fields {
		ls = append(ls, f.key+":"+f.sep+f.value)
		ls = append(ls, f.cont...)
	}
	return ls
}

func renderDpkg(recs []dpkgRec, lead int, gap func(i int) int, tail int, e eols) []byte {
	rtReset()
	ls := blanks(lead)
	for k := 0; k < lead; k++ {
		rtItem("b")
	}
	for i, d := range recs {
		ls = append(ls, d.lines()...)
		fs := make([]string, len(d.fields))
		for j, f := range d.fields {
			cs := make([]string, len(f.cont))
			for k, c := range f.cont {
				cs[k] = hq(c)
			}
			fs[j] = hq(f.key) + "=" + hq(f.sep) + "=" + hq(f.value) + "=" + strings.Join(cs, "~")
		}
		rtItem("r" + strings.Join(fs, "."))
		if i < len(recs)-1 {
			g := 1 + gap(i)
			ls = append(ls, blanks(g)...)
			for k := 0; k < g; k++ {
				rtItem("b")
			}
		}
	}
	ls = append(ls, blanks(tail)...)
	for k := 0; k < tail; k++ {
		rtItem("b")
	}
	return e.join(ls)
}

func genDpkg(r *rand.Rand) gcase {
	n := nrec(r)
	recs := make([]dpkgRec, n)
	var exp []nv
	for i := range recs {
		recs[i] = genDpkgRec(r)
		if recs[i].installed {
			exp = append(exp, nv{recs[i].name, recs[i].ver})
		}
	}
	e := randEols(r)
	lead, tail := 0, r.Intn(3)
	if r.Intn(6) == 0 {
		lead = 1 + r.Intn(2)
	}
	if !e.final {
		tail = 0
	}
	g := r.Intn(3)
	data := renderDpkg(recs, lead, func(int) int { return r.Intn(1 + g) }, tail, e)
	cls := "wf-" + e.String()
	if n > 0 && !recs[n-1].installed {
		cls += "-lastNI"
	}
	c := gcase{format: "dpkg", data: data, expect: exp, known: true, class: cls, rtok: rtTok()}
	if r.Intn(6) == 0 {
		c.path, c.class = "usr/lib/opkg/status", cls+"-opkg" // OpenWrt's opkg keeps the same database at another path
	}
	return c
}

// genDpkgD: a file of var/lib/dpkg/status.d/ (distroless images): stanzas usually carry no Status field and are reported all the same; a stanza
// that does carry one is judged by it.
func genDpkgD(r *rand.Rand) gcase {
	n := 1 + r.Intn(3)
	if r.Intn(4) == 0 {
		n = nrec(r)
	}
	recs := make([]dpkgRec, n)
	var exp []nv
	for i := range recs {
		recs[i] = genDpkgRec(r)
		if r.Intn(3) != 0 { // drop the Status field
			var fs []dpkgField
			for _, f := range recs[i].fields {
				if !strings.EqualFold(f.key, "Status") {
					fs = append(fs, f)
				}
			}
			recs[i].fields = fs
			exp = append(exp, nv{recs[i].name, recs[i].ver})
		} else if recs[i].installed {
			exp = append(exp, nv{recs[i].name, recs[i].ver})
		}
	}
	e := randEols(r)
	data := renderDpkg(recs, 0, func(int) int { return r.Intn(2) }, 0, e)
	name := pick(r, []string{"base-files", "libc6", "netbase", "tzdata", "x.md5sums.real"})
	return gcase{format: "dpkgd", data: data, expect: exp, known: true, class: "wf-statusd-" + e.String(), path: "var/lib/dpkg/status.d/" + name}
}

func badDpkgD(r *rand.Rand) gcase {
	c := badDpkg(r)
	c.format, c.path = "dpkgd", "var/lib/dpkg/status.d/base"
	return c
}

var dpkgPool = []string{"Package: a", "Package: b", "Status: install ok installed", "Status: deinstall ok config-files", "Status: bad", "Status: install  ok installed", "Version: 1.0", "Version:", "Source: x (1", "Source: x (1)", " continuation", "\tcont", "", "", "nocolon", ": novalue", "Pack age: z", "package: lower", "Package : sp", "Description: d", " .", "Version: 2\r", "\r", "K\x01: v", "K: v\x01", "K: v\x7f", "Ké: v", "K: é", " ", "Status: install ok installed ", "Package:x", "a:b:c"}

func badDpkg(r *rand.Rand) gcase {
	var data []byte
	cls := "soup"
	k := r.Intn(2)
	if r.Intn(12) == 0 {
		k = 2
	}
	switch k {
	case 0:
		data = soup(r, dpkgPool, 10)
	case 1:
		data = mutate(r, genDpkg(r).data)
		cls = "mutated"
	default:
		// very long lines are fine for textproto (no token limit)
		n := 65525 + r.Intn(14)
		data = []byte("Package: a\nStatus: install ok installed\nVersion: 1\nDescription: " + strings.Repeat("z", n) + pick(r, []string{"\n", "\r\n", ""}) + pick(r, []string{"", "\n\nPackage: c\nStatus: install ok installed\nVersion: 3\n"}))
		cls = "longline"
	}
	return gcase{format: "dpkg", data: data, class: "bad-" + cls}
}

func smallDpkg(emit func(gcase)) {
	type b struct{ name, ver string }
	base := []b{{"libc6", "2.36-9+deb12u4"}, {"adduser", "3.134"}, {"zlib1g", "1:1.2.13.dfsg-1"}}
	for _, idx := range orderedSubsets3() {
		for eol := 0; eol < 2; eol++ {
			for fin := 0; fin < 2; fin++ {
				for gap := 0; gap < 2; gap++ {
					for extra := 0; extra < 2; extra++ {
						for ni := 0; ni < 3; ni++ { // which record is not installed: none / first / last
							recs := make([]dpkgRec, len(idx))
							var exp []nv
							for i, j := range idx {
								st, inst := "install ok installed", true
								if (ni == 1 && i == 0) || (ni == 2 && i == len(idx)-1) {
									st, inst = "deinstall ok config-files", false
								}
								d := dpkgRec{name: base[j].name, ver: base[j].ver, status: st, installed: inst}
								d.fields = []dpkgField{{key: "Package", sep: " ", value: d.name}, {key: "Status", sep: " ", value: st}}
								if extra == 1 {
									d.fields = append(d.fields, dpkgField{key: "Architecture", sep: " ", value: "amd64"},
										dpkgField{key: "Description", sep: " ", value: "short", cont: []string{" long text", " .", " Version: 0-fake"}})
								}
								d.fields = append(d.fields, dpkgField{key: "Version", sep: " ", value: d.ver})
								recs[i] = d
								if inst {
									exp = append(exp, nv{d.name, d.ver})
								}
							}
							tail := 0
							if fin == 1 && gap == 1 {
								tail = 1
							}
							data := renderDpkg(recs, 0, func(int) int { return gap }, tail, eols{mode: eol, final: fin == 1})
							emit(gcase{format: "dpkg", data: data, expect: exp, known: true, class: "small", rtok: rtTok()})
						}
					}
				}
			}
		}
	}
}

// ---------------------------------------------------------------------------------------------- requirements.txt

type reqRec struct {
	name, op, ver string
	extras        string // "[a,b]" or ""
	marker        string // "; python_version >= '3.8'" or ""
	hashes        []string
	comment       string // trailing " # …" or ""
	sp            [3]string
	lead          string
	cont          bool // split with a backslash continuation before the hashes
}

func pepName(r *rand.Rand) string {
	switch r.Intn(8) {
	case 0:
		return word(r, lower+upper+digits, 1, 1) // one-character names are legal
	case 1:
		return word(r, lower, 1, 6) + "." + word(r, lower, 1, 8) // dotted
	}
	return word(r, lower+upper+digits, 1, 1) + word(r, lower+upper+digits+"._-", 0, 14) + word(r, lower+upper+digits, 1, 1)
}

func pepVer(r *rand.Rand) string {
	return edgeVer(r, []string{"1", "9", "0", "10", "1a", "2024", "1!2024.10.20.30.40.50.post1.dev3+local.version.identifier.1"}, pepVerUsual(r))
}

func pepVerUsual(r *rand.Rand) string {
	return pick(r, []string{"", "", "", "1!"}) + word(r, digits, 1, 3) + "." + word(r, digits, 1, 2) + pick(r, []string{"", ".0", ".post1", "a1", "rc2", ".dev3", "+local.1"})
}

func (q reqRec) logical() (first string, rest string) {
	s := q.lead + q.name + q.sp[0] + q.extras + q.sp[1] + q.op + q.sp[2] + q.ver + q.marker
	h := ""
	for _, x := range q.hashes {
		h += " --hash=" + x
	}
	return s, h + q.comment
}

func (q reqRec) lines() []string {
	a, b := q.logical()
	if q.cont && len(q.hashes) > 0 {
		// pip-compile style: one hash per continuation line
		ls := []string{a + " \\"}
		for i, x := range q.hashes {
			l := "    --hash=" + x
			if i < len(q.hashes)-1 {
				l += " \\"
			} else {
				l += q.comment
			}
			ls = append(ls, l)
		}
		return ls
	}
	return []string{a + b}
}

func genReqRec(r *rand.Rand) reqRec {
	q := reqRec{name: pepName(r), op: "==", ver: pepVer(r)}
	switch r.Intn(12) {
	case 0:
		q.op = ">="
	case 1:
		q.op = "~="
	case 2:
		q.op = "<="
	case 3:
		q.op = "==="
	case 4:
		q.op, q.ver = "", "" // bare name: reported with an empty version
	}
	if r.Intn(5) == 0 {
		q.extras = pick(r, []string{"[security]", "[a,b]", "[ socks , http2 ]", "[]"})
	}
	if r.Intn(5) == 0 {
		q.marker = pick(r, []string{"; python_version >= '3.8'", " ; sys_platform == \"win32\"", ";python_version<'3'", " ; extra == 'x' and os_name != 'nt'"})
	}
	if r.Intn(4) == 0 {
		for k := 1 + r.Intn(2); k > 0; k-- {
			q.hashes = append(q.hashes, "sha256:"+word(r, "0123456789abcdef", 64, 64))
		}
		q.cont = r.Intn(2) == 0
	}
	if r.Intn(6) == 0 {
		q.comment = pick(r, []string{" # via flask", "  # comment == 1.0", "\t#x"})
	}
	if r.Intn(6) == 0 && q.op != "" {
		q.sp = [3]string{pick(r, []string{"", " "}), pick(r, []string{"", " ", "  "}), pick(r, []string{"", " "})}
	}
	if r.Intn(10) == 0 {
		q.lead = pick(r, []string{" ", "  ", "\t"})
	}
	return q
}

func reqFiller(r *rand.Rand) []string {
	switch r.Intn(11) {
	case 9:
		// a whole-line comment whose last byte is a backslash is still only a comment (pip: "comment lines are never continued";
		// WFfiller .comment allows any text): the requirement on the next line must survive (seed C03m)
		return []string{pick(r, []string{"# install into C:\\tools\\python\\", "#\\", "    # --hash=sha256:0123 \\", "\t# old==1.0 \\", "# \\\\"})}
	case 10:
		return []string{"# first half of a wrapped comment \\", "# second half"}
	case 0:
		return []string{""}
	case 1:
		return []string{"# This file is autogenerated by pip-compile with Python 3.11"}
	case 2:
		return []string{"    # via", "    #   -r requirements.in"}
	case 3:
		return []string{"-r other-requirements.txt"}
	case 4:
		return []string{pick(r, []string{"--index-url https://pypi.org/simple", "-i https://x/simple", "--extra-index-url https://y", "-c constraints.txt", "-e .", "--no-binary :all:", "-f ./wheels"})}
	case 5:
		return []string{"  "}
	case 6:
		return []string{"#"}
	case 7:
		return []string{"pkg-${ENV_VAR}==1.0"} // lines with environment variables are ignored by design (as pip's own parser does not expand them here)
	default:
		return []string{"   # indented comment"}
	}
}

func renderReq(recs []reqRec, before func(i int) []string, after []string, e eols) []byte {
	var ls []string
	rtReset()
	item := func(q reqRec) string {
		if q.marker != "" || len(q.hashes) > 0 || q.sp[0] != "" {
			return "x" // markers, per-requirement options, white space before the extras: outside the Lean GRec
		}
		ex, hasEx := "", "0"
		if q.extras != "" {
			ex, hasEx = hq(q.extras[1:len(q.extras)-1]), "1"
		}
		cw, ct, hasC := "", "", "0"
		if q.comment != "" {
			i := strings.IndexByte(q.comment, '#')
			cw, ct, hasC = hq(q.comment[:i]), hq(q.comment[i+1:]), "1"
		}
		return "r" + hq(q.name) + "," + hq(q.op) + "," + hq(q.ver) + "," + hasEx + "," + ex + "," + hq(q.lead) + "," + hq(q.sp[1]) + "," + hq(q.sp[2]) + "," + hasC + "," + cw + "," + ct
	}
	for i, q := range recs {
		for _, f := range before(i) {
			ls = append(ls, f)
			rtItem("f" + hq(f))
		}
		ls = append(ls, q.lines()...)
		rtItem(item(q))
	}
	for _, f := range after {
		ls = append(ls, f)
		rtItem("f" + hq(f))
	}
	return e.join(ls)
}

func genReq(r *rand.Rand) gcase {
	n := nrec(r)
	recs := make([]reqRec, n)
	var exp []nv
	core := r.Intn(2) == 0 // half of the files stay inside the grammar of C03_requirements_partial (no markers / hashes / continuations / env lines)
	for i := range recs {
		recs[i] = genReqRec(r)
		if core {
			recs[i].marker, recs[i].hashes, recs[i].cont, recs[i].sp[0] = "", nil, false, ""
		}
		exp = append(exp, nv{recs[i].name, recs[i].ver})
	}
	e := randEols(r)
	fill := r.Intn(3)
	filler := func() []string {
		f := reqFiller(r)
		for core && len(f) == 1 && strings.Contains(f[0], "${") {
			f = reqFiller(r)
		}
		return f
	}
	before := func(i int) []string {
		var fs []string
		for k := r.Intn(1 + fill); k > 0; k-- {
			fs = append(fs, filler()...)
		}
		return fs
	}
	var after []string
	for k := r.Intn(2); k > 0; k-- {
		after = append(after, filler()...)
	}
	data := renderReq(recs, before, after, e)
	return gcase{format: "requirements", data: data, expect: exp, known: true, class: "wf-" + e.String(), rtok: rtTok()}
}

var reqPool = []string{"requests==2.31.0", "zope.interface==5.0", "q==1.0", "flask>=2.0", "a<2", "b!=1", "c>=1,<2", "d==1.*", "e>1.0", "f @ https://x/y.whl", "g[extra]==1.0", "h==1.0 ; python_version<'3'", "i==1.0 --hash=sha256:ab", "j==1.0 \\", "    --hash=sha256:cd", "# comment", "k==1.0 # c", "k==1.0#notcomment", "-r x.txt", "-e .", "", "  ", "asdf 1.0", "l ==1.0", "m== 1.0", "${X}==1", "n==${V}", "o[", "p]==1", "q[a][b]==2", "[x]r==1", "s==", "==1.0", "_t==1", "u_==1", "v-==1", ".w==1", "x.==1", "y===1.0", "z~=1.4.2", "aa<=3", "-Cfoo", "bb-Cc==1", "cc==1 -C x", "dd==1\\", "ee==1 \\\\", "ff==1\r", "g\tg==1", "hh==1;", ";ii==1", "jj==1==2", "kk>=1==2", "ll==1>=2", "\xc2\xa0mm==1", "nn==1\xc2\xa0", "\xe2\x80\x83oo==1", "pp==1 #", "#", " #", "qq==1\x0c# ff", "rr==1\x0b# vt",
	// bracket soup: ']' before '[', unbalanced, nested, adjacent
	"requests][security]==2.31.0", "x][y]==1", "a][b", "][", "]==1", "a]==1", "[[a]]==1", "a[b[c]d]e==1", "a[[b]==1", "a[b]]==1", "a[]==1", "[]", "[][]==2", "a[b][c][d]==3",
	"a[b]c[d]e==4", "zz[==1", "[zz==1", "a[b;c]==1", "a[b ]==1", "a [ b ] == 1", "a[b]==1[c]", "a==1[c]", "a[x#y]==1"}

func badReq(r *rand.Rand) gcase {
	var data []byte
	cls := "soup"
	k := r.Intn(2)
	if r.Intn(12) == 0 {
		k = 2
	}
	switch k {
	case 0:
		data = soup(r, reqPool, 10)
	case 1:
		data = mutate(r, genReq(r).data)
		cls = "mutated"
	default:
		n := 65525 + r.Intn(14)
		data = []byte("a==1\n" + "b==" + strings.Repeat("9", n-3) + pick(r, []string{"\n", "\r\n", ""}) + pick(r, []string{"", "\nc==3\n"}))
		cls = "longline"
	}
	return gcase{format: "requirements", data: data, class: "bad-" + cls}
}

func smallReq(emit func(gcase)) {
	base := []reqRec{{name: "requests", op: "==", ver: "2.31.0"}, {name: "zope.interface", op: "==", ver: "5.0"}, {name: "q", op: ">=", ver: "1.0"}}
	for _, idx := range orderedSubsets3() {
		for eol := 0; eol < 2; eol++ {
			for fin := 0; fin < 2; fin++ {
				for fill := 0; fill < 3; fill++ {
					for deco := 0; deco < 4; deco++ {
						recs := make([]reqRec, len(idx))
						var exp []nv
						for i, j := range idx {
							q := base[j]
							switch deco {
							case 1:
								q.extras, q.marker = "[a,b]", " ; python_version >= '3.8'"
							case 2:
								q.hashes, q.cont = []string{"sha256:ab", "sha256:cd"}, true
							case 3:
								q.comment, q.sp = " # via x", [3]string{"", " ", " "}
							}
							recs[i] = q
							exp = append(exp, nv{q.name, q.ver})
						}
						before := func(i int) []string {
							var fs []string
							if i == 0 && fill > 0 {
								fs = append(fs, "# header", "-r base.txt")
							}
							if i > 0 && fill == 2 {
								fs = append(fs, "", "    # via y")
							}
							return fs
						}
						var after []string
						if fill == 2 {
							after = []string{"# end"}
						}
						data := renderReq(recs, before, after, eols{mode: eol, final: fin == 1})
						emit(gcase{format: "requirements", data: data, expect: exp, known: true, class: "small", rtok: rtTok()})
					}
				}
			}
		}
	}
}
