// walkgen: correspondence stream for model A (walk engine): C01, C02 (engine part), C08, C09, C10.
// Modes (-mode): mixed (default) | plain (no faults/limits/cancel: C01) | perm (C08: each tree under several
// listing orders, reply carries grp=<n>) | faults (C09: enumerated single faults and pairs) | limits (C10).
package main

import (
	"flag"
	"fmt"
	"math/rand"
	"regexp"
	"sort"
	"strings"

	"github.com/gobwas/glob"
	scalibr "github.com/google/osv-scalibr"

	"verif/harness/hx"
	wc "verif/harness/walkcase"
)

var names = []string{"a", "b", "a.b", "-x", "sp ace", "é", "node_modules", "ab", "f", "g", "..data", "...", ".h", " a", "b ", "\tg"}
var rawPool = []string{"*.b", "/a", "a/b", "**/f", "a/**", "!a.b", "[ab]", `sp\ ace`, "#a", "  ", `\!x`, "a/", "*", "?", "ab*", ".h", "..data", "é",
	"/sp ace", "**/ab/", "!*/", "g ", "node_modules/", "/**/g", "a*/", "-x", "!/a", "b/*", "*/", "!f", "a.?", "/*", "!.h",
	" a", "b ", "\tg", " f", "a ", `b\ `, " !a", "  # x", "\t"}
var rxPool = []string{`^a$`, `b`, `node_modules`, `^(a|b)/`, `\.b$`, `^-x`, `^\.$`, `é`, `^a/ab$`}
var glPool = []string{`a`, `*/b`, `**/node_modules`, `a*`, `{a,b}`, `sp ace`, `**/ab`, `.`, `a/*`}

type gen struct {
	r    *rand.Rand
	mode string
}

func (g *gen) tree(maxDepth, maxNodes int) *wc.Node {
	cnt := 1
	var build func(p string, depth int) *wc.Node
	build = func(p string, depth int) *wc.Node {
		n := &wc.Node{Path: p, Kind: 'd'}
		perm := g.r.Perm(len(names))
		k := g.r.Intn(5)
		for i := 0; i < k && cnt < maxNodes; i++ {
			nm := names[perm[i]]
			cp := nm
			if p != "." {
				cp = p + "/" + nm
			}
			cnt++
			if depth < maxDepth && g.r.Intn(5) < 2 {
				n.Kids = append(n.Kids, build(cp, depth+1))
			} else {
				n.Kids = append(n.Kids, &wc.Node{Path: cp, Kind: "rrrrrrrrllssL"[g.r.Intn(13)], Size: 4 + g.r.Intn(3)})
			}
		}
		if g.r.Intn(3) == 0 && cnt < maxNodes {
			n.HasGi = true
			raw := g.r.Intn(3) == 0
			if raw { // full gitignore syntax: not interpreted by the model, answered from the real matcher's table
				for j := 1 + g.r.Intn(3); j > 0; j-- {
					n.Gi = append(n.Gi, wc.Pat{Name: rawPool[g.r.Intn(len(rawPool))], Raw: true})
				}
			}
			for j := g.r.Intn(3); j > 0 && !raw; j-- {
				nm := names[g.r.Intn(len(names))]
				for strings.TrimSpace(nm) != nm { // blank-affixed patterns belong to the full syntax (table mode): git trims / keeps them by its own rules
					nm = names[g.r.Intn(len(names))]
				}
				if p == "." && g.r.Intn(40) == 0 {
					nm = "." // the one pattern a root .gitignore must not carry (GiOK): exercised, excluded from the oracle
				}
				n.Gi = append(n.Gi, wc.Pat{Name: nm, DirOnly: g.r.Intn(4) == 0, Neg: g.r.Intn(6) == 0})
			}
			gp := ".gitignore"
			if p != "." {
				gp = p + "/.gitignore"
			}
			cnt++
			gi := &wc.Node{Path: gp, Kind: 'r', Size: len(wc.GiContent(n.Gi))}
			pos := g.r.Intn(len(n.Kids) + 1)
			n.Kids = append(n.Kids[:pos], append([]*wc.Node{gi}, n.Kids[pos:]...)...)
		}
		return n
	}
	return build(".", 0)
}

func collect(n *wc.Node, dirs, files *[]string) {
	if n.Kind == 'd' {
		*dirs = append(*dirs, n.Path)
		for _, k := range n.Kids {
			collect(k, dirs, files)
		}
	} else {
		*files = append(*files, n.Path)
	}
}

func (g *gen) pick(pool []string, max int) []string {
	var out []string
	k := g.r.Intn(max + 1)
	for i := 0; i < k && len(pool) > 0; i++ {
		out = append(out, pool[g.r.Intn(len(pool))])
	}
	return out
}

// fillSets evaluates the real regexp / glob engines on every directory path of the case.
func fillSets(c *wc.Case) (*regexp.Regexp, glob.Glob) {
	var rx *regexp.Regexp
	var gl glob.Glob
	var dirs []string
	seen := map[string]bool{}
	for _, r := range c.Roots {
		var ds, fs []string
		collect(r.Tree, &ds, &fs)
		for _, d := range ds {
			if !seen[d] {
				seen[d] = true
				dirs = append(dirs, d)
			}
		}
	}
	c.RxSet, c.GlSet = nil, nil
	if c.HasRx {
		rx = regexp.MustCompile(c.RxSrc)
		for _, d := range dirs {
			if rx.MatchString(d) {
				c.RxSet = append(c.RxSet, d)
			}
		}
	}
	if c.HasGl {
		gl = glob.MustCompile(c.GlSrc)
		for _, d := range dirs {
			if gl.Match(d) {
				c.GlSet = append(c.GlSet, d)
			}
		}
	}
	return rx, gl
}

func (g *gen) newCase() *wc.Case {
	r := g.r
	c := &wc.Case{Ext: map[wc.EP]wc.Out{}, NExt: 1 + r.Intn(3)}
	nroots := 1
	plain := g.mode == "plain" || g.mode == "perm"
	c.UG = r.Intn(2) == 0
	c.RS = r.Intn(2) == 0
	c.ISD = r.Intn(5) == 0
	if r.Intn(3) == 0 {
		c.MX = 4 + r.Intn(3)
	}
	usePaths := r.Intn(3) == 0
	if !usePaths && r.Intn(4) == 0 {
		nroots = 2 + r.Intn(2)
	}
	var allDirs, allFiles []string
	for i := 0; i < nroots; i++ {
		t := g.tree(3, 14)
		c.Roots = append(c.Roots, wc.Root{Tree: t, F: wc.Faults{Open: map[string]bool{}, Stat: map[string]bool{}, FileStat: map[string]bool{}, Read: map[string]map[int]bool{}}})
		collect(t, &allDirs, &allFiles)
	}
	all := append(append([]string{}, allDirs...), allFiles...)
	if usePaths {
		var pool []string
		linkToDir := map[string]bool{}
		for _, rt := range c.Roots {
			var mark func(n *wc.Node)
			mark = func(n *wc.Node) {
				if n.Kind == 'L' {
					linkToDir[n.Path] = true
				}
				for _, k := range n.Kids {
					mark(k)
				}
			}
			mark(rt.Tree)
		}
		for _, p := range all { // a requested symlink to a DIRECTORY would be walked through the link: outside the model
			if !linkToDir[p] {
				pool = append(pool, p)
			}
		}
		c.Paths = g.pick(pool, 3)
		if r.Intn(10) == 0 {
			c.Paths = append(c.Paths, "nonexistent")
		}
	}
	c.Skip = g.pick(allDirs, 2)
	c.ABS = r.Intn(3) == 0
	c.SAP = c.ABS && nroots == 1 && r.Intn(2) == 0
	if r.Intn(4) == 0 {
		c.HasRx, c.RxSrc = true, rxPool[r.Intn(len(rxPool))]
	}
	if r.Intn(4) == 0 {
		c.HasGl, c.GlSrc = true, glPool[r.Intn(len(glPool))]
	}
	seenF := map[string]bool{}
	for _, f := range allFiles {
		if seenF[f] {
			continue
		}
		seenF[f] = true
		for e := 0; e < c.NExt; e++ {
			if r.Intn(5) < 2 {
				continue
			}
			c.Req = append(c.Req, wc.EP{E: e, P: f})
			o := wc.Out{Err: r.Intn(5) == 0}
			for k := r.Intn(3); k > 0; k-- {
				o.Pkgs = append(o.Pkgs, r.Intn(9))
			}
			if !plain && r.Intn(120) == 0 {
				o.Panic = true
			}
			o.Find = r.Intn(6) == 0
			if o.Err || len(o.Pkgs) > 0 || o.Panic || o.Find {
				k := wc.EP{E: e, P: f}
				c.Ext[k] = o
				c.ExtOrder = append(c.ExtOrder, k)
			}
		}
	}
	if plain {
		return c
	}
	// faults, limits, cancellation
	if g.mode == "mixed" || g.mode == "faults" {
		c.EOFS = r.Intn(3) == 0
		for i := range c.Roots {
			var ds, fs []string
			collect(c.Roots[i].Tree, &ds, &fs)
			f := c.Roots[i].F
			for k := r.Intn(3); k > 0; k-- {
				switch r.Intn(6) {
				case 0:
					f.Open[ds[r.Intn(len(ds))]] = true
				case 1:
					if len(fs) > 0 {
						f.Open[fs[r.Intn(len(fs))]] = true
					}
				case 2:
					d := ds[r.Intn(len(ds))]
					gp := ".gitignore"
					if d != "." {
						gp = d + "/.gitignore"
					}
					f.Open[gp] = true
				case 3:
					a := append(append([]string{}, ds...), fs...)
					f.Stat[a[r.Intn(len(a))]] = true
				case 4:
					if len(fs) > 0 {
						f.FileStat[fs[r.Intn(len(fs))]] = true
					}
				case 5:
					d := ds[r.Intn(len(ds))]
					if f.Read[d] == nil {
						f.Read[d] = map[int]bool{}
					}
					f.Read[d][r.Intn(5)] = true
				}
			}
		}
	}
	if g.mode == "mixed" || g.mode == "faults" {
		// kind of the injected errors; a NOT-EXIST answer for a .gitignore is no fault at all (the file is simply absent)
		c.EK = r.Intn(3)
		if c.EK == 2 {
			for i := range c.Roots {
				for k := range c.Roots[i].F.Open {
					if k == ".gitignore" || strings.HasSuffix(k, "/.gitignore") {
						delete(c.Roots[i].F.Open, k)
					}
				}
			}
		}
	}
	if g.mode == "mixed" || g.mode == "limits" {
		total := len(all)
		switch r.Intn(6) {
		case 0:
			c.MI = 1
		case 1:
			c.MI = max(1, total-1)
		case 2:
			c.MI = total
		case 3:
			c.MI = total + 1
		case 4:
			c.MI = 1 + r.Intn(total+2)
		}
		if r.Intn(4) == 0 {
			c.CA = 1 + r.Intn(5)
		}
		c.CB = r.Intn(25) == 0
	}
	return c
}

func permuteTree(r *rand.Rand, n *wc.Node, how int) *wc.Node {
	m := *n
	m.Kids = nil
	for _, k := range n.Kids {
		m.Kids = append(m.Kids, permuteTree(r, k, how))
	}
	switch how {
	case 0:
		r.Shuffle(len(m.Kids), func(i, j int) { m.Kids[i], m.Kids[j] = m.Kids[j], m.Kids[i] })
	case 1:
		sort.Slice(m.Kids, func(i, j int) bool { return m.Kids[i].Path < m.Kids[j].Path })
	case 2:
		sort.Slice(m.Kids, func(i, j int) bool { return m.Kids[i].Path > m.Kids[j].Path })
	}
	return &m
}

func runCase(c *wc.Case) string {
	rx, gl := fillSets(c)
	return wc.Run(c, func(cfg *scalibr.ScanConfig) {
		if rx != nil {
			cfg.SkipDirRegex = rx
		}
		if gl != nil {
			cfg.SkipDirGlob = gl
		}
	}, 0)
}

// replaySets: a replayed case carries only the match SETS; rebuild equivalent engines from them.
func replayCase(c *wc.Case) string {
	return wc.Run(c, func(cfg *scalibr.ScanConfig) {
		alt := func(s []string) string {
			q := []string{"$^nomatch"}
			for _, d := range s {
				q = append(q, regexp.QuoteMeta(d))
			}
			return "^(" + strings.Join(q, "|") + ")$"
		}
		if c.HasRx {
			cfg.SkipDirRegex = regexp.MustCompile(alt(c.RxSet))
		}
		if c.HasGl {
			// a glob that matches exactly the listed paths: emulate with a regex-backed matcher
			cfg.SkipDirGlob = reGlob{regexp.MustCompile(alt(c.GlSet))}
		}
	}, 0)
}

type reGlob struct{ re *regexp.Regexp }

func (g reGlob) Match(s string) bool { return g.re.MatchString(s) }

func main() {
	mode := flag.String("mode", "mixed", "mixed|plain|perm|faults|limits")
	o := hx.Parse()
	out := hx.NewOut()
	defer out.Flush()
	if o.Replay != "" {
		for _, l := range hx.ReplayLines(o.Replay) {
			c := wc.ParseLine(l)
			out.Emit(l, replayCase(c))
		}
		return
	}
	g := &gen{r: hx.Rng(o), mode: *mode}
	for i := 0; i < o.N; i++ {
		c := g.newCase()
		if *mode == "perm" {
			// the same content under 5 listing orders; roots keep their order
			for how := 0; how < 5; how++ {
				v := *c
				v.Roots = nil
				for _, r := range c.Roots {
					h := how
					if how >= 3 {
						h = 0
					}
					v.Roots = append(v.Roots, wc.Root{Tree: permuteTree(g.r, r.Tree, h), F: r.F})
				}
				reply := runCase(&v)
				out.Emit(v.Line(), fmt.Sprintf("%s grp=%d", reply, i))
			}
			continue
		}
		reply := runCase(c)
		out.Emit(c.Line(), reply)
	}
}
