// walkgen: correspondence stream for model A (walk engine): C01, C02 (engine part), C08, C09, C10.
// Modes (-mode):
//
//	mixed (default)  faults + limits + cancellation together
//	plain            no faults / limits / cancellation (C01)
//	perm             C08: each tree under several listing orders, reply carries grp=<n>
//	subdir           C01 "requesting a reached sub-directory = the whole-tree scan restricted to it": PAIRS of cases sharing
//	                 grp=<i>: the whole-tree scan (role=whole) and the same case with Paths = [d] for one directory node d
//	                 (role=sub sd=<hexPath(d)>); every third pair carries 0-2 sampled faults. -n counts pairs.
//	faults           C09, SAMPLED: 0-2 random faults per root (open-dir, open-file, open-.gitignore, stat, stat-on-open-file,
//	                 k-th directory read)
//	faultsx          C09, ENUMERATED: small trees (depth <= 2, <= 7 nodes, one root); per base case the fault-free scan, EVERY
//	                 single operation site and EVERY unordered pair of distinct sites. Base cases are emitted whole until at
//	                 least -n cases were printed. Reply carries nsites=<s> plan=<none|single|pair>.
//	faultsq          quick tier of faultsx: fault-free + every single site + 12 pairs sampled without replacement
//	limits           C10: inode limits around the tree size, cancellation from inside the k-th Extract (k up to the number of
//	                 Extract calls the scan owes, + 2) or before the scan; about 2/3 of the cancelling cases lie in the exact
//	                 theorem's class (MI = 0, EOFS = false, CB = false, no panicking extractor)
package main

import (
	"flag"
	"fmt"
	"math/rand"
	"os"
	"regexp"
	"sort"
	"strings"

	"github.com/gobwas/glob"
	scalibr "github.com/google/osv-scalibr"

	"verif/harness/hx"
	wc "verif/harness/walkcase"
)

var names = []string{"a", "b", "a.b", "-x", "sp ace", "é", "node_modules", "ab", "f", "g", "..data", "...", ".h", " a", "b ", "\tg"}
var rawPool = []string{"*.b", "/a", "a/b", "**/f", "a/**", "!a.b", "[ab]", `sp\ ace`, "#a", "  ", `\!x`, "a/", "*", "?", "ab*", ".h", "..data", "é",
	"/sp ace", "**/ab/", "!*/", "g ", "node_modules/", "/**/g", "a*/", "-x", "!/a", "b/*", "*/", "!f", "a.?", "/*", "!.h",
	" a", "b ", "\tg", " f", "a ", `b\ `, " !a", "  # x", "\t"}
var rxPool = []string{`^a$`, `b`, `node_modules`, `^(a|b)/`, `\.b$`, `^-x`, `^\.$`, `é`, `^a/ab$`}
var glPool = []string{`a`, `*/b`, `**/node_modules`, `a*`, `{a,b}`, `sp ace`, `**/ab`, `.`, `a/*`}

type gen struct {
	r    *rand.Rand
	r2   *rand.Rand // choices of the VARIANTS (variant): a separate stream, so that the base cases of every mode stay what they were
	mode string
}

// variant turns a small share of the cases into one of the input shapes the plain generator never produces:
//   - directory handles without fs.ReadDirFile (the walk falls back to fsys.ReadDir): only "read 0" faults exist then
//   - no filesystem extractor at all (filesystem.Run returns at once: nothing is walked, limits and faults never apply)
//   - no scan root; requested paths together with several roots; (absolute roots) a skipped directory under no root: the scan is refused
//   - (mode plain) the tree materialised in a temporary directory and scanned through scalibrfs.RealFSScanRoots
func (g *gen) variant(c *wc.Case) {
	r := g.r2
	noFaults := true
	for _, rt := range c.Roots {
		if len(rt.F.Open)+len(rt.F.Stat)+len(rt.F.FileStat)+len(rt.F.Read) > 0 {
			noFaults = false
		}
	}
	switch k := r.Intn(48); {
	case k < 4: // 1/12
		c.NRD = 1 + r.Intn(2) // 2: fsys.ReadDir answers an empty directory with a nil slice (fix b9020f82: dirIterator.next tested files != nil)
		for _, rt := range c.Roots {
			for d, ks := range rt.F.Read {
				for i := range ks {
					if i != 0 {
						delete(rt.F.Read[d], i)
					}
				}
				if len(rt.F.Read[d]) == 0 {
					delete(rt.F.Read, d)
				}
			}
		}
	case k < 6:
		c.NExt, c.Req, c.Ext, c.ExtOrder = 0, nil, map[wc.EP]wc.Out{}, nil
	case k == 6:
		c.Roots = nil
	case k == 7 || k == 8:
		if len(c.Paths) > 0 && len(c.Roots) == 1 {
			c.Roots = append(c.Roots, wc.Root{Tree: g.treeFrom(r), F: wc.Faults{Open: map[string]bool{}, Stat: map[string]bool{}, FileStat: map[string]bool{}, Read: map[string]map[int]bool{}}})
			c.SAP = false
		}
	case k == 9 || k == 10:
		if c.ABS {
			c.OUT = 1
			if len(c.Roots) == 1 && r.Intn(2) == 0 { // a requested path under no root (requested paths need a single root)
				c.OUT = 2
			}
			if r.Intn(3) == 0 { // a skipped directory in a SIBLING whose name extends the root's name (fix 855a2c28: string prefix instead of path prefix)
				c.OUT = 3
			}
		}
	case k == 15 || k == 16:
		c.NS = 1 + r.Intn(2) // 2: the entry point filesystem.Run itself, Stats nil (fix 8db9e7fe: Run dereferenced the nil collector)
	case k < 15: // 4/48
		if g.mode == "plain" && noFaults && len(c.Roots) == 1 {
			c.REAL, c.ABS = true, false
			var fix func(n *wc.Node)
			fix = func(n *wc.Node) {
				if n.Kind == 'L' { // a link to a directory would report the target directory's size: keep to links to files
					n.Kind = 'l'
				}
				for _, k := range n.Kids {
					fix(k)
				}
			}
			fix(c.Roots[0].Tree)
		}
	}
}

// treeFrom builds a small extra tree with the variant stream's own randomness.
func (g *gen) treeFrom(r *rand.Rand) *wc.Node {
	save := g.r
	g.r = r
	t := g.tree(2, 6)
	g.r = save
	return t
}

func (g *gen) tree(maxDepth, maxNodes int) *wc.Node {
	cnt := 1
	var build func(p string, depth int) *wc.Node
	build = func(p string, depth int) *wc.Node {
		n := &wc.Node{Path: p, Kind: 'd'}
		perm := g.r.Perm(len(names))
		k := g.r.Intn(5)
		for i := 0; i < k && cnt < maxNodes; i++ {
			nm := names[perm[i]]
			cp := nm
			if p != "." {
				cp = p + "/" + nm
			}
			cnt++
			if depth < maxDepth && g.r.Intn(5) < 2 {
				n.Kids = append(n.Kids, build(cp, depth+1))
			} else {
				n.Kids = append(n.Kids, &wc.Node{Path: cp, Kind: "rrrrrrrrllssL"[g.r.Intn(13)], Size: 4 + g.r.Intn(3)})
			}
		}
		if g.r.Intn(3) == 0 && cnt < maxNodes {
			n.HasGi = true
			raw := g.r.Intn(3) == 0
			if raw { // full gitignore syntax: not interpreted by the model, answered from the real matcher's table
				for j := 1 + g.r.Intn(3); j > 0; j-- {
					n.Gi = append(n.Gi, wc.Pat{Name: rawPool[g.r.Intn(len(rawPool))], Raw: true})
				}
			}
			for j := g.r.Intn(3); j > 0 && !raw; j-- {
				nm := names[g.r.Intn(len(names))]
				for strings.TrimSpace(nm) != nm { // blank-affixed patterns belong to the full syntax (table mode): git trims / keeps them by its own rules
					nm = names[g.r.Intn(len(names))]
				}
				if p == "." && g.r.Intn(40) == 0 {
					nm = "." // the pattern "." in a root .gitignore: nothing excludes it from the comparison or the oracles any more, it is simply exercised
				}
				n.Gi = append(n.Gi, wc.Pat{Name: nm, DirOnly: g.r.Intn(4) == 0, Neg: g.r.Intn(6) == 0})
			}
			gp := ".gitignore"
			if p != "." {
				gp = p + "/.gitignore"
			}
			cnt++
			gi := &wc.Node{Path: gp, Kind: 'r', Size: len(wc.GiContent(n.Gi))}
			pos := g.r.Intn(len(n.Kids) + 1)
			n.Kids = append(n.Kids[:pos], append([]*wc.Node{gi}, n.Kids[pos:]...)...)
		}
		return n
	}
	return build(".", 0)
}

func collect(n *wc.Node, dirs, files *[]string) {
	if n.Kind == 'd' {
		*dirs = append(*dirs, n.Path)
		for _, k := range n.Kids {
			collect(k, dirs, files)
		}
	} else {
		*files = append(*files, n.Path)
	}
}

func (g *gen) pick(pool []string, max int) []string {
	var out []string
	k := g.r.Intn(max + 1)
	for i := 0; i < k && len(pool) > 0; i++ {
		out = append(out, pool[g.r.Intn(len(pool))])
	}
	return out
}

// fillSets evaluates the real regexp / glob engines on every directory path of the case.
func fillSets(c *wc.Case) (*regexp.Regexp, glob.Glob) {
	var rx *regexp.Regexp
	var gl glob.Glob
	var dirs []string
	seen := map[string]bool{}
	for _, r := range c.Roots {
		var ds, fs []string
		collect(r.Tree, &ds, &fs)
		for _, d := range ds {
			if !seen[d] {
				seen[d] = true
				dirs = append(dirs, d)
			}
		}
	}
	c.RxSet, c.GlSet = nil, nil
	if c.HasRx {
		rx = regexp.MustCompile(c.RxSrc)
		for _, d := range dirs {
			if rx.MatchString(d) {
				c.RxSet = append(c.RxSet, d)
			}
		}
	}
	if c.HasGl {
		gl = glob.MustCompile(c.GlSrc)
		for _, d := range dirs {
			if gl.Match(d) {
				c.GlSet = append(c.GlSet, d)
			}
		}
	}
	return rx, gl
}

func (g *gen) newCase() *wc.Case {
	r := g.r
	c := &wc.Case{Ext: map[wc.EP]wc.Out{}, NExt: 1 + r.Intn(3)}
	nroots := 1
	small := g.mode == "faultsx" || g.mode == "faultsq" // enumerated fault plans: small trees, one root
	plain := g.mode == "plain" || g.mode == "perm" || g.mode == "subdir" || small
	c.UG = r.Intn(2) == 0
	c.RS = r.Intn(2) == 0
	c.ISD = r.Intn(5) == 0
	if r.Intn(3) == 0 {
		c.MX = 4 + r.Intn(3)
	}
	usePaths := r.Intn(3) == 0
	if g.mode == "subdir" { // the whole-tree scan: no requested paths, the sub-directory cut-off would change the meaning of Paths = [d]
		usePaths = false
		c.ISD = false
	}
	if !usePaths && r.Intn(4) == 0 {
		nroots = 2 + r.Intn(2)
	}
	if g.mode == "subdir" || small {
		nroots = 1
	}
	var allDirs, allFiles []string
	for i := 0; i < nroots; i++ {
		t := (*wc.Node)(nil)
		if small {
			t = g.tree(2, 7)
		} else {
			t = g.tree(3, 14)
		}
		for try := 0; g.mode == "subdir" && try < 3 && !hasSubdir(t); try++ {
			t = g.tree(3, 14) // a tree without any sub-directory only yields the trivial pair d = ".": redraw a few times
		}
		c.Roots = append(c.Roots, wc.Root{Tree: t, F: wc.Faults{Open: map[string]bool{}, Stat: map[string]bool{}, FileStat: map[string]bool{}, Read: map[string]map[int]bool{}}})
		collect(t, &allDirs, &allFiles)
	}
	all := append(append([]string{}, allDirs...), allFiles...)
	if usePaths {
		var pool []string
		linkToDir := map[string]bool{}
		for _, rt := range c.Roots {
			var mark func(n *wc.Node)
			mark = func(n *wc.Node) {
				if n.Kind == 'L' {
					linkToDir[n.Path] = true
				}
				for _, k := range n.Kids {
					mark(k)
				}
			}
			mark(rt.Tree)
		}
		// only symlinks to DIRECTORIES (kind 'L') are kept out of the requested-path pool: requesting one would walk through the
		// link, which is outside the model. Requested FILE symlinks (kind 'l') are generated like any other file.
		for _, p := range all {
			if !linkToDir[p] {
				pool = append(pool, p)
			}
		}
		c.Paths = g.pick(pool, 3)
		if r.Intn(10) == 0 {
			c.Paths = append(c.Paths, "nonexistent")
		}
	}
	c.Skip = g.pick(allDirs, 2)
	c.ABS = r.Intn(3) == 0
	c.SAP = c.ABS && nroots == 1 && r.Intn(2) == 0
	if r.Intn(4) == 0 {
		c.HasRx, c.RxSrc = true, rxPool[r.Intn(len(rxPool))]
	}
	if r.Intn(4) == 0 {
		c.HasGl, c.GlSrc = true, glPool[r.Intn(len(glPool))]
	}
	seenF := map[string]bool{}
	for _, f := range allFiles {
		if seenF[f] {
			continue
		}
		seenF[f] = true
		for e := 0; e < c.NExt; e++ {
			if r.Intn(5) < 2 {
				continue
			}
			c.Req = append(c.Req, wc.EP{E: e, P: f})
			o := wc.Out{Err: r.Intn(5) == 0}
			for k := r.Intn(3); k > 0; k-- {
				o.Pkgs = append(o.Pkgs, r.Intn(9))
			}
			if !plain && r.Intn(120) == 0 {
				o.Panic = true
			}
			o.Find = r.Intn(6) == 0
			if o.Err || len(o.Pkgs) > 0 || o.Panic || o.Find {
				k := wc.EP{E: e, P: f}
				c.Ext[k] = o
				c.ExtOrder = append(c.ExtOrder, k)
			}
		}
	}
	if small { // the fault plans are added by the enumeration (sites / withPlan); the error kind and fatality belong to the base case
		c.EOFS = r.Intn(2) == 0
		c.EK = r.Intn(3)
	}
	if plain {
		return c
	}
	// faults, limits, cancellation
	if g.mode == "mixed" || g.mode == "faults" {
		c.EOFS = r.Intn(3) == 0
	}
	if g.mode == "mixed" || g.mode == "faults" {
		g.randFaults(c)
		g.errKind(c)
	}
	if g.mode == "mixed" || g.mode == "limits" {
		total := len(all)
		switch r.Intn(6) {
		case 0:
			c.MI = 1
		case 1:
			c.MI = max(1, total-1)
		case 2:
			c.MI = total
		case 3:
			c.MI = total + 1
		case 4:
			c.MI = 1 + r.Intn(total+2)
		}
		if g.mode == "limits" {
			// cancellation from inside the k-th Extract, k up to (the generator's estimate of) the number of Extract calls a
			// full scan makes, + 2: every depth of the walk is a cancellation point, and some k lie beyond the last call
			cancelling := r.Intn(3) == 0
			if cancelling && r.Intn(4) != 0 { // a skipped scan root makes every cancellation point unreachable: mostly avoid it here
				var sk []string
				for _, d := range c.Skip {
					if d != "." {
						sk = append(sk, d)
					}
				}
				c.Skip = sk
			}
			owed := len(c.Req)
			if !usePaths {
				owed = 0
				for _, q := range c.Req {
					if !belowAny(q.P, c.Skip) {
						owed++
					}
				}
			}
			if cancelling {
				c.CA = 1 + r.Intn(owed+2)
			}
			c.CB = r.Intn(25) == 0
			if c.CA > 0 && r.Intn(3) < 2 {
				// the configuration class of the exact cancellation theorem (CancelCfg): MI = 0, EOFS = false (never set in
				// this mode), CB = false, CA >= 1, no panicking extractor
				c.MI, c.CB = 0, false
				var order []wc.EP
				for _, k := range c.ExtOrder {
					o := c.Ext[k]
					o.Panic = false
					if o.Err || len(o.Pkgs) > 0 || o.Find {
						c.Ext[k] = o
						order = append(order, k)
					} else {
						delete(c.Ext, k)
					}
				}
				c.ExtOrder = order
			}
			return c
		}
		if r.Intn(4) == 0 {
			c.CA = 1 + r.Intn(5)
		}
		c.CB = r.Intn(25) == 0
	}
	return c
}

func hasSubdir(t *wc.Node) bool {
	for _, k := range t.Kids {
		if k.Kind == 'd' {
			return true
		}
	}
	return false
}

// belowAny: p lies below (or is) one of the listed directories.
func belowAny(p string, dirs []string) bool {
	for _, d := range dirs {
		if d == "." || p == d || strings.HasPrefix(p, d+"/") {
			return true
		}
	}
	return false
}

// randFaults adds 0-2 random faults to every root (modes mixed, faults; every third pair of mode subdir).
func (g *gen) randFaults(c *wc.Case) {
	r := g.r
	for i := range c.Roots {
		var ds, fs []string
		collect(c.Roots[i].Tree, &ds, &fs)
		f := c.Roots[i].F
		for k := r.Intn(3); k > 0; k-- {
			switch r.Intn(6) {
			case 0:
				f.Open[ds[r.Intn(len(ds))]] = true
			case 1:
				if len(fs) > 0 {
					f.Open[fs[r.Intn(len(fs))]] = true
				}
			case 2:
				d := ds[r.Intn(len(ds))]
				gp := ".gitignore"
				if d != "." {
					gp = d + "/.gitignore"
				}
				f.Open[gp] = true
			case 3:
				a := append(append([]string{}, ds...), fs...)
				f.Stat[a[r.Intn(len(a))]] = true
			case 4:
				if len(fs) > 0 {
					f.FileStat[fs[r.Intn(len(fs))]] = true
				}
			case 5:
				d := ds[r.Intn(len(ds))]
				if f.Read[d] == nil {
					f.Read[d] = map[int]bool{}
				}
				f.Read[d][r.Intn(5)] = true
			}
		}
	}
}

// errKind draws the kind of the injected errors; a NOT-EXIST answer for a .gitignore is no fault at all (the file is simply absent).
func (g *gen) errKind(c *wc.Case) {
	c.EK = g.r.Intn(3)
	if c.EK == 2 {
		for i := range c.Roots {
			for k := range c.Roots[i].F.Open {
				if isGitignore(k) {
					delete(c.Roots[i].F.Open, k)
				}
			}
		}
	}
}

func isGitignore(p string) bool { return p == ".gitignore" || strings.HasSuffix(p, "/.gitignore") }

// site is one operation of the filesystem a fault can be planted on: 'o' Open[path], 's' Stat[path], 'f' Stat on the opened
// file, 'r' the k-th ReadDir(1) of directory path (k = number of entries is the read that answers EOF).
type site struct {
	kind byte
	path string
	k    int
}

// sites lists the operation sites of a tree, without duplicates (the .gitignore of a directory that has one is both "the
// directory's .gitignore" and a file node). With ek == 2 (NOT-EXIST) no Open site on a .gitignore path is listed: that answer
// is no fault at all.
func sites(t *wc.Node, ek int) []site {
	var out []site
	seen := map[site]bool{}
	add := func(s site) {
		if s.kind == 'o' && ek == 2 && isGitignore(s.path) {
			return
		}
		if !seen[s] {
			seen[s] = true
			out = append(out, s)
		}
	}
	var walk func(n *wc.Node)
	walk = func(n *wc.Node) {
		add(site{'s', n.Path, 0})
		if n.Kind == 'd' {
			add(site{'o', n.Path, 0})
			gp := ".gitignore"
			if n.Path != "." {
				gp = n.Path + "/.gitignore"
			}
			add(site{'o', gp, 0}) // also when the directory has none: the engine tries to open it when UseGitignore is on
			for k := 0; k <= len(n.Kids); k++ {
				add(site{'r', n.Path, k})
			}
			for _, kid := range n.Kids {
				walk(kid)
			}
			return
		}
		add(site{'o', n.Path, 0})
		add(site{'f', n.Path, 0})
	}
	walk(t)
	return out
}

func cloneFaults(f wc.Faults) wc.Faults {
	g := wc.Faults{Open: map[string]bool{}, Stat: map[string]bool{}, FileStat: map[string]bool{}, Read: map[string]map[int]bool{}}
	for k, v := range f.Open {
		g.Open[k] = v
	}
	for k, v := range f.Stat {
		g.Stat[k] = v
	}
	for k, v := range f.FileStat {
		g.FileStat[k] = v
	}
	for d, m := range f.Read {
		g.Read[d] = map[int]bool{}
		for k, v := range m {
			g.Read[d][k] = v
		}
	}
	return g
}

// withPlan returns a copy of the (one-root) case whose fault maps are deep copies carrying, in addition, the given sites.
func withPlan(c *wc.Case, plan ...site) *wc.Case {
	v := *c
	v.Roots = nil
	for i, rt := range c.Roots {
		f := cloneFaults(rt.F)
		if i == 0 {
			for _, s := range plan {
				switch s.kind {
				case 'o':
					f.Open[s.path] = true
				case 's':
					f.Stat[s.path] = true
				case 'f':
					f.FileStat[s.path] = true
				case 'r':
					if f.Read[s.path] == nil {
						f.Read[s.path] = map[int]bool{}
					}
					f.Read[s.path][s.k] = true
				}
			}
		}
		v.Roots = append(v.Roots, wc.Root{Tree: rt.Tree, F: f})
	}
	return &v
}

// enumFaults emits one base case of modes faultsx / faultsq: the fault-free scan, every single-site plan, then every unordered
// pair of distinct sites (all = true) or 12 of them drawn without replacement. Returns the number of cases emitted.
func (g *gen) enumFaults(c *wc.Case, all bool, out *hx.Out) int {
	ss := sites(c.Roots[0].Tree, c.EK)
	n := 0
	emit := func(kind string, plan ...site) {
		v := withPlan(c, plan...)
		reply := runCase(v) // before Line(): runCase fills the regexp / glob match sets the case line carries
		out.Emit(v.Line(), fmt.Sprintf("%s nsites=%d plan=%s", reply, len(ss), kind))
		n++
	}
	emit("none")
	for _, s := range ss {
		emit("single", s)
	}
	var pairs [][2]int
	for i := range ss {
		for j := i + 1; j < len(ss); j++ {
			pairs = append(pairs, [2]int{i, j})
		}
	}
	if !all && len(pairs) > 12 {
		var pick [][2]int
		for _, k := range g.r.Perm(len(pairs))[:12] {
			pick = append(pick, pairs[k])
		}
		pairs = pick
	}
	for _, p := range pairs {
		emit("pair", ss[p[0]], ss[p[1]])
	}
	return n
}

// pickDir draws the sub-directory of mode subdir: uniform among the directory nodes (kind 'd', never a link), "." itself with
// probability at most 1/8; "." when the tree has no other directory.
func (g *gen) pickDir(t *wc.Node) string {
	var ds, fs []string
	collect(t, &ds, &fs) // ds[0] == "."
	if len(ds) == 1 {
		return "."
	}
	if g.r.Intn(max(len(ds), 8)) == 0 {
		return "."
	}
	return ds[1+g.r.Intn(len(ds)-1)]
}

func permuteTree(r *rand.Rand, n *wc.Node, how int) *wc.Node {
	m := *n
	m.Kids = nil
	for _, k := range n.Kids {
		m.Kids = append(m.Kids, permuteTree(r, k, how))
	}
	switch how {
	case 0:
		r.Shuffle(len(m.Kids), func(i, j int) { m.Kids[i], m.Kids[j] = m.Kids[j], m.Kids[i] })
	case 1:
		sort.Slice(m.Kids, func(i, j int) bool { return m.Kids[i].Path < m.Kids[j].Path })
	case 2:
		sort.Slice(m.Kids, func(i, j int) bool { return m.Kids[i].Path > m.Kids[j].Path })
	}
	return &m
}

func runCase(c *wc.Case) string {
	rx, gl := fillSets(c)
	return wc.Run(c, func(cfg *scalibr.ScanConfig) {
		if rx != nil {
			cfg.SkipDirRegex = rx
		}
		if gl != nil {
			cfg.SkipDirGlob = gl
		}
	}, 0)
}

// replaySets: a replayed case carries only the match SETS; rebuild equivalent engines from them.
func replayCase(c *wc.Case) string {
	return wc.Run(c, func(cfg *scalibr.ScanConfig) {
		alt := func(s []string) string {
			q := []string{"$^nomatch"}
			for _, d := range s {
				q = append(q, regexp.QuoteMeta(d))
			}
			return "^(" + strings.Join(q, "|") + ")$"
		}
		if c.HasRx {
			cfg.SkipDirRegex = regexp.MustCompile(alt(c.RxSet))
		}
		if c.HasGl {
			// a glob that matches exactly the listed paths: emulate with a regex-backed matcher
			cfg.SkipDirGlob = reGlob{regexp.MustCompile(alt(c.GlSet))}
		}
	}, 0)
}

type reGlob struct{ re *regexp.Regexp }

func (g reGlob) Match(s string) bool { return g.re.MatchString(s) }

func main() {
	mode := flag.String("mode", "mixed", "mixed|plain|perm|subdir|faults|faultsx|faultsq|limits")
	o := hx.Parse()
	out := hx.NewOut()
	defer out.Flush()
	if o.Replay != "" {
		for _, l := range hx.ReplayLines(o.Replay) {
			c := wc.ParseLine(l)
			reply := replayCase(c)
			if c.REAL { // the listing order is the operating system's: print the case as it was scanned
				l = c.Line()
			}
			out.Emit(l, reply)
		}
		return
	}
	g := &gen{r: hx.Rng(o), r2: rand.New(rand.NewSource(o.Seed*7919 + 13)), mode: *mode}
	switch *mode {
	case "mixed", "plain", "perm", "subdir", "faults", "faultsx", "faultsq", "limits":
	default:
		fmt.Fprintln(os.Stderr, "walkgen: unknown mode", *mode)
		os.Exit(2)
	}
	if *mode == "faultsx" || *mode == "faultsq" {
		// whole base cases until at least -n cases were emitted (never stop in the middle of an enumeration)
		for emitted := 0; emitted < o.N; {
			emitted += g.enumFaults(g.newCase(), *mode == "faultsx", out)
		}
		return
	}
	for i := 0; i < o.N; i++ {
		c := g.newCase()
		if *mode == "subdir" {
			if i%3 == 2 { // every third pair: 0-2 faults as in mode faults, never fatal
				g.randFaults(c)
				g.errKind(c)
			}
			d := g.pickDir(c.Roots[0].Tree)
			reply := runCase(c) // before Line(): runCase fills the regexp / glob match sets the case line carries
			out.Emit(c.Line(), fmt.Sprintf("%s grp=%d role=whole", reply, i))
			v := *c
			v.Paths = []string{d}
			reply = runCase(&v)
			out.Emit(v.Line(), fmt.Sprintf("%s grp=%d role=sub sd=%s", reply, i, wc.HexPath(d)))
			continue
		}
		if *mode == "perm" {
			// every third group additionally carries 0-2 faults that do not depend on listing positions (no k-th read faults), half of those
			// with ErrorOnFSErrors; every fourth group an inode limit: error class, visited count and — when the scan succeeds — results
			// must not depend on the listing order either
			if i%3 == 1 {
				g.randFaults(c)
				g.errKind(c)
				for j := range c.Roots {
					for d := range c.Roots[j].F.Read {
						delete(c.Roots[j].F.Read, d)
					}
				}
				c.EOFS = g.r2.Intn(2) == 0
			}
			if i%4 == 3 {
				var ds, fs []string
				for _, rt := range c.Roots {
					collect(rt.Tree, &ds, &fs)
				}
				c.MI = 1 + g.r2.Intn(len(ds)+len(fs)+2)
				c.EOFS = false // with fatal errors AND a limit, which of the two stops the scan first depends on the listing order
			}
			if i%6 == 5 { // the glue variants (refused configurations, no extractor, no stats collector, no ReadDirFile) are order independent too
				g.variant(c)
			}
			if i%5 == 4 { // directory handles without ReadDirFile (the listing is preloaded by fsys.ReadDir): order independence holds there too
				c.NRD = 1
			}
			// the same content under 5 listing orders; roots keep their order
			for how := 0; how < 5; how++ {
				v := *c
				v.Roots = nil
				for _, r := range c.Roots {
					h := how
					if how >= 3 {
						h = 0
					}
					v.Roots = append(v.Roots, wc.Root{Tree: permuteTree(g.r, r.Tree, h), F: r.F})
				}
				reply := runCase(&v)
				out.Emit(v.Line(), fmt.Sprintf("%s grp=%d", reply, i))
			}
			continue
		}
		g.variant(c)
		reply := runCase(c)
		out.Emit(c.Line(), reply)
	}
}
