// c07gen: correspondence stream for C07 (semantic.Parse + Version.CompareStr vs Scalibr.Semantic.compareStr).
// Case grammar (see lean/Drivers/C07.lean):
//
//	cmp <eco> <hexA> <hexB>          → r=<a?b> rr=<b?a> ra=<a?a> rb=<b?b> acc=<xy> mp=<MustParse a><MustParse b>
//	tri <eco> <hexA> <hexB> <hexC>   → ab=<a?b> bc=<b?c> ac=<a?c> ba=<b?a> cb=<c?b> ca=<c?a> acc=<xyz>
//
// eco is the ecosystem name with ' ' written as '_'; results are lt|eq|gt|err|panic|unsup.
// Strings are valid UTF-8 (DESIGN.md §4): ASCII plus a fixed set of non-ASCII probes.
package main

import (
	"errors"
	"flag"
	"fmt"
	"math/rand"
	"os"
	"strings"

	"github.com/google/osv-scalibr/semantic"

	"verif/harness/hx"
)

// ---------------------------------------------------------------- running the real code

func cmp1(eco, a, b string) string {
	return hx.Guard(func() string {
		v, err := semantic.Parse(a, eco)
		if err != nil {
			if errors.Is(err, semantic.ErrUnsupportedEcosystem) {
				return "unsup"
			}
			return "err"
		}
		r, err := v.CompareStr(b)
		if err != nil {
			return "err"
		}
		switch {
		case r < 0:
			return "lt"
		case r > 0:
			return "gt"
		}
		return "eq"
	})
}

func acc1(eco, a string) string {
	return hx.Guard(func() string {
		_, err := semantic.Parse(a, eco)
		return hx.B(err == nil)
	})
}

func accFlag(eco, a string) string {
	s := acc1(eco, a)
	if s == "panic" {
		return "0"
	}
	return s
}

// mp1: semantic.MustParse — "k" it returns a version that compares exactly as the one Parse returns, "u" it panics
// with ErrUnsupportedEcosystem, "e" it panics with another error (the documented behaviour for a version Parse
// rejects), "p" it panics with something that is not an error, "x" it returns although Parse fails / disagrees
func mp1(eco, a string) (out string) {
	defer func() {
		if r := recover(); r != nil {
			err, ok := r.(error)
			switch {
			case ok && errors.Is(err, semantic.ErrUnsupportedEcosystem):
				out = "u"
			case ok && errors.Is(err, semantic.ErrInvalidVersion):
				out = "e"
			case ok:
				out = "e"
			default:
				out = "p"
			}
		}
	}()
	v := semantic.MustParse(a, eco)
	w, err := semantic.Parse(a, eco)
	if err != nil || v == nil {
		return "x"
	}
	r1, e1 := v.CompareStr(a)
	r2, e2 := w.CompareStr(a)
	if r1 != r2 || (e1 == nil) != (e2 == nil) {
		return "x"
	}
	return "k"
}

func ecoTok(eco string) string { return strings.ReplaceAll(eco, " ", "_") }
func ecoOf(tok string) string  { return strings.ReplaceAll(tok, "_", " ") }

func runCmp(eco, a, b string) (string, string) {
	c := fmt.Sprintf("cmp %s %s %s", ecoTok(eco), hx.Hex(a), hx.Hex(b))
	r := fmt.Sprintf("r=%s rr=%s ra=%s rb=%s acc=%s%s mp=%s%s", cmp1(eco, a, b), cmp1(eco, b, a), cmp1(eco, a, a), cmp1(eco, b, b), accFlag(eco, a), accFlag(eco, b), mp1(eco, a), mp1(eco, b))
	return c, r
}

func runTri(eco, a, b, c string) (string, string) {
	l := fmt.Sprintf("tri %s %s %s %s", ecoTok(eco), hx.Hex(a), hx.Hex(b), hx.Hex(c))
	r := fmt.Sprintf("ab=%s bc=%s ac=%s ba=%s cb=%s ca=%s acc=%s%s%s", cmp1(eco, a, b), cmp1(eco, b, c), cmp1(eco, a, c),
		cmp1(eco, b, a), cmp1(eco, c, b), cmp1(eco, c, a), accFlag(eco, a), accFlag(eco, b), accFlag(eco, c))
	return l, r
}

func runLine(l string) (string, string) {
	t := strings.Split(l, " ")
	switch {
	case len(t) == 4 && t[0] == "cmp":
		return runCmp(ecoOf(t[1]), hx.UnHex(t[2]), hx.UnHex(t[3]))
	case len(t) == 5 && t[0] == "tri":
		return runTri(ecoOf(t[1]), hx.UnHex(t[2]), hx.UnHex(t[3]), hx.UnHex(t[4]))
	}
	return l, "bad-case"
}

// ---------------------------------------------------------------- generators

type family struct {
	name    string
	ecos    []string
	alpha12 []string // the 12-symbol alphabet of the exhaustive enumeration
	toks    []string // tokens for concatenation
	refs    []string // fixed partners of the exhaustive enumeration
	grammar func(r *rand.Rand) string
	triPool []string             // confusable strings; thorough tier enumerates all ordered triples
	canon   func(g []int) string // canonical version of the ecosystem's published grammar from a genome (nil: none)
	// the special-token matrix: every token class the comparator distinguishes at one position
	// (classes), appended to a base and followed by a short continuation (sufs)
	bases   []string
	classes []string
	sufs    []string
	// strict-prefix pairs: a version (extBases, or a canonical version of the genome) against the same
	// version followed by one more tail (exts): [0…0, letter…], [0…0], [letter], [n], …
	extBases []string
	exts     []string
}

// spellings that are NOT ecosystem names (the names are case-sensitive and exact)
var nearMissEcos = []string{"Foo", "NPM", "Npm", "debian", "alpine", "RedHat", "Redhat", "Red  Hat", "pypi", "Pypi", "PYPI", "maven", "nuget", "Nuget",
	"rubygems", "Rubygems", "cran", "Cran", "Crates.io", "crates", "go", "GO", "hex", "pub", "conancenter", "Conan", "packagist", "ubuntu", "Alpine ", " Alpine",
	"Debian:11", "Alpine:v3.18", "Ubuntu:22.04", "Rocky Linux", "AlmaLinux", "GitHub Actions", "Bitnami", "Hackage", "SwiftURL", "OSS-Fuzz", "Linux", "Android"}

// example pairs from the ecosystems' documentation (inputs only; the verdicts are the specification's)
var docExamples = [][2]string{
	{"1.0.0-alpha", "1.0.0-alpha.1"}, {"1.0.0-alpha.beta", "1.0.0-beta"}, {"1.0.0-rc.1", "1.0.0"}, {"1.0.0-beta.2", "1.0.0-beta.11"}, {"1.0.0-RC", "1.0.0-rc"}, {"1.0.0+a", "1.0.0+b"},
	{"1.0.0.1", "1.0.0"}, {"1.0.0-beta", "1.0.0"}, {"1.0.0.0", "1.0.0"}, {"1.0.0-x", "1.0.0"}, {"1.0.0-alpha.2", "1.0.0-alpha.10"}, {"1.0.0-alpha", "1.0.0-alpha.0"},
	{"1.2-3", "1.2.3"}, {"1.10", "1.9"}, {"1.2", "1.2.0"}, {"1.0a", "1.0"},
	{"1.0~rc1", "1.0"}, {"1:0.9", "2.0"}, {"1.0-1", "1.0-2"}, {"1.0+b1", "1.0"}, {"1.0", "1.0-0"},
	{"1.0.a", "1.0"}, {"1.0.b1", "1.0.b2"}, {"1.0", "1"}, {"1.0.rc1", "1.0.rc.1"}, {"1.0.pre", "1.0.rc"},
	{"1.0^git1", "1.0"}, {"1.0^git1", "1.0.1"}, {"1.0a", "1.0.a"},
	{"1.0.0-dev", "1.0.0-alpha"}, {"1.0.0-beta", "1.0.0-RC"}, {"1.0.0-RC", "1.0.0"}, {"1.0.0", "1.0.0-p1"}, {"v1.0.0", "1.0.0"},
	{"1.0.dev1", "1.0a1"}, {"1.0a1", "1.0"}, {"1.0", "1.0.post1"}, {"1!0.5", "2.0"}, {"1.0", "1.0.0"}, {"1.0rc1", "1.0c1"},
	{"1.0_alpha", "1.0_rc"}, {"1.0_rc1", "1.0"}, {"1.0", "1.0_p1"}, {"1.0_cvs", "1.0"}, {"1.0-r1", "1.0-r2"},
	{"1.0-alpha-1", "1.0-beta-1"}, {"1.0-rc", "1.0"}, {"1.0-SNAPSHOT", "1.0"}, {"1.0", "1.0-sp"}, {"1.0-ga", "1.0"}, {"1.0.0", "1"}, {"1.0-a1", "1.0-alpha-1"},
}

var bigNum = "1234567890123456789012345"
var nums = []string{"0", "1", "2", "3", "9", "10", "11", "01", "00", "007", "010", "1", "2", "20", "100", bigNum, "99999999999999999999", "18446744073709551616", "9223372036854775808"}
var probes = []string{"é", "É", "\u0130", "\u212a", "Σ", "Ж", "\uff21", "\uff11", "\u0662", "\u00a0", "\u0085", "\u2003", "€", "😀", "ß"}

func pick(r *rand.Rand, xs []string) string { return xs[r.Intn(len(xs))] }
func opt(r *rand.Rand, p int, s string) string {
	if r.Intn(100) < p {
		return s
	}
	return ""
}
func num(r *rand.Rand) string { return pick(r, nums) }
func dotted(r *rand.Rand, min, max int, seps []string) string {
	n := min + r.Intn(max-min+1)
	s := ""
	for i := 0; i < n; i++ {
		if i > 0 {
			s += pick(r, seps)
		}
		s += num(r)
	}
	return s
}

var semverIdents = []string{"alpha", "beta", "rc", "0", "1", "01", "x-y", "RC", "Alpha", "a", "b", bigNum, "-", "1a", "a1", "", "é"}

func gSemver(r *rand.Rand) string {
	if r.Intn(3) == 0 {
		return gSemverCanon(r)
	}
	s := opt(r, 20, "v") + dotted(r, 1, 4, []string{"."})
	if r.Intn(2) == 0 {
		s += pick(r, []string{"-", "-", "-", "", "~", "_"})
		for i, n := 0, 1+r.Intn(3); i < n; i++ {
			if i > 0 {
				s += "."
			}
			s += pick(r, semverIdents)
		}
	}
	if r.Intn(4) == 0 {
		s += "+" + pick(r, []string{"meta", "build.5", "1", "", "x+y"})
	}
	return s
}

// canonical semver.org versions (numbers without leading zeros), incl. hyphenated identifiers
var canonNums = []string{"0", "1", "2", "3", "9", "10", "11", "20", "100", bigNum}
var canonIdents = []string{"alpha", "beta", "rc", "0", "1", "2", "10", "x-y", "RC", "a", "b", "-", "1a", "a1", "-5", "-0", "-a", "x", bigNum, "0a", "--"}

func gSemverCanon(r *rand.Rand) string {
	s := pick(r, canonNums) + "." + pick(r, canonNums) + "." + pick(r, canonNums)
	if r.Intn(3) > 0 {
		s += "-"
		for i, n := 0, 1+r.Intn(3); i < n; i++ {
			if i > 0 {
				s += "."
			}
			s += pick(r, canonIdents)
		}
	}
	if r.Intn(5) == 0 {
		s += "+" + pick(r, []string{"meta", "build.5", "1", "a-b", "001"})
	}
	return s
}

func gCran(r *rand.Rand) string {
	s := dotted(r, 1, 4, []string{".", ".", "-"})
	switch r.Intn(12) {
	case 0:
		s += pick(r, []string{".", "-", "a", ".x", "+1", ".+1", ".-1", " "})
	case 1:
		s = pick(r, []string{"", ".", "-", "a", "+"}) + s
	}
	return s
}

var debPieces = []string{"a", "b", "z", "A", "deb", "ubuntu", "dfsg", "+", "~", ".", "+b", "~rc", "~~", "-", "_", ":", "é", "^"}

func gDebian(r *rand.Rand) string {
	s := ""
	if r.Intn(3) == 0 {
		s += pick(r, []string{"0", "1", "2", "01", "x", "-1", "+2", "", " 1", bigNum}) + ":"
	}
	for i, n := 0, 1+r.Intn(4); i < n; i++ {
		s += num(r) + opt(r, 60, pick(r, debPieces))
	}
	if r.Intn(2) == 0 {
		s += "-" + num(r) + opt(r, 50, pick(r, []string{"ubuntu1", "+b1", "~bpo1", ".1", "u4"}))
	}
	return opt(r, 5, pick(r, []string{" ", "\t", "\u00a0", "\u0085", "\u2003"})) + s + opt(r, 5, pick(r, []string{" ", "\n", "\u00a0"}))
}

var rubyPre = []string{"a", "b", "rc", "pre", "alpha", "beta", "rc1", "pre2", "A", "-", "a1b", "x"}

func gRuby(r *rand.Rand) string {
	s := dotted(r, 1, 4, []string{"."})
	if r.Intn(2) == 0 {
		s += pick(r, []string{".", "", "-", ".."}) + pick(r, rubyPre) + opt(r, 40, pick(r, []string{".", ""})+num(r))
	}
	return s
}

func gRedHat(r *rand.Rand) string {
	s := opt(r, 10, pick(r, []string{"pkg-", "a-b-", "-"})) + opt(r, 30, pick(r, []string{"0", "1", "2", "01", "", "a", "~", "^"})+":")
	for i, n := 0, 1+r.Intn(4); i < n; i++ {
		s += pick(r, []string{num(r), num(r), "a", "b", "rc", "el", "fc", "git", "A"}) + opt(r, 70, pick(r, []string{".", ".", "~", "^", "_", "+", "..", "é", ""}))
	}
	if r.Intn(2) == 0 {
		s += "-" + num(r) + opt(r, 60, pick(r, []string{".el8", ".fc39", "~rc1", "^git1", ".1", "_2"}))
	}
	return s
}

var pkQual = []string{"dev", "alpha", "a", "beta", "b", "RC", "rc", "#", "p", "pl", "patch", "stable", "x", "Dev", "#x", "rc1"}

func gPackagist(r *rand.Rand) string {
	s := opt(r, 20, pick(r, []string{"v", "V", "vV", "Vv"})) + dotted(r, 1, 4, []string{".", ".", "-", "_", "+"})
	if r.Intn(2) == 0 {
		s += pick(r, []string{"-", ".", "", "_", "+"}) + pick(r, pkQual) + opt(r, 50, pick(r, []string{"", ".", "-"})+num(r))
		if r.Intn(5) == 0 {
			s += pick(r, []string{".", "-"}) + pick(r, pkQual)
		}
	}
	return s
}

var pySep = []string{"", ".", "-", "_"}

func gPyPI(r *rand.Rand) string {
	s := opt(r, 10, pick(r, []string{" ", "\t", "\u000b", "\u00a0"})) + opt(r, 15, pick(r, []string{"v", "V"})) + opt(r, 20, num(r)+"!")
	s += dotted(r, 1, 4, []string{"."})
	if r.Intn(2) == 0 {
		s += pick(r, pySep) + pick(r, []string{"a", "b", "c", "rc", "alpha", "beta", "pre", "preview", "A", "RC", "Preview", "prev\u0130ew", "x"}) + pick(r, pySep) + opt(r, 70, num(r))
	}
	switch r.Intn(5) {
	case 0:
		s += "-" + num(r)
	case 1:
		s += pick(r, pySep) + pick(r, []string{"post", "rev", "r", "POST", "Rev"}) + pick(r, pySep) + opt(r, 70, num(r))
	}
	if r.Intn(3) == 0 {
		s += pick(r, pySep) + pick(r, []string{"dev", "DEV", "Dev"}) + pick(r, pySep) + opt(r, 70, num(r))
	}
	if r.Intn(4) == 0 {
		s += "+" + pick(r, []string{"local", "abc.5", "1.a", "A_b", "1", "01", "a-1", "ubuntu_1", "", "a..b"})
	}
	return s + opt(r, 8, pick(r, []string{" ", "\n", "x", "\u000c"}))
}

var alpSuf = []string{"alpha", "beta", "pre", "rc", "cvs", "svn", "git", "hg", "p", "x", "pr", "ALPHA"}

func gAlpine(r *rand.Rand) string {
	s := dotted(r, 1, 4, []string{"."}) + opt(r, 4, pick(r, []string{".", ".."}))
	s += opt(r, 25, pick(r, []string{"a", "b", "z", "A", "ab"}))
	for i, n := 0, r.Intn(4); i < n; i++ {
		s += "_" + pick(r, alpSuf) + opt(r, 60, num(r))
	}
	s += opt(r, 10, "~"+pick(r, []string{"abc", "1f", "g", "", "ABC", "0123456789abcdef"}))
	s += opt(r, 35, "-r"+opt(r, 85, num(r))+opt(r, 6, pick(r, []string{"x", "_p1", "-r1"})))
	return s
}

// valid Alpine versions with two or more suffixes (and usually a build component): N(.N)*[a-z]?(_suffixN?){2,}(-rN)?
var alpSufValid = []string{"alpha", "beta", "pre", "rc", "cvs", "svn", "git", "hg", "p"}
var alpNumsPlain = []string{"0", "1", "2", "3", "9", "10", "11", "20", "100"}

func gAlpineMulti(r *rand.Rand, base string) string {
	s := base + opt(r, 15, pick(r, []string{"a", "b", "z"}))
	for i, n := 0, 2+r.Intn(2); i < n; i++ {
		s += "_" + pick(r, alpSufValid) + opt(r, 75, pick(r, alpNumsPlain))
	}
	return s + opt(r, 60, "-r"+pick(r, alpNumsPlain))
}

// two valid versions that agree on digits, letter, hash and revision and differ in their suffix sequences only
// (the domain of the documented suffix rule: the oracle compares the implementation with it)
func gAlpineSufPair(r *rand.Rand) (string, string) {
	base := gAlpineBase(r) + opt(r, 20, pick(r, []string{"a", "b", "z"}))
	tail := opt(r, 15, "~"+pick(r, []string{"abc", "1f", "0123456789abcdef"})) + opt(r, 50, "-r"+pick(r, alpNumsPlain))
	one := func() string { return "_" + pick(r, alpSufValid) + opt(r, 60, pick(r, alpNumsPlain)) }
	var xs []string
	for i, n := 0, r.Intn(4); i < n; i++ {
		xs = append(xs, one())
	}
	ys := append([]string{}, xs...)
	switch k := r.Intn(6); {
	case k == 0 && len(ys) > 0: // drop the last suffix
		ys = ys[:len(ys)-1]
	case k == 1: // one more suffix
		ys = append(ys, one())
	case k == 2 && len(ys) > 0: // another suffix at one position
		ys[r.Intn(len(ys))] = one()
	case k == 3 && len(ys) > 0: // the same name without / with number 0
		i := r.Intn(len(ys))
		name := strings.TrimRight(ys[i], "0123456789")
		ys[i] = name + pick(r, []string{"", "0", "1"})
	case k == 4:
		ys = nil
		for i, n := 0, r.Intn(4); i < n; i++ {
			ys = append(ys, one())
		}
	}
	a, b := base+strings.Join(xs, "")+tail, base+strings.Join(ys, "")+tail
	if r.Intn(2) == 0 {
		return b, a
	}
	return a, b
}

func gAlpineBase(r *rand.Rand) string {
	return pick(r, []string{"1.9", "1.10", "1.9.5", "1.9.10", "2", "1", "1.10.1", "0.9"})
}

var mvnQual = []string{"alpha", "beta", "milestone", "rc", "cr", "snapshot", "SNAPSHOT", "ga", "final", "release", "sp", "a", "b", "m", "foo", "xyz", "Final", "RC", "jre", "android", "", "f\u0130nal", "\u212a"}

func gMaven(r *rand.Rand) string {
	s := dotted(r, 1, 4, []string{".", ".", ".", "-"})
	if r.Intn(3) > 0 {
		s += pick(r, []string{"-", "-", ".", ""}) + pick(r, mvnQual) + opt(r, 60, pick(r, []string{"", "-", "."})+num(r))
		if r.Intn(6) == 0 {
			s += pick(r, []string{"-", "."}) + pick(r, mvnQual)
		}
	}
	return s
}

// canonical Maven versions N(.N)*(-qualifier(-?N)?)? — outside the known finding's class
func gMavenCanon(r *rand.Rand) string {
	s := dotted(r, 1, 3, []string{"."})
	if r.Intn(3) > 0 {
		s += "-" + pick(r, []string{"alpha", "beta", "milestone", "rc", "cr", "SNAPSHOT", "ga", "final", "release", "sp", "a", "b", "m", "foo", "xyz", "RC"}) + opt(r, 60, pick(r, []string{"", "-"})+num(r))
	}
	return s
}

// ---- canonical versions per published grammar, built from a genome so that a one-gene change gives
// a confusable canonical neighbour (the oracle compares the implementation with the published rule)

func gene(g []int, i int, pool []string) string { return pool[g[i%len(g)]%len(pool)] }

var cNums = []string{"0", "1", "2", "3", "9", "10", "11", "20", "100", bigNum}

func canonSemver(g []int) string {
	s := gene(g, 0, cNums) + "." + gene(g, 1, cNums) + "." + gene(g, 2, cNums)
	s += gene(g, 3, []string{"", "", "-alpha", "-alpha.1", "-alpha.beta", "-beta", "-rc.1", "-rc.10", "-1", "-0", "-x-y", "-RC.1", "--5", "-a.-1", "-1a"})
	return s + gene(g, 4, []string{"", "", "", "+meta", "+b.7"})
}

func canonNuGet(g []int) string {
	s := gene(g, 0, cNums) + "." + gene(g, 1, cNums) + "." + gene(g, 2, cNums) + gene(g, 5, []string{"", "", ".0", ".1", ".4", "." + bigNum})
	s += gene(g, 3, []string{"", "", "-rc", "-RC", "-rc.1", "-Rc.1", "-alpha", "-ALPHA", "-beta.2", "-1", "-a-b", "-0a", "-rc.10", "--5"})
	return s + gene(g, 4, []string{"", "", "", "+b7", "+B.7"})
}

func canonCran(g []int) string {
	s := gene(g, 0, cNums)
	for i, n := 0, 1+g[1]%3; i < n; i++ {
		s += gene(g, 2+2*i, []string{".", ".", "-"}) + gene(g, 3+2*i, cNums)
	}
	return s
}

func canonDebian(g []int) string {
	s := gene(g, 0, []string{"", "", "", "1:", "2:", "10:"})
	s += gene(g, 1, cNums)
	for i, n := 0, g[2]%3; i < n; i++ {
		s += gene(g, 3+2*i, []string{".", ".", "+", "~", "~rc", "+b", "a", ".a", "~~", "+dfsg.", "z", "A"}) + gene(g, 4+2*i, cNums)
	}
	s += gene(g, 8, []string{"", "", "", "~", "a", "+dfsg", "~~", "+", "."})
	return s + gene(g, 9, []string{"", "", "-1", "-2", "-0", "-1ubuntu1", "-1~bpo1", "-1+b1", "-1.1", "-10", "-1~"})
}

func canonRuby(g []int) string {
	s := gene(g, 0, cNums)
	for i, n := 0, g[1]%3; i < n; i++ {
		s += "." + gene(g, 2+i, cNums)
	}
	s += gene(g, 6, []string{"", "", ".a", ".rc", ".rc.1", ".a.10", ".a.9", ".b.2", ".pre", ".A", ".0.a", ".a.0", ".rc.0.1"})
	return s + gene(g, 7, []string{"", "", "", ".0", ".0.0"})
}

func canonRedHat(g []int) string {
	s := gene(g, 0, []string{"", "", "", "1:", "2:", "10:"}) + gene(g, 1, cNums)
	for i, n := 0, g[2]%3; i < n; i++ {
		s += gene(g, 3+2*i, []string{".", ".", "~", "^", "~rc", "^git", "a", "rc", "~~", "^^", "~^", "^~", ".a."}) + gene(g, 4+2*i, cNums)
	}
	s += gene(g, 8, []string{"", "", "", "~", "^", "a", "~rc", "^git", "el"})
	return s + gene(g, 9, []string{"", "", "-1", "-2", "-0", "-1.el8", "-1~rc1", "-1^git1", "-10", "-1a", "-~1"})
}

func canonPyPI(g []int) string {
	s := gene(g, 0, []string{"", "", "", "1!", "2!"}) + gene(g, 1, cNums)
	for i, n := 0, g[2]%3; i < n; i++ {
		s += "." + gene(g, 3+i, cNums)
	}
	s += gene(g, 6, []string{"", "", "a1", "b2", "rc1", "a0", "rc10", "b1", "a2"})
	s += gene(g, 7, []string{"", "", ".post1", ".post0", ".post10"})
	s += gene(g, 8, []string{"", "", ".dev1", ".dev0", ".dev10"})
	return s + gene(g, 9, []string{"", "", "", "+abc", "+1", "+abc.1", "+1.abc", "+a1", "+abc.2", "+10", "+abc.def"})
}

func cross(as, bs []string) []string {
	var out []string
	for _, a := range as {
		for _, b := range bs {
			out = append(out, a+b)
		}
	}
	return out
}

var families = []family{
	{name: "semver", ecos: []string{"npm", "crates.io", "Go", "Hex", "Pub", "ConanCenter"},
		alpha12: []string{"0", "1", "2", ".", "-", "+", "a", "b", "v", "A", "~", "é"},
		toks:    []string{"0", "1", "2", "10", "01", "007", "1.2.3", "1.2", "1.2.3.4", "v", "-", "+", "+build.5", ".", "rc", "rc.1", "alpha", "beta", "-1", "+1", "x", bigNum, "a.b", "-rc", "--", "1.0.0-", "1.0.0-alpha.1", "1.0.0-alpha.beta", "1.0.0+meta", "é", "~", "_", "-0", "-00", "-01", "-1a", "-a1", "RC", "V"},
		refs:    []string{"1.0.0", "1.0.0-a.1"}, grammar: gSemver,
		triPool: cross([]string{"1.0.0", "1.0", "1", "1.0.0.0", "1.0.1", "v1.0.0", "1.00.0"}, []string{"", "-a", "-1", "-01", "-a.1", "-a.b", "-rc.1", "-rc.1.0", "+m", "-", "-A", "-1a"}), canon: canonSemver,
		bases:    []string{"1.0.0", "1.0"},
		classes:  []string{"", "-", "-a", "-A", "-1", "-01", "-a.1", "-a.a", "-a-", "+m", "-rc", "-0", "--", "-1a", "-~", ".1"},
		sufs:     []string{"", "1", ".1", "a"},
		extBases: []string{"1.0.0", "1.0.0-rc", "1.0.0-rc.1", "1.0.0-0"},
		exts:     []string{"-0", "-a", ".0", ".a", ".1", ".0.a", ".0.0", "+b", "-0.a", "-", "0", "a"}},
	{name: "nuget", ecos: []string{"NuGet"},
		alpha12: []string{"0", "1", "2", ".", "-", "+", "a", "b", "v", "A", "B", "é"},
		toks:    []string{"0", "1", "2", "10", "01", "1.2.3.4", "1.2.3.4.5", "v", "-", "+", ".", "rc", "RC", "Rc.1", "alpha", "ALPHA", "-1", "x", bigNum, "-rc", "-RC", "É", "é", "\u0130", "i", "\u212a", "k"},
		refs:    []string{"1.0.0.0", "1.0.0-RC"}, grammar: gSemver,
		triPool: cross([]string{"1.0.0.0", "1.0", "1", "1.0.0.0.0", "1.0.0.1", "1.0.0.0.1"}, []string{"", "-a", "-A", "-1", "-a.1", "-A.B", "-rc.1", "-RC.1", "+m", "-b"}), canon: canonNuGet,
		bases:    []string{"1.0.0", "1.0.0.0"},
		classes:  []string{"", "-", "-a", "-A", "-1", "-01", "-a.1", "-A.1", "-a-", "+m", "-rc", "-RC", "-0", "--", "-1a", ".1"},
		sufs:     []string{"", "1", ".1", "a"},
		extBases: []string{"1.0.0", "1.0.0-rc", "1.0.0.0-rc.1", "1.0"},
		exts:     []string{".0", ".a", ".1", "-a", "-0", "+b", ".0.a", ".0.0", "-A", "0", "a"}},
	{name: "cran", ecos: []string{"CRAN"},
		alpha12: []string{"0", "1", "2", "9", ".", "-", "+", "a", "x", "_", "\u00a0", "é"},
		toks:    []string{"0", "1", "2", "10", "01", "007", ".", "-", "1.2", "1-2", "a", "x", "+1", "+", bigNum, "", " ", "1.2.3", "..", "--", "é"},
		refs:    []string{"1.0", "1-0-0"}, grammar: gCran,
		triPool: cross([]string{"1", "1.0", "1-0", "1.0.0", "1.", "1..", "01", "+1", "1.1", "0.1", ""}, []string{"", ".0", "-1", ".01", "."}), canon: canonCran,
		bases:    []string{"1.0", "1"},
		classes:  []string{"", ".1", "-1", ".0", "-0", ".", ".10", ".01", "-", ".2"},
		sufs:     []string{"", ".1", "-1", "0"},
		extBases: []string{"1.0", "1", "1-0", "1.0.1"},
		exts:     []string{".0", "-0", ".0.0", ".1", ".0.1", "-0-1", "0", ".00", ".0-0.0"}},
	{name: "debian", ecos: []string{"Debian", "Ubuntu"},
		alpha12: []string{"0", "1", "9", ".", "-", ":", "~", "+", "a", "Z", "\u00a0", "é"},
		toks:    []string{"0", "1", "2", "10", "01", "007", "1.2.3", "a", "b", "rc", "~", "~~", "+", "-", "--", ":", "1:", "0:", "x:", "-1:", ".", "..", "_", "^", "A", "Z", "z", "deb12u4", "ubuntu1", "dfsg", "+b1", bigNum, " ", "\t", "1a", "a1", "é", "\u00a0", "€"},
		refs:    []string{"1.0-1", "1:1.0~rc1-1"}, grammar: gDebian,
		triPool: cross([]string{"1.0", "1", "0:1.0", "1:1", "1.0~", "1.0~~", "1.0a", "1.0+", "1.0é", "1.00", "1.0.", "1.0-0", "1.0-"}, []string{"", "-1", "-1~", "~rc1", "+b1", "-01"}), canon: canonDebian,
		bases:    []string{"1.0", "1:1.0", "1.0-1"},
		classes:  []string{"", "~", "+", ".", "-", "a", "z", "A", "1", "~~", ".a", "+b", "_", "~a", "a~", "0"},
		sufs:     []string{"", "1", "rc1", "a"},
		extBases: []string{"1.0", "1.0-1", "1:1.0~rc", "1.0a", "1.0-1~"},
		exts:     []string{"~", "~~", ".0", "0", "a", "+", ".", "~a", "-0", "-1", ".0~", "~0", "0a", ".0.0", "~~a"}},
	{name: "rubygems", ecos: []string{"RubyGems"},
		alpha12: []string{"0", "1", "2", "9", ".", "-", "a", "b", "r", "c", "A", "é"},
		toks:    []string{"0", "1", "2", "10", "01", "007", "1.2.3", ".", "..", "a", "b", "rc", "pre", "rc1", "1a", "a1", "-", "x", bigNum, ".0", "0.0", "A", "é", "+1", "-1"},
		refs:    []string{"1.0.0", "1.0.0.rc1"}, grammar: gRuby,
		triPool: cross([]string{"1", "1.0", "1.0.0", "1.0.1", "1.00", "01", "1.", "1..0"}, []string{"", ".a", ".rc1", "rc1", ".rc.1", ".a.0", "a", ".0.a", "-1", ".b", ".A"}), canon: canonRuby,
		bases:    []string{"1.0", "1"},
		classes:  []string{"", ".a", ".rc", ".pre", ".1", ".0", ".a1", "a", "-1", ".A", ".b", ".z", ".00", ".a.0"},
		sufs:     []string{"", "1", ".1", ".0"},
		extBases: []string{"2.0.0.rc", "1.0.beta", "1.a", "1", "1.0", "3.2.a.1", "1.a.0.b", "1.0.0.1", "10.rc.2"},
		exts:     []string{".0.a", ".0.0.a", ".0", ".0.0", ".a", ".1", ".10", ".0.1", ".0.a.1", ".a.0", ".a.0.b", "0a", "a0", ".0.0.0.z", ".0.a.0", ".00", ".0.0.1", "a", "0"}},
	{name: "redhat", ecos: []string{"Red Hat"},
		alpha12: []string{"0", "1", "9", ".", "-", ":", "~", "^", "a", "Z", "_", "é"},
		toks:    []string{"0", "1", "2", "10", "01", "007", "1.2.3", "a", "b", "rc", "~", "~~", "^", "^^", "+", "-", "--", ":", "1:", "0:", "x:", ".", "..", "_", "A", "Z", "z", "el8", "fc39", bigNum, " ", "1a", "a1", "é", "€", "pkg-"},
		refs:    []string{"1.0-1.el8", "0:1.0~rc1-1"}, grammar: gRedHat,
		triPool: cross([]string{"1.0", "1", "0:1.0", "1:1", "1.0~", "1.0^", "1.0a", "1.0.", "1.00", "1.0~~", "1.0^1", "1.0~1", "", "~", "^", "."}, []string{"", "-1", "-1~", "-^", "a", ".a"}), canon: canonRedHat,
		bases:    []string{"1.0", "1.0-1", "2:1.0"},
		classes:  []string{"", "~", "^", ".", "_", "+", "1", ".1", "a", ".a", "~~", "^^", "~^", "^~", ".0", "01", "A"},
		sufs:     []string{"", "1", "rc1", "git1", "a"},
		extBases: []string{"1.0", "1.0-1", "2:1.0~rc", "1.0a", "1.0-1^"},
		exts:     []string{"~", "^", "~~", "^^", ".0", "0", "a", ".", "~a", "^a", "-0", "-1", ".0~", "~0", "^0", "0a", ".0.0", "~^", "^~"}},
	{name: "packagist", ecos: []string{"Packagist"},
		alpha12: []string{"0", "1", "2", ".", "-", "#", "p", "a", "R", "C", "v", "é"},
		toks:    []string{"0", "1", "2", "10", "01", "1.2.3", ".", "-", "_", "+", "v", "V", "dev", "alpha", "a", "beta", "b", "RC", "rc", "#", "p", "pl", "patch", "RC1", "p1", "beta2", "B", "Alpha", bigNum, "99999999999999999999", "x", "é", "..", "stable"},
		refs:    []string{"1.0.0", "1.0.0-RC1"}, grammar: gPackagist,
		triPool:  cross([]string{"1", "1.0", "1.0.0", "1.5", "1.99999999999999999999", "v1", "1.1"}, []string{"", "-dev", "-a", "-alpha1", "-b2", "-RC", "-rc1", "-p", "-p1", "-pl", ".x", "x", "-stable"}),
		bases:    []string{"1.0", "1.0.0"},
		classes:  []string{"", "-dev", "-alpha", "-a", "-beta", "-b", "-RC", "-rc", "-p", "-pl", "-patch", "-stable", ".1", ".0", "-#", "-x"},
		sufs:     []string{"", "1", ".1", "2"},
		extBases: []string{"1.0", "1.0.0-RC", "1.0-p"},
		exts:     []string{".0", "-dev", ".0-a", "-p", ".0.0", "1", "-0", ".x", "-stable"}},
	{name: "pypi", ecos: []string{"PyPI"},
		alpha12: []string{"0", "1", ".", "-", "!", "+", "a", "r", "c", "d", "v", "p"},
		toks:    []string{"1!", "2!", ".post1", "-1", ".dev2", "dev", "post", "rev3", "r4", "c1", "rc", "preview", "pre", ".a1", "b", ".b2", "+local", "+abc.5", "+1.a", "+A_b", "1.0", "1.0.0", " ", "v", "V", ".", ".0", "final", "0", "1", "2", "10", "01", "007", "1.2.3", "a", "-", "_", "x", bigNum, "é", "\u0130", "\u212a", "~", "@", "*"},
		refs:    []string{"1.0", "1.0.post1.dev2"}, grammar: gPyPI,
		triPool: cross([]string{"1.0", "1", "1.0.0", "0!1", "1!0", "1.1", "x1", "1.0x"}, []string{"", "a", "a0", ".a1", "b1", "rc1", "c1", ".post1", "-1", ".dev1", ".post1.dev1", "a1.dev1", "+l", "+1", "+l.1", ".dev", "-"}), canon: canonPyPI,
		bases:    []string{"1.0", "1!1.0", "1.0a1", "1.0.post1"},
		classes:  []string{"", ".dev", "a", "b", "rc", "c", ".post", ".rev", "-", ".alpha", ".beta", ".pre", "+l", ".1", ".0", "dev", "post", ".preview"},
		sufs:     []string{"", "1", "2", "0"},
		extBases: []string{"1.0", "1.0a1", "1.0.post1", "1!1.0", "1.0.dev1", "1.0+a"},
		exts:     []string{".0", ".0.0", ".1", "a0", ".dev0", ".post0", "+a", "+0", ".0a1", ".dev1", ".0.post1", ".0.dev0", ".0", "0", ".a"}},
	{name: "alpine", ecos: []string{"Alpine"},
		alpha12: []string{"0", "1", "9", ".", "_", "-", "r", "p", "a", "~", "c", "é"},
		toks:    []string{"0", "1", "2", "10", "01", "00", "007", "1.2.3", ".", "..", "a", "b", "z", "A", "_alpha", "_beta1", "_pre", "_rc2", "_p", "_p1", "_pre1", "_git", "_hg3", "_cvs", "_svn", "_x", "-r", "-r0", "-r12", "-rx", "~abc", "~1f", "~g", "~", bigNum, "é", "!", "_"},
		refs:    []string{"1.0", "1.0.0_rc1-r1"}, grammar: gAlpine,
		triPool:  cross([]string{"1", "1.0", "1.00", "1.1", "1.01", "1.10", "1.0.0", "2", "1.02", "9!", "10!", "9.5"}, []string{"", "a", "_alpha", "_rc1", "_p1", "_p", "-r0", "-r1"}),
		bases:    []string{"1.0", "1.2.3"},
		classes:  []string{"", "_alpha", "_beta", "_pre", "_rc", "_cvs", "_svn", "_git", "_hg", "_p", "a", "b", ".1", ".0", "-r1", "_x", "~abc"},
		sufs:     []string{"", "1", "2", "-r1"},
		extBases: []string{"1.9_rc1", "1.10_rc1_p1", "1.0", "1.0a", "1.9.5"},
		exts:     []string{".0", "_p", "_alpha", "a", "-r0", ".0.0", "_p0", "0", ".00", "_rc", "_p1", "_p10", "_p9-r2", "_git1_p2", "_alpha1_beta2-r3", "-r2", "_cvs", "_hg5"}},
	{name: "maven", ecos: []string{"Maven"},
		alpha12: []string{"0", "1", "2", ".", "-", "a", "r", "c", "f", "o", "s", "p"},
		toks:    []string{"0", "1", "2", "10", "01", "007", "1.0", "1.0.0", ".", "-", "..", "--", ".0", "-0", "final", "ga", "release", "cr", "CR1", "sp", "SP2", "snapshot", "SNAPSHOT", "milestone", "m1", "m", "a1", "b2", "a", "b", "foo", "Final", "-final", "jre", "rc", "alpha", "beta", bigNum, "é", "é1", "€2", "x", "_", "+"},
		refs:    []string{"1.0", "1.0-rc1"}, grammar: gMaven,
		triPool:  cross([]string{"1", "1.0", "1.1", "0", "1.0.1"}, []string{"", ".alpha", ".rc1", ".foo", "-foo", ".sp", "-sp", ".1", "-1", "rc", "a", ".a", "-a", "alpha", "-alpha-1", "-alpha1", "-rc", "-SNAPSHOT", "-ga", "-m1", "-xyz1"}),
		bases:    []string{"1.0", "1"},
		classes:  []string{"", "-alpha", "-beta", "-milestone", "-rc", "-snapshot", "-sp", "-ga", "-final", "-release", "-foo", "-1", ".1", ".0", ".alpha", ".foo", "-a", "-b", "-m", "-cr", ".sp", ".ga"},
		sufs:     []string{"", "1", "-1", ".1"},
		extBases: []string{"1.0", "1", "1.0-rc", "1-foo"},
		exts:     []string{".0", "-0", "-ga", ".final", "-a", ".0.a", ".0.0", "-0-1", ".1", "-1", "0", "a", "-", ".release.1"}},
}

func famAlphabet(f *family) []string {
	a := append([]string{}, f.alpha12...)
	a = append(a, "0", "1", "5", "9", ".", "-", "_", "+", "~", ":", "a", "z", "A", "Z", " ", "#", "!", "^")
	return append(a, probes...)
}

func genString(r *rand.Rand, f *family) string {
	switch k := r.Intn(100); {
	case k < 60:
		return f.grammar(r)
	case k < 85:
		s := ""
		for i, n := 0, 1+r.Intn(4); i < n; i++ {
			s += pick(r, f.toks)
		}
		return s
	default:
		al := famAlphabet(f)
		s := ""
		for i, n := 0, r.Intn(9); i < n; i++ {
			s += pick(r, al)
		}
		return s
	}
}

// mutate applies one edit: insert / delete / substitute a symbol, insert a token, toggle a leading zero.
func mutate(r *rand.Rand, f *family, s string) string {
	rs := []rune(s)
	al := famAlphabet(f)
	switch r.Intn(6) {
	case 0: // insert a symbol
		i := r.Intn(len(rs) + 1)
		return string(rs[:i]) + pick(r, al) + string(rs[i:])
	case 1: // delete
		if len(rs) == 0 {
			return pick(r, al)
		}
		i := r.Intn(len(rs))
		return string(rs[:i]) + string(rs[i+1:])
	case 2: // substitute
		if len(rs) == 0 {
			return pick(r, al)
		}
		i := r.Intn(len(rs))
		return string(rs[:i]) + pick(r, al) + string(rs[i+1:])
	case 3: // insert a token
		i := r.Intn(len(rs) + 1)
		return string(rs[:i]) + pick(r, f.toks) + string(rs[i:])
	case 4: // a leading zero in front of some digit
		var idx []int
		for i, c := range rs {
			if c >= '0' && c <= '9' && (i == 0 || rs[i-1] < '0' || rs[i-1] > '9') {
				idx = append(idx, i)
			}
		}
		if len(idx) == 0 {
			return s + "0"
		}
		i := idx[r.Intn(len(idx))]
		return string(rs[:i]) + "0" + string(rs[i:])
	default: // append / drop a trailing ".0"-like piece
		if r.Intn(2) == 0 {
			return s + pick(r, []string{".0", "-0", ".00", "0", ".", "-", "a", "-1", ".1"})
		}
		if len(rs) > 0 {
			return string(rs[:len(rs)-1])
		}
		return s
	}
}

func genome(r *rand.Rand) []int {
	g := make([]int, 12)
	for i := range g {
		g[i] = r.Intn(1000)
	}
	return g
}

func genPair(r *rand.Rand, f *family) (string, string) {
	if f.canon != nil && r.Intn(100) < 25 {
		g := genome(r)
		a := f.canon(g)
		switch k := r.Intn(100); {
		case k < 55: // one gene changed: a confusable canonical neighbour
			h := append([]int{}, g...)
			h[r.Intn(len(h))] = r.Intn(1000)
			return a, f.canon(h)
		case k < 63:
			return a, a
		case k < 80: // strict prefix: the same canonical version with one (or two) more tails
			b := a + pick(r, f.exts)
			if r.Intn(4) == 0 {
				b += pick(r, f.exts)
			}
			if r.Intn(2) == 0 {
				return b, a
			}
			return a, b
		default:
			return a, f.canon(genome(r))
		}
	}
	if f.name == "alpine" && r.Intn(100) < 15 {
		return gAlpineSufPair(r)
	}
	if f.name == "alpine" && r.Intn(100) < 12 {
		x := gAlpineBase(r)
		a := gAlpineMulti(r, x)
		switch r.Intn(4) {
		case 0: // the same version with its last suffix (and build component) removed / changed
			return a, gAlpineMulti(r, x)
		case 1:
			return a, x + "_" + pick(r, alpSufValid) + opt(r, 60, pick(r, alpNumsPlain))
		case 2:
			return a, x
		default:
			return a, gAlpineMulti(r, gAlpineBase(r))
		}
	}
	if r.Intn(100) < 4 {
		a := pick(r, f.extBases)
		if r.Intn(2) == 0 {
			return a + pick(r, f.exts), a + pick(r, f.exts)
		}
		return a, a + pick(r, f.exts) + opt(r, 25, pick(r, f.exts))
	}
	a := genString(r, f)
	switch k := r.Intn(100); {
	case k < 8:
		return a, a
	case k < 55:
		return a, mutate(r, f, a)
	case k < 62:
		return a, mutate(r, f, mutate(r, f, a))
	default:
		return a, genString(r, f)
	}
}

func genTriple(r *rand.Rand, f *family) (string, string, string) {
	if f.name == "maven" && r.Intn(2) == 0 {
		return gMavenCanon(r), gMavenCanon(r), gMavenCanon(r)
	}
	if f.name == "alpine" && r.Intn(3) == 0 {
		// a plain (or one-suffix) version and two versions with 2+ suffixes, on the same or neighbouring bases
		x, y := gAlpineBase(r), gAlpineBase(r)
		p := []string{x + opt(r, 40, "_"+pick(r, alpSufValid)+opt(r, 60, pick(r, alpNumsPlain))) + opt(r, 30, "-r"+pick(r, alpNumsPlain)),
			gAlpineMulti(r, pick(r, []string{x, y})), gAlpineMulti(r, pick(r, []string{x, y}))}
		if r.Intn(3) == 0 {
			p[0] = gAlpineMulti(r, x)
		}
		r.Shuffle(3, func(i, j int) { p[i], p[j] = p[j], p[i] })
		return p[0], p[1], p[2]
	}
	if r.Intn(3) == 0 {
		return pick(r, f.triPool), pick(r, f.triPool), pick(r, f.triPool)
	}
	if r.Intn(3) == 0 { // three different special tokens at the same position
		x := pick(r, f.bases)
		return x + pick(r, f.classes) + pick(r, f.sufs), x + pick(r, f.classes) + pick(r, f.sufs), x + pick(r, f.classes) + pick(r, f.sufs)
	}
	a := genString(r, f)
	b := mutate(r, f, a)
	c := mutate(r, f, pick(r, []string{a, b}))
	p := []string{a, b, c}
	r.Shuffle(3, func(i, j int) { p[i], p[j] = p[j], p[i] })
	return p[0], p[1], p[2]
}

func pickEco(r *rand.Rand, f *family) string {
	if r.Intn(400) == 0 {
		return pick(r, nearMissEcos)
	}
	return pick(r, f.ecos)
}

// enumerate all strings of length ≤ 4 over the family's 12 symbols
func enumerate(al []string, f func(i int, s string)) {
	i := 0
	var rec func(cur string, depth int)
	rec = func(cur string, depth int) {
		f(i, cur)
		i++
		if depth == 4 {
			return
		}
		for _, a := range al {
			rec(cur+a, depth+1)
		}
	}
	rec("", 0)
}

func main() {
	shard := flag.Int("shard", 0, "this shard (0-based)")
	shards := flag.Int("shards", 1, "number of shards the stream is split into")
	o := hx.Parse()
	out := hx.NewOut()
	defer out.Flush()
	if *shards < 1 || *shard < 0 || *shard >= *shards {
		fmt.Fprintln(os.Stderr, "bad -shard/-shards")
		os.Exit(2)
	}
	if o.Replay != "" {
		for _, l := range hx.ReplayLines(o.Replay) {
			out.Emit(runLine(l))
		}
		return
	}
	r := rand.New(rand.NewSource(o.Seed*1000003 + int64(*shard)))
	emitCmp := func(eco, a, b string) { out.Emit(runCmp(eco, a, b)) }
	emitTri := func(eco, a, b, c string) { out.Emit(runTri(eco, a, b, c)) }

	// (0) the special-token matrix, in BOTH tiers: for every pair of token classes t1, t2 of a family the
	// versions x+t1+s and x+t2+s face each other directly (cmp: published-rule oracle) and with the plain
	// x, resp. a second continuation, as third version (tri: all six comparisons are reported, so the
	// oracle sees every ordering of the triple)
	{
		k := 0
		for fi := range families {
			f := &families[fi]
			bases := f.bases
			if o.Tier != "thorough" {
				bases = bases[:1]
			}
			for _, x := range bases {
				for i, t1 := range f.classes {
					for j, t2 := range f.classes {
						if j <= i {
							continue
						}
						for si, s1 := range f.sufs {
							k++
							if k%*shards != *shard {
								continue
							}
							eco := f.ecos[k%len(f.ecos)]
							s2 := f.sufs[(si+1)%len(f.sufs)]
							emitCmp(eco, x+t1+s1, x+t2+s1)
							emitTri(eco, x+t1+s1, x, x+t2+s1)
							emitTri(eco, x+t1+s1, x+t2+s1, x+t2+s2)
							emitTri(eco, x+t1+s1, x+t1+s2, x+t2+s1)
						}
					}
				}
			}
		}
	}
	// (0a) every ecosystem name the stream knows, plus near-miss spellings that must be unsupported, against the
	// documented example pairs of ALL ecosystems (the expected verdicts live in the specification:
	// Spec/Semantic/Ecosystems.lean prints wit= for an ecosystem's own examples), in BOTH tiers
	{
		k := 0
		var names []string
		for fi := range families {
			names = append(names, families[fi].ecos...)
		}
		names = append(names, nearMissEcos...)
		for _, eco := range names {
			for _, w := range docExamples {
				k++
				if k%*shards != *shard {
					continue
				}
				emitCmp(eco, w[0], w[1])
			}
		}
	}
	// (0b) strict-prefix pairs, in BOTH tiers: every base against base+tail (cmp: published-rule oracle), and
	// base, base+tail1, base+tail2 as a triple; quick tier: first two bases
	{
		k := 0
		for fi := range families {
			f := &families[fi]
			bases := f.extBases
			if o.Tier != "thorough" && len(bases) > 2 {
				bases = bases[:2]
			}
			for _, x := range bases {
				for i, e1 := range f.exts {
					k++
					if k%*shards != *shard {
						continue
					}
					eco := f.ecos[k%len(f.ecos)]
					emitCmp(eco, x, x+e1)
					emitCmp(eco, x+e1, x)
					e2 := f.exts[(i+1)%len(f.exts)]
					emitTri(eco, x, x+e1, x+e2)
					if o.Tier == "thorough" {
						for _, e3 := range f.exts[i+1:] {
							emitCmp(eco, x+e1, x+e3)
							emitTri(eco, x+e1, x, x+e3)
							emitTri(eco, x+e1, x+e1+e3, x+e3)
						}
					}
				}
			}
		}
	}
	if o.Tier == "thorough" {
		// (1) every string of length ≤ 4 over 12 symbols, per family: against itself (ra/rb), its
		// predecessor in the enumeration, a seeded random member, and two fixed reference versions
		for fi := range families {
			f := &families[fi]
			var all []string
			enumerate(f.alpha12, func(_ int, s string) { all = append(all, s) })
			er := rand.New(rand.NewSource(o.Seed*7919 + int64(fi)))
			for i, s := range all {
				partner := all[er.Intn(len(all))] // drawn for every i so that shards agree
				if i%*shards != *shard {
					continue
				}
				eco := f.ecos[i%len(f.ecos)]
				prev := s
				if i > 0 {
					prev = all[i-1]
				}
				emitCmp(eco, s, prev)
				emitCmp(eco, s, partner)
				for _, ref := range f.refs {
					emitCmp(eco, s, ref)
				}
			}
			// (2) all triples over the family's pool of confusable strings (unordered: a tri case reports
			// all six comparisons)
			k := 0
			for i, a := range f.triPool {
				for j, b := range f.triPool[i:] {
					for _, c := range f.triPool[i+j:] {
						if k%*shards == *shard {
							emitTri(f.ecos[k%len(f.ecos)], a, b, c)
						}
						k++
					}
				}
			}
			// (3) all triples of token classes at one position, first continuation
			for _, x := range f.bases {
				for i, t1 := range f.classes {
					for j, t2 := range f.classes[i:] {
						for _, t3 := range f.classes[i+j:] {
							if k%*shards == *shard {
								emitTri(f.ecos[k%len(f.ecos)], x+t1+f.sufs[1], x+t2+f.sufs[1], x+t3+f.sufs[1])
							}
							k++
						}
					}
				}
			}
		}
	}
	n := o.N / *shards
	if *shard < o.N%*shards {
		n++
	}
	for i := 0; i < n; i++ {
		f := &families[r.Intn(len(families))]
		eco := pickEco(r, f)
		if r.Intn(8) == 0 {
			a, b, c := genTriple(r, f)
			emitTri(eco, a, b, c)
			continue
		}
		a, b := genPair(r, f)
		emitCmp(eco, a, b)
	}
}
