// c05gen: correspondence stream for C05 (layer attribution: trace.PopulateLayerDetails through
// Scanner.ScanContainer vs Scalibr.Trace). Every case is a real image built in memory with a history
// (CreatedBy, EmptyLayer), scanned with a fake line-oriented extractor.
// Case grammar: see lean/Drivers/C05.lean.
package main

import (
	"archive/tar"
	"context"
	"errors"
	"flag"
	"fmt"
	"io"
	"math/rand"
	"path"
	"sort"
	"strconv"
	"strings"

	v1 "github.com/google/go-containerregistry/pkg/v1"
	"github.com/google/go-containerregistry/pkg/v1/empty"
	"github.com/google/go-containerregistry/pkg/v1/mutate"
	scalibr "github.com/google/osv-scalibr"
	"github.com/google/osv-scalibr/artifact/image/layerscanning/image"
	"github.com/google/osv-scalibr/detector"
	"github.com/google/osv-scalibr/extractor"
	"github.com/google/osv-scalibr/extractor/filesystem"
	"github.com/google/osv-scalibr/extractor/standalone"
	scalibrfs "github.com/google/osv-scalibr/fs"
	"github.com/google/osv-scalibr/inventory"
	"github.com/google/osv-scalibr/packageindex"
	"github.com/google/osv-scalibr/plugin"
	"github.com/google/osv-scalibr/purl"
	"github.com/google/osv-scalibr/stats"

	"verif/harness/hx"
	"verif/harness/imgx"
)

// the package-list files; the extractor wants files called pkgs.list
// files 0 and 1 sit three directories deep. They share NO ancestor directory: a directory that one layer deletes
// and a later layer re-creates for a SIBLING shows the lower layers' other children again — that is C04's known
// finding C04/recreate-after-whiteout (wrong views), so C05's generator keeps every file alone under its ancestors.
var files = []string{"var/lib/a/pkgs.list", "usr/share/b/pkgs.list", "opt/pkgs.list"}

// ancestor returns the directory n levels above file f (n = 1: its own directory), "" if there is none.
func ancestor(f, n int) string {
	parts := strings.Split(files[f], "/")
	dirs := parts[:len(parts)-1]
	if n < 1 || n > len(dirs) {
		return ""
	}
	return strings.Join(dirs[:len(dirs)-(n-1)], "/")
}

// pkgex counts its Extract calls and cancels the scan's context during call number cancelOn (0 = never).
type pkgex struct {
	calls    *int
	cancelOn int
	cancel   func()
	sizes    *[]int // when set: the number of bytes every Extract call was handed
	noPURL   bool   // ToPURL returns nil (extractors without a PURL for their packages, e.g. containerd's)
	second   bool   // the second extractor reading the same files: another name, PURLs in another namespace
}

func (e pkgex) Name() string {
	if e.second {
		return "verif/pkgex2"
	}
	return "verif/pkgex"
}
func (pkgex) Version() int                       { return 0 }
func (pkgex) Requirements() *plugin.Capabilities { return &plugin.Capabilities{} }
func (pkgex) FileRequired(api filesystem.FileAPI) bool {
	return path.Base(api.Path()) == "pkgs.list"
}
func (e pkgex) Extract(ctx context.Context, in *filesystem.ScanInput) (inventory.Inventory, error) {
	*e.calls++
	if e.cancelOn > 0 && *e.calls == e.cancelOn {
		e.cancel()
	}
	b, err := io.ReadAll(in.Reader)
	if err != nil {
		return inventory.Inventory{}, err
	}
	if e.sizes != nil {
		*e.sizes = append(*e.sizes, len(b))
	}
	var ps []*extractor.Package
	for _, l := range strings.Split(string(b), "\n") {
		if l != "" && l[0] != '#' {
			name, ver, _ := strings.Cut(l, " ")
			ps = append(ps, &extractor.Package{Name: name, Version: ver, Locations: []string{in.Path}})
		}
	}
	return inventory.Inventory{Packages: ps}, nil
}
func (e pkgex) ToPURL(p *extractor.Package) *purl.PackageURL {
	if e.noPURL {
		return nil
	}
	if e.second {
		return &purl.PackageURL{Type: purl.TypeGeneric, Namespace: "other", Name: p.Name, Version: p.Version}
	}
	return &purl.PackageURL{Type: purl.TypeGeneric, Name: p.Name, Version: p.Version}
}
func (pkgex) Ecosystem(p *extractor.Package) string { return "" }

// A package id (one digit 1..8 of the case line) is a (name, version) pair; names are SHARED between
// ids: id d and id d+4 are the same name at versions 1 and 2 (purls that differ only in the version).
func pkgLine(d rune) string {
	n := int(d - '0')
	return fmt.Sprintf("p%d %d", (n-1)%4+1, (n-1)/4+1)
}

func pkgID(name, version string) string {
	n, err1 := strconv.Atoi(strings.TrimPrefix(name, "p"))
	v, err2 := strconv.Atoi(version)
	if err1 != nil || err2 != nil {
		return "?" + name + "@" + version
	}
	return strconv.Itoa(n + 4*(v-1))
}

// hitByAncestorOp: another file's ancestor op in this layer deletes a directory above file f too.
func hitByAncestorOp(l layer, f int) bool {
	for g, op := range l.ops {
		if g != f && len(op) == 2 && (op[0] == 'a' || op[0] == 'r' || op[0] == 'l' || op[0] == 'h') {
			if dir := ancestor(g, int(op[1]-'0')); dir != "" && strings.HasPrefix(files[f], dir+"/") {
				return true
			}
		}
	}
	return false
}

// emitNoPURL: generate cases whose extractor returns a nil PURL. Off until the repair is in /repo: on the unrepaired
// tree PopulateLayerDetails dereferences the nil PURL and ScanContainer panics (fix-c17-cov/2.diff).
// emitTwoExtractors: generate cases in which two extractors read the same files. Off until the repair is in /repo: the
// trace's cache is keyed by (location, layer) only, so the second extractor's packages are looked up among the first one's
// (fix-imgb-j/1.diff).
const emitTwoExtractors = true

// emitRetarget: generate op t (a layer rewrites the TARGET of a symlinked location without touching the link). The unchanged
// code skips such a layer (known finding C05/location-content-depends-on-other-paths): switch on together with the
// finding's line in known_findings.txt.
const emitRetarget = true

const emitNoPURL = true

// saex: a standalone extractor that reports one package ("sa", with a location). It is not a filesystem extractor, so
// the trace cannot attribute its package: LayerDetails stay unset.
type saex struct{ fail bool }

func (saex) Name() string                       { return "verif/saex" }
func (saex) Version() int                       { return 0 }
func (saex) Requirements() *plugin.Capabilities { return &plugin.Capabilities{} }
func (e saex) Extract(ctx context.Context, in *standalone.ScanInput) (inventory.Inventory, error) {
	if e.fail {
		return inventory.Inventory{}, errors.New("verif: standalone extractor fails")
	}
	return inventory.Inventory{Packages: []*extractor.Package{{Name: "sa", Version: "1", Locations: []string{"standalone"}}}}, nil
}
func (saex) ToPURL(p *extractor.Package) *purl.PackageURL {
	return &purl.PackageURL{Type: purl.TypeGeneric, Name: p.Name, Version: p.Version}
}
func (saex) Ecosystem(p *extractor.Package) string { return "" }

// fdet: a detector that makes the detection phase go wrong in one of the ways the engine knows.
type fdet struct {
	mode   byte
	cancel func()
}

func (fdet) Name() string                       { return "verif/fdet" }
func (fdet) Version() int                       { return 0 }
func (fdet) Requirements() *plugin.Capabilities { return &plugin.Capabilities{} }
func (fdet) RequiredExtractors() []string       { return nil }
func (d fdet) Scan(ctx context.Context, root *scalibrfs.ScanRoot, px *packageindex.PackageIndex) ([]*detector.Finding, error) {
	adv := func(title string) *detector.Advisory {
		return &detector.Advisory{ID: &detector.AdvisoryID{Publisher: "VERIF", Reference: "V-1"}, Type: detector.TypeVulnerability,
			Title: title, Description: "d", Recommendation: "r", Sev: &detector.Severity{Severity: detector.SeverityMedium}}
	}
	switch d.mode {
	case 'i': // the same advisory ID with different content
		return []*detector.Finding{{Adv: adv("one")}, {Adv: adv("another")}}, nil
	case 'm': // a finding without an advisory
		return []*detector.Finding{{Adv: nil}}, nil
	case 'e':
		return nil, errors.New("verif: detector fails")
	case 'c':
		d.cancel()
		return nil, nil
	}
	return nil, nil
}

type layer struct {
	empty bool
	ops   []string // per file: k, d, w<digits>
}

type tcase struct {
	mode   byte // H N S G
	noPURL bool // mode token suffix p: the extractor has no PURL for its packages (identity = name and version)
	nf     int
	cancel int // 0 = never; k = the context is cancelled once the trace has made k re-extractions
	// what goes wrong AFTER the (successful) extraction of the final view; attribution must not care:
	// 0 nothing | i a detector reports inconsistent advisories | m a finding without an advisory | e a detector fails
	// s the standalone extractor fails | c a detector cancels the context (written as cancel token c0)
	after  byte
	two    bool // mode letter x: a second extractor reads the same files (same packages, other PURLs)
	layers []layer
}

func (c tcase) line() string {
	ls := make([]string, len(c.layers))
	for i, l := range c.layers {
		if l.empty {
			ls[i] = "E"
		} else {
			ls[i] = "L/" + strings.Join(l.ops, "/")
		}
	}
	cs := "-"
	if c.cancel > 0 {
		cs = fmt.Sprintf("c%d", c.cancel)
	} else if c.after == 'c' {
		cs = "c0"
	}
	m := string(c.mode)
	if c.noPURL {
		m += "p"
	}
	if c.after != 0 && c.after != 'c' {
		m += string(c.after)
	}
	if c.two {
		m += "x"
	}
	return fmt.Sprintf("trace %s %d %s %s", m, c.nf, cs, hx.Join(ls, ","))
}

func parseCase(s string) tcase {
	t := strings.Split(s, " ")
	if (len(t) != 4 && len(t) != 5) || t[0] != "trace" {
		panic("bad case line: " + s)
	}
	nf, err := strconv.Atoi(t[2])
	if err != nil {
		panic(err)
	}
	c := tcase{mode: t[1][0], nf: nf}
	for _, fl := range t[1][1:] {
		switch fl {
		case 'p':
			c.noPURL = true
		case 'i', 'm', 'e', 's':
			c.after = byte(fl)
		case 'x':
			c.two = true
		default:
			panic("bad mode token: " + s)
		}
	}
	if len(t) == 5 && t[3] != "-" {
		c.cancel, err = strconv.Atoi(strings.TrimPrefix(t[3], "c"))
		if err != nil || c.cancel < 0 {
			panic("bad cancel token: " + s)
		}
		if c.cancel == 0 {
			c.after = 'c'
		}
	}
	if ls := t[len(t)-1]; ls != "-" {
		for _, l := range strings.Split(ls, ",") {
			if l == "E" {
				c.layers = append(c.layers, layer{empty: true})
			} else {
				c.layers = append(c.layers, layer{ops: strings.Split(l, "/")[1:]})
			}
		}
	}
	return c
}

func run(c tcase) string {
	return hx.Guard(func() string {
		img := empty.Image
		var diffIDs []string
		linkTarget := map[int]string{} // file -> the target of the symlink currently at its location ("" = no symlink there)
		for i, l := range c.layers {
			h := v1.History{CreatedBy: fmt.Sprintf("cmd%d", i), EmptyLayer: l.empty}
			var err error
			if l.empty {
				img, err = mutate.Append(img, mutate.Addendum{History: h})
			} else {
				es := []imgx.TarEnt{{Name: fmt.Sprintf("other%d", i), Typ: tar.TypeReg, Body: strconv.Itoa(i)}}
				seen := map[string]bool{}
				for f, op := range l.ops {
					switch {
					case op == "k":
					case op[0] == 't':
						// the location is a symlink: rewrite the link's TARGET, leave the link alone
						if linkTarget[f] == "" {
							panic("t without a symlinked location: " + op)
						}
						var sb strings.Builder
						for _, d := range op[1:] {
							sb.WriteString(pkgLine(d) + "\n")
						}
						es = append(es, imgx.TarEnt{Name: linkTarget[f], Typ: tar.TypeReg, Body: sb.String()})
					case (op[0] == 'a' || op[0] == 'r' || op[0] == 'l' || op[0] == 'h') && len(op) == 2:
						// an ANCESTOR directory of the file, n levels up, is deleted (a) or replaced by a regular file (r)
						dir := ancestor(f, int(op[1]-'0'))
						if dir == "" {
							panic("no such ancestor: " + op)
						}
						linkTarget[f] = ""
						if seen[op[:1]+dir] {
							continue
						}
						seen[op[:1]+dir] = true
						switch op[0] {
						case 'a':
							es = append(es, imgx.TarEnt{Name: imgx.WhName(dir), Typ: tar.TypeReg})
						case 'r':
							es = append(es, imgx.TarEnt{Name: dir, Typ: tar.TypeReg, Body: "not a directory"})
						case 'l', 'h':
							// the ancestor becomes a symlink (l) / hard link (h) to another, existing directory (lib -> usr/lib):
							// whatever older layers have below the old directory is gone from the view
							other := fmt.Sprintf("moved/d%d_%d", i, f)
							es = append(es, imgx.TarEnt{Name: other + "/", Typ: tar.TypeDir}, imgx.TarEnt{Name: other + "/readme", Typ: tar.TypeReg, Body: "x"})
							if op[0] == 'l' {
								es = append(es, imgx.TarEnt{Name: dir, Typ: tar.TypeSymlink, Link: "/" + other})
							} else {
								es = append(es, imgx.TarEnt{Name: dir, Typ: tar.TypeLink, Link: other})
							}
						}
					case op == "d":
						linkTarget[f] = ""
						es = append(es, imgx.TarEnt{Name: imgx.WhName(files[f]), Typ: tar.TypeReg})
					case op[0] == 'w' || op[0] == 's':
						var sb strings.Builder
						for _, d := range op[1:] {
							sb.WriteString(pkgLine(d) + "\n")
						}
						if op[0] == 'w' {
							linkTarget[f] = ""
							es = append(es, imgx.TarEnt{Name: files[f], Typ: tar.TypeReg, Body: sb.String()})
						} else {
							// the location becomes a symlink to a list that lives elsewhere (and is not a package file itself)
							tgt := fmt.Sprintf("lnk/g%d_%d", i, f)
							linkTarget[f] = tgt
							es = append(es, imgx.TarEnt{Name: tgt, Typ: tar.TypeReg, Body: sb.String()},
								imgx.TarEnt{Name: files[f], Typ: tar.TypeSymlink, Link: "/" + tgt})
						}
					default:
						panic("op " + op)
					}
				}
				ly := imgx.MkLayer(es)
				d, derr := ly.DiffID()
				if derr != nil {
					panic(derr)
				}
				diffIDs = append(diffIDs, d.Hex)
				img, err = mutate.Append(img, mutate.Addendum{Layer: ly, History: h})
			}
			if err != nil {
				panic(err)
			}
		}
		if c.mode != 'H' {
			cf, err := img.ConfigFile()
			if err != nil {
				panic(err)
			}
			cf = cf.DeepCopy()
			switch {
			case c.mode == 'N':
				cf.History = nil
			case c.mode == 'G':
				cf.History = append(cf.History, v1.History{CreatedBy: "ghost"})
			case len(cf.History) > 0:
				cf.History = cf.History[:len(cf.History)-1]
			}
			img, err = mutate.ConfigFile(img, cf)
			if err != nil {
				panic(err)
			}
		}
		im, err := image.FromV1Image(img, image.DefaultConfig())
		if err != nil {
			return "loaderr"
		}
		defer im.CleanUp()
		cls, _ := im.ChainLayers()
		// the main scan extracts every package file present in the final view once; the trace's
		// re-extractions come after that
		finalCalls := 0
		for f := 0; f < c.nf; f++ {
			last := "k"
			for _, l := range c.layers {
				if l.empty {
					continue
				}
				if l.ops[f] != "k" {
					last = l.ops[f]
				} else if hitByAncestorOp(l, f) {
					last = "d"
				}
			}
			if last[0] == 'w' || last[0] == 's' || last[0] == 't' {
				finalCalls++
				if c.two {
					finalCalls++
				}
			}
		}
		ctx, cancel := context.WithCancel(context.Background())
		defer cancel()
		calls, cancelOn := 0, 0
		if c.cancel > 0 {
			cancelOn = finalCalls + c.cancel
		}
		var dets []detector.Detector
		if c.after == 'i' || c.after == 'm' || c.after == 'e' || c.after == 'c' {
			dets = []detector.Detector{fdet{mode: c.after, cancel: cancel}}
		}
		exs := []filesystem.Extractor{pkgex{calls: &calls, cancelOn: cancelOn, cancel: cancel, noPURL: c.noPURL}}
		if c.two {
			exs = append(exs, pkgex{calls: &calls, cancelOn: cancelOn, cancel: cancel, second: true})
		}
		res, err := scalibr.New().ScanContainer(ctx, im, &scalibr.ScanConfig{
			FilesystemExtractors: exs, Capabilities: &plugin.Capabilities{},
			StandaloneExtractors: []standalone.Extractor{saex{fail: c.after == 's'}},
			Detectors:            dets,
			// scan roots given by the caller are replaced by the image's final view
			ScanRoots:    []*scalibrfs.ScanRoot{{Path: "/nonexistent/verif"}},
			ReadSymlinks: true})
		if err != nil {
			return "scanerr"
		}
		var toks []string
		for _, p := range res.Inventory.Packages {
			f := -1
			for i := range files {
				if len(p.Locations) > 0 && p.Locations[0] == files[i] {
					f = i
				}
			}
			if p.Name == "sa" { // the standalone extractor's package: not traceable
				if p.LayerDetails == nil {
					toks = append(toks, "sa@nil")
				} else {
					toks = append(toks, fmt.Sprintf("sa@%d", p.LayerDetails.Index))
				}
				continue
			}
			name := pkgID(p.Name, p.Version)
			pfx := "f"
			if p.Extractor != nil && p.Extractor.Name() == "verif/pkgex2" {
				pfx = "g" // the second extractor's package of that file
			}
			if p.LayerDetails == nil {
				toks = append(toks, fmt.Sprintf("%s%dp%s@nil", pfx, f, name))
				continue
			}
			ord := "?"
			if p.LayerDetails.DiffID == "" {
				ord = "e"
			}
			for i, d := range diffIDs {
				if d == p.LayerDetails.DiffID {
					ord = strconv.Itoa(i)
				}
			}
			toks = append(toks, fmt.Sprintf("%s%dp%s@%d:%s:%s", pfx, f, name, p.LayerDetails.Index, ord, hx.Hex(p.LayerDetails.Command)))
		}
		sort.Strings(toks)
		return fmt.Sprintf("n=%d pk=%s", len(cls), hx.Join(toks, ","))
	})
}

// ---------------------------------------------------------------- generators

func randPkgs(r *rand.Rand, prev string) string {
	// mostly an edit of what the file held before: add / remove / keep individual packages, bump the
	// version of one (id d -> d+4: a NEW package, same name), or add the other version next to it
	set := map[byte]bool{}
	if prev != "" && r.Intn(4) != 0 {
		for i := 1; i < len(prev); i++ {
			if r.Intn(4) != 0 {
				set[prev[i]] = true
			}
		}
	}
	for n := r.Intn(3); n > 0; n-- {
		set["12345678"[r.Intn(8)]] = true
	}
	other := func(d byte) byte {
		if d <= '4' {
			return d + 4
		}
		return d - 4
	}
	for _, d := range []byte("12345678") {
		if !set[d] {
			continue
		}
		switch r.Intn(8) {
		case 0: // version bump
			delete(set, d)
			set[other(d)] = true
		case 1: // both versions side by side
			set[other(d)] = true
		}
	}
	var ds []byte
	for _, d := range []byte("12345678") {
		if set[d] && len(ds) < 5 {
			ds = append(ds, d)
		}
	}
	r.Shuffle(len(ds), func(i, j int) { ds[i], ds[j] = ds[j], ds[i] })
	return "w" + string(ds)
}

func randCase(r *rand.Rand) tcase {
	c := tcase{mode: 'H', nf: 2}
	switch r.Intn(20) {
	case 0:
		c.mode = 'N'
	case 1:
		c.mode = 'S'
	case 4:
		c.mode = 'G'
	case 2:
		c.nf = 3
	case 3:
		c.nf = 1
	}
	if emitNoPURL && r.Intn(8) == 0 {
		c.noPURL = true
	}
	if c.cancel == 0 && r.Intn(5) == 0 {
		c.after = "imesc"[r.Intn(5)]
	}
	if emitTwoExtractors && r.Intn(6) == 0 {
		c.two = true
	}
	linky := r.Intn(4) == 0 // a quarter of the cases replace locations by symlinks now and then
	deep := r.Intn(3) == 0  // a third delete / replace ancestor directories now and then
	if r.Intn(6) == 0 {
		c.cancel = 1 + r.Intn(2)
		if r.Intn(4) == 0 {
			c.cancel = 1 + r.Intn(6)
		}
	}
	n := 1 + r.Intn(6)
	last := make([]string, c.nf) // last write per file ("" = none / deleted)
	for i := 0; i < n; i++ {
		if r.Intn(5) == 0 {
			c.layers = append(c.layers, layer{empty: true})
			continue
		}
		l := layer{ops: make([]string, c.nf)}
		for f := 0; f < c.nf; f++ {
			switch x := r.Intn(10); {
			case x < 3:
				l.ops[f] = "k"
			case x < 5:
				l.ops[f] = "d"
				last[f] = ""
			case x == 5 && linky && emitRetarget && last[f] != "" && (last[f][0] == 's' || last[f][0] == 't') && r.Intn(2) == 0:
				l.ops[f] = "t" + randPkgs(r, last[f])[1:]
				last[f] = l.ops[f]
			case x == 5 && linky:
				l.ops[f] = "s" + randPkgs(r, last[f])[1:]
				last[f] = l.ops[f]
			case x == 6 && deep:
				// delete or replace an ancestor directory at any level above the file
				depth := len(strings.Split(files[f], "/")) - 1
				l.ops[f] = fmt.Sprintf("%c%d", "aarrllh"[r.Intn(7)], 1+r.Intn(depth))
				last[f] = ""
			default:
				l.ops[f] = randPkgs(r, last[f])
				last[f] = l.ops[f]
			}
		}
		c.layers = append(c.layers, l)
	}
	return c
}

// exhaustive: every history of 1..4 entries over ONE file with the packages 1 = p1@1, 5 = p1@2 (same name,
// two versions) and 2 = p2@1: each entry is an empty layer, or a layer that keeps / deletes / writes {} {1}
// {5} {1,5} {5,1} {1,2} / symlinks to {1} {1,5}; each once without cancellation and (3-4 entries) once
// cancelled after the first re-extraction. a<n> / r<n>: the directory n levels above the file (three deep) is deleted /
// replaced by a regular file.
func exhaustive(emit func(tcase)) {
	opts := []string{"E", "k", "d", "w", "w1", "w5", "w15", "w51", "w12", "s1", "s15", "a1", "a2", "a3", "r2", "l2"}
	for n := 1; n <= 4; n++ {
		total := 1
		for i := 0; i < n; i++ {
			total *= len(opts)
		}
		for code := 0; code < total; code++ {
			c := tcase{mode: 'H', nf: 1}
			x := code
			for i := 0; i < n; i++ {
				o := opts[x%len(opts)]
				x /= len(opts)
				if o == "E" {
					c.layers = append(c.layers, layer{empty: true})
				} else {
					c.layers = append(c.layers, layer{ops: []string{o}})
				}
			}
			emit(c)
			if n >= 3 {
				c2 := c
				c2.cancel = 1
				emit(c2)
			}
		}
	}
}

// ---------------------------------------------------------------- the "sizes" stream (verdict: C10)
//
// sz <limit> <maxinodes> <op>,<op>,…   op = E (empty layer) | k | d | w<bytes>: ONE package file that every
// writing layer fills with the same single package and pads to the given size. The real scalibr.ScanContainer runs
// with MaxFileSize = limit and MaxInodes = maxinodes; the reply lists the byte count handed to every Extract call.

// inodeCounter counts the inode visits of the package file (main walk and every re-run of the trace).
type inodeCounter struct {
	stats.NoopCollector
	visits int
}

func (c *inodeCounter) AfterInodeVisited(path string) {
	if path == files[0] {
		c.visits++
	}
}

func runSizes(l string) string {
	return hx.Guard(func() string {
		t := strings.Split(l, " ")
		if len(t) != 4 {
			panic("bad sizes case: " + l)
		}
		limit, err1 := strconv.Atoi(t[1])
		inodes, err2 := strconv.Atoi(t[2])
		if err1 != nil || err2 != nil {
			panic("bad sizes case: " + l)
		}
		img := v1.Image(empty.Image)
		for i, op := range strings.Split(t[3], ",") {
			h := v1.History{CreatedBy: fmt.Sprintf("cmd%d", i), EmptyLayer: op == "E"}
			var err error
			if op == "E" {
				img, err = mutate.Append(img, mutate.Addendum{History: h})
			} else {
				es := []imgx.TarEnt{{Name: fmt.Sprintf("other%d", i), Typ: tar.TypeReg, Body: strconv.Itoa(i)}}
				switch {
				case op == "k":
				case op == "d":
					es = append(es, imgx.TarEnt{Name: imgx.WhName(files[0]), Typ: tar.TypeReg})
				case op[0] == 'w':
					n, err := strconv.Atoi(op[1:])
					if err != nil || n < 5 || n == 6 {
						panic("bad size: " + op) // "p1 1\n" is 5 bytes; padding adds at least "#\n"
					}
					body := "p1 1\n"
					if n > 5 {
						body += strings.Repeat("#", n-6) + "\n"
					}
					es = append(es, imgx.TarEnt{Name: files[0], Typ: tar.TypeReg, Body: body})
				default:
					panic("op " + op)
				}
				img, err = mutate.Append(img, mutate.Addendum{Layer: imgx.MkLayer(es), History: h})
			}
			if err != nil {
				panic(err)
			}
		}
		im, err := image.FromV1Image(img, image.DefaultConfig())
		if err != nil {
			return "loaderr"
		}
		defer im.CleanUp()
		calls := 0
		var sizes []int
		ic := &inodeCounter{}
		res, err := scalibr.New().ScanContainer(context.Background(), im, &scalibr.ScanConfig{
			FilesystemExtractors: []filesystem.Extractor{pkgex{calls: &calls, sizes: &sizes}}, Capabilities: &plugin.Capabilities{},
			MaxFileSize: limit, MaxInodes: inodes, Stats: ic})
		if err != nil {
			return "scanerr"
		}
		// the trace's re-runs visit exactly the package file: its visits beyond the one of the main walk
		runs := ic.visits
		if fi, err := im2final(im); err == nil && fi {
			runs--
		}
		ss := make([]string, len(sizes))
		for i, s := range sizes {
			ss[i] = strconv.Itoa(s)
		}
		return fmt.Sprintf("sizes=%s runs=%d pkgs=%d status=%s", hx.Join(ss, "."), runs, len(res.Inventory.Packages), res.Status.String())
	})
}

// im2final: does the package file exist in the final view (then the main walk visits it once)?
func im2final(im *image.Image) (bool, error) {
	cls, err := im.ChainLayers()
	if err != nil || len(cls) == 0 {
		return false, err
	}
	_, err = cls[len(cls)-1].FS().Stat(files[0])
	return err == nil, nil
}

func randSizes(r *rand.Rand) string {
	limits := []int{0, 5, 7, 8, 16, 17, 40, 4096}
	limit := limits[r.Intn(len(limits))]
	inodes := []int{0, 50, 1000}[r.Intn(3)]
	size := func() int {
		var s int
		switch r.Intn(4) {
		case 0: // around the limit: L-1, L, L+1
			s = limit - 1 + r.Intn(3)
		case 1:
			s = 5 + r.Intn(40)
		case 2:
			s = limit + 1 + r.Intn(30)
		default:
			s = 5 + r.Intn(12)
		}
		if s < 5 {
			s = 5
		}
		if s == 6 {
			s = 7
		}
		return s
	}
	n := 1 + r.Intn(6)
	ops := make([]string, n)
	for i := range ops {
		switch x := r.Intn(10); {
		case x < 1:
			ops[i] = "E"
		case x < 3:
			ops[i] = "k"
		case x < 4:
			ops[i] = "d"
		default:
			ops[i] = "w" + strconv.Itoa(size())
		}
	}
	// mostly let the final version be within the limit (otherwise nothing is reported and nothing is traced), with
	// older versions on both sides of it
	if limit >= 5 && r.Intn(10) < 7 {
		for i := n - 1; i >= 0; i-- {
			if ops[i][0] == 'w' {
				s := limit - r.Intn(3)
				if s < 5 || s == 6 {
					s = 5
				}
				ops[i] = "w" + strconv.Itoa(s)
				break
			}
			if ops[i] == "d" {
				break
			}
		}
	}
	return fmt.Sprintf("sz %d %d %s", limit, inodes, strings.Join(ops, ","))
}

func main() {
	inproc := flag.Bool("inproc", false, "run every case in this process (worker mode)")
	only := flag.String("only", "", "sizes: the MaxFileSize stream of C10 instead of the attribution stream")
	also := flag.String("also", "", "sizes stream: case file whose sz lines are run first (the witnesses, when C10 borrows the stream)")
	o := hx.Parse()
	dispatch := func(l string) string {
		if strings.HasPrefix(l, "sz ") {
			return runSizes(l)
		}
		return hx.Guard(func() string { return run(parseCase(l)) })
	}
	if *only == "sizes" {
		imgx.Main("c05gen", func(scratch string, out *hx.Out) {
			var lines []string
			if o.Replay != "" {
				lines = hx.ReplayLines(o.Replay)
			} else {
				if *also != "" {
					for _, l := range hx.ReplayLines(*also) {
						if strings.HasPrefix(l, "sz ") {
							lines = append(lines, l)
						}
					}
				}
				r := hx.Rng(o)
				for i := 0; i < o.N; i++ {
					lines = append(lines, randSizes(r))
				}
			}
			imgx.RunAll(lines, dispatch, scratch, *inproc, out)
		})
		return
	}
	imgx.Main("c05gen", func(scratch string, out *hx.Out) {
		var lines []string
		if o.Replay != "" {
			lines = hx.ReplayLines(o.Replay)
		} else {
			if o.Tier == "thorough" {
				exhaustive(func(c tcase) { lines = append(lines, c.line()) })
			}
			r := hx.Rng(o)
			for i := 0; i < o.N; i++ {
				lines = append(lines, randCase(r).line())
			}
		}
		imgx.RunAll(lines, dispatch, scratch, *inproc, out)
	})
}
