// share / nilcaps / cli: configurations that are built FROM SHARED PARTS or with parts left out, and the configuration the command line builds.
//
// share <caps> <hex fs names> <hex detectors of A> <hex detectors of B>
//
//	ONE capability-filtered extractor list (el.FilterByCapabilities / sl.FilterByCapabilities of the named selection) is put into
//	TWO scan configurations with different detectors; both call EnableRequiredExtractors (A first). A's enabled extractors are read
//	right after A's call (ena=) and AGAIN after B's call (ena2=): what B enables must not change A's configuration.
//	-> ena=<fs names|standalone names, sorted> enb=<…> ena2=<…> spare=<spare capacity of the shared filesystem slice>
//
// nilcaps <val|flt|one> <req>
//
//	ScanConfig.Capabilities / the capabilities argument left nil: ValidatePluginRequirements (val), list.FilterByCapabilities (flt),
//	plugin.ValidateRequirements (one) on a stand-in plugin with the given requirements.  -> nres=<ok|err|drop|panic>
//
// cli <offline 0|1> <hex govulncheck db path> <hex extractor names> <hex detector names>
//
//	the configuration binary/cli builds from flags with --filter-by-capabilities (plugins are configured from flags, then filtered):
//	EnableRequiredExtractors + ValidatePluginRequirements on it.  -> cres=<ok|flagerr|missing|invalid:…> cdup=<plugin names that occur twice>
package main

import (
	"os"
	"sort"
	"strings"

	scalibr "github.com/google/osv-scalibr"
	"github.com/google/osv-scalibr/binary/cli"
	dl "github.com/google/osv-scalibr/detector/list"
	"github.com/google/osv-scalibr/extractor/filesystem"
	el "github.com/google/osv-scalibr/extractor/filesystem/list"
	"github.com/google/osv-scalibr/extractor/standalone"
	sl "github.com/google/osv-scalibr/extractor/standalone/list"
	"github.com/google/osv-scalibr/plugin"

	"verif/harness/hx"
)

func cfgNames(cfg *scalibr.ScanConfig) string {
	var fn, sn []string
	for _, p := range cfg.FilesystemExtractors {
		fn = append(fn, hx.Hex(p.Name()))
	}
	for _, p := range cfg.StandaloneExtractors {
		sn = append(sn, hx.Hex(p.Name()))
	}
	return sortedJoin(fn) + "|" + sortedJoin(sn)
}

func runShare(t []string) string {
	if len(t) != 5 {
		return "bad-op"
	}
	c := capsOf(t[1])
	exs, e1 := el.ExtractorsFromNames(unhexList(t[2]))
	sts, e2 := sl.ExtractorsFromNames([]string{"all"})
	da, e3 := dl.DetectorsFromNames(unhexList(t[3]))
	db, e4 := dl.DetectorsFromNames(unhexList(t[4]))
	if e1 != nil || e2 != nil || e3 != nil || e4 != nil {
		return "ena=badname enb=badname ena2=badname"
	}
	shared, sshared := el.FilterByCapabilities(exs, &c), sl.FilterByCapabilities(sts, &c)
	ca, cb := c, c
	a := &scalibr.ScanConfig{FilesystemExtractors: shared, StandaloneExtractors: sshared, Detectors: da, Capabilities: &ca}
	b := &scalibr.ScanConfig{FilesystemExtractors: shared, StandaloneExtractors: sshared, Detectors: db, Capabilities: &cb}
	ena, enb := "err", "err"
	erra := a.EnableRequiredExtractors()
	if erra == nil {
		ena = cfgNames(a)
	}
	if b.EnableRequiredExtractors() == nil {
		enb = cfgNames(b)
	}
	ena2 := "err"
	if erra == nil {
		ena2 = cfgNames(a)
	}
	return "ena=" + ena + " enb=" + enb + " ena2=" + ena2 + " spare=" + hx.B(cap(shared) > len(shared))
}

func runNilCaps(t []string) (reply string) {
	if len(t) != 3 {
		return "bad-op"
	}
	p := fakeFS{fake{"p", capsOf(t[2])}}
	defer func() {
		if recover() != nil {
			reply = "nres=panic"
		}
	}()
	switch t[1] {
	case "val":
		cfg := &scalibr.ScanConfig{FilesystemExtractors: []filesystem.Extractor{p}}
		if cfg.ValidatePluginRequirements() != nil {
			return "nres=err"
		}
		return "nres=ok"
	case "flt":
		if len(el.FilterByCapabilities([]filesystem.Extractor{p}, nil)) == 1 && len(sl.FilterByCapabilities([]standalone.Extractor{fakeST{p.fake}}, nil)) == 1 {
			return "nres=ok"
		}
		return "nres=err" // dropped: its requirements are not met
	case "one":
		if plugin.ValidateRequirements(p, nil) != nil {
			return "nres=err"
		}
		return "nres=ok"
	}
	return "bad-op"
}

// govreq <hex db path>: the requirements govulncheck/binary states once the command line has configured it with that database path
// -> net=<0 any|1 offline|2 online>
func runGovReq(t []string) string {
	if len(t) != 2 {
		return "bad-op"
	}
	f := &cli.Flags{Root: os.TempDir(), ResultFile: "r.textproto", GovulncheckDBPath: hx.UnHex(t[1]), DetectorsToRun: []string{"govulncheck/binary"}}
	cfg, err := f.GetScanConfig()
	if err != nil || len(cfg.Detectors) != 1 {
		return "net=?"
	}
	return "net=" + string(rune('0'+int(cfg.Detectors[0].Requirements().Network)))
}

var cliRoot string

func runCLI(t []string) string {
	if len(t) != 5 {
		return "bad-op"
	}
	if cliRoot == "" {
		d, err := os.MkdirTemp("", "c19cli")
		if err != nil {
			panic(err)
		}
		cliRoot = d
	}
	f := &cli.Flags{Root: cliRoot, ResultFile: cliRoot + "/r.textproto", Offline: t[1] == "1", GovulncheckDBPath: hx.UnHex(t[2]),
		ExtractorsToRun: unhexList(t[3]), DetectorsToRun: unhexList(t[4]), FilterByCapabilities: true}
	cfg, err := f.GetScanConfig()
	if err != nil {
		return "cres=flagerr cdup=- why=" + hx.Hex(err.Error())
	}
	seen := map[string]int{}
	for _, p := range cfg.FilesystemExtractors {
		seen["fs "+p.Name()]++
	}
	for _, p := range cfg.StandaloneExtractors {
		seen["st "+p.Name()]++
	}
	for _, p := range cfg.Detectors {
		seen["det "+p.Name()]++
	}
	var dup []string
	for k, n := range seen {
		if n > 1 {
			dup = append(dup, hx.Hex(k))
		}
	}
	sort.Strings(dup)
	r := preTail(cfg)
	r = strings.SplitN(strings.TrimPrefix(r, "res="), " ", 2)[0]
	return "cres=" + r + " cdup=" + hx.Join(dup, ",")
}
