// `enab` cases of c19gen: auto-enabling of required extractors, observed through a real scalibr.New().Scan.
//
//	enab <explicit fs names|-> <explicit standalone names|-> <det ('|' det)*>      det := '-' | hexname (',' hexname)*
//
// 1..4 inert detectors declare the given RequiredExtractors() lists over REAL extractor names (overlapping between
// detectors, repeated inside one list, some enabled explicitly already, filesystem and standalone kinds, unknown names);
// the scan runs over an in-memory tree holding one file for each of six filesystem extractors (enableTree). Reported:
//
//	res=<ok|missing:hexname>  en=<fs names after EnableRequiredExtractors, in order>|<standalone names, in order>
//	calls=<extractor:Extract calls, counted by a stats.Collector>  dup=<1: some package occurs more than once in the inventory>
//	pk=<extractor:packages>  stat=<plugin name:status entries>  scan=<ok|failed>
package main

import (
	"context"
	"fmt"
	"sort"
	"strings"
	"testing/fstest"
	"time"

	scalibr "github.com/google/osv-scalibr"
	"github.com/google/osv-scalibr/detector"
	"github.com/google/osv-scalibr/extractor/filesystem"
	el "github.com/google/osv-scalibr/extractor/filesystem/list"
	"github.com/google/osv-scalibr/extractor/standalone"
	sl "github.com/google/osv-scalibr/extractor/standalone/list"
	scalibrfs "github.com/google/osv-scalibr/fs"
	"github.com/google/osv-scalibr/plugin"
	"github.com/google/osv-scalibr/stats"

	"verif/harness/hx"
)

// one required file per extractor (lean/Drivers/C19.lean `enableFiles` lists the same six names)
var enableTree = map[string]string{
	"site/x-1.0.dist-info/METADATA": "Metadata-Version: 2.1\nName: x\nVersion: 1.0\n",                     // python/wheelegg
	"req/requirements.txt":          "a==1.0\n",                                                           // python/requirements
	"js/package.json":               `{"name":"j","version":"1.0.0"}`,                                     // javascript/packagejson
	"go/go.mod":                     "module example.com/m\n\ngo 1.20\n\nrequire github.com/a/b v1.2.3\n", // go/gomod
	"rs/Cargo.lock":                 "[[package]]\nname = \"c\"\nversion = \"1.0.0\"\n",                   // rust/cargolock
	"var/lib/dpkg/status":           "Package: d\nStatus: install ok installed\nVersion: 1.0\n\n",         // os/dpkg
}

var enableFS = []string{"python/wheelegg", "python/requirements", "javascript/packagejson", "go/gomod", "rust/cargolock", "os/dpkg"}
var enableST = []string{"windows/dismpatch", "windows/ospackages", "windows/regosversion"} // inert on this platform: Extract returns an error

type countCollector struct {
	stats.NoopCollector
	calls map[string]int
}

func (c *countCollector) AfterExtractorRun(name string, _ time.Duration, _ error) { c.calls[name]++ }

func enableRoots() []*scalibrfs.ScanRoot {
	m := fstest.MapFS{}
	for p, content := range enableTree {
		m[p] = &fstest.MapFile{Data: []byte(content)}
	}
	return []*scalibrfs.ScanRoot{{FS: m, Path: ""}}
}

func countsStr(m map[string]int) string {
	var o []string
	for k, v := range m {
		o = append(o, fmt.Sprintf("%s:%d", hx.Hex(k), v))
	}
	sort.Strings(o)
	return hx.Join(o, ",")
}

func runEnable(t []string) string {
	if len(t) != 4 {
		return "bad-op"
	}
	build := func() (*scalibr.ScanConfig, bool) {
		cfg := &scalibr.ScanConfig{Capabilities: &plugin.Capabilities{OS: plugin.OSLinux}, ScanRoots: enableRoots()}
		for _, n := range unhexList(t[1]) {
			e, err := el.ExtractorFromName(n)
			if err != nil {
				return nil, false
			}
			cfg.FilesystemExtractors = append(cfg.FilesystemExtractors, e)
		}
		for _, n := range unhexList(t[2]) {
			e, err := sl.ExtractorFromName(n)
			if err != nil {
				return nil, false
			}
			cfg.StandaloneExtractors = append(cfg.StandaloneExtractors, e)
		}
		for i, d := range strings.Split(t[3], "|") {
			cfg.Detectors = append(cfg.Detectors, fakeDet{fake{fmt.Sprintf("fd%d", i), plugin.Capabilities{}}, unhexList(d)})
		}
		return cfg, true
	}
	// (1) the enabled lists after the real EnableRequiredExtractors
	cfg, ok := build()
	if !ok {
		return "res=badname"
	}
	res := "ok"
	if err := cfg.EnableRequiredExtractors(); err != nil {
		res = "missing:" + hx.Hex(quoted(err.Error(), "required extractor "))
	}
	names := func(fs []filesystem.Extractor, st []standalone.Extractor) string {
		var a, b []string
		for _, e := range fs {
			a = append(a, hx.Hex(e.Name()))
		}
		for _, e := range st {
			b = append(b, hx.Hex(e.Name()))
		}
		return hx.Join(a, ",") + "|" + hx.Join(b, ",")
	}
	en := "-|-"
	if res == "ok" {
		en = names(cfg.FilesystemExtractors, cfg.StandaloneExtractors)
	}
	// (2) a real Scan from a fresh configuration (Scan enables the required extractors itself)
	cfg2, _ := build()
	col := &countCollector{calls: map[string]int{}}
	cfg2.Stats = col
	sr := scalibr.New().Scan(context.Background(), cfg2)
	scan := "ok"
	if sr.Status.Status != plugin.ScanStatusSucceeded {
		scan = "failed"
	}
	mult := map[string]int{}
	perEx := map[string]int{}
	maxm := 0
	for _, p := range sr.Inventory.Packages {
		k := p.Extractor.Name() + "\x00" + p.Name + "\x00" + p.Version + "\x00" + strings.Join(p.Locations, ",")
		mult[k]++
		if mult[k] > maxm {
			maxm = mult[k]
		}
		perEx[p.Extractor.Name()]++
	}
	stat := map[string]int{}
	for _, s := range sr.PluginStatus {
		stat[s.Name]++
	}
	return fmt.Sprintf("res=%s en=%s calls=%s dup=%s pk=%s stat=%s scan=%s", res, en, countsStr(col.calls), hx.B(maxm > 1), countsStr(perEx), countsStr(stat), scan)
}

var _ detector.Detector = fakeDet{}
