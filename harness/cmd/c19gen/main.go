// c19gen: correspondence stream for C19 — the real plugin.ValidateRequirements, the three list
// packages (FromCapabilities, FilterByCapabilities, …FromNames, ExtractorFromName) and
// ScanConfig.EnableRequiredExtractors / ValidatePluginRequirements against the Lean model over the
// regenerated registry. Case grammar: see lean/Drivers/C19.lean.
//
// The finite spaces of the property are enumerated in BOTH tiers: all 60×60 (requirement,
// capability) pairs, FromCapabilities of the three registries for all 60 capability tuples, every
// registered key of the three name tables, every plugin's exact name, the pre-scan check for all 60
// tuples on the filtered registry, every detector's required extractors. Random cases (name lists
// with unknown names and duplicates, filters over hand-made plugin lists, pre-scan checks of
// arbitrary selections with and without filtering) come on top; thorough just has more of them.
package main

import (
	"archive/tar"
	"context"
	"flag"
	"fmt"
	"math/rand"
	"os"
	"sort"
	"strconv"
	"strings"
	"testing/fstest"

	v1 "github.com/google/go-containerregistry/pkg/v1"
	"github.com/google/go-containerregistry/pkg/v1/empty"
	v1mutate "github.com/google/go-containerregistry/pkg/v1/mutate"
	scalibr "github.com/google/osv-scalibr"
	"github.com/google/osv-scalibr/artifact/image/layerscanning/image"
	"github.com/google/osv-scalibr/detector"
	dl "github.com/google/osv-scalibr/detector/list"
	"github.com/google/osv-scalibr/extractor"
	"github.com/google/osv-scalibr/extractor/filesystem"
	el "github.com/google/osv-scalibr/extractor/filesystem/list"
	"github.com/google/osv-scalibr/extractor/standalone"
	sl "github.com/google/osv-scalibr/extractor/standalone/list"
	scalibrfs "github.com/google/osv-scalibr/fs"
	"github.com/google/osv-scalibr/inventory"
	"github.com/google/osv-scalibr/packageindex"
	"github.com/google/osv-scalibr/plugin"
	"github.com/google/osv-scalibr/purl"

	"verif/harness/hx"
	"verif/harness/imgx"
)

// ---- fake plugins of the three kinds with arbitrary requirements

type fake struct {
	name string
	req  plugin.Capabilities
}

func (f fake) Name() string                       { return f.name }
func (f fake) Version() int                       { return 0 }
func (f fake) Requirements() *plugin.Capabilities { c := f.req; return &c }

type fakeFS struct{ fake }

func (fakeFS) FileRequired(filesystem.FileAPI) bool { return false }
func (fakeFS) Extract(context.Context, *filesystem.ScanInput) (inventory.Inventory, error) {
	return inventory.Inventory{}, nil
}
func (fakeFS) ToPURL(*extractor.Package) *purl.PackageURL { return nil }
func (fakeFS) Ecosystem(*extractor.Package) string        { return "" }

type fakeST struct{ fake }

func (fakeST) Extract(context.Context, *standalone.ScanInput) (inventory.Inventory, error) {
	return inventory.Inventory{}, nil
}
func (fakeST) ToPURL(*extractor.Package) *purl.PackageURL { return nil }
func (fakeST) Ecosystem(*extractor.Package) string        { return "" }

type fakeDet struct {
	fake
	required []string
}

func (d fakeDet) RequiredExtractors() []string { return d.required }
func (fakeDet) Scan(context.Context, *scalibrfs.ScanRoot, *packageindex.PackageIndex) ([]*detector.Finding, error) {
	return nil, nil
}

// ---- encodings

func capsOf(s string) plugin.Capabilities {
	if len(s) != 4 {
		panic("bad caps " + s)
	}
	return plugin.Capabilities{OS: plugin.OS(s[0] - '0'), Network: plugin.Network(s[1] - '0'), DirectFS: s[2] == '1', RunningSystem: s[3] == '1'}
}

func capsStr(c *plugin.Capabilities) string {
	return fmt.Sprintf("%d%d%s%s", int(c.OS), int(c.Network), hx.B(c.DirectFS), hx.B(c.RunningSystem))
}

func allCaps() []string {
	var out []string
	for o := 0; o < 5; o++ {
		for n := 0; n < 3; n++ {
			for d := 0; d < 2; d++ {
				for r := 0; r < 2; r++ {
					out = append(out, fmt.Sprintf("%d%d%d%d", o, n, d, r))
				}
			}
		}
	}
	return out
}

var errCodes = []struct{ sub, code string }{
	{"needs to run on Unix system but scan environment is non-Unix", "U"},
	{"needs to run on a different OS than that of the scan environment", "O"},
	{"needs network access but scan environment doesn't provide it", "N"},
	{"should only run offline but the scan environment provides network access", "F"},
	{"needs direct filesystem access but scan environment doesn't provide it", "D"},
	{"scanner isn't scanning the host it's run from directly", "R"},
}

// errsOf maps the error text to the list of complaint codes, in the order they occur in the text.
func errsOf(err error) string {
	if err == nil {
		return "-"
	}
	msg := err.Error()
	i := strings.Index(msg, "can't be enabled: ")
	if i < 0 {
		return "?"
	}
	var out []string
	for _, part := range strings.Split(msg[i+len("can't be enabled: "):], ", ") {
		code := "?"
		for _, ec := range errCodes {
			if part == ec.sub {
				code = ec.code
			}
		}
		out = append(out, code)
	}
	return hx.Join(out, ",")
}

func entry(p plugin.Plugin) string {
	var req []string
	if d, ok := p.(detector.Detector); ok {
		for _, e := range d.RequiredExtractors() {
			req = append(req, hx.Hex(e))
		}
	}
	return hx.Hex(p.Name()) + "/" + capsStr(p.Requirements()) + "/" + hx.Join(req, "+")
}

func sortedJoin(xs []string) string {
	sort.Strings(xs)
	return hx.Join(xs, ",")
}

func unhexList(s string) []string {
	if s == "-" || s == "" {
		return nil
	}
	var out []string
	for _, x := range strings.Split(s, ",") {
		out = append(out, hx.UnHex(x))
	}
	return out
}

func hexList(xs []string) string {
	o := make([]string, len(xs))
	for i, x := range xs {
		o[i] = hx.Hex(x)
	}
	return hx.Join(o, ",")
}

// ---- the implementation side of each request

func fromNames(kind string, names []string) ([]plugin.Plugin, error) {
	var out []plugin.Plugin
	switch kind {
	case "fs":
		xs, err := el.ExtractorsFromNames(names)
		if err != nil {
			return nil, err
		}
		for _, x := range xs {
			out = append(out, x)
		}
	case "st":
		xs, err := sl.ExtractorsFromNames(names)
		if err != nil {
			return nil, err
		}
		for _, x := range xs {
			out = append(out, x)
		}
	case "det":
		xs, err := dl.DetectorsFromNames(names)
		if err != nil {
			return nil, err
		}
		for _, x := range xs {
			out = append(out, x)
		}
	default:
		panic("kind " + kind)
	}
	return out, nil
}

// quoted extracts the %q-quoted name from an "unknown extractor %q" / "required extractor %q …" message.
func quoted(msg, prefix string) string {
	i := strings.Index(msg, prefix)
	if i < 0 {
		return "?"
	}
	rest := msg[i+len(prefix):]
	q, err := strconv.QuotedPrefix(rest)
	if err != nil {
		return "?"
	}
	s, err := strconv.Unquote(q)
	if err != nil {
		return "?"
	}
	return s
}

// preTail is the head of Scanner.Scan: EnableRequiredExtractors, then ValidatePluginRequirements.
func preTail(cfg *scalibr.ScanConfig) string {
	if err := cfg.EnableRequiredExtractors(); err != nil {
		return "res=missing:" + hx.Hex(quoted(err.Error(), "required extractor ")) + " fs=- st=-"
	}
	if err := cfg.ValidatePluginRequirements(); err != nil {
		var bad []string
		for _, l := range strings.Split(err.Error(), "\n") {
			l = strings.TrimPrefix(l, "plugin ")
			if i := strings.Index(l, " can't be enabled: "); i >= 0 {
				bad = append(bad, hx.Hex(l[:i]))
			} else {
				bad = append(bad, "?")
			}
		}
		return "res=invalid:" + sortedJoin(bad) + " fs=- st=-"
	}
	var fn, sn []string
	for _, p := range cfg.FilesystemExtractors {
		fn = append(fn, hx.Hex(p.Name()))
	}
	for _, p := range cfg.StandaloneExtractors {
		sn = append(sn, hx.Hex(p.Name()))
	}
	return "res=ok fs=" + sortedJoin(fn) + " st=" + sortedJoin(sn)
}

func run(line string) string {
	return hx.Guard(func() string {
		t := strings.Split(line, " ")
		switch t[0] {
		case "share":
			return runShare(t)
		case "nilcaps":
			return runNilCaps(t)
		case "cli":
			return runCLI(t)
		case "govreq":
			return runGovReq(t)
		case "val":
			c := capsOf(t[2])
			err := plugin.ValidateRequirements(fake{"p", capsOf(t[1])}, &c)
			return "errs=" + errsOf(err) + " ok=" + hx.B(err == nil)
		case "fromcaps":
			c := capsOf(t[2])
			var names []string
			switch t[1] {
			case "fs":
				for _, p := range el.FromCapabilities(&c) {
					names = append(names, hx.Hex(p.Name()))
				}
			case "st":
				for _, p := range sl.FromCapabilities(&c) {
					names = append(names, hx.Hex(p.Name()))
				}
			case "det":
				for _, p := range dl.FromCapabilities(&c) {
					names = append(names, hx.Hex(p.Name()))
				}
			}
			return "names=" + sortedJoin(names)
		case "filterl":
			c := capsOf(t[2])
			var reqs []string
			if t[3] != "-" {
				reqs = strings.Split(t[3], ";")
			}
			var kept []string
			switch t[1] {
			case "fs":
				var ps []filesystem.Extractor
				for i, r := range reqs {
					ps = append(ps, fakeFS{fake{strconv.Itoa(i), capsOf(r)}})
				}
				for _, p := range el.FilterByCapabilities(ps, &c) {
					kept = append(kept, p.Name())
				}
			case "st":
				var ps []standalone.Extractor
				for i, r := range reqs {
					ps = append(ps, fakeST{fake{strconv.Itoa(i), capsOf(r)}})
				}
				for _, p := range sl.FilterByCapabilities(ps, &c) {
					kept = append(kept, p.Name())
				}
			case "det":
				var ps []detector.Detector
				for i, r := range reqs {
					ps = append(ps, fakeDet{fake{strconv.Itoa(i), capsOf(r)}, nil})
				}
				for _, p := range dl.FilterByCapabilities(ps, &c) {
					kept = append(kept, p.Name())
				}
			}
			return "kept=" + hx.Join(kept, ",")
		case "seq":
			return runSeq(t)
		case "names":
			ps, err := fromNames(t[1], unhexList(t[3]))
			if err != nil {
				what := map[string]string{"fs": "unknown extractor ", "st": "unknown extractor ", "det": "unknown detector "}[t[1]]
				return "res=err:" + hx.Hex(quoted(err.Error(), what))
			}
			var es []string
			for _, p := range ps {
				es = append(es, entry(p))
			}
			return "res=ok:" + sortedJoin(es)
		case "name":
			n := hx.UnHex(t[2])
			var p plugin.Plugin
			var err error
			if t[1] == "fs" {
				p, err = el.ExtractorFromName(n)
			} else {
				p, err = sl.ExtractorFromName(n)
			}
			if err != nil {
				if strings.HasPrefix(err.Error(), "unknown extractor") {
					return "res=unknown"
				}
				return "res=notexact"
			}
			return "res=ok:" + entry(p)
		case "pre":
			c := capsOf(t[2])
			fsP, e1 := el.ExtractorsFromNames(unhexList(t[3]))
			stP, e2 := sl.ExtractorsFromNames(unhexList(t[4]))
			dP, e3 := dl.DetectorsFromNames(unhexList(t[5]))
			if e1 != nil || e2 != nil || e3 != nil {
				return "res=badname fs=- st=-"
			}
			if t[1] == "1" {
				fsP, stP, dP = el.FilterByCapabilities(fsP, &c), sl.FilterByCapabilities(stP, &c), dl.FilterByCapabilities(dP, &c)
			}
			return preTail(&scalibr.ScanConfig{FilesystemExtractors: fsP, StandaloneExtractors: stP, Detectors: dP, Capabilities: &c})
		case "prer":
			return runPreRoots(t)
		case "enab":
			return runEnable(t)
		case "pref":
			c := capsOf(t[1])
			return preTail(&scalibr.ScanConfig{Detectors: []detector.Detector{fakeDet{fake{"fakedet", capsOf(t[2])}, unhexList(t[3])}}, Capabilities: &c})
		case "reqd":
			ds, err := dl.DetectorsFromNames([]string{hx.UnHex(t[1])})
			if err != nil || len(ds) != 1 {
				return "ok=unknown"
			}
			d := ds[0]
			ok := true
			var bad []string
			for _, e := range d.RequiredExtractors() {
				ex, err1 := el.ExtractorFromName(e)
				stex, err2 := sl.ExtractorFromName(e)
				if err1 != nil && err2 != nil {
					ok = false
					bad = append(bad, hx.Hex(e)+"@unresolved")
					continue
				}
				for _, cs := range allCaps() {
					c := capsOf(cs)
					if plugin.ValidateRequirements(d, &c) != nil {
						continue
					}
					if (err1 == nil && plugin.ValidateRequirements(ex, &c) != nil) || (err2 == nil && plugin.ValidateRequirements(stex, &c) != nil) {
						ok = false
						bad = append(bad, hx.Hex(e)+"@"+cs)
					}
				}
			}
			return "ok=" + hx.B(ok) + " bad=" + hx.Join(bad, ",")
		case "uniq":
			seen := map[string]int{}
			n := 0
			for _, is := range el.All {
				for _, i := range is {
					seen[i().Name()]++
					n++
				}
			}
			for _, is := range sl.All {
				for _, i := range is {
					seen[i().Name()]++
					n++
				}
			}
			for _, is := range dl.All {
				for _, i := range is {
					seen[i().Name()]++
					n++
				}
			}
			var dup []string
			for k, v := range seen {
				for ; v > 1; v-- {
					dup = append(dup, hx.Hex(k))
				}
			}
			return fmt.Sprintf("n=%d dup=%s", n, sortedJoin(dup))
		}
		return "bad-op"
	})
}

// ---- the pre-scan check under different SCAN ROOT shapes, and a real Scan

var realRootDir string // a tiny real directory (created once, removed at exit)

// scanRoots builds the scan roots of a shape: n = none, r = one real directory, v = one virtual file system
// (ScanRoot{FS: …, Path: ""}, what ScanContainer and in-memory scans use), rv = both.
func scanRoots(shape string) []*scalibrfs.ScanRoot {
	real := func() *scalibrfs.ScanRoot { return scalibrfs.RealFSScanRoot(realRootDir) }
	virt := func() *scalibrfs.ScanRoot {
		return &scalibrfs.ScanRoot{FS: fstest.MapFS{"a.txt": &fstest.MapFile{Data: []byte("x")}, "d/b.txt": &fstest.MapFile{Data: []byte("y")}}, Path: ""}
	}
	switch shape {
	case "n":
		return nil
	case "r":
		return []*scalibrfs.ScanRoot{real()}
	case "v":
		return []*scalibrfs.ScanRoot{virt()}
	case "rv":
		return []*scalibrfs.ScanRoot{real(), virt()}
	case "c", "e": // a container image (e: one without layers): the configuration names no root, ScanContainer supplies the image's file system
		return nil
	}
	panic("shape " + shape)
}

// prer <shape> <flt> <caps> <fs names> <st names> <det names>: like `pre`, with scan roots of the given shape in the config,
// (1) the real EnableRequiredExtractors + ValidatePluginRequirements on the real plugins, (2) a real scalibr.New().Scan
// over those roots with stand-ins that carry each selected plugin's name, Requirements() and RequiredExtractors() but do
// nothing when run (the real detectors / standalone extractors would inspect this machine). The outcome of requirement
// validation must be a function of (capabilities, plugin requirements) only — not of the scan roots.
func runPreRoots(t []string) string {
	if len(t) != 7 {
		return "bad-op"
	}
	shape, c := t[1], capsOf(t[3])
	// a trailing p: the configuration also names a file to extract (PathsToExtract), which Scan allows with ONE scan root only
	var paths []string
	if strings.HasSuffix(shape, "p") {
		shape, paths = strings.TrimSuffix(shape, "p"), []string{"a.txt"}
	}
	fsP, e1 := el.ExtractorsFromNames(unhexList(t[4]))
	stP, e2 := sl.ExtractorsFromNames(unhexList(t[5]))
	dP, e3 := dl.DetectorsFromNames(unhexList(t[6]))
	if e1 != nil || e2 != nil || e3 != nil {
		return "res=badname fs=- st=- scan=-"
	}
	if t[2] == "1" {
		fsP, stP, dP = el.FilterByCapabilities(fsP, &c), sl.FilterByCapabilities(stP, &c), dl.FilterByCapabilities(dP, &c)
	}
	// stand-ins for the real Scan (built before EnableRequiredExtractors appends to the real lists)
	var fsF []filesystem.Extractor
	var stF []standalone.Extractor
	var dF []detector.Detector
	for _, p := range fsP {
		fsF = append(fsF, fakeFS{fake{p.Name(), *p.Requirements()}})
	}
	for _, p := range stP {
		stF = append(stF, fakeST{fake{p.Name(), *p.Requirements()}})
	}
	for _, p := range dP {
		dF = append(dF, fakeDet{fake{p.Name(), *p.Requirements()}, p.RequiredExtractors()})
	}
	res := preTail(&scalibr.ScanConfig{FilesystemExtractors: fsP, StandaloneExtractors: stP, Detectors: dP, Capabilities: &c, ScanRoots: scanRoots(shape), PathsToExtract: paths})
	c2 := c
	cfg2 := &scalibr.ScanConfig{FilesystemExtractors: fsF, StandaloneExtractors: stF, Detectors: dF, Capabilities: &c2, ScanRoots: scanRoots(shape), PathsToExtract: paths}
	var sr *scalibr.ScanResult
	if shape == "c" || shape == "e" {
		// the same pre-scan chain reached through ScanContainer (a one-layer image holding a.txt and d/b.txt)
		img, err := v1.Image(empty.Image), error(nil)
		if shape == "c" {
			img, err = v1mutate.Append(img, v1mutate.Addendum{History: v1.History{CreatedBy: "cmd0"}, Layer: imgx.MkLayer([]imgx.TarEnt{
				{Name: "a.txt", Typ: tar.TypeReg, Body: "x"}, {Name: "d", Typ: tar.TypeDir}, {Name: "d/b.txt", Typ: tar.TypeReg, Body: "y"}})})
		}
		if err != nil {
			panic(err)
		}
		im, err := image.FromV1Image(img, image.DefaultConfig())
		if err != nil {
			return res + " scan=loaderr"
		}
		defer im.CleanUp()
		if sr, err = scalibr.New().ScanContainer(context.Background(), im, cfg2); err != nil {
			if strings.Contains(err.Error(), "no chain layers found") {
				return res + " scan=nolayers"
			}
			return res + " scan=other"
		}
	} else {
		sr = scalibr.New().Scan(context.Background(), cfg2)
	}
	scan := "ok"
	if sr.Status.Status != plugin.ScanStatusSucceeded {
		msg := sr.Status.FailureReason
		switch {
		case strings.Contains(msg, "can't be enabled") || strings.Contains(msg, "not present in list.go"):
			scan = "prefail"
		case strings.Contains(msg, "no scan root specified"):
			scan = "noroot"
		case strings.Contains(msg, "can't extract specific files with several scan roots"):
			scan = "severalroots"
		default:
			scan = "other"
		}
	}
	return res + " scan=" + scan
}

// ---- operation sequences: a filter is a pure function

// seqRun filters ONE plugin slice with several capability tuples in a row. It records every call's result right after the
// call (r=), reads every earlier result again after all calls (after=) and reads the input slice at the end (input=): a
// filter must not mutate its argument nor what it returned earlier.
func seqRun[T plugin.Plugin](ps []T, filter func([]T, *plugin.Capabilities) []T, capsSeq []string, sorted bool) string {
	names := func(xs []T) string {
		o := make([]string, len(xs))
		for i, x := range xs {
			if sorted {
				o[i] = hx.Hex(x.Name())
			} else {
				o[i] = x.Name()
			}
		}
		if sorted {
			sort.Strings(o)
		}
		return hx.Join(o, ",")
	}
	var results [][]T
	var r []string
	for _, cs := range capsSeq {
		c := capsOf(cs)
		res := filter(ps, &c)
		results = append(results, res)
		r = append(r, names(res))
	}
	var after []string
	for _, res := range results {
		after = append(after, names(res))
	}
	return "r=" + strings.Join(r, "|") + " after=" + strings.Join(after, "|") + " input=" + names(ps)
}

// seq <kind> <l:req;req;… | n:hexname,… | c:caps> <caps;caps;…>
func runSeq(t []string) string {
	if len(t) != 4 || len(t[2]) < 2 {
		return "bad-op"
	}
	src, arg := t[2][0], t[2][2:]
	capsSeq := strings.Split(t[3], ";")
	var reqs []string
	if src == 'l' && arg != "-" {
		reqs = strings.Split(arg, ";")
	}
	switch t[1] {
	case "fs":
		var ps []filesystem.Extractor
		switch src {
		case 'l':
			for i, r := range reqs {
				ps = append(ps, fakeFS{fake{strconv.Itoa(i), capsOf(r)}})
			}
		case 'n':
			var err error
			if ps, err = el.ExtractorsFromNames(unhexList(arg)); err != nil {
				return "res=badname"
			}
		case 'c':
			c := capsOf(arg)
			ps = el.FromCapabilities(&c)
		}
		return seqRun(ps, el.FilterByCapabilities, capsSeq, src != 'l')
	case "st":
		var ps []standalone.Extractor
		switch src {
		case 'l':
			for i, r := range reqs {
				ps = append(ps, fakeST{fake{strconv.Itoa(i), capsOf(r)}})
			}
		case 'n':
			var err error
			if ps, err = sl.ExtractorsFromNames(unhexList(arg)); err != nil {
				return "res=badname"
			}
		case 'c':
			c := capsOf(arg)
			ps = sl.FromCapabilities(&c)
		}
		return seqRun(ps, sl.FilterByCapabilities, capsSeq, src != 'l')
	case "det":
		var ps []detector.Detector
		switch src {
		case 'l':
			for i, r := range reqs {
				ps = append(ps, fakeDet{fake{strconv.Itoa(i), capsOf(r)}, nil})
			}
		case 'n':
			var err error
			if ps, err = dl.DetectorsFromNames(unhexList(arg)); err != nil {
				return "res=badname"
			}
		case 'c':
			c := capsOf(arg)
			ps = dl.FromCapabilities(&c)
		}
		return seqRun(ps, dl.FilterByCapabilities, capsSeq, src != 'l')
	}
	return "bad-op"
}

// ---- generation

func contains(xs []string, x string) bool {
	for _, y := range xs {
		if y == x {
			return true
		}
	}
	return false
}

func keysOf[T any](m map[string][]T) []string {
	var out []string
	for k := range m {
		out = append(out, k)
	}
	sort.Strings(out)
	return out
}

func main() {
	only := flag.String("only", "", "restrict the stream: enab (auto-enabling observed through Scan, borrowed by C01)")
	o := hx.Parse()
	out := hx.NewOut()
	defer out.Flush()
	var err error
	if realRootDir, err = os.MkdirTemp("", "c19root"); err != nil {
		panic(err)
	}
	defer os.RemoveAll(realRootDir)
	_ = os.WriteFile(realRootDir+"/a.txt", []byte("x"), 0o644)
	emit := func(l string) { out.Emit(l, run(l)) }
	if o.Replay != "" {
		for _, l := range hx.ReplayLines(o.Replay) {
			emit(l)
		}
		return
	}
	caps := allCaps()
	keys := map[string][]string{"fs": keysOf(el.VerifNames()), "st": keysOf(sl.VerifNames()), "det": keysOf(dl.VerifNames())}
	plugins := map[string][]string{"fs": keysOf(el.All), "st": keysOf(sl.All), "det": keysOf(dl.All)}
	kinds := []string{"fs", "st", "det"}

	// auto-enabling (both tiers): 1..3 detectors whose RequiredExtractors() overlap / repeat / are enabled explicitly already /
	// are of the standalone kind / are unknown
	enabCases := func(n int, r *rand.Rand) {
		pool := append(append([]string{}, enableFS...), enableST...)
		hl := func(xs []string) string {
			o := make([]string, len(xs))
			for i, x := range xs {
				o[i] = hx.Hex(x)
			}
			return hx.Join(o, ",")
		}
		// systematic: every pool name required by two detectors (and twice inside one), with and without being enabled explicitly
		for _, p := range pool {
			emit("enab - - " + hl([]string{p}) + "|" + hl([]string{p}))
			emit("enab - - " + hl([]string{p, p}))
			emit("enab - - " + hl([]string{p, enableFS[0], p}) + "|" + hl([]string{enableFS[0]}) + "|" + hl([]string{p}))
			if contains(enableFS, p) {
				emit("enab " + hl([]string{p}) + " - " + hl([]string{p}) + "|" + hl([]string{p}))
			} else {
				emit("enab - " + hl([]string{p}) + " " + hl([]string{p}) + "|" + hl([]string{p}))
			}
		}
		emit("enab - - " + hl(enableFS) + "|" + hl(enableFS) + "|" + hl(enableST) + "|" + hl(pool))
		emit("enab - - " + hl([]string{"nope"}))
		emit("enab - - -|-")
		for i := 0; i < n; i++ {
			var fsx, stx []string
			for _, p := range enableFS {
				if r.Intn(5) == 0 {
					fsx = append(fsx, p)
				}
			}
			for _, p := range enableST {
				if r.Intn(6) == 0 {
					stx = append(stx, p)
				}
			}
			var ds []string
			for k := 1 + r.Intn(4); k > 0; k-- {
				var req []string
				for m := r.Intn(4); m > 0; m-- {
					switch {
					case r.Intn(40) == 0:
						req = append(req, "nope")
					case len(req) > 0 && r.Intn(4) == 0:
						req = append(req, req[r.Intn(len(req))])
					default:
						req = append(req, pool[r.Intn(len(pool))])
					}
				}
				ds = append(ds, hl(req))
			}
			emit("enab " + hl(fsx) + " " + hl(stx) + " " + strings.Join(ds, "|"))
		}
	}
	if *only == "enab" {
		enabCases(o.N, hx.Rng(o))
		return
	}
	enabCases(300, rand.New(rand.NewSource(o.Seed+7)))
	// overlapping name lists (both tiers): group + member, member + group, the same name twice, group + group, all + anything
	for _, k := range kinds {
		tab := map[string][]string{}
		for _, key := range keys[k] {
			ps, err := fromNames(k, []string{key})
			if err != nil {
				continue
			}
			for _, p := range ps {
				tab[key] = append(tab[key], p.Name())
			}
		}
		for _, g := range keys[k] {
			emit("names " + k + " k " + hx.Hex(g) + "," + hx.Hex(g))
			emit("names " + k + " k " + hx.Hex("all") + "," + hx.Hex(g))
			emit("names " + k + " k " + hx.Hex(g) + "," + hx.Hex("all"))
			if len(tab[g]) < 2 && (len(tab[g]) == 0 || tab[g][0] == g) {
				continue // a plugin's own name
			}
			ms := append([]string{}, tab[g]...)
			sort.Strings(ms)
			for i, m := range ms {
				if i%3 == 0 || len(ms) < 8 {
					emit("names " + k + " k " + hx.Hex(g) + "," + hx.Hex(m))
					emit("names " + k + " k " + hx.Hex(m) + "," + hx.Hex(g))
					emit("names " + k + " k " + hx.Hex(m) + "," + hx.Hex(g) + "," + hx.Hex(m))
				}
			}
			for _, g2 := range keys[k] {
				if g2 != g && len(tab[g2]) >= 2 {
					emit("names " + k + " k " + hx.Hex(g) + "," + hx.Hex(g2))
				}
			}
		}
	}

	// exhaustive part (both tiers)
	for _, r := range caps {
		for _, c := range caps {
			emit("val " + r + " " + c)
		}
	}
	for _, k := range kinds {
		for _, c := range caps {
			emit("fromcaps " + k + " " + c)
		}
		for _, key := range keys[k] {
			emit("names " + k + " k " + hx.Hex(key))
		}
	}
	for _, k := range []string{"fs", "st"} {
		// every key of BOTH extractor tables and of the detector table, looked up as an exact name in this table
		for _, k2 := range kinds {
			for _, key := range keys[k2] {
				emit("name " + k + " " + hx.Hex(key))
			}
		}
	}
	for _, c := range caps {
		emit("pre 1 " + c + " " + hx.Hex("all") + " " + hx.Hex("all") + " " + hx.Hex("all"))
		emit("pre 0 " + c + " " + hx.Hex("all") + " " + hx.Hex("all") + " " + hx.Hex("all"))
		emit("pre 1 " + c + " " + hx.Hex("default") + " " + hx.Hex("default") + " " + hx.Hex("all"))
		emit("pre 1 " + c + " - - " + hx.Hex("all"))
	}
	for _, d := range plugins["det"] {
		emit("reqd " + hx.Hex(d))
		// each detector alone, nothing else enabled, for every capability tuple, filtered and not
		for _, c := range caps {
			emit("pre 1 " + c + " - - " + hx.Hex(d))
			emit("pre 0 " + c + " - - " + hx.Hex(d))
		}
	}
	emit("uniq")
	// configurations built from SHARED parts (both tiers): one filtered extractor list in two configurations whose detectors require
	// different extractors; every ordered pair of detectors that require something, 5 selections, 4 capability tuples
	var requiring []string
	for _, d := range plugins["det"] {
		if ds, err := dl.DetectorsFromNames([]string{d}); err == nil && len(ds) == 1 && len(ds[0].RequiredExtractors()) > 0 {
			requiring = append(requiring, d)
		}
	}
	sort.Strings(requiring)
	for _, c := range []string{"1211", "1111", "1010", "0000"} {
		for _, sel := range []string{"os", "default", "python", "javascript", "all"} {
			for _, a := range requiring {
				for _, b := range requiring {
					if a != b {
						emit("share " + c + " " + hx.Hex(sel) + " " + hx.Hex(a) + " " + hx.Hex(b))
					}
				}
			}
			emit("share " + c + " " + hx.Hex(sel) + " " + hx.Hex("all") + " " + hx.Hex("all"))
		}
	}
	// capabilities left nil, at the three entry points, for every requirement tuple
	for _, k := range []string{"val", "flt", "one"} {
		for _, r := range caps {
			emit("nilcaps " + k + " " + r)
		}
	}
	emit("govreq -")
	emit("govreq " + hx.Hex("/db"))
	// the configuration the command line builds with --filter-by-capabilities
	for _, off := range []string{"0", "1"} {
		for _, db := range []string{"-", hx.Hex("/db")} {
			for _, ex := range []string{"default", "all", "os,os/dpkg", "python,python/wheelegg,go/binary", "go/binary", "windows", "os,default,all"} {
				for _, de := range append([]string{"all", "govulncheck/binary"}, requiring...) {
					emit("cli " + off + " " + db + " " + hx.Hex(ex) + " " + hx.Hex(de))
				}
			}
		}
	}
	// scan-root shapes (both tiers): the filtered registry, the filtered defaults and EVERY plugin alone, for every capability
	// tuple x {no root, a real directory, a virtual file system, both}: requirement validation and a real Scan
	for _, sh := range []string{"n", "r", "v", "rv", "np", "vp", "rvp", "c", "cp", "e"} {
		for _, c := range caps {
			if strings.HasSuffix(sh, "p") || sh == "c" || sh == "e" { // with PathsToExtract: the registry and the defaults only
				emit("prer " + sh + " 1 " + c + " " + hx.Hex("all") + " " + hx.Hex("all") + " " + hx.Hex("all"))
				emit("prer " + sh + " 1 " + c + " " + hx.Hex("default") + " " + hx.Hex("default") + " " + hx.Hex("all"))
				emit("prer " + sh + " 0 " + c + " " + hx.Hex("default") + " " + hx.Hex("default") + " " + hx.Hex("all"))
				continue
			}
			emit("prer " + sh + " 1 " + c + " " + hx.Hex("all") + " " + hx.Hex("all") + " " + hx.Hex("all"))
			emit("prer " + sh + " 1 " + c + " " + hx.Hex("default") + " " + hx.Hex("default") + " " + hx.Hex("all"))
			emit("prer " + sh + " 0 " + c + " " + hx.Hex("default") + " " + hx.Hex("default") + " " + hx.Hex("all"))
			for _, p := range plugins["fs"] {
				emit("prer " + sh + " 1 " + c + " " + hx.Hex(p) + " - -")
			}
			for _, p := range plugins["st"] {
				emit("prer " + sh + " 1 " + c + " - " + hx.Hex(p) + " -")
			}
			for _, p := range plugins["det"] {
				emit("prer " + sh + " 1 " + c + " - - " + hx.Hex(p))
			}
		}
	}
	// operation sequences (both tiers): the registry's `all` list, the `default` list and a FromCapabilities result, filtered
	// with every ordered pair of 10 representative capability tuples, and with three tuples in a row
	rep := []string{"0000", "1011", "1211", "2000", "2100", "3011", "1000", "1111", "2211", "3200"}
	for _, k := range kinds {
		for _, a := range rep {
			for _, b := range rep {
				if a != b {
					emit("seq " + k + " n:" + hx.Hex("all") + " " + a + ";" + b)
				}
			}
			emit("seq " + k + " n:" + hx.Hex("default") + " " + a + ";1011;2000")
			emit("seq " + k + " c:" + a + " 1011;2000;" + a)
			emit("seq " + k + " n:" + hx.Hex("all") + " " + a + ";2000;1011;" + a)
		}
	}
	// one hand-made detector: every registered exact name as its only required extractor, under a few
	// detector requirements, for every capability tuple (covers auto-enabling into an invalid configuration)
	for _, k := range []string{"fs", "st"} {
		for _, p := range plugins[k] {
			for _, c := range caps {
				emit("pref " + c + " 0000 " + hx.Hex(p))
				emit("pref " + c + " 1011 " + hx.Hex(p))
			}
		}
	}

	// random part
	r := hx.Rng(o)
	pick := func(xs []string) string { return xs[r.Intn(len(xs))] }
	randNames := func(k string, maxN int, unknownPct int) []string {
		n := r.Intn(maxN + 1)
		var ns []string
		for i := 0; i < n; i++ {
			switch {
			case r.Intn(100) < unknownPct:
				ns = append(ns, pick([]string{"nope", "", "os", "OS/dpkg", "os/dpkg ", "all,default", pick(keys[pick(kinds)])}))
			case r.Intn(3) == 0 && len(ns) > 0:
				ns = append(ns, pick(ns)) // duplicate
			default:
				ns = append(ns, pick(keys[k]))
			}
		}
		return ns
	}
	for i := 0; i < o.N; i++ {
		if i%6 == 5 {
			k := pick(kinds)
			n := 1 + r.Intn(7)
			var reqs, cs []string
			for j := 0; j < n; j++ {
				reqs = append(reqs, pick(caps))
			}
			for j := 2 + r.Intn(3); j > 0; j-- {
				cs = append(cs, pick(caps))
			}
			emit("seq " + k + " l:" + strings.Join(reqs, ";") + " " + strings.Join(cs, ";"))
			continue
		}
		switch r.Intn(5) {
		case 4:
			var ns []string
			for n := r.Intn(4); n > 0; n-- {
				ns = append(ns, pick([]string{pick(plugins["fs"]), pick(plugins["st"]), pick(plugins["fs"]), "nope", "all", pick(plugins["det"])}))
			}
			emit("pref " + pick(caps) + " " + pick(caps) + " " + hexList(ns))
		case 0:
			k := pick(kinds)
			emit("names " + k + " r " + hexList(randNames(k, 4, 8)))
		case 1:
			k := pick(kinds)
			n := r.Intn(7)
			var reqs []string
			for j := 0; j < n; j++ {
				reqs = append(reqs, pick(caps))
			}
			emit("filterl " + k + " " + pick(caps) + " " + hx.Join(reqs, ";"))
		case 2:
			emit("pre " + pick([]string{"0", "1", "1"}) + " " + pick(caps) + " " + hexList(randNames("fs", 3, 0)) + " " + hexList(randNames("st", 2, 0)) + " " + hexList(randNames("det", 3, 0)))
		case 3:
			k := pick([]string{"fs", "st"})
			emit("name " + k + " " + hx.Hex(pick([]string{pick(keys[k]), pick(plugins[k]), "nope", ""})))
		}
	}
}
