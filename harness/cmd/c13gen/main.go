// c13gen: correspondence streams for C13 (manifest writers).
//
// Case grammar (see lean/Drivers/C13.lean); every string is hex, "_" is the empty string, "-" the empty list:
//
//	npm <dev> <opt> <prod> <ups>          section = k:v,…   ups = name:knownAs|~:from:to,…
//	pp  <s1> <s2>
//	pom <projVersion> <deps> <props> <ups> deps = origin:g:a:typ:cls:ver:ws,… props = origin:name:value,… ups = g:a:typ:cls:origin:from:to,…
//
// A case line also carries a layout seed after "#" inside the first token? No: layout is a pure function of
// the case line (hash), so that -replay reproduces the same file bytes.
package main

import (
	"bytes"
	"encoding/hex"
	"encoding/json"
	"encoding/xml"
	"fmt"
	"hash/fnv"
	"io"
	"math/rand"
	"os"
	"path/filepath"
	"regexp"
	"slices"
	"sort"
	"strconv"
	"strings"

	"deps.dev/util/resolve"
	"deps.dev/util/resolve/dep"
	scalibrfs "github.com/google/osv-scalibr/fs"
	"github.com/google/osv-scalibr/guidedremediation"
	"github.com/google/osv-scalibr/guidedremediation/result"

	"verif/harness/hx"
	"verif/harness/remx"
)

func hs(s string) string {
	if s == "" {
		return "_"
	}
	return hex.EncodeToString([]byte(s))
}

func uhs(s string) string {
	if s == "_" {
		return ""
	}
	b, err := hex.DecodeString(s)
	if err != nil {
		panic(err)
	}
	return string(b)
}

func splitList(s, sep string) []string {
	if s == "-" || s == "" {
		return nil
	}
	return strings.Split(s, sep)
}

func layoutRng(caseLine string) *rand.Rand {
	h := fnv.New64a()
	h.Write([]byte(caseLine))
	return rand.New(rand.NewSource(int64(h.Sum64())))
}

var scratch string

// ---------------------------------------------------------------------------------------------- npm

type kv struct{ k, v string }
type npmUp struct {
	name, ka string
	hasKA    bool
	from, to string
}
type npmCase struct {
	sec [3][]kv // dev, opt, prod
	ups []npmUp
}

func secStr(s []kv) string {
	xs := make([]string, len(s))
	for i, e := range s {
		xs[i] = hs(e.k) + ":" + hs(e.v)
	}
	return hx.Join(xs, ",")
}

func (c npmCase) line() string {
	us := make([]string, len(c.ups))
	for i, u := range c.ups {
		ka := "~"
		if u.hasKA {
			ka = hs(u.ka)
		}
		us[i] = hs(u.name) + ":" + ka + ":" + hs(u.from) + ":" + hs(u.to)
	}
	return fmt.Sprintf("npm %s %s %s %s", secStr(c.sec[0]), secStr(c.sec[1]), secStr(c.sec[2]), hx.Join(us, ","))
}

func parseNpm(t []string) npmCase {
	var c npmCase
	for i := 0; i < 3; i++ {
		for _, e := range splitList(t[1+i], ",") {
			p := strings.Split(e, ":")
			c.sec[i] = append(c.sec[i], kv{uhs(p[0]), uhs(p[1])})
		}
	}
	for _, e := range splitList(t[4], ",") {
		p := strings.Split(e, ":")
		u := npmUp{name: uhs(p[0]), from: uhs(p[2]), to: uhs(p[3])}
		if p[1] != "~" {
			u.hasKA, u.ka = true, uhs(p[1])
		}
		c.ups = append(c.ups, u)
	}
	return c
}

var secNames = [3]string{"devDependencies", "optionalDependencies", "dependencies"}

// jsonStr writes a JSON string the way sjson does for values (raw unless it must be marshalled);
// keys use the same rule, which encoding/json and gjson both read back.
func jsonStr(s string) string {
	must := false
	for i := 0; i < len(s); i++ {
		if s[i] < ' ' || s[i] > 0x7f || s[i] == '"' || s[i] == '\\' {
			must = true
		}
	}
	if must {
		b, _ := json.Marshal(s)
		return string(b)
	}
	return `"` + s + `"`
}

// renderNpm lays the document out; the layout depends only on lr's stream, so rendering another
// document with a same-seeded lr gives the same bytes except for the values.
func renderNpm(sec [3][]kv, lr *rand.Rand) string {
	indent := []string{"  ", "    ", "\t", ""}[lr.Intn(4)]
	nl := "\n"
	if indent == "" {
		nl = ""
	}
	colon := []string{": ", ":", " : "}[lr.Intn(3)]
	type top struct{ key, val string }
	var tops []top
	tops = append(tops, top{"name", `"root.pkg"`}, top{"version", `"1.0.0"`})
	obj := func(es []kv, depth int) string {
		if len(es) == 0 {
			return "{}"
		}
		var sb strings.Builder
		sb.WriteString("{" + nl)
		for i, e := range es {
			sb.WriteString(strings.Repeat(indent, depth+1) + jsonStr(e.k) + colon + jsonStr(e.v))
			if i+1 < len(es) {
				sb.WriteString(",")
			}
			sb.WriteString(nl)
		}
		sb.WriteString(strings.Repeat(indent, depth) + "}")
		return sb.String()
	}
	present := [3]bool{}
	for i := 0; i < 3; i++ {
		// an empty section may be written as {} or left out; both read back as "no entries"
		present[i] = len(sec[i]) > 0 || lr.Intn(3) == 0
	}
	for i := 0; i < 3; i++ {
		if present[i] {
			tops = append(tops, top{secNames[i], obj(sec[i], 1)})
		}
	}
	if lr.Intn(2) == 0 {
		tops = append(tops, top{"peerDependencies", obj([]kv{{"socket.io", "^1.0.0"}, {"peer", "*"}}, 1)})
	}
	if lr.Intn(3) == 0 {
		tops = append(tops, top{"bundledDependencies", `["socket.io", "plain"]`})
	}
	if lr.Intn(3) == 0 {
		tops = append(tops, top{"config", `{"dependencies": {"plain": "0.0.1", "socket.io": "0.0.2"}, "a.b": [1, 2, {"c": null}]}`})
	}
	if lr.Intn(3) == 0 {
		tops = append(tops, top{"scripts", obj([]kv{{"test", "echo \"x\" && exit 1"}}, 1)})
	}
	lr.Shuffle(len(tops), func(i, j int) { tops[i], tops[j] = tops[j], tops[i] })
	var sb strings.Builder
	sb.WriteString("{" + nl)
	for i, t := range tops {
		sb.WriteString(indent + jsonStr(t.key) + colon + t.val)
		if i+1 < len(tops) {
			sb.WriteString(",")
		}
		sb.WriteString(nl)
	}
	sb.WriteString("}")
	if lr.Intn(2) == 0 {
		sb.WriteString("\n")
	}
	return sb.String()
}

// orderedSections parses the three dependency sections of a package.json in file order.
func orderedSections(b []byte) (out [3][]kv, err error) {
	dec := json.NewDecoder(bytes.NewReader(b))
	tok, err := dec.Token()
	if err != nil || tok != json.Delim('{') {
		return out, fmt.Errorf("not an object")
	}
	for dec.More() {
		kt, err := dec.Token()
		if err != nil {
			return out, err
		}
		key := kt.(string)
		idx := -1
		for i, n := range secNames {
			if n == key {
				idx = i
			}
		}
		if idx < 0 {
			var skip json.RawMessage
			if err := dec.Decode(&skip); err != nil {
				return out, err
			}
			continue
		}
		t2, err := dec.Token()
		if err != nil || t2 != json.Delim('{') {
			return out, fmt.Errorf("section not an object")
		}
		for dec.More() {
			k, err := dec.Token()
			if err != nil {
				return out, err
			}
			var v string
			if err := dec.Decode(&v); err != nil {
				return out, err
			}
			out[idx] = append(out[idx], kv{k.(string), v})
		}
		if _, err := dec.Token(); err != nil {
			return out, err
		}
	}
	return out, nil
}

func npmReqs(m guidedremediation.VerifManifest) string {
	var xs []string
	for _, r := range m.Requirements() {
		ka := "~"
		if k, ok := r.Type.GetAttr(dep.KnownAs); ok {
			ka = hs(k)
		}
		xs = append(xs, hs(r.Name)+":"+ka+":"+hs(r.Version))
	}
	sort.Strings(xs)
	return hx.Join(xs, ",")
}

// runNpm returns the requirement list the real Read reported before the write (it becomes the last token of the
// case line: the specification substitutes into THAT list) and the implementation's reply.
func runNpm(c npmCase, line string) (before string, reply string) {
	before = "-"
	reply = hx.Guard(func() string {
		dir, err := os.MkdirTemp(scratch, "n")
		must(err)
		defer os.RemoveAll(dir)
		src := renderNpm(c.sec, layoutRng(line))
		must(os.WriteFile(filepath.Join(dir, "package.json"), []byte(src), 0o644))
		rw, err := guidedremediation.VerifNpmReadWriter()
		must(err)
		m, err := rw.Read("package.json", scalibrfs.DirFS(dir))
		if err != nil {
			return "r=readerr"
		}
		before = npmReqs(m)
		var ups []result.PackageUpdate
		for _, u := range c.ups {
			ty := dep.NewType()
			if u.hasKA {
				ty.AddAttr(dep.KnownAs, u.ka)
			}
			ups = append(ups, result.PackageUpdate{Name: u.name, VersionFrom: u.from, VersionTo: u.to, Type: ty})
		}
		// half of the cases write back to the path the manifest was read from (as FixVulns does), half to a fresh path;
		// the result is always re-read from disk
		outRel := "out/package.json"
		if layoutRng(line+"#path").Intn(2) == 0 {
			outRel = "package.json"
		}
		out := filepath.Join(dir, filepath.FromSlash(outRel))
		var patches []result.Patch
		// spread the updates over one or two patches (the writer flattens them)
		if len(ups) > 1 && len(line)%2 == 0 {
			patches = []result.Patch{{PackageUpdates: ups[:1]}, {PackageUpdates: ups[1:]}}
		} else {
			patches = []result.Patch{{PackageUpdates: ups}}
		}
		if err := rw.Write(m, scalibrfs.DirFS(dir), patches, out); err != nil {
			if b, rerr := os.ReadFile(out); rerr == nil && string(b) != src {
				return "r=err-but-wrote"
			}
			return "r=err"
		}
		b, err := os.ReadFile(out)
		if err != nil {
			return "r=ok-nofile"
		}
		secs, err := orderedSections(b)
		if err != nil {
			return "r=ok-badjson"
		}
		m2, err := rw.Read(outRel, scalibrfs.DirFS(dir))
		if err != nil {
			return "r=ok-rereaderr"
		}
		same := renderNpm(secs, layoutRng(line)) == string(b)
		return fmt.Sprintf("r=ok dev=%s opt=%s prod=%s reqs=%s rb=%s bytes=%s", secStr(secs[0]), secStr(secs[1]), secStr(secs[2]), npmReqs(m2), before, hx.B(same))
	})
	if strings.HasPrefix(reply, "r=err") {
		reply += " rb=" + before
	}
	return before, reply
}

var npmNames = []string{"plain", "left-pad", "@scope/pkg", "@s/p.q", "socket.io", "lodash.merge", "x.y.z", "a*b", "what?", "p|q", "#hash", "!bang",
	"a:b", "{x}", "[0]", "0", "under_score", "a\\b", "k=v", "<lt>", "a%b", "ünï", "@at", "tr.ail.", ".lead", "q\"uote"}
var npmVers = []string{"^1.0.0", "~1.2.3", "1.0.0", "^2.0.0", "*", "latest", "", ">=1.0.0 <2.0.0", "1.x || 2.x"}
var npmAliasVals = []string{"npm:real@^1.0.0", "npm:@sc/real@~2.1.0", "npm:real@", "npm:other@1.0.0"}
var npmOddVals = []string{"npm:bare", "git+https://example.invalid/x.git", "file:../x", "user/repo", "npm:", "npm:@only"}
// targets of the same length as common old values (^1.0.0 -> ^9.0.0, ~1.2.3 -> ~8.1.0, 1.0.0 -> 7.0.0) and of other lengths
var npmTo = []string{"^9.0.0", "~8.1.0", "7.0.0", "^9.0.0", ">=7.0.0 <8.0.0", "9.x", "", "^10.0.0"}
var npmToBad = []string{"2@3", "npm:evil@1", "git://x/y", "a/b"}

func aliasReal(v string) string {
	if !strings.HasPrefix(v, "npm:") {
		return ""
	}
	r := v[4:]
	if i := strings.LastIndex(r, "@"); i > 0 {
		return r[:i]
	}
	return r
}

func genNpm(r *rand.Rand) npmCase {
	var c npmCase
	for si := 0; si < 3; si++ {
		if r.Intn(4) == 0 {
			continue
		}
		n := r.Intn(4)
		perm := r.Perm(len(npmNames))
		reals := map[string]bool{}
		for j := 0; j < n; j++ {
			k := npmNames[perm[j]]
			var v string
			switch x := r.Intn(10); {
			case x < 6:
				v = npmVers[r.Intn(len(npmVers))]
			case x < 8:
				v = npmAliasVals[r.Intn(len(npmAliasVals))]
			default:
				v = npmOddVals[r.Intn(len(npmOddVals))]
			}
			// keep the real package names of one section distinct (Go map order would otherwise decide)
			real := aliasReal(v)
			if real == "" {
				real = k
			}
			if reals[real] {
				continue
			}
			reals[real] = true
			c.sec[si] = append(c.sec[si], kv{k, v})
		}
		// repeat a key of an earlier section with the same or another version
		if si > 0 && len(c.sec[si-1]) > 0 && r.Intn(2) == 0 {
			e := c.sec[si-1][r.Intn(len(c.sec[si-1]))]
			dup := false
			for _, x := range c.sec[si] {
				if x.k == e.k || aliasReal(x.v) == e.k || (aliasReal(e.v) != "" && (aliasReal(x.v) == aliasReal(e.v) || x.k == aliasReal(e.v))) {
					dup = true
				}
			}
			if !dup {
				if r.Intn(2) == 0 {
					e.v = npmVers[r.Intn(len(npmVers))]
				}
				c.sec[si] = append(c.sec[si], e)
			}
		}
	}
	// the same registry package through two or three entries: its own name and npm: aliases, at the identical or another
	// range; all in "dependencies", or spread over the three sections (since fix 8304c0d6 the section cascade of Read keys a
	// requirement by package AND alias: "lib" in dependencies and "lib-legacy1": "npm:lib@…" in devDependencies are two
	// requirements; before it the alias replaced the plain entry)
	if r.Intn(4) == 0 {
		lib := []string{"lib", "@sc/lib.js"}[r.Intn(2)]
		rng := npmVers[r.Intn(4)]
		spread := r.Intn(2) == 0
		place := func(e kv) {
			si := 2
			if spread {
				si = r.Intn(3)
			}
			c.sec[si] = append(c.sec[si], e)
		}
		place(kv{lib, rng})
		for i, n := 0, 1+r.Intn(2); i < n; i++ {
			ar := rng
			if r.Intn(3) == 0 {
				ar = npmVers[r.Intn(4)]
			}
			place(kv{fmt.Sprintf("lib-legacy%d", i+1), "npm:" + lib + "@" + ar})
		}
		if spread && r.Intn(3) == 0 { // one of the aliases once more in another section, at another range: still one requirement
			place(kv{"lib-legacy1", "npm:" + lib + "@" + npmVers[r.Intn(4)]})
		}
		for si := 0; si < 3; si++ {
			// a section holds a key once
			seenK := map[string]bool{}
			var out []kv
			for _, e := range c.sec[si] {
				if !seenK[e.k] {
					seenK[e.k] = true
					out = append(out, e)
				}
			}
			c.sec[si] = out
			r.Shuffle(len(c.sec[si]), func(i, j int) { c.sec[si][i], c.sec[si][j] = c.sec[si][j], c.sec[si][i] })
		}
	}
	// updates are drawn from what Read will report: every entry as (real name, alias, version)
	type req struct {
		name, ka string
		hasKA    bool
		ver      string
	}
	var reqs []req
	seen := map[string]bool{}
	for si := 0; si < 3; si++ {
		for _, e := range c.sec[si] {
			q := req{name: e.k, ver: e.v}
			if strings.HasPrefix(e.v, "npm:") {
				r0 := e.v[4:]
				nm, ver := r0, ""
				if i := strings.LastIndex(r0, "@"); i > 0 {
					nm, ver = r0[:i], r0[i+1:]
				}
				if nm != "" {
					q = req{name: nm, ka: e.k, hasKA: true, ver: ver}
				}
			}
			id := q.name + "\x00" + q.ka + "\x00" + q.ver
			if !seen[id] {
				seen[id] = true
				reqs = append(reqs, q)
			}
		}
	}
	r.Shuffle(len(reqs), func(i, j int) { reqs[i], reqs[j] = reqs[j], reqs[i] })
	libTo := npmTo[r.Intn(3)]
	for _, q := range reqs {
		isLib := q.name == "lib" || q.name == "@sc/lib.js"
		if r.Intn(2) == 0 && !(isLib && r.Intn(4) != 0) {
			continue
		}
		u := npmUp{name: q.name, ka: q.ka, hasKA: q.hasKA, from: q.ver, to: npmTo[r.Intn(len(npmTo))]}
		if isLib && r.Intn(4) != 0 {
			u.to = libTo // all entries of the package relaxed to the same new range
		}
		if r.Intn(12) == 0 {
			u.from = "0.0.0-wrong"
		}
		if r.Intn(25) == 0 {
			u.to = npmToBad[r.Intn(len(npmToBad))]
		}
		c.ups = append(c.ups, u)
	}
	if r.Intn(15) == 0 { // an update for a package the file does not mention
		c.ups = append(c.ups, npmUp{name: "absent.pkg", from: "1.0.0", to: "2.0.0"})
	}
	return c
}

// npmExhaustive: one name in every combination of the three sections, equal / different versions,
// updated from each of the versions present; for a sample of the special names.
func npmExhaustive(emit func(npmCase)) {
	names := []string{"plain", "socket.io", "a*b", "@s/p.q", "a\\b", "p|q", "#hash", "what?"}
	vers := []string{"^1.0.0", "~2.0.0"}
	for _, nm := range names {
		for mask := 1; mask < 8; mask++ {
			for assign := 0; assign < 8; assign++ {
				var c npmCase
				ok := true
				for si := 0; si < 3; si++ {
					if mask&(1<<si) != 0 {
						c.sec[si] = []kv{{"other", "1.1.1"}, {nm, vers[(assign>>si)&1]}}
					} else if (assign>>si)&1 == 1 {
						ok = false // canonical: unused bits zero
					}
				}
				if !ok {
					continue
				}
				for _, from := range vers {
					c2 := c
					c2.ups = []npmUp{{name: nm, from: from, to: "^9.0.0"}}
					emit(c2)
				}
				// alias variant: the key is an alias of "real"
				var ca npmCase
				for si := 0; si < 3; si++ {
					if mask&(1<<si) != 0 {
						ca.sec[si] = []kv{{nm, "npm:real@" + vers[(assign>>si)&1]}}
					}
				}
				ca.ups = []npmUp{{name: "real", ka: nm, hasKA: true, from: vers[0], to: "^9.0.0"}}
				emit(ca)
			}
		}
	}
}

// ---------------------------------------------------------------------------------------------- pp

func runPP(s1, s2 string) string {
	return hx.Guard(func() string {
		p, ok := guidedremediation.VerifGeneratePropertyPatches(s1, s2)
		if !ok {
			return "r=no"
		}
		var xs []string
		for k, v := range p {
			xs = append(xs, hs(k)+"="+hs(v))
		}
		sort.Strings(xs)
		return "r=ok:" + hx.Join(xs, ",")
	})
}

var ppLits = []string{"", "1", "1.", ".", "-", "2", ".0", "-jre", "1.0.", "RELEASE", "a", "}", "$", "{", "1}"}
var ppProps = []string{"${v}", "${rev}", "${a.b}", "${x}", "${}", "${v", "${${v}}"}
var ppVals = []string{"", "1", "2", "1.", "1.0", "1.0.5", "2.0-jre", "9", "1.2.3-jre", ".", "1-", "3.4", "1.5", "1.0.0.0", "-jre", "1}", "$"}

func genPP(r *rand.Rand) (string, string) {
	s1 := ppLits[r.Intn(len(ppLits))] + ppProps[r.Intn(len(ppProps))] + ppLits[r.Intn(len(ppLits))]
	for r.Intn(3) == 0 {
		s1 += ppProps[r.Intn(len(ppProps))] + ppLits[r.Intn(len(ppLits))]
	}
	if r.Intn(40) == 0 {
		s1 = ppLits[r.Intn(len(ppLits))] // no placeholder at all
	}
	s2 := ppVals[r.Intn(len(ppVals))]
	for r.Intn(3) == 0 {
		s2 += ppVals[r.Intn(len(ppVals))]
	}
	if r.Intn(4) == 0 { // make s2 an instance of s1: substitute values
		s2 = s1
		for _, p := range []string{"${v}", "${rev}", "${a.b}", "${x}"} {
			s2 = strings.ReplaceAll(s2, p, []string{"7", "1.2", "", "9-x"}[r.Intn(4)])
		}
	}
	return s1, s2
}

func ppExhaustive(emit func(s1, s2 string)) {
	lits := []string{"", "1", ".", "1.", "-x"}
	var s1s []string
	for _, a := range lits {
		for _, b := range lits {
			s1s = append(s1s, a+"${a}"+b)
			for _, c := range lits {
				s1s = append(s1s, a+"${a}"+b+"${b}"+c, a+"${a}"+b+"${a}"+c)
			}
		}
	}
	alpha := []byte("1.-x")
	var s2s []string
	var rec func(cur []byte)
	rec = func(cur []byte) {
		s2s = append(s2s, string(cur))
		if len(cur) == 5 {
			return
		}
		for _, ch := range alpha {
			rec(append(append([]byte{}, cur...), ch))
		}
	}
	rec(nil)
	for _, s1 := range s1s {
		for _, s2 := range s2s {
			emit(s1, s2)
		}
	}
}

// ---------------------------------------------------------------------------------------------- ws (writeString)

// tokLine encodes the token sequence of a fragment for the driver (CDATA = text, adjacent text merged).
func tokLine(src string) (string, bool) {
	ts, ok := xmlTokens(src)
	if !ok {
		return "", false
	}
	out := make([]string, len(ts))
	for i, t := range ts {
		body := t[2:]
		switch t[0] {
		case 'S':
			// "S:<space>:<local> attr…" → name, attrs
			rest := strings.SplitN(body, " ", 2)
			name := rest[0][strings.LastIndex(rest[0], ":")+1:]
			attrs := ""
			if len(rest) == 2 {
				attrs = rest[1]
			}
			out[i] = "S:" + hs(name) + ":" + hs(attrs)
		case 'E':
			out[i] = "E:" + hs(body[strings.LastIndex(body, ":")+1:])
		case 'T':
			out[i] = "T:" + hs(body)
		case 'C':
			out[i] = "C:" + hs(body)
		default:
			out[i] = "O:" + hs(body)
		}
	}
	return hx.Join(out, ","), true
}

type wsCase struct {
	kind string // id: values are the element's own version; up: a new version; pr: property values
	vals [][2]string
	src  string
}

func runWs(c wsCase) (string, string, bool) {
	toks, ok := tokLine(c.src)
	if !ok {
		return "", "", false
	}
	vs := make([]string, len(c.vals))
	m := map[string]string{}
	for i, kv := range c.vals {
		vs[i] = hs(kv[0]) + "=" + hs(kv[1])
		m[kv[0]] = kv[1]
	}
	line := "ws " + c.kind + " " + hx.Join(vs, ",") + " " + toks + " " + hs(c.src)
	reply := hx.Guard(func() string {
		out, err := guidedremediation.VerifPomWriteString(c.src, m)
		if err != nil {
			return "out=err"
		}
		t, ok := tokLine(out)
		if !ok {
			return "out=unparseable"
		}
		return "out=" + t
	})
	return line, reply, true
}

var wsVersionBodies = []string{"1.0", "1.0", "1.0", " 1.0 ", "<!--c-->1.0", "1.0<!-- trailing -->", "<![CDATA[1.0]]>", "1.<![CDATA[0]]>", "", "${v}", "[1.0,2.0)", "1.0&amp;x", "<!--only-->"}

func genWs(r *rand.Rand) wsCase {
	if r.Intn(4) == 0 { // a <properties> element
		var sb strings.Builder
		sb.WriteString("<properties>")
		vals := [][2]string{}
		for _, n := range []string{"v", "lib.version", "rev"} {
			if r.Intn(2) == 0 {
				body := []string{"1.0", "2.0-jre", "<!--pc-->3", "", "a&lt;b"}[r.Intn(5)]
				sb.WriteString("\n  <" + n + ">" + body + "</" + n + ">")
				if r.Intn(2) == 0 {
					vals = append(vals, [2]string{n, []string{"9.9", "", "1.0"}[r.Intn(3)]})
				}
			}
			if r.Intn(4) == 0 {
				sb.WriteString("<!-- between -->")
			}
		}
		sb.WriteString("\n</properties>")
		return wsCase{"pr", vals, sb.String()}
	}
	body := wsVersionBodies[r.Intn(len(wsVersionBodies))]
	attr := ""
	if r.Intn(8) == 0 {
		attr = " combine.self=\"override\""
	}
	el := []string{"dependency", "parent"}[r.Intn(2)]
	var sb strings.Builder
	sb.WriteString("<" + el + ">")
	if r.Intn(3) == 0 {
		sb.WriteString("<!-- lead -->")
	}
	sb.WriteString("\n  <groupId>g</groupId>\n  <artifactId>a</artifactId>\n  <version" + attr + ">" + body + "</version>")
	if r.Intn(3) == 0 {
		sb.WriteString("\n  <scope>test</scope>")
	}
	if r.Intn(4) == 0 {
		sb.WriteString("\n  <exclusions><exclusion><groupId>e</groupId><artifactId>x</artifactId></exclusion></exclusions>")
	}
	if r.Intn(6) == 0 {
		sb.WriteString("\n  <?pi keep?>")
	}
	sb.WriteString("\n</" + el + ">")
	src := sb.String()
	if r.Intn(3) == 0 {
		return wsCase{"up", [][2]string{{"version", []string{"2.0", "", "3.1&4"}[r.Intn(3)]}}, src}
	}
	// the element's own version, as the writer's forkedxml decode sees it (raw character data, comments dropped)
	var own struct {
		Version string `xml:"version"`
	}
	if err := xml.Unmarshal([]byte(src), &own); err != nil {
		return wsCase{"up", [][2]string{{"version", "2.0"}}, src}
	}
	return wsCase{"id", [][2]string{{"version", own.Version}}, src}
}

// ---------------------------------------------------------------------------------------------- pom

type pdep struct {
	origin, g, a, typ, cls, ver string
	ws                          bool
}
type pprop struct{ origin, name, value string }
type pupd struct{ name, typ, cls, origin, from, to string }
type pomCase struct {
	projVersion string
	deps        []pdep
	props       []pprop
	ups         []pupd
}

func (c pomCase) line() string {
	ds := make([]string, len(c.deps))
	for i, d := range c.deps {
		ds[i] = strings.Join([]string{hs(d.origin), hs(d.g), hs(d.a), hs(d.typ), hs(d.cls), hs(d.ver), hs(hx.B(d.ws))}, ":")
	}
	ps := make([]string, len(c.props))
	for i, p := range c.props {
		ps[i] = strings.Join([]string{hs(p.origin), hs(p.name), hs(p.value)}, ":")
	}
	us := make([]string, len(c.ups))
	for i, u := range c.ups {
		us[i] = strings.Join([]string{hs(u.name), hs(u.typ), hs(u.cls), hs(u.origin), hs(u.from), hs(u.to)}, ":")
	}
	return fmt.Sprintf("pom %s %s %s %s", hs(c.projVersion), hx.Join(ds, ","), hx.Join(ps, ","), hx.Join(us, ","))
}

func parsePom(t []string) pomCase {
	c := pomCase{projVersion: uhs(t[1])}
	for _, e := range splitList(t[2], ",") {
		p := strings.Split(e, ":")
		c.deps = append(c.deps, pdep{uhs(p[0]), uhs(p[1]), uhs(p[2]), uhs(p[3]), uhs(p[4]), uhs(p[5]), uhs(p[6]) == "1"})
	}
	for _, e := range splitList(t[3], ",") {
		p := strings.Split(e, ":")
		c.props = append(c.props, pprop{uhs(p[0]), uhs(p[1]), uhs(p[2])})
	}
	for _, e := range splitList(t[4], ",") {
		p := strings.Split(e, ":")
		c.ups = append(c.ups, pupd{uhs(p[0]), uhs(p[1]), uhs(p[2]), uhs(p[3]), uhs(p[4]), uhs(p[5])})
	}
	return c
}

func xmlEsc(s string) string {
	s = strings.ReplaceAll(s, "&", "&amp;")
	s = strings.ReplaceAll(s, "<", "&lt;")
	return strings.ReplaceAll(s, ">", "&gt;")
}

// emptyMgmt chooses how a pom WITHOUT dependencyManagement entries spells that: 0 = no element at all, 1 = <dependencyManagement/>
// (op pome), 2 = <dependencyManagement> holding <dependencies/> (op pomf), 3..7 = open/close forms (empty, white space, a comment,
// an empty <dependencies></dependencies> on one line or two), drawn from the pom part of the case line.  New entries (updates whose
// key the pom does not hold) have to land inside that element (fix b6e9d07e: they were dropped and Write returned nil).
func emptyMgmt(c pomCase, variant string) int {
	for _, d := range c.deps {
		if d.origin == "management" {
			return 0
		}
	}
	switch variant {
	case "e":
		return 1
	case "f":
		return 2
	case "c", "d", "a":
		return 0
	}
	mr := layoutRng(layoutKey(c) + "#mgmt")
	if mr.Intn(4) != 0 {
		return 0
	}
	return 3 + mr.Intn(5)
}

// shapes: layout variants that the writer of the unrepaired tree does not handle; each is switched on by the verif diff of its repair.
// A variant is drawn from the pom part of the case line (its own generator per name, so that the other layout choices stay as they are).
var shapes = map[string]bool{
	"exclusion-bar": true, // fix 028d4f1d: Write panicked (deps.dev cannot decode the exclusions attribute)
	"empty-prop-selfclosing": true, // fix d980bd44: <sfx/> was patched into <sfx/>.1
	"blank-type": true, // fix fe557d74: <type> </type> made the writer miss the dependency
	"project-tag": true, // fix 16ecfbab: the start tag of <project> was searched as text
	"foreign": true, // fix a91e06b6: sections were handled at any depth
}

func variantOn(c pomCase, name string, oneIn int) bool {
	return shapes[name] && layoutRng(layoutKey(c)+"#"+name).Intn(oneIn) == 0
}

// foreignText collects what stands between the markers <!--foreign--> and <!--/foreign-->: copies of requirements and properties in
// places Read takes nothing from (a plugin under <build><plugins>, a profile's plugin, a <developer>); no update is addressed to them.
func foreignText(s string) string {
	var out []string
	for {
		i := strings.Index(s, "<!--foreign-->")
		if i < 0 {
			return strings.Join(out, "\x00")
		}
		j := strings.Index(s[i:], "<!--/foreign-->")
		if j < 0 {
			return strings.Join(out, "\x00") + "\x00unterminated"
		}
		out = append(out, s[i:i+j])
		s = s[i+j:]
	}
}

// renderPom writes the abstract pom as XML. variant "c" / "d" put a comment / CDATA inside the first
// dependency's <version> (used only by the no-update identity cases), "e" / "f" see emptyMgmt.
func renderPom(c pomCase, lr *rand.Rand, variant string) string {
	attrs := variant == "a" // attributes on <dependency> / <properties> (finding C13/pom-attributes-dropped)
	commentInVersion, cdataInVersion := variant == "c", variant == "d"
	shape := emptyMgmt(c, variant)
	wsr := layoutRng(layoutKey(c) + "#wsid")
	exr := layoutRng(layoutKey(c) + "#dep-extras")
	// self-closing siblings IN FRONT of the element an update addresses (<optional/> before <version>, <argLine/> before the version
	// properties): empty elements Read takes nothing from; a writer that tracks depth must count them like any other element (seed C13n)
	scr := layoutRng(layoutKey(c) + "#selfclosing-before")
	var sb strings.Builder
	ind := []string{"  ", "    ", "\t"}[lr.Intn(3)]
	if lr.Intn(2) == 0 {
		sb.WriteString("<?xml version=\"1.0\" encoding=\"UTF-8\"?>\n")
	}
	if lr.Intn(3) == 0 {
		sb.WriteString("<!-- a comment before the project -->\n")
	}
	ptag := 0
	if variantOn(c, "project-tag", 4) {
		ptag = 1 + layoutRng(layoutKey(c)+"#project-tag-kind").Intn(2)
	}
	if ptag == 1 { // text that looks like the start tag, before the real one
		sb.WriteString("<!-- the <project> element follows -->\n")
	}
	attr := ""
	if ptag == 2 { // ">" inside an attribute value
		attr = " xml:lang=\"en\" note=\"a > b\""
	}
	if lr.Intn(2) == 0 {
		sb.WriteString("<project xmlns=\"http://maven.apache.org/POM/4.0.0\" xmlns:xsi=\"http://www.w3.org/2001/XMLSchema-instance\"\n         xsi:schemaLocation=\"http://maven.apache.org/POM/4.0.0 http://maven.apache.org/xsd/maven-4.0.0.xsd\"" + attr + ">\n")
	} else {
		sb.WriteString("<project" + attr + ">\n")
	}
	w := func(depth int, s string) { sb.WriteString(strings.Repeat(ind, depth) + s + "\n") }
	w(1, "<modelVersion>4.0.0</modelVersion>")
	w(1, "<groupId>root.g</groupId>")
	w(1, "<artifactId>root-a</artifactId>")
	w(1, "<version>"+c.projVersion+"</version>")
	if lr.Intn(3) == 0 {
		w(1, "<name>some &amp; name</name> <!-- trailing comment -->")
	}
	first := true
	dep := func(depth int, d pdep) {
		if lr.Intn(4) == 0 {
			w(depth, "<!-- about "+d.a+" -->")
		}
		if lr.Intn(5) == 0 { // one-line form
			s := "<dependency><groupId>" + d.g + "</groupId><artifactId>" + d.a + "</artifactId>"
			if d.ws {
				s = "<dependency><groupId> " + d.g + " </groupId><artifactId>\n" + d.a + "\n</artifactId>"
			}
			if scr.Intn(5) == 0 {
				s += "<optional/>"
			}
			s += "<version>" + xmlEsc(d.ver) + "</version>"
			if d.typ != "" {
				s += "<type>" + d.typ + "</type>"
			}
			if d.cls != "" {
				s += "<classifier>" + d.cls + "</classifier>"
			}
			w(depth, s+"</dependency>")
			first = false
			return
		}
		if attrs {
			w(depth, "<dependency combine.self=\"override\">")
		} else {
			w(depth, "<dependency>")
		}
		if d.ws {
			w(depth+1, "<groupId> "+d.g+" </groupId>")
			w(depth+1, "<artifactId>")
			w(depth+2, d.a)
			w(depth+1, "</artifactId>")
		} else {
			w(depth+1, "<groupId>"+d.g+"</groupId>")
			w(depth+1, "<artifactId>"+d.a+"</artifactId>")
		}
		v := xmlEsc(d.ver)
		if first && commentInVersion {
			v = "<!--c-->" + v
		}
		if first && cdataInVersion {
			v = "<![CDATA[" + d.ver + "]]>"
		}
		first = false
		if scr.Intn(5) == 0 {
			w(depth+1, []string{"<optional/>", "<optional/>", "<systemPath/>"}[scr.Intn(3)])
		}
		w(depth+1, "<version>"+v+"</version>")
		if d.typ != "" {
			w(depth+1, "<type>"+d.typ+"</type>")
		} else if shapes["blank-type"] && exr.Intn(8) == 0 {
			w(depth+1, "<type> </type>") // reads as no type
		}
		if d.cls != "" {
			w(depth+1, "<classifier>"+d.cls+"</classifier>")
		}
		if lr.Intn(4) == 0 {
			w(depth+1, "<scope>"+[]string{"test", "runtime", "provided"}[lr.Intn(3)]+"</scope>")
		}
		if lr.Intn(6) == 0 {
			w(depth+1, "<exclusions><exclusion><groupId>ex.g</groupId><artifactId>ex-a</artifactId></exclusion></exclusions>")
		} else if shapes["exclusion-bar"] && exr.Intn(6) == 0 {
			// an exclusion whose coordinates deps.dev's dep.Type cannot be decoded from (its separators are "|" and ":")
			w(depth+1, "<exclusions><exclusion><groupId>ex|g</groupId><artifactId>ex-a</artifactId></exclusion></exclusions>")
		}
		w(depth, "</dependency>")
	}
	section := func(depth int, origin string) {
		var props []pprop
		for _, p := range c.props {
			if p.origin == origin {
				props = append(props, p)
			}
		}
		if len(props) > 0 {
			if attrs {
				w(depth, "<properties combine.children=\"append\">")
			} else {
				w(depth, "<properties>")
			}
			if scr.Intn(4) == 0 {
				w(depth+1, "<argLine/>")
			}
			for _, p := range props {
				if p.value == "" && variantOn(c, "empty-prop-selfclosing", 2) {
					w(depth+1, "<"+p.name+"/>")
					continue
				}
				w(depth+1, "<"+p.name+">"+xmlEsc(p.value)+"</"+p.name+">")
				if lr.Intn(5) == 0 {
					w(depth+1, "<!-- property comment -->")
				}
			}
			w(depth+1, "<unrelated.prop>keep &lt;me&gt;</unrelated.prop>")
			w(depth, "</properties>")
		}
		mo := "management"
		if origin != "" {
			mo = origin + "@management"
		}
		var ds, ms []pdep
		for _, d := range c.deps {
			if d.origin == origin {
				ds = append(ds, d)
			}
			if d.origin == mo {
				ms = append(ms, d)
			}
		}
		writeDeps := func() {
			if len(ds) > 0 {
				w(depth, "<dependencies>")
				for _, d := range ds {
					dep(depth+1, d)
				}
				w(depth, "</dependencies>")
			}
		}
		writeMgmt := func() {
			if origin == "" {
				switch shape {
				case 1:
					w(depth, "<dependencyManagement/>")
				case 2:
					w(depth, "<dependencyManagement>")
					w(depth+1, "<dependencies/>")
					w(depth, "</dependencyManagement>")
				case 3:
					w(depth, "<dependencyManagement></dependencyManagement>")
				case 4:
					w(depth, "<dependencyManagement>")
					w(depth, "</dependencyManagement>")
				case 5:
					w(depth, "<dependencyManagement>")
					w(depth+1, "<!-- nothing managed yet -->")
					w(depth, "</dependencyManagement>")
				case 6:
					w(depth, "<dependencyManagement>")
					w(depth+1, "<dependencies></dependencies>")
					w(depth, "</dependencyManagement>")
				case 7:
					w(depth, "<dependencyManagement>")
					w(depth+1, "<dependencies>")
					w(depth+1, "</dependencies>")
					w(depth, "</dependencyManagement>")
				}
			}
			if len(ms) > 0 {
				w(depth, "<dependencyManagement>")
				w(depth+1, "<dependencies>")
				for _, d := range ms {
					dep(depth+2, d)
				}
				w(depth+1, "</dependencies>")
				w(depth, "</dependencyManagement>")
			}
		}
		if lr.Intn(2) == 0 {
			writeDeps()
			writeMgmt()
		} else {
			writeMgmt()
			writeDeps()
		}
	}
	if variantOn(c, "foreign", 2) {
		var ups []string
		for _, p := range c.props {
			if p.origin == "" {
				ups = append(ups, "<"+p.name+">"+xmlEsc(p.value)+"</"+p.name+">")
			}
		}
		if len(ups) > 0 { // <properties> of a developer: the same names and values as the project's, but no properties of the project
			w(1, "<!--foreign-->")
			w(1, "<developers><developer><id>dev</id><properties>"+strings.Join(ups, "")+"</properties></developer></developers>")
			w(1, "<!--/foreign-->")
		}
	}
	section(1, "")
	var profs []string
	seen := map[string]bool{}
	for _, d := range c.deps {
		if strings.HasPrefix(d.origin, "profile@") {
			id := strings.TrimSuffix(d.origin, "@management")
			if !seen[id] {
				seen[id] = true
				profs = append(profs, id)
			}
		}
	}
	for _, p := range c.props {
		if strings.HasPrefix(p.origin, "profile@") && !seen[p.origin] {
			seen[p.origin] = true
			profs = append(profs, p.origin)
		}
	}
	sort.Strings(profs)
	if len(profs) > 0 {
		w(1, "<profiles>")
		for _, id := range profs {
			w(2, "<profile>")
			// every fourth profile / plugin spells its identifying elements with white space around the text (fix 02ba8cea: Read trims
			// it, the writer compared the raw text and dropped the updates of the profile's / plugin's dependencies)
			switch wsr.Intn(8) {
			case 0:
				w(3, "<id> "+strings.TrimPrefix(id, "profile@")+" </id>")
			case 1:
				w(3, "<id>")
				w(4, strings.TrimPrefix(id, "profile@"))
				w(3, "</id>")
			default:
				w(3, "<id>"+strings.TrimPrefix(id, "profile@")+"</id>")
			}
			section(3, id)
			if variantOn(c, "foreign", 2) {
				var ds []string
				for _, d := range c.deps {
					if d.origin == id {
						ds = append(ds, "<dependency><groupId>"+d.g+"</groupId><artifactId>"+d.a+"</artifactId><version>"+xmlEsc(d.ver)+"</version>"+map[bool]string{true: "<type>" + d.typ + "</type>"}[d.typ != ""]+map[bool]string{true: "<classifier>" + d.cls + "</classifier>"}[d.cls != ""]+"</dependency>")
					}
				}
				if len(ds) > 0 { // a plugin of the profile with the profile's own dependencies as plugin dependencies
					w(3, "<!--foreign-->")
					w(3, "<build><plugins><plugin><artifactId>q</artifactId><dependencies>"+strings.Join(ds, "")+"</dependencies></plugin></plugins></build>")
					w(3, "<!--/foreign-->")
				}
			}
			w(2, "</profile>")
		}
		w(1, "</profiles>")
	}
	// dependencies of build/pluginManagement plugins: origin "plugin@<groupId>:<artifactId>"; a plugin may leave its groupId out
	// (origin "plugin@:<artifactId>", Maven then assumes org.apache.maven.plugins)
	var plugs []string
	seenPl := map[string]bool{}
	for _, d := range c.deps {
		if strings.HasPrefix(d.origin, "plugin@") && !seenPl[d.origin] {
			seenPl[d.origin] = true
			plugs = append(plugs, d.origin)
		}
	}
	noise := lr.Intn(3) == 0
	if len(plugs) == 0 {
		if noise {
			w(1, "<build><plugins><plugin><groupId>pl.g</groupId><artifactId>pl-a</artifactId><version>3.1</version></plugin></plugins></build>")
		}
	} else {
		w(1, "<build>")
		if variantOn(c, "foreign", 2) {
			// the first managed plugin once more under <build><plugins>, with the same dependencies: Read does not list these, so no
			// update is addressed to them and they must stay as they are
			twin := plugs[0]
			g, a, _ := strings.Cut(strings.TrimPrefix(twin, "plugin@"), ":")
			w(2, "<!--foreign-->")
			w(2, "<plugins>")
			w(3, "<plugin>")
			if g != "" {
				w(4, "<groupId>"+g+"</groupId>")
			}
			w(4, "<artifactId>"+a+"</artifactId>")
			w(4, "<dependencies>")
			for _, d := range c.deps {
				if d.origin == twin {
					w(5, "<dependency><groupId>"+d.g+"</groupId><artifactId>"+d.a+"</artifactId><version>"+xmlEsc(d.ver)+"</version>"+map[bool]string{true: "<type>" + d.typ + "</type>"}[d.typ != ""]+map[bool]string{true: "<classifier>" + d.cls + "</classifier>"}[d.cls != ""]+"</dependency>")
				}
			}
			w(4, "</dependencies>")
			w(3, "</plugin>")
			w(2, "</plugins>")
			w(2, "<!--/foreign-->")
		} else if noise { // a plugin outside pluginManagement, under another name: Read does not list its dependencies
			w(2, "<plugins><plugin><groupId>other.g</groupId><artifactId>other-plugin</artifactId><version>3.1</version></plugin></plugins>")
		}
		w(2, "<pluginManagement>")
		w(3, "<plugins>")
		for _, o := range plugs {
			g, a, _ := strings.Cut(strings.TrimPrefix(o, "plugin@"), ":")
			w(4, "<plugin>")
			if wsr.Intn(4) == 0 {
				if g != "" {
					w(5, "<groupId> "+g+" </groupId>")
				}
				w(5, "<artifactId>")
				w(6, a)
				w(5, "</artifactId>")
			} else {
				if g != "" {
					w(5, "<groupId>"+g+"</groupId>")
				}
				w(5, "<artifactId>"+a+"</artifactId>")
			}
			w(5, "<version>3.1</version>")
			w(5, "<dependencies>")
			for _, d := range c.deps {
				if d.origin == o {
					dep(6, d)
				}
			}
			w(5, "</dependencies>")
			w(4, "</plugin>")
		}
		w(3, "</plugins>")
		w(2, "</pluginManagement>")
		w(1, "</build>")
	}
	sb.WriteString("</project>")
	if lr.Intn(2) == 0 {
		sb.WriteString("\n")
	}
	return sb.String()
}

func normTyp(t string) string {
	if t == "" {
		return "jar"
	}
	return t
}

func splitGA(name string) (string, string) {
	p := strings.SplitN(name, ":", 2)
	if len(p) != 2 {
		return name, ""
	}
	return p[0], p[1]
}

// interp replaces ${name} left to right with dict(name); ok=false if some name is undefined.
func interp(s string, dict func(string) (string, bool)) (string, bool) {
	var sb strings.Builder
	for {
		i := strings.Index(s, "${")
		if i < 0 {
			sb.WriteString(s)
			return sb.String(), true
		}
		j := strings.Index(s[i+2:], "}")
		if j < 0 {
			sb.WriteString(s)
			return sb.String(), true
		}
		v, ok := dict(s[i+2 : i+2+j])
		if !ok {
			return "", false
		}
		sb.WriteString(s[:i] + v)
		s = s[i+2+j+1:]
	}
}

type pomView struct {
	deps, props, reqs string
	reqList           []resolve.RequirementVersion // Requirements() then RequirementsForUpdates
	effective         []string                     // effective version of each entry of reqList
}

// viewPom canonicalises what Read returned: OriginalRequirements, Properties, and the requirements with
// their effective versions (profile entries interpolated here with the profile's, then the project's, properties).
func viewPom(m guidedremediation.VerifManifest, projVersion string) pomView {
	sp := m.EcosystemSpecific().(guidedremediation.VerifMavenSpecific)
	var v pomView
	var ds, ps, rs []string
	for _, d := range sp.OriginalRequirements {
		ds = append(ds, strings.Join([]string{hs(d.Origin), hs(string(d.GroupID)), hs(string(d.ArtifactID)), hs(normTyp(string(d.Type))), hs(string(d.Classifier)), hs(string(d.Version))}, ":"))
	}
	for _, p := range sp.Properties {
		if p.Name == "unrelated.prop" || p.Name == "argLine" {
			continue
		}
		ps = append(ps, strings.Join([]string{hs(p.Origin), hs(p.Name), hs(p.Value)}, ":"))
	}
	projDict := func(n string) (string, bool) {
		if n == "project.version" || n == "version" || n == "pom.version" {
			return projVersion, true
		}
		val, ok := "", false
		for _, p := range sp.Properties {
			if p.Origin == "" && p.Name == n {
				val, ok = p.Value, true
			}
		}
		return val, ok
	}
	reqStr := func(r resolve.RequirementVersion, ver string) string {
		g, a := splitGA(r.Name)
		t, _ := r.Type.GetAttr(dep.MavenArtifactType)
		c, _ := r.Type.GetAttr(dep.MavenClassifier)
		o, _ := r.Type.GetAttr(dep.MavenDependencyOrigin)
		return strings.Join([]string{hs(o), hs(g), hs(a), hs(normTyp(t)), hs(c), hs(ver)}, ":")
	}
	for _, r := range m.Requirements() {
		v.reqList = append(v.reqList, r)
		v.effective = append(v.effective, r.Version)
		rs = append(rs, reqStr(r, r.Version))
	}
	// RequirementsForUpdates lists profile dependencies in OriginalRequirements order (parent first, which we never have)
	var profDeps []string // origin of each profile entry, in order
	for _, d := range sp.OriginalRequirements {
		if strings.HasPrefix(d.Origin, "profile@") {
			profDeps = append(profDeps, d.Origin)
		}
	}
	for i, r := range sp.RequirementsForUpdates {
		eff := r.Version
		if i < len(profDeps) {
			po := strings.TrimSuffix(profDeps[i], "@management")
			if e, ok := interp(r.Version, func(n string) (string, bool) {
				val, ok := "", false
				for _, p := range sp.Properties {
					if p.Origin == po && p.Name == n {
						val, ok = p.Value, true
					}
				}
				if ok {
					return val, true
				}
				return projDict(n)
			}); ok {
				eff = e
			}
		}
		v.reqList = append(v.reqList, r)
		v.effective = append(v.effective, eff)
		rs = append(rs, reqStr(r, eff))
	}
	sort.Strings(ds)
	sort.Strings(ps)
	sort.Strings(rs)
	v.deps, v.props, v.reqs = hx.Join(ds, ","), hx.Join(ps, ","), hx.Join(rs, ",")
	return v
}

func caseView(c pomCase) (string, string) {
	var ds, ps []string
	for _, d := range c.deps {
		ds = append(ds, strings.Join([]string{hs(d.origin), hs(d.g), hs(d.a), hs(normTyp(d.typ)), hs(d.cls), hs(d.ver)}, ":"))
	}
	for _, p := range c.props {
		ps = append(ps, strings.Join([]string{hs(p.origin), hs(p.name), hs(p.value)}, ":"))
	}
	sort.Strings(ds)
	sort.Strings(ps)
	return hx.Join(ds, ","), hx.Join(ps, ",")
}

type pomSession struct {
	dir string
	rw  guidedremediation.VerifReadWriter
	m   guidedremediation.VerifManifest
	src string
}

func openPom(c pomCase, seedLine string, variant string) (*pomSession, error) {
	dir, err := os.MkdirTemp(scratch, "p")
	must(err)
	src := renderPom(c, layoutRng(seedLine), variant)
	must(os.WriteFile(filepath.Join(dir, "pom.xml"), []byte(src), 0o644))
	rw, err := guidedremediation.VerifMavenReadWriter("http://127.0.0.1:1/")
	must(err)
	m, err := rw.Read("pom.xml", scalibrfs.DirFS(dir))
	if err != nil {
		os.RemoveAll(dir)
		return nil, err
	}
	return &pomSession{dir, rw, m, src}, nil
}

// layoutKey: the layout of a pom case depends on the pom part of the line only, so that cases that
// differ in their updates share the file bytes.
func layoutKey(c pomCase) string {
	c2 := c
	c2.ups = nil
	return c2.line()
}

// runPom returns the requirement list the real Read reported before the write (effective versions; last token of the
// case line) and the implementation's reply.
func runPom(c pomCase, variant string) (before string, reply string) {
	before = "-"
	reply = hx.Guard(func() string {
		s, err := openPom(c, layoutKey(c), variant)
		if err != nil {
			return "r=readerr"
		}
		defer os.RemoveAll(s.dir)
		pre := viewPom(s.m, c.projVersion)
		viewDiffers := false
		cd, cp := caseView(c)
		if pre.deps != cd || pre.props != cp {
			// the abstraction does not describe what Read saw (dependencies with their origins, properties): reported as a reply no
			// model answer equals, so that it surfaces as a divergence with a replay file (a generator fault or a changed Read)
			fmt.Fprintf(os.Stderr, "c13gen: abstract pom differs from Read's view\ncase  %s / %s\nread  %s / %s\n%s\n", cd, cp, pre.deps, pre.props, s.src)
			viewDiffers = true // carry on: the specification judges the write on what Read reported
		}
		before = pre.reqs
		var ups []result.PackageUpdate
		for _, u := range c.ups {
			// find the requirement this update was drawn from, to carry its exact dep.Type
			ty := dep.NewType()
			found := false
			for i, r := range pre.reqList {
				g, a := splitGA(r.Name)
				t, _ := r.Type.GetAttr(dep.MavenArtifactType)
				cl, _ := r.Type.GetAttr(dep.MavenClassifier)
				o, _ := r.Type.GetAttr(dep.MavenDependencyOrigin)
				if g+":"+a == u.name && normTyp(t) == normTyp(u.typ) && cl == u.cls && o == u.origin && pre.effective[i] == u.from {
					ty = r.Type.Clone()
					found = true
					break
				}
			}
			if !found {
				if u.typ != "" && u.typ != "jar" {
					ty.AddAttr(dep.MavenArtifactType, u.typ)
				}
				if u.cls != "" {
					ty.AddAttr(dep.MavenClassifier, u.cls)
				}
				if u.origin != "" {
					ty.AddAttr(dep.MavenDependencyOrigin, u.origin)
				}
			}
			ups = append(ups, result.PackageUpdate{Name: u.name, VersionFrom: u.from, VersionTo: u.to, Type: ty})
		}
		outRel := "out/pom.xml"
		if layoutRng(c.line()+"#path").Intn(2) == 0 {
			outRel = "pom.xml" // back to the path it was read from
		}
		out := filepath.Join(s.dir, filepath.FromSlash(outRel))
		if err := s.rw.Write(s.m, scalibrfs.DirFS(s.dir), []result.Patch{{PackageUpdates: ups}}, out); err != nil {
			if b, rerr := os.ReadFile(out); rerr == nil && string(b) != s.src {
				return "r=err-but-wrote"
			}
			return "r=err rb=" + pre.reqs
		}
		b, err := os.ReadFile(out)
		if err != nil {
			return "r=ok-nofile"
		}
		m2, err := s.rw.Read(outRel, scalibrfs.DirFS(s.dir))
		if err != nil {
			return "r=ok-rereaderr"
		}
		post := viewPom(m2, c.projVersion)
		if os.Getenv("C13_DUMP") != "" {
			fmt.Fprintf(os.Stderr, "---- in\n%s\n---- out\n%s\n----\n", s.src, b)
		}
		// the writer re-wraps the inner XML of dependencyManagement, so a self-closing <dependencyManagement/> comes back as
		// <dependencyManagement></dependencyManagement> (same tokens); for the variant that contains one, bytes are compared
		// with that spelling.  (<dependencies/> inside it is a token that passes through and stays as it is.)
		src, sc := s.src, "0"
		if variant == "e" {
			src = strings.ReplaceAll(src, "<dependencyManagement/>", "<dependencyManagement></dependencyManagement>")
			sc = hx.B(src != s.src)
		}
		id, tok := "-", "-"
		if len(c.ups) == 0 {
			id = hx.B(string(b) == src)
			tok = hx.B(sameTokens(s.src, string(b)))
		}
		return fmt.Sprintf("r=ok deps=%s props=%s reqs=%s rb=%s id=%s tok=%s rest=%s sc=%s", post.deps, post.props, post.reqs, pre.reqs, id, tok, hx.B(maskValues(src) == maskValues(string(b))), sc) + map[bool]string{true: " view=differs", false: ""}[viewDiffers] +
			map[bool]string{true: " foreign=" + hx.B(foreignText(s.src) == foreignText(string(b))), false: ""}[foreignText(s.src) != ""]
	})
	return before, reply
}

// xmlTokens is the sequence of elements, attributes, text, comments, processing instructions and
// directives of a document; CDATA sections count as the text they contain and adjacent text is merged.
func xmlTokens(src string) ([]string, bool) {
	dec := xml.NewDecoder(strings.NewReader(src))
	var out []string
	text := ""
	flush := func() {
		if text != "" {
			out = append(out, "T:"+text)
			text = ""
		}
	}
	for {
		t, err := dec.RawToken()
		if err == io.EOF {
			flush()
			return out, true
		}
		if err != nil {
			return nil, false
		}
		switch x := t.(type) {
		case xml.CharData:
			text += string(x)
		case xml.StartElement:
			flush()
			s := "S:" + x.Name.Space + ":" + x.Name.Local
			for _, a := range x.Attr {
				s += " " + a.Name.Space + ":" + a.Name.Local + "=" + a.Value
			}
			out = append(out, s)
		case xml.EndElement:
			flush()
			out = append(out, "E:"+x.Name.Space+":"+x.Name.Local)
		case xml.Comment:
			flush()
			out = append(out, "C:"+string(x))
		case xml.ProcInst:
			flush()
			out = append(out, "P:"+x.Target+" "+string(x.Inst))
		case xml.Directive:
			flush()
			out = append(out, "D:"+string(x))
		}
	}
}

func sameTokens(a, b string) bool {
	ta, ok1 := xmlTokens(a)
	tb, ok2 := xmlTokens(b)
	return ok1 && ok2 && slices.Equal(ta, tb)
}

var reVersion = regexp.MustCompile(`<version>[^<]*</version>`)
var reProp = regexp.MustCompile(`<(v|w|lib\.version|rev|sfx|grp)>[^<]*</(v|w|lib\.version|rev|sfx|grp)>|<sfx/>`)

// maskValues blanks every <version> text and every generated property value: what is left must be
// byte-identical before and after a write that only changes versions.
func maskValues(s string) string {
	return reProp.ReplaceAllString(reVersion.ReplaceAllString(s, "<version/>"), "<prop/>")
}

var pomVers = []string{"1.0", "1.0.5", "2.0-jre", "1.2.3", "3.4", "31.1-jre", "[1.0,2.0)", "1.0.0.Final"}
var pomTo = []string{"2.0", "1.0.6", "2.1-jre", "1.3.0", "9.9.9", "32.0-jre", "1.9", "1.2.4", "2.0.0.Final", "1.7-2.8"}
var pomPropNames = []string{"v", "w", "lib.version", "rev"}

func genPom(r *rand.Rand) pomCase {
	c := pomCase{projVersion: []string{"1.0", "2.3.4"}[r.Intn(2)]}
	np := r.Intn(4)
	perm := r.Perm(len(pomPropNames))
	var mainProps []string
	for i := 0; i < np; i++ {
		n := pomPropNames[perm[i]]
		mainProps = append(mainProps, n)
		c.props = append(c.props, pprop{"", n, pomVers[r.Intn(5)]})
	}
	nprof := 0
	if r.Intn(3) == 0 {
		nprof = 1 + r.Intn(2)
	}
	profProps := map[string][]string{}
	for p := 0; p < nprof; p++ {
		o := fmt.Sprintf("profile@p%d", p+1)
		for i := r.Intn(3); i > 0; i-- {
			n := pomPropNames[r.Intn(len(pomPropNames))]
			dup := false
			for _, x := range profProps[o] {
				dup = dup || x == n
			}
			if !dup {
				profProps[o] = append(profProps[o], n)
				c.props = append(c.props, pprop{o, n, pomVers[r.Intn(5)]})
			}
		}
	}
	sfx := r.Intn(8) == 0 // a property with an EMPTY value, used as a version suffix (1.0${sfx})
	if sfx {
		c.props = append(c.props, pprop{"", "sfx", ""})
	}
	version := func(avail []string) string {
		if sfx && r.Intn(3) == 0 {
			return pomVers[r.Intn(5)] + "${sfx}"
		}
		x := r.Intn(20)
		if len(avail) == 0 || x < 9 {
			return pomVers[r.Intn(len(pomVers))]
		}
		a := avail[r.Intn(len(avail))]
		b := avail[r.Intn(len(avail))]
		switch {
		case x < 12:
			return "${" + a + "}"
		case x < 14:
			return "1.${" + a + "}"
		case x < 16:
			return "${" + a + "}-jre"
		case x < 18:
			return "${" + a + "}.${" + b + "}"
		case x < 19:
			return "${project.version}"
		default:
			return "0.${" + a + "}-${" + b + "}.Final"
		}
	}
	gs := []string{"g1", "org.g2"}
	as := []string{"a", "b", "c", "d", "e"}
	used := map[string]bool{}
	// every sixth pom spells some group ids of its <dependencies> / dependencyManagement entries through the project's own
	// coordinates (sibling modules: ${project.groupId}, ${pom.groupId}, ${project.groupId}.sub, the version as part of an
	// artifact id); every twentieth through a property of the pom (class C13/pom-key-property)
	coordKeys, propKeys := r.Intn(6) == 0, r.Intn(20) == 0
	if propKeys {
		c.props = append(c.props, pprop{"", "grp", gs[r.Intn(2)]})
	}
	add := func(origin string, avail []string, allowDupKey bool) {
		d := pdep{origin: origin, g: gs[r.Intn(2)], a: as[r.Intn(len(as))], ver: version(avail)}
		if !strings.HasPrefix(origin, "profile@") {
			if coordKeys && r.Intn(2) == 0 {
				switch r.Intn(6) {
				case 0, 1:
					d.g = "${project.groupId}"
				case 2:
					d.g = "${pom.groupId}"
				case 3:
					d.g = "${project.groupId}.sub"
				case 4:
					d.a = d.a + "-${project.version}"
				default:
					d.g = "root.g" // the literal spelling of the same group, next to the placeholder ones
				}
			} else if propKeys && origin == "" && r.Intn(2) == 0 {
				// only in <dependencies>: the entry the writer adds for it goes to dependencyManagement, where deps.dev keeps the
				// first of two entries with one interpolated key (a de-duplication the model of Read does not have)
				d.g = "${grp}"
			}
		}
		if r.Intn(12) == 0 {
			d.typ = []string{"pom", "test-jar", "jar"}[r.Intn(3)]
		}
		if r.Intn(15) == 0 {
			d.cls = "tests"
		}
		if r.Intn(40) == 0 {
			d.ws = true
		}
		k := resolveCoord(c, d.g) + ":" + resolveCoord(c, d.a) + ":" + normTyp(d.typ) + ":" + d.cls
		if used[origin+"|"+k] { // one section never holds the same key twice (as Read sees the keys: interpolated)
			return
		}
		if used["*|"+k] && !allowDupKey {
			return
		}
		used[origin+"|"+k] = true
		used["*|"+k] = true
		c.deps = append(c.deps, d)
	}
	dupOK := func() bool { return r.Intn(8) == 0 }
	for i := 1 + r.Intn(4); i > 0; i-- {
		add("", mainProps, false)
	}
	// the same groupId:artifactId once more under another dependency key (test-jar / classifier variant) and another
	// version, in <dependencies> or dependencyManagement: an update addressed to one of them must rewrite exactly that one
	if r.Intn(3) == 0 && len(c.deps) > 0 {
		d0 := c.deps[r.Intn(len(c.deps))]
		v := pdep{origin: []string{"", "management"}[r.Intn(2)], g: d0.g, a: d0.a, typ: d0.typ, cls: d0.cls, ver: version(mainProps)}
		if r.Intn(2) == 0 {
			v.typ = "test-jar"
		} else {
			v.cls = "tests"
		}
		if strings.Contains(v.g, "${grp}") {
			v.origin = ""
		}
		k := resolveCoord(c, v.g) + ":" + resolveCoord(c, v.a) + ":" + normTyp(v.typ) + ":" + v.cls
		if !used["*|"+k] {
			used[v.origin+"|"+k] = true
			used["*|"+k] = true
			c.deps = append(c.deps, v)
		}
	}
	for i := r.Intn(3); i > 0; i-- {
		add("management", mainProps, dupOK())
	}
	for p := 0; p < nprof; p++ {
		o := fmt.Sprintf("profile@p%d", p+1)
		avail := append(append([]string{}, mainProps...), profProps[o]...)
		if r.Intn(2) == 0 { // a property that only ANOTHER profile defines
			for q := 0; q < nprof; q++ {
				if q != p {
					avail = append(avail, profProps[fmt.Sprintf("profile@p%d", q+1)]...)
				}
			}
		}
		for i := r.Intn(3); i > 0; i-- {
			add(o, avail, dupOK())
		}
		for i := r.Intn(2); i > 0; i-- {
			add(o+"@management", avail, dupOK())
		}
	}
	// (listed after the profile entries, as buildOriginalRequirements does) every fifth pom: one or two pluginManagement plugins with dependencies of their own (Read lists them among the requirements
	// for updates), half of the plugins without <groupId>
	if r.Intn(5) == 0 {
		for i, n := 0, 1+r.Intn(2); i < n; i++ {
			o := []string{"plugin@pl.g:pl-a", "plugin@:maven-x-plugin", "plugin@:maven-y-plugin", "plugin@org.apache.maven.plugins:maven-z-plugin"}[r.Intn(4)]
			for k := 1 + r.Intn(2); k > 0; k-- {
				add(o, mainProps, dupOK())
			}
		}
	}
	return c
}

// pomUpdates derives candidate updates from what the real Read reports for this pom; nil when the pom is unreadable.
func pomCandidates(c pomCase) []pupd {
	s, err := openPom(c, layoutKey(c), "")
	if err != nil {
		return nil
	}
	defer os.RemoveAll(s.dir)
	v := viewPom(s.m, c.projVersion)
	var out []pupd
	for i, r := range v.reqList {
		g, a := splitGA(r.Name)
		t, _ := r.Type.GetAttr(dep.MavenArtifactType)
		cl, _ := r.Type.GetAttr(dep.MavenClassifier)
		o, _ := r.Type.GetAttr(dep.MavenDependencyOrigin)
		out = append(out, pupd{name: g + ":" + a, typ: t, cls: cl, origin: o, from: v.effective[i]})
	}
	return out
}

// resolveCoord interpolates a group / artifact id the way Read does for the generated poms (project root.g, universal properties).
func resolveCoord(c pomCase, s string) string {
	out, ok := interp(s, func(n string) (string, bool) {
		switch n {
		case "project.groupId", "pom.groupId", "groupId":
			return "root.g", true
		case "project.version", "pom.version", "version":
			return c.projVersion, true
		}
		val, ok := "", false
		for _, p := range c.props {
			if p.origin == "" && p.name == n {
				val, ok = p.value, true
			}
		}
		return val, ok
	})
	if !ok {
		return s
	}
	return out
}

func pickTo(r *rand.Rand, c pomCase, u pupd) string {
	// often: a version that fits the literal parts of the dependency's raw version
	for _, d := range c.deps {
		if resolveCoord(c, d.g)+":"+resolveCoord(c, d.a) == u.name && strings.Contains(d.ver, "${") && r.Intn(4) != 0 {
			fit := d.ver
			for strings.Contains(fit, "${") {
				i := strings.Index(fit, "${")
				j := strings.Index(fit[i:], "}")
				if j < 0 {
					break
				}
				fit = fit[:i] + []string{"7", "1.2.9", "5.0", "2"}[r.Intn(4)] + fit[i+j+1:]
			}
			return fit
		}
	}
	return pomTo[r.Intn(len(pomTo))]
}

func emitPom(r *rand.Rand, c pomCase, thorough bool, emit0 func(pomCase, string)) {
	cands := pomCandidates(c)
	// every fourth pom without dependencyManagement entries carries a self-closing <dependencyManagement/> or <dependencies/> there
	variant := ""
	if emptyMgmt(c, "e") != 0 {
		switch r.Intn(8) {
		case 0:
			variant = "e"
		case 1:
			variant = "f"
		}
	}
	emptyElem := emptyMgmt(c, variant) != 0
	emit := func(c pomCase, comment, cdata bool) {
		switch {
		case comment:
			emit0(c, "c")
		case cdata:
			emit0(c, "d")
		default:
			emit0(c, variant)
		}
	}
	absent := pupd{name: "absent.g:absent-a", from: "1", to: "2"}
	// the no-update case, plain and with a comment / CDATA inside the first <version>
	c0 := c
	c0.ups = nil
	switch r.Intn(6) {
	case 0:
		emit(c0, true, false)
	case 1:
		emit(c0, false, true)
	default:
		emit(c0, false, false)
	}
	if r.Intn(8) == 0 { // the no-update case once more with attributes on <dependency> / <properties>
		emit0(c0, "a")
	}
	if emptyElem {
		// a key the pom does not hold goes to dependencyManagement: the element is there but has no <dependencies> to add it to
		c1 := c
		c1.ups = []pupd{absent}
		emit(c1, false, false)
	}
	if len(cands) == 0 {
		return
	}
	distinct := func(us []pupd) bool {
		seen := map[string]bool{}
		for _, u := range us {
			k := u.name + ":" + normTyp(u.typ) + ":" + u.cls
			if seen[k] {
				return false
			}
			seen[k] = true
		}
		return true
	}
	for i := range cands {
		cands[i].to = pickTo(r, c, cands[i])
	}
	if thorough && len(cands) <= 4 {
		for mask := 1; mask < 1<<len(cands); mask++ {
			var us []pupd
			for i, u := range cands {
				if mask&(1<<i) != 0 {
					us = append(us, u)
				}
			}
			if distinct(us) {
				c1 := c
				c1.ups = us
				emit(c1, false, false)
			}
		}
		return
	}
	for k := 0; k < 2; k++ {
		var us []pupd
		for _, u := range cands {
			if r.Intn(3) == 0 {
				us = append(us, u)
			}
		}
		if len(us) == 0 {
			us = []pupd{cands[r.Intn(len(cands))]}
		}
		if r.Intn(30) == 0 || (emptyElem && r.Intn(2) == 0) {
			us = append(us, absent)
			if r.Intn(3) == 0 {
				us = append(us, pupd{name: "absent.g:absent-b", typ: "test-jar", from: "1", to: "3.1"})
			}
		}
		if r.Intn(25) == 0 && len(us) > 0 { // an old version that is not the one in the file: the pom writer never looks at it
			us[0].from = "0.0.0-wrong"
		}
		if r.Intn(40) == 0 { // a Name that is not groupId:artifactId: Write must fail
			us = append(us, pupd{name: []string{"nocolon", "a:b:c", ""}[r.Intn(3)], from: "1", to: "2"})
		}
		if distinct(us) {
			c1 := c
			c1.ups = us
			emit(c1, false, false)
		}
	}
}

// ---------------------------------------------------------------------------------------------- pch (local parent chains)

// pchCase: a multi-module layout top/[mid/]child/pom.xml.  Level 0 is the child, the last level the top parent.  Intermediate
// and child poms may leave out <groupId> / <version> (inherited from their own parent), relativePath may be left to its
// default.  Every level declares literal-version entries in <dependencies> and/or <dependencyManagement>, all keys distinct.
type pchDecl struct {
	Level int
	Mgmt  bool
	A     string // artifactId; groupId is dep.g
	Ver   string
	G     string `json:",omitempty"` // group id as written when it is not dep.g: ${project.groupId} / ${pom.groupId} (the CHILD's group, also in a parent)
	// Prop != "": the version is written ${Prop}; the definition <Prop>Ver</Prop> that takes effect sits at level PropLevel — the
	// declaring pom, one of its ancestors, or a pom BELOW it (the child's definition overrides the inherited one; with Decoy the
	// declaring pom carries a definition of its own, 0.0.1, that is overridden)
	Prop      string `json:",omitempty"`
	PropLevel int    `json:",omitempty"`
	Decoy     bool   `json:",omitempty"`
	// Profile != "": the entry sits in <profiles><profile><id>Profile</id> of its level.  Read reports the manifest's own profile
	// entries (level 0) among the requirements for updates; a parent's profile entries are no requirement of the manifest
	Profile string `json:",omitempty"`
}
type pchCase struct {
	Depth      int   // number of parents: 1..3
	OmitGroup  []bool // per level below the top
	OmitVer    []bool
	ExplicitRP []bool // <relativePath>../pom.xml</relativePath> written out
	Decls      []pchDecl
	Ups        []int    // indices into Decls
	To         []string // new version per update
	SamePath   bool
	ChildGroup bool `json:",omitempty"` // the child declares its own group id child.g (its parents are chain.g)
	DirRP      []bool `json:",omitempty"` // with ExplicitRP: <relativePath>..</relativePath> (a directory) instead of ../pom.xml
	AtDir      bool   `json:",omitempty"` // the module directories are named m@<level> (finding C13/pom-parent-path-at)
}

// pchGroup is the group id Read reports for a declaration.
func pchGroup(c pchCase, d pchDecl) string {
	if d.G == "" {
		return "dep.g"
	}
	if c.ChildGroup {
		return "child.g"
	}
	return "chain.g"
}

func (c pchCase) concrete() string {
	b, err := json.Marshal(c)
	must(err)
	return "pch " + hex.EncodeToString(b)
}

func parsePch(t []string) pchCase {
	b, err := hex.DecodeString(t[1])
	must(err)
	var c pchCase
	must(json.Unmarshal(b, &c))
	return c
}

// pchDir returns the directory of a level relative to the layout root: the top parent sits in ".", each level below in a sub-directory.
func pchDir(c pchCase, level int) string {
	parts := []string{}
	for l := c.Depth - 1; l >= level; l-- {
		if c.AtDir {
			parts = append(parts, fmt.Sprintf("m@%d", l))
		} else {
			parts = append(parts, fmt.Sprintf("m%d", l))
		}
	}
	return filepath.Join(parts...)
}

func pchPom(c pchCase, level int) string {
	var sb strings.Builder
	w := func(s string) { sb.WriteString(s + "\n") }
	w("<project>")
	w("  <modelVersion>4.0.0</modelVersion>")
	if level < c.Depth { // has a parent
		w("  <parent>")
		w("    <groupId>chain.g</groupId>")
		w(fmt.Sprintf("    <artifactId>level%d</artifactId>", level+1))
		w("    <version>7.0</version>")
		if c.ExplicitRP[level] {
			if len(c.DirRP) > level && c.DirRP[level] {
				w("    <relativePath>..</relativePath>") // the directory: pom.xml inside it is meant
			} else {
				w("    <relativePath>../pom.xml</relativePath>")
			}
		}
		w("  </parent>")
	}
	if level == 0 && c.ChildGroup {
		w("  <groupId>child.g</groupId>")
	} else if level == c.Depth || !c.OmitGroup[level] {
		w("  <groupId>chain.g</groupId>")
	}
	w(fmt.Sprintf("  <artifactId>level%d</artifactId>", level))
	if level == c.Depth || !c.OmitVer[level] {
		w("  <version>7.0</version>")
	}
	if level > 0 {
		w("  <packaging>pom</packaging>")
	}
	w("  <!-- level " + strconv.Itoa(level) + " -->")
	var props []string
	for _, d := range c.Decls {
		if d.Prop == "" {
			continue
		}
		if d.PropLevel == level {
			if line := "    <" + d.Prop + ">" + d.Ver + "</" + d.Prop + ">"; !slices.Contains(props, line) { // a property shared by entries is defined once
				props = append(props, line)
			}
		} else if d.Decoy && d.Level == level && d.PropLevel < level {
			props = append(props, "    <"+d.Prop+">0.0.1</"+d.Prop+">")
		}
	}
	if len(props) > 0 {
		w("  <properties>")
		for _, p := range props {
			w(p)
		}
		w("  </properties>")
	}
	section := func(base, profile string) {
		for _, mgmt := range []bool{false, true} {
			var ds []pchDecl
			for _, d := range c.Decls {
				if d.Level == level && d.Mgmt == mgmt && d.Profile == profile {
					ds = append(ds, d)
				}
			}
			if len(ds) == 0 {
				continue
			}
			ind := base
			if mgmt {
				w(base + "<dependencyManagement>")
				ind = base + "  "
			}
			w(ind + "<dependencies>")
			for _, d := range ds {
				w(ind + "  <dependency>")
				if d.G != "" {
					w(ind + "    <groupId>" + d.G + "</groupId>")
				} else {
					w(ind + "    <groupId>dep.g</groupId>")
				}
				w(ind + "    <artifactId>" + d.A + "</artifactId>")
				if d.Prop != "" {
					w(ind + "    <version>${" + d.Prop + "}</version>")
				} else {
					w(ind + "    <version>" + d.Ver + "</version>")
				}
				w(ind + "  </dependency>")
			}
			w(ind + "</dependencies>")
			if mgmt {
				w(base + "</dependencyManagement>")
			}
		}
	}
	section("  ", "")
	var profs []string
	for _, d := range c.Decls {
		if d.Level == level && d.Profile != "" && !slices.Contains(profs, d.Profile) {
			profs = append(profs, d.Profile)
		}
	}
	if len(profs) > 0 {
		w("  <profiles>")
		for _, id := range profs {
			w("    <profile>")
			w("      <id>" + id + "</id>")
			section("      ", id)
			w("    </profile>")
		}
		w("  </profiles>")
	}
	w("</project>")
	return sb.String()
}

func pchReqs(m guidedremediation.VerifManifest) (string, []resolve.RequirementVersion) {
	var rs []string
	list := slices.Clone(m.Requirements())
	// the manifest's own profile entries are requirements for updates (the <parent> element is one too: left out here)
	for _, r := range m.EcosystemSpecific().(guidedremediation.VerifMavenSpecific).RequirementsForUpdates {
		if o, _ := r.Type.GetAttr(dep.MavenDependencyOrigin); o != "parent" {
			list = append(list, r)
		}
	}
	for _, r := range list {
		g, a := splitGA(r.Name)
		t, _ := r.Type.GetAttr(dep.MavenArtifactType)
		cl, _ := r.Type.GetAttr(dep.MavenClassifier)
		o, _ := r.Type.GetAttr(dep.MavenDependencyOrigin)
		rs = append(rs, strings.Join([]string{hs(o), hs(g), hs(a), hs(normTyp(t)), hs(cl), hs(r.Version)}, ":"))
	}
	sort.Strings(rs)
	return hx.Join(rs, ","), list
}

func runPch(c pchCase) (line string, reply string) {
	before, ups := "-", "-"
	reply = hx.Guard(func() string {
		root, err := os.MkdirTemp(scratch, "c")
		must(err)
		defer os.RemoveAll(root)
		src := map[string]string{}
		for l := 0; l <= c.Depth; l++ {
			rel := filepath.Join(pchDir(c, l), "pom.xml")
			src[rel] = pchPom(c, l)
			must(os.MkdirAll(filepath.Join(root, "in", filepath.Dir(rel)), 0o755))
			must(os.WriteFile(filepath.Join(root, "in", rel), []byte(src[rel]), 0o644))
		}
		childRel := filepath.ToSlash(filepath.Join("in", pchDir(c, 0), "pom.xml"))
		rw, err := guidedremediation.VerifMavenReadWriter("http://127.0.0.1:1/")
		must(err)
		m, err := rw.Read(childRel, scalibrfs.DirFS(root))
		if err != nil {
			return "r=readerr"
		}
		var reqList []resolve.RequirementVersion
		before, reqList = pchReqs(m)
		var pus []result.PackageUpdate
		var us []string
		touched := map[int]bool{}
		var sentTo, added []string
		propTo := map[string]string{}
		for i, di := range c.Ups {
			d := c.Decls[di]
			if d.Profile != "" && d.Level > 0 {
				// a parent's profile entry is no requirement of the manifest: the update (say, an override of a transitive dependency)
				// names a key that only this declaration holds; the writer rewrites the declaration it finds for a key
				ty := dep.NewType()
				ty.AddAttr(dep.MavenDependencyOrigin, "management")
				name := pchGroup(c, d) + ":" + d.A
				pus = append(pus, result.PackageUpdate{Name: name, VersionTo: c.To[i], Type: ty, Transitive: true})
				us = append(us, strings.Join([]string{hs(name), hs(""), hs(""), hs("management"), hs(""), hs(c.To[i])}, ":"))
				sentTo = append(sentTo, c.To[i])
				if d.Mgmt {
					touched[d.Level] = true // a dependencyManagement declaration (of the parent's profile) takes the dependencyManagement requirement
				} else {
					// fix b0b162fc: a dependencyManagement requirement is never written into a declaration outside dependencyManagement:
					// the manifest gets a dependencyManagement entry of its own
					touched[0] = true
					g, a := splitGA(name)
					added = append(added, strings.Join([]string{hs("management"), hs(g), hs(a), hs("jar"), hs(""), hs(c.To[i])}, ":"))
				}
				continue
			}
			for _, r := range reqList {
				o, _ := r.Type.GetAttr(dep.MavenDependencyOrigin)
				if r.Name == pchGroup(c, d)+":"+d.A && (o == "management") == d.Mgmt {
					pus = append(pus, result.PackageUpdate{Name: r.Name, VersionFrom: r.Version, VersionTo: c.To[i], Type: r.Type.Clone()})
					us = append(us, strings.Join([]string{hs(r.Name), hs(""), hs(""), hs(o), hs(r.Version), hs(c.To[i])}, ":"))
					sentTo = append(sentTo, c.To[i])
					if first, ok := propTo[d.Prop]; d.Prop != "" && ok && first != c.To[i] {
						// the property already goes to another value (an entry that shares it): this entry gets its version written
						// out, in the pom that DECLARES it
						touched[d.Level] = true
					} else if d.Prop != "" {
						touched[d.PropLevel] = true // the file that holds the definition in force
						propTo[d.Prop] = c.To[i]
					} else {
						touched[d.Level] = true
					}
					break
				}
			}
		}
		ups = hx.Join(us, ",")
		outBase := "out"
		if c.SamePath {
			outBase = "in"
		}
		outChild := filepath.Join(root, outBase, pchDir(c, 0), "pom.xml")
		if err := rw.Write(m, scalibrfs.DirFS(root), []result.Patch{{PackageUpdates: pus}}, outChild); err != nil {
			return "r=err"
		}
		// every file of the chain must be next to the output, and untouched levels byte-identical
		same := true
		var allIn, allOut strings.Builder
		for l := 0; l <= c.Depth; l++ {
			rel := filepath.Join(pchDir(c, l), "pom.xml")
			b, err := os.ReadFile(filepath.Join(root, outBase, rel))
			if err != nil {
				return fmt.Sprintf("r=ok-missing-level%d", l)
			}
			if !touched[l] && string(b) != src[rel] {
				same = false
			}
			allIn.WriteString(src[rel])
			allOut.Write(b)
		}
		// success without applying: the new version of every update sent must be the text of some element of the written files
		// (a <version> or a property) more often than before
		applied := ""
		for _, to := range sentTo {
			applied += hx.B(strings.Count(allOut.String(), ">"+to+"<") > strings.Count(allIn.String(), ">"+to+"<"))
		}
		if applied == "" {
			applied = "-"
		}
		m2, err := rw.Read(filepath.ToSlash(filepath.Join(outBase, pchDir(c, 0), "pom.xml")), scalibrfs.DirFS(root))
		if err != nil {
			return "r=ok-rereaderr"
		}
		after, _ := pchReqs(m2)
		return fmt.Sprintf("r=ok chain=%s same=%s applied=%s added=%s", after, hx.B(same), applied, hx.Join(added, ","))
	})
	return c.concrete() + " " + ups + " " + before, reply
}

func genPch(r *rand.Rand) pchCase {
	c := pchCase{Depth: 1 + r.Intn(3), SamePath: r.Intn(2) == 0}
	for l := 0; l < c.Depth; l++ {
		c.OmitGroup = append(c.OmitGroup, r.Intn(2) == 0)
		c.OmitVer = append(c.OmitVer, r.Intn(2) == 0)
		c.ExplicitRP = append(c.ExplicitRP, r.Intn(2) == 0)
		c.DirRP = append(c.DirRP, r.Intn(3) == 0)
	}
	names := []string{"a", "b", "c", "d", "e", "f", "g"}
	r.Shuffle(len(names), func(i, j int) { names[i], names[j] = names[j], names[i] })
	k := 0
	for l := 0; l <= c.Depth; l++ {
		for n := r.Intn(3); n > 0 && k < len(names); n-- {
			c.Decls = append(c.Decls, pchDecl{Level: l, Mgmt: r.Intn(3) == 0, A: names[k], Ver: pomVers[r.Intn(6)]})
			k++
		}
	}
	if len(c.Decls) == 0 {
		c.Decls = []pchDecl{{Level: c.Depth, A: "a", Ver: "1.0"}}
	}
	// every third layout: sibling-module style group ids, resolved with the coordinates of the project being read (the child)
	if r.Intn(3) == 0 {
		c.ChildGroup = r.Intn(2) == 0
		for i := range c.Decls {
			if r.Intn(2) == 0 {
				c.Decls[i].G = []string{"${project.groupId}", "${pom.groupId}"}[r.Intn(2)]
			}
		}
	}
	// every third layout: versions through properties (one property per entry) and entries inside profiles of the manifest
	if r.Intn(3) == 0 {
		for i := range c.Decls {
			d := &c.Decls[i]
			switch r.Intn(4) {
			case 0:
				d.Prop, d.PropLevel = "v."+d.A, d.Level // defined by the pom that declares the entry
				pchCrossLevelProperty(r, c, d)
			case 1:
				if d.Level == 0 && d.G == "" {
					d.Profile = []string{"p1", "p2"}[r.Intn(2)]
				} else {
					pchParentProfile(r, d)
				}
			}
		}
	}
	c.AtDir = r.Intn(12) == 0
	for i := range c.Decls {
		if r.Intn(2) == 0 || c.Decls[i].Profile != "" && c.Decls[i].Level > 0 {
			c.Ups = append(c.Ups, i)
			c.To = append(c.To, pomTo[r.Intn(len(pomTo))])
		}
	}
	pchSharedParentProperty(r, &c)
	return c
}

// pchSharedParentProperty: every fourth layout, two entries of the CHILD take their version from one property that a local parent
// defines, and both are updated — two times out of three to different versions.  The first update moves the property (in the
// parent's file); the second cannot, so the entry's version is written out — in the child, the pom that declares the entry (a
// refactoring filed it with the patches of the pom that defines the property, where no such entry exists).
func pchSharedParentProperty(r *rand.Rand, c *pchCase) {
	if r.Intn(4) != 0 {
		return
	}
	lvl, ver := 1+r.Intn(c.Depth), pomVers[r.Intn(6)]
	to := []string{pomTo[r.Intn(len(pomTo))], pomTo[r.Intn(len(pomTo))]}
	if r.Intn(3) == 0 {
		to[1] = to[0]
	}
	for i, a := range []string{"s1", "s2"} {
		c.Decls = append(c.Decls, pchDecl{Level: 0, Mgmt: r.Intn(3) == 0, A: a, Ver: ver, Prop: "v.shared", PropLevel: lvl})
		c.Ups = append(c.Ups, len(c.Decls)-1)
		c.To = append(c.To, to[i])
	}
}

// pchCrossLevelProperty (fix 95fbdd2e): two times out of three the definition of the property that takes effect is NOT in the pom
// that declares the entry: an ancestor defines it (the usual versions-in-the-parent layout), or a pom below overrides it — then the
// declaring pom may carry a definition of its own that is not the one in force.  The patch has to go to the file whose definition
// counts (it was filed under the declaring file: nothing written, or the overridden definition rewritten, and Write returned nil).
func pchCrossLevelProperty(r *rand.Rand, c pchCase, d *pchDecl) {
	switch r.Intn(3) {
	case 0:
		if d.Level < c.Depth {
			d.PropLevel = d.Level + 1 + r.Intn(c.Depth-d.Level)
		}
	case 1:
		if d.Level > 0 {
			d.PropLevel = r.Intn(d.Level)
			d.Decoy = r.Intn(2) == 0
		}
	}
}

// pchParentProfile (fix 8949b234): the entry moves into a profile of the PARENT that declares it.  It is then no requirement of the
// manifest; an update naming its key is filed under the origin parent@<path>@profile@<id>[@management], which parentPathFromOrigin
// took apart wrongly (the rest joined without separators), so that Write returned nil and wrote the new version nowhere.
func pchParentProfile(r *rand.Rand, d *pchDecl) {
	if d.Level > 0 && d.G == "" {
		d.Profile = []string{"p1", "p2"}[r.Intn(2)]
	}
}

// ---------------------------------------------------------------------------------------------- prm (remote parent, BOM import, repositories)

// prmCase: a single pom.xml whose <parent> is NOT on disk but in a Maven repository (served by an in-process registry), optionally
// importing a BOM (dependencyManagement entry of type pom, scope import) from there and naming the registry a second time in
// <repositories>.  The remote parent declares dependencies (explicit versions), dependencyManagement entries and properties.
// The child's entries are written with a literal version, with ${property} (defined by the child or only by the remote parent) or
// without a version (managed by the parent's or the BOM's dependencyManagement).
type prmDecl struct {
	A    string
	Ver  string // version in force
	How  string // "lit", "cprop" (child property), "pprop" (property of the remote parent), "pmgmt" / "bom" (no <version>: managed)
	Mgmt bool   `json:",omitempty"` // the child declares it in dependencyManagement (only lit / cprop)
}
type prmCase struct {
	ParentVer   string    // version of the remote parent the child names; the registry also holds ParentVer2 (same content)
	ParentVer2  string
	ParentDeps  []prmDecl // dependencies the remote parent declares (literal versions); inherited by the child
	Child       []prmDecl
	Bom         bool // some BOM is imported (needed by How == "bom")
	Repo        bool // <repositories> names the registry once more
	Ups         []int
	To          []string
	UpParent    bool   // update the <parent> version ParentVer -> ParentVer2
	UpBom       bool   // update the BOM import 1.0 -> 2.0 (same content)
	UpInherited int    `json:",omitempty"` // 1 + index into ParentDeps: an update addressed to a dependency inherited from the remote parent
	ToInherited string `json:",omitempty"`
	// Decoy: a pom.xml lies where the default relativePath points (../pom.xml) but it is another project ("ids": other coordinates,
	// "jar": right coordinates, packaging jar): it must be passed over, for reading and for writing, and stay byte-identical.
	Decoy string `json:",omitempty"`
	// ParentRepo: the remote parent names the registry in <repositories> of its own.
	ParentRepo bool `json:",omitempty"`
	// Bad: the registry answers with a project that cannot be the parent — "cycle" (it names itself as its parent), "jar" (the
	// grandparent has packaging jar), "ids" (other coordinates than asked for), "missing" (404): Read must fail, nothing may be written.
	Bad string `json:",omitempty"`
}

func (c prmCase) concrete() string {
	b, err := json.Marshal(c)
	must(err)
	return "prm " + hex.EncodeToString(b)
}

func parsePrm(t []string) prmCase {
	b, err := hex.DecodeString(t[1])
	must(err)
	var c prmCase
	must(json.Unmarshal(b, &c))
	return c
}

var registry *remx.Registry

func prmPoms(c prmCase) (child string, remote map[string]string) {
	dep := func(ind, g, a, ver, extra string) string {
		s := ind + "<dependency>\n" + ind + "  <groupId>" + g + "</groupId>\n" + ind + "  <artifactId>" + a + "</artifactId>\n"
		if ver != "" {
			s += ind + "  <version>" + ver + "</version>\n"
		}
		return s + extra + ind + "</dependency>\n"
	}
	parent := func(ver string) string {
		var par strings.Builder
		par.WriteString("<project>\n  <modelVersion>4.0.0</modelVersion>\n")
		switch c.Bad {
		case "cycle":
			par.WriteString("  <parent><groupId>reg.g</groupId><artifactId>par</artifactId><version>" + ver + "</version></parent>\n")
		case "jar":
			par.WriteString("  <parent><groupId>reg.g</groupId><artifactId>grand</artifactId><version>1</version></parent>\n")
		}
		if c.Bad == "ids" {
			par.WriteString("  <groupId>reg.g</groupId>\n  <artifactId>somebody-else</artifactId>\n  <version>" + ver + "</version>\n  <packaging>pom</packaging>\n")
		} else {
			par.WriteString("  <groupId>reg.g</groupId>\n  <artifactId>par</artifactId>\n  <version>" + ver + "</version>\n  <packaging>pom</packaging>\n")
		}
		if c.ParentRepo {
			par.WriteString("  <repositories>\n    <repository>\n      <id>fromparent</id>\n      <url>" + registry.URL + "/</url>\n    </repository>\n  </repositories>\n")
		}
		par.WriteString("  <properties>\n")
		for _, d := range c.Child {
			if d.How == "pprop" {
				par.WriteString("    <p." + d.A + ">" + d.Ver + "</p." + d.A + ">\n")
			}
		}
		par.WriteString("    <unused.prop>0</unused.prop>\n  </properties>\n")
		par.WriteString("  <dependencyManagement>\n    <dependencies>\n")
		for _, d := range c.Child {
			if d.How == "pmgmt" {
				par.WriteString(dep("      ", "dep.g", d.A, d.Ver, ""))
			}
		}
		par.WriteString("    </dependencies>\n  </dependencyManagement>\n  <dependencies>\n")
		for _, d := range c.ParentDeps {
			par.WriteString(dep("    ", "dep.g", d.A, d.Ver, ""))
		}
		par.WriteString("  </dependencies>\n</project>\n")
		return par.String()
	}
	bom := func(ver string) string {
		var sb strings.Builder
		sb.WriteString("<project>\n  <modelVersion>4.0.0</modelVersion>\n  <groupId>reg.g</groupId>\n  <artifactId>bom</artifactId>\n  <version>" + ver + "</version>\n  <packaging>pom</packaging>\n  <dependencyManagement>\n    <dependencies>\n")
		for _, d := range c.Child {
			if d.How == "bom" {
				sb.WriteString(dep("      ", "dep.g", d.A, d.Ver, ""))
			}
		}
		sb.WriteString("    </dependencies>\n  </dependencyManagement>\n</project>\n")
		return sb.String()
	}
	remote = map[string]string{"reg.g:par:" + c.ParentVer: parent(c.ParentVer), "reg.g:par:" + c.ParentVer2: parent(c.ParentVer2)}
	if c.Bad == "missing" { // the repository does not have the parent at all
		remote = map[string]string{}
	}
	if c.Bom {
		remote["reg.g:bom:1.0"] = bom("1.0")
		remote["reg.g:bom:2.0"] = bom("2.0")
	}
	if c.Bad == "jar" {
		remote["reg.g:grand:1"] = "<project>\n  <modelVersion>4.0.0</modelVersion>\n  <groupId>reg.g</groupId>\n  <artifactId>grand</artifactId>\n  <version>1</version>\n  <packaging>jar</packaging>\n</project>\n"
	}
	var sb strings.Builder
	sb.WriteString("<project>\n  <modelVersion>4.0.0</modelVersion>\n  <parent>\n    <groupId>reg.g</groupId>\n    <artifactId>par</artifactId>\n    <version>" + c.ParentVer + "</version>\n  </parent>\n")
	sb.WriteString("  <artifactId>kid</artifactId>\n  <version>1.0</version>\n")
	if c.Repo {
		sb.WriteString("  <repositories>\n    <repository>\n      <id>second</id>\n      <url>" + registry.URL + "/</url>\n    </repository>\n  </repositories>\n")
	}
	sb.WriteString("  <properties>\n")
	for _, d := range c.Child {
		if d.How == "cprop" {
			sb.WriteString("    <c." + d.A + ">" + d.Ver + "</c." + d.A + ">\n")
		}
	}
	sb.WriteString("    <other>x</other>\n  </properties>\n")
	ver := func(d prmDecl) string {
		switch d.How {
		case "lit":
			return d.Ver
		case "cprop":
			return "${c." + d.A + "}"
		case "pprop":
			return "${p." + d.A + "}"
		}
		return ""
	}
	sb.WriteString("  <dependencyManagement>\n    <dependencies>\n")
	if c.Bom {
		sb.WriteString(dep("      ", "reg.g", "bom", "1.0", "        <type>pom</type>\n        <scope>import</scope>\n"))
	}
	for _, d := range c.Child {
		if d.Mgmt {
			sb.WriteString(dep("      ", "dep.g", d.A, ver(d), ""))
		}
	}
	sb.WriteString("    </dependencies>\n  </dependencyManagement>\n  <dependencies>\n")
	for _, d := range c.Child {
		if !d.Mgmt {
			sb.WriteString(dep("    ", "dep.g", d.A, ver(d), ""))
		}
	}
	sb.WriteString("  </dependencies>\n</project>\n")
	return sb.String(), remote
}

// prmReqs lists Requirements() and RequirementsForUpdates (the <parent> and the BOM import among them).
func prmReqs(m guidedremediation.VerifManifest) (string, []resolve.RequirementVersion) {
	list := slices.Clone(m.Requirements())
	list = append(list, m.EcosystemSpecific().(guidedremediation.VerifMavenSpecific).RequirementsForUpdates...)
	var rs []string
	for _, r := range list {
		g, a := splitGA(r.Name)
		t, _ := r.Type.GetAttr(dep.MavenArtifactType)
		cl, _ := r.Type.GetAttr(dep.MavenClassifier)
		o, _ := r.Type.GetAttr(dep.MavenDependencyOrigin)
		rs = append(rs, strings.Join([]string{hs(o), hs(g), hs(a), hs(normTyp(t)), hs(cl), hs(r.Version)}, ":"))
	}
	sort.Strings(rs)
	return hx.Join(rs, ","), list
}

func runPrm(c prmCase) (line string, reply string) {
	before, ups := "-", "-"
	reply = hx.Guard(func() string {
		child, remote := prmPoms(c)
		registry.Set(remote)
		dir, err := os.MkdirTemp(scratch, "r")
		must(err)
		defer os.RemoveAll(dir)
		must(os.MkdirAll(filepath.Join(dir, "kid"), 0o755))
		must(os.WriteFile(filepath.Join(dir, "kid", "pom.xml"), []byte(child), 0o644))
		decoy := ""
		switch c.Decoy {
		case "ids":
			decoy = "<project>\n  <groupId>reg.g</groupId>\n  <artifactId>neighbour</artifactId>\n  <version>" + c.ParentVer + "</version>\n  <packaging>pom</packaging>\n  <dependencies>\n    <dependency><groupId>dep.g</groupId><artifactId>zz</artifactId><version>1.0</version></dependency>\n  </dependencies>\n</project>\n"
		case "jar":
			decoy = "<project>\n  <groupId>reg.g</groupId>\n  <artifactId>par</artifactId>\n  <version>" + c.ParentVer + "</version>\n  <dependencies>\n    <dependency><groupId>dep.g</groupId><artifactId>zz</artifactId><version>1.0</version></dependency>\n  </dependencies>\n</project>\n"
		}
		if decoy != "" {
			must(os.WriteFile(filepath.Join(dir, "pom.xml"), []byte(decoy), 0o644))
		}
		rw, err := guidedremediation.VerifMavenReadWriter(registry.URL)
		must(err)
		m, err := rw.Read("kid/pom.xml", scalibrfs.DirFS(dir))
		if err != nil {
			if c.Bad != "" {
				return "r=ok refused=1" // the expected outcome
			}
			return "r=readerr"
		}
		var reqList []resolve.RequirementVersion
		before, reqList = prmReqs(m)
		var pus []result.PackageUpdate
		var us, sentTo []string
		send := func(name, origin, typ, to string) bool {
			for _, r := range reqList {
				o, _ := r.Type.GetAttr(dep.MavenDependencyOrigin)
				t, _ := r.Type.GetAttr(dep.MavenArtifactType)
				if r.Name == name && o == origin && normTyp(t) == normTyp(typ) {
					pus = append(pus, result.PackageUpdate{Name: r.Name, VersionFrom: r.Version, VersionTo: to, Type: r.Type.Clone()})
					us = append(us, strings.Join([]string{hs(r.Name), hs(t), hs(""), hs(o), hs(r.Version), hs(to)}, ":"))
					sentTo = append(sentTo, to)
					return true
				}
			}
			return false
		}
		for i, di := range c.Ups {
			d := c.Child[di]
			o := ""
			if d.Mgmt {
				o = "management"
			}
			if send("dep.g:"+d.A, o, "", c.To[i]) && (d.How == "pmgmt" || d.How == "bom") {
				// a dependency without <version> IS its managing entry: the only way to change its requirement is a dependencyManagement
				// entry of the pom itself (which shadows the inherited / imported one), so the management requirement of the key moves with it
				us = append(us, strings.Join([]string{hs("dep.g:" + d.A), hs(""), hs(""), hs("management"), hs(d.Ver), hs(c.To[i])}, ":"))
			}
		}
		if c.UpParent {
			send("reg.g:par", "parent", "pom", c.ParentVer2)
		}
		if c.UpBom && c.Bom {
			send("reg.g:bom", "management", "pom", "2.0")
		}
		if c.UpInherited > 0 {
			send("dep.g:"+c.ParentDeps[c.UpInherited-1].A, "", "", c.ToInherited)
		}
		ups = hx.Join(us, ",")
		out := filepath.Join(dir, "kid", "pom.xml")
		if err := rw.Write(m, scalibrfs.DirFS(dir), []result.Patch{{PackageUpdates: pus}}, out); err != nil {
			return "r=err"
		}
		b, err := os.ReadFile(out)
		if err != nil {
			return "r=ok-nofile"
		}
		if decoy != "" {
			if d, err := os.ReadFile(filepath.Join(dir, "pom.xml")); err != nil || string(d) != decoy {
				return "r=ok-decoy-touched"
			}
		}
		rw2, err := guidedremediation.VerifMavenReadWriter(registry.URL) // a fresh client: nothing cached from the first read
		must(err)
		m2, err := rw2.Read("kid/pom.xml", scalibrfs.DirFS(dir))
		if err != nil {
			return "r=ok-rereaderr"
		}
		after, _ := prmReqs(m2)
		applied := ""
		for _, to := range sentTo {
			applied += hx.B(strings.Count(string(b), ">"+to+"<") > strings.Count(child, ">"+to+"<"))
		}
		if applied == "" {
			applied = "-"
		}
		id := "-"
		if len(pus) == 0 {
			id = hx.B(string(b) == child)
		}
		return fmt.Sprintf("r=ok chain=%s applied=%s id=%s", after, applied, id)
	})
	return c.concrete() + " " + ups + " " + before, reply
}

func genPrm(r *rand.Rand) prmCase {
	c := prmCase{ParentVer: []string{"1", "3.1"}[r.Intn(2)], Repo: r.Intn(3) == 0}
	c.ParentVer2 = map[string]string{"1": "2", "3.1": "3.2"}[c.ParentVer]
	names := []string{"a", "b", "c", "d", "e", "f", "g", "h"}
	r.Shuffle(len(names), func(i, j int) { names[i], names[j] = names[j], names[i] })
	k := 0
	for n := r.Intn(3); n > 0; n-- {
		c.ParentDeps = append(c.ParentDeps, prmDecl{A: names[k], Ver: pomVers[r.Intn(6)], How: "lit"})
		k++
	}
	for n := 1 + r.Intn(4); n > 0 && k < len(names); n-- {
		d := prmDecl{A: names[k], Ver: pomVers[r.Intn(6)], How: []string{"lit", "lit", "cprop", "pprop", "pmgmt", "bom"}[r.Intn(6)]}
		if (d.How == "lit" || d.How == "cprop") && r.Intn(4) == 0 {
			d.Mgmt = true
		}
		if d.How == "bom" {
			c.Bom = true
		}
		c.Child = append(c.Child, d)
		k++
	}
	if r.Intn(4) == 0 {
		c.Bom = true
	}
	for i := range c.Child {
		if r.Intn(2) == 0 {
			c.Ups = append(c.Ups, i)
			c.To = append(c.To, pomTo[r.Intn(len(pomTo))])
		}
	}
	c.UpParent = r.Intn(4) == 0
	c.UpBom = c.Bom && r.Intn(3) == 0
	if len(c.ParentDeps) > 0 && r.Intn(3) == 0 {
		c.UpInherited = 1 + r.Intn(len(c.ParentDeps))
		c.ToInherited = pomTo[r.Intn(len(pomTo))]
	}
	if r.Intn(3) == 0 {
		c.Decoy = []string{"ids", "jar"}[r.Intn(2)]
	}
	c.ParentRepo = r.Intn(4) == 0
	if r.Intn(12) == 0 {
		c.Bad = []string{"cycle", "jar", "ids", "missing"}[r.Intn(4)]
	}
	return c
}

// ---------------------------------------------------------------------------------------------- nws (npm workspaces)

// nwsCase: a root package.json with "workspaces" (a glob or explicit directories) and one to three workspace packages, each a
// package.json of its own with dependencies — on registry packages, on a sibling workspace, on what the root requires too.  The root
// may depend on a workspace by name.  Read reports the root's requirements plus one "<name>:workspace" requirement per workspace;
// Write rewrites the ROOT file only.  Specification verdict only (as pch): re-read = substitute(requirements before, updates), the
// workspace files stay byte-identical, and in the root file only values change.
type nwsPkg struct {
	Dir  string
	Name string
	Deps [][2]string
	Dev  [][2]string `json:",omitempty"`
}
type nwsCase struct {
	Glob     bool // "workspaces": ["packages/*"] instead of the directories one by one
	Root     [3][][2]string // dev, optional, regular
	Pkgs     []nwsPkg
	Ups      [][3]string // name, from, to
	SamePath bool
}

func (c nwsCase) concrete() string {
	b, err := json.Marshal(c)
	must(err)
	return "nws " + hex.EncodeToString(b)
}

func parseNws(t []string) nwsCase {
	b, err := hex.DecodeString(t[1])
	must(err)
	var c nwsCase
	must(json.Unmarshal(b, &c))
	return c
}

func nwsJSON(name string, secs [3][][2]string, workspaces []string) string {
	var sb strings.Builder
	sb.WriteString("{\n  \"name\": " + jsonStr(name) + ",\n  \"version\": \"1.0.0\"")
	if workspaces != nil {
		var ws []string
		for _, w := range workspaces {
			ws = append(ws, jsonStr(w))
		}
		sb.WriteString(",\n  \"workspaces\": [" + strings.Join(ws, ", ") + "]")
	}
	for i, key := range []string{"devDependencies", "optionalDependencies", "dependencies"} {
		if len(secs[i]) == 0 {
			continue
		}
		var es []string
		for _, e := range secs[i] {
			es = append(es, "    "+jsonStr(e[0])+": "+jsonStr(e[1]))
		}
		sb.WriteString(",\n  \"" + key + "\": {\n" + strings.Join(es, ",\n") + "\n  }")
	}
	sb.WriteString("\n}\n")
	return sb.String()
}

var nwsValue = regexp.MustCompile(`": "[^"]*"`)

func runNws(c nwsCase) (line string, reply string) {
	before, ups := "-", "-"
	reply = hx.Guard(func() string {
		dir, err := os.MkdirTemp(scratch, "w")
		must(err)
		defer os.RemoveAll(dir)
		var ws []string
		files := map[string]string{}
		for _, p := range c.Pkgs {
			ws = append(ws, p.Dir)
			files[p.Dir+"/package.json"] = nwsJSON(p.Name, [3][][2]string{p.Dev, nil, p.Deps}, nil)
		}
		if c.Glob {
			ws = []string{"packages/*"}
		}
		src := nwsJSON("root", c.Root, ws)
		files["package.json"] = src
		for f, b := range files {
			must(os.MkdirAll(filepath.Dir(filepath.Join(dir, "in", f)), 0o755))
			must(os.WriteFile(filepath.Join(dir, "in", f), []byte(b), 0o644))
		}
		rw, err := guidedremediation.VerifNpmReadWriter()
		must(err)
		m, err := rw.Read("in/package.json", scalibrfs.DirFS(dir))
		if err != nil {
			return "r=readerr"
		}
		before = npmReqs(m)
		nloc := len(m.LocalManifests())
		var pus []result.PackageUpdate
		var us []string
		for _, u := range c.Ups {
			pus = append(pus, result.PackageUpdate{Name: u[0], VersionFrom: u[1], VersionTo: u[2], Type: dep.NewType()})
			us = append(us, hs(u[0])+":~:"+hs(u[1])+":"+hs(u[2]))
		}
		ups = hx.Join(us, ",")
		outRel := "out/package.json"
		if c.SamePath {
			outRel = "in/package.json"
		}
		if !c.SamePath { // the workspace files next to the new root, so that the result can be read back
			for f, b := range files {
				if f != "package.json" {
					must(os.MkdirAll(filepath.Dir(filepath.Join(dir, "out", f)), 0o755))
					must(os.WriteFile(filepath.Join(dir, "out", f), []byte(b), 0o644))
				}
			}
		}
		if err := rw.Write(m, scalibrfs.DirFS(dir), []result.Patch{{PackageUpdates: pus}}, filepath.Join(dir, filepath.FromSlash(outRel))); err != nil {
			return "r=err"
		}
		b, err := os.ReadFile(filepath.Join(dir, filepath.FromSlash(outRel)))
		if err != nil {
			return "r=ok-nofile"
		}
		m2, err := rw.Read(outRel, scalibrfs.DirFS(dir))
		if err != nil {
			return "r=ok-rereaderr"
		}
		same := true
		for f, want := range files {
			if f == "package.json" {
				continue
			}
			got, err := os.ReadFile(filepath.Join(dir, filepath.Dir(outRel), f))
			same = same && err == nil && string(got) == want
		}
		rest := nwsValue.ReplaceAllString(string(b), `": ""`) == nwsValue.ReplaceAllString(src, `": ""`)
		return fmt.Sprintf("r=ok wreqs=%s same=%s rest=%s locals=%d", npmReqs(m2), hx.B(same), hx.B(rest), nloc)
	})
	return c.concrete() + " " + ups + " " + before, reply
}

func genNws(r *rand.Rand) nwsCase {
	c := nwsCase{Glob: r.Intn(2) == 0, SamePath: r.Intn(2) == 0}
	regs := []string{"lodash", "socket.io", "@scope/beta", "left-pad", "a.b", "chalk"}
	vers := []string{"^1.0.0", "~1.2.3", "1.0.0", ">=2.0.0 <3.0.0", "*", "^0.4.1"}
	n := 1 + r.Intn(3)
	wsNames := []string{"ws-a", "@mono/ws.b", "ws-c"}
	for i := 0; i < n; i++ {
		p := nwsPkg{Dir: "packages/" + []string{"a", "b", "c"}[i], Name: wsNames[i]}
		for _, j := range r.Perm(len(regs))[:r.Intn(3)] {
			p.Deps = append(p.Deps, [2]string{regs[j], vers[r.Intn(len(vers))]})
		}
		if i > 0 && r.Intn(2) == 0 { // a sibling workspace, as a regular or a dev dependency
			e := [2]string{wsNames[r.Intn(i)], []string{"*", "^1.0.0", "1.0.0"}[r.Intn(3)]}
			if r.Intn(2) == 0 {
				p.Dev = append(p.Dev, e)
			} else {
				p.Deps = append(p.Deps, e)
			}
		}
		c.Pkgs = append(c.Pkgs, p)
	}
	perm := r.Perm(len(regs))
	k := 0
	for si := 0; si < 3; si++ {
		for m := r.Intn(3); m > 0 && k < len(perm); m-- {
			c.Root[si] = append(c.Root[si], [2]string{regs[perm[k]], vers[r.Intn(len(vers))]})
			k++
		}
	}
	if r.Intn(2) == 0 { // the root uses one of its workspaces
		si := r.Intn(3)
		c.Root[si] = append(c.Root[si], [2]string{wsNames[r.Intn(n)], []string{"*", "^1.0.0"}[r.Intn(2)]})
	}
	for si := 0; si < 3; si++ {
		for _, e := range c.Root[si] {
			if !slices.Contains(wsNames, e[0]) && r.Intn(2) == 0 {
				c.Ups = append(c.Ups, [3]string{e[0], e[1], npmTo[r.Intn(len(npmTo))]})
			}
		}
	}
	return c
}

// ---------------------------------------------------------------------------------------------- main

func must(err error) {
	if err != nil {
		panic(err)
	}
}

func main() {
	o := hx.Parse()
	out := hx.NewOut()
	defer out.Flush()
	var err error
	scratch, err = os.MkdirTemp("", "c13gen")
	must(err)
	registry = remx.NewRegistry()
	defer os.RemoveAll(scratch)

	emitNpm := func(c npmCase) {
		l := c.line()
		before, reply := runNpm(c, l)
		out.Emit(l+" "+before, reply)
	}
	emitPP := func(s1, s2 string) { out.Emit("pp "+hs(s1)+" "+hs(s2), runPP(s1, s2)) }
	emitPomCase := func(c pomCase, variant string) {
		l := "pom" + variant + c.line()[3:]
		before, reply := runPom(c, variant)
		out.Emit(l+" "+before, reply)
	}

	if o.Replay != "" {
		for _, l := range hx.ReplayLines(o.Replay) {
			t := strings.Split(l, " ")
			switch t[0] {
			case "npm":
				base := strings.Join(t[:5], " ")
				before, reply := runNpm(parseNpm(t), base)
				out.Emit(base+" "+before, reply)
			case "pp":
				out.Emit(l, runPP(uhs(t[1]), uhs(t[2])))
			case "ws":
				c := wsCase{kind: t[1], src: uhs(t[4])}
				for _, e := range splitList(t[2], ",") {
					k, v, _ := strings.Cut(e, "=")
					c.vals = append(c.vals, [2]string{uhs(k), uhs(v)})
				}
				if line, reply, ok := runWs(c); ok {
					out.Emit(line, reply)
				}
			case "pch":
				line, reply := runPch(parsePch(t))
				out.Emit(line, reply)
			case "prm":
				line, reply := runPrm(parsePrm(t))
				out.Emit(line, reply)
			case "nws":
				line, reply := runNws(parseNws(t))
				out.Emit(line, reply)
			case "pom", "pomc", "pomd", "pome", "pomf", "poma":
				before, reply := runPom(parsePom(t), t[0][3:])
				out.Emit(strings.Join(t[:5], " ")+" "+before, reply)
			default:
				out.Emit(l, "bad-case")
			}
		}
		return
	}
	r := hx.Rng(o)
	thorough := o.Tier == "thorough"
	if thorough {
		npmExhaustive(emitNpm)
		ppExhaustive(emitPP)
	}
	for i := 0; i < o.N; i++ {
		emitNpm(genNpm(r))
	}
	for i := 0; i < o.N*4; i++ {
		s1, s2 := genPP(r)
		emitPP(s1, s2)
	}
	for i := 0; i < o.N; i++ {
		if line, reply, ok := runWs(genWs(r)); ok {
			out.Emit(line, reply)
		}
	}
	for i := 0; i < o.N/4; i++ {
		emitPom(r, genPom(r), thorough, emitPomCase)
	}
	for i := 0; i < o.N/8; i++ {
		line, reply := runPch(genPch(r))
		out.Emit(line, reply)
	}
	rp := rand.New(rand.NewSource(o.Seed*104729 + 7))
	for i := 0; i < o.N/8; i++ {
		line, reply := runPrm(genPrm(rp))
		out.Emit(line, reply)
	}
	for i := 0; i < o.N/8; i++ {
		line, reply := runNws(genNws(rp))
		out.Emit(line, reply)
	}
}
