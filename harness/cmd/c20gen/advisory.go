// Structured advisories for c20gen. The "body" number of an advisory in a case line stands for the WHOLE content of a
// detector.Advisory apart from its ID: body 0 is a base value with every field of the struct (and of its nested
// structs) set; body k is the base with exactly ONE difference — the k-th leaf field changed, or the k-th pointer
// nil instead of set. The fields are enumerated by reflection at start-up, so a field added to detector.Advisory,
// Severity or CVSS is picked up automatically (an unsupported kind stops the generator). Reading an advisory back
// (advBodyOf) goes through a canonical rendering of the complete value (encoding/json of the struct with the ID
// cleared), never through the fields some comparison happens to look at: two advisories have the same body number
// iff they are deeply equal. Every call of advWithBody builds fresh objects (distinct pointers at every level).
package main

import (
	"encoding/json"
	"fmt"
	"reflect"

	"github.com/google/osv-scalibr/detector"
)

type advMut struct {
	name string // e.g. "Sev.CVSSV3.BaseScore" or "Sev.CVSSV3=nil"
	path []int
	nilP bool
}

var advMuts []advMut
var advRender = map[string]int{}

func walkAdv(t reflect.Type, path []int, name string) {
	for i := 0; i < t.NumField(); i++ {
		f := t.Field(i)
		if !f.IsExported() || (len(path) == 0 && f.Name == "ID") {
			continue
		}
		p := append(append([]int{}, path...), i)
		n := f.Name
		if name != "" {
			n = name + "." + f.Name
		}
		switch f.Type.Kind() {
		case reflect.Ptr:
			if f.Type.Elem().Kind() != reflect.Struct {
				panic("advisory field " + n + ": pointer to non-struct not supported by the generator")
			}
			advMuts = append(advMuts, advMut{n + "=nil", p, true})
			walkAdv(f.Type.Elem(), p, n)
		case reflect.Struct:
			walkAdv(f.Type, p, n)
		case reflect.String, reflect.Bool, reflect.Int, reflect.Int8, reflect.Int16, reflect.Int32, reflect.Int64,
			reflect.Uint, reflect.Uint8, reflect.Uint16, reflect.Uint32, reflect.Uint64, reflect.Float32, reflect.Float64, reflect.Slice:
			advMuts = append(advMuts, advMut{n, p, false})
		default:
			panic(fmt.Sprintf("advisory field %s: kind %s not supported by the generator", n, f.Type.Kind()))
		}
	}
}

func fillAdv(v reflect.Value, name string) {
	switch v.Kind() {
	case reflect.Ptr:
		v.Set(reflect.New(v.Type().Elem()))
		fillAdv(v.Elem(), name)
	case reflect.Struct:
		for i := 0; i < v.NumField(); i++ {
			if v.Type().Field(i).IsExported() {
				fillAdv(v.Field(i), v.Type().Field(i).Name)
			}
		}
	case reflect.String:
		v.SetString(name)
	case reflect.Bool:
		v.SetBool(true)
	case reflect.Int, reflect.Int8, reflect.Int16, reflect.Int32, reflect.Int64:
		v.SetInt(1)
	case reflect.Uint, reflect.Uint8, reflect.Uint16, reflect.Uint32, reflect.Uint64:
		v.SetUint(1)
	case reflect.Float32, reflect.Float64:
		v.SetFloat(1.25)
	case reflect.Slice:
		v.Set(reflect.MakeSlice(v.Type(), 1, 1))
		fillAdv(v.Index(0), name)
	}
}

func atPath(v reflect.Value, path []int) reflect.Value {
	for _, i := range path {
		if v.Kind() == reflect.Ptr {
			v = v.Elem()
		}
		v = v.Field(i)
	}
	return v
}

func mutate(v reflect.Value) {
	switch v.Kind() {
	case reflect.String:
		v.SetString(v.String() + "'")
	case reflect.Bool:
		v.SetBool(!v.Bool())
	case reflect.Int, reflect.Int8, reflect.Int16, reflect.Int32, reflect.Int64:
		v.SetInt(v.Int() + 1)
	case reflect.Uint, reflect.Uint8, reflect.Uint16, reflect.Uint32, reflect.Uint64:
		v.SetUint(v.Uint() + 1)
	case reflect.Float32, reflect.Float64:
		v.SetFloat(v.Float() + 1.5)
	case reflect.Slice:
		v.Set(reflect.Zero(v.Type()))
	}
}

// advWithBody builds a fresh advisory (no ID) with the given body number.
func advWithBody(body int) *detector.Advisory {
	a := &detector.Advisory{}
	fillAdv(reflect.ValueOf(a).Elem(), "")
	a.ID = nil
	k := body % (len(advMuts) + 1)
	if k < 0 {
		k += len(advMuts) + 1
	}
	if k > 0 {
		m := advMuts[k-1]
		f := atPath(reflect.ValueOf(a).Elem(), m.path)
		if m.nilP {
			f.Set(reflect.Zero(f.Type()))
		} else {
			mutate(f)
		}
	}
	return a
}

func renderAdv(a *detector.Advisory) string {
	c := *a
	c.ID = nil
	b, err := json.Marshal(&c)
	if err != nil {
		panic(err)
	}
	return string(b)
}

// advBodyOf reads the body number back from the complete content of an advisory (-1: not one the generator built).
func advBodyOf(a *detector.Advisory) int {
	if n, ok := advRender[renderAdv(a)]; ok {
		return n
	}
	return -1
}

func initAdvisories() {
	walkAdv(reflect.TypeOf(detector.Advisory{}), nil, "")
	for n := 0; n <= len(advMuts); n++ {
		r := renderAdv(advWithBody(n))
		if prev, dup := advRender[r]; dup {
			panic(fmt.Sprintf("advisory bodies %d and %d render alike: the single-field differences are not all visible in the canonical rendering", prev, n))
		}
		advRender[r] = n
	}
}

func advFieldNames() []string {
	var o []string
	for _, m := range advMuts {
		o = append(o, m.name)
	}
	return o
}
