// nilarg <entry>: every public entry point of the detector phase called with its OPTIONAL arguments left nil — the collector of
// detector.Run (detrun; detrun0 = no detectors), ScanConfig.Stats (scan), ScanConfig.Capabilities with plugins that state no requirement
// (scancaps), filesystem.Config.Stats (fsrun), the package list of packageindex.New (index), the finding list of ValidateAdvisories
// (valadv), the scan root handed to the detectors (detroot).   -> nres=<ok|err|panic>
package main

import (
	"context"
	"testing/fstest"

	scalibr "github.com/google/osv-scalibr"
	"github.com/google/osv-scalibr/detector"
	"github.com/google/osv-scalibr/extractor"
	"github.com/google/osv-scalibr/extractor/filesystem"
	scalibrfs "github.com/google/osv-scalibr/fs"
	"github.com/google/osv-scalibr/packageindex"
	"github.com/google/osv-scalibr/plugin"
	"github.com/google/osv-scalibr/stats"
)

var nilargEntries = []string{"detrun", "detrun0", "detroot", "scan", "scancaps", "fsrun", "index", "valadv"}

func runNilArg(which string) (reply string) {
	defer func() {
		if recover() != nil {
			reply = "nres=panic"
		}
	}()
	w := &world{pkgID: map[*extractor.Package]int{}, fnd: map[int]*detector.Finding{}, fndLabel: map[*detector.Finding]int{}, files: map[string]fileSpec{}, cancel: func() {}}
	d := det{base{"det0"}, 0, detSpec{mode: 'c'}, w}
	root := &scalibrfs.ScanRoot{FS: fstest.MapFS{"a": &fstest.MapFile{Data: []byte("x")}}}
	px, _ := packageindex.New(nil)
	ok := func(err error) string {
		if err != nil {
			return "nres=err"
		}
		return "nres=ok"
	}
	ctx := context.Background()
	switch which {
	case "detrun":
		_, st, err := detector.Run(ctx, nil, []detector.Detector{d}, root, px)
		if err == nil && len(st) != 1 {
			return "nres=err"
		}
		return ok(err)
	case "detrun0":
		_, _, err := detector.Run(ctx, nil, nil, root, px)
		return ok(err)
	case "detroot":
		_, _, err := detector.Run(ctx, stats.NoopCollector{}, []detector.Detector{d}, nil, px)
		return ok(err)
	case "scan", "scancaps":
		cfg := &scalibr.ScanConfig{ScanRoots: []*scalibrfs.ScanRoot{root}, Detectors: []detector.Detector{d}, FilesystemExtractors: []filesystem.Extractor{fsx{base{"fx0"}, 0, w}}}
		if which == "scan" {
			cfg.Capabilities = &plugin.Capabilities{}
		}
		r := scalibr.New().Scan(ctx, cfg)
		if r.Status.Status != plugin.ScanStatusSucceeded {
			return "nres=err"
		}
		return "nres=ok"
	case "fsrun":
		_, _, err := filesystem.Run(ctx, &filesystem.Config{Extractors: []filesystem.Extractor{fsx{base{"fx0"}, 0, w}}, ScanRoots: []*scalibrfs.ScanRoot{root}})
		return ok(err)
	case "index":
		p, err := packageindex.New(nil)
		if err == nil && (len(p.GetAll()) != 0 || len(p.GetAllOfType("deb")) != 0 || len(p.GetSpecific("a", "deb")) != 0) {
			return "nres=err"
		}
		return ok(err)
	case "valadv":
		return ok(detector.ValidateAdvisories(nil))
	}
	return "bad-op"
}
