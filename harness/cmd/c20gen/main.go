// c20gen: correspondence stream for C20 — scalibr.New().Scan with fake filesystem extractors over
// in-memory file systems, fake standalone extractors and 0..4 fake detectors, against the Lean model of
// packageindex.New / detector.Run / validateAdvisories / the tail of Scan (lean/Drivers/C20.lean).
//
// case line:  scan <nfx> <roots> <standalone> <detectors>
//
//	roots      := root ('|' root)*            root := '-' | file (';' file)*
//	file       := <exts> '=' <pkgs> ['!'] ['#' <findings>]     exts := 'n' | digits of the fs extractors (< nfx) that require the file
//	pkgs       := '-' | pkg (',' pkg)*        pkg := 'x' (no purl) | <hextype> ':' <hexname>
//	standalone := '-' | stx ('|' stx)*        stx := <pkgs> ['!'] ['#' <findings>]       '!' = Extract returns an error
//	detectors  := '-' | det ('|' det)*        det := 'c' <findings> flags | 'q' <hextype> ':' <hexname> '/' <adv> flags
//	flags      := ['!'] ['~']                 '!' = Scan returns an error as well, '~' = cancels the scan's context
//	findings   := '-' | fnd (',' fnd)*        fnd := <ptr> '@' <adv> '@' <hex Extra|->
//	adv        := 'n' (no advisory) | 'i' <body> (no ID) | <pub> '.' <hex Reference|-> '.' <body>
//
// Package ids are assigned in extraction order (roots, files by name, extractors by index; then the
// standalone extractors). Findings with the same <ptr> are ONE Go object (detector.Run must report a tagged
// copy per occurrence and leave the object itself alone: reply field mut=0). A 'q' detector returns one
// finding per package of GetSpecific(name, type): ptr 1000+100*detector+package id, Extra = "%03d" of the package id.
// Reply: findings (find=) and plugin statuses (plug=) are printed IN THE ORDER THE SCAN EMITS THEM; findset/plugset are the
// same lists canonically sorted, fkeys/plugkeys the sort keys (hexref/hexextra, hex name) in emitted order.
//
// second op (C10, plugin loops under cancellation):  phases <before 0|1> <nfx> <roots> <standalone> <detectors>
//
//	roots := root ('|' root)*  root := '-' | entry (';' entry)*  entry := 'n' | call (',' call)*  call := <extractor digit><ret>['~']
//	standalone, detectors := '-' | plugin ('|' plugin)*          plugin := <ret>['~']
//	ret := 'o' nil | 'e' an error | 'c' ctx.Err()                '~' = cancels the scan's context while running
//	reply: started=<plugin calls in start order> st=<ok|failed> pst=<standalone/detector statuses in the result>
package main

import (
	"archive/tar"
	"context"
	"errors"
	"flag"
	"fmt"
	"math/rand"
	"sort"
	"strconv"
	"strings"
	"testing/fstest"

	v1 "github.com/google/go-containerregistry/pkg/v1"
	"github.com/google/go-containerregistry/pkg/v1/empty"
	v1mutate "github.com/google/go-containerregistry/pkg/v1/mutate"
	scalibr "github.com/google/osv-scalibr"
	"github.com/google/osv-scalibr/artifact/image/layerscanning/image"
	"github.com/google/osv-scalibr/detector"
	"github.com/google/osv-scalibr/extractor"
	"github.com/google/osv-scalibr/extractor/filesystem"
	"github.com/google/osv-scalibr/extractor/standalone"
	scalibrfs "github.com/google/osv-scalibr/fs"
	"github.com/google/osv-scalibr/inventory"
	"github.com/google/osv-scalibr/packageindex"
	"github.com/google/osv-scalibr/plugin"
	"github.com/google/osv-scalibr/purl"

	"verif/harness/hx"
	"verif/harness/imgx"
)

// ---------------------------------------------------------------- case structure

type pkgSpec struct {
	has       bool
	typ, name string
}
type advSpec struct {
	kind      byte // 'n', 'i', 'f'
	pub, body int
	ref       string // Reference, a byte string
}
type fndSpec struct {
	isNil bool
	ptr   int
	adv   advSpec
	extra string // Extra, a byte string
}
type fileSpec struct {
	exts     []int
	pkgs     []pkgSpec
	err      bool
	findings []fndSpec
}
type stSpec struct {
	pkgs     []pkgSpec
	err      bool
	findings []fndSpec
}
type detSpec struct {
	mode      byte // 'c' | 'q'
	findings  []fndSpec
	qt, qn    string
	qadv      advSpec
	err, canc bool
}
type tcase struct {
	nfx   int
	roots [][]fileSpec
	sts   []stSpec
	dets  []detSpec
}

func must(err error) {
	if err != nil {
		panic(err)
	}
}
func atoi(s string) int { n, err := strconv.Atoi(s); must(err); return n }

func parsePkgs(s string) []pkgSpec {
	if s == "-" || s == "" {
		return nil
	}
	var out []pkgSpec
	for _, p := range strings.Split(s, ",") {
		if p == "x" {
			out = append(out, pkgSpec{})
			continue
		}
		tn := strings.Split(p, ":")
		out = append(out, pkgSpec{true, hx.UnHex(tn[0]), hx.UnHex(tn[1])})
	}
	return out
}

func parseAdv(s string) advSpec {
	switch {
	case s == "n":
		return advSpec{kind: 'n'}
	case strings.HasPrefix(s, "i"):
		return advSpec{kind: 'i', body: atoi(s[1:])}
	}
	t := strings.Split(s, ".")
	return advSpec{kind: 'f', pub: atoi(t[0]), ref: hx.UnHex(t[1]), body: atoi(t[2])}
}

func parseFindings(s string) []fndSpec {
	if s == "-" || s == "" {
		return nil
	}
	var out []fndSpec
	for _, f := range strings.Split(s, ",") {
		if f == "z" {
			out = append(out, fndSpec{isNil: true})
			continue
		}
		t := strings.Split(f, "@")
		out = append(out, fndSpec{false, atoi(t[0]), parseAdv(t[1]), hx.UnHex(t[2])})
	}
	return out
}

// splitTail parses "<pkgs>[!][#findings]"
func splitTail(s string) (pkgs []pkgSpec, err bool, fs []fndSpec) {
	if i := strings.IndexByte(s, '#'); i >= 0 {
		fs = parseFindings(s[i+1:])
		s = s[:i]
	}
	if strings.HasSuffix(s, "!") {
		err = true
		s = s[:len(s)-1]
	}
	return parsePkgs(s), err, fs
}

func parseCase(l string) tcase {
	t := strings.Split(l, " ")
	if len(t) != 5 || t[0] != "scan" {
		panic("bad case " + l)
	}
	c := tcase{nfx: atoi(t[1])}
	for _, r := range strings.Split(t[2], "|") {
		var files []fileSpec
		if r != "-" {
			for _, f := range strings.Split(r, ";") {
				eq := strings.IndexByte(f, '=')
				var fsp fileSpec
				if f[:eq] != "n" {
					for _, d := range f[:eq] {
						fsp.exts = append(fsp.exts, int(d-'0'))
					}
				}
				fsp.pkgs, fsp.err, fsp.findings = splitTail(f[eq+1:])
				files = append(files, fsp)
			}
		}
		c.roots = append(c.roots, files)
	}
	if t[3] != "-" {
		for _, s := range strings.Split(t[3], "|") {
			var sp stSpec
			sp.pkgs, sp.err, sp.findings = splitTail(s)
			c.sts = append(c.sts, sp)
		}
	}
	if t[4] != "-" {
		for _, s := range strings.Split(t[4], "|") {
			d := detSpec{mode: s[0]}
			s = s[1:]
			if strings.HasSuffix(s, "~") {
				d.canc = true
				s = s[:len(s)-1]
			}
			if strings.HasSuffix(s, "!") {
				d.err = true
				s = s[:len(s)-1]
			}
			if d.mode == 'c' {
				d.findings = parseFindings(s)
			} else {
				sl := strings.IndexByte(s, '/')
				tn := strings.Split(s[:sl], ":")
				d.qt, d.qn, d.qadv = hx.UnHex(tn[0]), hx.UnHex(tn[1]), parseAdv(s[sl+1:])
			}
			c.dets = append(c.dets, d)
		}
	}
	return c
}

// ---------------------------------------------------------------- printing a case

func pkgsStr(ps []pkgSpec) string {
	var o []string
	for _, p := range ps {
		if !p.has {
			o = append(o, "x")
		} else {
			o = append(o, hx.Hex(p.typ)+":"+hx.Hex(p.name))
		}
	}
	return hx.Join(o, ",")
}
func advStr(a advSpec) string {
	switch a.kind {
	case 'n':
		return "n"
	case 'i':
		return "i" + strconv.Itoa(a.body)
	}
	return fmt.Sprintf("%d.%s.%d", a.pub, hx.Hex(a.ref), a.body)
}
func findingsStr(fs []fndSpec) string {
	var o []string
	for _, f := range fs {
		if f.isNil {
			o = append(o, "z")
			continue
		}
		o = append(o, fmt.Sprintf("%d@%s@%s", f.ptr, advStr(f.adv), hx.Hex(f.extra)))
	}
	return hx.Join(o, ",")
}
func tailStr(ps []pkgSpec, err bool, fs []fndSpec) string {
	s := pkgsStr(ps)
	if err {
		s += "!"
	}
	if len(fs) > 0 {
		s += "#" + findingsStr(fs)
	}
	return s
}
func (c tcase) line() string {
	var rs []string
	for _, r := range c.roots {
		var fsx []string
		for _, f := range r {
			e := "n"
			if len(f.exts) > 0 {
				e = ""
				for _, x := range f.exts {
					e += strconv.Itoa(x)
				}
			}
			fsx = append(fsx, e+"="+tailStr(f.pkgs, f.err, f.findings))
		}
		rs = append(rs, hx.Join(fsx, ";"))
	}
	var ss []string
	for _, s := range c.sts {
		ss = append(ss, tailStr(s.pkgs, s.err, s.findings))
	}
	var ds []string
	for _, d := range c.dets {
		s := string(d.mode)
		if d.mode == 'c' {
			s += findingsStr(d.findings)
		} else {
			s += hx.Hex(d.qt) + ":" + hx.Hex(d.qn) + "/" + advStr(d.qadv)
		}
		if d.err {
			s += "!"
		}
		if d.canc {
			s += "~"
		}
		ds = append(ds, s)
	}
	return fmt.Sprintf("scan %d %s %s %s", c.nfx, strings.Join(rs, "|"), hx.Join(ss, "|"), hx.Join(ds, "|"))
}

// ---------------------------------------------------------------- the fakes

type purlMeta struct {
	has       bool
	typ, name string
}

type world struct {
	c        tcase
	nextPkg  int
	pkgID    map[*extractor.Package]int
	fnd      map[int]*detector.Finding // ptr label -> the one Go object
	fndLabel map[*detector.Finding]int
	calls    []string
	xcalls   int // Extract calls of the fake extractors
	obs      []string
	cancel   context.CancelFunc
	files    map[string]fileSpec // "r<root>f<idx>.x<exts>" -> spec
	types    []string
	names    []string
}

func (w *world) mkPkgs(ps []pkgSpec, loc string) []*extractor.Package {
	var out []*extractor.Package
	for _, p := range ps {
		id := w.nextPkg
		w.nextPkg++
		pk := &extractor.Package{Name: fmt.Sprintf("p%03d", id), Version: "1", Locations: []string{loc}, Metadata: purlMeta{p.has, p.typ, p.name}}
		w.pkgID[pk] = id
		out = append(out, pk)
	}
	return out
}

func mkAdv(a advSpec) *detector.Advisory {
	if a.kind == 'n' {
		return nil
	}
	adv := advWithBody(a.body) // fresh objects at every level; body k = the base advisory with its k-th field different
	if a.kind == 'f' {
		adv.ID = &detector.AdvisoryID{Publisher: fmt.Sprintf("P%d", a.pub), Reference: a.ref}
	}
	return adv
}

func (w *world) finding(f fndSpec) *detector.Finding {
	if f.isNil {
		return nil
	}
	if o, ok := w.fnd[f.ptr]; ok {
		return o // same label = same Go object
	}
	o := &detector.Finding{Adv: mkAdv(f.adv), Extra: f.extra, Target: &detector.TargetDetails{Location: []string{fmt.Sprintf("loc%d", f.ptr)}}, Detectors: []string{"stale"}}
	w.fnd[f.ptr] = o
	w.fndLabel[o] = f.ptr
	return o
}

func (w *world) mkFindings(fs []fndSpec) []*detector.Finding {
	var out []*detector.Finding
	for _, f := range fs {
		out = append(out, w.finding(f))
	}
	return out
}

type base struct{ name string }

func (b base) Name() string                      { return b.name }
func (base) Version() int                        { return 1 }
func (base) Requirements() *plugin.Capabilities  { return &plugin.Capabilities{} }
func (base) Ecosystem(*extractor.Package) string { return "" }
func (base) ToPURL(p *extractor.Package) *purl.PackageURL {
	m := p.Metadata.(purlMeta)
	if !m.has {
		return nil
	}
	return &purl.PackageURL{Type: m.typ, Name: m.name, Version: p.Version}
}

type fsx struct {
	base
	idx int
	w   *world
}

func (e fsx) FileRequired(api filesystem.FileAPI) bool {
	f, ok := e.w.files[api.Path()]
	if !ok {
		return false
	}
	for _, x := range f.exts {
		if x == e.idx {
			return true
		}
	}
	return false
}

func (e fsx) Extract(_ context.Context, in *filesystem.ScanInput) (inventory.Inventory, error) {
	e.w.xcalls++
	f := e.w.files[in.Path]
	inv := inventory.Inventory{Packages: e.w.mkPkgs(f.pkgs, in.Path), Findings: e.w.mkFindings(f.findings)}
	if f.err {
		return inv, errors.New("extract failed")
	}
	return inv, nil
}

type stx struct {
	base
	spec stSpec
	w    *world
}

func (e stx) Extract(context.Context, *standalone.ScanInput) (inventory.Inventory, error) {
	e.w.xcalls++
	inv := inventory.Inventory{Packages: e.w.mkPkgs(e.spec.pkgs, "st"), Findings: e.w.mkFindings(e.spec.findings)}
	if e.spec.err {
		return inv, errors.New("standalone failed")
	}
	return inv, nil
}

type det struct {
	base
	idx  int
	spec detSpec
	w    *world
}

// scribblers: detectors (by index) that, after looking at the index, overwrite every slice the index handed to them (op idxmut)
var scribblers = map[*world]map[int]bool{}

func (det) RequiredExtractors() []string { return nil }

func (d det) ids(ps []*extractor.Package, sorted bool) string {
	var o []int
	for _, p := range ps {
		o = append(o, d.w.pkgID[p])
	}
	if sorted {
		sort.Ints(o)
	}
	s := make([]string, len(o))
	for i, x := range o {
		s[i] = strconv.Itoa(x)
	}
	return hx.Join(s, ".")
}

func (d det) Scan(_ context.Context, _ *scalibrfs.ScanRoot, px *packageindex.PackageIndex) ([]*detector.Finding, error) {
	w := d.w
	w.calls = append(w.calls, d.name)
	// observe the index through its three query methods
	var ob []string
	ob = append(ob, "A="+d.ids(px.GetAll(), true))
	for _, t := range w.types {
		ob = append(ob, "T"+hx.Hex(t)+"="+d.ids(px.GetAllOfType(t), true))
	}
	for _, t := range w.types {
		for _, n := range w.names {
			ob = append(ob, "S"+hx.Hex(t)+":"+hx.Hex(n)+"="+d.ids(px.GetSpecific(n, t), false))
		}
	}
	w.obs = append(w.obs, strings.Join(ob, ";"))
	if scribblers[w][d.idx] {
		wipe := func(ps []*extractor.Package) {
			for i := range ps {
				ps[i] = nil
			}
		}
		wipe(px.GetAll())
		for _, t := range w.types {
			wipe(px.GetAllOfType(t))
			for _, n := range w.names {
				wipe(px.GetSpecific(n, t))
			}
		}
	}
	var out []*detector.Finding
	if d.spec.mode == 'c' {
		out = w.mkFindings(d.spec.findings)
	} else {
		for _, p := range px.GetSpecific(d.spec.qn, d.spec.qt) {
			id := w.pkgID[p]
			out = append(out, w.finding(fndSpec{false, 1000 + 100*d.idx + id, d.spec.qadv, fmt.Sprintf("%03d", id)}))
		}
	}
	if d.spec.canc {
		w.cancel()
	}
	if d.spec.err {
		return out, errors.New("detector failed")
	}
	return out, nil
}

// ---------------------------------------------------------------- running one case

func advOut(a *detector.Advisory) string {
	if a == nil {
		return "n"
	}
	body := advBodyOf(a) // from the canonical rendering of the whole value
	if a.ID == nil {
		return "i" + strconv.Itoa(body)
	}
	pub := 0
	fmt.Sscanf(a.ID.Publisher, "P%d", &pub)
	return fmt.Sprintf("%d.%s.%d", pub, hx.Hex(a.ID.Reference), body)
}

func errEnum(msg string) string {
	switch {
	case strings.Contains(msg, "detector returned a nil finding"):
		return "nilf"
	case strings.Contains(msg, "finding has no advisory set"):
		return "noadv"
	case strings.Contains(msg, "finding has no advisory ID set"):
		return "noid"
	case strings.Contains(msg, "multiple non-identical advisories"):
		return "mismatch"
	case strings.Contains(msg, "context canceled"):
		return "ctx"
	}
	return "other"
}

func run(c tcase) string { return runGated(c, "") }

// gateDet: a detector that finds nothing and REQUIRES an extractor by name (op gate)
type gateDet struct {
	base
	req []string
	w   *world
}

func (d gateDet) RequiredExtractors() []string { return d.req }
func (d gateDet) Scan(context.Context, *scalibrfs.ScanRoot, *packageindex.PackageIndex) ([]*detector.Finding, error) {
	d.w.calls = append(d.w.calls, d.name)
	return nil, nil
}

// winST: a standalone extractor whose requirements (Windows) the scan's capabilities do not meet
type winST struct {
	base
	w *world
}

func (winST) Requirements() *plugin.Capabilities { return &plugin.Capabilities{OS: plugin.OSWindows} }
func (e winST) Extract(context.Context, *standalone.ScanInput) (inventory.Inventory, error) {
	e.w.xcalls++
	return inventory.Inventory{}, nil
}

// runGated runs a scan case; gate = "" (plain `scan`) or the four flags <e><v><r><p> of op `gate`:
// e 0 = two detectors require an extractor that is in neither list.go, 2 = they require python/wheelegg, 3 = the standalone windows/dismpatch; v 0 = a standalone
// extractor needs Windows; r 0 = no scan root, 2 = at least two roots; p 1 = PathsToExtract set.
func runGated(c tcase, gate string) string {
	return hx.Guard(func() string { return runGatedNoGuard(c, gate) })
}

func runGatedNoGuard(c tcase, gate string) string {
	return func() string {
		ctx, cancel := context.WithCancel(context.Background())
		defer cancel()
		w := &world{c: c, pkgID: map[*extractor.Package]int{}, fnd: map[int]*detector.Finding{}, fndLabel: map[*detector.Finding]int{}, cancel: cancel, files: map[string]fileSpec{}}
		// query pool: types and names in order of first appearance, plus an absent one
		seenT, seenN := map[string]bool{}, map[string]bool{}
		addP := func(ps []pkgSpec) {
			for _, p := range ps {
				if p.has {
					if !seenT[p.typ] {
						seenT[p.typ] = true
						w.types = append(w.types, p.typ)
					}
					if !seenN[p.name] {
						seenN[p.name] = true
						w.names = append(w.names, p.name)
					}
				}
			}
		}
		var roots []*scalibrfs.ScanRoot
		for ri, r := range c.roots {
			m := fstest.MapFS{}
			for fi, f := range r {
				e := "n"
				if len(f.exts) > 0 {
					e = ""
					for _, x := range f.exts {
						e += strconv.Itoa(x)
					}
				}
				name := fmt.Sprintf("r%df%03d.x%s", ri, fi, e)
				m[name] = &fstest.MapFile{Data: []byte("x")}
				w.files[name] = f
				addP(f.pkgs)
			}
			roots = append(roots, &scalibrfs.ScanRoot{FS: m})
		}
		for _, s := range c.sts {
			addP(s.pkgs)
		}
		w.types = append(w.types, "zz")
		w.names = append(w.names, "zz")
		cfg := &scalibr.ScanConfig{ScanRoots: roots, Capabilities: &plugin.Capabilities{}}
		for i := 0; i < c.nfx; i++ {
			cfg.FilesystemExtractors = append(cfg.FilesystemExtractors, fsx{base{fmt.Sprintf("fx%d", i)}, i, w})
		}
		for i, s := range c.sts {
			cfg.StandaloneExtractors = append(cfg.StandaloneExtractors, stx{base{fmt.Sprintf("sx%d", i)}, s, w})
		}
		for i, d := range c.dets {
			cfg.Detectors = append(cfg.Detectors, det{base{fmt.Sprintf("det%d", i)}, i, d, w})
		}
		if gate == "M" {
			scribblers[w] = map[int]bool{0: true}
			defer delete(scribblers, w)
		}
		if gate != "" && !strings.HasPrefix(gate, "C") && gate != "M" {
			if gate[0] != '1' {
				// '3': a STANDALONE extractor of list.go (its non-Windows build has no requirements and fails when run)
				req := map[byte]string{'0': "nosuch/extractor", '2': "python/wheelegg", '3': "windows/dismpatch"}[gate[0]]
				cfg.Detectors = append(cfg.Detectors, gateDet{base{"detgate0"}, []string{req}, w}, gateDet{base{"detgate1"}, []string{req, req}, w})
			}
			if gate[1] == '0' {
				cfg.StandaloneExtractors = append(cfg.StandaloneExtractors, winST{base{"sxwin"}, w})
			}
			switch gate[2] {
			case '0':
				cfg.ScanRoots = nil
			case '2':
				if len(cfg.ScanRoots) < 2 {
					cfg.ScanRoots = append(cfg.ScanRoots, &scalibrfs.ScanRoot{FS: fstest.MapFS{}})
				}
			}
			if gate[3] == '1' {
				cfg.PathsToExtract = []string{"r0f000.xn"}
			}
		}
		var res *scalibr.ScanResult
		if strings.HasPrefix(gate, "C") {
			// ScanContainer: the case's single root becomes the one layer of an image (variant e: an image without layers);
			// variant d presets a decoy scan root, which ScanContainer must overwrite with the image's file system
			img := v1.Image(empty.Image)
			if gate != "Ce" {
				var es []imgx.TarEnt
				var names []string
				for n := range w.files {
					names = append(names, n)
				}
				sort.Strings(names)
				for _, n := range names {
					es = append(es, imgx.TarEnt{Name: n, Typ: tar.TypeReg, Body: "x"})
				}
				var err error
				if img, err = v1mutate.Append(img, v1mutate.Addendum{Layer: imgx.MkLayer(es), History: v1.History{CreatedBy: "cmd0"}}); err != nil {
					panic(err)
				}
			}
			im, err := image.FromV1Image(img, image.DefaultConfig())
			if err != nil {
				return "loaderr"
			}
			defer im.CleanUp()
			cfg.ScanRoots = nil
			if gate == "Cd" {
				cfg.ScanRoots = []*scalibrfs.ScanRoot{{FS: fstest.MapFS{"decoy.x0": &fstest.MapFile{Data: []byte("x")}}}}
			}
			res, err = scalibr.New().ScanContainer(ctx, im, cfg)
			if err != nil {
				n := 0
				if res != nil {
					n = len(res.Inventory.Findings) + len(res.Inventory.Packages) + len(res.PluginStatus)
				}
				gerr := "other"
				if strings.Contains(err.Error(), "no chain layers found") {
					gerr = "nolayers"
				}
				return fmt.Sprintf("st=failed gerr=%s gcalls=%s gx=%d gn=%d", gerr, hx.Join(w.calls, ","), w.xcalls, n)
			}
		} else {
			res = scalibr.New().Scan(ctx, cfg)
		}
		if gate == "M" {
			// what the FIRST detector saw and what the LAST one saw after the first overwrote the slices it had been handed
			if len(w.obs) < 2 {
				return "bad-op"
			}
			return "idx=" + w.obs[0] + " again=" + w.obs[len(w.obs)-1]
		}
		if gate != "" && !strings.HasPrefix(gate, "C") {
			gerr := "-"
			if res.Status.Status != plugin.ScanStatusSucceeded {
				msg := res.Status.FailureReason
				switch {
				case strings.Contains(msg, "not present in list.go"):
					gerr = "enable"
				case strings.Contains(msg, "can't be enabled"):
					gerr = "invalid"
				case strings.Contains(msg, "no scan root specified"):
					gerr = "noroot"
				case strings.Contains(msg, "can't extract specific files with several scan roots"):
					gerr = "several"
				}
			}
			if gerr != "-" {
				return fmt.Sprintf("st=failed gerr=%s gcalls=%s gx=%d gn=%d", gerr, hx.Join(w.calls, ","), w.xcalls,
					len(res.Inventory.Findings)+len(res.Inventory.Packages)+len(res.PluginStatus))
			}
		}

		st := "ok"
		errS := "none"
		if res.Status.Status != plugin.ScanStatusSucceeded {
			st = "failed"
			errS = errEnum(res.Status.FailureReason)
		}
		// findings and statuses IN EMITTED ORDER (plus the canonically sorted lists and the key sequences)
		var fo, fkeys []string
		for _, f := range res.Inventory.Findings {
			if f == nil {
				fo = append(fo, "z")
				fkeys = append(fkeys, "?")
				continue
			}
			// a reported detector finding is a COPY: its label travels in the (copied) Target
			lab := -1
			if f.Target != nil && len(f.Target.Location) == 1 {
				fmt.Sscanf(f.Target.Location[0], "loc%d", &lab)
			}
			var dn []string
			for _, n := range f.Detectors {
				dn = append(dn, hx.Hex(n))
			}
			tgt := "-"
			if f.Target != nil && len(f.Target.Location) == 1 {
				tgt = f.Target.Location[0]
			}
			fo = append(fo, fmt.Sprintf("%d@%s@%s@%s@%s", lab, advOut(f.Adv), hx.Hex(f.Extra), tgt, hx.Join(dn, "+")))
			if f.Adv != nil && f.Adv.ID != nil {
				fkeys = append(fkeys, hx.Hex(f.Adv.ID.Reference)+"/"+hx.Hex(f.Extra))
			} else {
				fkeys = append(fkeys, "?")
			}
		}
		foSet := append([]string{}, fo...)
		sort.Strings(foSet)
		var pl, plKeys []string
		for _, p := range res.PluginStatus {
			s := map[plugin.ScanStatusEnum]string{plugin.ScanStatusSucceeded: "ok", plugin.ScanStatusPartiallySucceeded: "partial", plugin.ScanStatusFailed: "failed"}[p.Status.Status]
			pl = append(pl, p.Name+":"+s)
			plKeys = append(plKeys, hx.Hex(p.Name))
		}
		plSet := append([]string{}, pl...)
		sort.Strings(plSet)
		var pk []int
		for _, p := range res.Inventory.Packages {
			pk = append(pk, w.pkgID[p])
		}
		sort.Ints(pk)
		pks := make([]string, len(pk))
		for i, x := range pk {
			pks[i] = strconv.Itoa(x)
		}
		idx, same := "-", true
		if len(w.obs) > 0 {
			idx = w.obs[0]
			for _, o := range w.obs {
				if o != idx {
					same = false
				}
			}
		}
		// the objects handed out by the fakes must not have been written to by the scan
		mut := false
		for _, o := range w.fnd {
			if len(o.Detectors) != 1 || o.Detectors[0] != "stale" {
				mut = true
			}
		}
		tail := ""
		if strings.HasPrefix(gate, "C") {
			tail = " gerr=-"
		} else if gate != "" {
			if (gate[3] == '1' && len(cfg.ScanRoots) == 1) || (gate[3] == '0' && gate[2] == '2') {
				return "bad-op" // specific files from ONE root / an extra empty root: allowed, but not what the scan model describes
			}
			if gate[3] == '1' {
				// the gate should have stopped this scan (several roots + specific files) and did not: report what ran
				return fmt.Sprintf("st=%s gerr=- gcalls=%s gx=%d gn=%d", map[bool]string{true: "ok", false: "failed"}[res.Status.Status == plugin.ScanStatusSucceeded],
					hx.Join(w.calls, ","), w.xcalls, len(res.Inventory.Findings)+len(res.Inventory.Packages)+len(res.PluginStatus))
			}
			tail = " gerr=-"
		}
		return fmt.Sprintf("st=%s err=%s calls=%s idx=%s idxsame=%s find=%s findset=%s fkeys=%s plug=%s plugset=%s plugkeys=%s pk=%s mut=%s",
			st, errS, hx.Join(w.calls, ","), idx, hx.B(same), hx.Join(fo, ","), hx.Join(foSet, ","), hx.Join(fkeys, ","),
			hx.Join(pl, ","), hx.Join(plSet, ","), hx.Join(plKeys, ","), hx.Join(pks, "."), hx.B(mut)) + tail
	}()
}

// ---------------------------------------------------------------- generation

var typePool = []string{"pypi", "deb", "npm", "", "PyPI"}
var namePool = []string{"a", "b", "requests", "", "A"}

func randPkgs(r *rand.Rand, max int) []pkgSpec {
	var out []pkgSpec
	for n := r.Intn(max + 1); n > 0; n-- {
		if r.Intn(4) == 0 {
			out = append(out, pkgSpec{})
		} else {
			out = append(out, pkgSpec{true, typePool[r.Intn(3+r.Intn(3))], namePool[r.Intn(3+r.Intn(3))]})
		}
	}
	return out
}

type fgen struct {
	r       *rand.Rand
	nextPtr int
	made    []fndSpec
	refs    []int // indices into refPool used by this case
}

// references in prefix relations (the longer one continuing with a byte below ':' — digits, '-', '.', '/' — or above it), an
// empty one, and extras likewise: what tells a field-by-field comparison from any comparison of a concatenated key
var refPool = []string{"CVE-1", "CVE-12", "CVE-1-2", "CVE-1.5", "CVE-1:", "CVE-2024-1234", "CVE-2024-12345", "CVE-2024-1234/a", "", "a", "a;b"}
var extraPool = []string{"", "0", "1", "10", ":", "a", "1:", "\x00"}

// adv: ids from a (per case) small sub-pool of references x 2 publishers; the body is a function of the reference unless
// the case is adversarial (so that equal and unequal bodies under one id both occur); a small share lacks the advisory or the id.
func (g *fgen) adv(badPct int) advSpec {
	k := g.r.Intn(100)
	switch {
	case k < badPct/2:
		return advSpec{kind: 'n'}
	case k < badPct:
		return advSpec{kind: 'i', body: g.r.Intn(len(advMuts) + 1)}
	}
	ri := g.refs[g.r.Intn(len(g.refs))]
	ref := refPool[ri]
	body := ri % (len(advMuts) + 1) // by default the body is determined by the reference: consistent
	if g.r.Intn(100) < badPct {
		body = g.r.Intn(len(advMuts) + 1) // a single-field difference somewhere in the advisory (or none)
	}
	pub := 0
	if g.r.Intn(12) == 0 {
		pub = 1
	}
	return advSpec{kind: 'f', pub: pub, ref: ref, body: body}
}

// findings: detector findings may repeat an earlier finding object (aliasPct) — of the same detector, of another
// detector or of an extractor — and may contain nil entries; extractor findings (fromDetector=false) do neither.
func (g *fgen) findings(max, badPct, aliasPct int, fromDetector bool) []fndSpec {
	var out []fndSpec
	for n := g.r.Intn(max + 1); n > 0; n-- {
		if fromDetector && len(g.made) > 0 && g.r.Intn(100) < aliasPct {
			out = append(out, g.made[g.r.Intn(len(g.made))]) // the same Go object again
			continue
		}
		if fromDetector && badPct > 0 && g.r.Intn(100) < badPct/3 {
			out = append(out, fndSpec{isNil: true})
			continue
		}
		f := fndSpec{false, g.nextPtr, g.adv(badPct), extraPool[g.r.Intn(2+g.r.Intn(len(extraPool)-1))]}
		g.nextPtr++
		g.made = append(g.made, f)
		out = append(out, f)
	}
	return out
}

func randCase(r *rand.Rand) tcase {
	c := tcase{nfx: r.Intn(4)}
	g := &fgen{r: r, nextPtr: 1}
	for n := 2 + r.Intn(3); n > 0; n-- {
		g.refs = append(g.refs, r.Intn(len(refPool)))
	}
	// how adversarial this case is
	badPct := []int{0, 0, 0, 6, 25}[r.Intn(5)]
	aliasPct := []int{0, 0, 0, 0, 15}[r.Intn(5)]
	exFindPct := []int{0, 0, 0, 0, 0, 30}[r.Intn(6)]
	nroots := 1 + r.Intn(5)/4 + r.Intn(7)/6
	for ; nroots > 0; nroots-- {
		var files []fileSpec
		for n := r.Intn(4); n > 0; n-- {
			var f fileSpec
			for x := 0; x < c.nfx; x++ {
				if r.Intn(2) == 0 {
					f.exts = append(f.exts, x)
				}
			}
			f.pkgs = randPkgs(r, 3)
			f.err = r.Intn(8) == 0
			if r.Intn(100) < exFindPct {
				f.findings = g.findings(2, badPct, 0, false)
			}
			files = append(files, f)
		}
		c.roots = append(c.roots, files)
	}
	for n := r.Intn(3); n > 0; n-- {
		s := stSpec{pkgs: randPkgs(r, 2), err: r.Intn(6) == 0}
		if r.Intn(100) < exFindPct {
			s.findings = g.findings(2, badPct, 0, false)
		}
		c.sts = append(c.sts, s)
	}
	for n := r.Intn(5); n > 0; n-- {
		d := detSpec{mode: 'c', err: r.Intn(4) == 0, canc: r.Intn(40) == 0}
		if r.Intn(5) == 0 {
			d.mode = 'q'
			d.qt, d.qn = typePool[r.Intn(3)], namePool[r.Intn(3)]
			d.qadv = g.adv(badPct)
		} else {
			d.findings = g.findings(3, badPct, aliasPct, true)
		}
		c.dets = append(c.dets, d)
	}
	return c
}

// exhaustive (thorough): every list of ≤ 3 findings over 2 ids x 2 bodies + "no advisory" + "no id" + nil entry,
// split over 1..2 detectors in every way, with and without a detector error.
func exhaustive(emit func(tcase)) {
	advs := []advSpec{{kind: 'f', ref: "CVE-1", body: 0}, {kind: 'f', ref: "CVE-1", body: 1}, {kind: 'f', ref: "CVE-12", body: 0}, {kind: 'f', ref: "CVE-12", body: 1}, {kind: 'n'}, {kind: 'i', body: 0}, {kind: 'z'}}
	var rec func(cur []advSpec)
	rec = func(cur []advSpec) {
		for split := 0; split <= len(cur); split++ {
			for _, e := range []bool{false, true} {
				mk := func(as []advSpec, base int) []fndSpec {
					var fs []fndSpec
					for i, a := range as {
						if a.kind == 'z' {
							fs = append(fs, fndSpec{isNil: true})
							continue
						}
						fs = append(fs, fndSpec{false, base + i + 1, a, []string{"", "1"}[i%2]})
					}
					return fs
				}
				c := tcase{nfx: 1, roots: [][]fileSpec{{{exts: []int{0}, pkgs: []pkgSpec{{true, "pypi", "a"}, {}}}}},
					dets: []detSpec{{mode: 'c', findings: mk(cur[:split], 0), err: e}, {mode: 'c', findings: mk(cur[split:], 10)}}}
				emit(c)
			}
		}
		if len(cur) == 3 {
			return
		}
		for _, a := range advs {
			rec(append(append([]advSpec{}, cur...), a))
		}
	}
	rec(nil)
}

// orderCases (both tiers): the documented ORDER of findings and statuses. Four findings whose references are in prefix
// relation (and two that differ only in Extra, one Extra empty) are dealt to 1..3 detectors in every way and the
// detectors are listed in every order; a second family puts two prefix-related references into one detector in both
// orders, next to extractors with several roots (several status entries with the same name).
func orderCases(emit func(tcase)) {
	refs := [][2]string{{"CVE-2024-12345", ""}, {"CVE-2024-1234", "1"}, {"CVE-2024-1234", ""}, {"CVE-1-2", "0"}, {"CVE-1", ":"}, {"CVE-12", ""}}
	mkF := func(i int) fndSpec {
		return fndSpec{false, i + 1, advSpec{kind: 'f', ref: refs[i][0], body: 0}, refs[i][1]}
	}
	perms3 := [][]int{{0, 1, 2}, {0, 2, 1}, {1, 0, 2}, {1, 2, 0}, {2, 0, 1}, {2, 1, 0}}
	// every assignment of 4 findings to 3 detectors x every listing order of the detectors
	for pick := 0; pick+4 <= len(refs); pick++ {
		for asg := 0; asg < 81; asg++ {
			var per [3][]fndSpec
			a := asg
			for i := 0; i < 4; i++ {
				per[a%3] = append(per[a%3], mkF(pick+i))
				a /= 3
			}
			for _, pm := range perms3 {
				c := tcase{nfx: 0, roots: [][]fileSpec{nil}}
				for _, d := range pm {
					c.dets = append(c.dets, detSpec{mode: 'c', findings: per[d]})
				}
				emit(c)
			}
		}
	}
	// one detector returning the findings in every order of a triple; two roots and two fs extractors for the statuses
	for _, pm := range perms3 {
		for _, trip := range [][3]int{{0, 1, 2}, {3, 4, 5}, {1, 2, 5}} {
			fs := []fndSpec{mkF(trip[pm[0]]), mkF(trip[pm[1]]), mkF(trip[pm[2]])}
			emit(tcase{nfx: 2, roots: [][]fileSpec{{{exts: []int{0, 1}, pkgs: []pkgSpec{{true, "pypi", "a"}}}}, {{exts: []int{1}, err: true}}},
				sts: []stSpec{{}, {err: true}}, dets: []detSpec{{mode: 'c', findings: fs}, {mode: 'c', err: true}}})
		}
	}
}

// ---------------------------------------------------------------- phases: plugin loops under cancellation

type phCall struct {
	x      int  // fs extractor index (fs phase only)
	ret    byte // 'o' nil, 'e' an error, 'c' ctx.Err()
	cancel bool
}
type phCase struct {
	before bool
	nfx    int
	roots  [][][]phCall // root -> entry -> calls (extractors that require the entry, ascending)
	sts    []phCall
	dets   []phCall
}

func (c phCall) str(withX bool) string {
	s := ""
	if withX {
		s = strconv.Itoa(c.x)
	}
	s += string(c.ret)
	if c.cancel {
		s += "~"
	}
	return s
}

func (c phCase) line() string {
	var rs []string
	for _, r := range c.roots {
		var es []string
		for _, e := range r {
			if len(e) == 0 {
				es = append(es, "n")
				continue
			}
			var cs []string
			for _, k := range e {
				cs = append(cs, k.str(true))
			}
			es = append(es, strings.Join(cs, ","))
		}
		rs = append(rs, hx.Join(es, ";"))
	}
	pl := func(ps []phCall) string {
		var o []string
		for _, p := range ps {
			o = append(o, p.str(false))
		}
		return hx.Join(o, "|")
	}
	return fmt.Sprintf("phases %s %d %s %s %s", hx.B(c.before), c.nfx, strings.Join(rs, "|"), pl(c.sts), pl(c.dets))
}

func parsePhCall(s string, withX bool) phCall {
	var c phCall
	if withX {
		c.x = int(s[0] - '0')
		s = s[1:]
	}
	c.ret = s[0]
	if c.ret != 'o' && c.ret != 'e' && c.ret != 'c' {
		panic("bad ret " + s)
	}
	c.cancel = len(s) > 1 && s[1] == '~'
	return c
}

func parsePhases(l string) phCase {
	t := strings.Split(l, " ")
	if len(t) != 6 {
		panic("bad phases case " + l)
	}
	c := phCase{before: t[1] == "1", nfx: atoi(t[2])}
	for _, r := range strings.Split(t[3], "|") {
		var es [][]phCall
		if r != "-" {
			for _, e := range strings.Split(r, ";") {
				var cs []phCall
				if e != "n" {
					for _, k := range strings.Split(e, ",") {
						cs = append(cs, parsePhCall(k, true))
					}
				}
				es = append(es, cs)
			}
		}
		c.roots = append(c.roots, es)
	}
	pl := func(s string) []phCall {
		var o []phCall
		if s != "-" {
			for _, k := range strings.Split(s, "|") {
				o = append(o, parsePhCall(k, false))
			}
		}
		return o
	}
	c.sts, c.dets = pl(t[4]), pl(t[5])
	return c
}

type phWorld struct {
	log    []string
	cancel context.CancelFunc
	files  map[string][]phCall
}

// do is the body of every fake plugin call: log the start, maybe cancel, return nil / an error / ctx.Err()
func (w *phWorld) do(ctx context.Context, name string, c phCall) error {
	w.log = append(w.log, name)
	if c.cancel {
		w.cancel()
	}
	switch c.ret {
	case 'e':
		return errors.New("plugin failed")
	case 'c':
		return ctx.Err()
	}
	return nil
}

type phFS struct {
	base
	idx int
	w   *phWorld
}

func (e phFS) call(path string) (phCall, bool) {
	for _, c := range e.w.files[path] {
		if c.x == e.idx {
			return c, true
		}
	}
	return phCall{}, false
}
func (e phFS) FileRequired(api filesystem.FileAPI) bool { _, ok := e.call(api.Path()); return ok }
func (e phFS) Extract(ctx context.Context, in *filesystem.ScanInput) (inventory.Inventory, error) {
	c, _ := e.call(in.Path)
	name := e.name + "@" + strings.SplitN(in.Path, ".", 2)[0]
	return inventory.Inventory{}, e.w.do(ctx, name, c)
}

type phST struct {
	base
	c phCall
	w *phWorld
}

func (e phST) Extract(ctx context.Context, _ *standalone.ScanInput) (inventory.Inventory, error) {
	return inventory.Inventory{}, e.w.do(ctx, e.name, e.c)
}

type phDet struct {
	base
	c phCall
	w *phWorld
}

func (phDet) RequiredExtractors() []string { return nil }
func (d phDet) Scan(ctx context.Context, _ *scalibrfs.ScanRoot, _ *packageindex.PackageIndex) ([]*detector.Finding, error) {
	return nil, d.w.do(ctx, d.name, d.c)
}

func runPhases(c phCase) string {
	return hx.Guard(func() string {
		ctx, cancel := context.WithCancel(context.Background())
		defer cancel()
		w := &phWorld{cancel: cancel, files: map[string][]phCall{}}
		var roots []*scalibrfs.ScanRoot
		for ri, r := range c.roots {
			m := fstest.MapFS{}
			for fi, e := range r {
				if fi > 9 {
					panic("at most 10 entries per root") // listing order = name order
				}
				name := fmt.Sprintf("r%df%d.x", ri, fi)
				m[name] = &fstest.MapFile{Data: []byte("x")}
				w.files[name] = e
			}
			roots = append(roots, &scalibrfs.ScanRoot{FS: m})
		}
		cfg := &scalibr.ScanConfig{ScanRoots: roots, Capabilities: &plugin.Capabilities{}}
		for i := 0; i < c.nfx; i++ {
			cfg.FilesystemExtractors = append(cfg.FilesystemExtractors, phFS{base{fmt.Sprintf("fx%d", i)}, i, w})
		}
		for i, p := range c.sts {
			cfg.StandaloneExtractors = append(cfg.StandaloneExtractors, phST{base{fmt.Sprintf("sx%d", i)}, p, w})
		}
		for i, p := range c.dets {
			cfg.Detectors = append(cfg.Detectors, phDet{base{fmt.Sprintf("det%d", i)}, p, w})
		}
		if c.before {
			cancel()
		}
		res := scalibr.New().Scan(ctx, cfg)
		st := "ok"
		if res.Status.Status != plugin.ScanStatusSucceeded {
			st = "failed"
		}
		var pst []string
		for _, p := range res.PluginStatus {
			if strings.HasPrefix(p.Name, "sx") || strings.HasPrefix(p.Name, "det") {
				v := "ok"
				if p.Status.Status != plugin.ScanStatusSucceeded {
					v = "failed"
				}
				pst = append(pst, p.Name+":"+v)
			}
		}
		// result order is by name; the model lists standalone before detectors: canonical = sorted by (kind, index)
		sort.SliceStable(pst, func(i, j int) bool { return strings.HasPrefix(pst[i], "sx") && strings.HasPrefix(pst[j], "det") })
		return fmt.Sprintf("started=%s st=%s pst=%s", hx.Join(w.log, ","), st, hx.Join(pst, ","))
	})
}

var rets = []byte{'o', 'e', 'c'}

// phasesExhaustive (both tiers): 2 roots x up to 2 entries, 2 fs extractors, 2..3 standalone extractors, 2..3 detectors;
// "cancelled before the scan", or exactly one canceller at EVERY position of the schedule, the canceller returning
// nil / an error / ctx.Err(), each other plugin's return value varied around it; also without any cancellation.
func phasesExhaustive(emit func(phCase)) {
	shapes := []struct {
		nfx   int
		roots [][][]int // entry -> extractor indexes
		nst   int
		ndet  int
	}{
		{2, [][][]int{{{0, 1}, {}, {1}}, {{0}}}, 2, 2},
		{1, [][][]int{{{0}, {0}}}, 3, 2},
		{0, [][][]int{{}}, 2, 3},
		{2, [][][]int{{{0, 1}}, {}}, 0, 2},
		{1, [][][]int{{{0}}}, 2, 0},
		{0, [][][]int{{}}, 0, 0},
	}
	for _, sh := range shapes {
		// positions: every call of the schedule
		npos := sh.nst + sh.ndet
		for _, r := range sh.roots {
			for _, e := range r {
				npos += len(e)
			}
		}
		build := func(cancelAt int, cret byte, others byte, before bool) phCase {
			c := phCase{before: before, nfx: sh.nfx}
			pos := 0
			mk := func(x int) phCall {
				k := phCall{x: x, ret: others}
				if pos == cancelAt {
					k.ret, k.cancel = cret, true
				}
				pos++
				return k
			}
			for _, r := range sh.roots {
				var es [][]phCall
				for _, e := range r {
					var cs []phCall
					for _, x := range e {
						cs = append(cs, mk(x))
					}
					es = append(es, cs)
				}
				c.roots = append(c.roots, es)
			}
			for i := 0; i < sh.nst; i++ {
				c.sts = append(c.sts, mk(0))
			}
			for i := 0; i < sh.ndet; i++ {
				c.dets = append(c.dets, mk(0))
			}
			return c
		}
		for _, others := range rets {
			emit(build(-1, 'o', others, false))
			emit(build(-1, 'o', others, true))
			for at := 0; at < npos; at++ {
				for _, cret := range rets {
					emit(build(at, cret, others, false))
				}
			}
		}
	}
}

func randPhases(r *rand.Rand) phCase {
	c := phCase{before: r.Intn(12) == 0, nfx: r.Intn(3)}
	pc := func(x int) phCall { return phCall{x: x, ret: rets[r.Intn(3)], cancel: r.Intn(6) == 0} }
	for n := 1 + r.Intn(2); n > 0; n-- {
		var es [][]phCall
		for k := r.Intn(4); k > 0; k-- {
			var cs []phCall
			for x := 0; x < c.nfx; x++ {
				if r.Intn(2) == 0 {
					cs = append(cs, pc(x))
				}
			}
			es = append(es, cs)
		}
		c.roots = append(c.roots, es)
	}
	for n := r.Intn(4); n > 0; n-- {
		c.sts = append(c.sts, pc(0))
	}
	for n := r.Intn(4); n > 0; n-- {
		c.dets = append(c.dets, pc(0))
	}
	return c
}

// advFieldCases (both tiers): for every field of detector.Advisory and its nested structs (and every nil-vs-set pointer)
// two findings with the SAME advisory ID whose advisories are distinct objects identical except in that one field — in
// both orders, across two detectors and inside one — must fail the scan; the all-equal controls (distinct objects, same
// content, for the base and for every variant) must not.
func advFieldCases(emit func(tcase)) {
	mk := func(ptr, body int) fndSpec {
		return fndSpec{false, ptr, advSpec{kind: 'f', ref: "CVE-7", body: body}, ""}
	}
	for k := 0; k <= len(advMuts); k++ {
		for _, pair := range [][2]int{{0, k}, {k, 0}, {k, k}} {
			emit(tcase{nfx: 0, roots: [][]fileSpec{nil}, dets: []detSpec{{mode: 'c', findings: []fndSpec{mk(1, pair[0])}}, {mode: 'c', findings: []fndSpec{mk(2, pair[1])}}}})
			emit(tcase{nfx: 0, roots: [][]fileSpec{nil}, dets: []detSpec{{mode: 'c', findings: []fndSpec{mk(1, pair[0]), mk(2, pair[1])}}}})
		}
		// an extractor's finding against a detector's
		emit(tcase{nfx: 1, roots: [][]fileSpec{{{exts: []int{0}, findings: []fndSpec{mk(1, 0)}}}}, dets: []detSpec{{mode: 'c', findings: []fndSpec{mk(2, k)}}}})
	}
}

// runLine dispatches on the op; a line of another check's grammar (the corpus of the property that borrows this stream) is "bad-op"
func runLine(l string) (reply string) {
	defer func() {
		if r := recover(); r != nil {
			reply = "bad-op"
		}
	}()
	switch {
	case l == "advfields":
		return fmt.Sprintf("n=%d fields=%s", len(advMuts), hx.Hex(strings.Join(advFieldNames(), ",")))
	case strings.HasPrefix(l, "scan "):
		c := parseCase(l)
		return run(c)
	case strings.HasPrefix(l, "nilarg "):
		return runNilArg(strings.TrimPrefix(l, "nilarg "))
	case strings.HasPrefix(l, "idxmut "):
		c := parseCase("scan " + strings.TrimPrefix(l, "idxmut "))
		if len(c.dets) < 2 {
			return "bad-op"
		}
		for _, d := range c.dets {
			if d.canc {
				return "bad-op"
			}
		}
		return runGated(c, "M")
	case strings.HasPrefix(l, "cscan "):
		t := strings.SplitN(l, " ", 3)
		if len(t) != 3 || (t[1] != "l" && t[1] != "d" && t[1] != "e") {
			return "bad-op"
		}
		c := parseCase("scan " + t[2])
		if len(c.roots) != 1 {
			return "bad-op"
		}
		return runGated(c, "C"+t[1])
	case strings.HasPrefix(l, "gate "):
		t := strings.SplitN(l, " ", 3)
		if len(t) != 3 || len(t[1]) != 4 || !strings.Contains("0123", t[1][0:1]) || !strings.Contains("01", t[1][1:2]) || !strings.Contains("012", t[1][2:3]) || !strings.Contains("01", t[1][3:4]) {
			return "bad-op"
		}
		return runGated(parseCase("scan "+t[2]), t[1])
	case strings.HasPrefix(l, "phases "):
		c := parsePhases(l)
		return runPhases(c)
	}
	return "bad-op"
}

func main() {
	only := flag.String("only", "", "restrict the stream: order (findings/status order, for C08) | phases (plugin loops under cancellation, for C10) | scan")
	also := flag.String("also", "", "case file whose lines of the selected kind are run first (the C20 witnesses, when another property borrows the stream)")
	o := hx.Parse()
	out := hx.NewOut()
	defer out.Flush()
	initAdvisories()
	if o.Replay != "" {
		for _, l := range hx.ReplayLines(o.Replay) {
			out.Emit(l, runLine(l))
		}
		return
	}
	want := func(k string) bool { return *only == "" || *only == k }
	if *also != "" {
		for _, l := range hx.ReplayLines(*also) {
			if (strings.HasPrefix(l, "phases ") && want("phases")) || (strings.HasPrefix(l, "scan ") && (want("order") || want("scan"))) {
				out.Emit(l, runLine(l))
			}
		}
	}
	emitScan := func(c tcase) {
		l := c.line()
		// round-trip through the parser so that what runs is exactly what the line says
		out.Emit(l, run(parseCase(l)))
	}
	emitPh := func(c phCase) {
		l := c.line()
		out.Emit(l, runPhases(parsePhases(l)))
	}
	if want("scan") {
		out.Emit("advfields", runLine("advfields")) // the enumerated field list, for the evidence
		advFieldCases(emitScan)
	}
	if want("scan") {
		// the gate in front of the phases: 12 scan cases x every combination of the four precondition flags
		gr := rand.New(rand.NewSource(o.Seed + 7777))
		for i := 0; i < 12; i++ {
			c := randCase(gr)
			if len(c.dets) == 0 {
				continue
			}
			body := strings.TrimPrefix(c.line(), "scan ")
			for _, e := range "0123" {
				for _, v := range "01" {
					for _, r := range "012" {
						for _, p := range "01" {
							l := "gate " + string([]rune{e, v, r, p}) + " " + body
							if rep := runLine(l); rep != "bad-op" {
								out.Emit(l, rep)
							}
						}
					}
				}
			}
		}
	}
	if want("scan") {
		// the same contract through ScanContainer: single-root scan cases as one-layer images
		cr := rand.New(rand.NewSource(o.Seed + 8888))
		for n := 0; n < 40; {
			c := randCase(cr)
			if len(c.roots) != 1 || len(c.dets) == 0 {
				continue
			}
			body := strings.TrimPrefix(c.line(), "scan ")
			v := []string{"l", "d", "l", "d", "e"}[n%5]
			n++
			out.Emit("cscan "+v+" "+body, runLine("cscan "+v+" "+body))
		}
	}
	if want("scan") {
		// nil optional arguments at the public entry points; detectors that overwrite what the index handed them
		for _, e := range nilargEntries {
			out.Emit("nilarg "+e, runLine("nilarg "+e))
		}
		mr := rand.New(rand.NewSource(o.Seed + 9999))
		for n := 0; n < 60; {
			c := randCase(mr)
			body := strings.TrimPrefix(c.line(), "scan ")
			if rep := runLine("idxmut " + body); rep != "bad-op" {
				out.Emit("idxmut "+body, rep)
				n++
			}
		}
	}
	if want("order") {
		orderCases(emitScan)
	}
	if want("phases") {
		phasesExhaustive(emitPh)
	}
	if o.Tier == "thorough" && want("scan") {
		exhaustive(emitScan)
	}
	r := hx.Rng(o)
	for i := 0; i < o.N; i++ {
		switch {
		case *only == "phases" || (*only == "" && i%5 == 4):
			emitPh(randPhases(r))
		default:
			emitScan(randCase(r))
		}
	}
}
