// c20gen: correspondence stream for C20 — scalibr.New().Scan with fake filesystem extractors over
// in-memory file systems, fake standalone extractors and 0..4 fake detectors, against the Lean model of
// packageindex.New / detector.Run / validateAdvisories / the tail of Scan (lean/Drivers/C20.lean).
//
// case line:  scan <nfx> <roots> <standalone> <detectors>
//
//	roots      := root ('|' root)*            root := '-' | file (';' file)*
//	file       := <exts> '=' <pkgs> ['!'] ['#' <findings>]     exts := 'n' | digits of the fs extractors (< nfx) that require the file
//	pkgs       := '-' | pkg (',' pkg)*        pkg := 'x' (no purl) | <hextype> ':' <hexname>
//	standalone := '-' | stx ('|' stx)*        stx := <pkgs> ['!'] ['#' <findings>]       '!' = Extract returns an error
//	detectors  := '-' | det ('|' det)*        det := 'c' <findings> flags | 'q' <hextype> ':' <hexname> '/' <adv> flags
//	flags      := ['!'] ['~']                 '!' = Scan returns an error as well, '~' = cancels the scan's context
//	findings   := '-' | fnd (',' fnd)*        fnd := <ptr> '@' <adv> '@' <extra>
//	adv        := 'n' (no advisory) | 'i' <body> (no ID) | <pub> '.' <ref> '.' <body>
//
// Package ids are assigned in extraction order (roots, files by name, extractors by index; then the
// standalone extractors). Findings with the same <ptr> are ONE Go object (detector.Run must report a tagged
// copy per occurrence and leave the object itself alone: reply field mut=0). A 'q' detector returns one
// finding per package of GetSpecific(name, type): ptr 1000+100*detector+package id, extra = package id.
package main

import (
	"context"
	"errors"
	"fmt"
	"math/rand"
	"sort"
	"strconv"
	"strings"
	"testing/fstest"

	scalibr "github.com/google/osv-scalibr"
	"github.com/google/osv-scalibr/detector"
	"github.com/google/osv-scalibr/extractor"
	"github.com/google/osv-scalibr/extractor/filesystem"
	"github.com/google/osv-scalibr/extractor/standalone"
	scalibrfs "github.com/google/osv-scalibr/fs"
	"github.com/google/osv-scalibr/inventory"
	"github.com/google/osv-scalibr/packageindex"
	"github.com/google/osv-scalibr/plugin"
	"github.com/google/osv-scalibr/purl"

	"verif/harness/hx"
)

// ---------------------------------------------------------------- case structure

type pkgSpec struct {
	has       bool
	typ, name string
}
type advSpec struct {
	kind           byte // 'n', 'i', 'f'
	pub, ref, body int
}
type fndSpec struct {
	isNil bool
	ptr   int
	adv   advSpec
	extra int
}
type fileSpec struct {
	exts     []int
	pkgs     []pkgSpec
	err      bool
	findings []fndSpec
}
type stSpec struct {
	pkgs     []pkgSpec
	err      bool
	findings []fndSpec
}
type detSpec struct {
	mode      byte // 'c' | 'q'
	findings  []fndSpec
	qt, qn    string
	qadv      advSpec
	err, canc bool
}
type tcase struct {
	nfx   int
	roots [][]fileSpec
	sts   []stSpec
	dets  []detSpec
}

func must(err error) {
	if err != nil {
		panic(err)
	}
}
func atoi(s string) int { n, err := strconv.Atoi(s); must(err); return n }

func parsePkgs(s string) []pkgSpec {
	if s == "-" || s == "" {
		return nil
	}
	var out []pkgSpec
	for _, p := range strings.Split(s, ",") {
		if p == "x" {
			out = append(out, pkgSpec{})
			continue
		}
		tn := strings.Split(p, ":")
		out = append(out, pkgSpec{true, hx.UnHex(tn[0]), hx.UnHex(tn[1])})
	}
	return out
}

func parseAdv(s string) advSpec {
	switch {
	case s == "n":
		return advSpec{kind: 'n'}
	case strings.HasPrefix(s, "i"):
		return advSpec{kind: 'i', body: atoi(s[1:])}
	}
	t := strings.Split(s, ".")
	return advSpec{'f', atoi(t[0]), atoi(t[1]), atoi(t[2])}
}

func parseFindings(s string) []fndSpec {
	if s == "-" || s == "" {
		return nil
	}
	var out []fndSpec
	for _, f := range strings.Split(s, ",") {
		if f == "z" {
			out = append(out, fndSpec{isNil: true})
			continue
		}
		t := strings.Split(f, "@")
		out = append(out, fndSpec{false, atoi(t[0]), parseAdv(t[1]), atoi(t[2])})
	}
	return out
}

// splitTail parses "<pkgs>[!][#findings]"
func splitTail(s string) (pkgs []pkgSpec, err bool, fs []fndSpec) {
	if i := strings.IndexByte(s, '#'); i >= 0 {
		fs = parseFindings(s[i+1:])
		s = s[:i]
	}
	if strings.HasSuffix(s, "!") {
		err = true
		s = s[:len(s)-1]
	}
	return parsePkgs(s), err, fs
}

func parseCase(l string) tcase {
	t := strings.Split(l, " ")
	if len(t) != 5 || t[0] != "scan" {
		panic("bad case " + l)
	}
	c := tcase{nfx: atoi(t[1])}
	for _, r := range strings.Split(t[2], "|") {
		var files []fileSpec
		if r != "-" {
			for _, f := range strings.Split(r, ";") {
				eq := strings.IndexByte(f, '=')
				var fsp fileSpec
				if f[:eq] != "n" {
					for _, d := range f[:eq] {
						fsp.exts = append(fsp.exts, int(d-'0'))
					}
				}
				fsp.pkgs, fsp.err, fsp.findings = splitTail(f[eq+1:])
				files = append(files, fsp)
			}
		}
		c.roots = append(c.roots, files)
	}
	if t[3] != "-" {
		for _, s := range strings.Split(t[3], "|") {
			var sp stSpec
			sp.pkgs, sp.err, sp.findings = splitTail(s)
			c.sts = append(c.sts, sp)
		}
	}
	if t[4] != "-" {
		for _, s := range strings.Split(t[4], "|") {
			d := detSpec{mode: s[0]}
			s = s[1:]
			if strings.HasSuffix(s, "~") {
				d.canc = true
				s = s[:len(s)-1]
			}
			if strings.HasSuffix(s, "!") {
				d.err = true
				s = s[:len(s)-1]
			}
			if d.mode == 'c' {
				d.findings = parseFindings(s)
			} else {
				sl := strings.IndexByte(s, '/')
				tn := strings.Split(s[:sl], ":")
				d.qt, d.qn, d.qadv = hx.UnHex(tn[0]), hx.UnHex(tn[1]), parseAdv(s[sl+1:])
			}
			c.dets = append(c.dets, d)
		}
	}
	return c
}

// ---------------------------------------------------------------- printing a case

func pkgsStr(ps []pkgSpec) string {
	var o []string
	for _, p := range ps {
		if !p.has {
			o = append(o, "x")
		} else {
			o = append(o, hx.Hex(p.typ)+":"+hx.Hex(p.name))
		}
	}
	return hx.Join(o, ",")
}
func advStr(a advSpec) string {
	switch a.kind {
	case 'n':
		return "n"
	case 'i':
		return "i" + strconv.Itoa(a.body)
	}
	return fmt.Sprintf("%d.%d.%d", a.pub, a.ref, a.body)
}
func findingsStr(fs []fndSpec) string {
	var o []string
	for _, f := range fs {
		if f.isNil {
			o = append(o, "z")
			continue
		}
		o = append(o, fmt.Sprintf("%d@%s@%d", f.ptr, advStr(f.adv), f.extra))
	}
	return hx.Join(o, ",")
}
func tailStr(ps []pkgSpec, err bool, fs []fndSpec) string {
	s := pkgsStr(ps)
	if err {
		s += "!"
	}
	if len(fs) > 0 {
		s += "#" + findingsStr(fs)
	}
	return s
}
func (c tcase) line() string {
	var rs []string
	for _, r := range c.roots {
		var fsx []string
		for _, f := range r {
			e := "n"
			if len(f.exts) > 0 {
				e = ""
				for _, x := range f.exts {
					e += strconv.Itoa(x)
				}
			}
			fsx = append(fsx, e+"="+tailStr(f.pkgs, f.err, f.findings))
		}
		rs = append(rs, hx.Join(fsx, ";"))
	}
	var ss []string
	for _, s := range c.sts {
		ss = append(ss, tailStr(s.pkgs, s.err, s.findings))
	}
	var ds []string
	for _, d := range c.dets {
		s := string(d.mode)
		if d.mode == 'c' {
			s += findingsStr(d.findings)
		} else {
			s += hx.Hex(d.qt) + ":" + hx.Hex(d.qn) + "/" + advStr(d.qadv)
		}
		if d.err {
			s += "!"
		}
		if d.canc {
			s += "~"
		}
		ds = append(ds, s)
	}
	return fmt.Sprintf("scan %d %s %s %s", c.nfx, strings.Join(rs, "|"), hx.Join(ss, "|"), hx.Join(ds, "|"))
}

// ---------------------------------------------------------------- the fakes

type purlMeta struct {
	has       bool
	typ, name string
}

type world struct {
	c        tcase
	nextPkg  int
	pkgID    map[*extractor.Package]int
	fnd      map[int]*detector.Finding // ptr label -> the one Go object
	fndLabel map[*detector.Finding]int
	calls    []string
	obs      []string
	cancel   context.CancelFunc
	files    map[string]fileSpec // "r<root>f<idx>.x<exts>" -> spec
	types    []string
	names    []string
}

func (w *world) mkPkgs(ps []pkgSpec, loc string) []*extractor.Package {
	var out []*extractor.Package
	for _, p := range ps {
		id := w.nextPkg
		w.nextPkg++
		pk := &extractor.Package{Name: fmt.Sprintf("p%03d", id), Version: "1", Locations: []string{loc}, Metadata: purlMeta{p.has, p.typ, p.name}}
		w.pkgID[pk] = id
		out = append(out, pk)
	}
	return out
}

func mkAdv(a advSpec) *detector.Advisory {
	if a.kind == 'n' {
		return nil
	}
	adv := &detector.Advisory{Type: detector.TypeVulnerability, Title: fmt.Sprintf("t%d", a.body/3), Description: "d", Recommendation: "r"}
	if a.body%3 != 0 {
		adv.Sev = &detector.Severity{Severity: detector.SeverityEnum(a.body % 3)}
	}
	if a.kind == 'f' {
		adv.ID = &detector.AdvisoryID{Publisher: fmt.Sprintf("P%d", a.pub), Reference: fmt.Sprintf("%03d", a.ref)}
	}
	return adv
}

func (w *world) finding(f fndSpec) *detector.Finding {
	if f.isNil {
		return nil
	}
	if o, ok := w.fnd[f.ptr]; ok {
		return o // same label = same Go object
	}
	o := &detector.Finding{Adv: mkAdv(f.adv), Extra: fmt.Sprintf("%03d", f.extra), Target: &detector.TargetDetails{Location: []string{fmt.Sprintf("loc%d", f.ptr)}}, Detectors: []string{"stale"}}
	w.fnd[f.ptr] = o
	w.fndLabel[o] = f.ptr
	return o
}

func (w *world) mkFindings(fs []fndSpec) []*detector.Finding {
	var out []*detector.Finding
	for _, f := range fs {
		out = append(out, w.finding(f))
	}
	return out
}

type base struct{ name string }

func (b base) Name() string                      { return b.name }
func (base) Version() int                        { return 1 }
func (base) Requirements() *plugin.Capabilities  { return &plugin.Capabilities{} }
func (base) Ecosystem(*extractor.Package) string { return "" }
func (base) ToPURL(p *extractor.Package) *purl.PackageURL {
	m := p.Metadata.(purlMeta)
	if !m.has {
		return nil
	}
	return &purl.PackageURL{Type: m.typ, Name: m.name, Version: p.Version}
}

type fsx struct {
	base
	idx int
	w   *world
}

func (e fsx) FileRequired(api filesystem.FileAPI) bool {
	f, ok := e.w.files[api.Path()]
	if !ok {
		return false
	}
	for _, x := range f.exts {
		if x == e.idx {
			return true
		}
	}
	return false
}

func (e fsx) Extract(_ context.Context, in *filesystem.ScanInput) (inventory.Inventory, error) {
	f := e.w.files[in.Path]
	inv := inventory.Inventory{Packages: e.w.mkPkgs(f.pkgs, in.Path), Findings: e.w.mkFindings(f.findings)}
	if f.err {
		return inv, errors.New("extract failed")
	}
	return inv, nil
}

type stx struct {
	base
	spec stSpec
	w    *world
}

func (e stx) Extract(context.Context, *standalone.ScanInput) (inventory.Inventory, error) {
	inv := inventory.Inventory{Packages: e.w.mkPkgs(e.spec.pkgs, "st"), Findings: e.w.mkFindings(e.spec.findings)}
	if e.spec.err {
		return inv, errors.New("standalone failed")
	}
	return inv, nil
}

type det struct {
	base
	idx  int
	spec detSpec
	w    *world
}

func (det) RequiredExtractors() []string { return nil }

func (d det) ids(ps []*extractor.Package, sorted bool) string {
	var o []int
	for _, p := range ps {
		o = append(o, d.w.pkgID[p])
	}
	if sorted {
		sort.Ints(o)
	}
	s := make([]string, len(o))
	for i, x := range o {
		s[i] = strconv.Itoa(x)
	}
	return hx.Join(s, ".")
}

func (d det) Scan(_ context.Context, _ *scalibrfs.ScanRoot, px *packageindex.PackageIndex) ([]*detector.Finding, error) {
	w := d.w
	w.calls = append(w.calls, d.name)
	// observe the index through its three query methods
	var ob []string
	ob = append(ob, "A="+d.ids(px.GetAll(), true))
	for _, t := range w.types {
		ob = append(ob, "T"+hx.Hex(t)+"="+d.ids(px.GetAllOfType(t), true))
	}
	for _, t := range w.types {
		for _, n := range w.names {
			ob = append(ob, "S"+hx.Hex(t)+":"+hx.Hex(n)+"="+d.ids(px.GetSpecific(n, t), false))
		}
	}
	w.obs = append(w.obs, strings.Join(ob, ";"))
	var out []*detector.Finding
	if d.spec.mode == 'c' {
		out = w.mkFindings(d.spec.findings)
	} else {
		for _, p := range px.GetSpecific(d.spec.qn, d.spec.qt) {
			id := w.pkgID[p]
			out = append(out, w.finding(fndSpec{false, 1000 + 100*d.idx + id, d.spec.qadv, id}))
		}
	}
	if d.spec.canc {
		w.cancel()
	}
	if d.spec.err {
		return out, errors.New("detector failed")
	}
	return out, nil
}

// ---------------------------------------------------------------- running one case

func advOut(a *detector.Advisory) string {
	if a == nil {
		return "n"
	}
	body := 0
	fmt.Sscanf(a.Title, "t%d", &body)
	body *= 3
	if a.Sev != nil {
		body += int(a.Sev.Severity)
	}
	if a.ID == nil {
		return "i" + strconv.Itoa(body)
	}
	pub, ref := 0, 0
	fmt.Sscanf(a.ID.Publisher, "P%d", &pub)
	ref, _ = strconv.Atoi(a.ID.Reference)
	return fmt.Sprintf("%d.%d.%d", pub, ref, body)
}

func errEnum(msg string) string {
	switch {
	case strings.Contains(msg, "detector returned a nil finding"):
		return "nilf"
	case strings.Contains(msg, "finding has no advisory set"):
		return "noadv"
	case strings.Contains(msg, "finding has no advisory ID set"):
		return "noid"
	case strings.Contains(msg, "multiple non-identical advisories"):
		return "mismatch"
	case strings.Contains(msg, "context canceled"):
		return "ctx"
	}
	return "other"
}

func run(c tcase) string {
	return hx.Guard(func() string {
		ctx, cancel := context.WithCancel(context.Background())
		defer cancel()
		w := &world{c: c, pkgID: map[*extractor.Package]int{}, fnd: map[int]*detector.Finding{}, fndLabel: map[*detector.Finding]int{}, cancel: cancel, files: map[string]fileSpec{}}
		// query pool: types and names in order of first appearance, plus an absent one
		seenT, seenN := map[string]bool{}, map[string]bool{}
		addP := func(ps []pkgSpec) {
			for _, p := range ps {
				if p.has {
					if !seenT[p.typ] {
						seenT[p.typ] = true
						w.types = append(w.types, p.typ)
					}
					if !seenN[p.name] {
						seenN[p.name] = true
						w.names = append(w.names, p.name)
					}
				}
			}
		}
		var roots []*scalibrfs.ScanRoot
		for ri, r := range c.roots {
			m := fstest.MapFS{}
			for fi, f := range r {
				e := "n"
				if len(f.exts) > 0 {
					e = ""
					for _, x := range f.exts {
						e += strconv.Itoa(x)
					}
				}
				name := fmt.Sprintf("r%df%03d.x%s", ri, fi, e)
				m[name] = &fstest.MapFile{Data: []byte("x")}
				w.files[name] = f
				addP(f.pkgs)
			}
			roots = append(roots, &scalibrfs.ScanRoot{FS: m})
		}
		for _, s := range c.sts {
			addP(s.pkgs)
		}
		w.types = append(w.types, "zz")
		w.names = append(w.names, "zz")
		cfg := &scalibr.ScanConfig{ScanRoots: roots, Capabilities: &plugin.Capabilities{}}
		for i := 0; i < c.nfx; i++ {
			cfg.FilesystemExtractors = append(cfg.FilesystemExtractors, fsx{base{fmt.Sprintf("fx%d", i)}, i, w})
		}
		for i, s := range c.sts {
			cfg.StandaloneExtractors = append(cfg.StandaloneExtractors, stx{base{fmt.Sprintf("sx%d", i)}, s, w})
		}
		for i, d := range c.dets {
			cfg.Detectors = append(cfg.Detectors, det{base{fmt.Sprintf("det%d", i)}, i, d, w})
		}
		res := scalibr.New().Scan(ctx, cfg)

		st := "ok"
		errS := "none"
		if res.Status.Status != plugin.ScanStatusSucceeded {
			st = "failed"
			errS = errEnum(res.Status.FailureReason)
		}
		// findings: canonical strings; sortedness w.r.t. (reference, extra) checked on the result order
		var fo []string
		sorted := true
		prev := ""
		for _, f := range res.Inventory.Findings {
			if f == nil {
				fo = append(fo, "z")
				continue
			}
			// a reported detector finding is a COPY: its label travels in the (copied) Target
			lab := -1
			if f.Target != nil && len(f.Target.Location) == 1 {
				fmt.Sscanf(f.Target.Location[0], "loc%d", &lab)
			}
			var dn []string
			for _, n := range f.Detectors {
				dn = append(dn, hx.Hex(n))
			}
			tgt := "-"
			if f.Target != nil && len(f.Target.Location) == 1 {
				tgt = f.Target.Location[0]
			}
			ex, _ := strconv.Atoi(f.Extra)
			fo = append(fo, fmt.Sprintf("%d@%s@%d@%s@%s", lab, advOut(f.Adv), ex, tgt, hx.Join(dn, "+")))
			if f.Adv != nil && f.Adv.ID != nil {
				k := f.Adv.ID.Reference + "\x00" + f.Extra
				if k < prev {
					sorted = false
				}
				prev = k
			}
		}
		sort.Strings(fo)
		var pl []string
		for _, p := range res.PluginStatus {
			s := map[plugin.ScanStatusEnum]string{plugin.ScanStatusSucceeded: "ok", plugin.ScanStatusPartiallySucceeded: "partial", plugin.ScanStatusFailed: "failed"}[p.Status.Status]
			pl = append(pl, p.Name+":"+s)
		}
		plSorted := sort.SliceIsSorted(res.PluginStatus, func(i, j int) bool { return res.PluginStatus[i].Name < res.PluginStatus[j].Name })
		sort.Strings(pl)
		var pk []int
		for _, p := range res.Inventory.Packages {
			pk = append(pk, w.pkgID[p])
		}
		sort.Ints(pk)
		pks := make([]string, len(pk))
		for i, x := range pk {
			pks[i] = strconv.Itoa(x)
		}
		idx, same := "-", true
		if len(w.obs) > 0 {
			idx = w.obs[0]
			for _, o := range w.obs {
				if o != idx {
					same = false
				}
			}
		}
		// the objects handed out by the fakes must not have been written to by the scan
		mut := false
		for _, o := range w.fnd {
			if len(o.Detectors) != 1 || o.Detectors[0] != "stale" {
				mut = true
			}
		}
		return fmt.Sprintf("st=%s err=%s calls=%s idx=%s idxsame=%s find=%s sorted=%s plug=%s plugsorted=%s pk=%s mut=%s",
			st, errS, hx.Join(w.calls, ","), idx, hx.B(same), hx.Join(fo, ","), hx.B(sorted), hx.Join(pl, ","), hx.B(plSorted), hx.Join(pks, "."), hx.B(mut))
	})
}

// ---------------------------------------------------------------- generation

var typePool = []string{"pypi", "deb", "npm", "", "PyPI"}
var namePool = []string{"a", "b", "requests", "", "A"}

func randPkgs(r *rand.Rand, max int) []pkgSpec {
	var out []pkgSpec
	for n := r.Intn(max + 1); n > 0; n-- {
		if r.Intn(4) == 0 {
			out = append(out, pkgSpec{})
		} else {
			out = append(out, pkgSpec{true, typePool[r.Intn(3+r.Intn(3))], namePool[r.Intn(3+r.Intn(3))]})
		}
	}
	return out
}

type fgen struct {
	r       *rand.Rand
	nextPtr int
	made    []fndSpec
}

// adv: ids from a pool of 3 references x 2 publishers; bodies from a pool of 4 (so that equal and
// unequal bodies under one id both occur); a small share lacks the advisory or the id.
func (g *fgen) adv(badPct int) advSpec {
	k := g.r.Intn(100)
	switch {
	case k < badPct/2:
		return advSpec{kind: 'n'}
	case k < badPct:
		return advSpec{kind: 'i', body: g.r.Intn(4)}
	}
	ref := g.r.Intn(3)
	body := ref // by default the body is determined by the reference: consistent
	if g.r.Intn(100) < badPct {
		body = g.r.Intn(4)
	}
	pub := 0
	if g.r.Intn(12) == 0 {
		pub = 1
	}
	return advSpec{'f', pub, ref, body + 4*pub}
}

// findings: detector findings may repeat an earlier finding object (aliasPct) — of the same detector, of another
// detector or of an extractor — and may contain nil entries; extractor findings (fromDetector=false) do neither.
func (g *fgen) findings(max, badPct, aliasPct int, fromDetector bool) []fndSpec {
	var out []fndSpec
	for n := g.r.Intn(max + 1); n > 0; n-- {
		if fromDetector && len(g.made) > 0 && g.r.Intn(100) < aliasPct {
			out = append(out, g.made[g.r.Intn(len(g.made))]) // the same Go object again
			continue
		}
		if fromDetector && badPct > 0 && g.r.Intn(100) < badPct/3 {
			out = append(out, fndSpec{isNil: true})
			continue
		}
		f := fndSpec{false, g.nextPtr, g.adv(badPct), g.r.Intn(3)}
		g.nextPtr++
		g.made = append(g.made, f)
		out = append(out, f)
	}
	return out
}

func randCase(r *rand.Rand) tcase {
	c := tcase{nfx: r.Intn(4)}
	g := &fgen{r: r, nextPtr: 1}
	// how adversarial this case is
	badPct := []int{0, 0, 0, 6, 25}[r.Intn(5)]
	aliasPct := []int{0, 0, 0, 0, 15}[r.Intn(5)]
	exFindPct := []int{0, 0, 0, 0, 0, 30}[r.Intn(6)]
	nroots := 1 + r.Intn(5)/4 + r.Intn(7)/6
	for ; nroots > 0; nroots-- {
		var files []fileSpec
		for n := r.Intn(4); n > 0; n-- {
			var f fileSpec
			for x := 0; x < c.nfx; x++ {
				if r.Intn(2) == 0 {
					f.exts = append(f.exts, x)
				}
			}
			f.pkgs = randPkgs(r, 3)
			f.err = r.Intn(8) == 0
			if r.Intn(100) < exFindPct {
				f.findings = g.findings(2, badPct, 0, false)
			}
			files = append(files, f)
		}
		c.roots = append(c.roots, files)
	}
	for n := r.Intn(3); n > 0; n-- {
		s := stSpec{pkgs: randPkgs(r, 2), err: r.Intn(6) == 0}
		if r.Intn(100) < exFindPct {
			s.findings = g.findings(2, badPct, 0, false)
		}
		c.sts = append(c.sts, s)
	}
	for n := r.Intn(5); n > 0; n-- {
		d := detSpec{mode: 'c', err: r.Intn(4) == 0, canc: r.Intn(40) == 0}
		if r.Intn(5) == 0 {
			d.mode = 'q'
			d.qt, d.qn = typePool[r.Intn(3)], namePool[r.Intn(3)]
			d.qadv = g.adv(badPct)
		} else {
			d.findings = g.findings(3, badPct, aliasPct, true)
		}
		c.dets = append(c.dets, d)
	}
	return c
}

// exhaustive (thorough): every list of ≤ 3 findings over 2 ids x 2 bodies + "no advisory" + "no id" + nil entry,
// split over 1..2 detectors in every way, with and without a detector error.
func exhaustive(emit func(tcase)) {
	advs := []advSpec{{'f', 0, 0, 0}, {'f', 0, 0, 1}, {'f', 0, 1, 0}, {'f', 0, 1, 1}, {kind: 'n'}, {kind: 'i', body: 0}, {kind: 'z'}}
	var rec func(cur []advSpec)
	rec = func(cur []advSpec) {
		for split := 0; split <= len(cur); split++ {
			for _, e := range []bool{false, true} {
				mk := func(as []advSpec, base int) []fndSpec {
					var fs []fndSpec
					for i, a := range as {
						if a.kind == 'z' {
							fs = append(fs, fndSpec{isNil: true})
							continue
						}
						fs = append(fs, fndSpec{false, base + i + 1, a, i % 2})
					}
					return fs
				}
				c := tcase{nfx: 1, roots: [][]fileSpec{{{exts: []int{0}, pkgs: []pkgSpec{{true, "pypi", "a"}, {}}}}},
					dets: []detSpec{{mode: 'c', findings: mk(cur[:split], 0), err: e}, {mode: 'c', findings: mk(cur[split:], 10)}}}
				emit(c)
			}
		}
		if len(cur) == 3 {
			return
		}
		for _, a := range advs {
			rec(append(append([]advSpec{}, cur...), a))
		}
	}
	rec(nil)
}

func main() {
	o := hx.Parse()
	out := hx.NewOut()
	defer out.Flush()
	if o.Replay != "" {
		for _, l := range hx.ReplayLines(o.Replay) {
			out.Emit(l, run(parseCase(l)))
		}
		return
	}
	if o.Tier == "thorough" {
		exhaustive(func(c tcase) { out.Emit(c.line(), run(c)) })
	}
	r := hx.Rng(o)
	for i := 0; i < o.N; i++ {
		c := randCase(r)
		l := c.line()
		// round-trip through the parser so that what runs is exactly what the line says
		out.Emit(l, run(parseCase(l)))
	}
}
