// c17gen: correspondence stream for C17 (symlink resolution in image views vs Scalibr.Symlink).
// Every case is a real two-layer image built in memory (go-containerregistry), loaded with
// image.FromV1Image once per MaxSymlinkDepth 0..dmax; Stat / Open(+Stat on the handle) / ReadDir of
// every named entry are observed in both views. Case grammar: see lean/Drivers/C17.lean.
package main

import (
	"archive/tar"
	"encoding/hex"
	"errors"
	"flag"
	"fmt"
	"io"
	"io/fs"
	"log"
	"math/rand"
	"net/http/httptest"
	"os"
	"strconv"
	"strings"
	"sync"

	"github.com/google/go-containerregistry/pkg/name"
	"github.com/google/go-containerregistry/pkg/registry"
	v1 "github.com/google/go-containerregistry/pkg/v1"
	"github.com/google/go-containerregistry/pkg/v1/empty"
	"github.com/google/go-containerregistry/pkg/v1/mutate"
	"github.com/google/go-containerregistry/pkg/v1/remote"
	"github.com/google/go-containerregistry/pkg/v1/tarball"
	"github.com/google/osv-scalibr/artifact/image/layerscanning/image"
	"github.com/google/osv-scalibr/artifact/image/require"

	"verif/harness/hx"
	"verif/harness/imgx"
)

type ent struct {
	name string
	kind byte // F D M X L Y
	link string
}

type tcase struct {
	dmax int
	hist string // config history mode (one of histModes) + flags: t load through FromTarball, r through FromRemoteName, q requirer = the link entries only
	ents []ent
}

// History modes. The answer of every observation must not depend on them.
//
//	H  one history entry per layer (what mutate.AppendLayers writes)          -> chain layers follow the history
//	E  valid history with empty-layer entries before, between and after         -> 5 chain layers, 3 of them empty
//	N  no history at all                                                        -> history ignored (fallback)
//	S  last entry missing        G  one extra non-empty entry                   -> fallback
//	X  empty-layer entries and a missing layer entry                            -> fallback
//	C  the image's ConfigFile() fails                                           -> no history: fallback
const histModes = "HENSGXC"

// emitRequirer: generate cases with flag q (requirer = the link entries only; the final view is pruned by
// removeUnnecessaryFileNodes). Off until the repair of the pruning loop is in /repo: on the unrepaired tree a required
// symlink that another required symlink reaches first (map iteration order!) loses its own targets (fix-c17-cov/1.diff).
// emitSymlinkWhiteout: generate entry kind W (a whiteout written as a symlink entry). Off until the repair is in /repo:
// resolveSymlink follows such a node before anybody looks at isWhiteout (fix-imgb-j/2.diff).
const emitSymlinkWhiteout = true

const emitRequirer = true

func hexs(s string) string { return hex.EncodeToString([]byte(s)) }

func (c tcase) line() string {
	ts := make([]string, len(c.ents))
	for i, e := range c.ents {
		l := "-"
		if e.kind == 'L' || e.kind == 'Y' || e.kind == 'H' || e.kind == 'W' {
			l = hexs(e.link)
			if l == "" {
				l = "-"
			}
		}
		ts[i] = fmt.Sprintf("%s:%c:%s", hexs(e.name), e.kind, l)
	}
	h := c.hist
	if h == "" {
		h = "H"
	}
	return fmt.Sprintf("sym %d %s %s", c.dmax, h, hx.Join(ts, ","))
}

func parseCase(l string) tcase {
	t := strings.Split(l, " ")
	if (len(t) != 3 && len(t) != 4) || t[0] != "sym" {
		panic("bad case line: " + l)
	}
	d, err := strconv.Atoi(t[1])
	if err != nil {
		panic(err)
	}
	c := tcase{dmax: d, hist: "H"}
	if len(t) == 4 {
		c.hist = t[2]
		if len(c.hist) < 1 || !strings.Contains(histModes, c.hist[:1]) || strings.Trim(c.hist[1:], "trq") != "" {
			panic("bad history token: " + l)
		}
	}
	if es := t[len(t)-1]; es != "-" {
		for _, e := range strings.Split(es, ",") {
			p := strings.Split(e, ":")
			c.ents = append(c.ents, ent{name: hx.UnHex(p[0]), kind: p[1][0], link: hx.UnHex(p[2])})
		}
	}
	return c
}

type tarEnt = imgx.TarEnt

var mkLayer, whName = imgx.MkLayer, imgx.WhName

func errClass(err error) string {
	switch {
	case errors.Is(err, fs.ErrNotExist):
		return "n"
	case errors.Is(err, image.ErrSymlinkCycle):
		return "c"
	case errors.Is(err, image.ErrSymlinkDepthExceeded):
		return "p"
	}
	return "x"
}

func infoTok(fi fs.FileInfo) string {
	if fi.IsDir() {
		return "d" + hexs(fi.Name())
	}
	return "f" + hexs(fi.Name())
}

// run builds the image and observes every entry in both views for every depth.
func run(c tcase) string {
	return hx.Guard(func() string {
		var l0, l1 []tarEnt
		for _, e := range c.ents {
			switch e.kind {
			case 'F':
				l0 = append(l0, tarEnt{e.name, tar.TypeReg, "x", ""})
			case 'D':
				l0 = append(l0, tarEnt{e.name + "/", tar.TypeDir, "", ""}, tarEnt{e.name + "/c", tar.TypeReg, "x", ""})
			case 'M':
			case 'X':
				l0 = append(l0, tarEnt{e.name, tar.TypeReg, "x", ""})
				l1 = append(l1, tarEnt{whName(e.name), tar.TypeReg, "", ""})
			case 'L':
				l0 = append(l0, tarEnt{e.name, tar.TypeSymlink, "", e.link})
			case 'Y':
				l0 = append(l0, tarEnt{e.name, tar.TypeSymlink, "", e.link})
				l1 = append(l1, tarEnt{whName(e.name), tar.TypeReg, "", ""})
			case 'W':
				// a file deleted by layer 1 with a whiteout entry of TYPE symlink (whiteouts are normally empty regular
				// files; the entry type must not matter)
				l0 = append(l0, tarEnt{e.name, tar.TypeReg, "x", ""})
				l1 = append(l1, tarEnt{whName(e.name), tar.TypeSymlink, "", e.link})
			case 'Z':
				// a directory with a child, deleted as a whole by layer 1 (the child is then hidden below a whiteout)
				l0 = append(l0, tarEnt{e.name + "/", tar.TypeDir, "", ""}, tarEnt{e.name + "/c", tar.TypeReg, "x", ""})
				l1 = append(l1, tarEnt{whName(e.name), tar.TypeReg, "", ""})
			case 'H':
				// a tar hard link: Linkname is the name of another archive entry (relative to the image root)
				l0 = append(l0, tarEnt{e.name, tar.TypeLink, "", e.link})
			default:
				panic("kind")
			}
		}
		l1 = append(l1, tarEnt{"keep", tar.TypeReg, "k", ""})
		img, wantChain := buildImage(c.hist[0], mkLayer(l0), mkLayer(l1))
		flags := c.hist[1:]
		tarPath, remoteRef := "", ""
		if strings.Contains(flags, "t") { // load through image.FromTarball: the image goes through a docker-save tarball first
			f, err := os.CreateTemp("", "c17-*.tar")
			if err != nil {
				panic(err)
			}
			tarPath = f.Name()
			f.Close()
			defer os.Remove(tarPath)
			tag, err := name.NewTag("verif/c17:latest")
			if err != nil {
				panic(err)
			}
			if err := tarball.WriteToFile(tarPath, tag, img); err != nil {
				panic(err)
			}
		} else if strings.Contains(flags, "r") { // load through image.FromRemoteName: pushed to an in-process registry first
			remoteRef = pushToLocalRegistry(img)
		}
		// requirer: everything, or (flag q) only the link entries - their targets must then survive the pruning of the final view
		var requirer require.FileRequirer = &require.FileRequirerAll{}
		if strings.Contains(flags, "q") {
			var links []string
			for _, e := range c.ents {
				if e.kind == 'L' || e.kind == 'Y' || e.kind == 'H' {
					links = append(links, "/"+e.name)
				}
			}
			requirer = require.NewFileRequirerPaths(links)
		}
		names := make([]string, 0, len(c.ents)+1)
		for _, e := range c.ents {
			names = append(names, e.name)
		}
		names = append(names, ".") // the root, spelled the way the walker does
		var out []string
		for d := 0; d <= c.dmax; d++ {
			cfg := &image.Config{MaxFileBytes: 1 << 20, MaxSymlinkDepth: d, Requirer: requirer}
			if d == image.DefaultMaxSymlinkDepth && !strings.Contains(flags, "q") {
				cfg = image.DefaultConfig()
			}
			var im *image.Image
			var err error
			switch {
			case tarPath != "":
				im, err = image.FromTarball(tarPath, cfg)
			case remoteRef != "":
				im, err = image.FromRemoteName(remoteRef, cfg)
			default:
				im, err = image.FromV1Image(img, cfg)
			}
			if err != nil {
				return "loaderr"
			}
			cls, err := im.ChainLayers()
			if err != nil || len(cls) != wantChain {
				im.CleanUp()
				return fmt.Sprintf("chainlen%d", len(cls))
			}
			if d == 0 {
				ix := make([]string, len(cls))
				for i, cl := range cls {
					ix[i] = strconv.Itoa(cl.Index())
				}
				out = append(out, "ix="+strings.Join(ix, "."))
			}
			// view 0 = the last chain layer before the one of layer 1 (layer 0's own, or the empty layer that
			// follows it), view 1 = the last chain layer (layer 1's own, or a trailing empty layer)
			second, seen := len(cls)-1, 0
			for i, cl := range cls {
				if !cl.Layer().IsEmpty() {
					seen++
					if seen == 2 {
						second = i
					}
				}
			}
			var views []string
			for _, vi := range []int{second - 1, len(cls) - 1} {
				fsys := cls[vi].FS()
				layerFS := cls[vi].Layer().FS() // the layer's OWN file system: only its diff, symlinks not followed
				toks := make([]string, len(names))
				for i, nm := range names {
					var s, o, r, y string
					if fi, err := fsys.Stat(nm); err != nil {
						s = errClass(err)
					} else {
						s = infoTok(fi)
					}
					if f, err := fsys.Open(nm); err != nil {
						o = errClass(err)
					} else {
						if fi, err := f.Stat(); err != nil {
							o = "o" + errClass(err)
						} else {
							o = "o" + infoTok(fi)
						}
						f.Close()
					}
					if des, err := fsys.ReadDir(nm); err != nil {
						r = errClass(err)
					} else {
						ns := make([]string, len(des))
						for j, de := range des {
							ns[j] = hexs(de.Name())
						}
						r = "l" + strings.Join(ns, "_")
					}
					if fi, err := layerFS.Stat(nm); err != nil {
						y = errClass(err)
					} else if fi.Mode()&fs.ModeSymlink != 0 {
						y = "l"
					} else if fi.IsDir() {
						y = "d"
					} else {
						y = "f"
					}
					toks[i] = s + "." + o + "." + r + "." + y
				}
				views = append(views, strings.Join(toks, ","))
			}
			im.CleanUp()
			out = append(out, fmt.Sprintf("d%d=%s/%s", d, views[0], views[1]))
		}
		return strings.Join(out, " ")
	})
}

// ---------------------------------------------------------------- an in-process registry for FromRemoteName

var (
	regOnce sync.Once
	regHost string
	regSeq  int
)

func pushToLocalRegistry(img v1.Image) string {
	regOnce.Do(func() {
		srv := httptest.NewServer(registry.New(registry.Logger(log.New(io.Discard, "", 0))))
		regHost = strings.TrimPrefix(srv.URL, "http://")
	})
	regSeq++
	ref := fmt.Sprintf("%s/verif/c17:case%d", regHost, regSeq)
	tag, err := name.NewTag(ref)
	if err != nil {
		panic(err)
	}
	if err := remote.Write(tag, img); err != nil {
		panic(err)
	}
	return ref
}

// failingLayers / failingBlob: images whose layer list, resp. layer contents, cannot be read.
type failingLayers struct{ v1.Image }

func (failingLayers) Layers() ([]v1.Layer, error) { return nil, errors.New("verif: no layers") }

type failingBlob struct{ v1.Layer }

func (failingBlob) Uncompressed() (io.ReadCloser, error) { return nil, errors.New("verif: no blob") }

type failingBlobs struct{ v1.Image }

func (f failingBlobs) Layers() ([]v1.Layer, error) {
	ls, err := f.Image.Layers()
	for i := range ls {
		ls[i] = failingBlob{ls[i]}
	}
	return ls, err
}

// runProbe: what the loader's entry points do with unusable inputs (one case per run): the three invalid configs
// (negative symlink depth, no byte limit, no requirer) and a valid one, a missing tarball, an image whose layer list /
// layer contents cannot be read, and the empty image.
func runProbe() string {
	return hx.Guard(func() string {
		img, _ := buildImage('H', mkLayer([]tarEnt{{"a", tar.TypeReg, "x", ""}}), mkLayer([]tarEnt{{"keep", tar.TypeReg, "k", ""}}))
		load := func(im v1.Image, cfg *image.Config) (string, int) {
			res, err := image.FromV1Image(im, cfg)
			switch {
			case errors.Is(err, image.ErrInvalidConfig):
				return "i", 0
			case err != nil:
				return "e", 0
			}
			defer res.CleanUp()
			cls, _ := res.ChainLayers()
			return "o", len(cls)
		}
		all := &require.FileRequirerAll{}
		var cfg string
		for _, c := range []*image.Config{
			{MaxFileBytes: 1 << 20, MaxSymlinkDepth: -1, Requirer: all},
			{MaxFileBytes: 0, MaxSymlinkDepth: 0, Requirer: all},
			{MaxFileBytes: 1 << 20, MaxSymlinkDepth: 0, Requirer: nil},
			{MaxFileBytes: 1 << 20, MaxSymlinkDepth: 0, Requirer: all},
		} {
			r, _ := load(img, c)
			cfg += r
		}
		ok := &image.Config{MaxFileBytes: 1 << 20, MaxSymlinkDepth: 3, Requirer: all}
		tb := "o"
		if _, err := image.FromTarball("/nonexistent/verif-c17.tar", ok); err != nil {
			tb = "e"
		}
		ly, _ := load(failingLayers{img}, ok)
		un, _ := load(failingBlobs{img}, ok)
		em, n := load(empty.Image, ok)
		return fmt.Sprintf("cfg=%s tb=%s ly=%s un=%s empty=%s%d", cfg, tb, ly, un, em, n)
	})
}

// failingConfig: an image whose config file cannot be read (the loader then has no history at all).
type failingConfig struct{ v1.Image }

func (failingConfig) ConfigFile() (*v1.ConfigFile, error) {
	return nil, errors.New("verif: no config file")
}

// buildImage puts the two layers under a config history of the given mode; it returns the number of chain
// layers the loader must produce.
func buildImage(mode byte, l0, l1 v1.Layer) (v1.Image, int) {
	add := func(img v1.Image, a mutate.Addendum) v1.Image {
		out, err := mutate.Append(img, a)
		if err != nil {
			panic(err)
		}
		return out
	}
	emptyEntry := func(i int) mutate.Addendum {
		return mutate.Addendum{History: v1.History{CreatedBy: fmt.Sprintf("empty%d", i), EmptyLayer: true}}
	}
	img := v1.Image(empty.Image)
	if mode == 'E' {
		img = add(img, emptyEntry(0))
		img = add(img, mutate.Addendum{Layer: l0, History: v1.History{CreatedBy: "l0"}})
		img = add(img, emptyEntry(1))
		img = add(img, mutate.Addendum{Layer: l1, History: v1.History{CreatedBy: "l1"}})
		img = add(img, emptyEntry(2))
		return img, 5
	}
	img = add(img, mutate.Addendum{Layer: l0, History: v1.History{CreatedBy: "l0"}})
	img = add(img, mutate.Addendum{Layer: l1, History: v1.History{CreatedBy: "l1"}})
	if mode == 'H' {
		return img, 2
	}
	if mode == 'C' {
		return failingConfig{img}, 2
	}
	cf, err := img.ConfigFile()
	if err != nil {
		panic(err)
	}
	cf = cf.DeepCopy()
	switch mode {
	case 'N':
		cf.History = nil
	case 'S':
		cf.History = cf.History[:1]
	case 'G':
		cf.History = append(cf.History, v1.History{CreatedBy: "ghost"})
	case 'X':
		cf.History = []v1.History{{CreatedBy: "e0", EmptyLayer: true}, cf.History[0], {CreatedBy: "e1", EmptyLayer: true}}
	default:
		panic("history mode")
	}
	img, err = mutate.ConfigFile(img, cf)
	if err != nil {
		panic(err)
	}
	return img, 2
}

// ---------------------------------------------------------------- exhaustive enumeration

// layout(k): the entry names. k ≤ 4: flat (a, b, c, d); k = 5: a, b, c, s/d, s/e so that relative
// links cross a directory boundary.
func layout(k int) []string {
	if k == 5 {
		return []string{"a", "b", "c", "s/d", "s/e"}
	}
	return []string{"a", "b", "c", "d"}[:k]
}

func dirOf(name string) []string {
	p := strings.Split(name, "/")
	return p[:len(p)-1]
}

// relLink: the canonical relative spelling of `to` as seen from the directory of `from`.
func relLink(from, to string) string {
	fd, tp := dirOf(from), strings.Split(to, "/")
	i := 0
	for i < len(fd) && i < len(tp)-1 && fd[i] == tp[i] {
		i++
	}
	return strings.Repeat("../", len(fd)-i) + strings.Join(tp[i:], "/")
}

// exhaustive emits every assignment of {F, D, M, X, relative link to any entry, absolute link to any
// entry} to the k names; part/of selects a slice of the enumeration.
func exhaustive(k, part, of, dmax int, emit func(tcase)) {
	names := layout(k)
	// options per entry: F D M X, relative symlink to any entry, absolute symlink to any entry and — for up to 4
	// names — tar hard link to any entry. With 5 names the hard links are not a separate option (19^5 graphs): the
	// "absolute" option of entry i is written as a hard link instead of an absolute symlink when a hash of the
	// enumeration index says so, so every graph shape is still loaded once, with a mix of the two link kinds.
	nopt := 4 + 3*k
	if k == 5 {
		nopt = 4 + 2*k
	}
	total := 1
	for i := 0; i < k; i++ {
		total *= nopt
	}
	for code := 0; code < total; code++ {
		if code%of != part {
			continue
		}
		c := tcase{dmax: dmax, hist: string(histModes[code%len(histModes)])}
		x := code
		mix := uint32(code) * 2654435761
		for i := 0; i < k; i++ {
			o := x % nopt
			x /= nopt
			e := ent{name: names[i]}
			switch {
			case o < 4:
				e.kind = "FDMX"[o]
			case o < 4+k:
				e.kind, e.link = 'L', relLink(names[i], names[o-4])
			case o < 4+2*k:
				e.kind, e.link = 'L', "/"+names[o-4-k]
				if k == 5 && (mix>>(uint(i)+7))&1 == 1 {
					e.kind, e.link = 'H', names[o-4-k]
				}
			default:
				e.kind, e.link = 'H', names[o-4-2*k]
			}
			c.ents = append(c.ents, e)
		}
		if k <= 3 {
			// small graphs: under every history mode
			for _, m := range histModes {
				c2 := c
				c2.hist = string(m)
				emit(c2)
			}
			continue
		}
		if emitRequirer && code%5 == 0 {
			c.hist += "q" // every fifth graph: the requirer wants the link entries only (the final view is pruned)
		}
		emit(c) // 4 and 5 names: the history mode rotates with the enumeration index
	}
}

// ---------------------------------------------------------------- random stream

var pool = []string{"a", "b", "s/c", "s/d", "e", "s/t/f", "g", "s/t/h", "i"}

func randLink(r *rand.Rand, from string, names []string) string {
	var to string
	switch x := r.Intn(100); {
	case x < 88:
		to = names[r.Intn(len(names))]
	case x < 91:
		to = "zz"
	case x < 94:
		to = "s"
	case x < 96:
		to = "keep"
	case x < 98:
		to = names[r.Intn(len(names))] + "/c"
	default:
		to = ""
	}
	depth := len(dirOf(from))
	switch x := r.Intn(100); {
	case x < 40:
		if to == "" {
			return strings.Repeat("../", depth) + "."
		}
		return relLink(from, to)
	case x < 75:
		return "/" + to
	case x < 82: // relative, noisy but inside the root
		return "./" + strings.Repeat("../", depth) + strings.ReplaceAll(to, "/", "//")
	case x < 88: // absolute, not spelled canonically
		return []string{"/./", "//"}[r.Intn(2)] + to
	case x < 94: // leaves the root
		return strings.Repeat("../", depth+1+r.Intn(2)) + to
	case x < 97:
		return "/../" + to
	case x < 99:
		return strings.Repeat("../", depth) + "../" + "s/../" + to
	default:
		return ""
	}
}

// randHardLink: the archive entry a hard link names, mostly as tar writes it (root-relative, no leading
// slash), sometimes with a leading slash, unclean, missing, climbing above the root, or empty.
func randHardLink(r *rand.Rand, names []string) string {
	to := names[r.Intn(len(names))]
	switch x := r.Intn(100); {
	case x < 70:
		return to
	case x < 80:
		return "/" + to
	case x < 85:
		return "./" + to
	case x < 89:
		return "//" + to
	case x < 93:
		return "zz"
	case x < 97:
		return "../" + to
	case x < 99:
		return to + "/c"
	default:
		return ""
	}
}

func randCase(r *rand.Rand, dmax int) tcase {
	c := tcase{dmax: dmax, hist: string(histModes[r.Intn(len(histModes))])}
	if c.hist != "C" { // an image without a readable config cannot be written to a tarball or pushed
		switch r.Intn(25) {
		case 0, 1:
			c.hist += "t"
		case 2:
			c.hist += "r"
		}
	}
	if emitRequirer && r.Intn(6) == 0 {
		c.hist += "q"
	}
	if r.Intn(10) < 4 {
		// a long chain: entry i links to entry i+1; the last one is terminal, missing, deleted or closes a cycle
		n := 2 + r.Intn(len(pool)-1)
		perm := r.Perm(len(pool))[:n]
		names := make([]string, n)
		for i, p := range perm {
			names[i] = pool[p]
		}
		for i := 0; i < n-1; i++ {
			l := "/" + names[i+1]
			if r.Intn(2) == 0 {
				l = relLink(names[i], names[i+1])
			}
			k := byte('L')
			if r.Intn(25) == 0 {
				k = 'Y'
			}
			if r.Intn(8) == 0 { // this hop is a hard link
				k, l = 'H', names[i+1]
			}
			c.ents = append(c.ents, ent{names[i], k, l})
		}
		last := ent{name: names[n-1]}
		switch r.Intn(6) {
		case 0:
			last.kind = 'F'
		case 1:
			last.kind = 'D'
		case 2:
			last.kind = 'M'
		case 3:
			last.kind = 'X'
		default:
			last.kind, last.link = 'L', "/"+names[r.Intn(n)]
		}
		c.ents = append(c.ents, last)
		return c
	}
	n := 1 + r.Intn(len(pool))
	perm := r.Perm(len(pool))[:n]
	names := make([]string, n)
	for i, p := range perm {
		names[i] = pool[p]
	}
	for _, nm := range names {
		e := ent{name: nm}
		switch x := r.Intn(100); {
		case x < 15:
			e.kind = 'F'
		case x < 25:
			e.kind = 'D'
		case x < 33:
			e.kind = 'M'
		case x < 40:
			e.kind = 'X'
		case x < 42:
			e.kind = 'Z'
		case x < 43 && emitSymlinkWhiteout:
			e.kind, e.link = 'W', "/"+names[r.Intn(len(names))]
		case x < 43:
			e.kind = 'X'
		case x < 48:
			e.kind, e.link = 'Y', randLink(r, nm, names)
		case x < 57:
			e.kind, e.link = 'H', randHardLink(r, names)
		default:
			e.kind, e.link = 'L', randLink(r, nm, names)
		}
		c.ents = append(c.ents, e)
	}
	return c
}

// ---------------------------------------------------------------- main

func main() {
	part := flag.Int("part", 0, "thorough: which slice of the exhaustive enumeration")
	of := flag.Int("of", 1, "thorough: number of slices")
	kmax := flag.Int("k", 5, "thorough: enumerate all graphs on 1..k names")
	dmax := flag.Int("dmax", 6, "depths 0..dmax")
	inproc := flag.Bool("inproc", false, "run every case in this process (worker mode)")
	o := hx.Parse()
	imgx.Main("c17gen", func(scratch string, out *hx.Out) {
		var lines []string
		if o.Replay != "" {
			lines = hx.ReplayLines(o.Replay)
		} else {
			if o.Tier == "thorough" {
				for k := 1; k <= *kmax; k++ {
					exhaustive(k, *part, *of, *dmax, func(c tcase) { lines = append(lines, c.line()) })
				}
			}
			r := hx.Rng(o)
			for i := 0; i < o.N; i++ {
				lines = append(lines, randCase(r, *dmax).line())
			}
		}
		if o.Replay == "" {
			lines = append([]string{"probe"}, lines...)
		}
		imgx.RunAll(lines, func(l string) string {
			if l == "probe" {
				return runProbe()
			}
			return run(parseCase(l))
		}, scratch, *inproc, out)
	})
}
