// reach: COMPLETENESS of the harvest. The harvest iterates extractor/filesystem/list.All; every other public way to obtain a built-in
// filesystem extractor — by name or group name (ExtractorsFromNames over every key of the name table, ExtractorFromName), by
// capabilities (FromCapabilities / FilterByCapabilities under the capability profiles) — must only ever hand out extractors the harvest
// has seen, and a name outside the table must be refused.
//
// line: reach <names|caps|unknown>  ->  escaped=<hex names handed out that the harvest never saw | -> n=<extractors handed out> bad=<hex detail|->
package main

import (
	"fmt"
	"sort"

	"github.com/google/osv-scalibr/extractor/filesystem"
	el "github.com/google/osv-scalibr/extractor/filesystem/list"
	"github.com/google/osv-scalibr/plugin"

	"verif/harness/hx"
)

var reachKinds = []string{"names", "caps", "unknown"}

func runReach(exs map[string]filesystem.Extractor, kind string) string {
	return hx.Guard(func() string {
		escaped := map[string]bool{}
		var bad []string
		n := 0
		see := func(es []filesystem.Extractor) {
			for _, e := range es {
				n++
				if _, ok := exs[e.Name()]; !ok {
					escaped[e.Name()] = true
				}
			}
		}
		switch kind {
		case "names":
			var keys []string
			for k := range el.VerifNames() {
				keys = append(keys, k)
			}
			sort.Strings(keys)
			for _, k := range keys {
				es, err := el.ExtractorsFromNames([]string{k})
				if err != nil {
					bad = append(bad, hx.Hex("ExtractorsFromNames("+k+"): "+err.Error()))
				}
				see(es)
			}
			all, err := el.ExtractorsFromNames(keys)
			if err != nil || len(all) != len(exs) {
				bad = append(bad, hx.Hex(fmt.Sprintf("ExtractorsFromNames(every key) gives %d extractors, the harvest has %d", len(all), len(exs))))
			}
			see(all)
			for name := range exs {
				e, err := el.ExtractorFromName(name)
				if err != nil || e.Name() != name {
					bad = append(bad, hx.Hex("ExtractorFromName("+name+") does not return that extractor"))
				} else {
					see([]filesystem.Extractor{e})
				}
			}
		case "caps":
			for _, os := range []plugin.OS{plugin.OSLinux, plugin.OSMac, plugin.OSWindows, plugin.OSAny} {
				for _, net := range []plugin.Network{plugin.NetworkOffline, plugin.NetworkOnline} {
					for _, b := range []bool{false, true} {
						c := &plugin.Capabilities{OS: os, Network: net, DirectFS: b, RunningSystem: b}
						got := el.FromCapabilities(c)
						see(got)
						for _, e := range got {
							if plugin.ValidateRequirements(e, c) != nil {
								bad = append(bad, hx.Hex("FromCapabilities handed out "+e.Name()+" whose requirements the capabilities do not meet"))
							}
						}
					}
				}
			}
		case "unknown":
			for _, k := range []string{"nosuch/extractor", "", "python/wheelegg "} {
				if es, err := el.ExtractorsFromNames([]string{k}); err == nil {
					bad = append(bad, hx.Hex("ExtractorsFromNames accepts the unknown name "+k))
					see(es)
				}
				if e, err := el.ExtractorFromName(k); err == nil {
					bad = append(bad, hx.Hex("ExtractorFromName accepts the unknown name "+k))
					see([]filesystem.Extractor{e})
				}
			}
			for k := range el.VerifNames() { // a group name (also of a group with one member) is not an exact name
				if _, isExtractor := exs[k]; isExtractor {
					continue
				}
				if _, err := el.ExtractorFromName(k); err == nil {
					bad = append(bad, hx.Hex("ExtractorFromName accepts the group name "+k))
				}
			}
		default:
			return "bad-op"
		}
		var esc []string
		for k := range escaped {
			esc = append(esc, hx.Hex(k))
		}
		sort.Strings(esc)
		if len(bad) > 3 {
			bad = bad[:3]
		}
		return fmt.Sprintf("escaped=%s n=%d bad=%s", hx.Join(esc, ","), n, hx.Join(bad, ","))
	})
}
