// result / pfile / wfmt: the NON-PACKAGE part of binary/proto — ScanResultToProto's plugin-status and findings loops, scanStatusToProto,
// pluginStatusToProto, findingToProto (nil advisory / nil id errors, target with and without package), typeEnumToProto,
// severityToProto, cvssToProto — and typeForPath / ValidExtension / Write / WriteWithFormat (file really written and read back).
//
// result <hexver> <sec.nanos> <sec.nanos> <status> <plugins> <pkgs> <findings>
//
//	status   := <int>:<hexreason>
//	plugins  := '_' | plugin (',' plugin)*        plugin := <hexname>:<int version>:<int status>:<hexreason>
//	pkgs     := '_' | pkg (',' pkg)*              pkg := <hexname>+<hexversion>
//	findings := '_' | finding (',' finding)*      finding := adv ';' target ';' <hexextra> ';' dets
//	adv      := 'n' | id~<int type>~<hextitle>~<hexdescription>~<hexrecommendation>~sev      id := 'n' | <hexpublisher>+<hexreference>
//	sev      := 'n' | <int severity>+cvss+cvss    cvss := 'n' | <base>/<temporal>/<environmental>   (float32 bit patterns, decimal)
//	target   := 'n' | tpkg~locs                   tpkg := 'n' | pkg          locs, dets := '_' | <hex>('.'<hex>)*
//
//	-> res=<ok|adv|id|panic> rec=<the REAL record, enum constants by their proto names, + 1/0 deprecated copies equal the inventory's> gen=<what
//	   a reader recovers from the real record, in the grammar of the case (Go port of lean/Scalibr/Spec/ProtoResult.lean `read`)>
//
// pfile <hex relative path>  -> ft=<bin|text>[+gz] | err:<noext|gznoext|notproto>  vx=<ValidExtension agrees with Write> made=<file exists afterwards>
// wfmt <hex format>          -> ft=<bin|text>[+gz] (WriteWithFormat)
//
// For pfile / wfmt the file type is OBSERVED: gzip magic, then which of proto.Unmarshal / prototext.Unmarshal gives the written record back.
package main

import (
	"bytes"
	"compress/gzip"
	"errors"
	"fmt"
	"io"
	"math"
	"math/rand"
	"os"
	"path/filepath"
	"strconv"
	"strings"
	"time"

	scalibr "github.com/google/osv-scalibr"
	"github.com/google/osv-scalibr/binary/proto"
	spb "github.com/google/osv-scalibr/binary/proto/scan_result_go_proto"
	"github.com/google/osv-scalibr/detector"
	"github.com/google/osv-scalibr/extractor"
	"github.com/google/osv-scalibr/inventory"
	"github.com/google/osv-scalibr/plugin"
	"google.golang.org/protobuf/encoding/prototext"
	gproto "google.golang.org/protobuf/proto"

	"verif/harness/hx"
)

func hexDots(xs []string) string {
	if len(xs) == 0 {
		return "_"
	}
	o := make([]string, len(xs))
	for i, x := range xs {
		o[i] = hx.Hex(x)
	}
	return strings.Join(o, ".")
}

func unhexDots(s string) []string {
	if s == "_" {
		return nil
	}
	var o []string
	for _, x := range strings.Split(s, ".") {
		o = append(o, hx.UnHex(x))
	}
	return o
}

func atoi(s string) int {
	n, err := strconv.ParseInt(s, 10, 64)
	if err != nil {
		panic(err)
	}
	return int(n)
}

func parseTime(s string) time.Time {
	t := strings.Split(s, ".")
	return time.Unix(int64(atoi(t[0])), int64(atoi(t[1]))).UTC()
}

func parseStatus(e, r string) *plugin.ScanStatus {
	return &plugin.ScanStatus{Status: plugin.ScanStatusEnum(atoi(e)), FailureReason: hx.UnHex(r)}
}

func parsePkg(s string) *extractor.Package {
	if s == "n" {
		return nil
	}
	t := strings.Split(s, "+")
	return &extractor.Package{Name: hx.UnHex(t[0]), Version: hx.UnHex(t[1]), Extractor: protoEx{"ex", "", nil}}
}

func parseCVSS(s string) *detector.CVSS {
	if s == "n" {
		return nil
	}
	t := strings.Split(s, "/")
	f := func(x string) float32 { return math.Float32frombits(uint32(atoi(x))) }
	return &detector.CVSS{BaseScore: f(t[0]), TemporalScore: f(t[1]), EnvironmentalScore: f(t[2])}
}

func parseFinding(s string) *detector.Finding {
	t := strings.Split(s, ";")
	f := &detector.Finding{Extra: hx.UnHex(t[2]), Detectors: unhexDots(t[3])}
	if t[0] != "n" {
		a := strings.Split(t[0], "~")
		adv := &detector.Advisory{Type: detector.TypeEnum(atoi(a[1])), Title: hx.UnHex(a[2]), Description: hx.UnHex(a[3]), Recommendation: hx.UnHex(a[4])}
		if a[0] != "n" {
			id := strings.Split(a[0], "+")
			adv.ID = &detector.AdvisoryID{Publisher: hx.UnHex(id[0]), Reference: hx.UnHex(id[1])}
		}
		if a[5] != "n" {
			sv := strings.Split(a[5], "+")
			adv.Sev = &detector.Severity{Severity: detector.SeverityEnum(atoi(sv[0])), CVSSV2: parseCVSS(sv[1]), CVSSV3: parseCVSS(sv[2])}
		}
		f.Adv = adv
	}
	if t[1] != "n" {
		g := strings.Split(t[1], "~")
		f.Target = &detector.TargetDetails{Package: parsePkg(g[0]), Location: unhexDots(g[1])}
	}
	return f
}

func parseResult(t []string) *scalibr.ScanResult {
	r := &scalibr.ScanResult{Version: hx.UnHex(t[0]), StartTime: parseTime(t[1]), EndTime: parseTime(t[2])}
	st := strings.Split(t[3], ":")
	r.Status = parseStatus(st[0], st[1])
	if t[4] != "_" {
		for _, p := range strings.Split(t[4], ",") {
			q := strings.Split(p, ":")
			r.PluginStatus = append(r.PluginStatus, &plugin.Status{Name: hx.UnHex(q[0]), Version: atoi(q[1]), Status: parseStatus(q[2], q[3])})
		}
	}
	if t[5] != "_" {
		for _, p := range strings.Split(t[5], ",") {
			r.Inventory.Packages = append(r.Inventory.Packages, parsePkg(p))
		}
	}
	if t[6] != "_" {
		for _, f := range strings.Split(t[6], ",") {
			r.Inventory.Findings = append(r.Inventory.Findings, parseFinding(f))
		}
	}
	return r
}

func commaList(xs []string) string {
	if len(xs) == 0 {
		return "_"
	}
	return strings.Join(xs, ",")
}

func pPkgStr(p *spb.Package) string {
	if p == nil {
		return "n"
	}
	return hx.Hex(p.GetName()) + "+" + hx.Hex(p.GetVersion())
}

func pCVSS(c *spb.CVSS) string {
	if c == nil {
		return "n"
	}
	b := func(f float32) string { return strconv.FormatUint(uint64(math.Float32bits(f)), 10) }
	return b(c.GetBaseScore()) + "/" + b(c.GetTemporalScore()) + "/" + b(c.GetEnvironmentalScore())
}

// inverse tables of the SPECIFICATION's reader: proto enum constant -> the Go constant's number
var readStatusEnum = map[spb.ScanStatus_ScanStatusEnum]int{spb.ScanStatus_UNSPECIFIED: 0, spb.ScanStatus_SUCCEEDED: 1, spb.ScanStatus_PARTIALLY_SUCCEEDED: 2, spb.ScanStatus_FAILED: 3}
var readType = map[spb.Advisory_TypeEnum]int{spb.Advisory_UNKNOWN: 0, spb.Advisory_VULNERABILITY: 1, spb.Advisory_CIS_FINDING: 2}
var readSev = map[spb.Severity_SeverityEnum]int{spb.Severity_UNSPECIFIED: 0, spb.Severity_MINIMAL: 1, spb.Severity_LOW: 2, spb.Severity_MEDIUM: 3, spb.Severity_HIGH: 4, spb.Severity_CRITICAL: 5}

// renderRecord renders the real record; raw = enum constants by name (compared with the MODEL's record), else by the reader's
// numbers and without the deprecated-copies flag (compared with the SPECIFICATION's generic content)
func renderRecord(p *spb.ScanResult, raw bool) string {
	status := func(s *spb.ScanStatus) string {
		if s == nil {
			return "nil"
		}
		if raw {
			return s.GetStatus().String() + ":" + hx.Hex(s.GetFailureReason())
		}
		return strconv.Itoa(readStatusEnum[s.GetStatus()]) + ":" + hx.Hex(s.GetFailureReason())
	}
	tm := func(sec int64, nanos int32) string { return fmt.Sprintf("%d.%d", sec, nanos) }
	var plugins, pkgs, findings []string
	for _, s := range p.GetPluginStatus() {
		plugins = append(plugins, hx.Hex(s.GetName())+":"+strconv.Itoa(int(s.GetVersion()))+":"+status(s.GetStatus()))
	}
	for _, q := range p.GetInventory().GetPackages() {
		pkgs = append(pkgs, pPkgStr(q))
	}
	for _, f := range p.GetInventory().GetFindings() {
		adv := "n"
		if a := f.GetAdv(); a != nil {
			id := "n"
			if a.GetId() != nil {
				id = hx.Hex(a.GetId().GetPublisher()) + "+" + hx.Hex(a.GetId().GetReference())
			}
			sev := "n"
			if s := a.GetSev(); s != nil {
				e := s.GetSeverity().String()
				if !raw {
					e = strconv.Itoa(readSev[s.GetSeverity()])
				}
				sev = e + "+" + pCVSS(s.GetCvssV2()) + "+" + pCVSS(s.GetCvssV3())
			}
			ty := a.GetType().String()
			if !raw {
				ty = strconv.Itoa(readType[a.GetType()])
			}
			adv = strings.Join([]string{id, ty, hx.Hex(a.GetTitle()), hx.Hex(a.GetDescription()), hx.Hex(a.GetRecommendation()), sev}, "~")
		}
		target := "n"
		if t := f.GetTarget(); t != nil {
			target = pPkgStr(t.GetPackage()) + "~" + hexDots(t.GetLocation())
		}
		findings = append(findings, strings.Join([]string{adv, target, hx.Hex(f.GetExtra()), hexDots(f.GetDetectors())}, ";"))
	}
	parts := []string{hx.Hex(p.GetVersion()), tm(p.GetStartTime().GetSeconds(), p.GetStartTime().GetNanos()), tm(p.GetEndTime().GetSeconds(), p.GetEndTime().GetNanos()),
		status(p.GetStatus()), commaList(plugins), commaList(pkgs), commaList(findings)}
	if raw {
		dep := len(p.GetInventoriesDeprecated()) == len(p.GetInventory().GetPackages()) && len(p.GetFindingsDeprecated()) == len(p.GetInventory().GetFindings())
		if dep {
			for i, q := range p.GetInventoriesDeprecated() {
				dep = dep && gproto.Equal(q, p.GetInventory().GetPackages()[i])
			}
			for i, q := range p.GetFindingsDeprecated() {
				dep = dep && gproto.Equal(q, p.GetInventory().GetFindings()[i])
			}
		}
		parts = append(parts, hx.B(dep))
	}
	return strings.Join(parts, "|")
}

func runResult(t []string) (reply string) {
	if len(t) != 7 {
		return "bad-op"
	}
	var r *scalibr.ScanResult
	func() {
		defer func() {
			if recover() != nil {
				r = nil
			}
		}()
		r = parseResult(t)
	}()
	if r == nil {
		return "bad-op"
	}
	defer func() {
		if recover() != nil {
			reply = "res=panic rec=- gen=-"
		}
	}()
	p, err := proto.ScanResultToProto(r)
	switch {
	case errors.Is(err, proto.ErrAdvisoryMissing):
		return "res=adv rec=- gen=-"
	case errors.Is(err, proto.ErrAdvisoryIDMissing):
		return "res=id rec=- gen=-"
	case err != nil:
		return "res=other-error rec=- gen=-"
	}
	return "res=ok rec=" + renderRecord(p, true) + " gen=" + renderRecord(p, false)
}

// ---------------------------------------------------------------- generated result cases

func fbits(f float32) string { return strconv.FormatUint(uint64(math.Float32bits(f)), 10) }

// wild: values outside the declared enum constants / the int32 range (the record cannot represent them) are allowed
type resGen struct {
	r    *rand.Rand
	wild bool
}

func (g resGen) str() string { return hx.Hex(nastyStrings[g.r.Intn(len(nastyStrings))]) }
func (g resGen) pick(xs ...string) string {
	return xs[g.r.Intn(len(xs))]
}
func (g resGen) cvss() string {
	if g.r.Intn(2) == 0 {
		return "n"
	}
	v := []string{fbits(0), fbits(9.8), fbits(7.5), fbits(-1), fbits(float32(math.Inf(1))), "2143289344" /* a NaN */, "1", fbits(10)}
	return g.pick(v...) + "/" + g.pick(v...) + "/" + g.pick(v...)
}
func (g resGen) status() string {
	if g.wild {
		return g.pick("0", "1", "2", "3", "4", "-1", "7") + ":" + g.str()
	}
	return g.pick("0", "1", "2", "3", "1", "3") + ":" + g.str()
}
func (g resGen) pkg() string    { return g.str() + "+" + g.str() }
func (g resGen) dots(max int) string {
	n := g.r.Intn(max + 1)
	if n == 0 {
		return "_"
	}
	var o []string
	for ; n > 0; n-- {
		o = append(o, g.str())
	}
	return strings.Join(o, ".")
}
func (g resGen) finding(sound bool) string {
	adv := "n"
	if sound || g.r.Intn(8) != 0 {
		id := "n"
		if sound || g.r.Intn(8) != 0 {
			id = g.str() + "+" + g.str()
		}
		sev := "n"
		if g.r.Intn(10) != 0 {
			e := g.pick("0", "1", "2", "3", "4", "5")
			if g.wild && g.r.Intn(3) == 0 {
				e = g.pick("6", "-1", "100")
			}
			sev = e + "+" + g.cvss() + "+" + g.cvss()
		}
		ty := g.pick("0", "1", "2", "1")
		if g.wild && g.r.Intn(3) == 0 {
			ty = g.pick("3", "-1")
		}
		adv = strings.Join([]string{id, ty, g.str(), g.str(), g.str(), sev}, "~")
	}
	target := "n"
	if g.r.Intn(4) != 0 {
		pk := "n"
		if g.r.Intn(3) != 0 {
			pk = g.pkg()
		}
		target = pk + "~" + g.dots(3)
	}
	dets := "_"
	if g.r.Intn(3) == 0 {
		dets = g.dots(2)
	}
	return strings.Join([]string{adv, target, g.str(), dets}, ";")
}

func (g resGen) result() string {
	g.wild = g.r.Intn(4) == 0
	list := func(max int, f func() string) string {
		n := g.r.Intn(max + 1)
		if n == 0 {
			return "_"
		}
		var o []string
		for ; n > 0; n-- {
			o = append(o, f())
		}
		return strings.Join(o, ",")
	}
	sound := g.r.Intn(2) == 0 // half of the results have only findings with advisory and id: the conversion must succeed
	tm := func() string {
		return g.pick("0.0", "1700000000.123456789", "-62135596800.0", "253402300799.999999999", "1.1")
	}
	return strings.Join([]string{"result", g.str(), tm(), tm(), g.status(),
		list(3, func() string {
			v := g.pick("0", "1", "7", "2147483647", "-1", "-2147483648")
			if g.wild {
				v = g.pick("2147483648", "4294967301", "-2147483649")
			}
			return g.str() + ":" + v + ":" + g.status()
		}),
		list(2, g.pkg), list(4, func() string { return g.finding(sound) })}, " ")
}

// fixedResults: every enum constant and the first value past it, every nil, the error positions
func fixedResults() []string {
	h := hx.Hex
	adv := func(id, ty, sev string) string { return id + "~" + ty + "~" + h("title") + "~" + h("desc") + "~" + h("rec") + "~" + sev }
	id := h("CVE") + "+" + h("CVE-2024-1")
	good := adv(id, "1", "3+n+n") + ";n;" + h("extra") + ";_"
	base := func(status, plugins, findings string) string {
		return "result " + h("v1") + " 1700000000.5 1700000001.0 " + status + " " + plugins + " " + h("p") + "+" + h("1") + " " + findings
	}
	var out []string
	for _, st := range []string{"0", "1", "2", "3", "4", "-1"} {
		out = append(out, base(st+":"+h("why"), h("ex/a")+":1:"+st+":"+h("boom")+","+h("det/b")+":0:1:-", good))
	}
	for _, ty := range []string{"0", "1", "2", "3", "-1"} {
		out = append(out, base("1:-", "_", adv(id, ty, "1+n+n")+";n;-;_"))
	}
	cv := fbits(9.8) + "/" + fbits(7.5) + "/" + fbits(0)
	for _, sv := range []string{"0", "1", "2", "3", "4", "5", "6", "-1"} {
		out = append(out, base("1:-", "_", adv(id, "1", sv+"+"+cv+"+n")+";n;-;_"), base("1:-", "_", adv(id, "1", sv+"+n+"+cv)+";n;-;_"))
	}
	tg := h("n") + "+" + h("1") + "~" + h("/etc/passwd") + "." + h("b")
	out = append(out,
		base("1:-", "_", "_"),
		base("1:-", "_", adv(id, "1", "3+"+cv+"+"+cv)+";"+tg+";"+h("x")+";_"),
		base("1:-", "_", adv(id, "1", "3+n+n")+";n~_;-;_"),                         // target without package, without locations
		base("1:-", "_", adv(id, "1", "3+n+n")+";n~"+h("only/location")+";-;_"),   // target without package
		base("1:-", "_", adv(id, "1", "3+n+n")+";"+tg+";-;"+h("cve/x")),           // one detector name
		base("1:-", "_", adv(id, "1", "3+n+n")+";"+tg+";-;"+h("cve/x")+"."+h("y")), // two detector names
		base("1:-", "_", adv(id, "1", "n")+";n;-;_"),                              // advisory without severity
		base("1:-", "_", "n;n;-;_"),                                                // no advisory
		base("1:-", "_", adv("n", "1", "3+n+n")+";n;-;_"),                          // no advisory id
		base("1:-", "_", adv("n", "1", "n")+";n;-;_"),                              // no id and no severity: the id error comes first
		base("1:-", "_", good+","+good+",n;n;-;_"),                                 // error at the end
		base("1:-", "_", good+","+adv("n", "1", "3+n+n")+";n;-;_,n;n;-;_"),         // id error before advisory error
		base("1:-", "_", "n;n;-;_,"+adv("n", "1", "3+n+n")+";n;-;_"),               // advisory error before id error
		base("1:-", "_", adv(id, "1", "n")+";n;-;_,n;n;-;_"),                       // no severity before no advisory
		base("1:-", h("a")+":2147483648:1:-,"+h("b")+":-2147483649:3:"+h("r"), good), // plugin versions beyond int32 wrap
	)
	return out
}

// ---------------------------------------------------------------- files

var pfileNames = []string{"r.binproto", "r.textproto", "r.binproto.gz", "r.textproto.gz", "r", "r.gz", "r.txt", "r.txt.gz", ".binproto", ".gz", ".textproto.gz",
	"d.binproto/r", "d.binproto/r.gz", "d.textproto/.gz", "r.binproto.gz.gz", "r.BINPROTO", "r.binproto.GZ", "r.textproto.binproto", "r.binproto.textproto.gz",
	"a.b/c.d/e.textproto", "r.binproto ", "r..gz", "r.", "r.gz.binproto", "x.pb", "r.binprot", "r.binprotoo", "r.gz.textproto.gz", "r.textproto.", "we ird.binproto"}
var wfmtFormats = []string{"binproto", "textproto", "", "BINPROTO", "json", "binproto.gz", " binproto"}

func sampleRecord() *spb.ScanResult {
	r := parseResult(strings.Split(fixedResults()[0], " ")[1:])
	r.Inventory.Packages = append(r.Inventory.Packages, &extractor.Package{Name: "n ü", Version: "1~2", Locations: []string{"a/b"}, Extractor: protoEx{"ex", "Eco", nil}})
	r.Inventory = inventory.Inventory{Packages: r.Inventory.Packages, Findings: r.Inventory.Findings}
	p, err := proto.ScanResultToProto(r)
	if err != nil {
		panic(err)
	}
	return p
}

// observeFile says how the file at path is encoded, by decoding it
func observeFile(path string, want *spb.ScanResult) string {
	data, err := os.ReadFile(path)
	if err != nil {
		return "unreadable"
	}
	gz := ""
	if len(data) >= 2 && data[0] == 0x1f && data[1] == 0x8b {
		zr, err := gzip.NewReader(bytes.NewReader(data))
		if err != nil {
			return "bad-gzip"
		}
		if data, err = io.ReadAll(zr); err != nil {
			return "bad-gzip"
		}
		gz = "+gz"
	}
	got := &spb.ScanResult{}
	if gproto.Unmarshal(data, got) == nil && gproto.Equal(got, want) {
		return "bin" + gz
	}
	got = &spb.ScanResult{}
	if prototext.Unmarshal(data, got) == nil && gproto.Equal(got, want) {
		return "text" + gz
	}
	return "undecodable" + gz
}

func errCode(err error) string {
	switch {
	case strings.Contains(err.Error(), "Gzipped file doesn't have an extension"):
		return "err:gznoext"
	case strings.Contains(err.Error(), "Doesn't have an extension"):
		return "err:noext"
	case strings.Contains(err.Error(), "not a .textproto or .binproto"):
		return "err:notproto"
	}
	return "err:other"
}

func runPfile(scratch, rel string) string {
	for _, c := range strings.Split(rel, "/") {
		if c == "" || c == "." || c == ".." {
			return "bad-op"
		}
	}
	return hx.Guard(func() string {
		root := filepath.Join(scratch, "_pfile")
		_ = os.RemoveAll(root)
		defer os.RemoveAll(root)
		p := filepath.Join(root, filepath.FromSlash(rel))
		if os.MkdirAll(filepath.Dir(p), 0o755) != nil {
			return "bad-op"
		}
		rec := sampleRecord()
		vErr := proto.ValidExtension(p)
		wErr := proto.Write(p, rec)
		_, statErr := os.Stat(p)
		ft := ""
		if wErr != nil {
			ft = errCode(wErr)
		} else {
			ft = observeFile(p, rec)
		}
		return fmt.Sprintf("ft=%s vx=%s made=%s", ft, hx.B((vErr == nil) == (wErr == nil)), hx.B(statErr == nil))
	})
}

func runWfmt(scratch, format string) string {
	return hx.Guard(func() string {
		root := filepath.Join(scratch, "_pfile")
		_ = os.RemoveAll(root)
		defer os.RemoveAll(root)
		p := filepath.Join(root, "out.any")
		if os.MkdirAll(root, 0o755) != nil {
			return "bad-op"
		}
		rec := sampleRecord()
		if err := proto.WriteWithFormat(p, rec, format); err != nil {
			return "ft=err:other"
		}
		return "ft=" + observeFile(p, rec)
	})
}

// pwerr <variant>: proto.Write must REPORT a failure (and not leave a file where none could be written):
// nodir = the directory does not exist, isdir = the path is a directory, utf8bin / utf8text = the record holds a string that is not
// valid UTF-8 (protobuf refuses to marshal it), devfull / devfullgz = the device is full (the name is a symbolic link to /dev/full)
//
//	-> werr=<0|1> left=<a regular file exists at the path afterwards>
var pwerrVariants = []string{"nodir", "isdir", "utf8bin", "utf8text", "utf8gz", "devfull", "devfullgz", "devfulltext"}

func runPwerr(scratch, variant string) string {
	return hx.Guard(func() string {
		root := filepath.Join(scratch, "_pfile")
		_ = os.RemoveAll(root)
		defer os.RemoveAll(root)
		if os.MkdirAll(root, 0o755) != nil {
			return "bad-op"
		}
		rec := sampleRecord()
		p := filepath.Join(root, "r.binproto")
		switch variant {
		case "nodir":
			p = filepath.Join(root, "missing", "r.binproto")
		case "isdir":
			if os.Mkdir(p, 0o755) != nil {
				return "bad-op"
			}
		case "utf8bin", "utf8text", "utf8gz":
			rec.Version = "bad \xff utf8"
			p = filepath.Join(root, map[string]string{"utf8bin": "r.binproto", "utf8text": "r.textproto", "utf8gz": "r.binproto.gz"}[variant])
		case "devfull", "devfullgz", "devfulltext":
			if _, err := os.Stat("/dev/full"); err != nil {
				return "werr=1 left=0 skipped=1" // no such device here: nothing observed
			}
			p = filepath.Join(root, map[string]string{"devfull": "r.binproto", "devfullgz": "r.binproto.gz", "devfulltext": "r.textproto"}[variant])
			if os.Symlink("/dev/full", p) != nil {
				return "bad-op"
			}
		default:
			return "bad-op"
		}
		err := proto.Write(p, rec)
		fi, serr := os.Lstat(p)
		return fmt.Sprintf("werr=%s left=%s", hx.B(err != nil), hx.B(serr == nil && fi.Mode().IsRegular()))
	})
}
