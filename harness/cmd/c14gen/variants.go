// harvestv / boundaryv: the extractors' NON-DEFAULT options. The harvest runs every extractor as list.go builds it (default
// configuration); the 33 extractors of zz_configs_gen.go have an exported Config struct. Its fields are enumerated by reflection and
// switched one at a time: every bool flipped (and all bools flipped together), every integer limit set to a small and to a large value.
// Each variant extractor runs over all fixtures of that extractor (harvestv) and over the boundary names (boundaryv), with the
// same strict chain as harvest.
//
//	harvestv  <hex extractor> <hex variant> <hex fixture>          variant := Field=value (',' Field=value)*
//	boundaryv <hex extractor> <hex variant> <hex fixture> <hex name shape>
//
// (zz_configs_gen.go: python3 snippet in /verif/harness/cmd/c14gen — scan for `func DefaultConfig() Config` + `func New(cfg Config) *Extractor`.)
package main

import (
	"fmt"
	"reflect"
	"sort"
	"strconv"
	"strings"

	"github.com/google/osv-scalibr/extractor/filesystem"
)

type cfgEntry struct {
	pkg  string
	def  func() any
	make func(any) filesystem.Extractor
}

// variantsOf lists the option settings to try for one configurable extractor
func variantsOf(e cfgEntry) []string {
	v := reflect.ValueOf(e.def())
	t := v.Type()
	var out, allBools []string
	for i := 0; i < t.NumField(); i++ {
		f := t.Field(i)
		if !f.IsExported() {
			continue
		}
		switch f.Type.Kind() {
		case reflect.Bool:
			s := fmt.Sprintf("%s=%t", f.Name, !v.Field(i).Bool())
			out = append(out, s)
			allBools = append(allBools, s)
		case reflect.Int, reflect.Int64, reflect.Int32:
			out = append(out, f.Name+"=1", f.Name+"=64", f.Name+"=1073741824")
		}
	}
	if len(allBools) > 1 {
		out = append(out, strings.Join(allBools, ","))
	}
	return out
}

// buildVariant makes the extractor with the given option settings (nil when the variant does not fit the Config struct)
func buildVariant(e cfgEntry, variant string) (ex filesystem.Extractor) {
	defer func() {
		if recover() != nil {
			ex = nil
		}
	}()
	c := reflect.New(reflect.TypeOf(e.def())).Elem()
	c.Set(reflect.ValueOf(e.def()))
	for _, kv := range strings.Split(variant, ",") {
		p := strings.SplitN(kv, "=", 2)
		if len(p) != 2 {
			return nil
		}
		f := c.FieldByName(p[0])
		if !f.IsValid() || !f.CanSet() {
			return nil
		}
		switch f.Kind() {
		case reflect.Bool:
			f.SetBool(p[1] == "true")
		case reflect.Int, reflect.Int64, reflect.Int32:
			n, err := strconv.ParseInt(p[1], 10, 64)
			if err != nil {
				return nil
			}
			f.SetInt(n)
		default:
			return nil
		}
	}
	return e.make(c.Interface())
}

// configurableByName: extractor Name() -> entry
func configurableByName() map[string]cfgEntry {
	m := map[string]cfgEntry{}
	for _, e := range configurable {
		func() {
			defer func() { _ = recover() }()
			m[e.make(e.def()).Name()] = e
		}()
	}
	return m
}

func sortedKeys(m map[string]cfgEntry) []string {
	var o []string
	for k := range m {
		o = append(o, k)
	}
	sort.Strings(o)
	return o
}
