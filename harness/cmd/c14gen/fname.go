// fname: identities DERIVED FROM FILE / DIRECTORY NAMES. The boundary stream substitutes names into fixture CONTENT; three built-in
// extractors take the package name (and version) from the PATH instead: java/archive (jar file name when the archive has no
// pom.properties: `<artifact>-<version>.jar`, also `_` / `.` separated, also for jars nested in a jar), os/nix (store directory
// `<hash>-<name>-<version>`), os/homebrew (`Cellar/<name>/<version>/INSTALL_RECEIPT.json`). (python/wheelegg, ruby/gemspec and the
// dotnet extractors of this tree read the identity from the file CONTENT: METADATA / PKG-INFO / the gemspec / the json.)
// The op creates a real file of that name in a scratch tree, runs the real Extract on it and pushes what comes out through the
// same strict chain as harvest / boundary (non-empty name and location, ToPURL -> String -> FromString twice, index, proto, CDX, SPDX).
//
// line:  fname <kind jar|jarnest|nix|brew> <hex path component>  ->  made=<0|1 the file could be created> pk= purls= issues= bad= drop=
package main

import (
	"archive/zip"
	"bytes"
	"context"
	"fmt"
	"os"
	"path/filepath"
	"strings"
	"time"

	"github.com/google/osv-scalibr/extractor"
	"github.com/google/osv-scalibr/extractor/filesystem"
	scalibrfs "github.com/google/osv-scalibr/fs"

	"verif/harness/hx"
)

const nixHash = "1ddf3x30m0z6kknmrmapsc7liz8npi1w"

// fnameCases: names at the boundary of "<name><sep><version>" splitting: nothing / separators only / purl syntax characters before
// the version, and ordinary ones as controls.
var fnameCases = map[string][]string{
	"jar": {"guava-31.1-jre.jar", "-1.0.jar", "_1.0.jar", ".1.0.jar", "--1.0.jar", "@-1.0.jar", "@types-1.0.jar", ":-1.0.jar", "a:b-1.0.jar", " -1.0.jar",
		".-1.0.jar", "..-1.0.jar", "a.-1.0.jar", ".a-1.0.jar", "a b-1.0.jar", "%2F-1.0.jar", "1.0.jar", "-.jar", ".jar", "org.apache.felix.framework-1.2.3.jar",
		"a-1.0-.jar", "A_1.0.jar", "#-1.0.jar", "?-1.0.jar", "-1.0.JAR", "_-1.0.war", "-_1.0.ear"},
	"jarnest": {"x-2.0.jar", "-1.0.jar", "_1.0.jar", ".1.0.jar", "lib/-1.0.jar", "lib/.1.0.jar", "@/-1.0.jar", ":-1.0.jar", " -1.0.jar"},
	"nix":     {nixHash + "-perl-5.38.2", nixHash + "---1.0", nixHash + "-.-1.0", nixHash + "-..-1.0", nixHash + "--1.0", nixHash + "-a-1.0-", nixHash + "-a.b-1.0-out", nixHash + "-x-unstable-2024-01-02", nixHash + "---unstable-2024-01-02"},
	// kmod: not a file name — the 5 bytes that replace the key `name=` in the .modinfo section of the kernel module fixture
	// (a module without a name entry must not become a nameless package)
	"kmod": {"name=", "nome=", "NAME=", "name\x00"},
	"brew": {"rclone", " ", "@", "@types", ":", "a:b", "...", "%2F", "a b", "A", "#", "?", "-", "_"},
}
var fnameKinds = []string{"jar", "jarnest", "nix", "brew", "kmod"}

func zipOf(entries map[string][]byte) []byte {
	var b bytes.Buffer
	w := zip.NewWriter(&b)
	for n, d := range entries {
		f, err := w.Create(n)
		if err == nil {
			_, _ = f.Write(d)
		}
	}
	_ = w.Close()
	return b.Bytes()
}

func runFname(scratch string, exs map[string]filesystem.Extractor, kind, comp string) string {
	is := issues{}
	dt := &details{}
	made, npk, purls := false, 0, 0
	root := filepath.Join(scratch, "_fname")
	_ = os.RemoveAll(root)
	defer os.RemoveAll(root)
	var exName, rel string
	var data []byte
	plain := zipOf(map[string][]byte{"x/readme.txt": []byte("no pom.properties, no manifest")})
	switch kind {
	case "jar":
		exName, rel, data = "java/archive", "opt/app/lib/"+comp, plain
	case "jarnest":
		exName, rel, data = "java/archive", "opt/app/outer-3.0.jar", zipOf(map[string][]byte{comp: plain})
	case "nix":
		exName, rel, data = "os/nix", "nix/store/"+comp+"/bin/x", []byte("x")
	case "brew":
		exName, rel, data = "os/homebrew", "usr/local/Cellar/"+comp+"/1.0/INSTALL_RECEIPT.json", []byte("{}")
	case "kmod":
		src, err := os.ReadFile(filepath.Join(scratch, "os_kernel_module", "valid"))
		if err != nil || len(comp) != 5 {
			return "made=0 pk=0 purls=0 issues=fixture-missing bad=- drop=-"
		}
		exName, rel, data = "os/kernel/module", "lib/modules/6.1.0/kernel/drivers/x.ko", bytes.Replace(src, []byte("name="), []byte(comp), 1)
	default:
		return "bad-op"
	}
	ex := exs[exName]
	if ex == nil {
		return "made=0 pk=0 purls=0 issues=extractor-missing bad=- drop=-"
	}
	func() {
		defer func() {
			if r := recover(); r != nil {
				is.add("extract-panic")
			}
		}()
		if kind != "jarnest" && kind != "kmod" && (strings.Contains(comp, "/") || comp == "" || comp == "." || comp == "..") {
			return
		}
		p := filepath.Join(root, filepath.FromSlash(rel))
		if os.MkdirAll(filepath.Dir(p), 0o755) != nil || os.WriteFile(p, data, 0o644) != nil {
			return
		}
		made = true
		info, err := os.Stat(p)
		if err != nil {
			return
		}
		fh, err := os.Open(p)
		if err != nil {
			return
		}
		defer fh.Close()
		ctx, cancel := context.WithTimeout(context.Background(), 10*time.Second)
		defer cancel()
		inv, _ := ex.Extract(ctx, &filesystem.ScanInput{FS: scalibrfs.DirFS(root), Path: rel, Root: root, Info: info, Reader: fh})
		pkgs := inv.Packages
		for i, pk := range pkgs {
			if pk == nil {
				is.add("nil-package")
				return
			}
			pk.Extractor = ex
			if i%2 == 0 {
				pk.LayerDetails = &extractor.LayerDetails{Index: i, DiffID: "sha256:abc", Command: "RUN x", InBaseImage: true}
			}
		}
		npk = len(pkgs)
		purls = convert(ex, pkgs, "", is, dt.add)
	}()
	return fmt.Sprintf("made=%s pk=%d purls=%d issues=%s bad=%s drop=%s", hx.B(made), npk, purls, issuesStr(is), dt.str(), droppedStr())
}
