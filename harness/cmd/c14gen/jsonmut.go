// jsonmut: STRUCTURAL boundary documents for the extractors that read JSON. The boundary stream substitutes names; here a member is
// DELETED (del), a member's KEY becomes the empty string (key0), or a string VALUE becomes empty (str0) at one place of a fixture the
// extractor is known to yield packages from — the lock-file shapes "entry without name / version", "empty key". The mutated document
// goes through the real Extract and the same strict chain as harvest (non-empty name, a purl purl.FromString accepts, …).
//
//	jsonmut <hex extractor> <hex fixture> <hex op@path>      path := member names / array indexes joined by '/' ('~1' = '/', '~0' = '~')
//	-> hit=<the path exists> pk= purls= issues= bad= drop=
package main

import (
	"bytes"
	"context"
	"encoding/json"
	"fmt"
	"os"
	"path/filepath"
	"regexp"
	"sort"
	"strconv"
	"strings"
	"time"

	"github.com/google/osv-scalibr/extractor"
	"github.com/google/osv-scalibr/extractor/filesystem"
	scalibrfs "github.com/google/osv-scalibr/fs"

	"verif/harness/hx"
)

var trailingComma = regexp.MustCompile(`,(\s*[\]}])`)

func parseJSONDoc(data []byte) (any, bool) {
	for _, d := range [][]byte{data, trailingComma.ReplaceAll(data, []byte("$1"))} {
		dec := json.NewDecoder(bytes.NewReader(d))
		dec.UseNumber()
		var v any
		if dec.Decode(&v) == nil {
			if _, ok := v.(map[string]any); ok {
				return v, true
			}
		}
	}
	return nil, false
}

func escSeg(s string) string {
	return strings.ReplaceAll(strings.ReplaceAll(s, "~", "~0"), "/", "~1")
}
func unescSeg(s string) string {
	return strings.ReplaceAll(strings.ReplaceAll(s, "~1", "/"), "~0", "~")
}

// mutationPoints lists op@path for a document: at most the first two members of every object and the first element of every array
// are descended into, to depth 6; at most max points
func mutationPoints(doc any, max int) []string {
	var out []string
	type item struct {
		v    any
		path []string
	}
	queue := []item{{doc, nil}}
	for len(queue) > 0 && len(out) < max {
		it := queue[0]
		queue = queue[1:]
		if len(it.path) > 6 {
			continue
		}
		join := func(seg string) string { return strings.Join(append(append([]string{}, it.path...), escSeg(seg)), "/") }
		switch x := it.v.(type) {
		case map[string]any:
			var keys []string
			for k := range x {
				keys = append(keys, k)
			}
			sort.Strings(keys)
			descended := 0
			for _, k := range keys {
				out = append(out, "del@"+join(k))
				if descended < 2 || len(keys) <= 8 { // every member of a small object (an entry's fields), two of a large one (the entry map)
					out = append(out, "key0@"+join(k))
					if _, isStr := x[k].(string); isStr {
						out = append(out, "str0@"+join(k))
					}
					queue = append(queue, item{x[k], append(append([]string{}, it.path...), escSeg(k))})
					descended++
				}
			}
		case []any:
			if len(x) > 0 {
				if _, isStr := x[0].(string); isStr {
					out = append(out, "str0@"+join("0"))
				}
				out = append(out, "del@"+join("0"))
				queue = append(queue, item{x[0], append(append([]string{}, it.path...), "0")})
			}
		}
	}
	if len(out) > max {
		out = out[:max]
	}
	return out
}

// applyMutation returns the mutated document (ok=false: the path does not exist)
func applyMutation(doc any, spec string) (any, bool) {
	p := strings.SplitN(spec, "@", 2)
	if len(p) != 2 {
		return nil, false
	}
	segs := strings.Split(p[1], "/")
	var rec func(v any, i int) (any, bool)
	rec = func(v any, i int) (any, bool) {
		seg := unescSeg(segs[i])
		last := i == len(segs)-1
		switch x := v.(type) {
		case map[string]any:
			child, ok := x[seg]
			if !ok {
				return nil, false
			}
			if !last {
				nc, ok := rec(child, i+1)
				if !ok {
					return nil, false
				}
				x[seg] = nc
				return x, true
			}
			switch p[0] {
			case "del":
				delete(x, seg)
			case "key0":
				delete(x, seg)
				x[""] = child
			case "str0":
				if _, isStr := child.(string); !isStr {
					return nil, false
				}
				x[seg] = ""
			default:
				return nil, false
			}
			return x, true
		case []any:
			n, err := strconv.Atoi(seg)
			if err != nil || n < 0 || n >= len(x) {
				return nil, false
			}
			if !last {
				nc, ok := rec(x[n], i+1)
				if !ok {
					return nil, false
				}
				x[n] = nc
				return x, true
			}
			switch p[0] {
			case "del":
				return append(x[:n:n], x[n+1:]...), true
			case "str0":
				if _, isStr := x[n].(string); !isStr {
					return nil, false
				}
				x[n] = ""
				return x, true
			}
			return nil, false
		}
		return nil, false
	}
	return rec(doc, 0)
}

func runJSONMut(f fixture, spec string) string {
	is := issues{}
	dt := &details{}
	hit, npk, purls := false, 0, 0
	func() {
		defer func() {
			if r := recover(); r != nil {
				is.add("extract-panic")
			}
		}()
		p := filepath.Join(f.dir, f.rel)
		data, err := os.ReadFile(p)
		if err != nil {
			return
		}
		doc, ok := parseJSONDoc(data)
		if !ok {
			return
		}
		mdoc, ok := applyMutation(doc, spec)
		if !ok {
			return
		}
		out, err := json.MarshalIndent(mdoc, "", "  ")
		if err != nil {
			return
		}
		hit = true
		dir := filepath.Join(filepath.Dir(p), "_boundary")
		if os.MkdirAll(dir, 0o755) != nil {
			return
		}
		defer os.RemoveAll(dir)
		mp := filepath.Join(dir, filepath.Base(p))
		if os.WriteFile(mp, out, 0o644) != nil {
			return
		}
		info, err := os.Stat(mp)
		if err != nil {
			return
		}
		fh, err := os.Open(mp)
		if err != nil {
			return
		}
		defer fh.Close()
		ctx, cancel := context.WithTimeout(context.Background(), 10*time.Second)
		defer cancel()
		rel, _ := filepath.Rel(f.dir, mp)
		inv, _ := f.ex.Extract(ctx, &filesystem.ScanInput{FS: scalibrfs.DirFS(f.dir), Path: filepath.ToSlash(rel), Root: f.dir, Info: info, Reader: fh})
		pkgs := inv.Packages
		for i, pk := range pkgs {
			if pk == nil {
				is.add("nil-package")
				return
			}
			pk.Extractor = f.ex
			if i%2 == 0 {
				pk.LayerDetails = &extractor.LayerDetails{Index: i, DiffID: "sha256:abc", Command: "RUN x", InBaseImage: true}
			}
		}
		npk = len(pkgs)
		purls = convert(f.ex, pkgs, "", is, dt.add)
	}()
	return fmt.Sprintf("hit=%s pk=%d purls=%d issues=%s bad=%s drop=%s", hx.B(hit), npk, purls, issuesStr(is), dt.str(), droppedStr())
}

// jsonMutCases lists the cases for a fixture ("" when it is not a JSON object document)
func jsonMutCases(f fixture, max int) []string {
	data, err := os.ReadFile(filepath.Join(f.dir, f.rel))
	if err != nil || len(data) > 1<<20 {
		return nil
	}
	doc, ok := parseJSONDoc(data)
	if !ok {
		return nil
	}
	return mutationPoints(doc, max)
}
