// Two more streams of c14gen (see main.go for the line grammar):
//
// `purlrt`: for every purl type a built-in ToPURL emits x every field (name, namespace, version, a qualifier value,
// subpath) x every byte class that needs percent-encoding (space % ? # @ / : + & = non-ASCII control, already-escaped
// looking text): FromString(String(p)) succeeds, String(FromString(String(p))) = String(p), and the index answers
// GetSpecific(p.Name, p.Type) ∋ the package.
//
//	purlrt <hextype> <name|ns|version|qual|subpath> <hexvalue>  ->  ok=<parses> same=<print∘parse∘print = print> idx=<index finds it> back=<hex detail|->
//
// `proto`: a package given field by field (every metadata type the proto switch knows plus unknown ones, nasty strings,
// nil/empty variants, int32-overflowing layer indexes) -> the real proto.ScanResultToProto -> every generic field
// printed, to be compared with the Lean model of packageToProto (Scalibr.ProtoPkg).
//
//	proto <hexname> <hexversion> <locs> <src> <anns> <layer> <purl> <hexeco> <hexextractor> <hexmetatype|_>
//	  locs := '_' | hex (',' hex)*   src := '_' | hexrepo ':' hexcommit   anns := '_' | int (',' int)*
//	  layer := '_' | index ':' hexdiff ':' hexcmd ':' <0|1>   purl := '_' | hextype:hexns:hexname:hexver:quals:hexsub   quals := '_' | hexkey '=' hexval (';' …)*
//	  ->  gen=<the record read back with the Go port of the spec reader> name= version= locs= src= anns=<U|T|O|C letters> layer= purl= eco= ex= meta=<0|1 oneof set> pstr=<1: Purl.purl = String()>
package main

import (
	"fmt"
	"math/rand"
	"reflect"
	"strconv"
	"strings"

	scalibr "github.com/google/osv-scalibr"
	"github.com/google/osv-scalibr/binary/proto"
	"github.com/google/osv-scalibr/extractor"
	ctrdfs "github.com/google/osv-scalibr/extractor/filesystem/containers/containerd"
	"github.com/google/osv-scalibr/extractor/filesystem/language/dotnet/depsjson"
	"github.com/google/osv-scalibr/extractor/filesystem/language/java/archive"
	"github.com/google/osv-scalibr/extractor/filesystem/language/java/javalockfile"
	"github.com/google/osv-scalibr/extractor/filesystem/language/javascript/packagejson"
	"github.com/google/osv-scalibr/extractor/filesystem/language/python/requirements"
	"github.com/google/osv-scalibr/extractor/filesystem/language/python/setup"
	"github.com/google/osv-scalibr/extractor/filesystem/language/python/wheelegg"
	chromeextensions "github.com/google/osv-scalibr/extractor/filesystem/misc/chrome/extensions"
	"github.com/google/osv-scalibr/extractor/filesystem/misc/vscodeextensions"
	"github.com/google/osv-scalibr/extractor/filesystem/os/apk"
	"github.com/google/osv-scalibr/extractor/filesystem/os/cos"
	"github.com/google/osv-scalibr/extractor/filesystem/os/dpkg"
	"github.com/google/osv-scalibr/extractor/filesystem/os/flatpak"
	"github.com/google/osv-scalibr/extractor/filesystem/os/homebrew"
	"github.com/google/osv-scalibr/extractor/filesystem/os/kernel/module"
	"github.com/google/osv-scalibr/extractor/filesystem/os/kernel/vmlinuz"
	"github.com/google/osv-scalibr/extractor/filesystem/os/macapps"
	"github.com/google/osv-scalibr/extractor/filesystem/os/nix"
	"github.com/google/osv-scalibr/extractor/filesystem/os/pacman"
	"github.com/google/osv-scalibr/extractor/filesystem/os/portage"
	"github.com/google/osv-scalibr/extractor/filesystem/os/rpm"
	"github.com/google/osv-scalibr/extractor/filesystem/os/snap"
	"github.com/google/osv-scalibr/extractor/filesystem/osv"
	"github.com/google/osv-scalibr/extractor/filesystem/sbom/cdx"
	"github.com/google/osv-scalibr/extractor/filesystem/sbom/spdx"
	ctrdruntime "github.com/google/osv-scalibr/extractor/standalone/containers/containerd"
	winmetadata "github.com/google/osv-scalibr/extractor/standalone/windows/common/metadata"
	"github.com/google/osv-scalibr/inventory"
	"github.com/google/osv-scalibr/packageindex"
	"github.com/google/osv-scalibr/plugin"
	"github.com/google/osv-scalibr/purl"

	"github.com/package-url/packageurl-go"

	"verif/harness/hx"
)

// ---------------------------------------------------------------- purl print/parse with bytes that need escaping

var nastyBits = []string{" ", "%", "?", "#", "@", "/", ":", "+", "&", "=", "ü", "\x01", "%41", "%2f", " ?#@ü"}
var purlFields = []string{"name", "ns", "version", "qual", "subpath"}

type anyEx struct{ u *purl.PackageURL }

func (anyEx) Name() string                                 { return "anyex" }
func (anyEx) Version() int                                 { return 0 }
func (anyEx) Requirements() *plugin.Capabilities           { return &plugin.Capabilities{} }
func (anyEx) Ecosystem(*extractor.Package) string          { return "" }
func (e anyEx) ToPURL(*extractor.Package) *purl.PackageURL { return e.u }

func runPurlRT(typ, field, val string) string {
	return hx.Guard(func() string {
		u := &purl.PackageURL{Type: typ, Namespace: "ns", Name: "name", Version: "1.0", Qualifiers: purl.QualifiersFromMap(map[string]string{"arch": "amd64"})}
		switch field {
		case "name":
			u.Name = val
		case "ns":
			u.Namespace = val
		case "version":
			u.Version = val
		case "qual":
			u.Qualifiers = purl.QualifiersFromMap(map[string]string{"arch": val})
		case "subpath":
			u.Subpath = val
		default:
			return "bad-op"
		}
		if typ == "conan" { // packageurl-go: a conan purl with a namespace needs a channel qualifier; conan.lock packages have no namespace
			if field == "ns" {
				u.Qualifiers = purl.QualifiersFromMap(map[string]string{"arch": "amd64", "channel": "stable"})
			} else {
				u.Namespace = ""
			}
		}
		s := u.String()
		v, err := purl.FromString(s)
		ok, same, back := err == nil, false, "-"
		if ok {
			b := v.String()
			same = b == s
			if !same {
				back = hx.Hex(s + " -> " + b)
			}
		} else {
			back = hx.Hex(s + " : " + err.Error())
		}
		pk := &extractor.Package{Name: "p", Extractor: anyEx{u}}
		idx := false
		if px, err := packageindex.New([]*extractor.Package{pk}); err == nil {
			for _, x := range px.GetSpecific(u.Name, u.Type) {
				if x == pk {
					idx = true
				}
			}
		}
		return fmt.Sprintf("ok=%s same=%s idx=%s back=%s", hx.B(ok), hx.B(same), hx.B(idx), back)
	})
}

// ---------------------------------------------------------------- proto: generic field copying

// metadata samples: one value per type the proto switch knows (zero values suffice for the generic part; the harvest
// converts the real ones), plus values of types it does not know
type unknownMeta struct{ X string }

var metaSamples = []any{
	&wheelegg.PythonPackageMetadata{Author: "a"}, &packagejson.JavascriptPackageJSONMetadata{}, &depsjson.Metadata{}, &apk.Metadata{}, &dpkg.Metadata{},
	&snap.Metadata{}, &rpm.Metadata{}, &cos.Metadata{}, &pacman.Metadata{}, &portage.Metadata{}, &flatpak.Metadata{}, &nix.Metadata{}, &macapps.Metadata{},
	&homebrew.Metadata{}, &module.Metadata{}, &vmlinuz.Metadata{}, &ctrdfs.Metadata{}, &ctrdruntime.Metadata{}, &spdx.Metadata{}, &cdx.Metadata{},
	&archive.Metadata{}, &javalockfile.Metadata{}, &osv.Metadata{}, &requirements.Metadata{}, &setup.Metadata{}, &winmetadata.OSVersion{},
	&chromeextensions.Metadata{}, &vscodeextensions.Metadata{},
	&unknownMeta{"x"}, unknownMeta{"by value"}, "a string", 42,
	wheelegg.PythonPackageMetadata{Author: "by value, not a pointer"},
}

// metaTypeName: "*<import path>.<Type>" for pointers to named types, "<import path>.<Type>" for values, Go's spelling otherwise
func metaTypeName(m any) string {
	if m == nil {
		return ""
	}
	t := reflect.TypeOf(m)
	star := ""
	if t.Kind() == reflect.Ptr {
		t = t.Elem()
		star = "*"
	}
	if t.PkgPath() == "" {
		return star + t.String()
	}
	return star + t.PkgPath() + "." + t.Name()
}

var metaByName = map[string]any{}
var metaNames []string

func initMeta() {
	for _, m := range metaSamples {
		n := metaTypeName(m)
		metaByName[n] = m
		metaNames = append(metaNames, n)
	}
}

type protoCase struct {
	name, version string
	locs          []string
	src           *extractor.SourceCodeIdentifier
	anns          []extractor.Annotation
	layer         *extractor.LayerDetails
	u             *purl.PackageURL
	eco, ex       string
	meta          string // type name ("" = nil metadata)
}

func hexItems(xs []string) string {
	if len(xs) == 0 {
		return "_"
	}
	o := make([]string, len(xs))
	for i, x := range xs {
		o[i] = hx.Hex(x)
	}
	return strings.Join(o, ",")
}
func unhexItems(s string) []string {
	if s == "_" {
		return nil
	}
	var o []string
	for _, x := range strings.Split(s, ",") {
		o = append(o, hx.UnHex(x))
	}
	return o
}
func qualsStr(qs [][2]string) string {
	if len(qs) == 0 {
		return "_"
	}
	var o []string
	for _, q := range qs {
		o = append(o, hx.Hex(q[0])+"="+hx.Hex(q[1]))
	}
	return strings.Join(o, ";")
}
func purlFieldsStr(typ, ns, name, ver string, qs [][2]string, sub string) string {
	return strings.Join([]string{hx.Hex(typ), hx.Hex(ns), hx.Hex(name), hx.Hex(ver), qualsStr(qs), hx.Hex(sub)}, ":")
}
func srcStr(repo, commit string) string { return hx.Hex(repo) + ":" + hx.Hex(commit) }
func layerStr(idx int64, diff, cmd string, base bool) string {
	return fmt.Sprintf("%d:%s:%s:%s", idx, hx.Hex(diff), hx.Hex(cmd), hx.B(base))
}

func (c protoCase) line() string {
	src, layer, pu, anns := "_", "_", "_", "_"
	if c.src != nil {
		src = srcStr(c.src.Repo, c.src.Commit)
	}
	if c.layer != nil {
		layer = layerStr(int64(c.layer.Index), c.layer.DiffID, c.layer.Command, c.layer.InBaseImage)
	}
	if c.u != nil {
		var qs [][2]string
		for _, q := range c.u.Qualifiers {
			qs = append(qs, [2]string{q.Key, q.Value})
		}
		pu = purlFieldsStr(c.u.Type, c.u.Namespace, c.u.Name, c.u.Version, qs, c.u.Subpath)
	}
	if len(c.anns) > 0 {
		var o []string
		for _, a := range c.anns {
			o = append(o, strconv.FormatInt(int64(a), 10))
		}
		anns = strings.Join(o, ",")
	}
	meta := "_"
	if c.meta != "" {
		meta = hx.Hex(c.meta)
	}
	return strings.Join([]string{"proto", hx.Hex(c.name), hx.Hex(c.version), hexItems(c.locs), src, anns, layer, pu, hx.Hex(c.eco), hx.Hex(c.ex), meta}, " ")
}

func parseProto(l string) protoCase {
	t := strings.Split(l, " ")
	if len(t) != 11 {
		panic("bad proto case")
	}
	c := protoCase{name: hx.UnHex(t[1]), version: hx.UnHex(t[2]), locs: unhexItems(t[3]), eco: hx.UnHex(t[8]), ex: hx.UnHex(t[9])}
	if t[4] != "_" {
		p := strings.Split(t[4], ":")
		c.src = &extractor.SourceCodeIdentifier{Repo: hx.UnHex(p[0]), Commit: hx.UnHex(p[1])}
	}
	if t[5] != "_" {
		for _, a := range strings.Split(t[5], ",") {
			n, err := strconv.ParseInt(a, 10, 64)
			if err != nil {
				panic(err)
			}
			c.anns = append(c.anns, extractor.Annotation(n))
		}
	}
	if t[6] != "_" {
		p := strings.Split(t[6], ":")
		n, err := strconv.ParseInt(p[0], 10, 64)
		if err != nil {
			panic(err)
		}
		c.layer = &extractor.LayerDetails{Index: int(n), DiffID: hx.UnHex(p[1]), Command: hx.UnHex(p[2]), InBaseImage: p[3] == "1"}
	}
	if t[7] != "_" {
		p := strings.Split(t[7], ":")
		u := &purl.PackageURL{Type: hx.UnHex(p[0]), Namespace: hx.UnHex(p[1]), Name: hx.UnHex(p[2]), Version: hx.UnHex(p[3]), Subpath: hx.UnHex(p[5])}
		if p[4] != "_" {
			for _, q := range strings.Split(p[4], ";") {
				kv := strings.Split(q, "=")
				u.Qualifiers = append(u.Qualifiers, packageurl.Qualifier{Key: hx.UnHex(kv[0]), Value: hx.UnHex(kv[1])})
			}
		}
		c.u = u
	}
	if t[10] != "_" {
		c.meta = hx.UnHex(t[10])
	}
	return c
}

type protoEx struct {
	name, eco string
	u         *purl.PackageURL
}

func (e protoEx) Name() string                               { return e.name }
func (protoEx) Version() int                                 { return 0 }
func (protoEx) Requirements() *plugin.Capabilities           { return &plugin.Capabilities{} }
func (e protoEx) Ecosystem(*extractor.Package) string        { return e.eco }
func (e protoEx) ToPURL(*extractor.Package) *purl.PackageURL { return e.u }

func runProto(c protoCase) string {
	return hx.Guard(func() string {
		pk := &extractor.Package{Name: c.name, Version: c.version, Locations: c.locs, SourceCode: c.src, Annotations: c.anns, LayerDetails: c.layer,
			Extractor: protoEx{c.ex, c.eco, c.u}}
		if c.meta != "" {
			m, ok := metaByName[c.meta]
			if !ok {
				return "unknown-metadata-sample"
			}
			pk.Metadata = m
		}
		res, err := proto.ScanResultToProto(&scalibr.ScanResult{Status: &plugin.ScanStatus{Status: plugin.ScanStatusSucceeded}, Inventory: inventory.Inventory{Packages: []*extractor.Package{pk}}})
		if err != nil {
			return "error"
		}
		ps := res.GetInventory().GetPackages()
		if len(ps) != 1 {
			return fmt.Sprintf("count=%d", len(ps))
		}
		g := ps[0]
		src, layer, pu, anns, pstr := "_", "_", "_", "_", "1"
		if sc := g.GetSourceCode(); sc != nil {
			src = srcStr(sc.GetRepo(), sc.GetCommit())
		}
		if ld := g.GetLayerDetails(); ld != nil {
			layer = layerStr(int64(ld.GetIndex()), ld.GetDiffId(), ld.GetCommand(), ld.GetInBaseImage())
		}
		if p := g.GetPurl(); p != nil {
			var qs [][2]string
			for _, q := range p.GetQualifiers() {
				qs = append(qs, [2]string{q.GetKey(), q.GetValue()})
			}
			pu = purlFieldsStr(p.GetType(), p.GetNamespace(), p.GetName(), p.GetVersion(), qs, p.GetSubpath())
			if c.u == nil || p.GetPurl() != c.u.String() {
				pstr = "0"
			}
		}
		if as := g.GetAnnotations(); len(as) > 0 {
			var o []string
			for _, a := range as {
				k := int(a)
				if k < 0 || k > 3 {
					k = 4
				}
				o = append(o, string("UTOC?"[k]))
			}
			anns = strings.Join(o, ",")
		}
		// Go port of the SPECIFICATION's reader (lean/Scalibr/Spec/ProtoPkg.lean `read`): what a consumer recovers from the REAL
		// record — annotations as their numeric values, the layer index as a number, the purl's fields and printed form —
		// rendered like the driver renders `genericOf` of the package (sgen=); compared when the package is `Representable`
		rAnns := "_"
		if as := g.GetAnnotations(); len(as) > 0 {
			var o []string
			for _, a := range as {
				o = append(o, strconv.Itoa(int(a)))
			}
			rAnns = strings.Join(o, ",")
		}
		rPstr := "_"
		if p := g.GetPurl(); p != nil {
			rPstr = "S" // stands for "the printed form of ToPURL's purl"
			if c.u == nil || p.GetPurl() != c.u.String() {
				rPstr = hx.Hex(p.GetPurl())
			}
		}
		gen := strings.Join([]string{hx.Hex(g.GetName()), hx.Hex(g.GetVersion()), hexItems(g.GetLocations()), src, rAnns, layer, pu, rPstr, hx.Hex(g.GetEcosystem()), hx.Hex(g.GetExtractor())}, "|")
		return fmt.Sprintf("gen=%s name=%s version=%s locs=%s src=%s anns=%s layer=%s purl=%s eco=%s ex=%s meta=%s pstr=%s", gen,
			hx.Hex(g.GetName()), hx.Hex(g.GetVersion()), hexItems(g.GetLocations()), src, anns, layer, pu, hx.Hex(g.GetEcosystem()), hx.Hex(g.GetExtractor()),
			hx.B(g.GetMetadata() != nil), pstr)
	})
}

var nastyStrings = []string{"", "a", "we ird/na:me<>&\"'%", "@scope/ü+x", "a?b#c=d", "tab\tnewline\nnul\x00", "  lead and trail  ", "%41%2F", "ÄÖ日本", "a,b;c:d=e_f-"}

func randProto(r *rand.Rand) protoCase {
	ns := func() string { return nastyStrings[r.Intn(len(nastyStrings))] }
	c := protoCase{name: ns(), version: ns(), eco: ns(), ex: "ex/" + ns()}
	for n := r.Intn(4); n > 0; n-- {
		c.locs = append(c.locs, ns())
	}
	if r.Intn(3) == 0 {
		c.src = &extractor.SourceCodeIdentifier{Repo: ns(), Commit: ns()}
	}
	for n := r.Intn(4); n > 0 && r.Intn(2) == 0; n-- {
		c.anns = append(c.anns, extractor.Annotation([]int64{0, 1, 2, 3, 4, -1, 1 << 40}[r.Intn(7)]))
	}
	if r.Intn(2) == 0 {
		c.layer = &extractor.LayerDetails{Index: []int{0, 1, 7, 2147483647, 2147483648, 4294967301, -1, -2147483649}[r.Intn(8)], DiffID: ns(), Command: ns(), InBaseImage: r.Intn(2) == 0}
	}
	if r.Intn(5) != 0 {
		u := &purl.PackageURL{Type: []string{"deb", "pypi", "golang", "", "nosuch"}[r.Intn(5)], Namespace: ns(), Name: ns(), Version: ns(), Subpath: ns()}
		for n := r.Intn(3); n > 0; n-- {
			u.Qualifiers = append(u.Qualifiers, packageurl.Qualifier{Key: []string{"arch", "distro", "b", "a"}[r.Intn(4)], Value: ns()})
		}
		c.u = u
	}
	if r.Intn(6) != 0 {
		c.meta = metaNames[r.Intn(len(metaNames))]
	}
	return c
}

// protoOf describes a real (harvested) package as a proto case: its generic fields, its real purl, its metadata's type
func protoOf(e interface {
	Name() string
	ToPURL(*extractor.Package) *purl.PackageURL
	Ecosystem(*extractor.Package) string
}, pk *extractor.Package) (c protoCase, ok bool) {
	defer func() {
		if r := recover(); r != nil {
			ok = false
		}
	}()
	c = protoCase{name: pk.Name, version: pk.Version, locs: pk.Locations, src: pk.SourceCode, anns: pk.Annotations, layer: pk.LayerDetails,
		u: e.ToPURL(pk), eco: e.Ecosystem(pk), ex: e.Name(), meta: metaTypeName(pk.Metadata)}
	if c.meta != "" {
		if _, known := metaByName[c.meta]; !known {
			metaByName[c.meta] = pk.Metadata // a metadata type seen only in the harvest
			metaNames = append(metaNames, c.meta)
		}
	}
	return c, true
}
