// c14gen: (1) the HARVEST loop of C14 — testing in support of the tie, not a proof: every package the
// built-in filesystem extractors produce from their own testdata fixtures (copied to a scratch directory
// first; /repo is never scanned in place) is pushed through ToPURL, Ecosystem, purl.FromString∘String
// twice, packageindex, proto.ScanResultToProto, converter.ToSPDX23 and converter.ToCDX under recover, and
// the preserved fields are compared; the same again with name/version mutated to contain characters that
// need percent-encoding. (2) the correspondence stream of the package-index model: the real
// packageindex on the harvested (type, name) lists and on generated ones.
//
// lines:  harvest <hex extractor name> <hex fixture path>   ->  pk=<packages> purls=<with purl> issues=<codes|->
//
//	index <pkgs>       pkgs := '-' | pkg (',' pkg)*   pkg := 'x' | <hextype> ':' <hexname>
//	                                                 ->  obs=<A=ids;T<type>=ids;S<type>:<name>=ids>
package main

import (
	"context"
	"fmt"
	"io"
	"io/fs"
	"math/rand"
	"os"
	"path/filepath"
	"reflect"
	"sort"
	"strconv"
	"strings"
	"time"

	scalibr "github.com/google/osv-scalibr"
	"github.com/google/osv-scalibr/binary/proto"
	"github.com/google/osv-scalibr/converter"
	"github.com/google/osv-scalibr/extractor"
	"github.com/google/osv-scalibr/extractor/filesystem"
	el "github.com/google/osv-scalibr/extractor/filesystem/list"
	scalibrfs "github.com/google/osv-scalibr/fs"
	"github.com/google/osv-scalibr/inventory"
	"github.com/google/osv-scalibr/packageindex"
	"github.com/google/osv-scalibr/plugin"
	"github.com/google/osv-scalibr/purl"

	"verif/harness/hx"
)

const maxFixture = 8 << 20

// ---------------------------------------------------------------- index stream

type purlMeta struct {
	has       bool
	typ, name string
}
type fakeEx struct{}

func (fakeEx) Name() string                        { return "fake" }
func (fakeEx) Version() int                        { return 0 }
func (fakeEx) Requirements() *plugin.Capabilities  { return &plugin.Capabilities{} }
func (fakeEx) Ecosystem(*extractor.Package) string { return "" }
func (fakeEx) ToPURL(p *extractor.Package) *purl.PackageURL {
	m := p.Metadata.(purlMeta)
	if !m.has {
		return nil
	}
	return &purl.PackageURL{Type: m.typ, Name: m.name, Version: "1"}
}

func parsePkgs(s string) []purlMeta {
	if s == "-" || s == "" {
		return nil
	}
	var out []purlMeta
	for _, p := range strings.Split(s, ",") {
		if p == "x" {
			out = append(out, purlMeta{})
			continue
		}
		tn := strings.Split(p, ":")
		out = append(out, purlMeta{true, hx.UnHex(tn[0]), hx.UnHex(tn[1])})
	}
	return out
}

func pkgsStr(ps []purlMeta) string {
	var o []string
	for _, p := range ps {
		if !p.has {
			o = append(o, "x")
		} else {
			o = append(o, hx.Hex(p.typ)+":"+hx.Hex(p.name))
		}
	}
	return hx.Join(o, ",")
}

func runIndex(ps []purlMeta) string {
	return hx.Guard(func() string {
		var pkgs []*extractor.Package
		id := map[*extractor.Package]int{}
		var types, names []string
		seenT, seenN := map[string]bool{}, map[string]bool{}
		for i, m := range ps {
			p := &extractor.Package{Name: strconv.Itoa(i), Metadata: m, Extractor: fakeEx{}}
			id[p] = i
			pkgs = append(pkgs, p)
			if m.has {
				if !seenT[m.typ] {
					seenT[m.typ] = true
					types = append(types, m.typ)
				}
				if !seenN[m.name] {
					seenN[m.name] = true
					names = append(names, m.name)
				}
			}
		}
		types = append(types, "zz")
		names = append(names, "zz")
		px, err := packageindex.New(pkgs)
		if err != nil {
			return "obs=err"
		}
		ids := func(xs []*extractor.Package, sorted bool) string {
			var o []int
			for _, p := range xs {
				o = append(o, id[p])
			}
			if sorted {
				sort.Ints(o)
			}
			s := make([]string, len(o))
			for i, x := range o {
				s[i] = strconv.Itoa(x)
			}
			return hx.Join(s, ".")
		}
		ob := []string{"A=" + ids(px.GetAll(), true)}
		for _, t := range types {
			ob = append(ob, "T"+hx.Hex(t)+"="+ids(px.GetAllOfType(t), true))
		}
		for _, t := range types {
			for _, n := range names {
				ob = append(ob, "S"+hx.Hex(t)+":"+hx.Hex(n)+"="+ids(px.GetSpecific(n, t), false))
			}
		}
		return "obs=" + strings.Join(ob, ";")
	})
}

// ---------------------------------------------------------------- harvest

type fixture struct {
	ex  filesystem.Extractor
	dir string // scratch copy of the extractor's testdata
	rel string
}

func copyTree(src, dst string) error {
	return filepath.WalkDir(src, func(p string, d fs.DirEntry, err error) error {
		if err != nil {
			return nil
		}
		rel, _ := filepath.Rel(src, p)
		to := filepath.Join(dst, rel)
		if d.IsDir() {
			return os.MkdirAll(to, 0o755)
		}
		info, err := d.Info()
		if err != nil || !info.Mode().IsRegular() || info.Size() > maxFixture {
			return nil
		}
		in, err := os.Open(p)
		if err != nil {
			return nil
		}
		defer in.Close()
		out, err := os.Create(to)
		if err != nil {
			return nil
		}
		defer out.Close()
		_, _ = io.Copy(out, in)
		return nil
	})
}

type issues map[string]bool

func (is issues) add(f string, a ...any) { is[fmt.Sprintf(f, a...)] = true }

func eqStrs(a, b []string) bool {
	if len(a) != len(b) {
		return false
	}
	for i := range a {
		if a[i] != b[i] {
			return false
		}
	}
	return true
}

// convert pushes one batch of packages (all from extractor e) through every conversion.
func convert(e filesystem.Extractor, pkgs []*extractor.Package, tag string, is issues) (purls int) {
	type pu struct {
		u *purl.PackageURL
		s string
	}
	us := make([]pu, len(pkgs))
	for i, pk := range pkgs {
		func() {
			defer func() {
				if r := recover(); r != nil {
					is.add("%stopurl-panic", tag)
				}
			}()
			if pk.Name == "" && tag == "" {
				is.add("empty-name")
			}
			if len(pk.Locations) == 0 && tag == "" {
				is.add("no-location")
			}
			_ = e.Ecosystem(pk)
			u := e.ToPURL(pk)
			if u == nil {
				return
			}
			purls++
			s := u.String()
			us[i] = pu{u, s}
			v, err := purl.FromString(s)
			if err != nil {
				if strings.Contains(err.Error(), "invalid PURL type") {
					is.add("%spurl-type-rejected", tag)
				} else {
					is.add("%spurl-rejected", tag)
				}
				return
			}
			s2 := v.String()
			v2, err := purl.FromString(s2)
			if err != nil || v2.String() != s2 {
				is.add("%spurl-not-idempotent", tag)
			}
		}()
	}
	// package index
	func() {
		defer func() {
			if r := recover(); r != nil {
				is.add("%sindex-panic", tag)
			}
		}()
		px, err := packageindex.New(pkgs)
		if err != nil {
			is.add("%sindex-error", tag)
			return
		}
		has := func(xs []*extractor.Package, p *extractor.Package) bool {
			for _, x := range xs {
				if x == p {
					return true
				}
			}
			return false
		}
		n := 0
		for i, pk := range pkgs {
			if us[i].u == nil {
				if has(px.GetAll(), pk) {
					is.add("%sindex-has-purl-less", tag)
				}
				continue
			}
			n++
			if !has(px.GetSpecific(us[i].u.Name, us[i].u.Type), pk) || !has(px.GetAllOfType(us[i].u.Type), pk) || !has(px.GetAll(), pk) {
				is.add("%sindex-miss", tag)
			}
		}
		if len(px.GetAll()) != n {
			is.add("%sindex-count", tag)
		}
	}()
	res := &scalibr.ScanResult{Status: &plugin.ScanStatus{Status: plugin.ScanStatusSucceeded}, Inventory: inventory.Inventory{Packages: pkgs}}
	// result proto
	func() {
		defer func() {
			if r := recover(); r != nil {
				is.add("%sproto-panic", tag)
			}
		}()
		p, err := proto.ScanResultToProto(res)
		if err != nil {
			is.add("%sproto-error", tag)
			return
		}
		got := p.GetInventory().GetPackages()
		if len(got) != len(pkgs) {
			is.add("%sproto-count", tag)
			return
		}
		for i, pk := range pkgs {
			g := got[i]
			if g.GetName() != pk.Name {
				is.add("%sproto-name", tag)
			}
			if g.GetVersion() != pk.Version {
				is.add("%sproto-version", tag)
			}
			if !eqStrs(g.GetLocations(), pk.Locations) {
				is.add("%sproto-locations", tag)
			}
			if g.GetExtractor() != e.Name() {
				is.add("%sproto-extractor", tag)
			}
			if (us[i].u == nil) != (g.GetPurl() == nil) || (us[i].u != nil && g.GetPurl().GetPurl() != us[i].s) {
				is.add("%sproto-purl", tag)
			}
			ld := g.GetLayerDetails()
			if pk.LayerDetails == nil {
				if ld != nil {
					is.add("%sproto-layer", tag)
				}
			} else if ld == nil || int(ld.GetIndex()) != pk.LayerDetails.Index || ld.GetDiffId() != pk.LayerDetails.DiffID ||
				ld.GetCommand() != pk.LayerDetails.Command || ld.GetInBaseImage() != pk.LayerDetails.InBaseImage {
				is.add("%sproto-layer", tag)
			}
		}
	}()
	// SPDX: one package per purl with a non-empty name and version (plus the synthetic main package), carrying
	// the purl's name, version and string; locations are summarised in free text by design
	func() {
		defer func() {
			if r := recover(); r != nil {
				is.add("%sspdx-panic", tag)
			}
		}()
		doc := converter.ToSPDX23(res, converter.SPDXConfig{})
		var want []pu
		for i := range pkgs {
			if us[i].u != nil && us[i].u.Name != "" && us[i].u.Version != "" {
				want = append(want, us[i])
			}
		}
		if len(doc.Packages) != len(want)+1 {
			is.add("%sspdx-count", tag)
			return
		}
		for i, w := range want {
			g := doc.Packages[i+1]
			if g.PackageName != w.u.Name || g.PackageVersion != w.u.Version {
				is.add("%sspdx-name-version", tag)
			}
			if len(g.PackageExternalReferences) != 1 || g.PackageExternalReferences[0].Locator != w.s || g.PackageExternalReferences[0].RefType != "purl" {
				is.add("%sspdx-purl", tag)
			}
		}
	}()
	// CycloneDX
	func() {
		defer func() {
			if r := recover(); r != nil {
				is.add("%scdx-panic", tag)
			}
		}()
		bom := converter.ToCDX(res, converter.CDXConfig{})
		if bom.Components == nil || len(*bom.Components) != len(pkgs) {
			is.add("%scdx-count", tag)
			return
		}
		for i, pk := range pkgs {
			c := (*bom.Components)[i]
			if c.Name != pk.Name || c.Version != pk.Version {
				is.add("%scdx-name-version", tag)
			}
			if c.PackageURL != us[i].s {
				is.add("%scdx-purl", tag)
			}
			var locs []string
			if c.Evidence != nil && c.Evidence.Occurrences != nil {
				for _, o := range *c.Evidence.Occurrences {
					locs = append(locs, o.Location)
				}
			}
			if !eqStrs(locs, pk.Locations) {
				is.add("%scdx-locations", tag)
			}
		}
	}()
	return purls
}

func runHarvest(f fixture, emitIndex func([]purlMeta)) string {
	is := issues{}
	var pkgs []*extractor.Package
	func() {
		defer func() {
			if r := recover(); r != nil {
				is.add("extract-panic")
			}
		}()
		p := filepath.Join(f.dir, f.rel)
		info, err := os.Stat(p)
		if err != nil {
			return
		}
		fh, err := os.Open(p)
		if err != nil {
			return
		}
		defer fh.Close()
		ctx, cancel := context.WithTimeout(context.Background(), 10*time.Second)
		defer cancel()
		inv, _ := f.ex.Extract(ctx, &filesystem.ScanInput{FS: scalibrfs.DirFS(f.dir), Path: filepath.ToSlash(f.rel), Root: f.dir, Info: info, Reader: fh})
		pkgs = inv.Packages
	}()
	for i, pk := range pkgs {
		if pk == nil {
			is.add("nil-package")
			return fmt.Sprintf("pk=%d purls=0 issues=%s", len(pkgs), issuesStr(is))
		}
		pk.Extractor = f.ex // what the walk does
		if i%2 == 0 {       // as ScanContainer would: layer details must survive the conversions
			pk.LayerDetails = &extractor.LayerDetails{Index: 3 + i, DiffID: "sha256:abc", Command: "RUN x \"y\"", InBaseImage: i%4 == 0}
		}
	}
	purls := convert(f.ex, pkgs, "", is)
	// the same packages with names / versions that need percent-encoding
	var mut []*extractor.Package
	for i, pk := range pkgs {
		c := *pk
		c.Name = pk.Name + []string{" we ird/na:me<>&\"'%", "@scope/ü+x", "a?b#c=d"}[i%3]
		c.Version = pk.Version + []string{" 1 2#3?4", "+build~1:2", "%41/β"}[i%3]
		mut = append(mut, &c)
	}
	convert(f.ex, mut, "mut-", is)
	if emitIndex != nil && len(pkgs) > 0 {
		var ms []purlMeta
		for i, pk := range pkgs {
			if i >= 40 {
				break
			}
			func() {
				defer func() { _ = recover() }()
				m := purlMeta{}
				if u := f.ex.ToPURL(pk); u != nil {
					m = purlMeta{true, u.Type, u.Name}
				}
				ms = append(ms, m)
			}()
		}
		// some extractors (conan.lock) emit packages in Go-map order: canonical order for a reproducible case line
		sort.SliceStable(ms, func(i, j int) bool {
			a, b := ms[i], ms[j]
			if a.has != b.has {
				return !a.has
			}
			if a.typ != b.typ {
				return a.typ < b.typ
			}
			return a.name < b.name
		})
		emitIndex(ms)
	}
	return fmt.Sprintf("pk=%d purls=%d issues=%s", len(pkgs), purls, issuesStr(is))
}

func issuesStr(is issues) string {
	var o []string
	for k := range is {
		o = append(o, k)
	}
	sort.Strings(o)
	return hx.Join(o, ",")
}

// fixtures copies every built-in filesystem extractor's testdata into scratch and lists the files.
func fixtures(scratch string) (map[string]filesystem.Extractor, []fixture) {
	exs := map[string]filesystem.Extractor{}
	var out []fixture
	var names []string
	for n := range el.All {
		names = append(names, n)
	}
	sort.Strings(names)
	for _, n := range names {
		for _, init := range el.All[n] {
			e := init()
			exs[e.Name()] = e
			tp := reflect.TypeOf(e)
			if tp.Kind() == reflect.Ptr {
				tp = tp.Elem()
			}
			rel := strings.TrimPrefix(tp.PkgPath(), "github.com/google/osv-scalibr/")
			src := filepath.Join("/repo", rel, "testdata")
			if _, err := os.Stat(src); err != nil {
				continue
			}
			dst := filepath.Join(scratch, strings.ReplaceAll(e.Name(), "/", "_"))
			if err := copyTree(src, dst); err != nil {
				continue
			}
			var rels []string
			_ = filepath.WalkDir(dst, func(p string, d fs.DirEntry, err error) error {
				if err == nil && !d.IsDir() {
					r, _ := filepath.Rel(dst, p)
					rels = append(rels, r)
				}
				return nil
			})
			sort.Strings(rels)
			for _, r := range rels {
				out = append(out, fixture{e, dst, r})
			}
		}
	}
	return exs, out
}

var typePool = []string{"pypi", "deb", "npm", "", "PyPI", "golang"}
var namePool = []string{"a", "b", "requests", "", "A", "we ird/na:me"}

func randIndex(r *rand.Rand) []purlMeta {
	var out []purlMeta
	for n := r.Intn(9); n > 0; n-- {
		if r.Intn(5) == 0 {
			out = append(out, purlMeta{})
		} else {
			out = append(out, purlMeta{true, typePool[r.Intn(2+r.Intn(5))], namePool[r.Intn(2+r.Intn(5))]})
		}
	}
	return out
}

func main() {
	o := hx.Parse()
	out := hx.NewOut()
	defer out.Flush()
	scratch, err := os.MkdirTemp("", "c14harvest")
	if err != nil {
		panic(err)
	}
	defer os.RemoveAll(scratch)
	exs, fx := fixtures(scratch)
	byKey := map[string]fixture{}
	for _, f := range fx {
		byKey[f.ex.Name()+"\x00"+f.rel] = f
	}
	_ = exs
	if o.Replay != "" {
		for _, l := range hx.ReplayLines(o.Replay) {
			t := strings.Split(l, " ")
			switch t[0] {
			case "index":
				out.Emit(l, runIndex(parsePkgs(t[1])))
			case "harvest":
				f, ok := byKey[hx.UnHex(t[1])+"\x00"+hx.UnHex(t[2])]
				if !ok {
					out.Emit(l, "pk=0 purls=0 issues=fixture-missing")
					continue
				}
				out.Emit(l, runHarvest(f, nil))
			default:
				out.Emit(l, "bad-op")
			}
		}
		return
	}
	// every fixture of every built-in filesystem extractor, in both tiers
	for _, f := range fx {
		var idx [][]purlMeta
		l := "harvest " + hx.Hex(f.ex.Name()) + " " + hx.Hex(f.rel)
		out.Emit(l, runHarvest(f, func(ms []purlMeta) { idx = append(idx, ms) }))
		for _, ms := range idx {
			out.Emit("index "+pkgsStr(ms), runIndex(ms))
		}
	}
	r := hx.Rng(o)
	for i := 0; i < o.N; i++ {
		ms := randIndex(r)
		out.Emit("index "+pkgsStr(ms), runIndex(ms))
	}
}
