// c14gen: (1) the HARVEST loop of C14 — testing in support of the tie, not a proof: every package the
// built-in filesystem extractors produce from their own testdata fixtures (copied to a scratch directory
// first; /repo is never scanned in place) is pushed through ToPURL, Ecosystem, purl.FromString∘String
// twice, packageindex, proto.ScanResultToProto, converter.ToSPDX23 and converter.ToCDX under recover, and
// the preserved fields are compared; the same again with name/version mutated to contain characters that
// need percent-encoding. (2) the correspondence stream of the package-index model: the real
// packageindex on the harvested (type, name) lists and on generated ones.
//
// (3) `layout`: the OS extractors' fixtures placed at their PRODUCTION paths in a scratch system tree (dpkg status at
// var/lib/dpkg/status, status.d/ and usr/lib/opkg/status — where ToPURL switches to type opkg —, apk, rpm, cos, snap,
// pacman, portage, flatpak, kernel modules, vmlinuz, nix store, macapps, homebrew) under several etc/os-release
// variants (distro-driven namespaces and qualifiers, one needing percent-encoding), extracted by the real
// filesystem.Run with every built-in extractor, and converted like the harvest. (4) `accept`: the real
// purl.FromString on a well-formed purl of every type the translator found in a ToPURL implementation (op `accept e`,
// the property) and of every purl.Type* constant (op `accept c`, informational) — independent of how validType is written.
//
// lines:  harvest <hex extractor name> <hex fixture path>   ->  pk=<packages> purls=<with purl> issues=<codes|-> bad=<hex details|->
//
//	        boundary <hex extractor> <hex fixture> <hex name shape>  ->  hit=<a name of the fixture was substituted> pk= purls= issues= bad= drop=
//	        layout <hex os-release variant>                   ->  pk= purls= byex=<extractor:count,…> types=<purl types> issues= bad=
//	        accept <e|c|n> <hextype> <hex origin>              ->  acc=<0|1 "pkg:<type>/ns/name@1.0" parses> accs=<0|1 String() of a built PackageURL parses> idem=<0|1> why=<-|type|parse>
//
//		index <pkgs>       pkgs := '-' | pkg (',' pkg)*   pkg := 'x' | <hextype> ':' <hexname>
//		                                                 ->  obs=<A=ids;T<type>=ids;S<type>:<name>=ids>
package main

import (
	"context"
	"crypto/sha1"
	"flag"
	"fmt"
	"io"
	"io/fs"
	"math/rand"
	"os"
	"path/filepath"
	"reflect"
	"sort"
	"strconv"
	"strings"
	"time"

	scalibr "github.com/google/osv-scalibr"
	"github.com/google/osv-scalibr/binary/proto"
	"github.com/google/osv-scalibr/converter"
	"github.com/google/osv-scalibr/extractor"
	"github.com/google/osv-scalibr/extractor/filesystem"
	el "github.com/google/osv-scalibr/extractor/filesystem/list"
	scalibrfs "github.com/google/osv-scalibr/fs"
	"github.com/google/osv-scalibr/inventory"
	"github.com/google/osv-scalibr/packageindex"
	"github.com/google/osv-scalibr/plugin"
	"github.com/google/osv-scalibr/purl"
	"github.com/google/osv-scalibr/stats"

	"verif/harness/hx"
)

const maxFixture = 8 << 20

// ---------------------------------------------------------------- index stream

type purlMeta struct {
	has       bool
	typ, name string
}
type fakeEx struct{}

func (fakeEx) Name() string                        { return "fake" }
func (fakeEx) Version() int                        { return 0 }
func (fakeEx) Requirements() *plugin.Capabilities  { return &plugin.Capabilities{} }
func (fakeEx) Ecosystem(*extractor.Package) string { return "" }
func (fakeEx) ToPURL(p *extractor.Package) *purl.PackageURL {
	m := p.Metadata.(purlMeta)
	if !m.has {
		return nil
	}
	return &purl.PackageURL{Type: m.typ, Name: m.name, Version: "1"}
}

func parsePkgs(s string) []purlMeta {
	if s == "-" || s == "" {
		return nil
	}
	var out []purlMeta
	for _, p := range strings.Split(s, ",") {
		if p == "x" {
			out = append(out, purlMeta{})
			continue
		}
		tn := strings.Split(p, ":")
		out = append(out, purlMeta{true, hx.UnHex(tn[0]), hx.UnHex(tn[1])})
	}
	return out
}

func pkgsStr(ps []purlMeta) string {
	var o []string
	for _, p := range ps {
		if !p.has {
			o = append(o, "x")
		} else {
			o = append(o, hx.Hex(p.typ)+":"+hx.Hex(p.name))
		}
	}
	return hx.Join(o, ",")
}

func runIndex(ps []purlMeta) string {
	return hx.Guard(func() string {
		var pkgs []*extractor.Package
		id := map[*extractor.Package]int{}
		var types, names []string
		seenT, seenN := map[string]bool{}, map[string]bool{}
		for i, m := range ps {
			p := &extractor.Package{Name: strconv.Itoa(i), Metadata: m, Extractor: fakeEx{}}
			id[p] = i
			pkgs = append(pkgs, p)
			if m.has {
				if !seenT[m.typ] {
					seenT[m.typ] = true
					types = append(types, m.typ)
				}
				if !seenN[m.name] {
					seenN[m.name] = true
					names = append(names, m.name)
				}
			}
		}
		types = append(types, "zz")
		names = append(names, "zz")
		px, err := packageindex.New(pkgs)
		if err != nil {
			return "obs=err"
		}
		ids := func(xs []*extractor.Package, sorted bool) string {
			var o []int
			for _, p := range xs {
				o = append(o, id[p])
			}
			if sorted {
				sort.Ints(o)
			}
			s := make([]string, len(o))
			for i, x := range o {
				s[i] = strconv.Itoa(x)
			}
			return hx.Join(s, ".")
		}
		ob := []string{"A=" + ids(px.GetAll(), true)}
		for _, t := range types {
			ob = append(ob, "T"+hx.Hex(t)+"="+ids(px.GetAllOfType(t), true))
		}
		for _, t := range types {
			for _, n := range names {
				ob = append(ob, "S"+hx.Hex(t)+":"+hx.Hex(n)+"="+ids(px.GetSpecific(n, t), false))
			}
		}
		return "obs=" + strings.Join(ob, ";")
	})
}

// ---------------------------------------------------------------- harvest

type fixture struct {
	ex  filesystem.Extractor
	dir string // scratch copy of the extractor's testdata
	rel string
}

func copyTree(src, dst string) error {
	return filepath.WalkDir(src, func(p string, d fs.DirEntry, err error) error {
		if err != nil {
			return nil
		}
		rel, _ := filepath.Rel(src, p)
		to := filepath.Join(dst, rel)
		if d.IsDir() {
			return os.MkdirAll(to, 0o755)
		}
		info, err := d.Info()
		if err != nil || !info.Mode().IsRegular() || info.Size() > maxFixture {
			return nil
		}
		in, err := os.Open(p)
		if err != nil {
			return nil
		}
		defer in.Close()
		out, err := os.Create(to)
		if err != nil {
			return nil
		}
		defer out.Close()
		_, _ = io.Copy(out, in)
		return nil
	})
}

type issues map[string]bool

func (is issues) add(f string, a ...any) { is[fmt.Sprintf(f, a...)] = true }

func eqStrs(a, b []string) bool {
	if len(a) != len(b) {
		return false
	}
	for i := range a {
		if a[i] != b[i] {
			return false
		}
	}
	return true
}

// convert pushes one batch of packages (all from extractor e) through every conversion.
func convert(e filesystem.Extractor, pkgs []*extractor.Package, tag string, is issues, det func(pk *extractor.Package, code, purlStr string)) (purls int) {
	if det == nil {
		det = func(*extractor.Package, string, string) {}
	}
	type pu struct {
		u *purl.PackageURL
		s string
	}
	us := make([]pu, len(pkgs))
	for i, pk := range pkgs {
		func() {
			defer func() {
				if r := recover(); r != nil {
					is.add("%stopurl-panic", tag)
					det(pk, tag+"topurl-panic", "")
				}
			}()
			if pk.Name == "" && tag == "" {
				is.add("empty-name")
				det(pk, "empty-name", "")
			}
			if len(pk.Locations) == 0 && tag == "" {
				is.add("no-location")
				det(pk, "no-location", "")
			}
			func() { // the ecosystem name never panics
				defer func() {
					if r := recover(); r != nil {
						is.add("%secosystem-panic", tag)
						det(pk, tag+"ecosystem-panic", "")
					}
				}()
				_ = e.Ecosystem(pk)
			}()
			u := e.ToPURL(pk)
			if u == nil {
				return
			}
			purls++
			s := u.String()
			us[i] = pu{u, s}
			v, err := purl.FromString(s)
			if err != nil {
				if strings.Contains(err.Error(), "invalid PURL type") {
					is.add("%spurl-type-rejected", tag)
					det(pk, tag+"purl-type-rejected", s)
				} else {
					is.add("%spurl-rejected", tag)
					det(pk, tag+"purl-rejected", s)
				}
				return
			}
			s2 := v.String()
			if s2 != s { // strict: printing, parsing and printing again gives the very same string
				is.add("%spurl-roundtrip-differs", tag)
				det(pk, tag+"purl-roundtrip-differs", s+" -> "+s2)
			}
			v2, err := purl.FromString(s2)
			if err != nil || v2.String() != s2 {
				is.add("%spurl-not-idempotent", tag)
				det(pk, tag+"purl-not-idempotent", s)
			}
		}()
	}
	// package index
	func() {
		defer func() {
			if r := recover(); r != nil {
				is.add("%sindex-panic", tag)
			}
		}()
		px, err := packageindex.New(pkgs)
		if err != nil {
			is.add("%sindex-error", tag)
			return
		}
		has := func(xs []*extractor.Package, p *extractor.Package) bool {
			for _, x := range xs {
				if x == p {
					return true
				}
			}
			return false
		}
		n := 0
		for i, pk := range pkgs {
			if us[i].u == nil {
				if has(px.GetAll(), pk) {
					is.add("%sindex-has-purl-less", tag)
				}
				continue
			}
			n++
			if !has(px.GetSpecific(us[i].u.Name, us[i].u.Type), pk) || !has(px.GetAllOfType(us[i].u.Type), pk) || !has(px.GetAll(), pk) {
				is.add("%sindex-miss", tag)
				det(pk, tag+"index-miss: GetSpecific("+us[i].u.Name+", "+us[i].u.Type+") does not return the package", us[i].s)
			}
		}
		if len(px.GetAll()) != n {
			is.add("%sindex-count", tag)
		}
	}()
	res := &scalibr.ScanResult{Status: &plugin.ScanStatus{Status: plugin.ScanStatusSucceeded}, Inventory: inventory.Inventory{Packages: pkgs}}
	// result proto
	func() {
		defer func() {
			if r := recover(); r != nil {
				is.add("%sproto-panic", tag)
			}
		}()
		p, err := proto.ScanResultToProto(res)
		if err != nil {
			is.add("%sproto-error", tag)
			return
		}
		got := p.GetInventory().GetPackages()
		if len(got) != len(pkgs) {
			is.add("%sproto-count", tag)
			return
		}
		for i, pk := range pkgs {
			g := got[i]
			if pk.Metadata != nil && g.GetMetadata() == nil && tag == "" {
				droppedMeta[metaTypeName(pk.Metadata)] = true // the proto switch has no case for this metadata type
			}
			if g.GetName() != pk.Name {
				is.add("%sproto-name", tag)
			}
			if g.GetVersion() != pk.Version {
				is.add("%sproto-version", tag)
			}
			if !eqStrs(g.GetLocations(), pk.Locations) {
				is.add("%sproto-locations", tag)
			}
			if g.GetExtractor() != e.Name() {
				is.add("%sproto-extractor", tag)
			}
			if (us[i].u == nil) != (g.GetPurl() == nil) || (us[i].u != nil && g.GetPurl().GetPurl() != us[i].s) {
				is.add("%sproto-purl", tag)
			}
			ld := g.GetLayerDetails()
			if pk.LayerDetails == nil {
				if ld != nil {
					is.add("%sproto-layer", tag)
				}
			} else if ld == nil || int(ld.GetIndex()) != pk.LayerDetails.Index || ld.GetDiffId() != pk.LayerDetails.DiffID ||
				ld.GetCommand() != pk.LayerDetails.Command || ld.GetInBaseImage() != pk.LayerDetails.InBaseImage {
				is.add("%sproto-layer", tag)
			}
		}
	}()
	// SPDX: one package per purl with a non-empty name and version (plus the synthetic main package), carrying
	// the purl's name, version and string; locations are summarised in free text by design
	func() {
		defer func() {
			if r := recover(); r != nil {
				is.add("%sspdx-panic", tag)
			}
		}()
		doc := converter.ToSPDX23(res, converter.SPDXConfig{})
		var want []pu
		for i := range pkgs {
			if us[i].u != nil && us[i].u.Name != "" && us[i].u.Version != "" {
				want = append(want, us[i])
			}
		}
		if len(doc.Packages) != len(want)+1 {
			is.add("%sspdx-count", tag)
			return
		}
		for i, w := range want {
			g := doc.Packages[i+1]
			if g.PackageName != w.u.Name || g.PackageVersion != w.u.Version {
				is.add("%sspdx-name-version", tag)
			}
			if len(g.PackageExternalReferences) != 1 || g.PackageExternalReferences[0].Locator != w.s || g.PackageExternalReferences[0].RefType != "purl" {
				is.add("%sspdx-purl", tag)
			}
		}
	}()
	// CycloneDX
	func() {
		defer func() {
			if r := recover(); r != nil {
				is.add("%scdx-panic", tag)
			}
		}()
		cfg := converter.CDXConfig{}
		if tag != "" { // the document-level fields of the config: named component, authors in order
			cfg = converter.CDXConfig{ComponentName: "comp n", ComponentVersion: "1~2", Authors: []string{"b author", "a <x@y>"}}
		}
		bom := converter.ToCDX(res, cfg)
		if bom.Components == nil || len(*bom.Components) != len(pkgs) {
			is.add("%scdx-count", tag)
			return
		}
		if bom.Metadata == nil || bom.Metadata.Component == nil || bom.Metadata.Component.Name != cfg.ComponentName || bom.Metadata.Component.Version != cfg.ComponentVersion {
			is.add("%scdx-component", tag)
		}
		var authors []string
		if bom.Metadata != nil && bom.Metadata.Authors != nil {
			for _, a := range *bom.Metadata.Authors {
				authors = append(authors, a.Name)
			}
		}
		if !eqStrs(authors, cfg.Authors) {
			is.add("%scdx-authors", tag)
		}
		for i, pk := range pkgs {
			c := (*bom.Components)[i]
			if c.Name != pk.Name || c.Version != pk.Version {
				is.add("%scdx-name-version", tag)
			}
			if c.PackageURL != us[i].s {
				is.add("%scdx-purl", tag)
			}
			var locs []string
			if c.Evidence != nil && c.Evidence.Occurrences != nil {
				for _, o := range *c.Evidence.Occurrences {
					locs = append(locs, o.Location)
				}
			}
			if !eqStrs(locs, pk.Locations) {
				is.add("%scdx-locations", tag)
			}
		}
	}()
	return purls
}

// details collects up to three concrete (location | purl | issue) witnesses for the reply's bad= field.
type details struct{ d []string }

func (d *details) add(pk *extractor.Package, code, purlStr string) {
	if len(d.d) < 3 {
		d.d = append(d.d, hx.Hex(strings.Join(pk.Locations, "+")+" | "+pk.Name+"@"+pk.Version+" | "+purlStr+" | "+code))
	}
}
func (d *details) str() string { return hx.Join(d.d, ",") }

var yields = map[string]bool{} // fixtures that yield at least one package

var emitProto func(protoCase)

// droppedMeta: metadata types of REAL extractor output for which the result proto's metadata oneof stayed unset
var droppedMeta = map[string]bool{}

func droppedStr() string {
	var o []string
	for k := range droppedMeta {
		o = append(o, hx.Hex(k))
	}
	sort.Strings(o)
	droppedMeta = map[string]bool{}
	return hx.Join(o, ",")
}

func runHarvest(f fixture, emitIndex func([]purlMeta)) string {
	is := issues{}
	dt := &details{}
	var pkgs []*extractor.Package
	func() {
		defer func() {
			if r := recover(); r != nil {
				is.add("extract-panic")
			}
		}()
		p := filepath.Join(f.dir, f.rel)
		info, err := os.Stat(p)
		if err != nil {
			return
		}
		fh, err := os.Open(p)
		if err != nil {
			return
		}
		defer fh.Close()
		ctx, cancel := context.WithTimeout(context.Background(), 10*time.Second)
		defer cancel()
		inv, _ := f.ex.Extract(ctx, &filesystem.ScanInput{FS: scalibrfs.DirFS(f.dir), Path: filepath.ToSlash(f.rel), Root: f.dir, Info: info, Reader: fh})
		pkgs = inv.Packages
	}()
	for i, pk := range pkgs {
		if pk == nil {
			is.add("nil-package")
			return fmt.Sprintf("pk=%d purls=0 issues=%s bad=-", len(pkgs), issuesStr(is))
		}
		pk.Extractor = f.ex // what the walk does
		if i%2 == 0 {       // as ScanContainer would: layer details must survive the conversions
			pk.LayerDetails = &extractor.LayerDetails{Index: 3 + i, DiffID: "sha256:abc", Command: "RUN x \"y\"", InBaseImage: i%4 == 0}
		}
	}
	purls := convert(f.ex, pkgs, "", is, dt.add)
	if emitProto != nil {
		for i, pk := range pkgs {
			if i >= 6 {
				break
			}
			if c, ok := protoOf(f.ex, pk); ok {
				emitProto(c)
			}
		}
	}
	// the same packages with names / versions that need percent-encoding
	var mut []*extractor.Package
	for i, pk := range pkgs {
		c := *pk
		c.Name = pk.Name + []string{" we ird/na:me<>&\"'%", "@scope/ü+x", "a?b#c=d"}[i%3]
		c.Version = pk.Version + []string{" 1 2#3?4", "+build~1:2", "%41/β"}[i%3]
		mut = append(mut, &c)
	}
	convert(f.ex, mut, "mut-", is, dt.add)
	if emitIndex != nil && len(pkgs) > 0 {
		var ms []purlMeta
		for i, pk := range pkgs {
			if i >= 40 {
				break
			}
			func() {
				defer func() { _ = recover() }()
				m := purlMeta{}
				if u := f.ex.ToPURL(pk); u != nil {
					m = purlMeta{true, u.Type, u.Name}
				}
				ms = append(ms, m)
			}()
		}
		// some extractors (conan.lock) emit packages in Go-map order: canonical order for a reproducible case line
		sort.SliceStable(ms, func(i, j int) bool {
			a, b := ms[i], ms[j]
			if a.has != b.has {
				return !a.has
			}
			if a.typ != b.typ {
				return a.typ < b.typ
			}
			return a.name < b.name
		})
		emitIndex(ms)
	}
	return fmt.Sprintf("pk=%d purls=%d issues=%s bad=%s drop=%s", len(pkgs), purls, issuesStr(is), dt.str(), droppedStr())
}

// ---------------------------------------------------------------- names at the syntax boundary

// boundaryShapes: names at the boundary of the namespace/name split of the purl types (npm scopes, Maven group:artifact, Go
// module paths, separators only, empty after trimming). They are put INTO THE FILE the real extractor reads, by substituting
// the name of a package the fixture is known to yield, so the whole chain Extract -> ToPURL -> String -> FromString -> index ->
// proto -> CycloneDX -> SPDX runs on what the extractor makes of them.
var boundaryShapes = []string{"@types", "@scope/", "@/x", "/x", "x/", "a/b/c", "@", "/", "//", ":artifact", "group:", ":", "example.com/mod/", " ", ".", "..", "@a/b/c", "a:b:c"}

// runBoundary substitutes `shape` for a package name of the fixture (the first candidate that occurs verbatim in the file:
// the name itself, or its last ':' / '/' component) and pushes whatever the extractor then emits through the conversions.
func runBoundary(f fixture, shape string) string {
	is := issues{}
	dt := &details{}
	hit, npk, purls := false, 0, 0
	func() {
		defer func() {
			if r := recover(); r != nil {
				is.add("extract-panic")
			}
		}()
		p := filepath.Join(f.dir, f.rel)
		data, err := os.ReadFile(p)
		if err != nil {
			return
		}
		extract := func(path string) []*extractor.Package {
			info, err := os.Stat(path)
			if err != nil {
				return nil
			}
			fh, err := os.Open(path)
			if err != nil {
				return nil
			}
			defer fh.Close()
			ctx, cancel := context.WithTimeout(context.Background(), 10*time.Second)
			defer cancel()
			rel, _ := filepath.Rel(f.dir, path)
			inv, _ := f.ex.Extract(ctx, &filesystem.ScanInput{FS: scalibrfs.DirFS(f.dir), Path: filepath.ToSlash(rel), Root: f.dir, Info: info, Reader: fh})
			return inv.Packages
		}
		orig := extract(p)
		var cand []string
		for _, pk := range orig {
			if pk == nil || pk.Name == "" {
				continue
			}
			cand = append(cand, pk.Name)
			for _, sep := range []string{":", "/"} {
				if i := strings.LastIndex(pk.Name, sep); i >= 0 && i+1 < len(pk.Name) {
					cand = append(cand, pk.Name[i+1:])
				}
			}
			if len(cand) > 12 {
				break
			}
		}
		old := ""
		for _, c := range cand {
			if len(c) >= 2 && strings.Contains(string(data), c) {
				old = c
				break
			}
		}
		if old == "" {
			return
		}
		hit = true
		// same base name (several extractors dispatch on it): work in a scratch sibling directory
		dir := filepath.Join(filepath.Dir(p), "_boundary") // fixed name: locations end up in replies
		if err := os.MkdirAll(dir, 0o755); err != nil {
			return
		}
		defer os.RemoveAll(dir)
		mp := filepath.Join(dir, filepath.Base(p))
		if err := os.WriteFile(mp, []byte(strings.ReplaceAll(string(data), old, shape)), 0o644); err != nil {
			return
		}
		pkgs := extract(mp)
		for i, pk := range pkgs {
			if pk == nil {
				is.add("nil-package")
				return
			}
			pk.Extractor = f.ex
			if i%2 == 0 {
				pk.LayerDetails = &extractor.LayerDetails{Index: i, DiffID: "sha256:abc", Command: "RUN x", InBaseImage: true}
			}
		}
		npk = len(pkgs)
		purls = convert(f.ex, pkgs, "", is, dt.add)
	}()
	return fmt.Sprintf("hit=%s pk=%d purls=%d issues=%s bad=%s drop=%s", hx.B(hit), npk, purls, issuesStr(is), dt.str(), droppedStr())
}

// ---------------------------------------------------------------- production layout

// placements: fixture (relative to the extractor's testdata) -> the path it has on a real system.
var placements = []struct{ ex, fixture, prod string }{
	{"os/dpkg", "dpkg/valid", "var/lib/dpkg/status"},
	{"os/dpkg", "dpkg/status.d/foo", "var/lib/dpkg/status.d/foo"},
	{"os/dpkg", "opkg/valid", "usr/lib/opkg/status"}, // ToPURL switches to purl type opkg for this location only
	{"os/apk", "installed", "lib/apk/db/installed"},
	{"os/rpm", "Packages_epoch", "var/lib/rpm/Packages"}, // the one rpm fixture this build can read (no sqlite / ndb packages in it)
	{"os/cos", "multiple.json", "etc/cos-package-info.json"},
	{"os/snap", "multi-arch.yaml", "snap/core/1234/meta/snap.yaml"},
	{"os/pacman", "valid", "var/lib/pacman/local/zstd-1.5.6-1/desc"},
	{"os/portage", "valid", "var/db/pkg/app-misc/hello-2.12/PF"},
	{"os/flatpak", "valid.xml", "var/lib/flatpak/app/org.x.App/current/active/export/share/metainfo/org.x.App.metainfo.xml"},
	{"os/kernel/module", "valid", "lib/modules/6.1.0/kernel/drivers/x.ko"},
	{"os/kernel/vmlinuz", "valid", "boot/vmlinuz-6.1.0"},
	{"os/macapps", "ValidXML.plist", "Applications/Valid.app/Contents/Info.plist"},
	{"os/homebrew", "Cellar/rclone/1.67.0/INSTALL_RECEIPT.json", "usr/local/Cellar/rclone/1.67.0/INSTALL_RECEIPT.json"},
	{"os/nix", "", "nix/store/1ddf3x30m0z6kknmrmapsc7liz8npi1w-perl-5.38.2/bin/ptar"}, // synthetic: the store path is the data
}

// os-release variants: distro-driven namespaces / qualifiers of the OS extractors' purls
var osReleases = []struct{ name, content string }{
	{"none", ""},
	{"debian", "ID=debian\nVERSION_ID=\"12\"\nVERSION_CODENAME=bookworm\n"},
	{"ubuntu", "ID=ubuntu\nVERSION_ID=\"22.04\"\nVERSION_CODENAME=jammy\n"},
	{"openwrt", "ID=\"openwrt\"\nVERSION_ID=\"23.05.2\"\nBUILD_ID=\"r23630-842932a63d\"\n"},
	{"alpine", "ID=alpine\nVERSION_ID=3.19.1\n"},
	{"fedora", "ID=fedora\nVERSION_ID=39\nBUILD_ID=f39\n"},
	{"arch", "ID=arch\nBUILD_ID=rolling\n"},
	{"cos", "ID=cos\nVERSION=113\nVERSION_ID=113\nBUILD_ID=18244.85.49\n"},
	{"weird", "ID=\"we ird/o:s\"\nVERSION_ID=\"1 2#3?4\"\nVERSION_CODENAME=\"co de&name%\"\nBUILD_ID=\"b+1\"\n"},
	// VERSION_ID shapes (the OS extractors' Ecosystem() / ToPURL() parse it): leading v, trailing .x, edge.<date>, no dot, one dot at the
	// end / start, empty, very long, quoted with spaces; fields absent one at a time
	{"vid-v", "ID=alpine\nVERSION_ID=v24.06\n"},
	{"vid-edge", "ID=alpine\nVERSION_ID=edge.20250108\nVERSION_CODENAME=edge\n"},
	{"vid-x", "ID=alpine\nVERSION_ID=3.x\n"},
	{"vid-nodot", "ID=debian\nVERSION_ID=12\nVERSION_CODENAME=bookworm\n"},
	{"vid-dots", "ID=ubuntu\nVERSION_ID=.\nVERSION_CODENAME=.\n"},
	{"vid-enddot", "ID=fedora\nVERSION_ID=39.\nBUILD_ID=.39\n"},
	{"vid-startdot", "ID=alpine\nVERSION_ID=.19\n"},
	{"vid-empty", "ID=alpine\nVERSION_ID=\nVERSION_CODENAME=\nBUILD_ID=\n"},
	{"vid-long", "ID=cos\nVERSION_ID=" + strings.Repeat("9", 300) + "." + strings.Repeat("x", 300) + "\nVERSION=" + strings.Repeat("1.", 200) + "\n"},
	{"vid-quoted", "ID=\"arch\"\nVERSION_ID=\"rolling release 'x'\"\nBUILD_ID='a b'\n"},
	{"vid-three", "ID=alpine\nVERSION_ID=3.19.1.2-r0_alpha\n"},
	{"only-id", "ID=openwrt\n"},
	{"only-vid", "VERSION_ID=3.19\n"},
	{"only-codename", "VERSION_CODENAME=jammy\n"},
	{"id-empty", "ID=\nVERSION_ID=1.2\nVERSION_CODENAME=c\nBUILD_ID=b\n"},
}

func runLayout(scratch, variant string) string {
	return hx.Guard(func() string {
		content, ok := "", false
		for _, v := range osReleases {
			if v.name == variant {
				content, ok = v.content, true
			}
		}
		if !ok {
			return "pk=0 purls=0 byex=- types=- issues=unknown-variant bad=-"
		}
		tree, err := os.MkdirTemp(scratch, "layout")
		if err != nil {
			panic(err)
		}
		defer os.RemoveAll(tree)
		placed := map[string]bool{}
		for _, pl := range placements {
			to := filepath.Join(tree, pl.prod)
			if err := os.MkdirAll(filepath.Dir(to), 0o755); err != nil {
				continue
			}
			if pl.fixture == "" {
				_ = os.WriteFile(to, []byte("x"), 0o644)
				placed[pl.ex] = true
				continue
			}
			data, err := os.ReadFile(filepath.Join(scratch, strings.ReplaceAll(pl.ex, "/", "_"), pl.fixture))
			if err != nil {
				continue
			}
			_ = os.WriteFile(to, data, 0o644)
			placed[pl.ex] = true
		}
		if content != "" {
			_ = os.MkdirAll(filepath.Join(tree, "etc"), 0o755)
			_ = os.WriteFile(filepath.Join(tree, "etc/os-release"), []byte(content), 0o644)
		}
		// the real walk with fresh instances of every built-in filesystem extractor
		var exs []filesystem.Extractor
		var names []string
		for n := range el.All {
			names = append(names, n)
		}
		sort.Strings(names)
		for _, n := range names {
			// the VERSION_ID / absent-field variants are about the OS extractors (the ones that read os-release): only those run
			osOnly := strings.HasPrefix(variant, "vid-") || strings.HasPrefix(variant, "only-") || strings.HasPrefix(variant, "id-")
			if osOnly && !strings.HasPrefix(n, "os/") {
				continue
			}
			for _, init := range el.All[n] {
				exs = append(exs, init())
			}
		}
		ctx, cancel := context.WithTimeout(context.Background(), 60*time.Second)
		defer cancel()
		inv, _, err := filesystem.Run(ctx, &filesystem.Config{Extractors: exs, ScanRoots: []*scalibrfs.ScanRoot{{FS: scalibrfs.DirFS(tree), Path: tree}}, Stats: stats.NoopCollector{}})
		is := issues{}
		if err != nil {
			is.add("walk-error")
		}
		dt := &details{}
		by := map[string][]*extractor.Package{}
		byEx := map[string]filesystem.Extractor{}
		for _, pk := range inv.Packages {
			fe, ok := pk.Extractor.(filesystem.Extractor)
			if !ok {
				is.add("foreign-extractor")
				continue
			}
			by[fe.Name()] = append(by[fe.Name()], pk)
			byEx[fe.Name()] = fe
		}
		var exNames []string
		for n := range by {
			exNames = append(exNames, n)
		}
		sort.Strings(exNames)
		purls := 0
		types := map[string]bool{}
		var byS, allPurls []string
		for _, n := range exNames {
			pkgs := by[n]
			purls += convert(byEx[n], pkgs, "", is, dt.add)
			var mut []*extractor.Package
			for i, pk := range pkgs {
				c := *pk
				c.Name = pk.Name + []string{" we ird/na:me<>&\"'%", "@scope/ü+x", "a?b#c=d"}[i%3]
				c.Version = pk.Version + []string{" 1 2#3?4", "+build~1:2", "%41/β"}[i%3]
				mut = append(mut, &c)
			}
			convert(byEx[n], mut, "mut-", is, dt.add)
			for _, pk := range pkgs {
				func() {
					defer func() { _ = recover() }()
					if u := byEx[n].ToPURL(pk); u != nil {
						types[u.Type] = true
						allPurls = append(allPurls, u.String())
					}
				}()
			}
			byS = append(byS, n+":"+strconv.Itoa(len(pkgs)))
		}
		// a placed extractor that yields nothing means the layout table drifted from the extractor's FileRequired
		var pn []string
		for n := range placed {
			pn = append(pn, n)
		}
		sort.Strings(pn)
		for _, n := range pn {
			if len(by[n]) == 0 && !layoutMayBeEmpty[n] {
				is.add("layout-empty:%s", n)
			}
		}
		var ts []string
		for t := range types {
			ts = append(ts, t)
		}
		sort.Strings(ts)
		// fingerprint + one example, so that the evidence shows the os-release variant really reaches the purls
		sort.Strings(allPurls)
		sum := sha1.Sum([]byte(strings.Join(allPurls, "\n")))
		sample := ""
		for _, p := range allPurls {
			if strings.HasPrefix(p, "pkg:opkg/") {
				sample = p
				break
			}
		}
		return fmt.Sprintf("pk=%d purls=%d byex=%s types=%s issues=%s bad=%s drop=%s purlsum=%x sample=%s", len(inv.Packages), purls, hx.Join(byS, ","), hx.Join(ts, ","), issuesStr(is), dt.str(), droppedStr(), sum[:4], hx.Hex(sample))
	})
}

// layoutMayBeEmpty: extractors whose placement is best-effort (filled in after looking at what they need)
var layoutMayBeEmpty = map[string]bool{"os/kernel/vmlinuz": true} // its fixtures yield no package in a plain extraction either

// ---------------------------------------------------------------- accepted types, at run time

func runAccept(typ string) string {
	return hx.Guard(func() string {
		// several well-formed shapes: packageurl-go has type-specific rules (conan wants a channel qualifier with a
		// namespace, …) that are not the subject here; the type is accepted when some shape goes through, and "type"
		// is reported when the library's own type test (purl.validType) is what refuses it
		typeRefused, parsed := false, false
		try := func(s string) (purl.PackageURL, bool) {
			v, err := purl.FromString(s)
			if err == nil {
				return v, true
			}
			if strings.Contains(err.Error(), "invalid PURL type") {
				typeRefused = true
			}
			return v, false
		}
		var good []purl.PackageURL
		acc := false
		for _, s := range []string{"pkg:" + typ + "/ns/name@1.0", "pkg:" + typ + "/name@1.0", "pkg:" + typ + "/name"} {
			if v, ok := try(s); ok {
				acc, parsed = true, true
				good = append(good, v)
			}
		}
		accs := false
		for _, u := range []purl.PackageURL{
			{Type: typ, Namespace: "ns", Name: "name", Version: "1.0", Qualifiers: purl.QualifiersFromMap(map[string]string{"arch": "x86 64", "distro": "d-1"})},
			{Type: typ, Name: "name", Version: "1.0", Qualifiers: purl.QualifiersFromMap(map[string]string{"arch": "x86 64"})},
			{Type: typ, Name: "name", Version: "1.0"},
		} {
			if v, ok := try(u.String()); ok {
				accs, parsed = true, true
				good = append(good, v)
			}
		}
		idem := len(good) > 0
		for _, v := range good {
			p := v.String()
			w, err := purl.FromString(p)
			if err != nil || w.String() != p {
				idem = false
			}
		}
		why := "-"
		if !acc || !accs {
			why = "parse"
			if typeRefused && !parsed {
				why = "type"
			}
		}
		return fmt.Sprintf("acc=%s accs=%s idem=%s why=%s", hx.B(acc), hx.B(accs), hx.B(idem), why)
	})
}

func issuesStr(is issues) string {
	var o []string
	for k := range is {
		o = append(o, k)
	}
	sort.Strings(o)
	return hx.Join(o, ",")
}

// fixtures copies every built-in filesystem extractor's testdata into scratch and lists the files.
func fixtures(scratch string) (map[string]filesystem.Extractor, []fixture) {
	exs := map[string]filesystem.Extractor{}
	var out []fixture
	var names []string
	for n := range el.All {
		names = append(names, n)
	}
	sort.Strings(names)
	for _, n := range names {
		for _, init := range el.All[n] {
			e := init()
			exs[e.Name()] = e
			tp := reflect.TypeOf(e)
			if tp.Kind() == reflect.Ptr {
				tp = tp.Elem()
			}
			rel := strings.TrimPrefix(tp.PkgPath(), "github.com/google/osv-scalibr/")
			src := filepath.Join("/repo", rel, "testdata")
			if _, err := os.Stat(src); err != nil {
				continue
			}
			dst := filepath.Join(scratch, strings.ReplaceAll(e.Name(), "/", "_"))
			if err := copyTree(src, dst); err != nil {
				continue
			}
			var rels []string
			_ = filepath.WalkDir(dst, func(p string, d fs.DirEntry, err error) error {
				if err == nil && !d.IsDir() {
					r, _ := filepath.Rel(dst, p)
					rels = append(rels, r)
				}
				return nil
			})
			sort.Strings(rels)
			for _, r := range rels {
				out = append(out, fixture{e, dst, r})
			}
		}
	}
	return exs, out
}

var typePool = []string{"pypi", "deb", "npm", "", "PyPI", "golang"}
var namePool = []string{"a", "b", "requests", "", "A", "we ird/na:me"}

func randIndex(r *rand.Rand) []purlMeta {
	var out []purlMeta
	for n := r.Intn(9); n > 0; n-- {
		if r.Intn(5) == 0 {
			out = append(out, purlMeta{})
		} else {
			out = append(out, purlMeta{true, typePool[r.Intn(2+r.Intn(5))], namePool[r.Intn(2+r.Intn(5))]})
		}
	}
	return out
}

func main() {
	typesFile := flag.String("types", "", "file with lines `e <type> <origin>` / `c <type> <const name>`: purl types to push through purl.FromString")
	o := hx.Parse()
	out := hx.NewOut()
	defer out.Flush()
	scratch, err := os.MkdirTemp("", "c14harvest")
	if err != nil {
		panic(err)
	}
	defer os.RemoveAll(scratch)
	exs, fx := fixtures(scratch)
	byKey := map[string]fixture{}
	for _, f := range fx {
		byKey[f.ex.Name()+"\x00"+f.rel] = f
	}
	initMeta()
	cfgByName := configurableByName()
	if o.Replay != "" {
		// metadata types that only occur in the harvest get their sample from a silent pre-pass
		for _, f := range fx {
			runHarvest(f, nil)
		}
		for _, l := range hx.ReplayLines(o.Replay) {
			t := strings.Split(l, " ")
			switch t[0] {
			case "purlrt":
				if len(t) != 4 {
					out.Emit(l, "bad-op")
					continue
				}
				out.Emit(l, runPurlRT(hx.UnHex(t[1]), t[2], hx.UnHex(t[3])))
			case "proto":
				out.Emit(l, hx.Guard(func() string { return runProto(parseProto(l)) }))
			case "index":
				out.Emit(l, runIndex(parsePkgs(t[1])))
			case "harvest":
				f, ok := byKey[hx.UnHex(t[1])+"\x00"+hx.UnHex(t[2])]
				if !ok {
					out.Emit(l, "pk=0 purls=0 issues=fixture-missing")
					continue
				}
				out.Emit(l, runHarvest(f, nil))
			case "layout":
				out.Emit(l, runLayout(scratch, hx.UnHex(t[1])))
			case "boundary":
				f, ok := byKey[hx.UnHex(t[1])+"\x00"+hx.UnHex(t[2])]
				if !ok || len(t) != 4 {
					out.Emit(l, "hit=0 pk=0 purls=0 issues=fixture-missing bad=- drop=-")
					continue
				}
				out.Emit(l, runBoundary(f, hx.UnHex(t[3])))
			case "accept":
				out.Emit(l, runAccept(hx.UnHex(t[2])))
			case "result":
				out.Emit(l, runResult(t[1:]))
			case "pfile":
				if len(t) != 2 {
					out.Emit(l, "bad-op")
					continue
				}
				out.Emit(l, runPfile(scratch, hx.UnHex(t[1])))
			case "pwerr":
				if len(t) != 2 {
					out.Emit(l, "bad-op")
					continue
				}
				out.Emit(l, runPwerr(scratch, t[1]))
			case "reach":
				if len(t) != 2 {
					out.Emit(l, "bad-op")
					continue
				}
				out.Emit(l, runReach(exs, t[1]))
			case "wfmt":
				if len(t) != 2 {
					out.Emit(l, "bad-op")
					continue
				}
				out.Emit(l, runWfmt(scratch, hx.UnHex(t[1])))
			case "harvestv", "boundaryv":
				f, ok := byKey[hx.UnHex(t[1])+"\x00"+hx.UnHex(t[3])]
				ce, ok2 := cfgByName[hx.UnHex(t[1])]
				if !ok || !ok2 || (t[0] == "harvestv" && len(t) != 4) || (t[0] == "boundaryv" && len(t) != 5) {
					out.Emit(l, "pk=0 purls=0 issues=fixture-missing bad=- drop=-")
					continue
				}
				vex := buildVariant(ce, hx.UnHex(t[2]))
				if vex == nil {
					out.Emit(l, "pk=0 purls=0 issues=variant-missing bad=- drop=-")
					continue
				}
				if t[0] == "harvestv" {
					out.Emit(l, runHarvest(fixture{vex, f.dir, f.rel}, nil))
				} else {
					out.Emit(l, runBoundary(fixture{vex, f.dir, f.rel}, hx.UnHex(t[4])))
				}
			case "jsonmut":
				f, ok := byKey[hx.UnHex(t[1])+"\x00"+hx.UnHex(t[2])]
				if !ok || len(t) != 4 {
					out.Emit(l, "hit=0 pk=0 purls=0 issues=fixture-missing bad=- drop=-")
					continue
				}
				out.Emit(l, runJSONMut(f, hx.UnHex(t[3])))
			case "fname":
				if len(t) != 3 {
					out.Emit(l, "bad-op")
					continue
				}
				out.Emit(l, runFname(scratch, exs, t[1], hx.UnHex(t[2])))
			default:
				out.Emit(l, "bad-op")
			}
		}
		return
	}
	// the accepted-type probe first (the most direct witness), then the production layout, then every fixture
	if *typesFile != "" {
		data, err := os.ReadFile(*typesFile)
		if err != nil {
			panic(err)
		}
		for _, ln := range strings.Split(string(data), "\n") {
			t := strings.SplitN(ln, " ", 3)
			if len(t) != 3 || (t[0] != "e" && t[0] != "c") {
				continue
			}
			l := "accept " + t[0] + " " + hx.Hex(t[1]) + " " + hx.Hex(t[2])
			out.Emit(l, runAccept(t[1]))
			if t[0] == "e" {
				for _, f := range purlFields {
					for _, b := range nastyBits {
						l := "purlrt " + hx.Hex(t[1]) + " " + f + " " + hx.Hex("a"+b+"b")
						out.Emit(l, runPurlRT(t[1], f, "a"+b+"b"))
					}
				}
			}
		}
	}
	// negative probes: a type that is not declared must be REJECTED by purl.FromString (the type is lower-cased by the parser first)
	for _, typ := range []string{"nosuch", "debx", "de", "x", "maven2", "DEB", "Deb", "pkg", "g0lang"} {
		out.Emit("accept n "+hx.Hex(typ)+" "+hx.Hex("negative probe"), runAccept(typ))
	}
	for _, v := range osReleases {
		l := "layout " + hx.Hex(v.name)
		out.Emit(l, runLayout(scratch, v.name))
	}
	// every fixture of every built-in filesystem extractor, in both tiers
	var protoCases []protoCase
	emitProto = func(c protoCase) { protoCases = append(protoCases, c) }
	for _, f := range fx {
		var idx [][]purlMeta
		l := "harvest " + hx.Hex(f.ex.Name()) + " " + hx.Hex(f.rel)
		hr := runHarvest(f, func(ms []purlMeta) { idx = append(idx, ms) })
		if !strings.HasPrefix(hr, "pk=0 ") {
			yields[f.ex.Name()+"\x00"+f.rel] = true
		}
		out.Emit(l, hr)
		for _, ms := range idx {
			out.Emit("index "+pkgsStr(ms), runIndex(ms))
		}
	}
	emitProto = nil
	// names at the syntax boundary, substituted into up to 3 package-yielding fixtures of every extractor
	perEx := map[string]int{}
	for _, f := range fx {
		if !yields[f.ex.Name()+"\x00"+f.rel] || perEx[f.ex.Name()] >= 3 {
			continue
		}
		perEx[f.ex.Name()]++
		for _, sh := range boundaryShapes {
			l := "boundary " + hx.Hex(f.ex.Name()) + " " + hx.Hex(f.rel) + " " + hx.Hex(sh)
			out.Emit(l, runBoundary(f, sh))
		}
	}
	// completeness of the harvest's extractor set against the public selection API
	for _, k := range reachKinds {
		out.Emit("reach "+k, runReach(exs, k))
	}
	// structural boundary documents (member deleted / key emptied / string emptied) for up to 2 package-yielding JSON fixtures per extractor
	perExJ := map[string]int{}
	for _, f := range fx {
		if !yields[f.ex.Name()+"\x00"+f.rel] || perExJ[f.ex.Name()] >= 2 {
			continue
		}
		cs := jsonMutCases(f, 70)
		if len(cs) == 0 {
			continue
		}
		perExJ[f.ex.Name()]++
		for _, c := range cs {
			out.Emit("jsonmut "+hx.Hex(f.ex.Name())+" "+hx.Hex(f.rel)+" "+hx.Hex(c), runJSONMut(f, c))
		}
	}
	// non-default options: every Config field switched, over all fixtures of the extractor and the boundary names
	perExV := map[string]int{}
	for _, f := range fx {
		ce, ok := cfgByName[f.ex.Name()]
		if !ok {
			continue
		}
		for _, v := range variantsOf(ce) {
			vex := buildVariant(ce, v)
			if vex == nil {
				continue
			}
			out.Emit("harvestv "+hx.Hex(f.ex.Name())+" "+hx.Hex(v)+" "+hx.Hex(f.rel), runHarvest(fixture{vex, f.dir, f.rel}, nil))
			if yields[f.ex.Name()+"\x00"+f.rel] && perExV[f.ex.Name()+v] < 2 && !strings.Contains(v, "=1") && !strings.Contains(v, "=64") {
				perExV[f.ex.Name()+v]++
				for _, sh := range boundaryShapes {
					out.Emit("boundaryv "+hx.Hex(f.ex.Name())+" "+hx.Hex(v)+" "+hx.Hex(f.rel)+" "+hx.Hex(sh), runBoundary(fixture{vex, f.dir, f.rel}, sh))
				}
			}
		}
	}
	// identities derived from file / directory names (jar file names, nix store directories, homebrew cellar directories)
	for _, k := range fnameKinds {
		for _, c := range fnameCases[k] {
			out.Emit("fname "+k+" "+hx.Hex(c), runFname(scratch, exs, k, c))
		}
	}
	seen := map[string]bool{}
	for _, c := range protoCases {
		if l := c.line(); !seen[l] {
			seen[l] = true
			out.Emit(l, runProto(parseProto(l)))
		}
	}
	// every metadata sample once, with and without purl / layer details
	for _, mn := range metaNames {
		for k := 0; k < 2; k++ {
			c := protoCase{name: "n", version: "1", locs: []string{"b", "a"}, eco: "Eco", ex: "ex/x", meta: mn}
			if k == 1 {
				c.u = &purl.PackageURL{Type: "deb", Namespace: "debian", Name: "n", Version: "1", Qualifiers: purl.Qualifiers{{Key: "distro", Value: "x y"}, {Key: "arch", Value: "z"}}, Subpath: "s/p"}
				c.layer = &extractor.LayerDetails{Index: 2, DiffID: "sha256:x", Command: "RUN a", InBaseImage: true}
				c.src = &extractor.SourceCodeIdentifier{Repo: "r", Commit: "c"}
				c.anns = []extractor.Annotation{1, 2, 3, 0, 9}
			}
			l := c.line()
			out.Emit(l, runProto(parseProto(l)))
		}
	}
	// the rest of the result proto: statuses, findings, file names
	for _, l := range fixedResults() {
		out.Emit(l, runResult(strings.Split(l, " ")[1:]))
	}
	for _, n := range pfileNames {
		out.Emit("pfile "+hx.Hex(n), runPfile(scratch, n))
	}
	for _, f := range wfmtFormats {
		out.Emit("wfmt "+hx.Hex(f), runWfmt(scratch, f))
	}
	for _, v := range pwerrVariants {
		out.Emit("pwerr "+v, runPwerr(scratch, v))
	}
	r := hx.Rng(o)
	rg := resGen{r: r}
	for i := 0; i < o.N; i++ {
		if i%6 == 5 {
			l := rg.result()
			out.Emit(l, runResult(strings.Split(l, " ")[1:]))
			continue
		}
		if i%3 == 2 {
			l := randProto(r).line()
			out.Emit(l, runProto(parseProto(l)))
			continue
		}
		ms := randIndex(r)
		out.Emit("index "+pkgsStr(ms), runIndex(ms))
	}
}
