// c18gen: correspondence stream for C18 (vulns.IsAffected vs Scalibr.Vulns.isAffected).
// Case grammar (see lean/Drivers/C18.lean):
//
//	isaff <pkgEco> <pkgName> <pkgVersion> <nAffected> { <eco> <name> <versions|-> <nRanges> { <E|S|O> <events|-> } }
//
// Streams: untied well-formed lists (wfEvents), well-formed lists WITH events sharing a version (tieEvents: single-version
// intervals {introduced X, last_affected X}, adjacent intervals {fixed X, introduced X}, all three on one version; listed in
// natural order, reversed, shuffled, with every tie group reversed = the closing event first, with the tied events spelled
// differently, and with more than 12 events so that slices.SortFunc is not the stable insertion sort), near-ties (a
// well-formed tied list with one kind changed) and arbitrary lists; queries at, just below and just above a tied version.
// -tier thorough first enumerates EVERY well-formed list of length <= 5 over 7 ranks, tied ones in every listing order.
//
// Second entry point (match.go): `match …` cases run the real remediation.MatchVuln on a record whose affected[] entries carry
// their own severities, so that the entry vulns.IsAffected selects for the vulnerable package of each subgraph decides the
// score and with it the filter's answer; the answer is also taken at a fixed profile of thresholds (prof=) so that the selected
// score itself is observable. `vkpkg …` cases observe vulns.VKToPackage and its mock extractor.
//
//	match <minSeverity*100> <maxDepth> <devDeps> <devOnly> <ignoreIds|-> <id> <aliases|-> <topSev|-> <nSub> { <eco> <name> <version> <rootDistance> }
//	      <nAffected> { <eco> <name> <versions|-> <sev|-> <nRanges> { <E|S|O> <events|-> } }
//	vkpkg <system> <hex name> <hex version>
package main

import (
	"fmt"
	"math"
	"math/rand"
	"os"
	"strconv"
	"strings"

	"deps.dev/util/resolve"
	"github.com/google/osv-scalibr/guidedremediation"
	"github.com/google/osv-scalibr/guidedremediation/options"
	"github.com/ossf/osv-schema/bindings/go/osvschema"

	"verif/harness/hx"
)

// rank → version string, strictly increasing in each ecosystem's own order (checked at start-up
// with the comparator the implementation uses). Rank 0 is the literal "0".
var versions = map[int][]string{
	// rank 1 is a real version that the ecosystem orders BELOW the literal "0" (a pre-release of zero):
	// the OSV rule "introduced 0 precedes every version" must hold for it too.
	0: {"0", "0.0.0-alpha", "1.0.0-alpha.1", "1.0.0-rc.1", "1.0.0", "1.0.1", "1.1.0", "1.2.0", "1.10.0", "2.0.0-beta", "2.0.0", "2.1.0", "3.0.0", "10.0.0"},
	1: {"0", "0-alpha-1", "1.0-beta-1", "1.0-rc1", "1.0", "1.0.1", "1.1", "1.2", "1.10", "2.0-rc1", "2.0", "2.1", "3.0", "10.0"},
	2: {"0", "0.dev1", "1.0a1", "1.0rc1", "1.0", "1.0.post1", "1.1", "1.2", "1.10", "2.0b1", "2.0", "2.1", "3.0", "10.0"},
}
var systems = map[int]resolve.System{0: resolve.NPM, 1: resolve.Maven, 2: resolve.PyPI, 3: resolve.UnknownSystem}
var ecoNames = map[int]string{0: "npm", 1: "Maven", 2: "PyPI", 3: "crates.io"}
var pkgNames = map[int]map[int]string{0: {0: "p", 1: "q"}, 1: {0: "g:p", 1: "g:q"}, 2: {0: "p", 1: "q"}, 3: {0: "p", 1: "q"}}

const maxRank = 13

// alt[eco][rank] = another SPELLING of the same rank (compares equal under the ecosystem's order, different string):
// found at start-up among the candidates below and verified with the comparator the implementation uses. A version
// token v of a case line is rank + 100*s; s = 1 selects the alternative spelling. Ranges compare versions (rank
// matters), the explicit `versions` list is matched by string (spelling matters).
var alt = map[int]map[int]string{0: {}, 1: {}, 2: {}}
var altCandidates = map[int]func(string) []string{
	0: func(v string) []string { return []string{v + "+b1", "v" + v, "=" + v} },
	1: func(v string) []string {
		return []string{v + ".0", v + "-ga", v + ".0.0", strings.Replace(v, "-rc", "-cr", 1), strings.Replace(v, "-beta-", "-b", 1), strings.Replace(v, "-alpha-", "-a", 1)}
	},
	2: func(v string) []string {
		return []string{v + ".0", strings.Replace(v, "rc", "c", 1), strings.Replace(v, "a1", "alpha1", 1), strings.Replace(v, "b1", "beta1", 1), strings.Replace(v, ".post1", "-1", 1), strings.Replace(v, ".dev1", ".0.dev1", 1), "v" + v}
	},
}

func spell(eco, id int) string {
	tab := versions[eco%3]
	if id >= 100 {
		if a, ok := alt[eco%3][id%100]; ok {
			return a
		}
	}
	return tab[id%100]
}

// pick turns a rank into a version token, sometimes choosing the alternative spelling
func pick(r *rand.Rand, eco, rank int) int {
	if _, ok := alt[eco%3][rank]; ok && r.Intn(4) == 0 {
		return rank + 100
	}
	return rank
}

type ev struct {
	k byte // i f l
	v int
}
type rng struct {
	typ byte
	evs []ev
}
type aff struct {
	eco, name int
	vers      []int
	ranges    []rng
}
type tcase struct {
	peco, pname, pver int
	affs              []aff
}

func (c tcase) line() string {
	var sb strings.Builder
	fmt.Fprintf(&sb, "isaff %d %d %d %d", c.peco, c.pname, c.pver, len(c.affs))
	for _, a := range c.affs {
		vs := make([]string, len(a.vers))
		for i, v := range a.vers {
			vs[i] = strconv.Itoa(v)
		}
		fmt.Fprintf(&sb, " %d %d %s %d", a.eco, a.name, hx.Join(vs, "."), len(a.ranges))
		for _, r := range a.ranges {
			es := make([]string, len(r.evs))
			for i, e := range r.evs {
				es[i] = fmt.Sprintf("%c:%d", e.k, e.v)
			}
			fmt.Fprintf(&sb, " %c %s", r.typ, hx.Join(es, ","))
		}
	}
	return sb.String()
}

func parseCase(l string) tcase {
	t := strings.Split(l, " ")
	at := func(i int) int { n, err := strconv.Atoi(t[i]); must(err); return n }
	c := tcase{peco: at(1), pname: at(2), pver: at(3)}
	na := at(4)
	i := 5
	for ; na > 0; na-- {
		a := aff{eco: at(i), name: at(i + 1)}
		if t[i+2] != "-" {
			for _, v := range strings.Split(t[i+2], ".") {
				n, err := strconv.Atoi(v)
				must(err)
				a.vers = append(a.vers, n)
			}
		}
		nr := at(i + 3)
		i += 4
		for ; nr > 0; nr-- {
			r := rng{typ: t[i][0]}
			if t[i+1] != "-" {
				for _, e := range strings.Split(t[i+1], ",") {
					kv := strings.Split(e, ":")
					n, err := strconv.Atoi(kv[1])
					must(err)
					r.evs = append(r.evs, ev{kv[0][0], n})
				}
			}
			a.ranges = append(a.ranges, r)
			i += 2
		}
		c.affs = append(c.affs, a)
	}
	return c
}

func must(err error) {
	if err != nil {
		panic(err)
	}
}

// run executes the real IsAffected.
func run(c tcase) string {
	return hx.Guard(func() string {
		// the version strings of an affected entry are those of ITS ecosystem (falling back to npm's)
		v := &osvschema.Vulnerability{ID: "X"}
		for _, a := range c.affs {
			oa := osvschema.Affected{Package: osvschema.Package{Ecosystem: ecoNames[a.eco], Name: pkgNames[a.eco][a.name]}}
			for _, x := range a.vers {
				oa.Versions = append(oa.Versions, spell(a.eco, x))
			}
			for _, r := range a.ranges {
				or := osvschema.Range{Type: map[byte]osvschema.RangeType{'E': "ECOSYSTEM", 'S': "SEMVER", 'O': "GIT"}[r.typ]}
				for _, e := range r.evs {
					switch e.k {
					case 'i':
						or.Events = append(or.Events, osvschema.Event{Introduced: spell(a.eco, e.v)})
					case 'f':
						or.Events = append(or.Events, osvschema.Event{Fixed: spell(a.eco, e.v)})
					case 'l':
						or.Events = append(or.Events, osvschema.Event{LastAffected: spell(a.eco, e.v)})
					}
				}
				oa.Ranges = append(oa.Ranges, or)
			}
			v.Affected = append(v.Affected, oa)
		}
		got := guidedremediation.VerifIsAffected(v, systems[c.peco], pkgNames[c.peco][c.pname], spell(c.peco, c.pver))
		return "aff=" + hx.B(got)
	})
}

// wfEvents: k events with distinct versions, alternating kinds starting with introduced, shuffled.
func wfEvents(r *rand.Rand, k int) []ev {
	perm := r.Perm(maxRank + 1) // ranks 0..13
	vs := append([]int{}, perm[:k]...)
	// sort
	for i := range vs {
		for j := i + 1; j < len(vs); j++ {
			if vs[j] < vs[i] {
				vs[i], vs[j] = vs[j], vs[i]
			}
		}
	}
	es := make([]ev, k)
	for i, v := range vs {
		kind := byte('i')
		if i%2 == 1 {
			kind = "fl"[r.Intn(2)]
		}
		if v == 0 && kind != 'i' { // "0" is only ever an introduced version
			v = 1
		}
		es[i] = ev{kind, v}
	}
	// a clash produced by the v==0 fix-up makes the list ill-formed; that is fine (the model tells)
	r.Shuffle(len(es), func(i, j int) { es[i], es[j] = es[j], es[i] })
	return es
}

// tieEvents builds a well-formed list IN (version, kind) ORDER whose intervals touch: each interval is opened on the
// version on which the previous one was closed by `fixed` (adjacent intervals) with probability 1/2, and closed on the
// very version that opens it by `last_affected` (single-version interval) with probability 1/2. want = number of events
// aimed at (the 14 ranks bound it by 28). "0" is only ever an introduced version and never tied.
func tieEvents(r *rand.Rand, want int) []ev {
	var es []ev
	next := r.Intn(3) // lowest rank the next `introduced` may take
	adjacent := false // the previous interval was closed by `fixed` on rank next
	for len(es) < want {
		v := next
		if !(adjacent && r.Intn(2) == 0) {
			if adjacent {
				v++
			}
			if want <= 6 {
				v += r.Intn(3)
			} else if r.Intn(4) == 0 {
				v++
			}
		}
		if v > maxRank {
			break
		}
		es = append(es, ev{'i', v})
		if len(es) >= want && r.Intn(2) == 0 {
			break // the last interval stays open
		}
		switch {
		case v != 0 && r.Intn(2) == 0: // exactly the version v
			es = append(es, ev{'l', v})
			next, adjacent = v+1, false
		default:
			c := v + 1
			if want <= 6 {
				c += r.Intn(3)
			}
			if c > maxRank {
				return es
			}
			if r.Intn(3) > 0 {
				es = append(es, ev{'f', c})
				next, adjacent = c, true
			} else {
				es = append(es, ev{'l', c})
				next, adjacent = c+1, false
			}
		}
	}
	return es
}

// relist returns the (version, kind)-ordered list in one of the listing orders a record may use.
func relist(r *rand.Rand, sorted []ev, how int) []ev {
	es := append([]ev{}, sorted...)
	switch how {
	case 0: // natural
	case 1: // reversed
		for i, j := 0, len(es)-1; i < j; i, j = i+1, j-1 {
			es[i], es[j] = es[j], es[i]
		}
	case 2: // every group of events on one version reversed: the closing event of a single-version interval first,
		// the opening of the next interval before the `fixed` of the previous one
		for i := 0; i < len(es); {
			j := i
			for j < len(es) && es[j].v == es[i].v {
				j++
			}
			for a, b := i, j-1; a < b; a, b = a+1, b-1 {
				es[a], es[b] = es[b], es[a]
			}
			i = j
		}
	case 3: // all closing events first, then all openings
		var cl, op []ev
		for _, e := range es {
			if e.k == 'i' {
				op = append(op, e)
			} else {
				cl = append(cl, e)
			}
		}
		es = append(cl, op...)
	default:
		r.Shuffle(len(es), func(i, j int) { es[i], es[j] = es[j], es[i] })
	}
	return es
}

// spellTies gives the events of one tie group different spellings where the ecosystem has two for that rank.
func spellTies(r *rand.Rand, eco int, es []ev) {
	for i := range es {
		if es[i].v == 0 || es[i].v >= 100 {
			continue
		}
		if _, ok := alt[eco%3][es[i].v]; !ok {
			continue
		}
		tied := false
		for j := range es {
			if j != i && es[j].v%100 == es[i].v {
				tied = true
			}
		}
		if tied && r.Intn(3) == 0 {
			es[i].v += 100
		}
	}
}

// tiedRanks lists the ranks on which two events of the list sit.
func tiedRanks(es []ev) []int {
	var out []int
	for i := range es {
		for j := i + 1; j < len(es); j++ {
			if es[i].v%100 == es[j].v%100 {
				out = append(out, es[i].v%100)
			}
		}
	}
	return out
}

func randEvents(r *rand.Rand) []ev {
	n := r.Intn(6)
	span := maxRank + 1
	if r.Intn(2) == 0 { // few versions: events share them
		span = 2 + r.Intn(3)
		n = r.Intn(8)
	}
	base := r.Intn(maxRank + 2 - span)
	es := make([]ev, n)
	for i := range es {
		k := "ifl"[r.Intn(3)]
		v := base + r.Intn(span)
		if v == 0 && k != 'i' {
			v = 1 + r.Intn(maxRank)
		}
		es[i] = ev{k, v}
	}
	return es
}

// tieCase: one range with events sharing versions, queried at / just below / just above a tied version.
func tieCase(r *rand.Rand) tcase {
	c := tcase{peco: r.Intn(3), pname: 0}
	want := 2 + r.Intn(5)
	if r.Intn(5) == 0 {
		want = 13 + r.Intn(12) // slices.SortFunc leaves insertion sort above 12 elements
	}
	sorted := tieEvents(r, want)
	if r.Intn(6) == 0 && len(sorted) > 0 { // near-tie: one kind changed (mostly ill-formed; the model tells)
		i := r.Intn(len(sorted))
		if sorted[i].v != 0 {
			sorted[i].k = "ifl"[r.Intn(3)]
		}
	}
	es := relist(r, sorted, r.Intn(6))
	spellTies(r, c.peco, es)
	q := 1 + r.Intn(maxRank)
	if tr := tiedRanks(es); len(tr) > 0 && r.Intn(8) != 0 {
		q = tr[r.Intn(len(tr))] + r.Intn(3) - 1
		if q < 1 {
			q = 1
		}
		if q > maxRank {
			q = maxRank
		}
	}
	c.pver = pick(r, c.peco, q)
	a := aff{eco: c.peco, name: 0, ranges: []rng{{typ: "EEES"[r.Intn(4)], evs: es}}}
	if a.ranges[0].typ == 'S' && c.peco != 0 {
		a.ranges[0].typ = 'E'
	}
	if r.Intn(4) == 0 { // a second, untied range next to it
		a.ranges = append(a.ranges, rng{typ: 'E', evs: wfEvents(r, r.Intn(4))})
		if r.Intn(2) == 0 {
			a.ranges[0], a.ranges[1] = a.ranges[1], a.ranges[0]
		}
	}
	c.affs = []aff{a}
	return c
}

func randCase(r *rand.Rand) tcase {
	if r.Intn(3) == 0 {
		return tieCase(r)
	}
	c := tcase{peco: r.Intn(3), pname: r.Intn(2), pver: 1 + r.Intn(maxRank)}
	c.pver = pick(r, c.peco, c.pver)
	if r.Intn(25) == 0 {
		c.peco = 3
	}
	for n := 1 + r.Intn(2); n > 0; n-- {
		a := aff{eco: c.peco, name: c.pname}
		if r.Intn(5) == 0 {
			a.eco = r.Intn(4)
		}
		if r.Intn(5) == 0 {
			a.name = r.Intn(2)
		}
		for k := r.Intn(3); k > 0 && r.Intn(3) == 0; k-- {
			x := 1 + r.Intn(maxRank)
			if r.Intn(2) == 0 {
				x = c.pver % 100 // the queried rank, possibly in the OTHER spelling: listed explicitly only if the strings match
			}
			a.vers = append(a.vers, pick(r, a.eco, x))
		}
		for k := 1 + r.Intn(2); k > 0; k-- {
			rg := rng{typ: "EEESSO"[r.Intn(6)]}
			switch x := r.Intn(10); {
			case x < 5:
				rg.evs = wfEvents(r, r.Intn(6))
			case x < 7:
				rg.evs = relist(r, tieEvents(r, 2+r.Intn(5)), r.Intn(6))
			default:
				rg.evs = randEvents(r)
			}
			for i := range rg.evs {
				if rg.evs[i].v != 0 {
					rg.evs[i].v = pick(r, a.eco, rg.evs[i].v)
				}
			}
			a.ranges = append(a.ranges, rg)
		}
		c.affs = append(c.affs, a)
	}
	return c
}

func kindOrd(k byte) int { return strings.IndexByte("fil", k) }

// permutations calls f with every ordering of es (Heap's algorithm; f must copy).
func permutations(es []ev, f func([]ev)) {
	var rec func(n int)
	rec = func(n int) {
		if n <= 1 {
			f(es)
			return
		}
		for i := 0; i < n; i++ {
			rec(n - 1)
			if n%2 == 0 {
				es[i], es[n-1] = es[n-1], es[i]
			} else {
				es[0], es[n-1] = es[n-1], es[0]
			}
		}
	}
	rec(len(es))
}

// exhaustive: every well-formed event list of length ≤ 5 over the 6 even ranks (plus "0") — events strictly increasing
// in (version, kind: fixed, introduced, last_affected), so up to three of them may share a version — queried at every
// rank 1..13, for the three ecosystems. Lists without a shared version are emitted in the sorted order, reversed and
// rotated (their sorted form does not depend on the sort's stability); lists WITH a shared version in EVERY listing order.
func exhaustive(emit func(tcase)) {
	ranks := []int{0, 2, 4, 6, 8, 10, 12}
	var rec func(cur []ev)
	rec = func(cur []ev) {
		if len(cur) > 0 {
			var orders [][]ev
			if len(tiedRanks(cur)) > 0 {
				permutations(append([]ev{}, cur...), func(p []ev) { orders = append(orders, append([]ev{}, p...)) })
			} else {
				orders = [][]ev{cur}
				if len(cur) > 1 {
					rev := make([]ev, len(cur))
					for i := range cur {
						rev[len(cur)-1-i] = cur[i]
					}
					rot := append(append([]ev{}, cur[1:]...), cur[0])
					orders = append(orders, rev, rot)
				}
			}
			for _, o := range orders {
				for eco := 0; eco < 3; eco++ {
					for q := 1; q <= maxRank; q++ {
						emit(tcase{peco: eco, pname: 0, pver: q, affs: []aff{{eco: eco, name: 0, ranges: []rng{{typ: 'E', evs: append([]ev{}, o...)}}}}})
					}
				}
			}
		}
		if len(cur) == 5 {
			return
		}
		kinds := []byte{'i'}
		if len(cur)%2 == 1 {
			kinds = []byte{'f', 'l'}
		}
		for _, v := range ranks {
			for _, k := range kinds {
				if v == 0 && k != 'i' {
					continue
				}
				if n := len(cur); n > 0 && (v < cur[n-1].v || (v == cur[n-1].v && kindOrd(k) <= kindOrd(cur[n-1].k))) {
					continue
				}
				rec(append(append([]ev{}, cur...), ev{k, v}))
			}
		}
	}
	rec(nil)
}

// ---------------------------------------------------------------- match.go: MatchVuln

// sevTable: index -> severity; sevTenths = round(10 * CalculateScore) or -1000 for "error, skipped" (asserted at start-up;
// mirrored by `sevScore` in lean/Drivers/C18.lean).
var sevTable = []osvschema.Severity{
	{Type: "CVSS_V3", Score: "CVSS:3.1/AV:N/AC:L/PR:N/UI:N/S:U/C:H/I:H/A:H"},
	{Type: "CVSS_V3", Score: "CVSS:3.1/AV:N/AC:L/PR:N/UI:N/S:U/C:N/I:N/A:H"},
	{Type: "CVSS_V3", Score: "CVSS:3.0/AV:N/AC:L/PR:N/UI:R/S:C/C:L/I:L/A:N"},
	{Type: "CVSS_V3", Score: "CVSS:3.1/AV:L/AC:H/PR:L/UI:N/S:U/C:L/I:N/A:N"},
	{Type: "CVSS_V2", Score: "AV:N/AC:L/Au:N/C:P/I:P/A:P"},
	{Type: "CVSS_V4", Score: "CVSS:4.0/AV:N/AC:L/AT:N/PR:N/UI:N/VC:H/VI:H/VA:H/SC:N/SI:N/SA:N"},
	{Type: "CVSS_V3", Score: "garbage"},
	{},
	{Type: "Ubuntu", Score: "high"},
	{Type: "CVSS_V3", Score: "CVSS:3.1/AV:N/AC:L/PR:N/UI:N/S:U/C:N/I:N/A:N"},
	{Type: "CVSS_V3", Score: "CVSS:3.1/AV:N/AC:H/PR:N/UI:R/S:U/C:L/I:L/A:N"},
}
var sevTenths = []int{98, 75, 61, 25, 75, 93, -1000, -10, -1000, 0, 42}
var profile = []int{1, 250, 420, 610, 750, 930, 980, 990}

func checkSevTable() {
	for i, s := range sevTable {
		f, err := guidedremediation.VerifSeverityScore(s)
		got := int(math.Round(10 * f))
		if err != nil {
			got = -1000
		}
		if got != sevTenths[i] {
			fmt.Fprintf(os.Stderr, "severity table entry %d scores %d, the table says %d\n", i, got, sevTenths[i])
			os.Exit(2)
		}
	}
	for h := 0; h <= 1100; h++ {
		if int(math.Round(10*(float64(h)/100))) != (h+5)/10 {
			fmt.Fprintf(os.Stderr, "threshold %d/100 does not round as modelled\n", h)
			os.Exit(2)
		}
	}
}

type msub struct{ eco, name, ver, dist int }
type maff struct {
	aff
	sev []int
}
type mcase struct {
	minH, maxDepth   int
	devDeps, devOnly bool
	ignore           []int
	id               int
	aliases, top     []int
	subs             []msub
	affs             []maff
}

func ints(xs []int) string {
	ss := make([]string, len(xs))
	for i, x := range xs {
		ss[i] = strconv.Itoa(x)
	}
	return hx.Join(ss, ".")
}

func unints(s string) []int {
	if s == "-" || s == "" {
		return nil
	}
	var out []int
	for _, v := range strings.Split(s, ".") {
		n, err := strconv.Atoi(v)
		must(err)
		out = append(out, n)
	}
	return out
}

func (c mcase) line() string {
	var sb strings.Builder
	fmt.Fprintf(&sb, "match %d %d %s %s %s %d %s %s %d", c.minH, c.maxDepth, hx.B(c.devDeps), hx.B(c.devOnly), ints(c.ignore), c.id, ints(c.aliases), ints(c.top), len(c.subs))
	for _, s := range c.subs {
		fmt.Fprintf(&sb, " %d %d %d %d", s.eco, s.name, s.ver, s.dist)
	}
	fmt.Fprintf(&sb, " %d", len(c.affs))
	for _, a := range c.affs {
		fmt.Fprintf(&sb, " %d %d %s %s %d", a.eco, a.name, ints(a.vers), ints(a.sev), len(a.ranges))
		for _, r := range a.ranges {
			es := make([]string, len(r.evs))
			for i, e := range r.evs {
				es[i] = fmt.Sprintf("%c:%d", e.k, e.v)
			}
			fmt.Fprintf(&sb, " %c %s", r.typ, hx.Join(es, ","))
		}
	}
	return sb.String()
}

func parseMatch(l string) mcase {
	t := strings.Split(l, " ")
	at := func(i int) int { n, err := strconv.Atoi(t[i]); must(err); return n }
	c := mcase{minH: at(1), maxDepth: at(2), devDeps: t[3] == "1", devOnly: t[4] == "1", ignore: unints(t[5]), id: at(6), aliases: unints(t[7]), top: unints(t[8])}
	ns := at(9)
	i := 10
	for ; ns > 0; ns-- {
		c.subs = append(c.subs, msub{at(i), at(i + 1), at(i + 2), at(i + 3)})
		i += 4
	}
	na := at(i)
	i++
	for ; na > 0; na-- {
		a := maff{aff: aff{eco: at(i), name: at(i + 1), vers: unints(t[i+2])}, sev: unints(t[i+3])}
		nr := at(i + 4)
		i += 5
		for ; nr > 0; nr-- {
			r := rng{typ: t[i][0]}
			if t[i+1] != "-" {
				for _, e := range strings.Split(t[i+1], ",") {
					kv := strings.Split(e, ":")
					n, err := strconv.Atoi(kv[1])
					must(err)
					r.evs = append(r.evs, ev{kv[0][0], n})
				}
			}
			a.ranges = append(a.ranges, r)
			i += 2
		}
		c.affs = append(c.affs, a)
	}
	return c
}

func osvAffected(a aff) osvschema.Affected {
	oa := osvschema.Affected{Package: osvschema.Package{Ecosystem: ecoNames[a.eco], Name: pkgNames[a.eco][a.name]}}
	for _, x := range a.vers {
		oa.Versions = append(oa.Versions, spell(a.eco, x))
	}
	for _, r := range a.ranges {
		or := osvschema.Range{Type: map[byte]osvschema.RangeType{'E': "ECOSYSTEM", 'S': "SEMVER", 'O': "GIT"}[r.typ]}
		for _, e := range r.evs {
			switch e.k {
			case 'i':
				or.Events = append(or.Events, osvschema.Event{Introduced: spell(a.eco, e.v)})
			case 'f':
				or.Events = append(or.Events, osvschema.Event{Fixed: spell(a.eco, e.v)})
			case 'l':
				or.Events = append(or.Events, osvschema.Event{LastAffected: spell(a.eco, e.v)})
			}
		}
		oa.Ranges = append(oa.Ranges, or)
	}
	return oa
}

func sevs(ix []int) []osvschema.Severity {
	var out []osvschema.Severity
	for _, i := range ix {
		out = append(out, sevTable[i])
	}
	return out
}

func vid(n int) string { return fmt.Sprintf("V-%d", n) }

// runMatch executes the real MatchVuln, at the case's threshold and at the profile thresholds.
func runMatch(c mcase) string {
	return hx.Guard(func() string {
		v := &osvschema.Vulnerability{ID: vid(c.id), Severity: sevs(c.top)}
		for _, a := range c.aliases {
			v.Aliases = append(v.Aliases, vid(a))
		}
		for _, a := range c.affs {
			oa := osvAffected(a.aff)
			oa.Severity = sevs(a.sev)
			v.Affected = append(v.Affected, oa)
		}
		var subs []guidedremediation.VerifSubgraph
		for _, s := range c.subs {
			subs = append(subs, guidedremediation.VerifSubgraph{
				Dep:          resolve.VersionKey{PackageKey: resolve.PackageKey{System: systems[s.eco], Name: pkgNames[s.eco][s.name]}, Version: spell(s.eco, s.ver), VersionType: resolve.Concrete},
				RootDistance: s.dist,
			})
		}
		opts := options.DefaultRemediationOptions()
		opts.DevDeps = c.devDeps
		opts.MaxDepth = c.maxDepth
		for _, i := range c.ignore {
			opts.IgnoreVulns = append(opts.IgnoreVulns, vid(i))
		}
		opts.MinSeverity = float64(c.minH) / 100
		got := guidedremediation.VerifMatchVuln(opts, v, c.devOnly, subs)
		prof := ""
		for _, h := range profile {
			opts.MinSeverity = float64(h) / 100
			prof += hx.B(guidedremediation.VerifMatchVuln(opts, v, c.devOnly, subs))
		}
		return "match=" + hx.B(got) + " prof=" + prof
	})
}

// matchCase: a record for one package whose affected[] entries split its versions into branches with severities of their own
// (the usual shape of such records), plus entries for other packages / ecosystems, ill-formed and tied ranges.
func matchCase(r *rand.Rand) mcase {
	eco := r.Intn(3)
	c := mcase{maxDepth: -1, devDeps: true, id: r.Intn(6)}
	// subgraphs: the vulnerable package at one to three versions
	for n := 1 + r.Intn(3); n > 0; n-- {
		s := msub{eco: eco, name: 0, ver: pick(r, eco, 1+r.Intn(maxRank)), dist: 1 + r.Intn(4)}
		if r.Intn(12) == 0 {
			s.name = 1
		}
		if r.Intn(25) == 0 {
			s.eco = 3
		}
		c.subs = append(c.subs, s)
	}
	if r.Intn(15) == 0 {
		c.subs = nil
	}
	// affected entries
	used := []int{}
	cut := 1 + r.Intn(5)
	for n, i := 1+r.Intn(3), 0; i < n; i++ {
		a := maff{aff: aff{eco: eco, name: 0}}
		if r.Intn(6) == 0 {
			a.eco = r.Intn(4)
		}
		if r.Intn(6) == 0 {
			a.name = r.Intn(2)
		}
		rg := rng{typ: "EEES"[r.Intn(4)]}
		if r.Intn(12) == 0 {
			rg.typ = 'O'
		}
		switch x := r.Intn(10); {
		case x < 5: // branch i of the package: [cut, next)
			next := cut + 1 + r.Intn(4)
			rg.evs = []ev{{'i', cut}}
			if cut == 1 && r.Intn(2) == 0 {
				rg.evs[0].v = 0
			}
			if next <= maxRank {
				if r.Intn(3) == 0 {
					rg.evs = append(rg.evs, ev{'l', next - 1})
				} else {
					rg.evs = append(rg.evs, ev{'f', next})
				}
			}
			if r.Intn(2) == 0 {
				rg.evs[0], rg.evs[len(rg.evs)-1] = rg.evs[len(rg.evs)-1], rg.evs[0]
			}
			cut = next
			if cut > maxRank {
				cut = 1 + r.Intn(maxRank)
			}
		case x < 7:
			rg.evs = relist(r, tieEvents(r, 2+r.Intn(5)), r.Intn(6))
		case x < 9:
			rg.evs = wfEvents(r, r.Intn(6))
		default:
			rg.evs = randEvents(r)
		}
		for j := range rg.evs {
			if rg.evs[j].v != 0 {
				rg.evs[j].v = pick(r, a.eco, rg.evs[j].v)
			}
		}
		a.ranges = []rng{rg}
		if r.Intn(8) == 0 {
			a.ranges = append(a.ranges, rng{typ: 'E', evs: wfEvents(r, r.Intn(4))})
		}
		if r.Intn(8) == 0 && len(c.subs) > 0 { // explicit listing of a subgraph's version, in either spelling
			a.vers = append(a.vers, pick(r, a.eco, c.subs[r.Intn(len(c.subs))].ver%100))
		}
		for k := r.Intn(3); k > 0; k-- {
			s := r.Intn(len(sevTable))
			a.sev = append(a.sev, s)
			used = append(used, s)
		}
		c.affs = append(c.affs, a)
	}
	if r.Intn(6) == 0 {
		for k := 1 + r.Intn(2); k > 0; k-- {
			s := r.Intn(len(sevTable))
			c.top = append(c.top, s)
			used = append(used, s)
		}
	}
	// threshold: on, just below / above a score in play
	c.minH = r.Intn(1001)
	if len(used) > 0 && r.Intn(6) != 0 {
		if t := sevTenths[used[r.Intn(len(used))]]; t >= 0 {
			c.minH = 10*t + []int{-10, -5, -4, 0, 0, 4, 5, 10}[r.Intn(8)]
		}
	}
	if r.Intn(10) == 0 {
		c.minH = 0
	}
	if c.minH < 0 {
		c.minH = 0
	}
	if r.Intn(4) == 0 {
		c.maxDepth = r.Intn(6)
	}
	c.devDeps = r.Intn(5) != 0
	c.devOnly = r.Intn(5) == 0
	for k := r.Intn(3); k > 0 && r.Intn(2) == 0; k-- {
		c.aliases = append(c.aliases, r.Intn(6))
	}
	if r.Intn(5) == 0 {
		for k := 1 + r.Intn(2); k > 0; k-- {
			c.ignore = append(c.ignore, r.Intn(6))
		}
	}
	return c
}

// ---------------------------------------------------------------- vulns.go: VKToPackage and the mock extractor

var vkNames = []string{"p", "g:p", "org.example:artifact", "a:b:c", ":x", "x:", ":", "", "@scope/pkg", "Django", "grüße:ß"}

func runVk(sys int, name, ver string) string {
	return hx.Guard(func() string {
		p := guidedremediation.VerifVKToPackage(resolve.VersionKey{PackageKey: resolve.PackageKey{System: systems[sys], Name: name}, Version: ver, VersionType: resolve.Concrete})
		purl := "nil"
		if u := p.Extractor.ToPURL(p); u != nil {
			purl = u.Type + "|" + hx.Hex(u.Namespace) + "|" + hx.Hex(u.Name) + "|" + hx.Hex(u.Version)
			if u.Subpath != "" || len(u.Qualifiers) != 0 {
				purl += "|extra"
			}
		}
		req := "nil"
		if p.Extractor.Requirements() != nil {
			req = "set"
		}
		return fmt.Sprintf("eco=%s name=%s ver=%s purl=%s stubs=%s|%s|%d", hx.Hex(p.Ecosystem()), hx.Hex(p.Name), hx.Hex(p.Version), purl, hx.Hex(p.Extractor.Name()), req, p.Extractor.Version())
	})
}

func vkLine(sys int, name, ver string) string {
	return fmt.Sprintf("vkpkg %d %s %s", sys, hx.Hex(name), hx.Hex(ver))
}

func runLine(l string) string {
	switch {
	case strings.HasPrefix(l, "match "):
		return runMatch(parseMatch(l))
	case strings.HasPrefix(l, "vkpkg "):
		t := strings.Split(l, " ")
		sys, err := strconv.Atoi(t[1])
		must(err)
		return runVk(sys, hx.UnHex(t[2]), hx.UnHex(t[3]))
	}
	return run(parseCase(l))
}

func main() {
	o := hx.Parse()
	out := hx.NewOut()
	defer out.Flush()
	// sanity of the trusted assumption: rank order = ecosystem order
	for eco, tab := range versions {
		sv := systems[eco].Semver()
		for i := 1; i+1 < len(tab); i++ {
			if sv.Compare(tab[i], tab[i+1]) >= 0 {
				fmt.Fprintf(os.Stderr, "version table of ecosystem %d not increasing at %d\n", eco, i)
				os.Exit(2)
			}
		}
		if sv.Compare(tab[1], "0") >= 0 {
			fmt.Fprintf(os.Stderr, "rank 1 of ecosystem %d is not below the literal 0\n", eco)
			os.Exit(2)
		}
	}
	nalt := 0
	for eco, tab := range versions {
		sv := systems[eco].Semver()
		for rank := 1; rank < len(tab); rank++ {
			for _, cand := range altCandidates[eco](tab[rank]) {
				if cand == tab[rank] {
					continue
				}
				if _, err := sv.Parse(cand); err != nil {
					continue
				}
				if sv.Compare(cand, tab[rank]) == 0 && sv.Compare(tab[rank], cand) == 0 {
					alt[eco][rank] = cand
					nalt++
					break
				}
			}
		}
	}
	if nalt < 12 {
		fmt.Fprintf(os.Stderr, "only %d alternative spellings found: %v\n", nalt, alt)
		os.Exit(2)
	}
	checkSevTable()
	if o.Replay != "" {
		for _, l := range hx.ReplayLines(o.Replay) {
			out.Emit(l, runLine(l))
		}
		return
	}
	if o.Tier == "thorough" {
		exhaustive(func(c tcase) { out.Emit(c.line(), run(c)) })
	}
	for sys := 0; sys < 4; sys++ {
		for _, n := range vkNames {
			out.Emit(vkLine(sys, n, "1.0.0"), runVk(sys, n, "1.0.0"))
		}
	}
	r := hx.Rng(o)
	rm := rand.New(rand.NewSource(o.Seed + 7919)) // the match stream has its own source: the isaff stream of a seed stays what it was
	for i := 0; i < o.N; i++ {
		c := randCase(r)
		out.Emit(c.line(), run(c))
		if i%4 == 0 {
			m := matchCase(rm)
			out.Emit(m.line(), runMatch(m))
		}
	}
}
