// c18gen: correspondence stream for C18 (vulns.IsAffected vs Scalibr.Vulns.isAffected).
// Case grammar (see lean/Drivers/C18.lean):
//
//	isaff <pkgEco> <pkgName> <pkgVersion> <nAffected> { <eco> <name> <versions|-> <nRanges> { <E|S|O> <events|-> } }
package main

import (
	"fmt"
	"math/rand"
	"os"
	"strconv"
	"strings"

	"deps.dev/util/resolve"
	"github.com/google/osv-scalibr/guidedremediation"
	"github.com/ossf/osv-schema/bindings/go/osvschema"

	"verif/harness/hx"
)

// rank → version string, strictly increasing in each ecosystem's own order (checked at start-up
// with the comparator the implementation uses). Rank 0 is the literal "0".
var versions = map[int][]string{
	// rank 1 is a real version that the ecosystem orders BELOW the literal "0" (a pre-release of zero):
	// the OSV rule "introduced 0 precedes every version" must hold for it too.
	0: {"0", "0.0.0-alpha", "1.0.0-alpha.1", "1.0.0-rc.1", "1.0.0", "1.0.1", "1.1.0", "1.2.0", "1.10.0", "2.0.0-beta", "2.0.0", "2.1.0", "3.0.0", "10.0.0"},
	1: {"0", "0-alpha-1", "1.0-beta-1", "1.0-rc1", "1.0", "1.0.1", "1.1", "1.2", "1.10", "2.0-rc1", "2.0", "2.1", "3.0", "10.0"},
	2: {"0", "0.dev1", "1.0a1", "1.0rc1", "1.0", "1.0.post1", "1.1", "1.2", "1.10", "2.0b1", "2.0", "2.1", "3.0", "10.0"},
}
var systems = map[int]resolve.System{0: resolve.NPM, 1: resolve.Maven, 2: resolve.PyPI, 3: resolve.UnknownSystem}
var ecoNames = map[int]string{0: "npm", 1: "Maven", 2: "PyPI", 3: "crates.io"}
var pkgNames = map[int]map[int]string{0: {0: "p", 1: "q"}, 1: {0: "g:p", 1: "g:q"}, 2: {0: "p", 1: "q"}, 3: {0: "p", 1: "q"}}

const maxRank = 13

// alt[eco][rank] = another SPELLING of the same rank (compares equal under the ecosystem's order, different string):
// found at start-up among the candidates below and verified with the comparator the implementation uses. A version
// token v of a case line is rank + 100*s; s = 1 selects the alternative spelling. Ranges compare versions (rank
// matters), the explicit `versions` list is matched by string (spelling matters).
var alt = map[int]map[int]string{0: {}, 1: {}, 2: {}}
var altCandidates = map[int]func(string) []string{
	0: func(v string) []string { return []string{v + "+b1", "v" + v, "=" + v} },
	1: func(v string) []string {
		return []string{v + ".0", v + "-ga", v + ".0.0", strings.Replace(v, "-rc", "-cr", 1), strings.Replace(v, "-beta-", "-b", 1), strings.Replace(v, "-alpha-", "-a", 1)}
	},
	2: func(v string) []string {
		return []string{v + ".0", strings.Replace(v, "rc", "c", 1), strings.Replace(v, "a1", "alpha1", 1), strings.Replace(v, "b1", "beta1", 1), strings.Replace(v, ".post1", "-1", 1), strings.Replace(v, ".dev1", ".0.dev1", 1), "v" + v}
	},
}

func spell(eco, id int) string {
	tab := versions[eco%3]
	if id >= 100 {
		if a, ok := alt[eco%3][id%100]; ok {
			return a
		}
	}
	return tab[id%100]
}

// pick turns a rank into a version token, sometimes choosing the alternative spelling
func pick(r *rand.Rand, eco, rank int) int {
	if _, ok := alt[eco%3][rank]; ok && r.Intn(4) == 0 {
		return rank + 100
	}
	return rank
}

type ev struct {
	k byte // i f l
	v int
}
type rng struct {
	typ byte
	evs []ev
}
type aff struct {
	eco, name int
	vers      []int
	ranges    []rng
}
type tcase struct {
	peco, pname, pver int
	affs              []aff
}

func (c tcase) line() string {
	var sb strings.Builder
	fmt.Fprintf(&sb, "isaff %d %d %d %d", c.peco, c.pname, c.pver, len(c.affs))
	for _, a := range c.affs {
		vs := make([]string, len(a.vers))
		for i, v := range a.vers {
			vs[i] = strconv.Itoa(v)
		}
		fmt.Fprintf(&sb, " %d %d %s %d", a.eco, a.name, hx.Join(vs, "."), len(a.ranges))
		for _, r := range a.ranges {
			es := make([]string, len(r.evs))
			for i, e := range r.evs {
				es[i] = fmt.Sprintf("%c:%d", e.k, e.v)
			}
			fmt.Fprintf(&sb, " %c %s", r.typ, hx.Join(es, ","))
		}
	}
	return sb.String()
}

func parseCase(l string) tcase {
	t := strings.Split(l, " ")
	at := func(i int) int { n, err := strconv.Atoi(t[i]); must(err); return n }
	c := tcase{peco: at(1), pname: at(2), pver: at(3)}
	na := at(4)
	i := 5
	for ; na > 0; na-- {
		a := aff{eco: at(i), name: at(i + 1)}
		if t[i+2] != "-" {
			for _, v := range strings.Split(t[i+2], ".") {
				n, err := strconv.Atoi(v)
				must(err)
				a.vers = append(a.vers, n)
			}
		}
		nr := at(i + 3)
		i += 4
		for ; nr > 0; nr-- {
			r := rng{typ: t[i][0]}
			if t[i+1] != "-" {
				for _, e := range strings.Split(t[i+1], ",") {
					kv := strings.Split(e, ":")
					n, err := strconv.Atoi(kv[1])
					must(err)
					r.evs = append(r.evs, ev{kv[0][0], n})
				}
			}
			a.ranges = append(a.ranges, r)
			i += 2
		}
		c.affs = append(c.affs, a)
	}
	return c
}

func must(err error) {
	if err != nil {
		panic(err)
	}
}

// run executes the real IsAffected.
func run(c tcase) string {
	return hx.Guard(func() string {
		// the version strings of an affected entry are those of ITS ecosystem (falling back to npm's)
		v := &osvschema.Vulnerability{ID: "X"}
		for _, a := range c.affs {
			oa := osvschema.Affected{Package: osvschema.Package{Ecosystem: ecoNames[a.eco], Name: pkgNames[a.eco][a.name]}}
			for _, x := range a.vers {
				oa.Versions = append(oa.Versions, spell(a.eco, x))
			}
			for _, r := range a.ranges {
				or := osvschema.Range{Type: map[byte]osvschema.RangeType{'E': "ECOSYSTEM", 'S': "SEMVER", 'O': "GIT"}[r.typ]}
				for _, e := range r.evs {
					switch e.k {
					case 'i':
						or.Events = append(or.Events, osvschema.Event{Introduced: spell(a.eco, e.v)})
					case 'f':
						or.Events = append(or.Events, osvschema.Event{Fixed: spell(a.eco, e.v)})
					case 'l':
						or.Events = append(or.Events, osvschema.Event{LastAffected: spell(a.eco, e.v)})
					}
				}
				oa.Ranges = append(oa.Ranges, or)
			}
			v.Affected = append(v.Affected, oa)
		}
		got := guidedremediation.VerifIsAffected(v, systems[c.peco], pkgNames[c.peco][c.pname], spell(c.peco, c.pver))
		return "aff=" + hx.B(got)
	})
}

// wfEvents: k events with distinct versions, alternating kinds starting with introduced, shuffled.
func wfEvents(r *rand.Rand, k int) []ev {
	perm := r.Perm(maxRank + 1) // ranks 0..13
	vs := append([]int{}, perm[:k]...)
	// sort
	for i := range vs {
		for j := i + 1; j < len(vs); j++ {
			if vs[j] < vs[i] {
				vs[i], vs[j] = vs[j], vs[i]
			}
		}
	}
	es := make([]ev, k)
	for i, v := range vs {
		kind := byte('i')
		if i%2 == 1 {
			kind = "fl"[r.Intn(2)]
		}
		if v == 0 && kind != 'i' { // "0" is only ever an introduced version
			v = 1
		}
		es[i] = ev{kind, v}
	}
	// a clash produced by the v==0 fix-up makes the list ill-formed; that is fine (the model tells)
	r.Shuffle(len(es), func(i, j int) { es[i], es[j] = es[j], es[i] })
	return es
}

func randEvents(r *rand.Rand) []ev {
	n := r.Intn(6)
	es := make([]ev, n)
	for i := range es {
		k := "ifl"[r.Intn(3)]
		v := r.Intn(maxRank + 1)
		if v == 0 && k != 'i' {
			v = 1 + r.Intn(maxRank)
		}
		es[i] = ev{k, v}
	}
	return es
}

func randCase(r *rand.Rand) tcase {
	c := tcase{peco: r.Intn(3), pname: r.Intn(2), pver: 1 + r.Intn(maxRank)}
	c.pver = pick(r, c.peco, c.pver)
	if r.Intn(25) == 0 {
		c.peco = 3
	}
	for n := 1 + r.Intn(2); n > 0; n-- {
		a := aff{eco: c.peco, name: c.pname}
		if r.Intn(5) == 0 {
			a.eco = r.Intn(4)
		}
		if r.Intn(5) == 0 {
			a.name = r.Intn(2)
		}
		for k := r.Intn(3); k > 0 && r.Intn(3) == 0; k-- {
			x := 1 + r.Intn(maxRank)
			if r.Intn(2) == 0 {
				x = c.pver % 100 // the queried rank, possibly in the OTHER spelling: listed explicitly only if the strings match
			}
			a.vers = append(a.vers, pick(r, a.eco, x))
		}
		for k := 1 + r.Intn(2); k > 0; k-- {
			rg := rng{typ: "EEESSO"[r.Intn(6)]}
			if r.Intn(10) < 7 {
				rg.evs = wfEvents(r, r.Intn(6))
			} else {
				rg.evs = randEvents(r)
			}
			for i := range rg.evs {
				if rg.evs[i].v != 0 {
					rg.evs[i].v = pick(r, a.eco, rg.evs[i].v)
				}
			}
			a.ranges = append(a.ranges, rg)
		}
		c.affs = append(c.affs, a)
	}
	return c
}

// exhaustive: every well-formed event list of length ≤ 5 over the 6 even ranks (plus "0"), in the
// sorted order and in two rotations/reversal, queried at every rank 1..13, for the three ecosystems.
func exhaustive(emit func(tcase)) {
	ranks := []int{0, 2, 4, 6, 8, 10, 12}
	var rec func(start int, cur []ev)
	rec = func(start int, cur []ev) {
		if len(cur) > 0 {
			orders := [][]ev{cur}
			if len(cur) > 1 {
				rev := make([]ev, len(cur))
				for i := range cur {
					rev[len(cur)-1-i] = cur[i]
				}
				rot := append(append([]ev{}, cur[1:]...), cur[0])
				orders = append(orders, rev, rot)
			}
			for _, o := range orders {
				for eco := 0; eco < 3; eco++ {
					for q := 1; q <= maxRank; q++ {
						emit(tcase{peco: eco, pname: 0, pver: q, affs: []aff{{eco: eco, name: 0, ranges: []rng{{typ: 'E', evs: append([]ev{}, o...)}}}}})
					}
				}
			}
		}
		if len(cur) == 5 {
			return
		}
		for i := start; i < len(ranks); i++ {
			kinds := []byte{'i'}
			if len(cur)%2 == 1 {
				kinds = []byte{'f', 'l'}
			}
			if ranks[i] == 0 && len(cur)%2 == 1 {
				continue
			}
			for _, k := range kinds {
				rec(i+1, append(append([]ev{}, cur...), ev{k, ranks[i]}))
			}
		}
	}
	rec(0, nil)
}

func main() {
	o := hx.Parse()
	out := hx.NewOut()
	defer out.Flush()
	// sanity of the trusted assumption: rank order = ecosystem order
	for eco, tab := range versions {
		sv := systems[eco].Semver()
		for i := 1; i+1 < len(tab); i++ {
			if sv.Compare(tab[i], tab[i+1]) >= 0 {
				fmt.Fprintf(os.Stderr, "version table of ecosystem %d not increasing at %d\n", eco, i)
				os.Exit(2)
			}
		}
		if sv.Compare(tab[1], "0") >= 0 {
			fmt.Fprintf(os.Stderr, "rank 1 of ecosystem %d is not below the literal 0\n", eco)
			os.Exit(2)
		}
	}
	nalt := 0
	for eco, tab := range versions {
		sv := systems[eco].Semver()
		for rank := 1; rank < len(tab); rank++ {
			for _, cand := range altCandidates[eco](tab[rank]) {
				if cand == tab[rank] {
					continue
				}
				if _, err := sv.Parse(cand); err != nil {
					continue
				}
				if sv.Compare(cand, tab[rank]) == 0 && sv.Compare(tab[rank], cand) == 0 {
					alt[eco][rank] = cand
					nalt++
					break
				}
			}
		}
	}
	if nalt < 12 {
		fmt.Fprintf(os.Stderr, "only %d alternative spellings found: %v\n", nalt, alt)
		os.Exit(2)
	}
	if o.Replay != "" {
		for _, l := range hx.ReplayLines(o.Replay) {
			out.Emit(l, run(parseCase(l)))
		}
		return
	}
	if o.Tier == "thorough" {
		exhaustive(func(c tcase) { out.Emit(c.line(), run(c)) })
	}
	r := hx.Rng(o)
	for i := 0; i < o.N; i++ {
		c := randCase(r)
		out.Emit(c.line(), run(c))
	}
}
