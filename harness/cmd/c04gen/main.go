// c04gen: correspondence stream for C04 (image.FromV1Image views vs Scalibr.Overlay) and the
// layer byte-limit clause of C10.
//
// Case grammar (see lean/Drivers/C04.lean):
//
//	ov <MaxFileBytes> <req> <hist> <probes> <layers>
//	  req    = A | N | P<hex,hex,...>           (require all / none / exactly these path strings)
//	  hist   = word over {L,E,X}: L = layer with an ordinary history entry, E = history entry with
//	           EmptyLayer and no layer, X = layer whose history entry says EmptyLayer (invalid history)
//	  probes = hex,hex,...                       (paths handed to the direct lookups, in this order)
//	  layers = layer|layer|...   layer = entry;entry;... or -
//	  entry  = <t>:<hexname>:<mode octal>:<size>:<cid>:<hexlink>    t in d f s h o
//
// Reply: err=<0|1> [nv=<n> walk=<view|view..> look=<view|view..> maxdisk=<n>]
//
//	walk view = sorted items hexpath:kind:mode:size:content joined by ','  ('-' when empty)
//	look view = one item kind:mode:size:content (or '-') per probe, joined by ','
//	mt        = per view, the regular files of the walk with ModTime - 1.6e9 s (the generator stamps a file with (cid mod 26)*1000 + size)
//	content   = '-' (dir), 'e' (empty file), c<cid>n<len> (uniform body), m<len> (mixed), hex target (symlink)
package main

import (
	"archive/tar"
	"bytes"
	"compress/gzip"
	"fmt"
	"io"
	"io/fs"
	"math/rand"
	"os"
	"path"
	"path/filepath"
	"sort"
	"strconv"
	"strings"
	"sync"
	"time"

	v1 "github.com/google/go-containerregistry/pkg/v1"
	"github.com/google/go-containerregistry/pkg/v1/empty"
	"github.com/google/go-containerregistry/pkg/v1/mutate"
	"github.com/google/go-containerregistry/pkg/v1/tarball"
	"github.com/google/osv-scalibr/artifact/image/layerscanning/image"
	"github.com/google/osv-scalibr/artifact/image/require"
	"github.com/google/osv-scalibr/artifact/image/unpack"
	scalibrfs "github.com/google/osv-scalibr/fs"
	"github.com/google/osv-scalibr/log"

	"verif/harness/hx"
)

type nopLogger struct{}

func (nopLogger) Errorf(string, ...any) {}
func (nopLogger) Error(...any)          {}
func (nopLogger) Warnf(string, ...any)  {}
func (nopLogger) Warn(...any)           {}
func (nopLogger) Infof(string, ...any)  {}
func (nopLogger) Info(...any)           {}
func (nopLogger) Debugf(string, ...any) {}
func (nopLogger) Debug(...any)          {}

type ent struct {
	typ  byte // d f s h o
	name string
	mode int
	size int
	cid  int
	link string
}

type tcase struct {
	limit  int64
	req    string // "A", "N", or "P" + list
	reqSet []string
	hist   string
	probes []string
	layers [][]ent
}

func (c tcase) line() string {
	var sb strings.Builder
	fmt.Fprintf(&sb, "ov %d ", c.limit)
	switch c.req {
	case "A", "N":
		sb.WriteString(c.req)
	default:
		hs := make([]string, len(c.reqSet))
		for i, p := range c.reqSet {
			hs[i] = hx.Hex(p)
		}
		sb.WriteString("P" + hx.Join(hs, ","))
	}
	sb.WriteString(" " + c.hist + " ")
	ps := make([]string, len(c.probes))
	for i, p := range c.probes {
		ps[i] = hx.Hex(p)
	}
	sb.WriteString(hx.Join(ps, ","))
	sb.WriteString(" ")
	ls := make([]string, len(c.layers))
	for i, l := range c.layers {
		es := make([]string, len(l))
		for j, e := range l {
			es[j] = fmt.Sprintf("%c:%s:%o:%d:%d:%s", e.typ, hx.Hex(e.name), e.mode, e.size, e.cid, hx.Hex(e.link))
		}
		ls[i] = hx.Join(es, ";")
	}
	if len(ls) == 0 {
		sb.WriteString("~") // an image without any archive
	} else {
		sb.WriteString(strings.Join(ls, "|"))
	}
	return sb.String()
}

func must(err error) {
	if err != nil {
		panic(err)
	}
}

func parseCase(l string) tcase {
	t := strings.Split(l, " ")
	if len(t) != 6 || t[0] != "ov" {
		panic("bad case line: " + l)
	}
	var c tcase
	n, err := strconv.ParseInt(t[1], 10, 64)
	must(err)
	c.limit = n
	switch {
	case t[2] == "A" || t[2] == "N":
		c.req = t[2]
	case strings.HasPrefix(t[2], "P"):
		c.req = "P"
		if r := t[2][1:]; r != "-" && r != "" {
			for _, h := range strings.Split(r, ",") {
				c.reqSet = append(c.reqSet, hx.UnHex(h))
			}
		}
	default:
		panic("bad req")
	}
	c.hist = t[3]
	if t[4] != "-" {
		for _, h := range strings.Split(t[4], ",") {
			c.probes = append(c.probes, hx.UnHex(h))
		}
	}
	for _, ls := range strings.Split(t[5], "|") {
		if t[5] == "~" {
			break
		}
		var es []ent
		if ls != "-" && ls != "" {
			for _, s := range strings.Split(ls, ";") {
				f := strings.Split(s, ":")
				if len(f) != 6 {
					panic("bad entry " + s)
				}
				mode, err := strconv.ParseInt(f[2], 8, 32)
				must(err)
				size, err := strconv.Atoi(f[3])
				must(err)
				cid, err := strconv.Atoi(f[4])
				must(err)
				es = append(es, ent{typ: f[0][0], name: hx.UnHex(f[1]), mode: int(mode), size: size, cid: cid, link: hx.UnHex(f[5])})
			}
		}
		c.layers = append(c.layers, es)
	}
	return c
}

func body(e ent) []byte { return bytes.Repeat([]byte{byte('a' + e.cid%26)}, e.size) }

func mkLayer(es []ent) (v1.Layer, error) {
	var buf bytes.Buffer
	tw := tar.NewWriter(&buf)
	for _, e := range es {
		h := &tar.Header{Name: e.name, Mode: int64(e.mode), Linkname: e.link, Format: tar.FormatPAX}
		switch e.typ {
		case 'd':
			h.Typeflag = tar.TypeDir
		case 'f':
			h.Typeflag = tar.TypeReg
			h.Size = int64(e.size)
			h.ModTime = mtimeOf(e.cid, e.size)
		case 's':
			h.Typeflag = tar.TypeSymlink
		case 'h':
			h.Typeflag = tar.TypeLink
		default:
			h.Typeflag = tar.TypeFifo
		}
		if err := tw.WriteHeader(h); err != nil {
			return nil, err
		}
		if e.typ == 'f' {
			if _, err := tw.Write(body(e)); err != nil {
				return nil, err
			}
		}
	}
	if err := tw.Close(); err != nil {
		return nil, err
	}
	b := buf.Bytes()
	return tarball.LayerFromOpener(func() (io.ReadCloser, error) { return io.NopCloser(bytes.NewReader(b)), nil },
		tarball.WithCompressionLevel(gzip.NoCompression))
}

func content(b []byte) string {
	if len(b) == 0 {
		return "e"
	}
	for _, x := range b {
		if x != b[0] {
			return fmt.Sprintf("m%d", len(b))
		}
	}
	return fmt.Sprintf("c%dn%d", int(b[0]-'a'), len(b))
}

// modeStr prints the full mode of a node as the tar header denotes it: permission bits plus setuid (04000), setgid (02000)
// and sticky (01000), in octal; any other bit besides the type bit of the node's kind is appended in hex (never expected).
func modeStr(m fs.FileMode) string {
	u := uint32(m.Perm())
	if m&fs.ModeSetuid != 0 {
		u |= 0o4000
	}
	if m&fs.ModeSetgid != 0 {
		u |= 0o2000
	}
	if m&fs.ModeSticky != 0 {
		u |= 0o1000
	}
	known := fs.ModePerm | fs.ModeSetuid | fs.ModeSetgid | fs.ModeSticky
	switch {
	case m&fs.ModeDir != 0:
		known |= fs.ModeDir
	case m&fs.ModeSymlink != 0:
		known |= fs.ModeSymlink
	}
	if extra := m &^ known; extra != 0 {
		return fmt.Sprintf("%o+x%x", u, uint32(extra))
	}
	return fmt.Sprintf("%o", u)
}

func kindOf(m fs.FileMode) string {
	switch {
	case m&fs.ModeDir != 0:
		return "d"
	case m&fs.ModeSymlink != 0:
		return "l"
	default:
		return "f"
	}
}

// mtimeOf: the modification time the generator gives a regular file with this body (so that a view that shows the content of one
// entry with the metadata of another is noticed through ModTime as well)
func mtimeOf(cid, size int) time.Time {
	return time.Unix(1_600_000_000+int64(cid%26)*1000+int64(size), 0)
}

// readAll reads the file through the public API and cross-checks the rest of that API on the way: ReadAt and Seek of the opened
// file against the bytes Read delivered, Stat of the opened file against Stat of the path, a second
// Close, Sys.  Any disagreement replaces the content by an INCONSISTENT-… marker (which no model reply contains).
func readAll(fsys scalibrfs.FS, p string) string {
	f, err := fsys.Open(p)
	if err != nil {
		return "openerr"
	}
	b, err := io.ReadAll(f)
	if err != nil {
		f.Close()
		return "readerr"
	}
	if ra, ok := f.(io.ReaderAt); ok && len(b) > 0 {
		buf := make([]byte, len(b)-len(b)/2)
		n, e := ra.ReadAt(buf, int64(len(b)/2))
		if (e != nil && e != io.EOF) || n != len(buf) || !bytes.Equal(buf, b[len(b)/2:]) {
			f.Close()
			return "INCONSISTENT-readat"
		}
	}
	if sk, ok := f.(io.Seeker); ok {
		if pos, e := sk.Seek(0, io.SeekStart); e != nil || pos != 0 {
			f.Close()
			return "INCONSISTENT-seek"
		}
		again, e := io.ReadAll(f)
		if e != nil || !bytes.Equal(again, b) {
			f.Close()
			return "INCONSISTENT-reread"
		}
	}
	st, e1 := f.Stat()
	ps, e2 := fsys.Stat(p)
	if e1 != nil || e2 != nil || st.Size() != ps.Size() || st.Mode() != ps.Mode() || !st.ModTime().Equal(ps.ModTime()) || st.Sys() != nil {
		f.Close()
		return "INCONSISTENT-filestat"
	}
	if f.Close() != nil {
		return "INCONSISTENT-close"
	}
	_ = f.Close() // a second Close must not panic
	// two handles of ONE path open at the same time, reads interleaved: each Open has its own offset, and closing one leaves the other usable
	if len(b) > 1 {
		h1, e1 := fsys.Open(p)
		if e1 != nil {
			return "INCONSISTENT-open-again"
		}
		one := make([]byte, 1)
		if n, _ := h1.Read(one); n != 1 || one[0] != b[0] {
			h1.Close()
			return "INCONSISTENT-two-handles-first"
		}
		h2, e2 := fsys.Open(p)
		if e2 != nil {
			h1.Close()
			return "INCONSISTENT-open-again"
		}
		all2, e := io.ReadAll(h2)
		if e != nil || !bytes.Equal(all2, b) {
			h1.Close()
			h2.Close()
			// the second reader does not see the whole content: counted (reply field twoh), the content of the single reader is reported
			twoHandles.Store(fsys, true)
			return content(b)
		}
		rest1, e := io.ReadAll(h1)
		if e != nil || !bytes.Equal(rest1, b[1:]) {
			h1.Close()
			h2.Close()
			return "INCONSISTENT-two-handles-rest"
		}
		h2.Close()
		if sk, ok := h1.(io.Seeker); ok {
			if _, e := sk.Seek(0, io.SeekStart); e == nil {
				if again, e := io.ReadAll(h1); e != nil || !bytes.Equal(again, b) {
					h1.Close()
					return "INCONSISTENT-two-handles-after-close" // closing the other handle broke this one
				}
			}
		}
		h1.Close()
	}
	// fresh handles whose FIRST operation is ReadAt / Seek (the file is opened lazily by whichever comes first)
	if g, e := fsys.Open(p); e == nil {
		if ra, ok := g.(io.ReaderAt); ok && len(b) > 0 {
			one := make([]byte, 1)
			if n, e := ra.ReadAt(one, int64(len(b)-1)); n != 1 || (e != nil && e != io.EOF) || one[0] != b[len(b)-1] {
				g.Close()
				return "INCONSISTENT-readat-first"
			}
		}
		g.Close()
	}
	if g, e := fsys.Open(p); e == nil {
		if sk, ok := g.(io.Seeker); ok && len(b) > 0 {
			if pos, e := sk.Seek(-1, io.SeekEnd); e != nil || pos != int64(len(b)-1) {
				g.Close()
				return "INCONSISTENT-seek-first"
			}
			if rest, e := io.ReadAll(g); e != nil || len(rest) != 1 || rest[0] != b[len(b)-1] {
				g.Close()
				return "INCONSISTENT-seek-first-read"
			}
		}
		g.Close()
	}
	return content(b)
}

// item renders one node seen through the public API (mode/size from a FileInfo).
func item(fsys scalibrfs.FS, p string, mode fs.FileMode, size int64) string {
	k := kindOf(mode)
	c := "-"
	switch k {
	case "f":
		c = readAll(fsys, p)
	case "l":
		_, _, _, _, tgt := image.VerifNodeC04(fsys, p)
		c = hx.Hex(tgt)
	}
	return fmt.Sprintf("%s:%s:%d:%s", k, modeStr(mode), size, c)
}

func lookup(fsys scalibrfs.FS, p string) string {
	found, wh, mode, size, tgt := image.VerifNodeC04(fsys, p)
	st, err := fsys.Stat(p)
	if !found || wh {
		// getFileNode finds nothing (or a whiteout): Stat, Open and ReadDir must fail too
		if err == nil {
			return "INCONSISTENT-stat-ok"
		}
		if f, e := fsys.Open(p); e == nil {
			f.Close()
			return "INCONSISTENT-open-ok"
		}
		if _, e := fsys.ReadDir(p); e == nil {
			return "INCONSISTENT-readdir-ok"
		}
		return "-"
	}
	if mode&fs.ModeSymlink != 0 {
		// Stat follows the link (C17); the node itself is reported
		return fmt.Sprintf("l:%s:%d:%s", modeStr(mode), size, hx.Hex(tgt))
	}
	if err != nil {
		return "INCONSISTENT-stat-err"
	}
	if st.Mode() != mode || st.Size() != size {
		return "INCONSISTENT-stat-fields"
	}
	// ReadDir of a directory succeeds; of a file it may fail or (as the code does: no error, fs.ReadDirFS would want one) list nothing
	if es, e := fsys.ReadDir(p); (st.IsDir() && e != nil) || (!st.IsDir() && e == nil && len(es) > 0) {
		return "INCONSISTENT-readdir"
	}
	return item(fsys, p, st.Mode(), st.Size())
}

func run(c tcase) string {
	return hx.Guard(func() string {
		twoh := false
		var adds []mutate.Addendum
		li := 0
		for i, h := range c.hist {
			hist := v1.History{CreatedBy: fmt.Sprintf("cmd-%d", i)}
			switch h {
			case 'E':
				hist.EmptyLayer = true
				adds = append(adds, mutate.Addendum{History: hist})
				continue
			case 'X':
				hist.EmptyLayer = true
			}
			if li >= len(c.layers) {
				panic("hist/layers mismatch")
			}
			l, err := mkLayer(c.layers[li])
			if err != nil {
				return "tarerr"
			}
			li++
			adds = append(adds, mutate.Addendum{Layer: l, History: hist})
		}
		img, err := mutate.Append(empty.Image, adds...)
		if err != nil {
			return "appenderr"
		}
		cfg := &image.Config{MaxFileBytes: c.limit, MaxSymlinkDepth: image.DefaultMaxSymlinkDepth}
		switch c.req {
		case "A":
			cfg.Requirer = &require.FileRequirerAll{}
		case "N":
			cfg.Requirer = &require.FileRequirerNone{}
		default:
			cfg.Requirer = require.NewFileRequirerPaths(c.reqSet)
		}
		im, err := image.FromV1Image(img, cfg)
		if err != nil {
			return "err=1"
		}
		defer im.CleanUp()
		cls, err := im.ChainLayers()
		if err != nil {
			return "err=1"
		}
		var walks, looks, mtimes []string
		acc := 1
		if im.Size() < 0 {
			acc = 0
		}
		for k, cl := range cls {
			// the accessors of a chain layer: its index, and its layer's build command (the history entry it was made from)
			if cl.Index() != k || cl.Layer() == nil || (validHist(c) && cl.Layer().Command() != fmt.Sprintf("cmd-%d", k)) {
				acc = 0
			}
			if cl.Layer() != nil {
				_ = cl.Layer().DiffID()
				if cl.Layer().IsEmpty() != (validHist(c) && c.hist[k] == 'E') {
					acc = 0
				}
				if lf := cl.Layer().FS(); lf != nil {
					_, _ = lf.ReadDir(".")
				}
			}
			fsys := cl.FS()
			var items, mts []string
			count := 0
			_ = fs.WalkDir(fsys, ".", func(p string, d fs.DirEntry, err error) error {
				count++
				if count > 20000 {
					return fs.SkipAll
				}
				if err != nil {
					items = append(items, hx.Hex(p)+":WALKERR")
					return nil
				}
				if p == "." {
					return nil
				}
				info, ierr := d.Info()
				if ierr != nil {
					items = append(items, hx.Hex(p)+":INFOERR")
					return nil
				}
				if d.Type()&fs.ModeType != info.Mode().Type() || d.Name() != path.Base(p) {
					items = append(items, hx.Hex(p)+":INCONSISTENT-direntry")
					return nil
				}
				items = append(items, hx.Hex(p)+":"+item(fsys, p, info.Mode(), info.Size()))
				if info.Mode().IsRegular() {
					mts = append(mts, fmt.Sprintf("%s:%d", hx.Hex(p), info.ModTime().Unix()-1_600_000_000))
				}
				return nil
			})
			sort.Strings(mts)
			mtimes = append(mtimes, hx.Join(mts, ","))
			sort.Strings(items)
			walks = append(walks, hx.Join(items, ","))
			var ls []string
			for _, p := range c.probes {
				ls = append(ls, lookup(fsys, p))
			}
			looks = append(looks, hx.Join(ls, ","))
			if _, bad := twoHandles.LoadAndDelete(fsys); bad {
				twoh = true
			}
		}
		var maxdisk int64
		_ = filepath.WalkDir(im.ExtractDir, func(p string, d fs.DirEntry, err error) error {
			if err == nil && d.Type().IsRegular() {
				if fi, e := d.Info(); e == nil && fi.Size() > maxdisk {
					maxdisk = fi.Size()
				}
			}
			return nil
		})
		return fmt.Sprintf("err=0 nv=%d walk=%s look=%s maxdisk=%d squash=%s acc=%d mt=%s twoh=%s", len(cls), strings.Join(walks, "|"), strings.Join(looks, "|"), maxdisk, squash(c, img), acc, strings.Join(mtimes, "|"),
			hx.B(twoh))
	})
}

// twoHandles: the file systems (one value per view of a case) in which some file's second concurrent handle did not read the whole content
var twoHandles sync.Map

// validHist: the history lists exactly the archives (no X entry): chain layers correspond to history entries
func validHist(c tcase) bool { return !strings.Contains(c.hist, "X") }

// squash unpacks the same image with artifact/image/unpack (UnpackSquashed, default config) and lists the regular files
// it left on disk with their content: the property says they are the regular files of the final view.
func squash(c tcase, img v1.Image) string {
	dir, err := os.MkdirTemp("", "squash-*")
	if err != nil {
		return "na"
	}
	defer os.RemoveAll(dir)
	// the unpacker under the configuration of the load: the same requirer, MaxFileBytes = the load's limit (the unpacker skips
	// files LARGER than it, the loader files at or above it), MaxPass 1..3 from the case (without links one pass does it all)
	ucfg := unpack.DefaultUnpackerConfig().WithMaxFileBytes(c.limit).WithMaxPass(1 + len(c.layers)%3)
	switch c.req {
	case "A":
	case "N":
		ucfg = ucfg.WithRequirer(&require.FileRequirerNone{})
	default:
		ucfg = ucfg.WithRequirer(require.NewFileRequirerPaths(c.reqSet))
	}
	u, err := unpack.NewUnpacker(ucfg)
	if err != nil {
		return "na"
	}
	if err := u.UnpackSquashed(dir, img); err != nil {
		return "err"
	}
	var items []string
	_ = filepath.WalkDir(dir, func(p string, d fs.DirEntry, err error) error {
		if err != nil || !d.Type().IsRegular() {
			return nil
		}
		rel, _ := filepath.Rel(dir, p)
		b, e := os.ReadFile(p)
		if e != nil {
			items = append(items, hx.Hex(filepath.ToSlash(rel))+":readerr")
			return nil
		}
		items = append(items, hx.Hex(filepath.ToSlash(rel))+":"+content(b))
		return nil
	})
	sort.Strings(items)
	return hx.Join(items, ",")
}

// ---------------------------------------------------------------- generators

var segNames = []string{"a", "b", "c"}

func randPath(r *rand.Rand, maxDepth int) string {
	d := 1 + r.Intn(maxDepth)
	if d > 2 && r.Intn(2) == 0 {
		d--
	}
	p := make([]string, d)
	for i := range p {
		p[i] = segNames[r.Intn(3)]
	}
	return strings.Join(p, "/")
}

func ancestors(p string) []string {
	var out []string
	for d := path.Dir(p); d != "." && d != "/"; d = path.Dir(d) {
		out = append([]string{d}, out...)
	}
	return out
}

// spell writes a clean relative path in one of the spellings tar writers use.
func spell(r *rand.Rand, p string, dir bool) string {
	s := p
	switch x := r.Intn(100); {
	case x < 70:
	case x < 82:
		s = "./" + p
	case x < 90:
		s = "/" + p
	case x < 93:
		s = strings.Replace(p, "/", "//", 1)
	case x < 96:
		s = strings.Replace(p, "/", "/./", 1)
	default:
		s = "x/../" + p
	}
	if dir && r.Intn(3) != 0 {
		s += "/"
	}
	if dir && r.Intn(60) == 0 {
		s = []string{"/", "//", ".", "./", "/."}[r.Intn(5)] // the root itself, which the loader skips
	}
	return s
}

func whName(p string) string { return path.Join(path.Dir(p), ".wh."+path.Base(p)) }

var fileModes = []int{0644, 0600, 0755, 0444, 0644, 0755, 04755, 02755, 06711, 01644}
var dirModes = []int{0755, 0700, 0555, 0711, 0755, 01777, 02775, 03770, 04755}

func sizeFor(r *rand.Rand, limit int64) int {
	if limit <= 8192 {
		switch r.Intn(5) {
		case 0:
			return int(limit) - 1
		case 1:
			return int(limit)
		case 2:
			return int(limit) + 1
		case 3:
			return 0
		}
		return r.Intn(int(limit) + 2)
	}
	return r.Intn(4)
}

func linkTarget(r *rand.Rand, focus []string) string {
	switch x := r.Intn(100); {
	case x < 30:
		return segNames[r.Intn(3)]
	case x < 50:
		return "../" + segNames[r.Intn(3)]
	case x < 75:
		return "/" + focus[r.Intn(len(focus))]
	case x < 85:
		return focus[r.Intn(len(focus))]
	case x < 93:
		return "../../../../../x"
	case x < 96:
		return "/../etc/x"
	case x < 99:
		return "/a//b/./c"
	default:
		return ""
	}
}

// randLayer: entries drawn from the focus set (mostly) in a chosen order, with or without explicit parents.
func randLayer(r *rand.Rand, focus []string, limit int64, wild bool) []ent {
	n := r.Intn(7)
	type pe struct {
		p string
		e ent
	}
	var es []pe
	pick := func() string {
		if r.Intn(100) < 85 {
			return focus[r.Intn(len(focus))]
		}
		return randPath(r, 4)
	}
	for i := 0; i < n; i++ {
		p := pick()
		x := r.Intn(100)
		switch {
		case x < 33:
			es = append(es, pe{p, ent{typ: 'd', name: spell(r, p, true), mode: dirModes[r.Intn(len(dirModes))]}})
		case x < 63:
			es = append(es, pe{p, ent{typ: 'f', name: spell(r, p, false), mode: fileModes[r.Intn(len(fileModes))], size: sizeFor(r, limit), cid: r.Intn(26)}})
		case x < 80:
			es = append(es, pe{p, ent{typ: 'f', name: spell(r, whName(p), false), mode: 0}})
		case x < 88:
			es = append(es, pe{p, ent{typ: 's', name: spell(r, p, false), mode: 0777, link: linkTarget(r, focus)}})
		case x < 92:
			es = append(es, pe{p + "/.wh..wh..opq", ent{typ: 'f', name: spell(r, p+"/.wh..wh..opq", false), mode: 0}})
		case x < 94:
			es = append(es, pe{p, ent{typ: 'h', name: spell(r, p, false), mode: 0644, link: linkTarget(r, focus)}})
		case x < 95:
			es = append(es, pe{p, ent{typ: 'o', name: spell(r, p, false), mode: 0644}})
		default:
			if !wild {
				es = append(es, pe{p, ent{typ: 'd', name: spell(r, p, true), mode: 0755}})
				break
			}
			switch r.Intn(8) {
			case 0:
				es = append(es, pe{p, ent{typ: 'd', name: whName(p) + "/", mode: 0755}}) // directory with a whiteout name
			case 1:
				es = append(es, pe{p, ent{typ: 'f', name: p + "/.wh.", mode: 0}}) // whiteout with an empty rest
			case 2:
				es = append(es, pe{p, ent{typ: 'f', name: "../" + p, mode: 0644, size: 1}})
			case 3:
				es = append(es, pe{p, ent{typ: 'f', name: p + "/..", mode: 0644, size: 1}})
			case 4:
				es = append(es, pe{p, ent{typ: 'f', name: p + "/.wh...", mode: 0}})
			case 5:
				es = append(es, pe{p, ent{typ: 'd', name: "./", mode: 0755}})
			case 6:
				es = append(es, pe{p, ent{typ: 'f', name: ".wh.", mode: 0}})
			default:
				es = append(es, pe{p, ent{typ: 'f', name: "", mode: 0644, size: 1}})
			}
		}
	}
	// mostly avoid a non-directory with entries beneath it in the same tar (such a layer fails to load)
	if r.Intn(100) < 85 {
		var keep []pe
		for _, e := range es {
			bad := false
			if e.e.typ != 'd' {
				for _, f := range es {
					if strings.HasPrefix(f.p, e.p+"/") {
						bad = true
					}
				}
			}
			if !bad {
				keep = append(keep, e)
			}
		}
		es = keep
	}
	// explicit parents, as docker's layer diffs have them
	if r.Intn(100) < 55 {
		seen := map[string]bool{}
		for _, e := range es {
			if e.e.typ == 'd' {
				seen[e.p] = true
			}
		}
		base := append([]pe{}, es...)
		for _, e := range base {
			for _, a := range ancestors(e.p) {
				if !seen[a] && len(es) < 9 {
					seen[a] = true
					es = append(es, pe{a, ent{typ: 'd', name: spell(r, a, true), mode: dirModes[r.Intn(len(dirModes))]}})
				}
			}
		}
	}
	switch x := r.Intn(100); {
	case x < 55:
		sort.SliceStable(es, func(i, j int) bool { return es[i].p < es[j].p })
	case x < 75:
		sort.SliceStable(es, func(i, j int) bool { return es[i].p > es[j].p })
	default:
		r.Shuffle(len(es), func(i, j int) { es[i], es[j] = es[j], es[i] })
	}
	out := make([]ent, len(es))
	for i, e := range es {
		out[i] = e.e
	}
	return out
}

// evolve: a layer produced by editing a simulated filesystem, the way a build step does; the diff lists
// changed directories explicitly and parents first, deletions as whiteouts.
type simNode struct {
	dir  bool
	mode int
	size int
	cid  int
}

// With gone != nil the evolution is "strict": a path deleted once is never created again (nor anything beneath it), so
// that every view of the image satisfies the hypothesis H of C04_view_partial (the dedicated H stream).
func evolveLayer(r *rand.Rand, state map[string]simNode, focus []string, limit int64, gone map[string]bool) []ent {
	blocked := func(p string) bool {
		if gone == nil {
			return false
		}
		for q := p; q != "." && q != "/"; q = path.Dir(q) {
			if gone[q] {
				return true
			}
		}
		return false
	}
	type op struct {
		p  string
		wh bool
		n  simNode
	}
	ops := map[string]op{}
	touchParents := func(p string) {
		for _, a := range ancestors(p) {
			n, ok := state[a]
			if !ok || !n.dir {
				// replace whatever was there by a directory
				for q := range state {
					if q == a || strings.HasPrefix(q, a+"/") {
						delete(state, q)
					}
				}
				n = simNode{dir: true, mode: dirModes[r.Intn(len(dirModes))]}
				state[a] = n
				ops[a] = op{p: a, n: n} // also when this step had written a file there
			}
			if o, ok := ops[a]; !ok || o.wh {
				ops[a] = op{p: a, n: n}
			}
		}
	}
	for k := 1 + r.Intn(4); k > 0; k-- {
		p := focus[r.Intn(len(focus))]
		switch x := r.Intn(100); {
		case x < 40: // write a file
			if n, ok := state[p]; ok && n.dir {
				continue
			}
			if blocked(p) {
				continue
			}
			touchParents(p)
			n := simNode{mode: fileModes[r.Intn(len(fileModes))], size: sizeFor(r, limit), cid: r.Intn(26)}
			if int64(n.size) >= limit {
				continue
			}
			state[p] = n
			ops[p] = op{p: p, n: n}
		case x < 65: // mkdir
			if _, ok := state[p]; ok {
				continue
			}
			if blocked(p) {
				continue
			}
			touchParents(p)
			n := simNode{dir: true, mode: dirModes[r.Intn(len(dirModes))]}
			state[p] = n
			ops[p] = op{p: p, n: n}
		default: // rm -rf
			if _, ok := state[p]; !ok {
				continue
			}
			if _, created := ops[p]; created {
				continue // created in this very step: nothing to record
			}
			under := false
			for q := range ops {
				if strings.HasPrefix(q, p+"/") {
					under = true
				}
			}
			if under {
				continue
			}
			for q := range state {
				if q == p || strings.HasPrefix(q, p+"/") {
					delete(state, q)
				}
			}
			touchParents(p)
			ops[p] = op{p: p, wh: true}
			if gone != nil {
				gone[p] = true
			}
		}
	}
	keys := make([]string, 0, len(ops))
	for k := range ops {
		keys = append(keys, k)
	}
	sort.Strings(keys)
	var out []ent
	for _, k := range keys {
		o := ops[k]
		switch {
		case o.wh:
			out = append(out, ent{typ: 'f', name: whName(k), mode: 0})
		case o.n.dir:
			out = append(out, ent{typ: 'd', name: k + "/", mode: o.n.mode})
		default:
			out = append(out, ent{typ: 'f', name: k, mode: o.n.mode, size: o.n.size, cid: o.n.cid})
		}
	}
	return out
}

func probesFor(c tcase) []string {
	set := map[string]bool{".": true}
	add := func(p string) {
		p = strings.TrimPrefix(path.Clean("/"+p), "/")
		for p != "" && p != "." && p != "/" {
			set[p] = true
			p = path.Dir(p)
		}
	}
	for _, l := range c.layers {
		for _, e := range l {
			add(e.name)
			cl := path.Clean("/" + e.name)
			b := path.Base(cl)
			if strings.HasPrefix(b, ".wh.") {
				add(path.Join(path.Dir(cl), strings.TrimPrefix(b, ".wh.")))
			}
			if e.typ == 's' && e.link != "" {
				if path.IsAbs(e.link) {
					add(e.link)
				} else {
					add(path.Join(path.Dir(cl), e.link))
				}
			}
		}
	}
	out := make([]string, 0, len(set))
	for p := range set {
		out = append(out, p)
	}
	sort.Strings(out)
	if len(out) > 40 {
		out = out[:40]
	}
	return out
}

func randCase(r *rand.Rand) tcase {
	var c tcase
	c.limit = 1 << 20
	if r.Intn(100) < 18 {
		c.limit = []int64{1, 2, 7, 4096}[r.Intn(4)]
	}
	// focus set: a few related paths
	var focus []string
	for len(focus) < 3+r.Intn(4) {
		p := randPath(r, 4)
		focus = append(focus, p)
		if a := ancestors(p); len(a) > 0 && r.Intn(2) == 0 {
			focus = append(focus, a[r.Intn(len(a))])
		}
		if strings.Count(p, "/") < 3 && r.Intn(2) == 0 {
			focus = append(focus, p+"/"+segNames[r.Intn(3)])
		}
	}
	nl := 1 + r.Intn(5)
	if r.Intn(60) == 0 {
		nl = 0 // an image without archives: no history at all, or only empty-layer entries
	}
	mode := r.Intn(100)
	if m := os.Getenv("C04_MODE"); m != "" { // development aid: force one stream
		mode, _ = strconv.Atoi(m)
	}
	state := map[string]simNode{}
	gone := map[string]bool{}
	for i := 0; i < nl; i++ {
		switch {
		case mode < 25: // the H stream
			c.layers = append(c.layers, evolveLayer(r, state, focus, c.limit, gone))
		case mode < 40:
			c.layers = append(c.layers, evolveLayer(r, state, focus, c.limit, nil))
		case mode < 90:
			c.layers = append(c.layers, randLayer(r, focus, c.limit, false))
		default:
			c.layers = append(c.layers, randLayer(r, focus, c.limit, true))
		}
	}
	// the build-step streams write plain names; a tar writer spells all the names of an archive one way (plain, "./p" or
	// "/p"): a third of these images get one spelling for the whole image, another sixth one per layer (a rooted layer over
	// an unrooted one is what go-containerregistry's Extract treats as two different names: C04/squash-absolute-names)
	if mode < 40 {
		prefixes := []string{"", "./", "/"}
		policy := r.Intn(6)
		whole := prefixes[r.Intn(3)]
		for i := range c.layers {
			pre := ""
			switch policy {
			case 0, 1:
				pre = whole
			case 2:
				pre = prefixes[r.Intn(3)]
			}
			for k := range c.layers[i] {
				c.layers[i][k].name = pre + c.layers[i][k].name
			}
		}
	}
	// history
	var hb strings.Builder
	hm := r.Intn(100)
	for i := 0; i < nl; i++ {
		if hm >= 60 && hm < 92 {
			for r.Intn(3) == 0 {
				hb.WriteByte('E')
			}
		}
		if hm >= 92 && r.Intn(3) == 0 {
			hb.WriteByte('X')
		} else {
			hb.WriteByte('L')
		}
	}
	if (hm >= 60 && hm < 92 && r.Intn(3) == 0) || (nl == 0 && hm < 50) {
		hb.WriteByte('E')
	}
	c.hist = hb.String()
	// requirer
	switch x := r.Intn(100); {
	case x < 60:
		c.req = "A"
	case x < 70:
		c.req = "N"
	default:
		c.req = "P"
		for _, l := range c.layers {
			for _, e := range l {
				if (e.typ == 'f' || e.typ == 's') && r.Intn(2) == 0 {
					p := strings.TrimPrefix(path.Clean("/"+e.name), "/")
					if r.Intn(2) == 0 {
						p = "/" + p
					}
					c.reqSet = append(c.reqSet, p)
				}
			}
		}
	}
	c.probes = probesFor(c)
	return c
}

// exhaustive: every pair of layers over a small path universe, each path absent / directory / file / whiteout
// (layer 0 optionally restricted to absent / directory / file), entries parent first.
func exhaustive(univ []string, kinds0, kinds1 int, emit func(tcase)) {
	mk := func(code, kinds int) []ent {
		var es []ent
		for _, p := range univ {
			k := code % kinds
			code /= kinds
			switch k {
			case 1:
				es = append(es, ent{typ: 'd', name: p + "/", mode: 0755})
			case 2:
				es = append(es, ent{typ: 'f', name: p, mode: 0644, size: 1, cid: 1})
			case 3:
				es = append(es, ent{typ: 'f', name: whName(p), mode: 0})
			}
		}
		return es
	}
	pow := func(b, e int) int {
		n := 1
		for ; e > 0; e-- {
			n *= b
		}
		return n
	}
	probes := append([]string{"."}, univ...)
	for a := 0; a < pow(kinds0, len(univ)); a++ {
		l0 := mk(a, kinds0)
		for b := 0; b < pow(kinds1, len(univ)); b++ {
			l1 := mk(b, kinds1)
			for i := range l1 {
				l1[i].cid = 2
			}
			emit(tcase{limit: 1 << 20, req: "A", hist: "LL", probes: probes, layers: [][]ent{l0, l1}})
		}
	}
}

func main() {
	o := hx.Parse()
	log.SetLogger(nopLogger{})
	// the loader writes every regular file of every layer below os.TempDir(): use a memory file system when there is one
	base := hx.ScratchBase() // /dev/shm only when it is roomy, see hx/scratch.go
	tmp, err := os.MkdirTemp(base, "c04gen-*")
	if err != nil {
		tmp, err = os.MkdirTemp("", "c04gen-*")
	}
	must(err)
	defer os.RemoveAll(tmp)
	must(os.Setenv("TMPDIR", tmp))
	out := hx.NewOut()
	defer out.Flush()

	// cases are produced sequentially (deterministic), executed by a worker pool, emitted in order
	type job struct {
		c    tcase
		line string
		res  chan string
	}
	jobs := make(chan job, 256)
	order := make(chan job, 4096)
	var wg sync.WaitGroup
	for w := 0; w < 16; w++ {
		wg.Add(1)
		go func() {
			defer wg.Done()
			for j := range jobs {
				j.res <- run(j.c)
			}
		}()
	}
	done := make(chan struct{})
	go func() {
		for j := range order {
			out.Emit(j.line, <-j.res)
		}
		close(done)
	}()
	submit := func(c tcase, line string) {
		j := job{c: c, line: line, res: make(chan string, 1)}
		order <- j
		jobs <- j
	}
	if o.Replay != "" {
		for _, l := range hx.ReplayLines(o.Replay) {
			submit(parseCase(l), l)
		}
	} else {
		if o.Tier == "thorough" {
			exhaustive([]string{"a", "a/b", "a/b/c", "d"}, 4, 4, func(c tcase) { submit(c, c.line()) })
			exhaustive([]string{"a", "a/b", "a/b/c", "a/d", "e"}, 3, 4, func(c tcase) { submit(c, c.line()) })
		}
		r := hx.Rng(o)
		for i := 0; i < o.N; i++ {
			c := randCase(r)
			submit(c, c.line())
		}
	}
	close(jobs)
	close(order)
	wg.Wait()
	<-done
	// C06, load path: every load either failed (and removed its directory) or was cleaned up: TMPDIR is empty again
	if left, err := os.ReadDir(tmp); err == nil && len(left) > 0 {
		out.Flush()
		fmt.Fprintf(os.Stderr, "c04gen: %d entries left in TMPDIR after all loads and clean-ups, e.g. %s\n", len(left), left[0].Name())
		os.RemoveAll(tmp)
		os.Exit(3)
	}
}
