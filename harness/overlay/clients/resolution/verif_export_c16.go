//go:build verif

package resolution

import (
	"fmt"

	"deps.dev/util/resolve"
)

// VerifClientID returns the identity of the per-ecosystem registry client the combined client currently holds ("" = none
// yet), read under c.mu: observation only (C16: every caller of an ecosystem must end up with the same client).
func (c *CombinedNativeClient) VerifClientID(sys resolve.System) string {
	c.mu.Lock()
	defer c.mu.Unlock()
	switch sys {
	case resolve.Maven:
		if c.mavenRegistryClient != nil {
			return fmt.Sprintf("%p", c.mavenRegistryClient)
		}
	case resolve.NPM:
		if c.npmRegistryClient != nil {
			return fmt.Sprintf("%p", c.npmRegistryClient)
		}
	case resolve.PyPI:
		if c.pypiRegistryClient != nil {
			return fmt.Sprintf("%p", c.pypiRegistryClient)
		}
	}
	return ""
}
