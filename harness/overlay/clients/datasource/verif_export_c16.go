//go:build verif

package datasource

import (
	"reflect"
	"sync"
	"sync/atomic"
	"unsafe"
)

// C16: observe (never change) how many goroutines are blocked in c.wg.Wait() on the pending call of a key, so the
// schedule harness knows deterministically that a caller of Get has passed the first critical section and is
// waiting, instead of guessing with a grace period.

var verifWGStateOffset = func() uintptr {
	f, ok := reflect.TypeOf(sync.WaitGroup{}).FieldByName("state")
	if !ok || f.Type.Size() != 8 {
		return ^uintptr(0)
	}
	return f.Offset
}()

// VerifWaitersSupported reports whether the WaitGroup layout is the known one (state: high 32 bits counter, low 32 waiters).
func VerifWaitersSupported() bool { return verifWGStateOffset != ^uintptr(0) }

// VerifWaiters returns (pending call exists, number of goroutines blocked in wg.Wait on it) for key.
func (rq *RequestCache[K, V]) VerifWaiters(key K) (bool, int) {
	rq.mu.Lock()
	defer rq.mu.Unlock()
	c, ok := rq.calls[key]
	if !ok {
		return false, 0
	}
	if verifWGStateOffset == ^uintptr(0) {
		return true, -1
	}
	st := atomic.LoadUint64((*uint64)(unsafe.Add(unsafe.Pointer(&c.wg), verifWGStateOffset)))
	return true, int(uint32(st))
}
