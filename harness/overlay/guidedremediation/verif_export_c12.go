//go:build verif

package guidedremediation

import (
	"github.com/google/osv-scalibr/guidedremediation/internal/manifest"
	"github.com/google/osv-scalibr/guidedremediation/internal/remediation"
	"github.com/google/osv-scalibr/guidedremediation/internal/resolution"
	"github.com/google/osv-scalibr/guidedremediation/result"
	"github.com/ossf/osv-schema/bindings/go/osvschema"
)

// VerifChoosePatches re-exports choosePatches (C12).
func VerifChoosePatches(all []result.Patch, maxUpgrades int, noIntroduce bool) []result.Patch {
	return choosePatches(all, maxUpgrades, noIntroduce)
}

// VerifMakeResolved builds a ResolvedManifest whose Vulns carry the given ids (no subgraphs).
func VerifMakeResolved(m manifest.Manifest, ids []string) *remediation.ResolvedManifest {
	r := &remediation.ResolvedManifest{Manifest: m}
	for _, id := range ids {
		r.Vulns = append(r.Vulns, resolution.Vulnerability{OSV: &osvschema.Vulnerability{ID: id}})
	}
	return r
}

// VerifComputeVulnsResult re-exports computeVulnsResult on a list of vulnerability ids.
func VerifComputeVulnsResult(ids []string, all []result.Patch) []result.Vuln {
	return computeVulnsResult(VerifMakeResolved(nil, ids), all)
}
