//go:build verif

package guidedremediation

import (
	"context"

	"deps.dev/util/resolve"
	"deps.dev/util/semver"
	"github.com/google/osv-scalibr/extractor"
	"github.com/google/osv-scalibr/guidedremediation/internal/manifest"
	"github.com/google/osv-scalibr/guidedremediation/internal/remediation"
	"github.com/google/osv-scalibr/guidedremediation/internal/strategy/override"
	"github.com/google/osv-scalibr/guidedremediation/internal/strategy/relax"
	"github.com/google/osv-scalibr/guidedremediation/internal/strategy/relax/relaxer"
	"github.com/google/osv-scalibr/guidedremediation/internal/suggest"
	"github.com/google/osv-scalibr/guidedremediation/internal/vulns"
	"github.com/google/osv-scalibr/guidedremediation/matcher"
	"github.com/google/osv-scalibr/guidedremediation/options"
	"github.com/google/osv-scalibr/guidedremediation/result"
	"github.com/google/osv-scalibr/guidedremediation/upgrade"
	"github.com/google/osv-scalibr/internal/mavenutil"
	"github.com/ossf/osv-schema/bindings/go/osvschema"
)

// VerifIsAffectedPkg is vulns.IsAffected on an extractor.Package (what a VulnerabilityMatcher receives).
func VerifIsAffectedPkg(v *osvschema.Vulnerability, pkg *extractor.Package) bool {
	return vulns.IsAffected(v, pkg)
}

// VerifResolvedManifest is remediation.ResolvedManifest (C11, C12).
type VerifResolvedManifest = remediation.ResolvedManifest

// VerifNpmRelax calls the real NpmRelaxer.Relax.
func VerifNpmRelax(ctx context.Context, cl resolve.Client, req resolve.RequirementVersion, cfg upgrade.Config) (resolve.RequirementVersion, bool) {
	return relaxer.NpmRelaxer{}.Relax(ctx, cl, req, cfg)
}

// VerifSuggestMavenVersion calls the real suggestMavenVersion.
func VerifSuggestMavenVersion(ctx context.Context, cl resolve.Client, req resolve.RequirementVersion, level upgrade.Level) (resolve.RequirementVersion, error) {
	return suggest.VerifSuggestMavenVersion(ctx, cl, req, level)
}

// VerifMavenCompareVersions is mavenutil.CompareVersions.
func VerifMavenCompareVersions(vk resolve.VersionKey, a, b *semver.Version) int {
	return mavenutil.CompareVersions(vk, a, b)
}

// VerifResolveManifest is remediation.ResolveManifest.
func VerifResolveManifest(ctx context.Context, cl resolve.Client, vm matcher.VulnerabilityMatcher, m manifest.Manifest, opts *options.RemediationOptions) (*remediation.ResolvedManifest, error) {
	return remediation.ResolveManifest(ctx, cl, vm, m, opts)
}

// VerifOverridePatchVulns is the override strategy's patch loop.
func VerifOverridePatchVulns(ctx context.Context, cl resolve.Client, vm matcher.VulnerabilityMatcher, resolved *remediation.ResolvedManifest, vulnIDs []string, opts *options.RemediationOptions) (*remediation.ResolvedManifest, error) {
	return override.VerifPatchVulns(ctx, cl, vm, resolved, vulnIDs, opts)
}

// VerifRelaxPatchVulns is the relax strategy's patch loop.
func VerifRelaxPatchVulns(ctx context.Context, cl resolve.Client, vm matcher.VulnerabilityMatcher, resolved *remediation.ResolvedManifest, vulnIDs []string, opts *options.RemediationOptions) (*remediation.ResolvedManifest, error) {
	return relax.VerifPatchVulns(ctx, cl, vm, resolved, vulnIDs, opts)
}

// VerifGetVersionsGreater is override.getVersionsGreater.
func VerifGetVersionsGreater(ctx context.Context, cl resolve.Client, vk resolve.VersionKey) ([]resolve.Version, error) {
	return override.VerifGetVersionsGreater(ctx, cl, vk)
}

// VerifOverrideComputePatches is override.ComputePatches.
func VerifOverrideComputePatches(ctx context.Context, cl resolve.Client, vm matcher.VulnerabilityMatcher, resolved *remediation.ResolvedManifest, opts *options.RemediationOptions) ([]result.Patch, error) {
	return override.ComputePatches(ctx, cl, vm, resolved, opts)
}

// VerifRelaxComputePatches is relax.ComputePatches.
func VerifRelaxComputePatches(ctx context.Context, cl resolve.Client, vm matcher.VulnerabilityMatcher, resolved *remediation.ResolvedManifest, opts *options.RemediationOptions) ([]result.Patch, error) {
	return relax.ComputePatches(ctx, cl, vm, resolved, opts)
}

// VerifConstructPatches is remediation.ConstructPatches.
func VerifConstructPatches(oldRes, newRes *remediation.ResolvedManifest) result.Patch {
	return remediation.ConstructPatches(oldRes, newRes)
}
