//go:build verif

package guidedremediation

import (
	"context"
	"errors"
	"sync"

	"deps.dev/util/resolve"
	"deps.dev/util/resolve/dep"
	"github.com/google/osv-scalibr/guidedremediation/internal/manifest"
	"github.com/google/osv-scalibr/guidedremediation/internal/remediation"
	"github.com/google/osv-scalibr/guidedremediation/internal/resolution"
	"github.com/google/osv-scalibr/guidedremediation/internal/strategy/common"
	"github.com/google/osv-scalibr/guidedremediation/matcher"
	"github.com/google/osv-scalibr/guidedremediation/options"
	"github.com/google/osv-scalibr/guidedremediation/result"
	"github.com/ossf/osv-schema/bindings/go/osvschema"
)

// C16: drive the real common.ComputePatches with a caller-supplied (table-driven, gated) patch function.

// VerifC16Req is one direct requirement of the fake manifest.
// KnownAs, when set, makes the requirement an npm alias ("y": "npm:x@1.0.0"): another requirement KEY for a package of the
// same name, which is how two requirements of one manifest can carry the same Name.
type VerifC16Req struct{ Name, Version, KnownAs string }

// VerifC16Outcome is what the strategy returns for one vuln-id list.
type VerifC16Outcome struct {
	Err   int // 0 = a patched manifest, 1 = common.ErrPatchImpossible, 2 = some other error
	Reqs  []VerifC16Req
	Vulns []string
	// Delivered, when set, is called the first time the main loop of ComputePatches looks at the patched manifest
	// (remediation.ConstructPatches reads its requirements): the result has been received from the channel.
	Delivered func()
}

type c16Manifest struct {
	sys  resolve.System
	reqs []VerifC16Req
	hook func()
	once sync.Once
}

func (m *c16Manifest) FilePath() string        { return "package.json" }
func (m *c16Manifest) Root() resolve.Version    { return resolve.Version{} }
func (m *c16Manifest) System() resolve.System   { return m.sys }
func (m *c16Manifest) Requirements() []resolve.RequirementVersion {
	if m.hook != nil {
		m.once.Do(m.hook)
	}
	var out []resolve.RequirementVersion
	for _, r := range m.reqs {
		rv := resolve.RequirementVersion{VersionKey: resolve.VersionKey{
			PackageKey: resolve.PackageKey{System: m.sys, Name: r.Name}, Version: r.Version, VersionType: resolve.Requirement}}
		if r.KnownAs != "" {
			rv.Type.AddAttr(dep.KnownAs, r.KnownAs)
		}
		out = append(out, rv)
	}
	return out
}
func (m *c16Manifest) Groups() map[manifest.RequirementKey][]string { return nil }
func (m *c16Manifest) LocalManifests() []manifest.Manifest          { return nil }
func (m *c16Manifest) EcosystemSpecific() any                       { return nil }
func (m *c16Manifest) PatchRequirement(resolve.RequirementVersion) error {
	return errors.New("c16Manifest is read-only")
}
func (m *c16Manifest) Clone() manifest.Manifest {
	return &c16Manifest{sys: m.sys, reqs: append([]VerifC16Req(nil), m.reqs...)}
}

func c16Resolved(sys resolve.System, reqs []VerifC16Req, vulns []string) *remediation.ResolvedManifest {
	r := &remediation.ResolvedManifest{Manifest: &c16Manifest{sys: sys, reqs: reqs}}
	for _, id := range vulns {
		r.Vulns = append(r.Vulns, resolution.Vulnerability{OSV: &osvschema.Vulnerability{ID: id}})
	}
	return r
}

// VerifC16PreRead, when set, runs at the very start of every patchFunc call, BEFORE the vuln-id slice it was handed is
// read: the harness uses it to perturb the schedule (Gosched / short sleeps) between the collector launching a
// follow-up attempt and that attempt looking at its ids.
var VerifC16PreRead func()

// VerifC16ComputePatches calls common.ComputePatches(patchFunc, resolved, groupIntroduced) where resolved is a
// manifest with the given requirements and vulnerabilities and patchFunc forwards to fn (which may block).
func VerifC16ComputePatches(reqs []VerifC16Req, vulns []string, grouped bool, fn func(ids []string) VerifC16Outcome) ([]result.Patch, error) {
	return VerifC16ComputePatchesSys(resolve.NPM, reqs, vulns, grouped, fn)
}

// VerifC16ComputePatchesSys is VerifC16ComputePatches for a manifest of the given system: Patch.Compare's step 5 parses and
// compares the target versions with resolved.Manifest.System().Semver() (npm, Maven, PyPI).
func VerifC16ComputePatchesSys(sys resolve.System, reqs []VerifC16Req, vulns []string, grouped bool, fn func(ids []string) VerifC16Outcome) ([]result.Patch, error) {
	resolved := c16Resolved(sys, reqs, vulns)
	patchFunc := func(ids []string) common.StrategyResult {
		if VerifC16PreRead != nil {
			VerifC16PreRead()
		}
		o := fn(append([]string(nil), ids...))
		switch o.Err {
		case 1:
			return common.StrategyResult{VulnIDs: ids, Err: common.ErrPatchImpossible}
		case 2:
			return common.StrategyResult{VulnIDs: ids, Err: errors.New("c16: strategy error")}
		}
		res := c16Resolved(sys, o.Reqs, o.Vulns)
		res.Manifest.(*c16Manifest).hook = o.Delivered
		return common.StrategyResult{VulnIDs: ids, Resolved: res}
	}
	return common.ComputePatches(patchFunc, resolved, grouped)
}

// VerifC16StrategyComputePatches is relax.ComputePatches / override.ComputePatches with their bound patch function spelled
// out — `common.ComputePatches(func(ids) { patchVulns(ctx, cl, vm, resolved, ids, opts) }, resolved, grouped)` — so that the
// harness can hold every attempt at its very start (enter blocks) and see it finish (leave): the REAL patchVulns,
// reqsToRelax / ConstrainingSubgraph, resolution and ConstructPatches run inside. grouped=false: relax, true: override.
func VerifC16StrategyComputePatches(ctx context.Context, override bool, cl resolve.Client, vm matcher.VulnerabilityMatcher, resolved *remediation.ResolvedManifest,
	opts *options.RemediationOptions, enter func(ids []string), leave func(ids []string, err error)) ([]result.Patch, error) {
	patchFn := func(vulnIDs []string) common.StrategyResult {
		ids := append([]string(nil), vulnIDs...)
		enter(ids)
		var patched *remediation.ResolvedManifest
		var err error
		if override {
			patched, err = VerifOverridePatchVulns(ctx, cl, vm, resolved, vulnIDs, opts)
		} else {
			patched, err = VerifRelaxPatchVulns(ctx, cl, vm, resolved, vulnIDs, opts)
		}
		leave(ids, err)
		return common.StrategyResult{VulnIDs: vulnIDs, Resolved: patched, Err: err}
	}
	return common.ComputePatches(patchFn, resolved, override)
}
