//go:build verif

package maven

import (
	"bytes"

	forkedxml "github.com/michaelkedar/xml"
)

// VerifGeneratePropertyPatches re-exports generatePropertyPatches for the verification harness (C13).
func VerifGeneratePropertyPatches(s1, s2 string) (map[string]string, bool) {
	return generatePropertyPatches(s1, s2)
}

// VerifWriteString runs writeString (the token-level rewrite of one element) on raw with the given
// replacement values and returns what the encoder wrote.
func VerifWriteString(raw string, values map[string]string) (string, error) {
	var buf bytes.Buffer
	enc := forkedxml.NewEncoder(&buf)
	if err := writeString(enc, raw, values); err != nil {
		return "", err
	}
	return buf.String(), nil
}
