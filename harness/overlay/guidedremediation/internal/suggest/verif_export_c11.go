//go:build verif

package suggest

import (
	"context"

	"deps.dev/util/resolve"
	"github.com/google/osv-scalibr/guidedremediation/upgrade"
)

// VerifSuggestMavenVersion re-exports suggestMavenVersion for the verification harness (C11).
func VerifSuggestMavenVersion(ctx context.Context, cl resolve.Client, req resolve.RequirementVersion, level upgrade.Level) (resolve.RequirementVersion, error) {
	return suggestMavenVersion(ctx, cl, req, level)
}
