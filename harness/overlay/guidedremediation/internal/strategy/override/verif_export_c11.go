//go:build verif

package override

import (
	"context"

	"deps.dev/util/resolve"
	"github.com/google/osv-scalibr/guidedremediation/internal/remediation"
	"github.com/google/osv-scalibr/guidedremediation/matcher"
	"github.com/google/osv-scalibr/guidedremediation/options"
)

// VerifPatchVulns re-exports patchVulns (the override loop) for the verification harness (C11).
func VerifPatchVulns(ctx context.Context, cl resolve.Client, vm matcher.VulnerabilityMatcher, resolved *remediation.ResolvedManifest, vulnIDs []string, opts *options.RemediationOptions) (*remediation.ResolvedManifest, error) {
	return patchVulns(ctx, cl, vm, resolved, vulnIDs, opts)
}

// VerifGetVersionsGreater re-exports getVersionsGreater.
func VerifGetVersionsGreater(ctx context.Context, cl resolve.Client, vk resolve.VersionKey) ([]resolve.Version, error) {
	return getVersionsGreater(ctx, cl, vk)
}
