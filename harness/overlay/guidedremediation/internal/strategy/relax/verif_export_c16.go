//go:build verif

package relax

import (
	"context"
	"fmt"
	"reflect"

	"deps.dev/util/resolve"
	"github.com/google/osv-scalibr/guidedremediation/internal/remediation"
	"github.com/google/osv-scalibr/guidedremediation/internal/strategy/relax/relaxer"
	"github.com/google/osv-scalibr/guidedremediation/matcher"
	"github.com/google/osv-scalibr/guidedremediation/options"
)

// verifCallPatchVulns calls patchVulns whatever the order of its parameters, and also when the requirement relaxer is passed in
// instead of being looked up inside (C16): the hooks must keep building when the private signature is refactored, because a change
// that breaks the build is "seen" without any input being judged. Every parameter is matched by its static type; an unknown parameter
// type or result list is a broken tie (panic with a clear message, reported by the harness as such).
func verifCallPatchVulns(ctx context.Context, cl resolve.Client, vm matcher.VulnerabilityMatcher, resolved *remediation.ResolvedManifest, vulnIDs []string, opts *options.RemediationOptions) (*remediation.ResolvedManifest, error) {
	fn := reflect.ValueOf(patchVulns)
	t := fn.Type()
	have := map[reflect.Type]reflect.Value{
		reflect.TypeOf((*context.Context)(nil)).Elem():              reflect.ValueOf(&ctx).Elem(),
		reflect.TypeOf((*resolve.Client)(nil)).Elem():               reflect.ValueOf(&cl).Elem(),
		reflect.TypeOf((*matcher.VulnerabilityMatcher)(nil)).Elem(): reflect.ValueOf(&vm).Elem(),
		reflect.TypeOf(resolved):                                    reflect.ValueOf(resolved),
		reflect.TypeOf(vulnIDs):                                     reflect.ValueOf(vulnIDs),
		reflect.TypeOf(opts):                                        reflect.ValueOf(opts),
	}
	relaxerT := reflect.TypeOf((*relaxer.RequirementRelaxer)(nil)).Elem()
	args := make([]reflect.Value, t.NumIn())
	for i := range args {
		pt := t.In(i)
		if v, ok := have[pt]; ok {
			args[i] = v
			continue
		}
		if pt == relaxerT {
			r, err := relaxer.ForEcosystem(resolved.Manifest.System())
			if err != nil {
				return nil, err
			}
			args[i] = reflect.ValueOf(&r).Elem()
			continue
		}
		panic(fmt.Sprintf("verif: relax.patchVulns has a parameter of type %v the hook cannot supply (tie broken)", pt))
	}
	out := fn.Call(args)
	if len(out) != 2 {
		panic("verif: relax.patchVulns no longer returns (manifest, error) (tie broken)")
	}
	res, _ := out[0].Interface().(*remediation.ResolvedManifest)
	err, _ := out[1].Interface().(error)
	return res, err
}
