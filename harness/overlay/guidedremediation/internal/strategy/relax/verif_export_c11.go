//go:build verif

package relax

import (
	"context"

	"deps.dev/util/resolve"
	"github.com/google/osv-scalibr/guidedremediation/internal/remediation"
	"github.com/google/osv-scalibr/guidedremediation/matcher"
	"github.com/google/osv-scalibr/guidedremediation/options"
)

// VerifPatchVulns re-exports patchVulns (the relax loop) for the verification harness (C11).
func VerifPatchVulns(ctx context.Context, cl resolve.Client, vm matcher.VulnerabilityMatcher, resolved *remediation.ResolvedManifest, vulnIDs []string, opts *options.RemediationOptions) (*remediation.ResolvedManifest, error) {
	// by parameter type, not position: verif_export_c16.go (keeps building when the private signature is refactored)
	return verifCallPatchVulns(ctx, cl, vm, resolved, vulnIDs, opts)
}
