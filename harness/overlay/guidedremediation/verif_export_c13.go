//go:build verif

package guidedremediation

import (
	"github.com/google/osv-scalibr/guidedremediation/internal/manifest"
	"github.com/google/osv-scalibr/guidedremediation/internal/manifest/maven"
	"github.com/google/osv-scalibr/guidedremediation/internal/manifest/npm"
)

// VerifManifest and VerifReadWriter re-export the internal manifest interfaces (C13).
type VerifManifest = manifest.Manifest

// VerifReadWriter is the internal manifest.ReadWriter.
type VerifReadWriter = manifest.ReadWriter

// VerifMavenSpecific is the pom.xml manifest's ecosystem-specific data.
type VerifMavenSpecific = maven.ManifestSpecific

// VerifNpmReadWriter returns the package.json ReadWriter.
func VerifNpmReadWriter() (manifest.ReadWriter, error) { return npm.GetReadWriter("") }

// VerifMavenReadWriter returns the pom.xml ReadWriter for the given registry URL.
func VerifMavenReadWriter(registry string) (manifest.ReadWriter, error) {
	return maven.GetReadWriter(registry)
}

// VerifGeneratePropertyPatches re-exports maven.generatePropertyPatches.
func VerifGeneratePropertyPatches(s1, s2 string) (map[string]string, bool) {
	return maven.VerifGeneratePropertyPatches(s1, s2)
}

// VerifPomWriteString re-exports maven.writeString.
func VerifPomWriteString(raw string, values map[string]string) (string, error) {
	return maven.VerifWriteString(raw, values)
}
