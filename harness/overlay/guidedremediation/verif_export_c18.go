//go:build verif

package guidedremediation

import (
	"deps.dev/util/resolve"
	"github.com/google/osv-scalibr/guidedremediation/internal/vulns"
	"github.com/ossf/osv-schema/bindings/go/osvschema"
)

// VerifIsAffected re-exports the internal affected-version predicate for the verification harness.
func VerifIsAffected(v *osvschema.Vulnerability, sys resolve.System, name, version string) bool {
	p := vulns.VKToPackage(resolve.VersionKey{PackageKey: resolve.PackageKey{System: sys, Name: name}, Version: version, VersionType: resolve.Concrete})
	return vulns.IsAffected(v, p)
}
