//go:build verif

package guidedremediation

import (
	"deps.dev/util/resolve"
	"github.com/google/osv-scalibr/extractor"
	"github.com/google/osv-scalibr/guidedremediation/internal/remediation"
	"github.com/google/osv-scalibr/guidedremediation/internal/resolution"
	"github.com/google/osv-scalibr/guidedremediation/internal/severity"
	"github.com/google/osv-scalibr/guidedremediation/internal/vulns"
	"github.com/google/osv-scalibr/guidedremediation/options"
	"github.com/ossf/osv-schema/bindings/go/osvschema"
)

// VerifIsAffected re-exports the internal affected-version predicate for the verification harness.
func VerifIsAffected(v *osvschema.Vulnerability, sys resolve.System, name, version string) bool {
	p := vulns.VKToPackage(resolve.VersionKey{PackageKey: resolve.PackageKey{System: sys, Name: name}, Version: version, VersionType: resolve.Concrete})
	return vulns.IsAffected(v, p)
}

// VerifVKToPackage re-exports vulns.VKToPackage (the package carries the mock extractor).
func VerifVKToPackage(vk resolve.VersionKey) *extractor.Package { return vulns.VKToPackage(vk) }

// VerifSubgraph is the part of a resolution.DependencySubgraph that remediation.MatchVuln reads: the version key of the
// vulnerable node and the distance of the root node (node 0) from it.
type VerifSubgraph struct {
	Dep          resolve.VersionKey
	RootDistance int
}

// VerifMatchVuln builds a resolution.Vulnerability (internal type) from plain data and runs remediation.MatchVuln.
func VerifMatchVuln(opts options.RemediationOptions, osv *osvschema.Vulnerability, devOnly bool, subs []VerifSubgraph) bool {
	v := resolution.Vulnerability{OSV: osv, DevOnly: devOnly}
	for _, s := range subs {
		v.Subgraphs = append(v.Subgraphs, &resolution.DependencySubgraph{
			Dependency: 1,
			Nodes: map[resolve.NodeID]resolution.GraphNode{
				0: {Version: resolve.VersionKey{PackageKey: resolve.PackageKey{System: s.Dep.System, Name: "root"}, Version: "1.0.0", VersionType: resolve.Concrete}, Distance: s.RootDistance},
				1: {Version: s.Dep, Distance: 0},
			},
		})
	}
	return remediation.MatchVuln(opts, v)
}

// VerifSeverityScore re-exports severity.CalculateScore (used only to validate the harness's severity table at start-up).
func VerifSeverityScore(s osvschema.Severity) (float64, error) { return severity.CalculateScore(s) }
