//go:build verif

package list

// VerifNames re-exports the unexported name table (plugin names and group names -> initialisers)
// for the verification translator and the C19 correspondence generator.
func VerifNames() InitMap { return extractorNames }
