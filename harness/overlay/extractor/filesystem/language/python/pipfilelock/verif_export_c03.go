//go:build verif

package pipfilelock

import (
	"bytes"
	"encoding/hex"
	"encoding/json"
	"sort"
	"strings"
)

// VerifDecodeDoc decodes a Pipfile.lock exactly as Extract does and prints `default|develop`
// (name:version-field entries in key order).
func VerifDecodeDoc(b []byte) (string, error) {
	parsedLockfile := &pipenvLockFile{}
	if err := json.NewDecoder(bytes.NewReader(b)).Decode(parsedLockfile); err != nil {
		return "", err
	}
	f := func(m map[string]pipenvPackage) string {
		keys := make([]string, 0, len(m))
		for k := range m {
			keys = append(keys, k)
		}
		sort.Strings(keys)
		xs := make([]string, len(keys))
		for i, k := range keys {
			xs[i] = hex.EncodeToString([]byte(k)) + ":" + hex.EncodeToString([]byte(m[k].Version))
		}
		if len(xs) == 0 {
			return "-"
		}
		return strings.Join(xs, ",")
	}
	return f(parsedLockfile.Packages) + "|" + f(parsedLockfile.PackagesDev), nil
}
