//go:build verif

package packagelockjson

import (
	"bytes"
	"encoding/hex"
	"encoding/json"
	"sort"
	"strconv"
	"strings"

	"github.com/google/osv-scalibr/extractor/filesystem/language/javascript/internal/commitextractor"
	"github.com/google/osv-scalibr/internal/dependencyfile/packagelockjson"
)

func verifHex(s string) string { return hex.EncodeToString([]byte(s)) }

func verifDeps(sb *strings.Builder, deps map[string]packagelockjson.Dependency) {
	keys := make([]string, 0, len(deps))
	for k := range deps {
		keys = append(keys, k)
	}
	sort.Strings(keys)
	for _, k := range keys {
		d := deps[k]
		sb.WriteString(";" + verifHex(k) + ":" + verifHex(d.Version) + ":" + verifHex(commitextractor.TryExtractCommit(d.Version)) + ":" + strconv.Itoa(len(d.Dependencies)))
		verifDeps(sb, d.Dependencies)
	}
}

// VerifDecodeDoc decodes a package-lock.json exactly as extractPkgLock does and prints the decoded document
// in the line protocol of lean/Drivers/C03.lean (map entries in key order; the commit that
// commitextractor.TryExtractCommit assigns to each version / resolved string is printed next to it).
func VerifDecodeDoc(b []byte) (string, error) {
	parsedLockfile := &packagelockjson.LockFile{}
	if err := json.NewDecoder(bytes.NewReader(b)).Decode(parsedLockfile); err != nil {
		return "", err
	}
	var sb strings.Builder
	if parsedLockfile.Packages != nil {
		sb.WriteString("p")
		keys := make([]string, 0, len(parsedLockfile.Packages))
		for k := range parsedLockfile.Packages {
			keys = append(keys, k)
		}
		sort.Strings(keys)
		for _, k := range keys {
			p := parsedLockfile.Packages[k]
			sb.WriteString(";" + verifHex(k) + ":" + verifHex(p.Name) + ":" + verifHex(p.Version) + ":" + verifHex(commitextractor.TryExtractCommit(p.Resolved)))
		}
		return sb.String(), nil
	}
	sb.WriteString("d;" + strconv.Itoa(len(parsedLockfile.Dependencies)))
	verifDeps(&sb, parsedLockfile.Dependencies)
	return sb.String(), nil
}

// VerifNpmName exposes extractNpmPackageName.
func VerifNpmName(p string) string { return extractNpmPackageName(p) }
