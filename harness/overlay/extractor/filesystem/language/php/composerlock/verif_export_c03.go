//go:build verif

package composerlock

import (
	"bytes"
	"encoding/hex"
	"encoding/json"
	"strings"
)

// VerifDecodeDoc decodes a composer.lock exactly as Extract does and prints `packages|packages-dev`.
func VerifDecodeDoc(b []byte) (string, error) {
	parsedLockfile := &composerLock{}
	if err := json.NewDecoder(bytes.NewReader(b)).Decode(parsedLockfile); err != nil {
		return "", err
	}
	f := func(ps []composerPackage) string {
		xs := make([]string, len(ps))
		for i, p := range ps {
			xs[i] = hex.EncodeToString([]byte(p.Name)) + ":" + hex.EncodeToString([]byte(p.Version))
		}
		if len(xs) == 0 {
			return "-"
		}
		return strings.Join(xs, ",")
	}
	return f(parsedLockfile.Packages) + "|" + f(parsedLockfile.PackagesDev), nil
}
