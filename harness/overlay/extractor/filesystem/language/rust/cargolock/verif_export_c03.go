//go:build verif

package cargolock

import (
	"bytes"
	"encoding/hex"
	"errors"
	"strings"

	"github.com/BurntSushi/toml"
)

// VerifDecodeDoc decodes a Cargo.lock exactly as Extract does and prints the [[package]] list.
func VerifDecodeDoc(b []byte) (string, error) {
	var parsedLockfile *cargoLockFile
	if _, err := toml.NewDecoder(bytes.NewReader(b)).Decode(&parsedLockfile); err != nil {
		return "", err
	}
	if parsedLockfile == nil {
		return "", errors.New("nil document")
	}
	xs := make([]string, len(parsedLockfile.Packages))
	for i, p := range parsedLockfile.Packages {
		xs[i] = hex.EncodeToString([]byte(p.Name)) + ":" + hex.EncodeToString([]byte(p.Version))
	}
	if len(xs) == 0 {
		return "-", nil
	}
	return strings.Join(xs, ","), nil
}
