//go:build verif

package list

// VerifNames re-exports the unexported name table (detector names and group names -> initialisers)
// for the verification translator and the C19 correspondence generator.
func VerifNames() InitMap { return detectorNames }
