//go:build verif

package image

import (
	"io/fs"

	scalibrfs "github.com/google/osv-scalibr/fs"
)

// VerifNodeC04 exposes what FS.getFileNode finds at name, before any symlink resolution (the
// public Stat/Open always follow links), for the verification harness of C04.
func VerifNodeC04(fsys scalibrfs.FS, name string) (found bool, isWhiteout bool, mode fs.FileMode, size int64, target string) {
	c, ok := fsys.(*FS)
	if !ok {
		return false, false, 0, 0, ""
	}
	n, err := c.getFileNode(name)
	if err != nil || n == nil {
		return false, false, 0, 0, ""
	}
	return true, n.isWhiteout, n.mode, n.size, n.targetPath
}
