// Package remx holds what the guided-remediation generators (c11gen, c12gen) share: in-memory
// universes built with deps.dev's resolve/schema text format, a local vulnerability matcher running the
// real vulns.IsAffected, and rank tables of version strings.
package remx

import (
	"context"
	"fmt"
	"hash/fnv"
	"net/http"
	"net/http/httptest"
	"os"
	"path/filepath"
	"sort"
	"strings"
	"sync"

	"deps.dev/util/resolve"
	"deps.dev/util/resolve/schema"
	"deps.dev/util/semver"
	"github.com/google/osv-scalibr/extractor"
	"github.com/google/osv-scalibr/guidedremediation"
	"github.com/google/osv-scalibr/guidedremediation/options"
	"github.com/google/osv-scalibr/guidedremediation/strategy"
	"github.com/google/osv-scalibr/guidedremediation/upgrade"
	"github.com/ossf/osv-schema/bindings/go/osvschema"
)

// MavenPool / NpmPool: version strings strictly increasing in their ecosystem's order (asserted by CheckPools).
var MavenPool = []string{"0.9.0", "1.0.0-alpha-1", "1.0.0-rc1", "1.0.0", "1.0.1", "1.0.2", "1.1.0", "1.1.1", "1.2.0-beta-1", "1.2.0",
	"2.0.0-rc1", "2.0.0", "2.0.1", "2.1.0", "3.0.0", "10.0.0"}

// NpmPool is the npm analogue.
var NpmPool = []string{"0.9.0", "0.9.5", "0.10.0", "1.0.0-alpha.1", "1.0.0-rc.1", "1.0.0", "1.0.1", "1.0.2", "1.1.0", "1.1.1", "1.2.0-beta.1", "1.2.0",
	"2.0.0-rc.1", "2.0.0", "2.0.1", "2.1.0", "2.5.0", "3.0.0-alpha", "3.0.0", "3.1.0", "4.0.0-pre", "10.0.0"}

// CheckChain panics unless the comparator orders the pool strictly increasing on ALL pairs (adjacent comparisons alone
// would not show a non-transitive comparator).
func CheckChain(name string, pool []string, cmp func(a, b string) int) {
	for i := range pool {
		for j := range pool {
			c := cmp(pool[i], pool[j])
			if (i < j && c >= 0) || (i == j && c != 0) || (i > j && c <= 0) {
				panic(fmt.Sprintf("%s: comparator disagrees with the pool order on %q / %q", name, pool[i], pool[j]))
			}
		}
	}
}

// CheckPools panics unless the pools are chains of their ecosystem's comparator.
func CheckPools() {
	CheckChain("MavenPool", MavenPool, semver.Maven.Compare)
	CheckChain("NpmPool", NpmPool, semver.NPM.Compare)
}

// Pkg is one package of a universe: its versions and, per version, its dependencies "name@requirement".
type Pkg struct {
	Name     string
	Versions []string
	Deps     map[string][]string
	Tags     map[string]string `json:",omitempty"` // version -> comma separated dist-tags (npm: latest, next, beta, …)
}

// SchemaText renders packages in the schema grammar.
func SchemaText(pkgs []Pkg) string {
	var sb strings.Builder
	for _, p := range pkgs {
		sb.WriteString(p.Name + "\n")
		for _, v := range p.Versions {
			sb.WriteString("\t" + v + "\n")
			if t := p.Tags[v]; t != "" {
				sb.WriteString("\t\tATTR: Tags " + t + "\n")
			}
			for _, d := range p.Deps[v] {
				sb.WriteString("\t\t" + d + "\n")
			}
		}
	}
	return sb.String()
}

// Client builds the in-memory resolve client of a universe.
func Client(pkgs []Pkg, sys resolve.System) (resolve.Client, error) {
	sch, err := schema.New(SchemaText(pkgs), sys)
	if err != nil {
		return nil, fmt.Errorf("schema: %w", err)
	}
	return sch.NewClient(), nil
}

// Matcher is a local matcher.VulnerabilityMatcher over a fixed list of OSV records.
type Matcher []*osvschema.Vulnerability

// MatchVulnerabilities runs the real IsAffected for every (package, record) pair.
func (m Matcher) MatchVulnerabilities(_ context.Context, pkgs []*extractor.Package) ([][]*osvschema.Vulnerability, error) {
	out := make([][]*osvschema.Vulnerability, len(pkgs))
	for i, p := range pkgs {
		for _, v := range m {
			if guidedremediation.VerifIsAffectedPkg(v, p) {
				out[i] = append(out[i], v)
			}
		}
	}
	return out, nil
}

// VulnSpec describes one generated OSV record on a rank table: package, introduced rank (-1 = "0"), fixed rank
// (-1 = none, i.e. never fixed), or an explicit version list.
type VulnSpec struct {
	ID         string
	Pkg        string
	Introduced int
	Fixed      int
	Last       int // last_affected rank, -1 = unused
	Explicit   []int
	Sev        []int `json:",omitempty"` // indices into SevTable: the record's severities …
	SevInAff   bool  `json:",omitempty"` // … written on the affected[] entry instead of the top level
	Also       string `json:",omitempty"` // a second package the record affects (same ranges): one vulnerability, two packages
	AliasOf    []string `json:",omitempty"` // further aliases of the record: ids of OTHER records (alias-linked advisories) or ids nothing has
}

// SevTable / SevTenths: CVSS vectors and round(10 * published base score); -1000 = not a CVSS vector (skipped by the filter).
// The scores are those of the CVSS calculators for these vectors, not taken from the code under test.
var SevTable = []osvschema.Severity{
	{Type: "CVSS_V3", Score: "CVSS:3.1/AV:N/AC:L/PR:N/UI:N/S:U/C:H/I:H/A:H"},
	{Type: "CVSS_V3", Score: "CVSS:3.1/AV:N/AC:L/PR:N/UI:N/S:U/C:N/I:N/A:H"},
	{Type: "CVSS_V3", Score: "CVSS:3.0/AV:N/AC:L/PR:N/UI:R/S:C/C:L/I:L/A:N"},
	{Type: "CVSS_V3", Score: "CVSS:3.1/AV:L/AC:H/PR:L/UI:N/S:U/C:L/I:N/A:N"},
	{Type: "CVSS_V2", Score: "AV:N/AC:L/Au:N/C:P/I:P/A:P"},
	{Type: "CVSS_V3", Score: "garbage"},
	{Type: "CVSS_V3", Score: "CVSS:3.1/AV:N/AC:L/PR:N/UI:N/S:U/C:N/I:N/A:N"},
	{Type: "CVSS_V3", Score: "CVSS:3.1/AV:N/AC:H/PR:N/UI:R/S:U/C:L/I:L/A:N"},
}
var SevTenths = []int{98, 75, 61, 25, 75, -1000, 0, 42}

// OSV builds the record for an ecosystem ("Maven" / "npm") over a rank table.
func (s VulnSpec) OSV(eco string, table []string) *osvschema.Vulnerability {
	a := osvschema.Affected{Package: osvschema.Package{Ecosystem: eco, Name: s.Pkg}}
	if len(s.Explicit) > 0 {
		for _, r := range s.Explicit {
			a.Versions = append(a.Versions, table[r])
		}
	} else {
		intro := "0"
		if s.Introduced >= 0 {
			intro = table[s.Introduced]
		}
		ev := []osvschema.Event{{Introduced: intro}}
		if s.Fixed >= 0 {
			ev = append(ev, osvschema.Event{Fixed: table[s.Fixed]})
		} else if s.Last >= 0 {
			ev = append(ev, osvschema.Event{LastAffected: table[s.Last]})
		}
		a.Ranges = []osvschema.Range{{Type: osvschema.RangeEcosystem, Events: ev}}
		if eco == "npm" {
			a.Ranges[0].Type = osvschema.RangeSemVer
		}
	}
	o := &osvschema.Vulnerability{ID: s.ID}
	for _, i := range s.Sev {
		if s.SevInAff {
			a.Severity = append(a.Severity, SevTable[i])
		} else {
			o.Severity = append(o.Severity, SevTable[i])
		}
	}
	o.Affected = []osvschema.Affected{a}
	if s.Also != "" {
		b := a
		b.Package.Name = s.Also
		o.Affected = append(o.Affected, b)
	}
	return o
}

// Affects evaluates a spec on a rank with the real predicate.
func Affects(v *osvschema.Vulnerability, sys resolve.System, name, version string) bool {
	return guidedremediation.VerifIsAffected(v, sys, name, version)
}

// ConfigFor builds the upgrade.Config of a case.  For about half of the cases (chosen by a hash of `seed`, the case's own text, so a
// replay takes the same route) it goes through the textual entry point upgrade.NewConfigFromStrings — the CLI's --upgrade-config —
// with one "name:level" string per package (Maven names carry a colon of their own), the default level as a bare word or ":word",
// and, now and then, an earlier entry for the same package that the later one must overwrite and an entry with an unknown level word
// that must be ignored.  Otherwise (and for levels outside the four named ones) Config.Set.  Both routes mean the same configuration.
func ConfigFor(seed string, levels map[string]int) upgrade.Config {
	h := fnv.New32a()
	h.Write([]byte(seed))
	x := h.Sum32()
	words := []string{"major", "minor", "patch", "none"}
	textual := x%2 == 0
	for _, l := range levels {
		if l < 0 || l > 3 {
			textual = false
		}
	}
	if !textual {
		cfg := upgrade.NewConfig()
		for k, v := range levels {
			if k == "" {
				cfg.SetDefault(upgrade.Level(v))
			} else {
				cfg.Set(k, upgrade.Level(v))
			}
		}
		return cfg
	}
	var names []string
	for k := range levels {
		names = append(names, k)
	}
	sort.Strings(names)
	var strs []string
	for i, k := range names {
		l := levels[k]
		if (x>>2)%3 == 0 {
			strs = append(strs, k+":"+words[(l+1+i)%4]) // overwritten below
		}
		if k == "" && (x>>4)%2 == 0 {
			strs = append(strs, words[l])
		} else {
			strs = append(strs, k+":"+words[l])
		}
		if (x>>5)%4 == 0 {
			strs = append(strs, k+":latest") // not a level: ignored
		}
	}
	return upgrade.NewConfigFromStrings(strs)
}

// SpecMavenCompare is the SPECIFICATION of mavenutil.CompareVersions, stated independently of it: Maven's version order (deps.dev
// semver.Maven, third party) — in which distinct spellings of one version (1.0, 1.0.0, 1.0.0.Final) are EQUAL — with the two documented
// exceptions: for com.google.guava:guava the flavour (-android or not) of the version in vk ranks above the other flavour, and for
// commons-* packages the date-like versions (200…) rank below all others.  nil sorts first.  The rank tables handed to the Lean
// models are built from this function, never from the code under test; the generators also compare the two on every pair.
func SpecMavenCompare(vk resolve.VersionKey, a, b *semver.Version) int {
	switch {
	case a == nil && b == nil:
		return -1 // as the code: a == nil is looked at first
	case a == nil:
		return -1
	case b == nil:
		return 1
	}
	if vk.Name == "com.google.guava:guava" {
		want := strings.HasSuffix(vk.Version, "-android")
		fa, fb := strings.HasSuffix(a.String(), "-android"), strings.HasSuffix(b.String(), "-android")
		if fa != fb {
			if fa == want {
				return 1
			}
			return -1
		}
	} else if strings.HasPrefix(vk.Name, "commons-") {
		da, db := strings.HasPrefix(a.String(), "200"), strings.HasPrefix(b.String(), "200")
		if da != db {
			if da {
				return -1
			}
			return 1
		}
	}
	return a.Compare(b)
}

// CompareAgrees reports whether the real mavenutil.CompareVersions has the sign of SpecMavenCompare on every pair of vs.
func CompareAgrees(vk resolve.VersionKey, vs []*semver.Version) bool {
	sgn := func(x int) int {
		switch {
		case x < 0:
			return -1
		case x > 0:
			return 1
		}
		return 0
	}
	for _, a := range vs {
		for _, b := range vs {
			if sgn(guidedremediation.VerifMavenCompareVersions(vk, a, b)) != sgn(SpecMavenCompare(vk, a, b)) {
				return false
			}
		}
	}
	return true
}

// Registry is an in-process Maven repository (plain HTTP, the layout of Maven Central): <url>/<group/as/path>/<artifact>/<version>/
// <artifact>-<version>.pom.  Set replaces what it serves; a coordinate it does not hold is a 404.  Requests are counted per path.
type Registry struct {
	URL  string
	mu   sync.Mutex
	poms map[string]string // "group:artifact:version" -> pom.xml text
	Hits map[string]int
	srv  *httptest.Server
}

// NewRegistry starts the server (closed with the process).
func NewRegistry() *Registry {
	r := &Registry{poms: map[string]string{}, Hits: map[string]int{}}
	r.srv = httptest.NewServer(http.HandlerFunc(func(w http.ResponseWriter, q *http.Request) {
		r.mu.Lock()
		defer r.mu.Unlock()
		r.Hits[q.URL.Path]++
		for gav, pom := range r.poms {
			p := strings.Split(gav, ":")
			if q.URL.Path == "/"+strings.ReplaceAll(p[0], ".", "/")+"/"+p[1]+"/"+p[2]+"/"+p[1]+"-"+p[2]+".pom" {
				w.Header().Set("Content-Type", "application/xml")
				fmt.Fprint(w, pom)
				return
			}
		}
		http.NotFound(w, q)
	}))
	r.URL = r.srv.URL
	return r
}

// Set replaces the poms served.
func (r *Registry) Set(poms map[string]string) {
	r.mu.Lock()
	defer r.mu.Unlock()
	r.poms = poms
	r.Hits = map[string]int{}
}

// EntryPoint runs one misuse / boundary case of the public entry points FixVulns and Update (kind k, see lean/Scalibr/Spec/EntryPoints.lean)
// in a fresh directory under scratch and reports r=err|ok, errs=<number of resolve errors in the result>, same=<the manifest file, if
// the case has one, is byte-identical afterwards>.
func EntryPoint(k int, scratch string) string {
	dir, err := os.MkdirTemp(scratch, "ep")
	if err != nil {
		panic(err)
	}
	defer os.RemoveAll(dir)
	npmOK := "{\n  \"name\": \"root\",\n  \"version\": \"1.0.0\",\n  \"dependencies\": {\n    \"lib\": \"^1.0.0\"\n  }\n}\n"
	pomOK := "<project>\n  <modelVersion>4.0.0</modelVersion>\n  <groupId>root.g</groupId>\n  <artifactId>root-a</artifactId>\n  <version>1.0</version>\n  <dependencies>\n    <dependency>\n      <groupId>g</groupId>\n      <artifactId>lib</artifactId>\n      <version>1.0.0</version>\n    </dependency>\n  </dependencies>\n</project>\n"
	write := func(name, content string) string {
		p := filepath.Join(dir, name)
		if err := os.WriteFile(p, []byte(content), 0o644); err != nil {
			panic(err)
		}
		return p
	}
	npmCl, err := Client([]Pkg{{Name: "lib", Versions: []string{"1.0.0", "1.0.1", "2.0.0"}}}, resolve.NPM)
	if err != nil {
		panic(err)
	}
	mvnCl, err := Client([]Pkg{{Name: "g:lib", Versions: []string{"1.0.0", "1.0.1", "2.0.0"}}}, resolve.Maven)
	if err != nil {
		panic(err)
	}
	npmV := []*osvschema.Vulnerability{VulnSpec{ID: "V-1", Pkg: "lib", Introduced: -1, Fixed: 1, Last: -1}.OSV("npm", []string{"1.0.0", "1.0.1", "2.0.0"})}
	mvnV := []*osvschema.Vulnerability{VulnSpec{ID: "V-1", Pkg: "g:lib", Introduced: -1, Fixed: 1, Last: -1}.OSV("Maven", []string{"1.0.0", "1.0.1", "2.0.0"})}
	fix := func(o options.FixVulnsOptions, cl resolve.Client, vs []*osvschema.Vulnerability) (int, error) {
		o.ResolveClient, o.MatcherClient = cl, Matcher(vs)
		o.DefaultRepository = "http://127.0.0.1:1/"
		o.RemediationOptions = options.RemediationOptions{DevDeps: true, MaxDepth: -1, UpgradeConfig: upgrade.NewConfig()}
		res, err := guidedremediation.FixVulns(o)
		return len(res.Errors), err
	}
	upd := func(o options.UpdateOptions) (int, error) {
		o.ResolveClient = mvnCl
		o.DefaultRepository = "http://127.0.0.1:1/"
		o.UpgradeConfig = upgrade.NewConfig()
		_, err := guidedremediation.Update(o)
		return 0, err
	}
	path, content := "", ""
	var n int
	switch k {
	case 0:
		n, err = fix(options.FixVulnsOptions{}, npmCl, npmV)
	case 1:
		path, content = write("build.gradle", "dependencies {}\n"), "dependencies {}\n"
		n, err = fix(options.FixVulnsOptions{Manifest: path}, npmCl, npmV)
	case 2:
		path, content = write("package-lock.json", "{}\n"), "{}\n"
		n, err = fix(options.FixVulnsOptions{Lockfile: path}, npmCl, npmV)
	case 3:
		n, err = fix(options.FixVulnsOptions{Manifest: filepath.Join(dir, "missing", "package.json")}, npmCl, npmV)
	case 4:
		path, content = write("package.json", "{ \"name\": \"root\", \"dependencies\": { \"lib\": \n"), "{ \"name\": \"root\", \"dependencies\": { \"lib\": \n"
		n, err = fix(options.FixVulnsOptions{Manifest: path}, npmCl, npmV)
	case 5:
		path, content = write("pom.xml", "<project><dependencies><dependency>\n"), "<project><dependencies><dependency>\n"
		n, err = fix(options.FixVulnsOptions{Manifest: path}, mvnCl, mvnV)
	case 6:
		path = write("pom.xml", pomOK)
		n, err = fix(options.FixVulnsOptions{Manifest: path, Strategy: strategy.StrategyOverride}, mvnCl, mvnV)
	case 7:
		path = write("package.json", npmOK)
		n, err = fix(options.FixVulnsOptions{Manifest: path, Strategy: strategy.StrategyRelax}, npmCl, npmV)
	case 8:
		path, content = write("package.json", npmOK), npmOK
		n, err = fix(options.FixVulnsOptions{Manifest: path, Strategy: strategy.Strategy("bogus")}, npmCl, npmV)
	case 9:
		n, err = upd(options.UpdateOptions{})
	case 10:
		path, content = write("package.json", npmOK), npmOK
		n, err = upd(options.UpdateOptions{Manifest: path})
	case 11:
		n, err = upd(options.UpdateOptions{Manifest: filepath.Join(dir, "missing", "pom.xml")})
	case 12:
		path = write("pom.xml", pomOK)
		n, err = upd(options.UpdateOptions{Manifest: path})
	case 13: // a requirement on a package the registry does not know
		path, content = write("package.json", strings.Replace(npmOK, "\"lib\": \"^1.0.0\"", "\"lib\": \"^1.0.0\",\n    \"nowhere\": \"^1.0.0\"", 1)), ""
		n, err = fix(options.FixVulnsOptions{Manifest: path}, npmCl, npmV)
	case 14:
		path, content = write("pom.xml", pomOK), pomOK
		n, err = fix(options.FixVulnsOptions{Manifest: path, Lockfile: filepath.Join(dir, "package-lock.json")}, mvnCl, mvnV)
	case 15: // a requirement no known version satisfies
		path, content = write("package.json", strings.Replace(npmOK, "^1.0.0", "^7.0.0", 1)), ""
		n, err = fix(options.FixVulnsOptions{Manifest: path}, npmCl, npmV)
	case 16: // upper-case file name: the switch lower-cases it
		path = write("POM.XML", pomOK)
		n, err = fix(options.FixVulnsOptions{Manifest: path}, mvnCl, mvnV)
	case 17: // a section key spelled with a capital letter: encoding/json reads it, the JSON path of the writer does not find it
		cap := strings.Replace(strings.Replace(npmOK, "\"dependencies\"", "\"Dependencies\"", 1), "^1.0.0", "1.0.0", 1) // pinned to the vulnerable version
		path, content = write("package.json", cap), cap
		n, err = fix(options.FixVulnsOptions{Manifest: path}, npmCl, npmV)
	default:
		return "bad-case"
	}
	same := "-"
	if content != "" {
		b, rerr := os.ReadFile(path)
		same = "0"
		if rerr == nil && string(b) == content {
			same = "1"
		}
	}
	r := "ok"
	if err != nil {
		r = "err"
	}
	return fmt.Sprintf("r=ok outcome=%s errs=%d same=%s", r, n, same)
}

// EntryPointKinds is the number of kinds EntryPoint knows.
const EntryPointKinds = 18
