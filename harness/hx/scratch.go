package hx

import (
	"os"
	"syscall"
)

// minShmFree is the free space /dev/shm must have before a generator puts its scratch files there.
// Containers often mount a 64 MiB tmpfs at /dev/shm: a stream that fills it gets ENOSPC inside the implementation under test
// (or truncated worker output) and looks like a model/implementation mismatch. Below the threshold the generators use $TMPDIR
// (the private on-disk scratch directory ./check creates for every run).
const minShmFree = 4 << 30

// ScratchBase returns the directory generators create their scratch directories in: $VERIF_SCRATCH_BASE if set, /dev/shm when it
// is a roomy memory file system, otherwise "" (os.MkdirTemp then uses $TMPDIR).
func ScratchBase() string {
	if b := os.Getenv("VERIF_SCRATCH_BASE"); b != "" {
		return b
	}
	if os.Getenv("VERIF_NO_SHM") == "" && FreeBytes("/dev/shm") >= minShmFree {
		return "/dev/shm"
	}
	return ""
}

// FreeBytes returns the space available to this process on the file system holding dir (0 when it cannot be determined).
func FreeBytes(dir string) uint64 {
	st, err := os.Stat(dir)
	if err != nil || !st.IsDir() {
		return 0
	}
	var fs syscall.Statfs_t
	if err := syscall.Statfs(dir, &fs); err != nil {
		return 0
	}
	return fs.Bavail * uint64(fs.Bsize)
}
