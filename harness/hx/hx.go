// Package hx holds what every correspondence generator shares: flags, a seeded PRNG, hex
// encoding and the "<case>\t<impl reply>" output convention (DESIGN.md §2.4).
package hx

import (
	"bufio"
	"encoding/hex"
	"flag"
	"fmt"
	"io"
	stdlog "log"
	"math/rand"
	"os"
	"strings"
)

func init() {
	// the library logs through the standard logger; keep stderr for the harness's own diagnostics
	stdlog.SetOutput(io.Discard)
}

// Opts are the flags common to all generators.
type Opts struct {
	Seed   int64
	N      int
	Tier   string
	Replay string
}

// Parse reads the common flags.
func Parse() Opts {
	var o Opts
	flag.Int64Var(&o.Seed, "seed", 1, "PRNG seed (VERIF_SEED)")
	flag.IntVar(&o.N, "n", 1000, "number of random cases")
	flag.StringVar(&o.Tier, "tier", "quick", "quick|thorough")
	flag.StringVar(&o.Replay, "replay", "", "file with case lines to run instead of generating")
	flag.Parse()
	return o
}

// Rng returns the PRNG every random choice must come from.
func Rng(o Opts) *rand.Rand { return rand.New(rand.NewSource(o.Seed)) }

// Out is the buffered stdout writer.
type Out struct{ w *bufio.Writer }

// NewOut creates the writer.
func NewOut() *Out { return &Out{bufio.NewWriterSize(os.Stdout, 1<<20)} }

// Emit writes one "<case>\t<reply>" line.
func (o *Out) Emit(c, reply string) {
	if strings.ContainsAny(c, "\t\n") || strings.ContainsAny(reply, "\t\n") {
		panic("hx: tab or newline in a protocol line: " + c + " / " + reply)
	}
	fmt.Fprintf(o.w, "%s\t%s\n", c, reply)
}

// Flush flushes.
func (o *Out) Flush() { o.w.Flush() }

// Hex encodes a string's bytes; the empty string is "-".
func Hex(s string) string {
	if s == "" {
		return "-"
	}
	return hex.EncodeToString([]byte(s))
}

// UnHex decodes Hex.
func UnHex(s string) string {
	if s == "-" || s == "" {
		return ""
	}
	b, err := hex.DecodeString(s)
	if err != nil {
		panic(err)
	}
	return string(b)
}

// Join joins with sep, "-" for empty.
func Join(xs []string, sep string) string {
	if len(xs) == 0 {
		return "-"
	}
	return strings.Join(xs, sep)
}

// B prints a bool as 1/0.
func B(b bool) string {
	if b {
		return "1"
	}
	return "0"
}

// ReplayLines returns the case lines of a replay file (the part before a tab, if any).
func ReplayLines(path string) []string {
	data, err := os.ReadFile(path)
	if err != nil {
		panic(err)
	}
	var out []string
	for _, l := range strings.Split(string(data), "\n") {
		l = strings.TrimRight(l, "\r")
		if l == "" || strings.HasPrefix(l, "#") {
			continue
		}
		if i := strings.IndexByte(l, '\t'); i >= 0 {
			l = l[:i]
		}
		out = append(out, l)
	}
	return out
}

// Guard runs f and converts a panic into the reply "panic".
func Guard(f func() string) (reply string) {
	defer func() {
		if r := recover(); r != nil {
			reply = "panic"
		}
	}()
	return f()
}
