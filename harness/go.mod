module verif/harness

go 1.24.0

require (
	deps.dev/util/resolve v0.0.0-20250310223405-f4cf91c9e684
	deps.dev/util/semver v0.0.0-20250307021655-d811e36f9cad
	github.com/containerd/containerd v1.7.27
	github.com/erikvarga/go-rpmdb v0.0.0-20240208180226-b97e041ef9af
	github.com/go-git/go-git/v5 v5.14.0
	github.com/gobwas/glob v0.2.3
	github.com/google/go-containerregistry v0.19.1
	github.com/google/osv-scalibr v0.0.0
	github.com/mattn/go-sqlite3 v1.14.22
	github.com/ossf/osv-schema/bindings/go v0.0.0-20250210065807-ab8a4f6e6389
	github.com/package-url/packageurl-go v0.1.2
	go.etcd.io/bbolt v1.3.10
	golang.org/x/mod v0.21.0
	google.golang.org/protobuf v1.36.5
)

require (
	deps.dev/api/v3 v3.0.0-20250307021655-d811e36f9cad // indirect
	deps.dev/util/maven v0.0.0-20250307021655-d811e36f9cad // indirect
	deps.dev/util/pypi v0.0.0-20250307021655-d811e36f9cad // indirect
	github.com/BurntSushi/toml v1.3.2 // indirect
	github.com/CycloneDX/cyclonedx-go v0.9.0 // indirect
	github.com/GehirnInc/crypt v0.0.0-20230320061759-8cc1b52080c5 // indirect
	github.com/anchore/go-struct-converter v0.0.0-20230627203149-c72ef8859ca9 // indirect
	github.com/containerd/containerd/api v1.8.0 // indirect
	github.com/containerd/continuity v0.4.4 // indirect
	github.com/containerd/errdefs v0.3.0 // indirect
	github.com/containerd/fifo v1.1.0 // indirect
	github.com/containerd/log v0.1.0 // indirect
	github.com/containerd/platforms v0.2.1 // indirect
	github.com/containerd/stargz-snapshotter/estargz v0.15.1 // indirect
	github.com/containerd/ttrpc v1.2.7 // indirect
	github.com/containerd/typeurl/v2 v2.1.1 // indirect
	github.com/davecgh/go-spew v1.1.1 // indirect
	github.com/deitch/magic v0.0.0-20240306090643-c67ab88f10cb // indirect
	github.com/distribution/reference v0.6.0 // indirect
	github.com/docker/cli v25.0.3+incompatible // indirect
	github.com/docker/distribution v2.8.3+incompatible // indirect
	github.com/docker/docker v25.0.6+incompatible // indirect
	github.com/docker/docker-credential-helpers v0.8.1 // indirect
	github.com/docker/go-events v0.0.0-20190806004212-e31b211e4f1c // indirect
	github.com/edsrzf/mmap-go v1.1.0 // indirect
	github.com/felixge/httpsnoop v1.0.3 // indirect
	github.com/go-git/gcfg v1.5.1-0.20230307220236-3a3c6141e376 // indirect
	github.com/go-git/go-billy/v5 v5.6.2 // indirect
	github.com/go-logr/logr v1.4.2 // indirect
	github.com/go-logr/stdr v1.2.2 // indirect
	github.com/gogo/protobuf v1.3.2 // indirect
	github.com/google/go-cmp v0.7.0 // indirect
	github.com/google/uuid v1.6.0 // indirect
	github.com/groob/plist v0.1.1 // indirect
	github.com/jbenet/go-context v0.0.0-20150711004518-d14ea06fba99 // indirect
	github.com/klauspost/compress v1.17.7 // indirect
	github.com/michaelkedar/xml v0.0.0-20250310223042-5d14c9302b17 // indirect
	github.com/mitchellh/go-homedir v1.1.0 // indirect
	github.com/moby/locker v1.0.1 // indirect
	github.com/moby/sys/mountinfo v0.6.2 // indirect
	github.com/moby/sys/signal v0.7.0 // indirect
	github.com/moby/sys/user v0.3.0 // indirect
	github.com/moby/sys/userns v0.1.0 // indirect
	github.com/opencontainers/go-digest v1.0.0 // indirect
	github.com/opencontainers/image-spec v1.1.0 // indirect
	github.com/opencontainers/runtime-spec v1.1.0 // indirect
	github.com/opencontainers/selinux v1.11.0 // indirect
	github.com/pandatix/go-cvss v0.6.2 // indirect
	github.com/pkg/errors v0.9.1 // indirect
	github.com/rust-secure-code/go-rustaudit v0.0.0-20250226111315-e20ec32e963c // indirect
	github.com/saferwall/pe v1.5.6 // indirect
	github.com/secDre4mer/pkcs7 v0.0.0-20240322103146-665324a4461d // indirect
	github.com/sirupsen/logrus v1.9.3 // indirect
	github.com/spdx/gordf v0.0.0-20221230105357-b735bd5aac89 // indirect
	github.com/spdx/tools-golang v0.5.3 // indirect
	github.com/tidwall/gjson v1.18.0 // indirect
	github.com/tidwall/jsonc v0.3.2 // indirect
	github.com/tidwall/match v1.1.1 // indirect
	github.com/tidwall/pretty v1.2.0 // indirect
	github.com/tidwall/sjson v1.2.5 // indirect
	github.com/vbatts/tar-split v0.11.5 // indirect
	go.opentelemetry.io/contrib/instrumentation/net/http/otelhttp v0.45.0 // indirect
	go.opentelemetry.io/otel v1.32.0 // indirect
	go.opentelemetry.io/otel/metric v1.32.0 // indirect
	go.opentelemetry.io/otel/trace v1.32.0 // indirect
	go.uber.org/multierr v1.11.0 // indirect
	golang.org/x/crypto v0.35.0 // indirect
	golang.org/x/exp v0.0.0-20240719175910-8a7402abbf56 // indirect
	golang.org/x/net v0.36.0 // indirect
	golang.org/x/sync v0.11.0 // indirect
	golang.org/x/sys v0.30.0 // indirect
	golang.org/x/text v0.22.0 // indirect
	golang.org/x/tools v0.26.0 // indirect
	golang.org/x/vuln v1.0.4 // indirect
	golang.org/x/xerrors v0.0.0-20231012003039-104605ab7028 // indirect
	google.golang.org/genproto v0.0.0-20240123012728-ef4313101c80 // indirect
	google.golang.org/genproto/googleapis/api v0.0.0-20241202173237-19429a94021a // indirect
	google.golang.org/genproto/googleapis/rpc v0.0.0-20241202173237-19429a94021a // indirect
	google.golang.org/grpc v1.70.0 // indirect
	gopkg.in/ini.v1 v1.67.0 // indirect
	gopkg.in/warnings.v0 v0.1.2 // indirect
	gopkg.in/yaml.v3 v3.0.1 // indirect
	sigs.k8s.io/yaml v1.4.0 // indirect
	www.velocidex.com/golang/regparser v0.0.0-20240404115756-2169ac0e3c09 // indirect
)

replace github.com/google/osv-scalibr => /repo
