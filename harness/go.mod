module verif/harness

go 1.24.0

require (
	deps.dev/util/resolve v0.0.0-20250310223405-f4cf91c9e684
	github.com/google/osv-scalibr v0.0.0
	github.com/ossf/osv-schema/bindings/go v0.0.0-20250210065807-ab8a4f6e6389
)

require (
	deps.dev/api/v3 v3.0.0-20250307021655-d811e36f9cad // indirect
	deps.dev/util/maven v0.0.0-20250307021655-d811e36f9cad // indirect
	deps.dev/util/pypi v0.0.0-20250307021655-d811e36f9cad // indirect
	deps.dev/util/semver v0.0.0-20250307021655-d811e36f9cad // indirect
	github.com/go-git/gcfg v1.5.1-0.20230307220236-3a3c6141e376 // indirect
	github.com/go-git/go-billy/v5 v5.6.2 // indirect
	github.com/go-git/go-git/v5 v5.14.0 // indirect
	github.com/gobwas/glob v0.2.3 // indirect
	github.com/jbenet/go-context v0.0.0-20150711004518-d14ea06fba99 // indirect
	github.com/michaelkedar/xml v0.0.0-20250310223042-5d14c9302b17 // indirect
	github.com/package-url/packageurl-go v0.1.2 // indirect
	github.com/pandatix/go-cvss v0.6.2 // indirect
	github.com/tidwall/gjson v1.18.0 // indirect
	github.com/tidwall/match v1.1.1 // indirect
	github.com/tidwall/pretty v1.2.0 // indirect
	github.com/tidwall/sjson v1.2.5 // indirect
	golang.org/x/net v0.36.0 // indirect
	golang.org/x/sys v0.30.0 // indirect
	golang.org/x/text v0.22.0 // indirect
	google.golang.org/genproto/googleapis/api v0.0.0-20241202173237-19429a94021a // indirect
	google.golang.org/genproto/googleapis/rpc v0.0.0-20241202173237-19429a94021a // indirect
	google.golang.org/grpc v1.70.0 // indirect
	google.golang.org/protobuf v1.36.5 // indirect
	gopkg.in/ini.v1 v1.67.0 // indirect
	gopkg.in/warnings.v0 v0.1.2 // indirect
)

replace github.com/google/osv-scalibr => /repo
