// Package imgx holds what the image-based generators (c17gen, c05gen) share: in-memory tar layers,
// a private scratch directory for the loader's temporary files, and a process-parallel case runner.
package imgx

import (
	"archive/tar"
	"bytes"
	"fmt"
	"io"
	"os"
	"os/exec"
	"runtime"
	"strings"
	"sync"

	v1 "github.com/google/go-containerregistry/pkg/v1"
	"github.com/google/go-containerregistry/pkg/v1/tarball"

	"verif/harness/hx"
)

// TarEnt is one tar entry of a layer.
type TarEnt struct {
	Name string
	Typ  byte
	Body string
	Link string
}

// MkLayer builds an uncompressed in-memory layer.
func MkLayer(es []TarEnt) v1.Layer {
	var buf bytes.Buffer
	tw := tar.NewWriter(&buf)
	for _, e := range es {
		h := &tar.Header{Name: e.Name, Typeflag: e.Typ, Mode: 0644, Size: int64(len(e.Body)), Linkname: e.Link}
		if e.Typ == tar.TypeDir {
			h.Mode = 0755
		}
		if err := tw.WriteHeader(h); err != nil {
			panic(err)
		}
		if _, err := tw.Write([]byte(e.Body)); err != nil {
			panic(err)
		}
	}
	tw.Close()
	b := buf.Bytes()
	l, err := tarball.LayerFromOpener(func() (io.ReadCloser, error) { return io.NopCloser(bytes.NewReader(b)), nil })
	if err != nil {
		panic(err)
	}
	return l
}

// WhName is the whiteout entry name for a path.
func WhName(name string) string {
	i := strings.LastIndexByte(name, '/')
	return name[:i+1] + ".wh." + name[i+1:]
}

// Scratch creates a private directory (tmpfs when available, or under $VERIF_SCRATCH_BASE) and points
// TMPDIR at it, so that everything image.FromV1Image unpacks lands there. The caller removes it.
func Scratch(prefix string) string {
	base := hx.ScratchBase() // $VERIF_SCRATCH_BASE, a roomy /dev/shm, or $TMPDIR — see hx/scratch.go
	dir, err := os.MkdirTemp(base, prefix+"-*")
	if err != nil {
		panic(err)
	}
	os.Setenv("TMPDIR", dir)
	return dir
}

// RunAll runs every case line and emits "<case>\t<reply>" in order. Loading images from several
// goroutines of one process does not scale (the loads contend in the kernel on the shared scratch
// directory), so a large stream is split over single-threaded worker processes of this same binary
// ("-inproc -replay <chunk>"), each with a scratch directory of its own below `scratch`.
func RunAll(lines []string, run func(string) string, scratch string, inproc bool, out *hx.Out) {
	w := runtime.NumCPU()
	if inproc || len(lines) < 4*w {
		for _, l := range lines {
			out.Emit(l, run(l))
		}
		return
	}
	per := (len(lines) + w - 1) / w
	var wg sync.WaitGroup
	var outs []string
	errs := make([]error, w)
	for i := 0; i*per < len(lines); i++ {
		chunk := lines[i*per : min((i+1)*per, len(lines))]
		in := fmt.Sprintf("%s/chunk-%d.in", scratch, i)
		of := fmt.Sprintf("%s/chunk-%d.out", scratch, i)
		if err := os.WriteFile(in, []byte(strings.Join(chunk, "\n")+"\n"), 0600); err != nil {
			panic(err)
		}
		outs = append(outs, of)
		wg.Add(1)
		go func(i int, in, of string) {
			defer wg.Done()
			f, err := os.Create(of)
			if err != nil {
				errs[i] = err
				return
			}
			defer f.Close()
			cmd := exec.Command(os.Args[0], "-inproc", "-replay", in)
			cmd.Env = append(os.Environ(), "GOMAXPROCS=1", "VERIF_SCRATCH_BASE="+scratch)
			cmd.Stdout = f
			cmd.Stderr = os.Stderr
			errs[i] = cmd.Run()
		}(i, in, of)
	}
	wg.Wait()
	if free := hx.FreeBytes(scratch); free < 256<<20 {
		panic(fmt.Sprintf("scratch file system %s ran low (%d bytes free): replies may stem from ENOSPC, not from the code under test", scratch, free))
	}
	for i, of := range outs {
		if errs[i] != nil {
			panic(fmt.Sprintf("worker %d: %v", i, errs[i]))
		}
		data, err := os.ReadFile(of)
		if err != nil {
			panic(err)
		}
		got := strings.Split(strings.TrimRight(string(data), "\n"), "\n")
		chunk := lines[i*per : min((i+1)*per, len(lines))]
		if len(got) != len(chunk) {
			panic(fmt.Sprintf("worker %d answered %d of %d cases (scratch file system full? %d bytes free in %s)", i, len(got), len(chunk), hx.FreeBytes(scratch), scratch))
		}
		for j, l := range got {
			c, r, ok := strings.Cut(l, "\t")
			if !ok || c != chunk[j] {
				panic(fmt.Sprintf("worker %d: reply %d does not belong to its case (truncated output? %d bytes free in %s)", i, j, hx.FreeBytes(scratch), scratch))
			}
			out.Emit(c, r)
		}
	}
}

// Main wraps a generator's main body: scratch directory, flush, clean-up, exit code.
func Main(prefix string, body func(scratch string, out *hx.Out)) {
	out := hx.NewOut()
	scratch := Scratch(prefix)
	code := 0
	func() {
		defer func() {
			if r := recover(); r != nil {
				fmt.Fprintf(os.Stderr, "%s: %v\n", prefix, r)
				code = 2
			}
		}()
		body(scratch, out)
	}()
	out.Flush()
	os.RemoveAll(scratch)
	os.Exit(code)
}
