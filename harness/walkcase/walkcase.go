// Package walkcase is the shared case representation of the walk-engine correspondence (model A):
// an in-memory scalibrfs.FS whose listing order, file kinds, sizes and faults are data, fake
// extractors driven by tables, the case-line codec, and the runner that calls scalibr.Scan.
package walkcase

import (
	"os"
	"path/filepath"
	"syscall"

	"context"
	"errors"
	"fmt"
	"github.com/go-git/go-git/v5/plumbing/format/gitignore"
	"io"
	"io/fs"
	"sort"
	"strconv"
	"strings"
	"time"

	scalibr "github.com/google/osv-scalibr"
	"github.com/google/osv-scalibr/detector"
	"github.com/google/osv-scalibr/extractor"
	"github.com/google/osv-scalibr/extractor/filesystem"
	scalibrfs "github.com/google/osv-scalibr/fs"
	"github.com/google/osv-scalibr/inventory"
	"github.com/google/osv-scalibr/plugin"
	"github.com/google/osv-scalibr/purl"
	"github.com/google/osv-scalibr/stats"

	"verif/harness/hx"
)

// Pat is one .gitignore pattern of the modelled sub-language.
type Pat struct {
	Name         string
	DirOnly, Neg bool
	Raw          bool // Name is a whole .gitignore line in full gitignore syntax (globs, anchors, **, classes, comments);
	// the model does not interpret it: the case line carries the REAL go-git matcher's answers as a table (GiTable)
}

// Node is a tree node; Path is "." or slash-joined segments.
type Node struct {
	Path  string
	Kind  byte // d r l s
	Size  int
	HasGi bool
	Gi    []Pat
	Kids  []*Node // listing order
}

// Faults of one root.
type Faults struct {
	Open, Stat, FileStat map[string]bool
	Read                 map[string]map[int]bool
}

// Root is a tree plus its fault plan.
type Root struct {
	Tree *Node
	F    Faults
}

// EP is an (extractor, path) pair.
type EP struct {
	E int
	P string
}

// Out is what Extract does.
type Out struct {
	Err, Panic bool
	Find       bool // also returns a finding (inventory that is not a package: counts as "produced results")
	Pkgs       []int
}

// Case is one scan.
type Case struct {
	UG, ISD, RS, EOFS, CB bool
	SAP                   bool // StoreAbsolutePath (only with ABS and one root): reported locations must be /vr0/<relative location>
	ABS                   bool // scan roots carry an absolute Path (/vr<i>); PathsToExtract and DirsToSkip are given as absolute paths below root 0
	MX, MI, CA, NExt      int
	EK                    int // kind of the injected filesystem errors: 0 other (EIO-like), 1 permission, 2 not-exist
	NRD                   int // 1, 2: directory handles do NOT implement fs.ReadDirFile (2: and fsys.ReadDir returns a NIL slice for an empty directory): the walk falls back to fsys.ReadDir (whole listing at once);
	// the only read fault that exists then is "the listing cannot be read" = Read[d][0]
	OUT  int // (with ABS) 1: DirsToSkip, 2: PathsToExtract additionally names an absolute path that lies under no scan root: the scan must be refused
	NS   int  // 1: ScanConfig.Stats is left nil (Scan substitutes a no-op collector; the visit count is then unobservable: vis=?);
	// 2: the same through the entry point filesystem.Run itself (no Scan glue, results sorted by the harness as Scan would)
	REAL bool // the tree is materialised in a temporary directory and scanned through scalibrfs.RealFSScanRoots (no faults, one root)
	Paths, Skip           []string
	HasRx, HasGl          bool
	RxSet, GlSet          []string // directory paths the engines match (filled by the generator with the real engines)
	RxSrc, GlSrc          string   // sources (not part of the case line; regenerated sets are what the model sees)
	Req                   []EP
	Ext                   map[EP]Out
	ExtOrder              []EP
	Roots                 []Root
}

func hexPath(p string) string {
	if p == "." {
		return "."
	}
	segs := strings.Split(p, "/")
	for i, s := range segs {
		segs[i] = hx.Hex(s)
	}
	return strings.Join(segs, "/")
}

// HexPath is the path encoding of the case and reply lines ("." stays ".", every other segment is hex-encoded).
func HexPath(p string) string { return hexPath(p) }

func unhexPath(p string) string {
	if p == "." {
		return "."
	}
	segs := strings.Split(p, "/")
	for i, s := range segs {
		segs[i] = hx.UnHex(s)
	}
	return strings.Join(segs, "/")
}

func hexPaths(ps []string, sep string) string {
	o := make([]string, len(ps))
	for i, p := range ps {
		o[i] = hexPath(p)
	}
	return hx.Join(o, sep)
}

func unhexPaths(s, sep string) []string {
	if s == "-" || s == "" {
		return nil
	}
	var o []string
	for _, p := range strings.Split(s, sep) {
		o = append(o, unhexPath(p))
	}
	return o
}

func b(x bool) int {
	if x {
		return 1
	}
	return 0
}

func (n *Node) flatten(out *[]string) {
	gi := "n"
	if n.HasGi {
		ps := make([]string, len(n.Gi))
		for i, p := range n.Gi {
			if p.Raw {
				ps[i] = "20" + hx.Hex(p.Name)
				continue
			}
			ps[i] = fmt.Sprintf("%d%d%s", b(p.DirOnly), b(p.Neg), hx.Hex(p.Name))
		}
		gi = "g" + strings.Join(ps, ",")
	}
	*out = append(*out, fmt.Sprintf("%s:%c:%d:%s", hexPath(n.Path), n.Kind, n.Size, gi))
	for _, k := range n.Kids {
		k.flatten(out)
	}
}

func keys(m map[string]bool) []string {
	var o []string
	for k, v := range m {
		if v {
			o = append(o, k)
		}
	}
	sort.Strings(o)
	return o
}

// Line renders the case line understood by lean/Drivers/Walk.lean.
func (c *Case) Line() string {
	var sb strings.Builder
	fmt.Fprintf(&sb, "walk ug=%d,isd=%d,rs=%d,mx=%d,mi=%d,eofs=%d,cb=%d,ca=%d,next=%d,ek=%d,abs=%d,sap=%d", b(c.UG), b(c.ISD), b(c.RS), c.MX, c.MI, b(c.EOFS), b(c.CB), c.CA, c.NExt, c.EK, b(c.ABS), b(c.SAP))
	if c.NRD > 0 || c.OUT > 0 || c.REAL || c.NS > 0 { // only printed when set, so that older case lines (corpus, saved seeds) stay byte-identical
		fmt.Fprintf(&sb, ",nrd=%d,out=%d,real=%d,ns=%d", c.NRD, c.OUT, b(c.REAL), c.NS)
	}
	fmt.Fprintf(&sb, " %s %s", hexPaths(c.Paths, ";"), hexPaths(c.Skip, ";"))
	set := func(has bool, s []string) string {
		if !has {
			return "none"
		}
		return "set:" + hexPaths(s, ";")
	}
	fmt.Fprintf(&sb, " %s %s", set(c.HasRx, c.RxSet), set(c.HasGl, c.GlSet))
	rq := make([]string, len(c.Req))
	for i, r := range c.Req {
		rq[i] = fmt.Sprintf("%d@%s", r.E, hexPath(r.P))
	}
	var ex []string
	for _, k := range c.ExtOrder {
		o := c.Ext[k]
		ids := make([]string, len(o.Pkgs))
		for i, id := range o.Pkgs {
			ids[i] = strconv.Itoa(id)
		}
		ex = append(ex, fmt.Sprintf("%d@%s=%d%d%d:%s", k.E, hexPath(k.P), b(o.Err), b(o.Panic), b(o.Find), hx.Join(ids, ",")))
	}
	fmt.Fprintf(&sb, " %s %s %d", hx.Join(rq, ";"), hx.Join(ex, ";"), len(c.Roots))
	for _, r := range c.Roots {
		var ns []string
		r.Tree.flatten(&ns)
		var rf []string
		var ds []string
		for d := range r.F.Read {
			ds = append(ds, d)
		}
		sort.Strings(ds)
		for _, d := range ds {
			var ks []int
			for k := range r.F.Read[d] {
				ks = append(ks, k)
			}
			sort.Ints(ks)
			for _, k := range ks {
				rf = append(rf, fmt.Sprintf("%s#%d", hexPath(d), k))
			}
		}
		fmt.Fprintf(&sb, " %s of=%s|sf=%s|ff=%s|rf=%s", strings.Join(ns, ";"), hexPaths(keys(r.F.Open), ","), hexPaths(keys(r.F.Stat), ","), hexPaths(keys(r.F.FileStat), ","), hx.Join(rf, ","))
	}
	if gt := c.GiTable(); gt != nil {
		fmt.Fprintf(&sb, " gt=%s", hx.Join(gt, ","))
	}
	return sb.String()
}

func atoi(s string) int {
	n, err := strconv.Atoi(s)
	if err != nil {
		panic(err)
	}
	return n
}

func hasRaw(ps []Pat) bool {
	for _, p := range ps {
		if p.Raw {
			return true
		}
	}
	return false
}

func giField(n *Node) string {
	var out []string
	n2 := *n
	n2.Kids = nil
	n2.flatten(&out)
	return out[0][strings.LastIndex(out[0], ":")+1:]
}

// GiTable evaluates the REAL go-git matcher for every directory whose .gitignore is in full gitignore syntax: entries
// <hex(key)>~<path>~<d|f> for each tree path the matcher EXCLUDES, key = "<dir path>#<gi field of the case line>".
// Lines are filtered as git documents (and ParseDirForGitignore implements): '#' comments and blank lines carry no
// pattern; each remaining line is parsed with the directory's path as its domain; the last matching pattern decides.
// nil when no directory of the case uses the full syntax.
func (c *Case) GiTable() []string {
	var out []string
	any := false
	seen := map[string]bool{}
	for _, r := range c.Roots {
		var all []*Node
		var walk func(n *Node)
		walk = func(n *Node) {
			all = append(all, n)
			for _, k := range n.Kids {
				walk(k)
			}
		}
		walk(r.Tree)
		for _, d := range all {
			if d.Kind != 'd' || !d.HasGi || !hasRaw(d.Gi) {
				continue
			}
			any = true
			var dom []string
			if d.Path != "." {
				dom = strings.Split(d.Path, "/")
			}
			var ps []gitignore.Pattern
			for _, line := range strings.Split(strings.TrimSuffix(string(GiContent(d.Gi)), "\n"), "\n") {
				if !strings.HasPrefix(line, "#") && len(strings.TrimSpace(line)) > 0 {
					ps = append(ps, gitignore.ParsePattern(line, dom))
				}
			}
			m := gitignore.NewMatcher(ps)
			key := hx.Hex(hexPath(d.Path) + "#" + giField(d))
			for _, q := range all {
				if q.Path == "." {
					continue
				}
				isDir := q.Kind == 'd'
				if m.Match(strings.Split(q.Path, "/"), isDir) {
					e := fmt.Sprintf("%s~%s~%c", key, hexPath(q.Path), map[bool]byte{true: 'd', false: 'f'}[isDir])
					if !seen[e] {
						seen[e] = true
						out = append(out, e)
					}
				}
			}
		}
	}
	if !any {
		return nil
	}
	sort.Strings(out)
	return out
}

// ParseLine is the inverse of Line.
func ParseLine(l string) *Case {
	t := strings.Split(l, " ")
	if t[0] != "walk" {
		panic("not a walk case: " + l)
	}
	c := &Case{Ext: map[EP]Out{}}
	for _, kv := range strings.Split(t[1], ",") {
		k, v, _ := strings.Cut(kv, "=")
		n := atoi(v)
		switch k {
		case "ug":
			c.UG = n == 1
		case "isd":
			c.ISD = n == 1
		case "rs":
			c.RS = n == 1
		case "mx":
			c.MX = n
		case "mi":
			c.MI = n
		case "eofs":
			c.EOFS = n == 1
		case "cb":
			c.CB = n == 1
		case "ca":
			c.CA = n
		case "next":
			c.NExt = n
		case "ek":
			c.EK = n
		case "abs":
			c.ABS = n == 1
		case "sap":
			c.SAP = n == 1
		case "nrd":
			c.NRD = n
		case "out":
			c.OUT = n
		case "real":
			c.REAL = n == 1
		case "ns":
			c.NS = n
		}
	}
	c.Paths = unhexPaths(t[2], ";")
	c.Skip = unhexPaths(t[3], ";")
	if t[4] != "none" {
		c.HasRx = true
		c.RxSet = unhexPaths(strings.TrimPrefix(t[4], "set:"), ";")
	}
	if t[5] != "none" {
		c.HasGl = true
		c.GlSet = unhexPaths(strings.TrimPrefix(t[5], "set:"), ";")
	}
	if t[6] != "-" {
		for _, r := range strings.Split(t[6], ";") {
			e, p, _ := strings.Cut(r, "@")
			c.Req = append(c.Req, EP{atoi(e), unhexPath(p)})
		}
	}
	if t[7] != "-" {
		for _, x := range strings.Split(t[7], ";") {
			ep, rest, _ := strings.Cut(x, "=")
			e, p, _ := strings.Cut(ep, "@")
			fl, ids, _ := strings.Cut(rest, ":")
			o := Out{Err: fl[0] == '1', Panic: fl[1] == '1', Find: len(fl) > 2 && fl[2] == '1'}
			if ids != "-" {
				for _, id := range strings.Split(ids, ",") {
					o.Pkgs = append(o.Pkgs, atoi(id))
				}
			}
			k := EP{atoi(e), unhexPath(p)}
			c.Ext[k] = o
			c.ExtOrder = append(c.ExtOrder, k)
		}
	}
	nr := atoi(t[8])
	for i := 0; i < nr; i++ {
		c.Roots = append(c.Roots, Root{Tree: parseTree(t[9+2*i]), F: parseFaults(t[10+2*i])})
	}
	return c
}

func parseTree(s string) *Node {
	byPath := map[string]*Node{}
	var root *Node
	for _, ns := range strings.Split(s, ";") {
		f := strings.Split(ns, ":")
		n := &Node{Path: unhexPath(f[0]), Kind: f[1][0], Size: atoi(f[2])}
		if f[3] != "n" {
			n.HasGi = true
			if len(f[3]) > 1 {
				for _, ps := range strings.Split(f[3][1:], ",") {
					n.Gi = append(n.Gi, Pat{Name: hx.UnHex(ps[2:]), DirOnly: ps[0] == '1', Neg: ps[1] == '1', Raw: ps[0] == '2'})
				}
			}
		}
		byPath[n.Path] = n
		if n.Path == "." {
			root = n
			continue
		}
		par := "."
		if i := strings.LastIndex(n.Path, "/"); i >= 0 {
			par = n.Path[:i]
		}
		byPath[par].Kids = append(byPath[par].Kids, n)
	}
	return root
}

func parseFaults(s string) Faults {
	f := Faults{Open: map[string]bool{}, Stat: map[string]bool{}, FileStat: map[string]bool{}, Read: map[string]map[int]bool{}}
	parts := strings.Split(s, "|")
	for _, p := range unhexPaths(strings.TrimPrefix(parts[0], "of="), ",") {
		f.Open[p] = true
	}
	for _, p := range unhexPaths(strings.TrimPrefix(parts[1], "sf="), ",") {
		f.Stat[p] = true
	}
	for _, p := range unhexPaths(strings.TrimPrefix(parts[2], "ff="), ",") {
		f.FileStat[p] = true
	}
	if r := strings.TrimPrefix(parts[3], "rf="); r != "-" && r != "" {
		for _, x := range strings.Split(r, ",") {
			p, k, _ := strings.Cut(x, "#")
			d := unhexPath(p)
			if f.Read[d] == nil {
				f.Read[d] = map[int]bool{}
			}
			f.Read[d][atoi(k)] = true
		}
	}
	return f
}

// ---------------------------------------------------------------- the filesystem

var errInj error = errors.New("injected-io-error")

// SetErrKind selects the error the fault sites return (the engine must treat all kinds alike, apart from log levels).
func SetErrKind(k int) {
	switch k {
	case 1:
		errInj = syscall.EACCES // os.IsPermission(err) and errors.Is(err, fs.ErrPermission)
	case 2:
		errInj = syscall.ENOENT // errors.Is(err, fs.ErrNotExist)
	default:
		errInj = errors.New("injected-io-error")
	}
}

// MemFS implements scalibrfs.FS over a Node tree with a fault plan.
type MemFS struct {
	byPath map[string]*Node
	f      Faults
	// Slow makes every Open sleep (used by the race runs of C16).
	Slow time.Duration
	// NoReadDirFile: Open returns directory handles WITHOUT a ReadDir method, so that the walk has to use fsys.ReadDir
	NoReadDirFile bool
	// NilEmptyListing: ReadDir returns a nil slice (a perfectly valid empty list) for a directory without entries
	NilEmptyListing bool
}

// plainFile hides the ReadDir method of a directory handle (fs.File only).
type plainFile struct{ f *file }

func (p plainFile) Stat() (fs.FileInfo, error) { return p.f.Stat() }
func (p plainFile) Read(b []byte) (int, error) { return p.f.Read(b) }
func (p plainFile) Close() error               { return p.f.Close() }

// NewMemFS indexes the tree.
func NewMemFS(r Root) *MemFS {
	m := &MemFS{byPath: map[string]*Node{}, f: r.F}
	var idx func(n *Node)
	idx = func(n *Node) {
		m.byPath[n.Path] = n
		for _, k := range n.Kids {
			idx(k)
		}
	}
	idx(r.Tree)
	return m
}

// info is the FileInfo of a node. lstat=true is what a directory listing (fs.DirEntry) reports: for a
// symlink the link itself (mode symlink, size = length of a short target string). lstat=false is what
// fs.Stat and Stat() on an opened file report: they follow the link (regular file, the target's size).
type info struct {
	n     *Node
	lstat bool
}

func (i info) Name() string {
	if j := strings.LastIndex(i.n.Path, "/"); j >= 0 {
		return i.n.Path[j+1:]
	}
	return i.n.Path
}
func (i info) Size() int64 {
	if (i.n.Kind == 'l' || i.n.Kind == 'L') && i.lstat {
		return 1
	}
	return int64(i.n.Size)
}
func (i info) Mode() fs.FileMode {
	switch i.n.Kind {
	case 'd':
		return fs.ModeDir | 0o755
	case 'l':
		if !i.lstat {
			return 0o644
		}
		return fs.ModeSymlink | 0o777
	case 'L': // a symlink whose target is a directory: the listing shows the link, fs.Stat and an opened handle show a directory
		if !i.lstat {
			return fs.ModeDir | 0o755
		}
		return fs.ModeSymlink | 0o777
	case 's':
		return fs.ModeNamedPipe | 0o644
	}
	return 0o644
}
func (i info) ModTime() time.Time         { return time.Time{} }
func (i info) IsDir() bool                { return i.n.Kind == 'd' || (i.n.Kind == 'L' && !i.lstat) }
func (i info) Sys() any                   { return nil }
func (i info) Type() fs.FileMode          { return i.Mode().Type() }
func (i info) Info() (fs.FileInfo, error) { return i, nil }

type file struct {
	m    *MemFS
	n    *Node
	off  int
	next int // next ReadDir(1) call index
	data []byte
}

func (f *file) Stat() (fs.FileInfo, error) {
	if f.n.Kind != 'd' && f.m.f.FileStat[f.n.Path] {
		return nil, &fs.PathError{Op: "stat", Path: f.n.Path, Err: errInj}
	}
	return info{f.n, false}, nil
}
func (f *file) Read(p []byte) (int, error) {
	if f.n.Kind == 'd' || f.n.Kind == 'L' {
		return 0, &fs.PathError{Op: "read", Path: f.n.Path, Err: errors.New("is a directory")}
	}
	if f.off >= len(f.data) {
		return 0, io.EOF
	}
	n := copy(p, f.data[f.off:])
	f.off += n
	return n, nil
}
func (f *file) ReadAt(p []byte, off int64) (int, error) {
	if off >= int64(len(f.data)) {
		return 0, io.EOF
	}
	n := copy(p, f.data[off:])
	if n < len(p) {
		return n, io.EOF
	}
	return n, nil
}
func (f *file) Close() error { return nil }
func (f *file) ReadDir(n int) ([]fs.DirEntry, error) {
	if f.n.Kind != 'd' {
		return nil, &fs.PathError{Op: "readdir", Path: f.n.Path, Err: errors.New("not a directory")}
	}
	if n != 1 {
		var out []fs.DirEntry
		for _, k := range f.n.Kids {
			out = append(out, info{k, true})
		}
		return out, nil
	}
	k := f.next
	f.next++
	if f.m.f.Read[f.n.Path][k] {
		return nil, &fs.PathError{Op: "readdir", Path: f.n.Path, Err: errInj}
	}
	if k >= len(f.n.Kids) {
		return nil, io.EOF
	}
	return []fs.DirEntry{info{f.n.Kids[k], true}}, nil
}

// GiContent renders a .gitignore file.
func GiContent(ps []Pat) []byte {
	var sb strings.Builder
	for _, p := range ps {
		if p.Raw {
			sb.WriteString(p.Name)
			sb.WriteByte('\n')
			continue
		}
		if p.Neg {
			sb.WriteByte('!')
		}
		sb.WriteString(p.Name)
		if p.DirOnly {
			sb.WriteByte('/')
		}
		sb.WriteByte('\n')
	}
	return []byte(sb.String())
}

// Open implements fs.FS. Faults are checked before existence.
func (m *MemFS) Open(name string) (fs.File, error) {
	if m.Slow > 0 {
		time.Sleep(m.Slow)
	}
	name = strings.TrimSuffix(name, "/")
	if m.f.Open[name] {
		return nil, &fs.PathError{Op: "open", Path: name, Err: errInj}
	}
	n, ok := m.byPath[name]
	if !ok {
		return nil, &fs.PathError{Op: "open", Path: name, Err: fs.ErrNotExist}
	}
	fl := &file{m: m, n: n}
	if n.Kind != 'd' {
		if strings.HasSuffix(name, ".gitignore") {
			par := "."
			if i := strings.LastIndex(name, "/"); i >= 0 {
				par = name[:i]
			}
			fl.data = GiContent(m.byPath[par].Gi)
		} else {
			fl.data = make([]byte, n.Size)
		}
	}
	if m.NoReadDirFile && n.Kind == 'd' {
		return plainFile{fl}, nil
	}
	return fl, nil
}

// Stat implements fs.StatFS.
func (m *MemFS) Stat(name string) (fs.FileInfo, error) {
	name = strings.TrimSuffix(name, "/")
	if m.f.Stat[name] {
		return nil, &fs.PathError{Op: "stat", Path: name, Err: errInj}
	}
	n, ok := m.byPath[name]
	if !ok {
		return nil, &fs.PathError{Op: "stat", Path: name, Err: fs.ErrNotExist}
	}
	return info{n, false}, nil
}

// ReadDir implements fs.ReadDirFS.
func (m *MemFS) ReadDir(name string) ([]fs.DirEntry, error) {
	n, ok := m.byPath[name]
	if !ok {
		return nil, &fs.PathError{Op: "readdir", Path: name, Err: fs.ErrNotExist}
	}
	if m.NoReadDirFile && m.f.Read[name][0] { // the whole listing is read by ONE call: it fails when "read 0" is planned to fail
		return nil, &fs.PathError{Op: "readdir", Path: name, Err: errInj}
	}
	out := []fs.DirEntry{}
	if m.NilEmptyListing {
		out = nil
	}
	for _, k := range n.Kids {
		out = append(out, info{k, true})
	}
	return out, nil
}

var _ scalibrfs.FS = (*MemFS)(nil)

// ---------------------------------------------------------------- fake extractors

type fakeEx struct {
	id    int
	c     *Case
	req   map[string]bool
	calls *[]string
	n     *int
	stop  context.CancelFunc
}

func (e fakeEx) Name() string                       { return fmt.Sprintf("e%d", e.id) }
func (e fakeEx) Version() int                       { return 0 }
func (e fakeEx) Requirements() *plugin.Capabilities { return &plugin.Capabilities{} }
func (e fakeEx) FileRequired(api filesystem.FileAPI) bool {
	return e.req[api.Path()]
}
func (e fakeEx) Extract(ctx context.Context, in *filesystem.ScanInput) (inventory.Inventory, error) {
	*e.calls = append(*e.calls, fmt.Sprintf("%d@%s@%d", e.id, hexPath(in.Path), in.Info.Size()))
	*e.n++
	if e.c.CA > 0 && *e.n == e.c.CA {
		e.stop()
	}
	o := e.c.Ext[EP{e.id, in.Path}]
	if o.Panic {
		panic("fake extractor panic")
	}
	var inv inventory.Inventory
	for _, id := range o.Pkgs {
		locs := []string{in.Path}
		if id%4 == 3 {
			// a second location, reported AFTER the file itself (i.e. usually out of order): sortResults must sort
			// each package's locations before it compares packages by them
			k := 0
			for _, b := range []byte(in.Path) {
				k += int(b)
			}
			locs = append(locs, "00/"+string(rune('a'+k%7)))
		}
		inv.Packages = append(inv.Packages, &extractor.Package{Name: fmt.Sprintf("n%d", id/3), Version: fmt.Sprintf("v%d", id%3), Locations: locs, Metadata: id})
	}
	if o.Find {
		inv.Findings = append(inv.Findings, &detector.Finding{Adv: &detector.Advisory{ID: &detector.AdvisoryID{Publisher: "fx", Reference: fmt.Sprintf("F-%d-%s", e.id, in.Path)}}})
	}
	if o.Err {
		return inv, errors.New("extract-error")
	}
	return inv, nil
}
func (e fakeEx) ToPURL(p *extractor.Package) *purl.PackageURL { return nil }
func (e fakeEx) Ecosystem(p *extractor.Package) string        { return "" }

type coll struct {
	stats.NoopCollector
	n int
}

func (c *coll) AfterInodeVisited(path string) { c.n++ }

// Engines carries the real regexp / glob (nil when not configured).
type Engines struct {
	Rx interface{ MatchString(string) bool }
	Gl interface{ Match(string) bool }
}

// Result of running the implementation.
type Result struct {
	Reply string
	Pkgs  []string // sorted package keys, for order-independence checks
}

// findingsToken renders the findings of a scan result IN THE ORDER Scan returned them, each as <extractor id>@<hexPath(path)>
// recovered from the advisory Reference "F-<id>-<path>" the fake extractor emits (the path may itself contain dashes: split at
// the first two only). "-" when there are none, "!bad" when a finding does not have that shape.
func findingsToken(fs []*detector.Finding) string {
	var out []string
	for _, f := range fs {
		if f == nil || f.Adv == nil || f.Adv.ID == nil {
			return "!bad"
		}
		parts := strings.SplitN(f.Adv.ID.Reference, "-", 3)
		if len(parts) != 3 || parts[0] != "F" || parts[2] == "" || f.Adv.ID.Publisher != "fx" {
			return "!bad"
		}
		if _, err := strconv.Atoi(parts[1]); err != nil || parts[1] == "" || parts[1][0] == '+' {
			return "!bad"
		}
		out = append(out, parts[1]+"@"+hexPath(parts[2]))
	}
	return hx.Join(out, ";")
}

// Run executes scalibr.Scan on the case and renders the reply line.
func Run(c *Case, mk func(*scalibr.ScanConfig), slow time.Duration) string {
	var calls []string
	n := 0
	SetErrKind(c.EK)
	ctx, cancel := context.WithCancel(context.Background())
	defer cancel()
	if c.CB {
		cancel()
	}
	var exs []filesystem.Extractor
	for e := 0; e < c.NExt; e++ {
		req := map[string]bool{}
		for _, r := range c.Req {
			if r.E == e {
				req[r.P] = true
			}
		}
		exs = append(exs, fakeEx{id: e, c: c, req: req, calls: &calls, n: &n, stop: cancel})
	}
	var roots []*scalibrfs.ScanRoot
	realRoot := ""
	if c.REAL {
		dir, err := materialise(c.Roots[0].Tree)
		if dir != "" {
			defer os.RemoveAll(filepath.Dir(dir))
		}
		if err != nil {
			return "err=harness-real:" + hx.Hex(err.Error()) + " pkgs=- st=- fnd=- vis=0 calls=-"
		}
		realRoot = dir
		roots = scalibrfs.RealFSScanRoots(dir)
	}
	for i, r := range c.Roots {
		if c.REAL {
			break
		}
		m := NewMemFS(r)
		m.Slow = slow
		m.NoReadDirFile = c.NRD > 0
		m.NilEmptyListing = c.NRD == 2
		sr := &scalibrfs.ScanRoot{FS: m}
		if c.ABS {
			sr.Path = fmt.Sprintf("/vr%d", i)
		}
		roots = append(roots, sr)
	}
	paths, skip := c.Paths, c.Skip
	if c.ABS || c.REAL {
		// absolute PathsToExtract / DirsToSkip. Requested paths lie below root 0 (Scan refuses requested paths with several roots);
		// the i-th skipped directory is named below root i mod #roots: DirsToSkip is ONE list of root-relative paths for all roots
		mkAbs := func(ps []string, spread bool) []string {
			var o []string
			for i, p := range ps {
				root := "/vr0"
				if spread && len(c.Roots) > 1 {
					root = fmt.Sprintf("/vr%d", i%len(c.Roots))
				}
				if c.REAL {
					root = realRoot
				}
				if p == "." {
					o = append(o, root)
				} else {
					o = append(o, root+"/"+p)
				}
			}
			return o
		}
		paths, skip = mkAbs(c.Paths, false), mkAbs(c.Skip, true)
		if c.OUT == 1 {
			skip = append(skip, "/nowhere/x")
		}
		if c.OUT == 2 {
			paths = append(paths, "/nowhere/x")
		}
		if c.OUT == 3 {
			skip = append(skip, "/vr0x/y") // "/vr0" is a string prefix of it, not a path prefix
		}
	}
	col := &coll{}
	cfg := &scalibr.ScanConfig{FilesystemExtractors: exs, UseGitignore: c.UG, IgnoreSubDirs: c.ISD, ReadSymlinks: c.RS, MaxFileSize: c.MX, MaxInodes: c.MI,
		ErrorOnFSErrors: c.EOFS, StoreAbsolutePath: c.SAP, Stats: col, PathsToExtract: paths, DirsToSkip: skip, ScanRoots: roots, Capabilities: &plugin.Capabilities{}}
	mk(cfg)
	if c.NS > 0 {
		cfg.Stats = nil
	}
	body := func() (out string) {
		defer func() {
			if e := recover(); e != nil {
				out = "err=panic"
			}
		}()
		var r *scalibr.ScanResult
		if c.NS == 2 {
			// the entry point below Scan: no glue (refusals, default collector), results as filesystem.Run returns them, put into Scan's order here
			inv, sts, err := filesystem.Run(ctx, &filesystem.Config{Extractors: cfg.FilesystemExtractors, ScanRoots: cfg.ScanRoots, PathsToExtract: cfg.PathsToExtract,
				IgnoreSubDirs: cfg.IgnoreSubDirs, DirsToSkip: cfg.DirsToSkip, SkipDirRegex: cfg.SkipDirRegex, SkipDirGlob: cfg.SkipDirGlob, UseGitignore: cfg.UseGitignore,
				Stats: nil, ReadSymlinks: cfg.ReadSymlinks, MaxInodes: cfg.MaxInodes, MaxFileSize: cfg.MaxFileSize, StoreAbsolutePath: cfg.StoreAbsolutePath,
				ErrorOnFSErrors: cfg.ErrorOnFSErrors})
			r = &scalibr.ScanResult{Status: &plugin.ScanStatus{Status: plugin.ScanStatusSucceeded}}
			if err != nil {
				r.Status = &plugin.ScanStatus{Status: plugin.ScanStatusFailed, FailureReason: err.Error()} // results returned next to an error are not to be used
			} else {
				for _, p := range inv.Packages {
					sort.Strings(p.Locations)
				}
				sort.SliceStable(inv.Packages, func(i, j int) bool { return scalibr.CmpPackages(inv.Packages[i], inv.Packages[j]) < 0 })
				sort.SliceStable(sts, func(i, j int) bool { return sts[i].Name < sts[j].Name })
				sort.SliceStable(inv.Findings, func(i, j int) bool { return inv.Findings[i].Adv.ID.Reference < inv.Findings[j].Adv.ID.Reference })
				r.Inventory, r.PluginStatus = inv, sts
			}
		} else {
			r = scalibr.New().Scan(ctx, cfg)
		}
		if r.Status.Status != plugin.ScanStatusSucceeded {
			msg := r.Status.FailureReason
			cls := "fs"
			switch {
			case strings.Contains(msg, "maxInodes"):
				cls = "maxinodes"
			case strings.Contains(msg, "context canceled"):
				cls = "ctx"
			case strings.Contains(msg, "no scan root specified"), strings.Contains(msg, "can't extract specific files with several scan roots"),
				strings.Contains(msg, "path not relative to any of the scan roots"):
				cls = "cfg" // the scan was refused before any walk
			}
			if len(r.Inventory.Packages) != 0 || len(r.PluginStatus) != 0 {
				cls += "+nonempty"
			}
			return "err=" + cls
		}
		var pk, st []string
		for _, p := range r.Inventory.Packages {
			ex := p.Extractor.Name()[1:]
			ls := make([]string, len(p.Locations))
			for i, l := range p.Locations {
				if c.SAP { // the absolute form of a location is the scan root joined with the relative one
					pre := "/vr0/"
					if c.REAL {
						pre = realRoot + "/"
					}
					if rel, ok := strings.CutPrefix(l, pre); ok {
						l = rel
					} else {
						l = "!not-under-root:" + l
					}
				}
				ls[i] = hx.Hex(l)
			}
			pk = append(pk, fmt.Sprintf("%d@%s@%s", p.Metadata.(int), ex, strings.Join(ls, "+")))
		}
		for _, s := range r.PluginStatus {
			x := "ok"
			if s.Status.Status == plugin.ScanStatusFailed {
				x = "failed"
			} else if s.Status.Status == plugin.ScanStatusPartiallySucceeded {
				x = "partial"
			}
			st = append(st, s.Name[1:]+"="+x)
		}
		return "err=none pkgs=" + hx.Join(pk, ";") + " st=" + hx.Join(st, ",") + " fnd=" + findingsToken(r.Inventory.Findings)
	}()
	if !strings.Contains(body, "pkgs=") {
		body += " pkgs=- st=- fnd=-"
	}
	if c.NS > 0 {
		return fmt.Sprintf("%s vis=? calls=%s", body, hx.Join(calls, ";"))
	}
	return fmt.Sprintf("%s vis=%d calls=%s", body, col.n, hx.Join(calls, ";"))
}

// materialise writes the tree into a fresh temporary directory <tmp>/root (regular files of the given size, .gitignore files with their
// content, symlinks to files of the given size kept OUTSIDE the root, unix sockets as special files), then re-orders every node's Kids to the order in which the
// operating system lists the directory (the order ReadDir(1) yields), so that the case line describes the listing the scan will see.
func materialise(t *Node) (string, error) {
	tmp, err := os.MkdirTemp(os.Getenv("TMPDIR"), "walkreal-")
	if err != nil {
		return "", err
	}
	root := filepath.Join(tmp, "root")
	targets := filepath.Join(tmp, "targets")
	if err := os.Mkdir(targets, 0o755); err != nil {
		return root, err
	}
	nt := 0
	var mk func(n *Node, gi []Pat) error
	mk = func(n *Node, gi []Pat) error {
		p := root
		if n.Path != "." {
			p = filepath.Join(root, filepath.FromSlash(n.Path))
		}
		switch n.Kind {
		case 'd':
			if err := os.Mkdir(p, 0o755); err != nil {
				return err
			}
			for _, k := range n.Kids {
				if err := mk(k, n.Gi); err != nil {
					return err
				}
			}
			// listing order of the operating system
			f, err := os.Open(p)
			if err != nil {
				return err
			}
			ents, err := f.ReadDir(-1)
			f.Close()
			if err != nil {
				return err
			}
			byName := map[string]*Node{}
			for _, k := range n.Kids {
				byName[info{k, true}.Name()] = k
			}
			var kids []*Node
			for _, e := range ents {
				if k, ok := byName[e.Name()]; ok {
					kids = append(kids, k)
				}
			}
			if len(kids) != len(n.Kids) {
				return fmt.Errorf("listing of %s has %d of %d entries", n.Path, len(kids), len(n.Kids))
			}
			n.Kids = kids
		case 'r':
			data := make([]byte, n.Size)
			if strings.HasSuffix(n.Path, ".gitignore") {
				data = GiContent(gi)
			}
			return os.WriteFile(p, data, 0o644)
		case 'l', 'L':
			nt++
			tg := filepath.Join(targets, fmt.Sprintf("t%d", nt))
			if err := os.WriteFile(tg, make([]byte, n.Size), 0o644); err != nil {
				return err
			}
			return os.Symlink(tg, p)
		case 's':
			// a special file that cannot block whoever opens it by mistake: a unix socket (open fails at once with ENXIO; a named pipe would
			// block the opener until a writer appears)
			return syscall.Mknod(p, syscall.S_IFSOCK|0o644, 0)
		}
		return nil
	}
	return root, mk(t, nil)
}
