#!/usr/bin/env python3
"""Regenerate /verif/MANIFEST.json from the META blocks of checks/cXX.py (one per claimed property)."""
import importlib, json, os, sys
sys.path.insert(0, '/verif')
props = [json.loads(l)['id'] for l in open('/verif/properties.jsonl')]
PENDING = {}   # property -> reason, for properties without a check (kept current by hand)
try:
    PENDING = json.load(open('/verif/tools/not_applicable.json'))
except FileNotFoundError:
    pass
checks, na = [], []
WIP = set()
try:
    WIP = set(json.load(open('/verif/tools/wip.json')))
except FileNotFoundError:
    pass
for p in props:
    if p in WIP:
        na.append({'property_id': p, 'reason': PENDING.get(p, 'check under construction in this round (model being re-validated after fix commits); not claimed yet')})
        continue
    if os.path.exists('/verif/checks/%s.py' % p.lower()):
        m = importlib.import_module('checks.' + p.lower()).META
        checks.append({
            'property_id': p,
            'quick_cmd': './check %s --tier quick' % p,
            'thorough_cmd': './check %s --tier thorough' % p,
            'evidence_file': '/verif/evidence/%s.json' % p,
            'replay_cmd_template': './check %s --replay {path}' % p,
            'engine': 'lean4+correspondence',
            'level_claimed': {'category': m['level'], 'text': m['text'], 'design_ref': m['design_ref']},
            'level_note': m['note'],
            'technique': m['technique'],
        })
    else:
        na.append({'property_id': p, 'reason': PENDING.get(p, 'no check has been built for this property yet; it is not claimed')})
man = {
    'version': 1,
    'setup_cmd': './tools/setup.sh',
    'hooks': {
        'guard': 'verif',
        'enable': 'go build -tags verif -overlay /verif/harness/overlay/overlay.json (hook files live under /verif/harness/overlay/<package path>/ and are injected at build time; /repo carries no hook files)',
        'baseline_off_cmd': 'python3 /verif/tools/baseline.py',
        'source_commits': [],
        'add_only': True,
    },
    'engines': [
        {'name': 'lean4+correspondence', 'path': '/verif/lean', 'serves_properties': [c['property_id'] for c in checks],
         'kind_free_text': 'Lean 4 models, specifications and kernel-checked theorems (lean/Scalibr), tied to /repo on every run by (a) facts regenerated from the Go source by /verif/translator and (b) a correspondence harness (harness/cmd/*gen, Go, in-process calls into /repo built with -tags verif -overlay) whose cases are replayed on the compiled Lean model (lean/Drivers/*), with the executable specification as the violation-search oracle'},
    ],
    'checks': checks,
    'not_applicable': na,
    'notes': 'See DESIGN.md. ./check <id> rebuilds the Lean closure (kernel re-check + #print axioms audit) and the Go harness from /repo\'s working tree on every run. known_findings.txt lists recorded findings and fixed: entries.',
}
json.dump(man, open('/verif/MANIFEST.json', 'w'), indent=1)
print('claimed', [c['property_id'] for c in checks], 'not claimed', [n['property_id'] for n in na])
