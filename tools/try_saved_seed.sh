#!/bin/bash
# usage: tools/try_saved_seed.sh <seed dir name under /verif/seeded> [Cxx] [check args…]
# Applies a saved seeded change in a throw-away worktree of /repo's HEAD and runs the owning check against it
# (private mount namespace, see try_seed.sh); /repo itself is never modified. Expect exit 1 + VIOLATION lines.
name=$1; prop=${2:-${name:0:3}}; shift; shift
wt=/var/tmp/wt-saved-$$
git -C /repo worktree add -q --detach $wt HEAD || exit 2
( cd $wt && git apply /verif/seeded/$name/patch.diff ) || { git -C /repo worktree remove --force $wt; echo "patch does not apply"; exit 2; }
/verif/tools/try_seed.sh $wt $prop "$@"; rc=$?
git -C /repo worktree remove --force $wt
exit $rc
