#!/usr/bin/env python3
"""Every theorem name quoted in DESIGN.md (C\d\d_…) must exist in lean/ ; prints the ones that do not."""
import re,glob,sys
names=set()
for f in glob.glob('/verif/lean/**/*.lean',recursive=True):
    if '/.lake/' in f: continue
    for m in re.finditer(r'^\s*(?:private\s+)?(?:theorem|lemma|def|abbrev)\s+([A-Za-z0-9_.\']+)',open(f).read(),re.M):
        names.add(m.group(1).split('.')[-1])
doc=sys.argv[1] if len(sys.argv)>1 else '/verif/DESIGN.md'
bad={}
for i,l in enumerate(open(doc),1):
    for m in re.finditer(r'\bC\d\d_[A-Za-z0-9_]+',l):
        n=m.group(0)
        if n not in names and not n.endswith('_'): bad.setdefault(n,[]).append(i)
for n,ls in sorted(bad.items()): print(n,ls[:6])
print(len(bad),'unknown names')
