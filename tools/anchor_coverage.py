#!/usr/bin/env python3
"""Development aid: which statements of a property's ANCHOR files does its quick stream never execute?
usage: tools/anchor_coverage.py Cxx [tier]   ->  coverage/Cxx.txt (uncovered blocks with source text, per function)
Builds the generators with `go build -cover -coverpkg=…/osv-scalibr/...` (VERIF_COVER, see checks/lib.py), runs ./check, converts the
counters with `go tool covdata textfmt`. A block the stream never runs cannot be tied to the model by correspondence: a change
inside it is invisible to the stream. Evidence files are restored afterwards (this run is not a registered command)."""
import json, os, re, shutil, subprocess, sys, tempfile
V = '/verif'
prop = sys.argv[1]
tier = sys.argv[2] if len(sys.argv) > 2 else 'quick'
anchors = None
for l in open(V + '/properties.jsonl'):
    p = json.loads(l)
    if p['id'] == prop:
        anchors = p['anchors']['files']
cov = tempfile.mkdtemp(prefix='cov-%s-' % prop, dir='/var/tmp')
bak = None
if os.path.exists(V + '/evidence/%s.json' % prop):
    bak = open(V + '/evidence/%s.json' % prop).read()
wt = '/var/tmp/wt-cov-%s' % prop
subprocess.run(['git', '-C', '/repo', 'worktree', 'remove', '--force', wt], stdout=subprocess.DEVNULL, stderr=subprocess.DEVNULL)
subprocess.run(['git', '-C', '/repo', 'worktree', 'add', '-q', '--detach', wt, 'HEAD'], check=True)
subprocess.run([sys.executable, V + '/tools/mkoverlay.py'], check=True)
for dst, src in json.load(open(V + '/harness/overlay/overlay.json'))['Replace'].items():
    shutil.copy(src, dst.replace('/repo/', wt + '/', 1))
os.makedirs(wt + '/verifharness')
subprocess.run("cd %s/harness && tar cf - --exclude=bin --exclude=bin-alt --exclude=overlay --exclude='go.*' . | tar xf - -C %s/verifharness" % (V, wt), shell=True, check=True)
subprocess.run("grep -rl '\"verif/harness' %s/verifharness | xargs sed -i 's|\"verif/harness|\"github.com/google/osv-scalibr/verifharness|'" % wt, shell=True, check=True)
env = dict(os.environ, VERIF_COVER=cov, VERIF_REPO=wt)
r = subprocess.run([V + '/check', prop, '--tier', tier], env=env, stdout=subprocess.PIPE, stderr=subprocess.STDOUT, text=True)
print(r.stdout.strip().split('\n')[-1])
if bak is not None:
    open(V + '/evidence/%s.json' % prop, 'w').write(bak)
out = cov + '/cov.txt'
e = dict(os.environ, GOFLAGS='-mod=mod', GOPROXY='off')
subprocess.run(['go', 'tool', 'covdata', 'textfmt', '-i=' + cov, '-o=' + out], env=e, check=False)
blocks = {}
if os.path.exists(out):
    for l in open(out):
        m = re.match(r'github.com/google/osv-scalibr/(.+?):(\d+)\.(\d+),(\d+)\.(\d+) (\d+) (\d+)', l)
        if not m:
            continue
        f = m.group(1)
        if not any(f == a or (a.endswith('/') and f.startswith(a)) for a in anchors) or 'verif_export' in f or not os.path.exists('/repo/' + f):
            continue
        key = (f, int(m.group(2)), int(m.group(3)), int(m.group(4)), int(m.group(5)), int(m.group(6)))
        blocks[key] = blocks.get(key, 0) + int(m.group(7))
os.makedirs(V + '/coverage', exist_ok=True)
rep = []
tot = cvd = 0
byfile = {}
for (f, l1, c1, l2, c2, n), cnt in sorted(blocks.items()):
    tot += n
    if cnt:
        cvd += n
    else:
        byfile.setdefault(f, []).append((l1, l2, n))
rep.append('# %s %s stream: %d of %d statements of the anchor files executed (%.1f%%)' % (prop, tier, cvd, tot, 100.0 * cvd / max(tot, 1)))
for f in sorted(byfile):
    src = open('/repo/' + f).read().split('\n')
    rep.append('\n## %s — %d uncovered blocks' % (f, len(byfile[f])))
    for l1, l2, n in byfile[f]:
        # enclosing function
        fn = ''
        for i in range(l1 - 1, -1, -1):
            mm = re.match(r'func\s+(\([^)]*\)\s*)?([A-Za-z0-9_]+)', src[i])
            if mm:
                fn = mm.group(2)
                break
        rep.append('%s:%d-%d (%s, %d stmts): %s' % (f, l1, l2, fn, n, ' | '.join(x.strip() for x in src[l1 - 1:min(l2, l1 + 3)])[:220]))
open(V + '/coverage/%s.txt' % prop, 'w').write('\n'.join(rep) + '\n')
print(rep[0])
shutil.rmtree(cov, ignore_errors=True)
subprocess.run(['git', '-C', '/repo', 'worktree', 'remove', '--force', wt])
