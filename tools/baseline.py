#!/usr/bin/env python3
"""Run the repository's pinned test suite (guard OFF) and compare with /root/.vp/BASELINE.json.
usage: baseline.py [pkgpattern ...]   (default ./...)
Exit 0 iff every stable_pass test in the packages run passed."""
import json, os, subprocess, sys
pk = sys.argv[1:] or ['./...']
env = dict(os.environ, GOFLAGS='-mod=mod', GOPROXY='off')
env.pop('GOSUMDB', None); env.pop('GOTOOLCHAIN', None)
p = subprocess.Popen(['go', 'test', '-json', '-vet=off', '-count=1', '-timeout', '25m'] + pk,
                     cwd=os.environ.get('BASELINE_REPO', '/repo'), env=env, stdout=subprocess.PIPE, stderr=subprocess.STDOUT, text=True)
res = {}; pkgs = set()
for line in p.stdout:
    try: ev = json.loads(line)
    except Exception: continue
    if ev.get('Package'): pkgs.add(ev['Package'])
    if ev.get('Test') and ev.get('Action') in ('pass', 'fail', 'skip'):
        res[ev['Package'] + '::' + ev['Test']] = ev['Action']
p.wait()
# the containerd tests rewrite tracked fixtures in place (finding 16); restore them
subprocess.run(['git', '-C', os.environ.get('BASELINE_REPO', '/repo'), 'checkout', '--', 'extractor/filesystem/containers/containerd/testdata'],
               stdout=subprocess.DEVNULL, stderr=subprocess.DEVNULL)
b = json.load(open('/root/.vp/BASELINE.json'))
want = [t for t in b['stable_pass'] if t.split('::')[0] in pkgs]
bad = [t for t in want if res.get(t) != 'pass']
newfail = sorted(t for t, a in res.items() if a == 'fail' and t not in set(b.get('always_fail', [])) and t not in bad)
print(f'packages={len(pkgs)} baseline_tests_in_scope={len(want)} passed={len(want)-len(bad)} missing_or_failed={len(bad)} other_new_failures={len(newfail)}')
for t in bad[:50]: print('NOT-PASS', t, res.get(t))
for t in newfail[:50]: print('NEW-FAIL', t)
sys.exit(1 if bad or newfail else 0)
