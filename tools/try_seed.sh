#!/bin/bash
# Development aid: run ./check <Cxx> against a scratch worktree WITHOUT touching /repo, by bind-mounting the
# worktree over /repo in a private mount namespace (so translators, overlays and go.mod replace all see it).
# usage: tools/try_seed.sh <worktree> <Cxx> [extra check args]
wt=$1; prop=$2; shift 2
cp /verif/evidence/$prop.json /tmp/.evidence-$prop.bak 2>/dev/null
unshare -m bash -c "mount --bind $wt /repo && cd /verif && timeout 2400 ./check $prop $*"
rc=$?
cp /tmp/.evidence-$prop.bak /verif/evidence/$prop.json 2>/dev/null; rm -f /tmp/.evidence-$prop.bak
exit $rc
