#!/usr/bin/env python3
"""Record the current fingerprints of every mirrored Go function (run by hand after /repo legitimately changed,
e.g. after a fix: commit, once the owning checks pass again)."""
import json, subprocess, sys
sys.path.insert(0, '/verif')
from checks import walkcommon as W
specs = list(W.FINGERPRINT) + ['guidedremediation/internal/vulns/vulns.go:IsAffected,VKToPackage']
out = subprocess.run(['/verif/translator/bin/fingerprint', '/repo'] + specs, capture_output=True, text=True).stdout
json.dump(json.loads(out), open('/verif/fingerprints.json', 'w'), indent=1, sort_keys=True)
print(len(json.loads(out)), 'fingerprints recorded')

# anchor files of every property (all functions)
import os
anch = {}
for l in open('/verif/properties.jsonl'):
    p = json.loads(l)
    specs = [f + ':*' for f in p.get('anchors', {}).get('files', []) if f.endswith('.go') or f.endswith('/')]
    o = subprocess.run(['/verif/translator/bin/fingerprint', '/repo'] + specs, capture_output=True, text=True).stdout
    anch[p['id']] = json.loads(o)
json.dump(anch, open('/verif/fingerprints_anchor.json', 'w'), indent=0, sort_keys=True)
print({k: len(v) for k, v in anch.items()})
