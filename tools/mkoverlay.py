#!/usr/bin/env python3
"""Write harness/overlay/overlay.json: every file under harness/overlay/<rel>/ is injected into /repo/<rel>/
at build time (go build -overlay), so /repo itself carries no hook files."""
import json, os
root = os.path.join(os.path.dirname(os.path.dirname(os.path.abspath(__file__))), 'harness', 'overlay')
rep = {}
for d, _, fs in os.walk(root):
    for f in fs:
        if f.endswith('.go'):
            src = os.path.join(d, f)
            rel = os.path.relpath(src, root)
            rep[os.path.join('/repo', rel)] = src
# written under a private name and renamed: two checks running side by side must never read a half-written file
dst = os.path.join(root, 'overlay.json')
tmp = '%s.%d.tmp' % (dst, os.getpid())
with open(tmp, 'w') as f:
    json.dump({'Replace': rep}, f, indent=1, sort_keys=True)
os.replace(tmp, dst)
print(len(rep), 'overlay files')
