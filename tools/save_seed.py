#!/usr/bin/env python3
"""save_seed.py <src dir /var/tmp/seed-X> <seed id> <detected-by text>
Copies a confirmed seeded change into /verif/seeded/<id>/ (patch.diff, demo/, meta.json)."""
import json, os, shutil, sys
src, sid, detected = sys.argv[1], sys.argv[2], sys.argv[3]
dst = '/verif/seeded/' + sid
os.makedirs(dst, exist_ok=True)
shutil.copy(src + '/patch.diff', dst + '/patch.diff')
if os.path.isdir(dst + '/demo'):
    shutil.rmtree(dst + '/demo')
shutil.copytree(src + '/demo', dst + '/demo')
m = json.load(open(src + '/meta.json'))
conf = {}
for k in ('confirm_suite.txt', 'confirm_demo_with.txt', 'confirm_demo_without.txt'):
    if os.path.exists(src + '/' + k):
        conf[k] = open(src + '/' + k, errors='replace').read()[-600:]
m['confirmed_by_coordinator'] = {
    'what_was_run': 'in a scratch worktree of /repo: git apply patch.diff; go build ./...; the whole pinned suite (tools/baseline.py, 2080 baseline tests) with the patch; '
                    'the demonstration with the patch (must fail) and with the patch reverted (must pass)',
    'outputs': conf,
}
m['detected_by'] = detected
json.dump(m, open(dst + '/meta.json', 'w'), indent=1)
print('saved', dst)
