#!/bin/sh
# Build the framework once after a fresh restore, offline: Lean library + drivers, Go harness binaries.
set -e
export GOFLAGS=-mod=mod GOPROXY=off
cd /verif/lean && lake build Scalibr $(grep -h '^name = "drv_' lakefile.toml | sed 's/name = "\(.*\)"/\1/')
cd /verif && python3 tools/mkoverlay.py
cp /repo/go.sum /verif/harness/go.sum
cd /verif/harness && mkdir -p bin && for d in cmd/*/; do c=$(basename $d); go build -tags verif -overlay overlay/overlay.json -o bin/$c ./cmd/$c || echo "WARN: $c did not build"; done
echo setup done
