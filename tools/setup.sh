#!/bin/sh
# Build the framework once after a fresh restore, offline: Lean library + drivers, Go harness binaries.
# Every check rebuilds what it needs itself; this only warms the caches, so a target that does not build
# is reported and does not stop the setup (the owning check will report it properly).
export GOFLAGS=-mod=mod GOPROXY=off
cd /verif/lean || exit 1
lake build Scalibr.Base.Sort Scalibr.Base.Lex Scalibr.Base.Wire || exit 1
for m in $(ls Scalibr/Properties/*.lean | sed 's#/#.#g; s#\.lean$##'); do
  lake build "$m" > /tmp/setup_lake.log 2>&1 || { echo "WARN: $m did not build"; tail -5 /tmp/setup_lake.log; }
done
for e in $(grep -h '^name = "drv_' lakefile.toml | sed 's/name = "\(.*\)"/\1/'); do
  lake build "$e" > /tmp/setup_lake.log 2>&1 || { echo "WARN: $e did not build"; tail -5 /tmp/setup_lake.log; }
done
rm -f /tmp/setup_lake.log
cd /verif && python3 tools/mkoverlay.py
cp /repo/go.sum /verif/harness/go.sum
cd /verif/harness && mkdir -p bin && for d in cmd/*/; do c=$(basename $d); go build -tags verif -overlay overlay/overlay.json -o bin/$c ./cmd/$c || echo "WARN: $c did not build"; done
if [ -d /verif/translator ]; then cd /verif/translator && cp /repo/go.sum go.sum 2>/dev/null; mkdir -p bin; for d in cmd/*/; do c=$(basename $d); go build -o bin/$c ./cmd/$c || echo "WARN: translator $c did not build"; done; fi
echo setup done
exit 0
