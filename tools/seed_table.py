#!/usr/bin/env python3
"""Print the seeded-change table of DESIGN.md §7 from seeded/*/meta.json (one row per kept seed)."""
import json, os, re
V = os.path.dirname(os.path.dirname(os.path.abspath(__file__)))
rows = []
for d in sorted(os.listdir(V + '/seeded')):
    m = json.load(open(V + '/seeded/%s/meta.json' % d))
    s = m.get('summary', '')
    if isinstance(s, list):
        s = ' '.join(s)
    s = re.sub(r'\s+', ' ', s).strip()
    first = re.split(r'(?<=[.;])\s', s)[0][:260].replace('|', '/')
    det = re.sub(r'\s+', ' ', m.get('detected_by', '')).replace('|', '/')
    rows.append((d, first, det))
print('| seed | what it breaks | caught by |')
print('|---|---|---|')
for r in rows:
    print('| %s | %s | %s |' % r)
asbuilt = sum(1 for r in rows if 'MISSED' not in r[2] and 'only after' not in r[2] and 'first' not in r[2].lower())
print()
print('%d seeds kept: %d caught as built, %d only after strengthening.' % (len(rows), asbuilt, len(rows) - asbuilt))
