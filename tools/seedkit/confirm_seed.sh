#!/bin/bash
# usage: confirm_seed.sh <ID> <test file relative dest dir> <demo file> <run regex> <pkg>
# confirms: patch applied -> build ok, suite = baseline, demo FAILS ; patch reverted -> demo PASSES
id=$1; dest=$2; demo=$3; rx=$4; pkg=$5
wt=${WT:-/var/tmp/wt-$id}; sd=/var/tmp/seed-$id
export GOFLAGS=-mod=mod GOPROXY=off
cd $wt || exit 2
git checkout -q -- . ; git clean -fdq
git apply $sd/patch.diff || { echo "$id APPLY-FAILED"; exit 1; }
go build ./... || { echo "$id BUILD-FAILED"; exit 1; }
BASELINE_REPO=$wt python3 /verif/tools/baseline.py > $sd/confirm_suite.txt 2>&1; suite=$?
cp $sd/demo/$demo $wt/$dest/zz_seed_demo_test.go
go test $XFLAGS -vet=off -count=1 -run "$rx" $pkg > $sd/confirm_demo_with.txt 2>&1; with=$?
git apply -R $sd/patch.diff
go test $XFLAGS -vet=off -count=1 -run "$rx" $pkg > $sd/confirm_demo_without.txt 2>&1; without=$?
rm -f $wt/$dest/zz_seed_demo_test.go
git apply $sd/patch.diff
echo "$id suite_exit=$suite demo_with_patch_exit=$with demo_without_patch_exit=$without  $(tail -1 $sd/confirm_suite.txt)"
