#!/bin/bash
# usage: run.sh <patch> <checks...>
p=$1; shift
cd /var/tmp/wt-test && git checkout -q -- . && git apply $p || { echo "APPLY FAILED $p"; exit 1; }
for c in "$@"; do
  out=$(cd /verif && tools/try_seed.sh /var/tmp/wt-test $c 2>&1 | grep -v "^KNOWN" | tail -2 | cut -c1-260)
  echo "$(basename $p) -> $c: $out"
done
cd /var/tmp/wt-test && git checkout -q -- .
