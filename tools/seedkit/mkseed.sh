#!/bin/bash
# usage: mkseed.sh <ID e.g. C01c> <property id> ; creates worktree + seed dir + property.json
id=$1; pid=$2
git -C /repo worktree add --detach /var/tmp/wt-$id HEAD >/dev/null 2>&1 || { echo "worktree failed $id"; exit 1; }
mkdir -p /var/tmp/seed-$id
python3 - "$pid" "$id" <<'PY'
import json,sys
pid,id=sys.argv[1],sys.argv[2]
for l in open('/verif/properties.jsonl'):
    p=json.loads(l)
    if p['id']==pid:
        json.dump(p,open('/var/tmp/seed-%s/property.json'%id,'w'),indent=1)
PY
echo ok $id
