#!/usr/bin/env python3
"""Print the per-property status table of DESIGN.md §4 from the evidence files, MANIFEST.json and known_findings.txt."""
import json, re, glob, os
V = os.path.dirname(os.path.dirname(os.path.abspath(__file__)))
man = {c['property_id']: c for c in json.load(open(V + '/MANIFEST.json'))['checks']}
kf = {}
for l in open(V + '/known_findings.txt'):
    m = re.match(r'(finding|fixed): property=(C\d+)', l)
    if m:
        kf.setdefault(m.group(2), {'finding': 0, 'fixed': 0})[m.group(1)] += 1
seeds = {}
for d in os.listdir(V + '/seeded'):
    seeds[d[:3]] = seeds.get(d[:3], 0) + 1
print('| Prop | level | theorems audited (quick) | correspondence cases (quick) | known findings | repaired defects | seeded changes kept |')
print('|---|---|---|---|---|---|---|')
for p in sorted(man):
    e = json.load(open(V + '/evidence/%s.json' % p))
    cov = e.get('coverage', {})
    print('| %s | %s | %s | %s, %s mismatches | %d | %d | %d |' % (
        p, man[p]['level_claimed']['category'], cov.get('discharged', '?'), cov.get('evaluations', cov.get('cases', '?')),
        len(e.get('violations', [])) if False else cov.get('mismatches', 0), kf.get(p, {}).get('finding', 0), kf.get(p, {}).get('fixed', 0), seeds.get(p, 0)))
