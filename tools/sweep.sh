#!/bin/bash
# usage: tools/sweep.sh <quick|thorough> "<seeds>" [props…]   — runs ./check for every property and seed (4 at a time for quick,
# 2 at a time for thorough), appends one line per run to runs/sweep-<tier>.tsv: "<prop>\t<summary fields> rc=<exit>". The file is
# truncated first. The LAST run of each property is done with seed 1 so that evidence/<prop>.json is the default-seed run.
tier=$1; seeds=$2; shift 2
props=${@:-C01 C02 C03 C04 C05 C06 C07 C08 C09 C10 C11 C12 C13 C14 C15 C16 C17 C18 C19 C20}
cd /verif; out=runs/sweep-$tier.tsv; : > $out
one(){ p=$1; tier=$2; out=$3; shift 3; for s in "$@"; do t=$(mktemp -p /var/tmp sweep.XXXXXX); ./check $p --tier $tier --seed $s > $t 2>&1; rc=$?; l=$(grep "^$p tier=" $t | tail -1); nv=$(grep -c '^VIOLATION' $t); if [ $rc != 0 ] || [ $nv != 0 ]; then mkdir -p runs/failed; grep -v "^KNOWN" $t | tail -40 > runs/failed/$p-$tier-seed$s.txt; fi; rm -f $t; echo -e "$p\t${l#* } violation_lines=$nv rc=$rc" >> $out; done; }
export -f one
par=4; [ $tier = thorough ] && par=2
# seeds in the given order, then seed 1 again only if it was not last
last=$(echo $seeds | awk '{print $NF}'); [ "$last" != 1 ] && seeds="$seeds 1"
printf "%s\n" $props | xargs -P $par -I{} bash -c "one {} $tier $out $seeds"
sort -o $out $out
awk -F'\t' '{n++; if ($2 !~ /violations=0 / || $2 !~ /rc=0/) bad++} END {print n " runs, " bad+0 " not clean"}' $out
