-- Root of the `Scalibr` library: every model, specification, proof and property file.
import Scalibr.Base.Sort
import Scalibr.Base.Wire
