/-
Line-protocol driver for model A (C01, C02, C08, C09, C10).
request: walk <cfg> <paths> <skip> <regex> <glob> <req> <ext> <nroots> { <tree> <faults> }
  cfg    ug=,isd=,rs=,mx=,mi=,eofs=,cb=,ca=,next=        (ca=0: no cancellation)
  path   "." or hex segments joined by "/";  lists joined by ";" ("-" = empty)
  regex/glob  none | set:<paths;>            (the directory paths the real engine matched)
  req    e@path;…        ext  e@path=<err><panic>[<finding>]:<ids,>;…
  tree   preorder nodes path:kind:size:gi ;  kind d|r|l|s ;  gi  n | g<pat,…> ;  pat <dirOnly><neg><hexname> | 20<hex of a raw line>
         a .gitignore with a raw line (full gitignore syntax) is NOT interpreted by the model: the optional last token
         gt=<hex(key)~path~d|f,…> lists what the real go-git matcher excludes (key = "<dir path>#<gi field>"); the model's
         matcher for that directory is this table (the theorems only need the domain law, which the table matcher has by construction)
  faults of=<paths,>|sf=<paths,>|ff=<paths,>|rf=<path#k,>
reply : err= vis= calls=<e@path@size;…> pkgs=<id@e@path;…> st=<e=status,…> hyp=<0|1> spec=<calls owed, walk order>
        … limithyp=<0|1> specvisits=<visitsScan: handleFile calls of the scan run to the end> (theorem C10_inodes_exact_limitcfg)
        … cancelhyp=<0|1> cspecerr= cspecvis= cspeccalls= (cancelOutcome on the specification's trace; theorem C10_cancel_outcome_cancelcfg)
        … fnd=<e@path;…> findings of the filesystem extractors in emitted (sorted by advisory reference) order, "-" for a failed scan;
          specfnd= the same from the specification (findsOfCalls ∘ mustExtract; theorem run_finds_spec)
        … contained=<calls> the attempts per C09_contained_run_any_benign (fault-free rule minus files behind a fault), to be compared under hyp=1
        … nopanic=<0|1> mspecerr= mspecvis= mspeccalls= : the sequential machine (Spec/WalkMachine.lean) on the trace of the configuration
          with ErrorOnFSErrors cleared; theorem C10_machine_any: without a panicking extractor the scan ends with the fs error or is this
        … glue=refused|empty: Scan refused the configuration (err=cfg) / no filesystem extractor (empty success, nothing walked)
          cfg keys nrd= real= (harness only) out= (a skipped directory under no scan root: refused)
        … distinct=<0|1> every directory of every root lists distinct names (DistinctNames); subdirhyp=<0|1> one root, paths=[d], benign,
          and the hypotheses of C01_subdir_partial hold for d (theorem mustRequested_subdir_of_hyp)
-/
import Scalibr.Base.Wire
import Scalibr.Model.Gitignore
import Scalibr.Model.Scan
import Scalibr.Spec.Walk
import Scalibr.Spec.WalkCount
import Scalibr.Proofs.WalkTop
import Scalibr.Proofs.WalkAny
import Scalibr.Proofs.WalkSubdirHyp
import Scalibr.Proofs.WalkContainAny
open Scalibr Scalibr.Walk Scalibr.Wire

def parsePath (s : String) : Option Path :=
  if s = "." then some [] else (s.splitOn "/").mapM strOfHex

def showPath (p : Path) : String := if p.isEmpty then "." else "/".intercalate (p.map hexOfStr)

def parsePaths (s : String) (sep : String) : Option (List Path) := (listOf s sep).mapM parsePath

structure RawNode where
  path : Path
  kind : String
  size : Nat
  gi : Option PatSet

def parsePat (s : String) : Option Pat :=
  match s.toList with
  | d :: n :: rest =>
    match strOfHex (String.ofList rest) with
    | some name => some ⟨name, d = '1', n = '1'⟩
    | none => none
  | _ => none

def rawPrefix : String := "\x00raw:"

def parseRaw (s : String) : Option RawNode :=
  match s.splitOn ":" with
  | [p, k, sz, g] =>
    match parsePath p, sz.toNat? with
    | some p, some sz =>
      if g = "n" then some ⟨p, k, sz, none⟩
      else if g.startsWith "g" then
        let pats := listOf (g.drop 1).toString ","
        if pats.any (·.startsWith "2") then
          -- full-syntax .gitignore: an opaque pattern set identified by directory and content
          some ⟨p, k, sz, some [⟨rawPrefix ++ showPath p ++ "#" ++ g, false, false⟩]⟩
        else
        match pats.mapM parsePat with
        | some ps => some ⟨p, k, sz, some ps⟩
        | none => none
      else none
    | _, _ => none
  | _ => none

def kindOf (k : String) : Kind := if k = "l" || k = "L" then .symlink else if k = "s" then .special else .reg   -- L: symlink to a directory (a leaf of the walk)

/-- rebuild the tree from its preorder listing (fuel = depth bound; drivers only) -/
def buildNode : Nat → List RawNode → RawNode → Node
  | 0, _, r => if r.kind = "d" then .dir r.gi [] else .file (kindOf r.kind) r.size
  | fuel+1, all, r =>
    if r.kind = "d" then
      let kids := all.filter fun x => x.path.length = r.path.length + 1 && x.path.take r.path.length = r.path
      .dir r.gi (kids.map fun x => (x.path.getLast?.getD "", buildNode fuel all x))
    else .file (kindOf r.kind) r.size

def parseTree (s : String) : Option Node :=
  match (listOf s ";").mapM parseRaw with
  | some (r :: rest) => if r.path = [] then some (buildNode 16 (r :: rest) r) else none
  | _ => none

def memP (l : List Path) : Path → Bool := fun p => l.contains p

def parseFaults (s : String) : Option Faults :=
  match s.splitOn "|" with
  | [a, b, c, d] =>
    let strip (pre x : String) : Option String := if x.startsWith pre then some (x.drop pre.length).toString else none
    match strip "of=" a, strip "sf=" b, strip "ff=" c, strip "rf=" d with
    | some a, some b, some c, some d =>
      let rf : Option (List (Path × Nat)) := (listOf d ",").mapM fun x =>
        match x.splitOn "#" with
        | [p, k] => match parsePath p, k.toNat? with
          | some p, some k => some (p, k)
          | _, _ => none
        | _ => none
      match parsePaths a ",", parsePaths b ",", parsePaths c ",", rf with
      | some a, some b, some c, some rf =>
        some { openFail := memP a, statFail := memP b, fileStatFail := memP c, readEntryFail := fun p k => rf.contains (p, k) }
      | _, _, _, _ => none
    | _, _, _, _ => none
  | _ => none

def parseKV (s : String) : List (String × Nat) :=
  (s.splitOn ",").filterMap fun kv => match kv.splitOn "=" with
    | [k, v] => v.toNat?.map (k, ·)
    | _ => none

def getKV (kv : List (String × Nat)) (k : String) : Nat := ((kv.find? (·.1 = k)).map (·.2)).getD 0

def parseEP (s : String) : Option (Nat × Path) :=
  match s.splitOn "@" with
  | [e, p] => match e.toNat?, parsePath p with
    | some e, some p => some (e, p)
    | _, _ => none
  | _ => none

def parseExt (s : String) : Option ((Nat × Path) × ExtractOut) :=
  match s.splitOn "=" with
  | [ep, rest] =>
    match parseEP ep, rest.splitOn ":" with
    | some ep, [flags, ids] =>
      match flags.toList, (listOf ids ",").mapM (·.toNat?) with
      | [e, p], some ids => some (ep, { pkgs := ids, err := e = '1', panics := p = '1' })
      | [e, p, o], some ids => some (ep, { pkgs := ids, err := e = '1', panics := p = '1', finds := if o = '1' then [0] else [] })
      | _, _ => none
    | _, _ => none
  | _ => none

def parseSet (s : String) : Option (Option (List Path)) :=
  if s = "none" then some none
  else if s.startsWith "set:" then (parsePaths (s.drop 4).toString ";").map some
  else none

def parseRoots : Nat → List String → Option (List (Node × Faults))
  | 0, [] => some []
  | n+1, t :: f :: rest =>
    match parseTree t, parseFaults f, parseRoots n rest with
    | some t, some f, some rs => some ((t, f) :: rs)
    | _, _, _ => none
  | _, _ => none

/-- the table of the real matcher's verdicts: (key, path, isDir) triples that are excluded -/
def parseGiTable (s : String) : Option (List (String × Path × Bool)) :=
  (listOf s ",").mapM fun e =>
    match e.splitOn "~" with
    | [k, p, d] => match strOfHex k, parsePath p with
      | some k, some p => some (k, p, d = "d")
      | _, _ => none
    | _ => none

/-- go-git's matcher: the sub-language model for interpreted pattern sets, the table for opaque ones
(`Model/Gitignore.lean: tableMatch`, which obeys the domain law whatever the table says: `tableMatch_domain`) -/
def rawKey (ps : PatSet) : Option String :=
  match ps with
  | [pt] => if pt.name.startsWith rawPrefix then some (pt.name.drop rawPrefix.length).toString else none
  | _ => none
def giMatchOf (tbl : List (String × Path × Bool)) : PatSet → List String → List String → Bool → Bool :=
  tableMatch rawKey tbl

def bytes (s : String) : List Nat := s.toUTF8.toList.map (·.toNat)
def bytesLt (a b : String) : Bool := ltBytes (bytes a) (bytes b)

def pathStr (p : Path) : String := if p.isEmpty then "." else "/".intercalate p

/-- the Locations a fake extractor reports for package `i` found in file `p`, AFTER `sort.Strings`:
every fourth package id carries a second, path-dependent location that sorts before ordinary names -/
def locsOf (i : Nat) (p : Path) : List String :=
  let ps := pathStr p
  if i % 4 = 3 then
    let k := (ps.toUTF8.toList.foldl (fun a b => a + b.toNat) 0) % 7
    let extra := "00/" ++ String.singleton (Char.ofNat (97 + k))
    if bytesLt extra ps then [extra, ps] else [ps, extra]
  else [ps]

def naming : Naming where
  pkgName i := bytes ("n" ++ toString (i / 3))
  pkgVersion i := bytes ("v" ++ toString (i % 3))
  extName e := bytes ("e" ++ toString e)
  locStr i p := bytes ("[" ++ " ".intercalate (locsOf i p) ++ "]")

def showErr : Err → String
  | .none => "none" | .maxInodes => "maxinodes" | .ctx => "ctx" | .fs => "fs" | .panic => "panic"
def showStatus : Status → String
  | .ok => "ok" | .failed => "failed" | .part => "partial"
/-- id@extractor@<sorted locations, hex, joined by +> -/
def showPkg (p : Pkg) : String := s!"{p.id}@{p.ext}@{"+".intercalate ((locsOf p.id p.loc).map hexOfStr)}"
def showCall (c : Call) : String := s!"{c.ext}@{showPath c.path}@{c.size}"
/-- the advisory reference the fake extractor gives its finding, and the emitted order (sortResults: by reference, bytewise) -/
def fndRef (x : Fnd) : List Nat := bytes ("F-" ++ toString x.ext ++ "-" ++ pathStr x.loc)
def showFnds (l : List Fnd) : String :=
  joinWith ";" ((isort (fun a b => ltBytes (fndRef a) (fndRef b)) l).map fun x => s!"{x.ext}@{showPath x.loc}")

def handle (line : String) : String :=
  match line.splitOn " " with
  | "walk" :: cfg :: paths :: skip :: rx :: gl :: req :: ext :: nr :: rest =>
    let kv := parseKV cfg
    match parsePaths paths ";", parsePaths skip ";", parseSet rx, parseSet gl,
          (listOf req ";").mapM parseEP, (listOf ext ";").mapM parseExt, nr.toNat? with
    | some paths, some skip, some rx, some gl, some req, some ext, some nr =>
      let (rootToks, extra) := (rest.take (2 * nr), rest.drop (2 * nr))
      let tbl : List (String × Path × Bool) := match extra with
        | [g] => if g.startsWith "gt=" then (parseGiTable (g.drop 3).toString).getD [] else []
        | _ => []
      match parseRoots nr rootToks with
      | some roots =>
        let c : Cfg := {
          nExt := getKV kv "next"
          required := fun e p => req.contains (e, p)
          extract := fun e p => ((ext.find? (·.1 = (e, p))).map (·.2)).getD {}
          paths := paths
          ignoreSubDirs := getKV kv "isd" = 1
          dirsToSkip := memP skip
          regex := rx.map memP
          glob := gl.map memP
          useGitignore := getKV kv "ug" = 1
          readSymlinks := getKV kv "rs" = 1
          maxInodes := getKV kv "mi"
          maxFileSize := getKV kv "mx"
          errorOnFSErrors := getKV kv "eofs" = 1
          cancelBefore := getKV kv "cb" = 1
          cancelAt := if getKV kv "ca" = 0 then none else some (getKV kv "ca")
          giMatch := giMatchOf tbl }
        -- the glue of Scan / filesystem.Run (Model/Scan.lean `glue`): refused configurations and the scan without filesystem extractors
        match glue c roots.length (getKV kv "out" ≥ 1) with
        | .refused => s!"err=cfg vis={if getKV kv "ns" ≥ 1 then "?" else "0"} calls=- pkgs=- st=- fnd=- hyp=0 glue=refused"
        | .empty => s!"err=none vis={if getKV kv "ns" ≥ 1 then "?" else "0"} calls=- pkgs=- st=- fnd=- hyp=0 glue=empty"
        | .walks =>
        let r := run c roots
        let o := scan naming c roots
        let hyp := c.maxInodes = 0 && !c.errorOnFSErrors && !c.cancelBefore && c.cancelAt.isNone &&
          ext.all (fun x => !x.2.panics)
        let spec := mustExtract c roots
        s!"err={showErr r.err} vis={if getKV kv "ns" ≥ 1 then "?" else toString r.visited} calls={joinWith ";" ((r.calls.filter (·.opened)).map showCall)} " ++
        s!"pkgs={joinWith ";" (o.pkgs.map showPkg)} " ++
        s!"st={joinWith "," (o.statuses.map fun (e, st) => s!"{e}={showStatus st}")} " ++
        s!"hyp={boolStr hyp} spec={joinWith ";" ((spec.filter (·.opened)).map showCall)} " ++
        -- the specification's inventory and statuses (theorems C01_inv_spec_benign, C09_surfaced_benign), sorted as sortResults does
        s!"specpkgs={joinWith ";" ((isort (pkgLt naming) (pkgsOfCalls c spec)).map showPkg)} " ++
        s!"fatalhyp={boolStr (c.maxInodes = 0 && c.errorOnFSErrors && !c.cancelBefore && c.cancelAt.isNone && ext.all (fun x => !x.2.panics))} " ++
        s!"specfatal={boolStr (traversalFaultScan c roots)} " ++
        s!"specst={joinWith "," ((isort (statusLt naming) (roots.flatMap fun (r, f) => (List.range c.nExt).map fun e => (e, statusSpec c f r e))).map fun (e, st) => s!"{e}={showStatus st}")} " ++
        -- hypothesis LimitCfg and right-hand side of theorem C10_inodes_exact_limitcfg
        s!"limithyp={boolStr (decide (c.maxInodes > 0) && !c.errorOnFSErrors && !c.cancelBefore && c.cancelAt.isNone && ext.all (fun x => !x.2.panics))} " ++
        s!"specvisits={visitsScan c roots} " ++
        -- hypothesis CancelCfg and right-hand side of theorem C10_cancel_outcome_cancelcfg
        (let co := cancelOutcome (c.cancelAt.getD 0) 0 (traceScan c roots)
         s!"cancelhyp={boolStr (c.maxInodes = 0 && !c.errorOnFSErrors && !c.cancelBefore && decide (c.cancelAt.getD 0 ≥ 1) && ext.all (fun x => !x.2.panics))} " ++
         s!"cspecerr={showErr co.2.1} cspecvis={co.2.2} cspeccalls={joinWith ";" ((co.1.filter (·.opened)).map showCall)} ") ++
        -- findings of the filesystem extractors: model, and specification (theorem run_finds_spec, class Benign)
        s!"fnd={if r.err = .none then showFnds r.finds else "-"} specfnd={showFnds (findsOfCalls c spec)} " ++
        -- containment (theorem C09_contained_run_any_benign, class Benign): the attempts written with the FAULT-FREE rule over the trees
        -- with unreadable .gitignore contents removed, minus the files a fault lies on the way to
        s!"contained={joinWith ";" (((roots.flatMap fun rf => containedRootAny c rf.2 rf.1).filter (·.opened)).map showCall)} " ++
        -- the sequential machine on the specification's trace (theorem C10_machine_any: every configuration without a panicking extractor)
        (let mo := machineOutcome (nonFatal c) roots
         s!"nopanic={boolStr (ext.all (fun x => !x.2.panics))} mspecerr={showErr mo.2.1} mspecvis={mo.2.2} " ++
         s!"mspeccalls={joinWith ";" ((mo.1.filter (·.opened)).map showCall)} ") ++
        -- hypotheses of C01_once_partial (DistinctNames) and of C01_subdir_partial (for a scan requesting exactly one path of one root)
        s!"distinct={boolStr (roots.all fun rf => distinctB rf.1)} " ++
        s!"subdirhyp={boolStr (match roots, c.paths with
            | [(root, f)], [d] => hyp && subdirHyp { c with paths := [] } f root d
            | _, _ => false)}"
      | none => "bad-op"
    | _, _, _, _, _, _, _ => "bad-op"
  | _ => "bad-op"

def main : IO Unit := serve handle
