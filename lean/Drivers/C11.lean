/-
Line-protocol driver for C11.  A request is "<concrete part> | <tables>"; only the op, the level and
the tables are read (the concrete part is what the Go side replays).
  rx <level> … | <n> <mat bits> <pre bits> <diff rows>
      → r=fail|t<idx>|c<idx> last=<idx|-> okset=<bits>      okset[i] = an index the property accepts
  ov <level> … | <n> <vkpos> <nv> <aff rows> <diff rows>
      → r=ok final=<pos> greater=<pos.pos> rounds=<k> laws=<0|1> okset=<bits>
  sg <level> … | <simple> <cur rank|-> <curId|-> <id:rank:diff:mat,…>
      → r=keep|update:<id> okset=<bits over ids> cls=-
-/
import Scalibr.Base.Wire
import Scalibr.Spec.Upgrade
open Scalibr Scalibr.Wire Scalibr.Upgrade

def bitsOf (s : String) : List Bool := if s = "-" then [] else s.toList.map (· = '1')

def parseMatrix (s : String) : Option (List (List (Option Nat))) :=
  (listOf s ";").mapM fun row => (row.splitOn ",").mapM fun c =>
    if c = "e" then some none else (c.toNat?).map some

def matGet (m : List (List (Option Nat))) (i j : Nat) : Option Nat := ((m.getD i []).getD j none)

def showBits (bs : List Bool) : String := if bs.isEmpty then "-" else String.ofList (bs.map fun b => if b then '1' else '0')

def handleRx (level : Nat) (tb : List String) : String :=
  match tb with
  | [n, mat, pre, dm] =>
    match n.toNat?, parseMatrix dm with
    | some n, some m =>
      let matb := bitsOf mat
      let preb := bitsOf pre
      let t : Relax.T := ⟨n, fun i => matb.getD i false, fun i => preb.getD i false, matGet m⟩
      -- the base of the property: the highest version matching the old requirement
      let last := ((List.range n).reverse.find? fun i => t.mat i)
      let okset := (List.range n).map fun i =>
        match last with
        | some l => decide (l < i) && allows level ((t.diff l i).getD dOther) && level != lNone
        | none => false
      let r := match Relax.relax t level with
        | none => "fail"
        | some o => (if o.tilde then "t" else "c") ++ toString o.idx
      s!"r={r} last={match last with | some l => toString l | none => "-"} okset={showBits okset}"
    | _, _ => "bad-op"
  | _ => "bad-op"

def lawsHold (n : Nat) (d : Nat → Nat → Nat) : Bool :=
  let r := List.range n
  r.all (fun a => d a a = dSame) &&
  r.all fun a => r.all fun b => r.all fun c =>
    (d a b = dMajor || d b c = dMajor || d a c != dMajor) &&
    ((d a b = dMajor || d a b = dMinor) || (d b c = dMajor || d b c = dMinor) || (d a c != dMajor && d a c != dMinor)) &&
    (d a b != dSame || d b c != dSame || d a c = dSame)

/-- the loop with a round counter -/
def loopCount (u : Override.U) (level : Nat) : Nat → Nat → Nat → Nat × Nat
  | 0, vk, k => (vk, k)
  | f + 1, vk, k => match Override.round u level vk with
    | none => (vk, k)
    | some b => loopCount u level f b (k + 1)

def handleOv (level : Nat) (tb : List String) : String :=
  match tb with
  | [n, vk, nv, aff, dm] =>
    match n.toNat?, vk.toNat?, nv.toNat?, parseMatrix dm with
    | some n, some vk, some nv, some m =>
      let affRows := (listOf aff ";").map bitsOf
      let d : Nat → Nat → Nat := fun i j => (matGet m i j).getD dOther
      let u : Override.U := ⟨List.range n, d, nv, fun v r => (affRows.getD v []).getD r false⟩
      let (final, rounds) := loopCount u level (n + 1) vk 0
      let greater := Override.versionsGreater u.vs vk
      let okset := (List.range n).map fun i => i = vk || (decide (vk < i) && allows level (d vk i) && level != lNone)
      s!"r=ok final={final} greater={joinWith "." (greater.map toString)} rounds={rounds} laws={boolStr (lawsHold n d)} okset={showBits okset}"
    | _, _, _, _ => "bad-op"
  | _ => "bad-op"

def parseV (s : String) : Option Suggest.V :=
  match s.splitOn ":" with
  | [i, r, d, m] =>
    match i.toNat?, r.toNat?, d.toNat?, boolOf? m with
    | some i, some r, some d, some m => some ⟨i, r, d, m⟩
    | _, _, _, _ => none
  | _ => none

def handleSg (level : Nat) (tb : List String) : String :=
  match tb with
  | [simple, cur, curId, vs] =>
    match boolOf? simple, (listOf vs ",").mapM parseV with
    | some simple, some vs =>
      let curR : Option Nat := cur.toNat?
      let curV : Option Suggest.V := curR.map fun r => ⟨vs.length + 1, r, dSame, true⟩
      let curI : Option Nat := curId.toNat?
      let res := Suggest.suggestFn level simple curV curI vs   -- the harness calls suggestMavenVersion itself
      let okset := vs.map fun v => match curR with
        | some r => decide (r < v.rank) && allows level v.diff && level != lNone
        | none => false
      let r : String := match res with
        | .keep => "keep"
        | .update v => s!"update:{v.id}"
      s!"r={r} okset={showBits okset} cls=-"
    | _, _ => "bad-op"
  | _ => "bad-op"

def handle (line : String) : String :=
  match line.splitOn " | " with
  | [conc, tables] =>
    match conc.splitOn " " with
    | op :: lvl :: _ =>
      match lvl.toNat? with
      | some level =>
        let tb := tables.splitOn " "
        if op = "rx" then handleRx level tb else if op = "ov" then handleOv level tb
        else if op = "sg" then handleSg level tb else "bad-op"
      | none => "bad-op"
    | _ => "bad-op"
  | _ => "bad-op"

def main : IO Unit := serve handle
