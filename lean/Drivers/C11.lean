/-
Line-protocol driver for C11.  A request is "<concrete part> | <tables>"; only the op, the level and
the tables are read (the concrete part is what the Go side replays).
  rx <level> … | <n> <mat bits> <pre bits> <diff rows>
      → r=fail|t<idx>|c<idx> last=<idx|-> okset=<bits>      okset[i] = an index the property accepts
  ov <level> … | <n> <vkpos> <nv> <aff rows> <diff rows>
      → r=ok final=<pos> greater=<pos.pos> rounds=<k> laws=<0|1> okset=<bits>
  rl 0 <hex json> | -                                                         (real FixVulns, npm/relax, under a watchdog) → r=ok
  up 0 <hex json> | <requirement blocks>                                     (Update on a whole pom; see handleUp)
  mo 0 <hex json> | <levels> <counts> <pins0> <lres> <nv> <aff> <diffs>     (several packages; see handleMo)
  cf 0 <entries pkg:word:bare,… (hex, "_" = empty)> | <queried packages (hex),…>       (NewConfigFromStrings; see handleCf)
      → r=ok cfg=<pkg=level,… sorted> get=<levels.> spec=<levels.> wf=<0|1>
  sg <level> … | <simple> <cur rank|-> <curId|-> <id:rank:diff:mat,…>
      → r=keep|update:<id> okset=<bits over ids> cls=-
-/
import Scalibr.Base.Wire
import Scalibr.Spec.Upgrade
import Scalibr.Spec.UpgradeConfig
import Scalibr.Spec.EntryPoints
import Scalibr.Model.OverrideMulti
open Scalibr Scalibr.Wire Scalibr.Upgrade

def natsDot (s : String) : Option (List Nat) := (s.splitOn ".").mapM (·.toNat?)

def bitsOf (s : String) : List Bool := if s = "-" then [] else s.toList.map (· = '1')

def parseMatrix (s : String) : Option (List (List (Option Nat))) :=
  (listOf s ";").mapM fun row => (row.splitOn ",").mapM fun c =>
    if c = "e" then some none else (c.toNat?).map some

def matGet (m : List (List (Option Nat))) (i j : Nat) : Option Nat := ((m.getD i []).getD j none)

def showBits (bs : List Bool) : String := if bs.isEmpty then "-" else String.ofList (bs.map fun b => if b then '1' else '0')

def handleRx (level : Nat) (tb : List String) : String :=
  match tb with
  | [n, mat, pre, dm] =>
    match n.toNat?, parseMatrix dm with
    | some n, some m =>
      let matb := bitsOf mat
      let preb := bitsOf pre
      let t : Relax.T := ⟨n, fun i => matb.getD i false, fun i => preb.getD i false, matGet m⟩
      -- the base of the property: the highest version matching the old requirement
      let last := ((List.range n).reverse.find? fun i => t.mat i)
      let okset := relaxAcceptable t level last
      let r := match Relax.relax t level with
        | none => "fail"
        | some o => (if o.tilde then "t" else "c") ++ toString o.idx
      s!"r={r} last={match last with | some l => toString l | none => "-"} spec={showBits okset}"
    | _, _ => "bad-op"
  | _ => "bad-op"

def lawsHold (n : Nat) (d : Nat → Nat → Nat) : Bool :=
  let r := List.range n
  r.all (fun a => d a a = dSame) &&
  r.all fun a => r.all fun b => r.all fun c =>
    (d a b = dMajor || d b c = dMajor || d a c != dMajor) &&
    ((d a b = dMajor || d a b = dMinor) || (d b c = dMajor || d b c = dMinor) || (d a c != dMajor && d a c != dMinor)) &&
    (d a b != dSame || d b c != dSame || d a c = dSame)

/-- number of rounds `Override.loop` makes (classification only; the result comes from `Override.loop` itself) -/
def roundsOf (u : Override.U) (level : Nat) : Nat → Nat → Nat
  | 0, _ => 0
  | f + 1, vk => match Override.round u level vk with
    | none => 0
    | some b => roundsOf u level f b + 1

def handleOv (level : Nat) (tb0 : List String) : String :=
  -- a seventh table token: the dependency carries a classifier / type (older case lines have six tokens)
  let typed := tb0.getD 6 "0" = "1"
  match tb0.take 6 with
  | [n, ranks, vk, nv, aff, dm] =>
    match n.toNat?, natsDot ranks, vk.toNat?, nv.toNat?, parseMatrix dm with
    | some n, some ranks, some vk, some nv, some m =>
      let affRows := (listOf aff ";").map bitsOf
      let d : Nat → Nat → Nat := fun i j => (matGet m i j).getD dOther
      let rank : Nat → Nat := fun i => ranks.getD i 0
      let u : Override.U := ⟨List.range n, rank, d, nv, fun v r => (affRows.getD v []).getD r false⟩
      let final := Override.loopTyped typed u level (n + 1) vk
      let greater := Override.versionsGreater rank u.vs vk
      -- the specification's verdict per version: the base itself, or an acceptable move from it
      let spec := (List.range n).map fun i => i = vk || acceptable level rank d vk i
      let cls := "-"
      s!"r=ok final={final} greater={joinWith "." (greater.map toString)} rounds={roundsOf u level (n + 1) vk} laws={boolStr (lawsHold n d)} spec={showBits spec} cls={cls}"
    | _, _, _, _, _ => "bad-op"
  | _ => "bad-op"

def parseV (s : String) : Option Suggest.V :=
  match s.splitOn ":" with
  | [i, r, d, m] =>
    match i.toNat?, r.toNat?, d.toNat?, boolOf? m with
    | some i, some r, some d, some m => some ⟨i, r, d, m⟩
    | _, _, _, _ => none
  | _ => none

def handleSg (level : Nat) (tb : List String) : String :=
  match tb with
  | [simple, cur, curId, vs] =>
    match boolOf? simple, (listOf vs ",").mapM parseV with
    | some simple, some vs =>
      let curR : Option Nat := cur.toNat?
      let curV : Option Suggest.V := curR.map fun r => ⟨vs.length + 1, r, dSame, true⟩
      let curI : Option Nat := curId.toNat?
      let res := Suggest.suggestFn level simple curV curI vs   -- the harness calls suggestMavenVersion itself
      let okset := updateAcceptable level curV vs
      let r : String := match res with
        | .keep => "keep"
        | .update v => s!"update:{v.id}"
      s!"r={r} spec={showBits okset} cls=-"
    | _, _ => "bad-op"
  | _ => "bad-op"

/-- mo … | <levels a.b.l> <counts na.nb.nl> <pins0 a.b.l> <lres rows> <nv> <aff v: A/B/L bits ; …> <diff A/B/L matrices>
    packages 0 = a (direct), 1 = b (direct, nb = 0 when absent), 2 = l (transitive).
    → r=ok pins=a.b.l res=a.b.l rounds=k okA=<bits> okB=<bits> okL=<row per (a,b): bits ;> -/
def optNats (s : String) : Option (List (Option Nat)) :=
  (s.splitOn ".").mapM fun x => if x = "-" || x = "x" then some none else (x.toNat?).map some

def showOpts (l : List (Option Nat)) : String :=
  ".".intercalate (l.map fun x => match x with | some v => toString v | none => "-")

def handleMo (tb : List String) : String :=
  match tb with
  | [lv, cn, p0, lres, nv, aff, dm] =>
    match natsDot lv, natsDot cn, optNats p0, nv.toNat?, (dm.splitOn "/").mapM parseMatrix with
    | some [la, lb, ll], some [na, nb, nl], some pins0, some nv, some [ma, mb, ml] =>
      let counts := [na, nb, nl]
      let mats := [ma, mb, ml]
      let levels := [la, lb, ll]
      let lresRows : List (List (Option Nat)) := (listOf lres ";").map fun row => (row.splitOn ",").map fun x => x.toNat?
      let affT : List (List (List Bool)) := (listOf aff ";").map fun v => (v.splitOn "/").map bitsOf
      let d : Nat → Nat → Nat → Nat := fun p i j => (matGet (mats.getD p []) i j).getD dOther
      let u : OverrideMulti.MU := ⟨3, fun p => List.range (counts.getD p 0), fun _ x => x, d, nv,
        fun v p r => (((affT.getD v []).getD p []).getD r false), fun p => levels.getD p 0⟩
      let lresOf : Nat → Option Nat → Option Nat := fun a b => ((lresRows.getD a []).getD (b.getD 0) none)
      let resolve : OverrideMulti.Pins → OverrideMulti.Res := fun pins =>
        let a := pins.getD 0 none
        let b := pins.getD 1 none
        let l := match a with
          | some av => (match lresOf av b with | some base => some ((pins.getD 2 none).getD base) | none => none)
          | none => none
        [a, b, l]
      -- fuel: the bound of C11_terminates_multi_bound_partial; `done=0` would mean it ran out
      let out := OverrideMulti.loop u resolve ((na + 1) + (nb + 1) + (nl + 1) + 1) pins0 0
      let pins := out.pins
      let rounds := out.rounds
      let okOf : Nat → Nat → List Bool := fun p base =>
        (List.range (counts.getD p 0)).map fun i => acceptable (levels.getD p 0) id (d p) base i
      let okA := match pins0.getD 0 none with | some a0 => okOf 0 a0 | none => []
      let okB := match pins0.getD 1 none with | some b0 => okOf 1 b0 | none => []
      let okL := (List.range na).map fun a => (List.range (max nb 1)).map fun b =>
        match lresOf a (if nb = 0 then none else some b) with
        | some base => showBits (okOf 2 base)
        | none => "x"
      -- known class C11/override-pin-overtaken, decided on the MODEL's own result: the pin it leaves on the transitive
      -- package is not strictly above (within level) what the final manifest resolves to without that pin
      let cls := match pins.getD 2 none, pins.getD 0 none with
        | some l, some a => (match lresOf a (pins.getD 1 none) with
          | some base => if (okOf 2 base).getD l false then "-" else "C11/override-pin-overtaken"
          | none => "-")
        | _, _ => "-"
      s!"r=ok pins={showOpts pins} res={showOpts (resolve pins)} rounds={rounds} done={boolStr out.done} cls={cls} okA={showBits okA} okB={showBits okB} okL={";".intercalate (okL.map fun row => ",".intercalate row)}"
    | _, _, _, _, _ => "bad-op"
  | _ => "bad-op"

/-- up … | <dup 0|1> <blocks /> ; block = level;skip;simple;cur|-;curId|-;rows   rows = id:rank:diff:mat,…
    → r=ok ups=<i:id ,> pom=<per requirement: id or = ,> oks=<okset per requirement ;> -/
def handleUp (tb : List String) : String :=
  match tb with
  | [dup, blocks] =>
    let parseB : String → Option Suggest.RB := fun b =>
      match b.splitOn ";" with
      | [lv, sk, si, cur, cid, rows] =>
        match lv.toNat?, boolOf? sk, boolOf? si, (listOf rows ",").mapM parseV with
        | some lv, some sk, some si, some vs =>
          some ⟨lv, sk, si, (cur.toNat?).map fun r => ⟨vs.length + 1, r, dSame, true⟩, cid.toNat?, vs⟩
        | _, _, _, _ => none
      | _ => none
    match (listOf blocks "/").mapM parseB with
    | some rbs =>
      let res := Suggest.suggestPatch rbs
      let idx := List.range res.length
      let ups := (idx.zip res).filterMap fun (i, r) => match r with | .update v => some s!"{i}:{v.id}" | .keep => none
      let pom := res.map fun r => match r with | .update v => toString v.id | .keep => "="
      let oks := rbs.map fun rb => showBits (if rb.skip then rb.vs.map (fun _ => false) else updateAcceptable rb.level rb.cur rb.vs)
      -- two declarations with one dependency key: which of them the writer rewrites is C13/pom-origin-ignored, so the
      -- written pom is reported under another field name and not compared
      let field := if dup = "1" then "pomd" else "pom"
      s!"r=ok ups={joinWith "," ups} {field}={joinWith "," pom} spec={joinWith ";" oks}"
    | none => "bad-op"
  | _ => "bad-op"

def unhexC (s : String) : Option (List Char) := if s = "_" then some [] else (strOfHex s).map (·.toList)
def hexC (s : List Char) : String := if s.isEmpty then "_" else hexOfStr (String.ofList s)

/-- `cf`: the entries of the case are rendered to strings (Spec.render) and parsed by the model of `NewConfigFromStrings`;
`cfg=` is the resulting map, `get=` the level of each queried package (model), `spec=` the intended level (Spec.intended on the
entries themselves), `wf=` Spec.WFentry on all entries (the hypothesis of C11_config_strings_meaning). -/
def handleCf (entries : String) (tb : List String) : String :=
  let es : Option (List Entry) := (listOf entries ",").mapM fun e =>
    match e.splitOn ":" with
    | [p, w, b] => do some ⟨← unhexC p, ← unhexC w, b = "1"⟩
    | _ => none
  let qs : Option (List (List Char)) := match tb with
    | [q] => (listOf q ",").mapM unhexC
    | _ => none
  match es, qs with
  | some es, some qs =>
    let cfg := configFromStrings (es.map render)
    -- the Go map: one level per key, the most recent assignment
    let keys := (cfg.map (·.1)).eraseDups
    let shown := (keys.map fun k => hexC k ++ "=" ++ toString (configGet cfg k)).toArray.qsort (· < ·) |>.toList
    let wf := es.all fun e => decide (WFentry e)
    s!"r=ok cfg={joinWith "," shown} get={joinWith "." (qs.map fun q => toString (configGet cfg q))} spec={joinWith "." (qs.map fun q => toString (intended es q))} wf={if wf then "1" else "0"}"
  | _, _ => "bad-op"

/-- `ep <kind>`: what Spec.EntryPoints asks of the call -/
def handleEp (k : Nat) : String :=
  match Scalibr.EntryPoints.want k with
  | some .refuse => "r=ok want=refuse"
  | some .succeed => "r=ok want=succeed"
  | some .flagged => "r=ok want=flagged"
  | none => "bad-op"

def handle (line : String) : String :=
  match line.splitOn " | " with
  | [conc, tables] =>
    match conc.splitOn " " with
    | op :: lvl :: _ =>
      match lvl.toNat? with
      | some level =>
        let tb := tables.splitOn " "
        if op = "rx" then handleRx level tb else if op = "ov" then handleOv level tb
        else if op = "sg" then handleSg level tb else if op = "mo" then handleMo tb else if op = "up" then handleUp tb
        else if op = "cf" then handleCf ((conc.splitOn " ").getD 2 "-") tb
        else if op = "ep" then handleEp level
        else if op = "ja" then "r=ok"     -- patches applied jointly through FixVulns: judged on the result (see checks/c11.py)
        else if op = "rl" then "r=ok"     -- relax end to end: the only claim is termination (the call returns); see C11_terminates_*
        else "bad-op"
      | none => "bad-op"
    | _ => "bad-op"
  | _ => "bad-op"

def main : IO Unit := serve handle
