/-
Line-protocol driver for the load path of C06 (temp-dir life cycle of image.FromV1Image).
request : load <nlayers> <fail|-> <kind> <pos>            (harness/cmd/c06load/main.go)
reply   : err=<0|1> left=<directories in TMPDIR after the load> img=<0|1> clean=<directories in TMPDIR after CleanUp>
The kinds c t h l n make `fillChainLayersWithFilesFromTar` fail for layer <fail>; v fails before any directory exists;
b o u d - load fine.
-/
import Scalibr.Base.Wire
import Scalibr.Model.ImageLife
open Scalibr Scalibr.Wire Scalibr.ImageLife

def handle (line : String) : String :=
  match line.splitOn " " with
  | ["load", nl, fail, kind, _pos] =>
    match nl.toNat?, kind.toList with
    | some nl, [k] =>
      let failIdx : Option Nat := if fail = "-" then none else fail.toNat?
      if fail != "-" && failIdx.isNone then "bad-op" else
      let fatal := k = 'c' || k = 't' || k = 'h' || k = 'l' || k = 'n'
      -- chain layers newest first: index nl-1 … 0
      let layers : List LayerRun := (List.range nl).reverse.map fun i =>
        ⟨false, true, true, true, !(fatal && failIdx == some i)⟩
      let r : Run := ⟨k != 'v', true, true, layers⟩
      let (res, tmp) := fromV1Image [] 1 r
      let after := match res with | some d => cleanUp tmp d | none => tmp
      s!"err={boolStr res.isNone} left={tmp.length} img={boolStr res.isSome} clean={after.length}"
    | _, _ => "bad-op"
  | _ => "bad-op"

def main : IO Unit := serve handle
