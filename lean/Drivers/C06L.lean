/-
Line-protocol driver for the load path of C06 (temp-dir life cycle of image.FromV1Image).
request : load <nlayers> <fail|-> <kind> <pos>                        (harness/cmd/c06load/main.go; = load2 L^n … 0 0)
          load2 <hist> <fail|-> <kind> <pos> <decoys> <seed>
          load3 <hist> <fail|-> <kind> <pos> <decoys> <seed> <req> <entry>     (requirer and entry point do not change the life cycle)
          run <pre><mktemp><root> <layer outcomes> <decoys>            (model only: every exit of the loader, also those no
                                                                        input reaches: `root`, `haveLayer`)
            layer outcomes: newest chain layer first, `,`-separated, five 0/1 digits each: empty mkdir haveLayer opened filled; `-` = none
reply   : err=<0|1> left=<directories in TMPDIR after the load> img=<0|1> clean=<directories in TMPDIR after CleanUp>
          others=<1 iff the directories that were in TMPDIR before are all there, unchanged, at the end>
hist: one letter per chain layer, oldest first; L = layer with an archive, E = empty-layer history entry, X = layer with an
archive whose history entry says EmptyLayer (invalid history: one chain layer per archive; for the life cycle an L).
kinds: c t h l n k make `fillChainLayersWithFilesFromTar` fail for layer <fail>; e makes its `Uncompressed()` fail; p makes
`os.Mkdir` of the first layer directory fail; m makes `os.MkdirTemp` fail; v (config) and y (`Layers()`) fail before any
directory exists; b o u d w g - load fine.  TMPDIR starts with <decoys> directories (names 100, 101, each holding a layer
directory); `os.MkdirTemp` picks the name 1.
-/
import Scalibr.Base.Wire
import Scalibr.Model.ImageLife
open Scalibr Scalibr.Wire Scalibr.ImageLife

def decoyDirs (k : Nat) : Tmp := (List.range k).map fun i => ⟨100 + i, [0]⟩

def report (tmp0 : Tmp) (r : Run) : String :=
  let (res, tmp) := fromV1Image tmp0 1 r
  let after := match res with | some d => cleanUp tmp d | none => tmp
  let others := decide (after = tmp0) && decide (removeAll tmp 1 = tmp0)
  s!"err={boolStr res.isNone} left={tmp.length} img={boolStr res.isSome} clean={after.length} others={boolStr others}"

def bit (c : Char) : Option Bool := if c = '1' then some true else if c = '0' then some false else none

def parseLayerRun (s : String) : Option LayerRun :=
  match s.toList.mapM bit with
  | some [e, m, h, o, f] => some ⟨e, m, h, o, f⟩
  | _ => none

def handle (line : String) : String :=
  let go (hist : List Char) (fail kind decoys : String) : String :=
    match kind.toList, decoys.toNat? with
    | [k], some dc =>
      let failIdx : Option Nat := if fail = "-" then none else fail.toNat?
      if fail != "-" && failIdx.isNone then "bad-op" else
      if !(hist.all fun c => c = 'L' || c = 'E' || c = 'X') then "bad-op" else
      let fatal := k = 'c' || k = 't' || k = 'h' || k = 'l' || k = 'n' || k = 'k'
      let nl := hist.length
      -- the newest chain layer with an archive: the first whose directory is made
      let newest : Option Nat := ((List.range nl).reverse.find? fun i => hist.getD i 'E' != 'E')
      -- chain layers newest first: index nl-1 … 0
      let layers : List LayerRun := (List.range nl).reverse.map fun i =>
        ⟨hist.getD i 'E' = 'E', !(k = 'p' && newest == some i), true, !(k = 'e' && failIdx == some i), !(fatal && failIdx == some i)⟩
      report (decoyDirs dc) ⟨k != 'v' && k != 'y', k != 'm', true, layers⟩
    | _, _ => "bad-op"
  match line.splitOn " " with
  | ["load", nl, fail, kind, _pos] =>
    match nl.toNat? with
    | some n => go (List.replicate n 'L') fail kind "0"
    | none => "bad-op"
  | ["load2", hist, fail, kind, _pos, decoys, _seed] => go hist.toList fail kind decoys
  | ["load3", hist, fail, kind, _pos, decoys, _seed, _req, _entry] => go hist.toList fail kind decoys
  | ["run", flags, ls, decoys] =>
    match flags.toList.mapM bit, (if ls = "-" then some [] else (ls.splitOn ",").mapM parseLayerRun), decoys.toNat? with
    | some [p, m, r], some layers, some dc => report (decoyDirs dc) ⟨p, m, r, layers⟩
    | _, _, _ => "bad-op"
  | _ => "bad-op"

def main : IO Unit := serve handle
