/-
Line-protocol driver for C20: the Lean model of packageindex.New, detector.Run, validateAdvisories and
the tail of Scan, run on the case lines of harness/cmd/c20gen (grammar documented there), plus the
SPECIFICATION's verdict for the violation search.

reply (model):  st=<ok|failed> err=<none|ctx|nilf|noadv|noid|mismatch> calls=<names> idx=<observation of the index|-> idxsame=1
                find=<findings IN EMITTED ORDER> findset=<the same, canonically sorted> fkeys=<their sort keys hexref/hexextra in emitted order>
                plug=<name:status IN EMITTED ORDER> plugset=<sorted> plugkeys=<hex names in emitted order> pk=<sorted package ids>
                mut=0 (the objects the detectors returned are never written to)
                | panic
       (spec):  consall=<ALL findings of the scan, extractor-emitted ones included, are consistent: the property's reading>
                wf=<no detector but possibly the last cancels> cons=<findings consistent: no nil entry, advisories with IDs, equal IDs = equal advisories>
                exf=<extractors emitted findings> sst=<ok|failed> sfind=<sorted findings> sdet=<detector statuses>
                sidx=<index observation computed by filtering the extracted packages> scalls=<names>
                sfkeys / splugkeys = the documented order: the sorted key sequences of the specified findings / statuses
-/
import Scalibr.Base.Wire
import Scalibr.Base.Sort
import Scalibr.Spec.Detector
import Scalibr.Spec.Phases
open Scalibr Scalibr.Wire Scalibr.Index Scalibr.Detector

def sdrop1 (s : String) : String := String.ofList (s.toList.drop 1)
def sdropLast1 (s : String) : String := String.ofList (s.toList.dropLast)

def unhex? (s : String) : Option String := if s = "-" then some "" else strOfHex s
def hexE (s : String) : String := if s.isEmpty then "-" else hexOfStr s
def sortStrs (xs : List String) : List String := isort (fun a b => decide (a < b)) xs
def sortNats (xs : List Nat) : List Nat := isort (fun a b => decide (a < b)) xs

/-- package spec: `none` = no purl -/
abbrev PSpec := Option (String × String)

def parsePkg (s : String) : Option PSpec :=
  if s = "x" then some none else
  match s.splitOn ":" with
  | [t, n] => match unhex? t, unhex? n with
    | some t, some n => some (some (t, n))
    | _, _ => none
  | _ => none

def parsePkgs (s : String) : Option (List PSpec) := (listOf s ",").mapM parsePkg

/-- a byte string travels hex-encoded ("-" = empty) -/
def bytesOf? (s : String) : Option (List Nat) :=
  if s = "-" then some [] else (bytesOfHex s).map fun bs => bs.map (·.toNat)
def hexB (bs : List Nat) : String := if bs.isEmpty then "-" else hexOfBytes (bs.map UInt8.ofNat)

def parseAdv (s : String) : Option (Option Adv) :=
  if s = "n" then some none
  else if s.startsWith "i" then (sdrop1 s).toNat?.map fun b => some ⟨none, b⟩
  else match s.splitOn "." with
    | [p, r, b] => match p.toNat?, bytesOf? r, b.toNat? with
      | some p, some r, some b => some (some ⟨some (p, r), b⟩)
      | _, _, _ => none
    | _ => none

/-- `z` is a nil entry -/
def parseFinding (s : String) : Option (Option Finding) :=
  if s = "z" then some none else
  match s.splitOn "@" with
  | [p, a, e] => match p.toNat?, parseAdv a, bytesOf? e with
    | some p, some a, some e => some (some ⟨p, a, p, e, ["stale"]⟩)
    | _, _, _ => none
  | _ => none

/-- a detector's result list (nil entries allowed) -/
def parseResults (s : String) : Option (List (Option Finding)) := (listOf s ",").mapM parseFinding

/-- an extractor's findings (no nil entries in the grammar) -/
def parseFindings (s : String) : Option (List Finding) := (parseResults s).bind fun l => l.mapM id

/-- "<pkgs>[!][#findings]" -/
def parseTail (s : String) : Option (List PSpec × Bool × List Finding) :=
  let (s, fs) := match s.splitOn "#" with
    | [a, b] => (a, parseFindings b)
    | [a] => (a, some [])
    | _ => (s, none)
  let (s, err) := if s.endsWith "!" then (sdropLast1 s, true) else (s, false)
  match parsePkgs s, fs with
  | some ps, some fs => some (ps, err, fs)
  | _, _ => none

structure FileSpec where
  exts : List Nat
  pkgs : List PSpec
  err : Bool
  findings : List Finding

def parseFile (s : String) : Option FileSpec :=
  match s.splitOn "=" with
  | [e, rest] =>
    let exts := if e = "n" then some [] else e.toList.mapM fun c => if c.isDigit then some (c.toNat - 48) else none
    match exts, parseTail rest with
    | some exts, some (ps, err, fs) => some ⟨exts, ps, err, fs⟩
    | _, _ => none
  | _ => none

def parseRoot (s : String) : Option (List FileSpec) := (listOf s ";").mapM parseFile

inductive DSpec
  | const (fs : List (Option Finding))
  | query (t n : String) (adv : Option Adv)

def parseDet (s : String) : Option (DSpec × Bool × Bool) :=
  let (s, canc) := if s.endsWith "~" then (sdropLast1 s, true) else (s, false)
  let (s, err) := if s.endsWith "!" then (sdropLast1 s, true) else (s, false)
  if s.startsWith "c" then (parseResults (sdrop1 s)).map fun fs => (.const fs, err, canc)
  else if s.startsWith "q" then
    match (sdrop1 s).splitOn "/" with
    | [tn, a] => match tn.splitOn ":", parseAdv a with
      | [t, n], some a => match unhex? t, unhex? n with
        | some t, some n => some (.query t n a, err, canc)
        | _, _ => none
      | _, _ => none
    | _ => none
  else none

/-- give consecutive ids to the packages of one Extract call -/
def mkPkgs (next : Nat) (ps : List PSpec) : List Pkg × Nat :=
  ((ps.zip (List.range ps.length)).map fun (p, k) => ⟨next + k, p⟩, next + ps.length)

structure FsAcc where
  next : Nat := 0
  pkgs : List Pkg := []
  findings : List Finding := []
  status : List Status := []

/-- what filesystem.Run delivers for one root (files in name order, extractors in configuration order) -/
def runRoot (nfx : Nat) (files : List FileSpec) (acc : FsAcc) : FsAcc :=
  let step := fun (a : FsAcc × List (Nat × Bool × Bool)) (fx : FileSpec × Nat) =>
    let (f, x) := fx
    if f.exts.contains x then
      let (ps, nx) := mkPkgs a.1.next f.pkgs
      ({ a.1 with next := nx, pkgs := a.1.pkgs ++ ps, findings := a.1.findings ++ f.findings },
       a.2 ++ [(x, f.err, !(f.pkgs.isEmpty && f.findings.isEmpty))])
    else a
  let events := files.flatMap fun f => (List.range nfx).map fun x => (f, x)
  let (acc', log) := events.foldl step (acc, [])
  let st := (List.range nfx).map fun x =>
    let mine := log.filter fun e => e.1 = x
    let err := mine.any fun e => e.2.1
    let found := mine.any fun e => e.2.2
    (⟨s!"fx{x}", if !err then .succeeded else if found then .partially else .failed⟩ : Status)
  { acc' with status := acc'.status ++ st }

def advStr : Option Adv → String
  | none => "n"
  | some ⟨none, b⟩ => s!"i{b}"
  | some ⟨some (p, r), b⟩ => s!"{p}.{hexB r}.{b}"

def findingStr (f : Finding) : String :=
  s!"{f.ptr}@{advStr f.adv}@{hexB f.extra}@loc{f.target}@{joinWith "+" (f.detectors.map hexE)}"

/-- the sort key of a finding as printed in `fkeys`: <hexref>/<hexextra> -/
def keyStr : Option (List Nat × List Nat) → String
  | some (r, e) => s!"{hexB r}/{hexB e}"
  | none => "?"

/-- "%03d" -/
def pad3 (n : Nat) : List Nat := [48 + n / 100 % 10, 48 + n / 10 % 10, 48 + n % 10]

def statusStr (s : Status) : String :=
  s.name ++ ":" ++ (match s.st with | .succeeded => "ok" | .partially => "partial" | .failed => "failed")

def idsStr (ps : List Pkg) (sorted : Bool) : String :=
  let ids := ps.map (·.id)
  joinWith "." ((if sorted then sortNats ids else ids).map toString)

def dedup (xs : List String) : List String := xs.foldl (fun acc x => if acc.contains x then acc else acc ++ [x]) []

/-- the observation a fake detector makes of the index, through the three query functions given -/
def observe (types names : List String) (all : List Pkg) (ofType : String → List Pkg) (spec : String → String → List Pkg) : String :=
  let a := ["A=" ++ idsStr all true]
  let t := types.map fun t => s!"T{hexE t}={idsStr (ofType t) true}"
  let s := types.flatMap fun t => names.map fun n => s!"S{hexE t}:{hexE n}={idsStr (spec n t) false}"
  ";".intercalate (a ++ t ++ s)

def errStr : Option RunErr → String
  | none => "none" | some .ctx => "ctx" | some .nilFinding => "nilf" | some .noAdvisory => "noadv" | some .noID => "noid" | some (.mismatch _) => "mismatch"

/-! ### `phases` cases:  phases <before 0|1> <nfx> <roots> <standalone> <detectors>
  roots := root ('|' root)*   root := '-' | entry (';' entry)*   entry := 'n' | call (',' call)*   call := <extractor digit><ret>['~']
  standalone, detectors := '-' | plugin ('|' plugin)*             plugin := <ret>['~']
  ret := 'o' (nil) | 'e' (an error) | 'c' (ctx.Err())             '~' = cancels the scan's context while running
reply: started=<names in start order> st=<ok|failed> pst=<standalone/detector statuses in the result, by name>
       sstarted=<spec> sall=<whole schedule> smustfail=<an iteration was left out> sworkleft=<a plugin call was left out> -/
def retOf? : Char → Option Phases.Ret
  | 'o' => some .ok | 'e' => some .err | 'c' => some .ctxErr | _ => none

def parsePhCall (s : String) : Option (Nat × Phases.Ret × Bool) :=
  match s.toList with
  | [x, r] => if x.isDigit then (retOf? r).map fun r => (x.toNat - 48, r, false) else none
  | [x, r, '~'] => if x.isDigit then (retOf? r).map fun r => (x.toNat - 48, r, true) else none
  | _ => none

def parsePhEntry (s : String) : Option (List (Nat × Phases.Ret × Bool)) :=
  if s = "n" then some [] else (s.splitOn ",").mapM parsePhCall

def parsePhRoot (s : String) : Option (List (List (Nat × Phases.Ret × Bool))) := (listOf s ";").mapM parsePhEntry

def parsePhPlugins (pre : String) (s : String) : Option (List Phases.Plugin) :=
  ((listOf s "|").zip (List.range (listOf s "|").length)).mapM fun (t, i) =>
    match t.toList with
    | [r] => (retOf? r).map fun r => (⟨s!"{pre}{i}", r, false⟩ : Phases.Plugin)
    | [r, '~'] => (retOf? r).map fun r => (⟨s!"{pre}{i}", r, true⟩ : Phases.Plugin)
    | _ => none

/-- which of `validateAdvisories`' complaints apply to a finding list (specification side: by inspection of the list) -/
def errKinds (fs : List (Option Finding)) : List String :=
  let nilf := fs.any (·.isNone)
  let noadv := fs.any fun x => match x with | some f => f.adv.isNone | none => false
  let noid := fs.any fun x => match x with | some f => (match f.adv with | some a => a.id.isNone | none => false) | none => false
  let mism := fs.any fun x => fs.any fun y => match x, y with
    | some f, some g => (match f.adv, g.adv with
      | some a, some b => a.id.isSome && a.id == b.id && a != b
      | _, _ => false)
    | _, _ => false
  (if nilf then ["nilf"] else []) ++ (if noadv then ["noadv"] else []) ++ (if noid then ["noid"] else []) ++ (if mism then ["mismatch"] else [])

/-- a `scan` case. `wheel` (op `gate`, e = 2): two more detectors, which find nothing, both require the real filesystem extractor
python/wheelegg, which `EnableRequiredExtractors` therefore appends once: it runs over every root (finding nothing in these
trees) and contributes a status entry per root; the detector phase is otherwise unchanged. e = 3: they require the STANDALONE
windows/dismpatch, whose non-Windows build has no requirements and fails with "only supported on Windows": one failed status -/
def scanReply (auto : Char) (nfx roots sts dets : String) : String :=
  let wheel := auto = '2'
  match nfx.toNat?, (roots.splitOn "|").mapM parseRoot, (listOf sts "|").mapM parseTail, (listOf dets "|").mapM parseDet with
  | some nfx, some roots, some sts, some dets =>
    -- filesystem.Run: nothing at all without extractors
    let fsAcc : FsAcc := if nfx = 0 && !wheel then {} else roots.foldl (fun a r =>
        let a' := runRoot nfx r a
        if wheel then { a' with status := a'.status ++ [⟨"python/wheelegg", .succeeded⟩] } else a') {}
    -- standalone.Run: an extractor that fails contributes nothing (its packages were created, though)
    let stStep := fun (a : FsAcc × Nat) (s : List PSpec × Bool × List Finding) =>
      let (ps, nx) := mkPkgs a.1.next s.1
      let name := s!"sx{a.2}"
      if s.2.1 then ({ a.1 with next := nx, status := a.1.status ++ [⟨name, .failed⟩] }, a.2 + 1)
      else ({ a.1 with next := nx, pkgs := a.1.pkgs ++ ps, findings := a.1.findings ++ s.2.2,
                       status := a.1.status ++ [⟨name, .succeeded⟩] }, a.2 + 1)
    let (stAcc0, _) := sts.foldl stStep (({ next := fsAcc.next } : FsAcc), 0)
    let stAcc := if auto = '3' then { stAcc0 with status := stAcc0.status ++ [⟨"windows/dismpatch", .failed⟩] } else stAcc0
    let mkDet := fun (d : (DSpec × Bool × Bool) × Nat) =>
      let ((spec, err, canc), k) := d
      let scan : PkgMap → List (Option Finding) × Bool := match spec with
        | .const fs => fun _ => (fs, err)
        | .query t n a => fun px => ((getSpecific px n t).map fun p => some ⟨1000 + 100 * k + p.id, a, 1000 + 100 * k + p.id, pad3 p.id, ["stale"]⟩, err)
      (⟨s!"det{k}", scan, canc⟩ : Detector)
    let ds := (dets.zip (List.range dets.length)).map mkDet ++
        (if auto = '2' || auto = '3' then [(⟨"detgate0", fun _ => ([], false), false⟩ : Detector), ⟨"detgate1", fun _ => ([], false), false⟩] else [])
    let inp : ScanIn := ⟨fsAcc.pkgs, fsAcc.findings, fsAcc.status, stAcc.pkgs, stAcc.findings, stAcc.status, ds⟩
    let out := scanTail inp
    let pkgs := inp.fsPkgs ++ inp.stPkgs
    -- query pool: types and names in order of first appearance in the case, plus an absent one
    let allSpecs := (roots.flatMap fun r => r.flatMap (·.pkgs)) ++ sts.flatMap (·.1)
    let types := dedup (allSpecs.filterMap fun p => p.map (·.1)) ++ ["zz"]
    let names := dedup (allSpecs.filterMap fun p => p.map (·.2)) ++ ["zz"]
    let px := Index.new pkgs
    let idx := if out.calls.isEmpty then "-" else observe types names (getAll px) (getAllOfType px) (getSpecific px)
    let sidx := if ds.isEmpty then "-" else observe types names (specAll pkgs) (specOfType pkgs) (specSpecific pkgs)
    let exF := inp.fsFindings ++ inp.stFindings
    let cons := consistentB (specFindings ds px)
    let nocancel := noCancelB ds
    let consall := consistentB (allFindings inp)
    -- specification: consistent ⇒ every finding of the scan; otherwise nothing inconsistent (see `sexf`)
    let sfind := if consall then exF ++ (specFindings ds px).filterMap id else []
    -- the documented order, computed on KEYS only (a strict total order: the sorted sequence is unique)
    let sfkeys := isort optKeyLt (sfind.map sortKey)
    let splug := isort ltBytes ((inp.fsStatus ++ inp.stStatus ++ specStatus ds px).map fun (s : Status) => nameBytes s.name)
    let model :=
      if out.panics then "panic" else
      s!"st={if out.failed then "failed" else "ok"} err={errStr out.err} calls={joinWith "," (out.calls.map (·.1))} idx={idx} idxsame=1 " ++
      s!"find={joinWith "," (out.findings.map findingStr)} findset={joinWith "," (sortStrs (out.findings.map findingStr))} " ++
      s!"fkeys={joinWith "," (out.findings.map fun f => keyStr (sortKey f))} " ++
      s!"plug={joinWith "," (out.pluginStatus.map statusStr)} plugset={joinWith "," (sortStrs (out.pluginStatus.map statusStr))} " ++
      s!"plugkeys={joinWith "," (out.pluginStatus.map fun s => hexB (nameBytes s.name))} pk={idsStr out.packages true} mut=0"
    model ++ s!" wf={boolStr nocancel} cons={boolStr cons} consall={boolStr consall} exf={boolStr (!exF.isEmpty)} " ++
      s!"sst={if consall then "ok" else "failed"} sfind={joinWith "," (sortStrs (sfind.map findingStr))} " ++
      -- inconsistent findings: nothing may be emitted — except the extractors' own findings when THEY are consistent and it
      -- was the detectors' findings that `detector.Run` discarded (the disjunct of C20_inconsistent_scan_partial)
      s!"sexf={if !cons && consistentB (exF.map some) then joinWith "," (sortStrs (exF.map findingStr)) else "-"} " ++
      -- the kinds of inconsistency present among all findings: the failure reason must be one of them
      s!"serrs={joinWith "," (errKinds (allFindings inp))} " ++
      s!"splugset={joinWith "," (sortStrs ((inp.fsStatus ++ inp.stStatus ++ specStatus ds px).map statusStr))} " ++
      s!"sfkeys={joinWith "," (sfkeys.map keyStr)} splugkeys={joinWith "," (splug.map hexB)} " ++
      s!"sdet={joinWith "," ((specStatus ds px).map statusStr)} sidx={sidx} scalls={joinWith "," (ds.map (·.name))}"
  | _, _, _, _ => "bad-op"

def handle (line : String) : String :=
  match line.splitOn " " with
  | ["scan", nfx, roots, sts, dets] => scanReply '1' nfx roots sts dets
  -- gate <e><v><r><p> + a scan case: the precondition chain at the head of Scan. e: 0 = a detector requires an extractor that is in
  -- neither list.go, 1 = nothing required, 2 = python/wheelegg required (gets enabled), 3 = the standalone windows/dismpatch required (gets enabled; its non-Windows build fails when run); v: 0 = a plugin's requirements are not met;
  -- r: 0 = no scan root, 1 = the case's roots, 2 = at least two roots; p: 1 = PathsToExtract set.
  -- model: `preCheck` / `scanHead`; specification: `runsB` / `specReason` (sgate = '-' iff the phases must run)
  -- cscan <l|d|e> + a single-root scan case: the same scan through ScanContainer, the root being the one layer of an image (d: a decoy
  -- scan root is preset and must be overwritten; e: an image without layers — "no chain layers found", nothing runs)
  | ["cscan", v, nfx, roots, sts, dets] =>
    if (roots.splitOn "|").length != 1 then "bad-op" else
    if v = "e" then "st=failed gerr=nolayers gcalls=- gx=0 gn=0 sgate=nolayers"
    else if v = "l" || v = "d" then
      let rep := scanReply '1' nfx roots sts dets
      if rep = "bad-op" then rep else rep ++ " gerr=- sgate=-"
    else "bad-op"
  -- idxmut + a scan case with >= 2 detectors, none cancelling: the FIRST detector overwrites every slice the index handed to it. Model:
  -- the index is a value (`idx`). SPECIFICATION (sagain): the LAST detector still sees the filter of the extracted packages
  | ["idxmut", nfx, roots, sts, dets] =>
    if (listOf dets "|").length < 2 || (listOf dets "|").any (·.endsWith "~") then "bad-op" else
    let rep := scanReply '1' nfx roots sts dets
    if rep = "bad-op" then rep else
    let field := fun (k : String) => (((rep.splitOn " ").find? (·.startsWith (k ++ "="))).map fun kv => String.ofList (kv.toList.drop (k.length + 1))).getD "?"
    s!"idx={field "idx"} sagain={field "sidx"}"
  -- nilarg: optional arguments left nil at the public entry points. SPECIFICATION: the call works as if the optional part were absent
  | ["nilarg", e] => if ["detrun", "detrun0", "detroot", "scan", "scancaps", "fsrun", "index", "valadv"].contains e then "snres=ok" else "bad-op"
  | ["gate", flags, nfx, roots, sts, dets] =>
    match flags.toList with
    | [e, v, r, p] =>
      if !("0123".toList.contains e && "01".toList.contains v && "012".toList.contains r && "01".toList.contains p) then "bad-op" else
      let nr := (roots.splitOn "|").length
      let nroots := if r = '0' then 0 else if r = '1' then nr else max 2 nr
      let (eOK, vOK, paths) := (e != '0', v != '0', p == '1')
      let reason : Option PreErr → String
        | none => "-" | some .enable => "enable" | some .invalid => "invalid" | some .noRoot => "noroot" | some .severalRoots => "several"
      let sg := if runsB eOK vOK nroots paths then "-" else reason (specReason eOK vOK nroots paths)
      match preCheck eOK vOK nroots paths with
      | some err => s!"st=failed gerr={reason (some err)} gcalls=- gx=0 gn=0 sgate={sg}"
      | none =>
        if r = '2' || p = '1' then "bad-op" else      -- an unblocked case runs over the case's own roots, all files
        let rep := scanReply e nfx roots sts dets
        if rep = "bad-op" then rep else rep ++ s!" gerr=- sgate={sg}"
    | _ => "bad-op"
  -- the generator reports the fields of detector.Advisory it enumerated by reflection (evidence only); for the model an
  -- advisory's content is its body number, equal iff the advisories are deeply equal
  | ["advfields"] => "ok=1"
  | ["phases", before, nfx, roots, sts, dets] =>
    match boolOf? before, nfx.toNat?, (roots.splitOn "|").mapM (parsePhRoot ·), parsePhPlugins "sx" sts, parsePhPlugins "det" dets with
    | some before, some nfx, some roots, some sts, some dets =>
      let roots := (roots.zip (List.range roots.length)).map fun (r, ri) =>
        (r.zip (List.range r.length)).map fun (e, fi) => e.map fun (x, ret, c) => (⟨s!"fx{x}@r{ri}f{fi}", ret, c⟩ : Phases.Plugin)
      let out := Phases.scan before nfx roots sts dets
      let us := Phases.schedule nfx roots sts dets
      let stS := fun (l : List (String × Bool)) => joinWith "," (l.map fun (n, f) => s!"{n}:{if f then "failed" else "ok"}")
      s!"started={joinWith "," out.started} st={if out.failed then "failed" else "ok"} pst={stS out.status} " ++
      s!"sstarted={joinWith "," (Phases.specStarted before us)} sall={joinWith "," (Phases.names us)} " ++
      s!"smustfail={boolStr (!(Phases.specRemaining before us).isEmpty)} sworkleft={boolStr (Phases.specStarted before us != Phases.names us)} " ++
      -- statuses of standalone extractors and detectors when nobody cancels (C10_plugins_nocancel_status)
      s!"spst={if !before && us.all (fun u => !u.cancels) then stS (Phases.specStatusNoCancel sts dets) else "?"}"
    | _, _, _, _, _ => "bad-op"
  | _ => "bad-op"

def main : IO Unit := serve handle
