/-
Line-protocol driver for C16.

(a) patches <grouped 0|1>[m|p] <vulns> <oldreqs> <table> <schedule>
      vulns    = hex,hex,…                       initial vulnerability ids (resolved.Vulns)
      oldreqs  = name:ver[:key],…                requirements of the original manifest (hex); key = npm alias (KnownAs), default the name
      table    = task=E | task=reqs@vulns | …    `|`-separated; task = hex.hex.… (the id list handed to patchFunc);
                                                 E = the strategy failed; reqs = name:ver,… of the patched manifest;
                                                 vulns = ids still/newly present after the patch; absent task = E
      schedule = task/task/…                     the order in which results were delivered (by task value)
    reply: res=<patches|unspecified> done=<0|1> spec=<patches> order=<0|1>      ([m|p] = Maven / PyPI version order for step 5)
      patches  = patch;patch;…   patch = name:from:to:tr:alias,…~fixed,…~introduced,…   (hex, `-` = empty; alias = dep.KnownAs of the update's Type)
      spec     = result of the breadth-first closure (schedule-free specification)
      order    = every target version parses or none does (hypothesis of C16_patchcmp_order); when 0 the comparator is
                 not a strict weak order, `slices.SortFunc`'s result is unspecified and res=unspecified on both sides
(a') pfree <grouped> <vulns> <oldreqs> <table> g<GOMAXPROCS>r<repetition>
    the real ComputePatches ran ungated under the Go scheduler; reply: spec=<patches> order=<0|1>
(a'') pstrat <grouped> <vulns> <ranks> <table> <universe> <tag>     (harness/cmd/c16gen/strat.go: the real relax / override strategies)
    table = task=E | task=<patch>: every attempt of the closure run in isolation; reply: spec=<patches> order=<0|1>
(b') cnc <eco n|m|p> <start s|t> <ops>     (harness/cmd/c16gen/cnc.go: CombinedNativeClient shared by 2..4 goroutines)
          eco also x | M | N: the construction of the ecosystem's client fails     ops: a first group "!…" is set-up before the goroutines start
    reply: same=1 got=<1|0 the callers got a client> built=<constructions>   (Model/OnceCell.lean run on the callers, C16_oncecell;
           the values are judged against the sequential run the generator performs)
(b'') dsc <eco n|m|p> <start s|t> <ops>     (harness/cmd/c16gen/dsc.go: a datasource client shared while its cache is saved / reloaded)
    reply: hitsB=0   (requests a client makes after loading a cache that holds every key it is asked for)
(b) cache <keys> <acts>
      keys = k,k,…   key of caller 0,1,…          acts = L<t> | P<t>:<v|err> | S<k=v;…|-> | G   (comma separated)
    reply: ret=<ok<v>|err|stuck,…> f=<nfetch 0>,<nfetch 1> cls=<r|w|f per L> maps=<k=v;…/…>
-/
import Scalibr.Base.Wire
import Scalibr.Model.Worklist
import Scalibr.Model.Cache
import Scalibr.Model.OnceCell
open Scalibr Scalibr.Wire Scalibr.Worklist

def strOf (h : String) : Option Str :=
  if h = "-" || h = "" then some [] else (bytesOfHex h).map (·.map (·.toNat))

def hexOf (s : Str) : String := if s.isEmpty then "-" else hexOfBytes (s.map UInt8.ofNat)

def strsOf (s : String) (sep : String) : Option (List Str) := (listOf s sep).mapM strOf

def reqsOf (s : String) : Option (List Req) :=
  (listOf s ",").mapM fun p =>
    match p.splitOn ":" with
    | [n, v] => match strOf n, strOf v with
      | some n, some v => some ⟨n, v, n⟩
      | _, _ => none
    | [n, v, k] => match strOf n, strOf v, strOf k with       -- an alias: requirement key k for a package named n
      | some n, some v, some k => some ⟨n, v, k⟩
      | _, _, _ => none
    | _ => none

inductive Entry | fail | ok (reqs : List Req) (vulns : List Str)

def tableOf (s : String) : Option (List (Task × Entry)) :=
  (listOf s "|").mapM fun e =>
    match e.splitOn "=" with
    | [k, v] =>
      match strsOf k "." with
      | none => none
      | some task =>
        if v = "E" then some (task, Entry.fail) else
        match v.splitOn "@" with
        | [rs, vs] => match reqsOf rs, strsOf vs "," with
          | some rs, some vs => some (task, Entry.ok rs vs)
          | _, _ => none
        | _ => none
    | _ => none

def patchFnOf (oldReqs : List Req) (oldVulns : List Str) (tbl : List (Task × Entry)) (t : Task) : Option Patch :=
  match tbl.find? (fun e => e.1 = t) with
  | some (_, Entry.ok rs vs) => some (constructPatch oldReqs oldVulns rs vs)
  | _ => none

def showPatch (p : Patch) : String :=
  joinWith "," (p.updates.map fun u => s!"{hexOf u.name}:{hexOf u.vfrom}:{hexOf u.vto}:{boolStr u.transitive}:{hexOf u.ty}") ++ "~" ++
  joinWith "," (p.fixed.map hexOf) ++ "~" ++ joinWith "," (p.introduced.map hexOf)

def showPatches (ps : List Patch) : String := joinWith ";" (ps.map showPatch)

/-- version ranking per ecosystem of the universe ("" npm, "m" Maven, "p" PyPI), asserted against deps.dev's semver systems by the
    generator at start-up (`checkEcos`): npm `N.0.0` ↦ N; Maven / PyPI: `N.0` and `N.0.0` are two spellings of one version
    (rank 2N+1), `N.0-rc1` resp. `N.0rc1` is the pre-release just below (rank 2N); anything else does not parse -/
def stripSuffix? (s suf : Str) : Option Str :=
  if suf.length ≤ s.length ∧ s.drop (s.length - suf.length) = suf then some (s.take (s.length - suf.length)) else none

def decimal? (ds : Str) : Option Nat :=
  if ds.isEmpty || !ds.all (fun d => 48 ≤ d && d ≤ 57) || (ds.length > 1 && ds.head? = some 48) then none
  else some (ds.foldl (fun acc d => acc * 10 + (d - 48)) 0)

def parseEco (eco : String) (s : Str) : Option Nat :=
  if eco = "" then parseMajor s else
  let pre : Str := if eco = "m" then [46, 48, 45, 114, 99, 49] else [46, 48, 114, 99, 49]     -- ".0-rc1" / ".0rc1"
  match (stripSuffix? s pre).bind decimal? with
  | some n => some (2 * n)
  | none =>
    match (stripSuffix? s [46, 48, 46, 48]).bind decimal? with
    | some n => some (2 * n + 1)
    | none => ((stripSuffix? s [46, 48]).bind decimal?).map (fun n => 2 * n + 1)

def vcDrv (eco : String) : Str → Str → Int := verCmp (parseEco eco) (fun a b => cmpInt a b)

def orderB (eco : String) (c : List Patch) : Bool :=
  let vtos := c.flatMap (fun p => p.updates.map (·.vto))
  vtos.all (fun v => (parseEco eco v).isSome) || vtos.all (fun v => (parseEco eco v).isNone)

/-- the schedule-free part of the reply: the breadth-first closure (specification) and the hypothesis of C16_final_partial
    evaluated on it (by C16_confluent every complete schedule collects a permutation of the same patches) -/
def specPart (eco : String) (fn : Task → Option Patch) (grouped : Bool) (vulns : List Str) : String :=
  let sf := fifo (outCP fn) (spawnCP fn grouped) 4096 (initCP vulns)
  if sf.pending.isEmpty then
    s!"spec={showPatches (sortCompact (vcDrv eco) sf.collected)} order={boolStr (orderB eco sf.collected)}"
  else "spec=nonterminating order=0"

/-- `<0|1>[m|p]`: spawning mode and ecosystem -/
def modeOf (g : String) : Option (Bool × String) :=
  match g.toList with
  | c :: rest => (boolOf? (String.ofList [c])).bind fun b =>
      let e := String.ofList rest
      if e = "" || e = "m" || e = "p" then some (b, e) else none
  | [] => none

def handlePatches (g vs rq tb sc : String) : String :=
  match modeOf g, strsOf vs ",", reqsOf rq, tableOf tb, (listOf sc "/").mapM (fun t => strsOf t ".") with
  | some (grouped, eco), some vulns, some oldReqs, some tbl, some sched =>
    let fn := patchFnOf oldReqs vulns tbl
    let out := outCP fn
    let sp := spawnCP fn grouped
    let s0 := initCP vulns
    let spec := specPart eco fn grouped vulns
    match execTasks out sp sched s0 with
    | none => "res=bad-schedule done=0 " ++ spec
    | some s =>
      let res := if orderB eco s.collected then showPatches (sortCompact (vcDrv eco) s.collected) else "unspecified"
      s!"res={res} done={boolStr s.pending.isEmpty} {spec}"
  | _, _, _, _, _ => "bad-op"

/-- free run (no schedule recorded): only the specification is printed -/
def handleFree (g vs rq tb : String) : String :=
  match modeOf g, strsOf vs ",", reqsOf rq, tableOf tb with
  | some (grouped, eco), some vulns, some oldReqs, some tbl => specPart eco (patchFnOf oldReqs vulns tbl) grouped vulns
  | _, _, _, _ => "bad-op"

/-! ### the real strategies (pstrat): the table gives every attempt's patch directly -/

def updOf (s : String) : Option Upd :=
  match s.splitOn ":" with
  | [n, f, t, tr, al] =>
    match strOf n, strOf f, strOf t, boolOf? tr, strOf al with
    | some n, some f, some t, some tr, some al => some ⟨n, f, t, tr, al⟩
    | _, _, _, _, _ => none
  | _ => none

def patchOf (s : String) : Option Patch :=
  match s.splitOn "~" with
  | [us, fx, it] =>
    match (listOf us ",").mapM updOf, strsOf fx ",", strsOf it "," with
    | some us, some fx, some it => some ⟨us, fx, it⟩
    | _, _, _ => none
  | _ => none

def patchTableOf (s : String) : Option (List (Task × Option Patch)) :=
  (listOf s "|").mapM fun e =>
    match e.splitOn "=" with
    | [k, v] =>
      match strsOf k "." with
      | none => none
      | some task => if v = "E" then some (task, none) else (patchOf v).map (fun p => (task, some p))
    | _ => none

def ranksOf (s : String) : Option (List (Str × Nat)) :=
  (listOf s ",").mapM fun e =>
    match e.splitOn ":" with
    | [v, r] => match strOf v, r.toNat? with
      | some v, some r => some (v, r)
      | _, _ => none
    | _ => none

/-- pstrat: the specification is the closure of the initial attempts over the table of ISOLATED attempts, sorted and compacted with
    the model of Patch.Compare; target versions are ranked by the table the generator computed with the ecosystem's own comparator -/
def handleStrat (g vs rk tb : String) : String :=
  match boolOf? g, strsOf vs ",", ranksOf rk, patchTableOf tb with
  | some grouped, some vulns, some ranks, some tbl =>
    let parse : Str → Option Nat := fun v => (ranks.find? (fun e => e.1 = v)).map (·.2)
    let vc := verCmp parse (fun a b => cmpInt a b)
    let fn : Task → Option Patch := fun t => (tbl.find? (fun e => e.1 = t)).bind (·.2)
    let sf := fifo (outCP fn) (spawnCP fn grouped) 4096 (initCP vulns)
    let vtos := sf.collected.flatMap (fun p => p.updates.map (·.vto))
    let order := vtos.all (fun v => (parse v).isSome) || vtos.all (fun v => (parse v).isNone)
    if sf.pending.isEmpty then s!"spec={showPatches (sortCompact vc sf.collected)} order={boolStr order}" else "spec=nonterminating order=0"
  | _, _, _, _ => "bad-op"

/-! ### cache -/
open Scalibr.Cache in
def mapOf (s : String) : Option (Cache.K → Option Cache.V) :=
  let es := listOf s ";"
  match es.mapM (fun e => match e.splitOn "=" with
      | [k, v] => match k.toNat?, v.toNat? with
        | some k, some v => some (k, v)
        | _, _ => none
      | _ => none) with
  | some kvs => some (fun k => (kvs.find? (fun e => e.1 = k)).map (·.2))
  | none => none

def actOf (a : String) : Option Cache.Act :=
  let cs := a.toList
  match cs with
  | 'L' :: r => (String.ofList r).toNat?.map Cache.Act.lookup
  | 'P' :: r =>
    match (String.ofList r).splitOn ":" with
    | [t, v] =>
      match t.toNat? with
      | none => none
      | some t => if v = "err" then some (.publish t .err) else v.toNat?.map (fun v => .publish t (.ok v))
    | _ => none
  | 'S' :: r => (mapOf (String.ofList r)).map Cache.Act.setMap
  | ['G'] => some .getMap
  | _ => none

def showMap (m : Cache.K → Option Cache.V) : String :=
  joinWith ";" ((List.range 4).filterMap fun k => (m k).map fun v => s!"{k}={v}")

def handleCache (ks as : String) : String :=
  match (listOf ks ",").mapM (·.toNat?), (listOf as ",").mapM actOf with
  | some keys, some acts =>
    let n := keys.length
    let wakeAll (s : Cache.St) : Cache.St := (List.range n).foldl (fun s t => Cache.step s (.wake t)) s
    let s0 := Cache.init (fun t => keys[t]?)
    let (s, cls) := acts.foldl (fun (acc : Cache.St × List String) a =>
        let s := Cache.step acc.1 a
        match a with
        | .lookup t =>
          let c := match s.pcs t with
            | .done _ _ => "r" | .waiting _ _ => "w" | .fetching _ _ => "f" | _ => "?"
          (s, acc.2 ++ [c])
        | .publish _ _ => (wakeAll s, acc.2)
        | _ => (s, acc.2)) (s0, [])
    -- a publish for a caller that is not inside its fetch function is not an action of this history
    let valid := (acts.foldl (fun (acc : Cache.St × Bool) a =>
        let okA := match a with
          | .publish t _ => (match acc.1.pcs t with | .fetching _ _ => true | _ => false)
          | _ => true
        let s' := Cache.step acc.1 a
        let s' := match a with | .publish _ _ => wakeAll s' | _ => s'
        (s', acc.2 && okA)) (s0, true)).2
    if !valid then "ret=bad-schedule" else
    let s := wakeAll s
    let ret := (List.range n).map fun t => match s.pcs t with
      | .done _ (.ok v) => s!"ok{v}" | .done _ .err => "err" | _ => "stuck"
    s!"ret={joinWith "," ret} f={s.nfetch 0},{s.nfetch 1} cls={joinWith "" cls} maps={joinWith "/" (s.maps.reverse.map showMap)}"
  | _, _ => "bad-op"

def handle (line : String) : String :=
  match line.splitOn " " with
  | ["patches", g, vs, rq, tb, sc] => handlePatches g vs rq tb sc
  | ["pfree", g, vs, rq, tb, _] => handleFree g vs rq tb
  | ["pstrat", g, vs, rk, tb, _, _] => handleStrat g vs rk tb
  | ["cache", ks, as] => handleCache ks as
  | ["cnc", eco, st, ops] =>
    -- CombinedNativeClient (Model/OnceCell.lean, C16_oncecell): one goroutine = one caller of the ecosystem's cell; the model is run
    -- on the callers in order (every order gives the same answer: C16_oncecell) with the ecosystems whose construction fails
    if (eco = "n" || eco = "m" || eco = "p" || eco = "x" || eco = "M" || eco = "N") && (st = "s" || st = "t") then
      let n := (ops.splitOn ";").filter (fun g => !g.startsWith "!") |>.length
      let e : Nat := if eco = "n" || eco = "N" then 0 else if eco = "m" || eco = "M" then 1 else if eco = "p" then 2 else 3
      let fails : Nat → Bool := fun _ => eco = "x" || eco = "M" || eco = "N"
      let s := Scalibr.OnceCell.run fails ((List.range n).map fun t => (t, e))
      let gots := (List.range n).map s.got
      let same := gots.all (· == gots.head?.join)
      s!"same={if same then 1 else 0} got={if (gots.head?.join).isSome then 1 else 0} built={s.built e}"
    else "bad-op"
  | ["dsc", eco, st, _] =>
    -- the datasource clients saved and reloaded while shared (harness/cmd/c16gen/dsc.go): the values are judged against the sequential run
    -- the generator performs; the model's part is the request cache after SetMap m: a Get of a key of m is a read, no fetch (Cache.step .lookup)
    if (eco = "n" || eco = "m" || eco = "p") && (st = "s" || st = "t") then "hitsB=0" else "bad-op"
  | _ => "bad-op"

def main : IO Unit := serve handle
