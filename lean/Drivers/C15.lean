/-
Line-protocol driver for C15.
request : sbom <stream> <format> <n> { <pkg> }            (19 tokens per package)
  pkg   = <name> <version> <locations> <cpes> <hasPurl 0|1> <type> <ns> <pname> <pversion> <quals> <subpath>
          <raw> <norm> <normName> <normVersion> <normType> <normNs> <normQuals> <normSubpath>      quals = hexkey:hexvalue,…
  strings are hex, the empty string is `_`; lists are comma-joined, the empty list is `-`;
  raw  = hex of PackageURL.String();  norm = hex of FromString(raw).String(), or `!` when FromString fails
  (raw/norm/normName/normVersion are the per-case table of the purl library, a parameter of the model;
   for hasPurl=0 the ten purl tokens are `-`).
  format ∈ spdx23-json | spdx23-yaml | spdx23-tag-value | cdx-json | cdx-xml, optionally followed by `@<output path state>[,cli]` (ignored) and `~f1+f2…` (formats the same
  ScanResult value was exported to before; ignored here: `toSpdx` / `toCdx` are functions of the inventory and leave it as it is)
reply   : purls=<sorted comma-joined hex of the imported purls' String(), or -> extra=<returned packages without purl>
          st=<ok|read-err|unsupported> spec=<the same list computed by the Spec definition> wf=<0|1> lost=<n>
          specall=<the purls of ALL packages that have one (the property's plain reading; differs from spec= for SPDX when a purl has no name / version)>
          laws=<0|1>: `Spec.lawsHold` (the per-row part of `NormLaws`: version, name, TYPE, namespace, qualifier values, sub-path) on every row of the table
The model runs with the IDENTITY codec for every format (the assumption `Codec.roundtrips`).
-/
import Scalibr.Base.Wire
import Scalibr.Spec.Sbom
open Scalibr Scalibr.Sbom Scalibr.Wire

/-- the driver's purl: its string form and the two fields the converters read -/
structure DPurl where
  raw : String
  name : String
  version : String
  typ : String := ""
  ns : String := ""
  quals : List (String × String) := []
  subpath : String := ""

def str? (t : String) : Option String := if t = "_" then some "" else if t = "-" then none else strOfHex t

def list? (t : String) : Option (List String) := (listOf t ",").mapM str?

def quals? (t : String) : Option (List (String × String)) :=
  (listOf t ",").mapM fun e => match e.splitOn ":" with
    | [k, v] => match str? k, str? v with
      | some k, some v => some (k, v)
      | _, _ => none
    | _ => none

structure Parsed where
  pkg : Pkg DPurl
  /-- table row of `purl.FromString`: raw ↦ normal form -/
  row : Option (String × Option DPurl)
  /-- the normal form, when there is one -/
  normal : Option DPurl := none

def parsePkgs : Nat → List String → Option (List Parsed × List String)
  | 0, ts => some ([], ts)
  | n + 1, nm :: ver :: locs :: cpes :: hp :: typ :: ns :: pn :: pv :: q :: sp :: raw :: norm :: nn :: nv :: ntyp :: nns :: nq :: nsp :: ts =>
    match str? nm, str? ver, list? locs, list? cpes, parsePkgs n ts with
    | some nm, some ver, some locs, some cpes, some (rest, ts') =>
      if hp = "0" then
        some (⟨{ name := nm, version := ver, locations := locs, extractor := "verif", purl := none, cpes := cpes }, none, none⟩ :: rest, ts')
      else if hp = "1" then
        match str? pn, str? pv, str? raw, str? typ, str? ns, quals? q, str? sp with
        | some pn, some pv, some raw, some typ, some ns, some q, some sp =>
          let normed : Option (Option DPurl) :=
            if norm = "!" then some none
            else match str? norm, str? nn, str? nv, str? ntyp, str? nns, quals? nq, str? nsp with
              | some r, some a, some b, some c, some d, some e, some f => some (some ⟨r, a, b, c, d, e, f⟩)
              | _, _, _, _, _, _, _ => none
          match normed with
          | some nd =>
            some (⟨{ name := nm, version := ver, locations := locs, extractor := "verif",
                     purl := some ⟨raw, pn, pv, typ, ns, q, sp⟩, cpes := cpes }, some (raw, nd), nd⟩ :: rest, ts')
          | none => none
        | _, _, _, _, _, _, _ => none
      else none
    | _, _, _, _, _ => none
  | _, _ => none

def mkOps (table : List (String × Option DPurl)) : PurlOps DPurl where
  str := fun u => u.raw
  parse := fun s => (table.find? fun r => r.1 = s).bind (·.2)
  name := fun u => u.name
  version := fun u => u.version

def dFld : PurlFields DPurl := { typ := (·.typ), ns := (·.ns), quals := (·.quals), subpath := (·.subpath) }

/-- `lawsHold` on every (purl, normal form) row whose type survives normalisation unchanged up to case (the malformed stream's empty /
slashed types shift the components on re-parse: only the name / version laws apply there, as in c15gen's checkNormLaws) -/
def asciiS (s : String) : Bool := s.toList.all fun c => c.toNat < 128

/-- `canonName` / `lowerL` fold ASCII case only (core Lean has no Unicode case tables) while packageurl-go lower-cases with
strings.ToLower: rows whose name, namespace or type hold a non-ASCII character are judged by the fold-free laws only (`lawsExact`:
version, every qualifier value, sub-path); all other rows by the full `lawsHold`. -/
def lawsOk (ops : PurlOps DPurl) (ps : List Parsed) : Bool :=
  ps.all fun p => match p.pkg.purl, p.normal with
    | some u, some n =>
      if n.typ.toList ≠ lowerL u.typ then ops.version n = ops.version u && (!(asciiS u.name) || canonName (ops.name n) = canonName (ops.name u))
      else if asciiS u.name && asciiS u.ns && asciiS u.typ then lawsHold ops dFld u n
      else lawsExact ops dFld u n
    | _, _ => true

def env : Env := { uuid := fun k => "00000000-0000-4000-8000-" ++ toString k, now := "1970-01-01T00:00:00Z" }
def idc (Doc : Type) : Codec Doc Doc := { encode := id, decode := some }

def sortHex (l : List String) : List String := l.mergeSort fun a b => !decide (b < a)
def showPurls (l : List DPurl) : String := joinWith "," (sortHex (l.map fun u => hexOfStr u.raw))

def spdxFormat? (f : String) : Option SpdxFormat :=
  if f = "spdx23-json" then some .json else if f = "spdx23-yaml" then some .yaml
  else if f = "spdx23-tag-value" then some .tagValue else none
def cdxFormat? (f : String) : Option CdxFormat :=
  if f = "cdx-json" then some .json else if f = "cdx-xml" then some .xml else none

def render (r : Except Err (List (ImpPkg DPurl))) (spec : List DPurl) (lost : Nat) (laws : Bool) (specAll : List DPurl) : String :=
  let tail := s!" spec={showPurls spec} wf={boolStr (lost == 0)} lost={lost} laws={boolStr laws} specall={showPurls specAll}"
  match r with
  | .ok pkgs => s!"purls={showPurls (purlsOf pkgs)} extra={(pkgs.filter (·.purl.isNone)).length} st=ok" ++ tail
  | .error .parse => "purls=- extra=0 st=read-err" ++ tail
  | .error .unsupported => "purls=- extra=0 st=unsupported" ++ tail

def handle (line : String) : String :=
  match line.splitOn " " with
  | "sbom" :: _stream :: ftok :: n :: rest =>
    -- `<format>~<earlier exports of the same scan result>`: the model's exports are pure functions of the inventory, so what was
    -- exported before cannot matter; the specification is the same for every position in the sequence
    let head := (ftok.splitOn "~").headD ftok
    let fmt := (head.splitOn "@").headD ftok   -- `@<state of the output path>[,cli,…]` is about the writer, not the document
    let opts := ((head.splitOn "@").getD 1 "").splitOn ","
    -- nothing can come back when nothing readable was written: the output path cannot be written (isdir / nodir), the written JSON / XML file
    -- was cut in half (trunc; `C15_codec_failure`: a reader that rejects the bytes yields an error, no packages), or the flags are invalid (cfg4)
    if opts.contains "isdir" || opts.contains "nodir" || opts.contains "trunc" || opts.contains "cfg4" then
      "purls=- extra=0 st=no-document spec=- wf=1 lost=0 laws=1 specall=-"
    else
    match n.toNat? with
    | none => "bad-op"
    | some n =>
      match parsePkgs n rest with
      | some (ps, []) =>
        let inv := ps.map (·.pkg)
        let ops := mkOps (ps.filterMap (·.row))
        match spdxFormat? fmt, cdxFormat? fmt with
        | some f, _ =>
          render (roundTripSpdx ops env {} (fun _ => idc SpdxDoc) f inv) (specSpdx ops inv) (lostOf ops (exportedSpdx ops) inv) (lawsOk ops ps) (specPurls ops hasPurl inv)
        | none, some f =>
          render (roundTripCdx ops env {} (fun _ => idc Bom) f inv) (specCdx ops inv) (lostOf ops exportedCdx inv) (lawsOk ops ps) (specCdx ops inv)
        | none, none =>
          -- not one of the five formats (stream cliflags: names the command line must refuse): nothing is written, nothing comes back
          "purls=- extra=0 st=unsupported spec=- wf=1 lost=0 laws=1 specall=-"
      | _ => "bad-op"
  | _ => "bad-op"

def main : IO Unit := serve handle
