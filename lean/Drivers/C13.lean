/-
Line-protocol driver for C13.  Strings are hex (`_` = empty string); `-` = empty list.
  npm <dev> <opt> <prod> <ups> <before>   section = k:v,k:v   ups = name:knownAs|~:from:to,…   before = name:ka:ver,… (real Read)
      → r=ok|err dev= opt= prod= reqs=<sorted name:ka:ver> rb=<model's reading> wf=<0|1> spec=<substitute(before, ups)>
  pp <s1> <s2>                        → r=ok:<sorted k=v>|no|panic cons=<0|1> sound=<0|1|->
  ws <id|up|pr> <values k=v,…> <tokens S:name:attrs|E:name|T:text|C:text|O:text ,…>
      → out=<tokens> simple=<0|1> same=<0|1>        (writeString on one element; id = values are the element's own)
  pch <hex json layout> <ups> <before>     (local parent chain; spec only) → r=ok spec=<substitute(before, ups)>
  pom <projVersion> <deps> <props> <ups> <before>
      deps = origin:g:a:typ:cls:ver:ws,…  props = origin:name:value,…  ups = name:typ:cls:origin:from:to,…   before = origin:g:a:typ:cls:ver,… (real Read, effective versions)
      → r=ok deps=<sorted> props=<sorted> reqs=<sorted origin:g:a:typ:cls:ver> spec=<sorted> cls=<key|-> scope=<0|1>
-/
import Scalibr.Base.Wire
import Scalibr.Spec.NpmWriter
import Scalibr.Spec.PomWrite
import Scalibr.Model.PomTokens
open Scalibr Scalibr.Wire

def unhexS (s : String) : Option (List Char) :=
  if s = "_" then some [] else (strOfHex s).map (·.toList)

def hexS (s : List Char) : String := if s.isEmpty then "_" else hexOfStr (String.ofList s)

def sortStrs (l : List String) : List String := (l.toArray.qsort (· < ·)).toList

def fieldsOf (s : String) : Option (List (List Char)) := (s.splitOn ":").mapM unhexS

def entries (s : String) : Option (List (List (List Char))) := (listOf s ",").mapM fieldsOf

namespace NpmDrv
open Scalibr.Npm

def parseSec (s : String) : Option Sec := do
  let es ← entries s
  es.mapM fun e => match e with | [k, v] => some (k, v) | _ => none

def parseUps (s : String) : Option (List Up) :=
  (listOf s ",").mapM fun e =>
    match e.splitOn ":" with
    | [n, ka, f, t] => do
      let n ← unhexS n; let f ← unhexS f; let t ← unhexS t
      let ka ← if ka = "~" then some none else (unhexS ka).map some
      some ⟨n, ka, f, t⟩
    | _ => none

def showSec (s : Sec) : String := joinWith "," (s.map fun (k, v) => hexS k ++ ":" ++ hexS v)

def showReqs (rs : List Req) : String :=
  joinWith "," (sortStrs (rs.map fun r => hexS r.name ++ ":" ++ (match r.knownAs with | some k => hexS k | none => "~") ++ ":" ++ hexS r.ver))

/-- the requirement list the case carries: what the REAL `Read` reported for the file before the write -/
def parseReqs (s : String) : Option (List Req) :=
  (listOf s ",").mapM fun e =>
    match e.splitOn ":" with
    | [n, ka, v] => do
      let n ← unhexS n; let v ← unhexS v
      let ka ← if ka = "~" then some none else (unhexS ka).map some
      some ⟨n, ka, v⟩
    | _ => none

def handle (a b c u before : String) : String :=
  match parseSec a, parseSec b, parseSec c, parseUps u, parseReqs before with
  | some dev, some opt, some prod, some us, some rb =>
    let d : Doc := ⟨dev, opt, prod⟩
    let wf := decide (WFdoc d) && us.all WFup
    -- the specification's verdict, from Spec definitions on the CASE: the requirements the real Read reported,
    -- with the updates substituted.  `rb=` is the model's own reading of the sections (compared with the case's).
    let spec := showReqs (substitute rb us)
    let rbm := showReqs (requirements d)
    -- Spec.readComplete on what the REAL Read reported: no entry of the file is missing from the requirements
    let rc := boolStr (readComplete d rb)
    match write d us with
    | .err => s!"r=err rb={rbm} wf={boolStr wf} spec={spec} rc={rc}"
    | .ok d' =>
      s!"r=ok dev={showSec d'.dev} opt={showSec d'.opt} prod={showSec d'.prod} reqs={showReqs (requirements d')} rb={rbm} wf={boolStr wf} spec={spec} rc={rc}"
  | _, _, _, _, _ => "bad-op"
end NpmDrv

namespace PomDrv
open Scalibr.Pom

def showKV (ps : List (Str × Str)) : String :=
  joinWith "," (sortStrs (ps.map fun (k, v) => hexS k ++ "=" ++ hexS v))

def handlePP (a b : String) : String :=
  match unhexS a, unhexS b with
  | some s1, some s2 =>
    match gen s1 s2 with
    | .panic => "r=panic cons=- sound=-"
    | .no => "r=no cons=- sound=-"
    | .fuel => "r=fuel cons=- sound=-"
    | .ok ps =>
      let cons := decide (Consistent ps)
      let sound := interpolate (lookupLast ps) s1 == s2
      s!"r=ok:{showKV (asMap ps)} cons={boolStr cons} sound={boolStr sound}"
  | _, _ => "bad-op"

def parseDeps (s : String) : Option (List Dep) := do
  let es ← entries s
  es.mapM fun e => match e with
    | [o, g, a, t, c, v, w] => some ⟨o, g, a, t, c, v, w = ['1']⟩
    | _ => none

def parseProps (s : String) : Option (List Prp) := do
  let es ← entries s
  es.mapM fun e => match e with | [o, n, v] => some ⟨o, n, v⟩ | _ => none

def parseUpds (s : String) : Option (List Upd) := do
  let es ← entries s
  es.mapM fun e => match e with
    | [n, t, c, o, f, to] => some ⟨n, t, c, o, f, to⟩
    | _ => none

/-- the requirement list the case carries: what the REAL `Read` reported before the write (effective versions) -/
def parseReqs (s : String) : Option (List Req) := do
  let es ← entries s
  es.mapM fun e => match e with
    | [o, g, a, t, c, v] => some ⟨o, (g, a, t, c), v⟩
    | _ => none

def showDeps (ds : List Dep) : String :=
  joinWith "," (sortStrs (ds.map fun d => ":".intercalate [hexS d.origin, hexS d.g, hexS d.a, hexS (normTyp d.typ), hexS d.cls, hexS d.ver]))

def showProps (ps : List Prp) : String :=
  joinWith "," (sortStrs (ps.map fun p => ":".intercalate [hexS p.origin, hexS p.name, hexS p.value]))

def showReqs (rs : List Req) : String :=
  joinWith "," (sortStrs (rs.map fun r => ":".intercalate [hexS r.origin, hexS r.key.1, hexS r.key.2.1, hexS r.key.2.2.1, hexS r.key.2.2.2, hexS r.ver]))

def handlePom (pv ds ps us before : String) : String :=
  match unhexS pv, parseDeps ds, parseProps ps, parseUpds us, parseReqs before with
  | some pv, some ds, some ps, some us, some rb =>
    let pom : Pom := ⟨ds, ps, pv, "root.g".toList⟩   -- c13gen renders every project as root.g:root-a
    -- in scope of the property: every update is addressed to a requirement present in the file (key, origin AND old version,
    -- as the real Read reported them), one update per key
    let scope := us.all (fun u => !(hits pom u).isEmpty || keyProperty pom [u]) && decide ((us.map (·.key)).Nodup) && us.all (fun u => rb.any (addresses u))
    let cls := match feature pom us with | some k => k | none => "-"
    -- spec: Spec.substitute on the requirements the case carries (the real Read's), wf: Spec.WFcase
    let spec := showReqs (substitute rb us)
    -- updates for keys the pom does not hold: the requirement each must add (dependencyManagement of the project)
    let added : List Req := (us.filter fun u => (hits pom u).isEmpty && !keyProperty pom [u] && u.ga.isSome).map fun u => ⟨sManagement, u.key, u.to⟩
    let tail := s!"rb={showReqs (requirements pom)} spec={spec} wf={boolStr (WFcase pom us)} cls={cls} scope={boolStr scope} added={showReqs added}"
    match write pom us with
    | none => s!"r=err {tail}"
    | some pom' => s!"r=ok deps={showDeps pom'.deps} props={showProps pom'.props} reqs={showReqs (requirements pom')} {tail}"
  | _, _, _, _, _ => "bad-op"
/-- local parent chains: no model of the chain, the verdict is the specification's — `Spec.substitute` on the requirement
list the case carries (the real `Read` of the child, parents merged) -/
def handlePch (us before : String) : String :=
  match parseUpds us, parseReqs before with
  | some us, some rb => s!"r=ok spec={showReqs (substitute rb us)}"
  | _, _ => "bad-op"
end PomDrv

namespace TokDrv
open Scalibr.PomTok

/-- token = S:name:attrs | E:name | T:text | C:text | O:text, fields hex -/
def parseTok (s : String) : Option Tok :=
  match s.splitOn ":" with
  | ["S", n, a] => do some (.start (← unhexS n) (← unhexS a))
  | ["E", n] => do some (.stop (← unhexS n))
  | ["T", t] => do some (.text (← unhexS t))
  | ["C", t] => do some (.comment (← unhexS t))
  | ["O", t] => do some (.other (← unhexS t))
  | _ => none

def showTok : Tok → String
  | .start n a => s!"S:{hexS n}:{hexS a}"
  | .stop n => s!"E:{hexS n}"
  | .text t => s!"T:{hexS t}"
  | .comment t => s!"C:{hexS t}"
  | .other t => s!"O:{hexS t}"

def parseVals (s : String) : Option (List (Str × Str)) :=
  (listOf s ",").mapM fun e => match e.splitOn "=" with
    | [k, v] => do some ((← unhexS k), (← unhexS v))
    | _ => none

/-- tokens of the element opened just before `ts`, up to its matching end -/
def inside : Nat → List Tok → List Tok
  | _, [] => []
  | d, .start n a :: ts => .start n a :: inside (d + 1) ts
  | 0, .stop _ :: _ => []
  | d + 1, .stop n :: ts => .stop n :: inside d ts
  | d, t :: ts => t :: inside d ts

/-- class predicate of C13/pom-version-comment: an addressed element holds a comment -/
def commentInAddressed (values : Str → Option Str) : List Tok → Bool
  | [] => false
  | .start n _ :: ts =>
    ((values n).isSome && (inside 0 ts).any (fun t => match t with | .comment _ => true | _ => false)) || commentInAddressed values ts
  | _ :: ts => commentInAddressed values ts

/-- ws <values k=v,…> <tokens ,>  → out=<tokens> simple=<0|1> same=<0|1> cls=<key|-> -/
def handleWs (vals toks : String) : String :=
  match parseVals vals, (listOf toks ",").mapM parseTok with
  | some vs, some ts =>
    let values : Str → Option Str := fun n => (vs.find? (·.1 = n)).map (·.2)
    let out := write values ts
    let cls := if commentInAddressed values ts then "C13/pom-version-comment" else "-"
    s!"out={joinWith "," (out.map showTok)} simple={boolStr (simple values ts)} same={boolStr (out == ts)} cls={cls}"
  | _, _ => "bad-op"
end TokDrv

/-- npm workspaces: no model of the workspace layout, the verdict is the specification's — `Spec.substitute` on the requirement
list the case carries (the real `Read` of the root) -/
def handleNws (us before : String) : String :=
  match NpmDrv.parseUps us, NpmDrv.parseReqs before with
  | some us, some rb => s!"r=ok spec={NpmDrv.showReqs (Scalibr.Npm.substitute rb us)}"
  | _, _ => "bad-op"

def handle (line : String) : String :=
  match line.splitOn " " with
  | ["nws", _layout, us, before] => handleNws us before
  | ["npm", a, b, c, u, before] => NpmDrv.handle a b c u before
  | ["pp", a, b] => PomDrv.handlePP a b
  | ["pch", _layout, us, before] => PomDrv.handlePch us before
  | ["prm", _layout, us, before] => PomDrv.handlePch us before       -- remote parent / BOM import: specification verdict only, as pch
  | ["ws", _kind, vals, toks, _src] => TokDrv.handleWs vals toks
  | ["pom", pv, ds, ps, us, rb] => PomDrv.handlePom pv ds ps us rb
  | ["pomc", pv, ds, ps, us, rb] => PomDrv.handlePom pv ds ps us rb   -- comment inside the first <version> (layout only)
  | ["pomd", pv, ds, ps, us, rb] => PomDrv.handlePom pv ds ps us rb   -- CDATA inside the first <version> (layout only)
  | ["poma", pv, ds, ps, us, rb] => PomDrv.handlePom pv ds ps us rb   -- attributes on <dependency> / <properties> (layout only)
  | ["pome", pv, ds, ps, us, rb] => PomDrv.handlePom pv ds ps us rb   -- <dependencyManagement/> (layout only)
  | ["pomf", pv, ds, ps, us, rb] => PomDrv.handlePom pv ds ps us rb   -- <dependencyManagement> holding <dependencies/> (layout only)
  | _ => "bad-op"

def main : IO Unit := serve handle
