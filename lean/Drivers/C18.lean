/-
Line-protocol driver for C18.
request : isaff <pkgEco> <pkgName> <pkgVersion> <nAffected> { <eco> <name> <versions|-> <nRanges> { <E|S|O> <events|-> } }
          versions = v.v.v   events = k:v,k:v with k ∈ {i,f,l}
          a version token v is rank + 100·s: rank (v % 100) in the ecosystem's order, s = 1 for the alternative spelling of
          that rank (compares equal, different string); explicit `versions` lists are matched by spelling (the token itself)
reply   : aff=<0|1> wf=<0|1> spec=<0|1>
`known` ecosystems are 0 (npm), 1 (Maven), 2 (PyPI).
-/
import Scalibr.Base.Wire
import Scalibr.Spec.Vulns
open Scalibr Scalibr.Vulns Scalibr.Wire

def parseEv (s : String) : Option Ev :=
  match s.splitOn ":" with
  | [k, v] =>
    match (if k = "i" then some Kind.intro else if k = "f" then some Kind.fixed else if k = "l" then some Kind.last else none), v.toNat? with
    | some k, some v => some ⟨k, v % 100⟩    -- version token = rank + 100·(alternative spelling); events are compared: rank only
    | _, _ => none
  | _ => none

def parseRanges : Nat → List String → Option (List Range × List String)
  | 0, ts => some ([], ts)
  | n+1, t :: evs :: ts =>
    let typ := if t = "E" then some RType.ecosystem else if t = "S" then some RType.semver else if t = "O" then some RType.other else none
    match typ, (listOf evs ",").mapM parseEv, parseRanges n ts with
    | some typ, some es, some (rs, rest) => some (⟨typ, es⟩ :: rs, rest)
    | _, _, _ => none
  | _, _ => none

def parseAffected : Nat → List String → Option (List Affected × List String)
  | 0, ts => some ([], ts)
  | n+1, eco :: name :: vers :: nr :: ts =>
    match eco.toNat?, name.toNat?, (listOf vers ".").mapM (·.toNat?), nr.toNat? with
    | some eco, some name, some vs, some nr =>
      match parseRanges nr ts with
      | some (rs, rest) =>
        match parseAffected n rest with
        | some (as, rest') => some (⟨eco, name, vs, rs⟩ :: as, rest')
        | none => none
      | none => none
    | _, _, _, _ => none
  | _, _ => none

def known (e : Nat) : Bool := e < 3

def handle (line : String) : String :=
  match line.splitOn " " with
  | "isaff" :: pe :: pn :: pv :: na :: rest =>
    match pe.toNat?, pn.toNat?, pv.toNat?, na.toNat? with
    | some pe, some pn, some pv, some na =>
      match parseAffected na rest with
      | some (vuln, []) =>
        let p : Pkg := ⟨pe, pn, pv % 100, pv⟩
        let wf := vuln.all fun a => a.ranges.all fun r => WF r.events
        s!"aff={boolStr (isAffected known vuln p)} wf={boolStr wf} spec={boolStr (specAffectedB known vuln p)}"
      | _ => "bad-op"
    | _, _, _, _ => "bad-op"
  | _ => "bad-op"

def main : IO Unit := serve handle
