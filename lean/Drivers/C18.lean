/-
Line-protocol driver for C18.
request : isaff <pkgEco> <pkgName> <pkgVersion> <nAffected> { <eco> <name> <versions|-> <nRanges> { <E|S|O> <events|-> } }
          versions = v.v.v   events = k:v,k:v with k ∈ {i,f,l}
          a version token v is rank + 100·s: rank (v % 100) in the ecosystem's order, s = 1 for the alternative spelling of
          that rank (compares equal, different string); explicit `versions` lists are matched by spelling (the token itself)
reply   : aff=<0|1> wf=<0|1> spec=<0|1> tie=<0|1> old=<0|1>
          aff  = the model of the (repaired) code; wf = every range is well formed (`WF`: ordered by (version, kind) the events
          alternate — events may share a version); spec = the order-free specification `osvDecl` at record level (`specAffectedB`);
          tie  = some range has two events on one rank; old = the decision procedure before the tie repair (informational, not compared)
`known` ecosystems are 0 (npm), 1 (Maven), 2 (PyPI).

request : match <minSeverity·100> <maxDepth> <devDeps> <devOnly> <ignoreIds|-> <id> <aliases|-> <topSeverities|-> <nSub> { <eco> <name> <version> <rootDistance> }
                <nAffected> { <eco> <name> <versions|-> <severities|-> <nRanges> { <E|S|O> <events|-> } }
          ids = n.n.n; severities = indices into the harness's severity table (`sevScore` below mirrors it)
reply   : match=<0|1> prof=<bits> wf=<0|1> spec=<match>:<prof>     prof = MatchVuln at the thresholds `profile` with everything else unchanged
request : vkpkg <system 0..3> <hex name> <hex version>
reply   : eco=<hex> name=<hex> ver=<hex> purl=<type>|<hex ns>|<hex name>|<hex version> or purl=nil, stubs=-|nil|0 (mock extractor Name, Requirements, Version)
-/
import Scalibr.Base.Wire
import Scalibr.Spec.Vulns
import Scalibr.Spec.MatchVuln
open Scalibr Scalibr.Vulns Scalibr.Wire

def parseEv (s : String) : Option Ev :=
  match s.splitOn ":" with
  | [k, v] =>
    match (if k = "i" then some Kind.intro else if k = "f" then some Kind.fixed else if k = "l" then some Kind.last else none), v.toNat? with
    | some k, some v => some ⟨k, v % 100⟩    -- version token = rank + 100·(alternative spelling); events are compared: rank only
    | _, _ => none
  | _ => none

def parseRanges : Nat → List String → Option (List Range × List String)
  | 0, ts => some ([], ts)
  | n+1, t :: evs :: ts =>
    let typ := if t = "E" then some RType.ecosystem else if t = "S" then some RType.semver else if t = "O" then some RType.other else none
    match typ, (listOf evs ",").mapM parseEv, parseRanges n ts with
    | some typ, some es, some (rs, rest) => some (⟨typ, es⟩ :: rs, rest)
    | _, _, _ => none
  | _, _ => none

def parseAffected : Nat → List String → Option (List Affected × List String)
  | 0, ts => some ([], ts)
  | n+1, eco :: name :: vers :: nr :: ts =>
    match eco.toNat?, name.toNat?, (listOf vers ".").mapM (·.toNat?), nr.toNat? with
    | some eco, some name, some vs, some nr =>
      match parseRanges nr ts with
      | some (rs, rest) =>
        match parseAffected n rest with
        | some (as, rest') => some (⟨eco, name, vs, rs⟩ :: as, rest')
        | none => none
      | none => none
    | _, _, _, _ => none
  | _, _ => none

def known (e : Nat) : Bool := e < 3

def hasTie : List Ev → Bool
  | [] => false
  | e :: es => es.any (fun x => x.v = e.v) || hasTie es

/-- `isAffected` with the decision procedure before the tie repair (`rangeDecisionOld`); informational only -/
def isAffectedOld (vuln : List Affected) (p : Pkg) : Bool :=
  if !known p.eco then false else
  vuln.any fun a =>
    (a.eco = p.eco && a.name = p.name) &&
      (a.versions.contains p.vid ||
       a.ranges.any fun r => rangeApplies a r && rangeDecisionOld r.events p.version)

/-- the harness's severity table (`sevTable` in c18gen): `CalculateScore` in tenths, `none` = error (skipped) -/
def sevScore : Nat → Option Int
  | 0 => some 98 | 1 => some 75 | 2 => some 61 | 3 => some 25 | 4 => some 75 | 5 => some 93
  | 6 => none | 7 => some (-10) | 8 => none | 9 => some 0 | 10 => some 42
  | _ => none

def profile : List Nat := [1, 250, 420, 610, 750, 930, 980, 990]

def natList (s : String) : Option (List Nat) := (listOf s ".").mapM (·.toNat?)

def parseSubs : Nat → List String → Option (List SubG × List String)
  | 0, ts => some ([], ts)
  | n+1, eco :: name :: ver :: dist :: ts =>
    match eco.toNat?, name.toNat?, ver.toNat?, dist.toNat?, parseSubs n ts with
    | some eco, some name, some ver, some dist, some (ss, rest) => some (⟨⟨eco, name, ver % 100, ver⟩, dist⟩ :: ss, rest)
    | _, _, _, _, _ => none
  | _, _ => none

def parseAffS : Nat → List String → Option (List AffS × List String)
  | 0, ts => some ([], ts)
  | n+1, eco :: name :: vers :: sev :: nr :: ts =>
    match eco.toNat?, name.toNat?, natList vers, natList sev, nr.toNat? with
    | some eco, some name, some vs, some sev, some nr =>
      match parseRanges nr ts with
      | some (rs, rest) =>
        match parseAffS n rest with
        | some (as, rest') => some (⟨⟨eco, name, vs, rs⟩, sev⟩ :: as, rest')
        | none => none
      | none => none
    | _, _, _, _, _ => none
  | _, _ => none

def handleMatch : List String → String
  | minH :: maxD :: devDeps :: devOnly :: ign :: id :: aliases :: top :: nSub :: rest =>
    match minH.toNat?, maxD.toInt?, natList ign, id.toNat?, natList aliases, natList top, nSub.toNat? with
    | some minH, some maxD, some ign, some id, some aliases, some top, some nSub =>
      match parseSubs nSub rest with
      | some (subs, na :: rest') =>
        match na.toNat? with
        | some na =>
          match parseAffS na rest' with
          | some (affected, []) =>
            let v : VulnM := ⟨id, aliases, top, devOnly = "1", subs, affected⟩
            let o : MOpts := ⟨ign, devDeps = "1", minH, maxD⟩
            let wf := affected.all fun x => x.a.ranges.all fun r => WF r.events
            let prof (f : MOpts → Bool) : String := String.join (profile.map fun h => boolStr (f { o with minH := h }))
            s!"match={boolStr (matchVuln sevScore known o v)} prof={prof (matchVuln sevScore known · v)} wf={boolStr wf} spec={boolStr (specMatchVuln sevScore known o v)}:{prof (specMatchVuln sevScore known · v)}"
          | _ => "bad-op"
        | none => "bad-op"
      | _ => "bad-op"
    | _, _, _, _, _, _, _ => "bad-op"
  | _ => "bad-op"

/-- hx.Hex / hx.UnHex: the empty string travels as "-" -/
def hexS (s : String) : String := if s = "" then "-" else hexOfStr s
def unhexS (s : String) : Option String := if s = "-" then some "" else strOfHex s

def handleVk : List String → String
  | [sys, name, ver] =>
    match sys.toNat?, unhexS name, unhexS ver with
    | some sys, some name, some ver =>
      let purl := match vkPurl sys name ver with
        | some (t, ns, n, v) => s!"{t}|{hexS ns}|{hexS n}|{hexS v}"
        | none => "nil"
      s!"eco={hexS (vkEcosystem sys)} name={hexS name} ver={hexS ver} purl={purl} stubs=-|nil|0"
    | _, _, _ => "bad-op"
  | _ => "bad-op"

def handle (line : String) : String :=
  match line.splitOn " " with
  | "match" :: rest => handleMatch rest
  | "vkpkg" :: rest => handleVk rest
  | "isaff" :: pe :: pn :: pv :: na :: rest =>
    match pe.toNat?, pn.toNat?, pv.toNat?, na.toNat? with
    | some pe, some pn, some pv, some na =>
      match parseAffected na rest with
      | some (vuln, []) =>
        let p : Pkg := ⟨pe, pn, pv % 100, pv⟩
        let wf := vuln.all fun a => a.ranges.all fun r => WF r.events
        let tie := vuln.any fun a => a.ranges.any fun r => hasTie r.events
        s!"aff={boolStr (isAffected known vuln p)} wf={boolStr wf} spec={boolStr (specAffectedB known vuln p)} tie={boolStr tie} old={boolStr (isAffectedOld vuln p)}"
      | _ => "bad-op"
    | _, _, _, _ => "bad-op"
  | _ => "bad-op"

def main : IO Unit := serve handle
