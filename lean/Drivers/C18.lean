/-
Line-protocol driver for C18.
request : isaff <pkgEco> <pkgName> <pkgVersion> <nAffected> { <eco> <name> <versions|-> <nRanges> { <E|S|O> <events|-> } }
          versions = v.v.v   events = k:v,k:v with k ∈ {i,f,l}
          a version token v is rank + 100·s: rank (v % 100) in the ecosystem's order, s = 1 for the alternative spelling of
          that rank (compares equal, different string); explicit `versions` lists are matched by spelling (the token itself)
reply   : aff=<0|1> wf=<0|1> spec=<0|1> tie=<0|1> old=<0|1>
          aff  = the model of the (repaired) code; wf = every range is well formed (`WF`: ordered by (version, kind) the events
          alternate — events may share a version); spec = the order-free specification `osvDecl` at record level (`specAffectedB`);
          tie  = some range has two events on one rank; old = the decision procedure before the tie repair (informational, not compared)
`known` ecosystems are 0 (npm), 1 (Maven), 2 (PyPI).
-/
import Scalibr.Base.Wire
import Scalibr.Spec.Vulns
open Scalibr Scalibr.Vulns Scalibr.Wire

def parseEv (s : String) : Option Ev :=
  match s.splitOn ":" with
  | [k, v] =>
    match (if k = "i" then some Kind.intro else if k = "f" then some Kind.fixed else if k = "l" then some Kind.last else none), v.toNat? with
    | some k, some v => some ⟨k, v % 100⟩    -- version token = rank + 100·(alternative spelling); events are compared: rank only
    | _, _ => none
  | _ => none

def parseRanges : Nat → List String → Option (List Range × List String)
  | 0, ts => some ([], ts)
  | n+1, t :: evs :: ts =>
    let typ := if t = "E" then some RType.ecosystem else if t = "S" then some RType.semver else if t = "O" then some RType.other else none
    match typ, (listOf evs ",").mapM parseEv, parseRanges n ts with
    | some typ, some es, some (rs, rest) => some (⟨typ, es⟩ :: rs, rest)
    | _, _, _ => none
  | _, _ => none

def parseAffected : Nat → List String → Option (List Affected × List String)
  | 0, ts => some ([], ts)
  | n+1, eco :: name :: vers :: nr :: ts =>
    match eco.toNat?, name.toNat?, (listOf vers ".").mapM (·.toNat?), nr.toNat? with
    | some eco, some name, some vs, some nr =>
      match parseRanges nr ts with
      | some (rs, rest) =>
        match parseAffected n rest with
        | some (as, rest') => some (⟨eco, name, vs, rs⟩ :: as, rest')
        | none => none
      | none => none
    | _, _, _, _ => none
  | _, _ => none

def known (e : Nat) : Bool := e < 3

def hasTie : List Ev → Bool
  | [] => false
  | e :: es => es.any (fun x => x.v = e.v) || hasTie es

/-- `isAffected` with the decision procedure before the tie repair (`rangeDecisionOld`); informational only -/
def isAffectedOld (vuln : List Affected) (p : Pkg) : Bool :=
  if !known p.eco then false else
  vuln.any fun a =>
    (a.eco = p.eco && a.name = p.name) &&
      (a.versions.contains p.vid ||
       a.ranges.any fun r => rangeApplies a r && rangeDecisionOld r.events p.version)

def handle (line : String) : String :=
  match line.splitOn " " with
  | "isaff" :: pe :: pn :: pv :: na :: rest =>
    match pe.toNat?, pn.toNat?, pv.toNat?, na.toNat? with
    | some pe, some pn, some pv, some na =>
      match parseAffected na rest with
      | some (vuln, []) =>
        let p : Pkg := ⟨pe, pn, pv % 100, pv⟩
        let wf := vuln.all fun a => a.ranges.all fun r => WF r.events
        let tie := vuln.any fun a => a.ranges.any fun r => hasTie r.events
        s!"aff={boolStr (isAffected known vuln p)} wf={boolStr wf} spec={boolStr (specAffectedB known vuln p)} tie={boolStr tie} old={boolStr (isAffectedOld vuln p)}"
      | _ => "bad-op"
    | _, _, _, _ => "bad-op"
  | _ => "bad-op"

def main : IO Unit := serve handle
