/-
Line-protocol driver for C03 (and the modelled parsers of C02).
request : <format> <hex file bytes|-> <expected|?> [<decoded document> | R:<records + layout>]
  (a) line formats  apk | gradle | gemfile | dpkg | requirements : the model parses the BYTES
  (b) decoded formats plock | composer | cargo | poetry | pipfile | pkgslock | gomod : the model runs on the
      decoded document (4th token, printed by the harness from the extractor's own decoder + struct)
  expected = the generator's package set (the specification's `installed` list), `?` for malformed inputs;
  both lists are `hex(name)@hex(version)` joined by ','; `-` is the empty list.
reply   : pk=<sorted list|-|err|panic> spec=<sorted list|?> src=<lean|gen> [wf=<0|1> same=<0|1>]
  For a line format whose case carries an R token (the generator's abstract records and layout, see
  harness/cmd/c03gen/rtok.go) the driver rebuilds `Layout` and the `GRec` list, and answers from the SPECIFICATION:
    wf   = the hypotheses of the format's C03 theorem (`WF`, `LayoutWF`, `LayoutOK`), decided
    same = Lean `render layout records` is byte-for-byte the file the harness wrote
    spec = `installed records` (src=lean)
  reqtree (requirements files that include each other; harness/cmd/c03gen/gen_tree.go):
    request : reqtree <hex top bytes> <expected|?> T:<hex top path>:<hex reachable paths|-> F:<hex path>:<hex content|->:<R token|-> …
    pk      = `Requirements.extractAll` over the path → content map; entries hex(name)@hex(version)@hex(loc)/hex(loc)
    wf      = every file `WFfile` ∧ the generator's list of reachable files passes `isReachCert` (theorem reachCert_iff)
    same    = Lean `render` of every file is the file the harness wrote
    spec    = `expectedTree files top reach` (theorem C03_requirements_tree_cert_partial)
  Without an R token (malformed stream, records the Lean types cannot express, decoded formats) spec echoes the
  generator's expected list (src=gen).
-/
import Scalibr.Base.Wire
import Scalibr.Model.Parsers.Apk
import Scalibr.Model.Parsers.Gradle
import Scalibr.Model.Parsers.Gemfile
import Scalibr.Model.Parsers.Dpkg
import Scalibr.Model.Parsers.Requirements
import Scalibr.Model.Lockfiles
import Scalibr.Spec.Lockfiles
import Scalibr.Spec.Parsers
open Scalibr Scalibr.Wire Scalibr.Parsers Scalibr.Lockfiles

/-- Latin-1 embedding of bytes -/
def charsOfHex (s : String) : Option (List Char) :=
  if s = "-" then some [] else (bytesOfHex s).map fun bs => bs.map fun b => Char.ofNat b.toNat

def hexOfChars (cs : List Char) : String := hexOfBytes (cs.map fun c => UInt8.ofNat (c.toNat % 256))

def fmtPairs (ps : List (List Char × List Char)) : String :=
  let xs := ps.map fun (n, v) => hexOfChars n ++ "@" ++ hexOfChars v
  joinWith "," (xs.toArray.qsort (· < ·)).toList

def fmtOutcome : Outcome (List (List Char × List Char)) → String
  | .ok ps => fmtPairs ps
  | .err => "err"
  | .panic => "panic"

def sortList (s : String) : String :=
  if s = "?" then "?" else joinWith "," ((listOf s ",").toArray.qsort (· < ·)).toList

/-- "a:b:c" → hex-decoded fields -/
def fieldsOf (s : String) : Option (List (List Char)) := (s.splitOn ":").mapM fun f => if f = "" then some [] else charsOfHex f

def nvList (s : String) (sep : String) : Option (List NV) :=
  (listOf s sep).mapM fun e => match fieldsOf e with
    | some [n, v] => some ⟨n, v⟩
    | _ => none

def kvList (s : String) (sep : String) : Option (List (Str × Str)) :=
  (listOf s sep).mapM fun e => match fieldsOf e with
    | some [n, v] => some (n, v)
    | _ => none

def nvOut (ps : List NV) : Outcome (List (List Char × List Char)) := .ok (ps.map fun p => (p.name, p.version))

/-- preorder decoding of a v1 dependency forest: each token `name:version:commit:nchildren` -/
partial def parseForest (n : Nat) (ts : List String) : Option (List PackageLock.Dep × List String) :=
  match n with
  | 0 => some ([], ts)
  | n + 1 =>
    match ts with
    | [] => none
    | t :: rest =>
      match t.splitOn ":" with
      | [a, b, c, k] =>
        match fieldsOf (a ++ ":" ++ b ++ ":" ++ c), k.toNat? with
        | some [name, ver, commit], some k =>
          match parseForest k rest with
          | some (kids, rest') =>
            match parseForest n rest' with
            | some (sibs, rest'') => some (PackageLock.Dep.mk name ver commit kids :: sibs, rest'')
            | none => none
          | none => none
        | _, _ => none
      | _ => none

abbrev Pairs := List (List Char × List Char)

def nvPairs (ps : List NV) : Pairs := ps.map fun p => (p.name, p.version)

/-- `hex(id):hex(resolved):hex(type)` entries of one target framework -/
def tripleList (s : String) : Option (List (Str × Str × Str)) :=
  (listOf s ",").mapM fun e => match fieldsOf e with
    | some [n, v, t] => some (n, v, t)
    | some [n, v] => some (n, v, [])
    | _ => none

/-- model outcome on the decoded document and, where the Spec has an executable right-hand side (Spec/Lockfiles.lean:
`PackageLock.expected`, `Pipfile.expected`, `PackagesLock.expected`, `GoMod.expected`; theorems `C03_*_expected*`), the Spec's list -/
def runDoc (fmt doc : String) : Option (Outcome Pairs × Option Pairs) :=
  match fmt with
  | "plock" =>
    match doc.splitOn ";" with
    | "p" :: es =>
      let ps := (es.filter (· ≠ "")).mapM fun e => match fieldsOf e with
        | some [p, n, v, c] => some (⟨p, n, v, c⟩ : PackageLock.LPkg)
        | _ => none
      ps.map fun ps => (match PackageLock.extract ⟨some ps, []⟩ with
        | .ok ds => .ok (ds.map fun d => (d.name, d.version))
        | .err => .err
        | .panic => .panic, some ((PackageLock.expected ⟨some ps, []⟩).map fun e => (e.2.name, e.2.version)))
    | "d" :: nroots :: ts =>
      match nroots.toNat? with
      | some n => match parseForest n (ts.filter (· ≠ "")) with
        | some (ds, []) => some (match PackageLock.extract ⟨none, ds⟩ with
          | .ok xs => .ok (xs.map fun d => (d.name, d.version))
          | .err => .err
          | .panic => .panic, some ((PackageLock.expected ⟨none, ds⟩).map fun e => (e.2.name, e.2.version)))
        | _ => none
      | none => none
    | _ => none
  | "composer" =>
    match doc.splitOn "|" with
    | [a, b] => match nvList a ",", nvList b "," with
      | some x, some y => some (nvOut (Composer.extract ⟨x, y⟩), none)
      | _, _ => none
    | _ => none
  | "cargo" => (nvList doc ",").map fun x => (nvOut (Cargo.extract x), none)
  | "poetry" => (nvList doc ",").map fun x => (nvOut (Poetry.extract x), none)
  | "pipfile" =>
    match doc.splitOn "|" with
    | [a, b] => match kvList a ",", kvList b "," with
      | some x, some y => some (match Pipfile.extract ⟨x, y⟩ with
        | .ok ps => nvOut ps
        | .err => .err
        | .panic => .panic, some (nvPairs ((Pipfile.expected ⟨x, y⟩).map (·.2))))
      | _, _ => none
    | _ => none
  | "pkgslock" =>
    let fws := (listOf doc "|").mapM fun f => match f.splitOn "=" with
      | [k, es] => match charsOfHex (if k = "" then "-" else k), tripleList es with
        | some k, some es => some (k, es)
        | _, _ => none
      | _ => none
    fws.map fun (d : PackagesLock.Doc) => (nvOut (PackagesLock.extract d), some (nvPairs (PackagesLock.expected d)))
  | "gomod" =>
    match doc.splitOn "|" with
    | [rq, rp, gv, tc] =>
      let reps := (listOf rp ",").mapM fun e => match fieldsOf e with
        | some [a, b, c, d] => some (⟨a, b, c, d⟩ : GoMod.Replace)
        | _ => none
      match kvList rq ",", reps, charsOfHex (if gv = "" then "-" else gv), charsOfHex (if tc = "" then "-" else tc) with
      | some rq, some reps, some gv, some tc => let d : GoMod.Doc := ⟨rq, reps, gv, tc⟩
        if GoMod.consistent d then some (nvOut (GoMod.extract d), some (nvPairs (GoMod.expectedGo d))) else some (nvOut (GoMod.extract d), none)
      | _, _, _, _ => none
    | [rq, rp, gv, tc, older, sm] =>
      -- go.mod with a go.sum next to it: `older` = the extractor consults go.sum (go / toolchain older than 1.17), `sm` = its (module, version) fields
      let reps := (listOf rp ",").mapM fun e => match fieldsOf e with
        | some [a, b, c, d] => some (⟨a, b, c, d⟩ : GoMod.Replace)
        | _ => none
      let sum : Option GoMod.Sum := if sm = "-" || sm = "!" then some none else (kvList sm ",").map some
      match kvList rq ",", reps, charsOfHex (if gv = "" then "-" else gv), charsOfHex (if tc = "" then "-" else tc), sum with
      | some rq, some reps, some gv, some tc, some sum =>
        let d : GoMod.Doc := ⟨rq, reps, gv, tc⟩
        if GoMod.consistent d then some (nvOut (GoMod.extractWithSum d (older = "1") sum), some (nvPairs (GoMod.expectedGoSum d (older = "1") sum)))
        else some (nvOut (GoMod.extractWithSum d (older = "1") sum), none)
      | _, _, _, _, _ => none
    | _ => none
  | _ => none

/-! ### R tokens: the generator's records and layout, rebuilt as Spec values -/

def dropS (s : String) (n : Nat) : String := String.ofList (s.toList.drop n)

def hx? (s : String) : Option (List Char) := if s = "" then some [] else charsOfHex s

structure RTok where
  final : Bool
  crlf : List Bool
  items : List String

def parseR (t : String) : Option RTok :=
  if !t.startsWith "R:" then none else
  match (dropS t 2).splitOn "|" with
  | [hd, its] =>
    match hd.splitOn "," with
    | [f, bits] =>
      some ⟨f = "1", if bits = "-" then [] else bits.toList.map (· = '1'), if its = "" then [] else its.splitOn ";"⟩
    | _ => none
  | _ => none

def kvs? (s : String) : Option (List (List Char × List Char)) :=
  if s = "" then some [] else (s.splitOn ".").mapM fun e => match e.splitOn "=" with
    | [k, v] => match hx? k, hx? v with
      | some k, some v => some (k, v)
      | _, _ => none
    | _ => none

/-- blank-line runs around records: (blank lines before each record, blank lines after the last one) -/
def runsOf {α : Type} (dec : String → Option α) : List String → Nat → List (Nat × α) → Option (List (Nat × α) × Nat)
  | [], nb, acc => some (acc.reverse, nb)
  | it :: rest, nb, acc =>
    if it = "b" then runsOf dec rest (nb + 1) acc
    else match dec it with
      | some r => runsOf dec rest 0 ((nb, r) :: acc)
      | none => none

/-- lead / gap / tail of the apk and dpkg layouts from the runs; `none` when two records are not separated -/
def gapsOf {α : Type} (runs : List (Nat × α)) : Option (Nat × List Nat) :=
  match runs with
  | [] => some (0, [])
  | (lead, _) :: rest =>
    if rest.all (fun x => x.1 ≥ 1) then some (lead, rest.map (fun x => x.1 - 1)) else none

structure SpecAns where
  wf : Bool
  bytes : List Char
  spec : List (List Char × List Char)

def apkAns (t : RTok) : Option SpecAns :=
  let dec (it : String) : Option Apk.GRec :=
    if !it.startsWith "r" then none else
    match (dropS it 1).splitOn "," with
    | [n, v, vf, pre, mid, post] =>
      match hx? n, hx? v, kvs? pre, kvs? mid, kvs? post with
      | some n, some v, some pre, some mid, some post => some { name := n, ver := v, pre := pre, mid := mid, post := post, vFirst := vf = "1" }
      | _, _, _, _, _ => none
    | _ => none
  match runsOf dec t.items 0 [] with
  | none => none
  | some (runs, tail) =>
    match gapsOf runs with
    | none => none
    | some (lead, gaps) =>
      let rs := runs.map (·.2)
      let ℓ : Apk.Layout := { lead := if rs.isEmpty then 0 else lead, gap := fun i => gaps.getD i 0, tail := if rs.isEmpty then lead + tail else tail, eols := ⟨t.crlf, t.final⟩ }
      some ⟨decide (Apk.WF rs ∧ Apk.LayoutOK ℓ rs), Apk.render ℓ rs, Apk.installed rs⟩

def inlineWsChar (c : Char) : Bool := c = ' ' || c = '\t' || c.toNat = 11 || c.toNat = 12

def gradleFiller? (l : List Char) : Option Gradle.Filler :=
  let lead := l.takeWhile inlineWsChar
  let rest := l.drop lead.length
  match rest with
  | [] => some (.blank l)
  | '#' :: t => some (.comment lead t)
  | _ => if hasPrefix "empty=".toList rest then some (.emptyConf lead (rest.drop 6)) else none

/-- records with the filler lines in front of each, and the trailing fillers -/
def fillRuns {ρ φ : Type} (decR : String → Option ρ) (decF : List Char → Option φ) :
    List String → List φ → List (List φ × ρ) → Option (List (List φ × ρ) × List φ)
  | [], fs, acc => some (acc.reverse, fs.reverse)
  | it :: rest, fs, acc =>
    if it.startsWith "f" then
      match hx? (dropS it 1) with
      | some l => match decF l with
        | some f => fillRuns decR decF rest (f :: fs) acc
        | none => none
      | none => none
    else match decR it with
      | some r => fillRuns decR decF rest [] ((fs.reverse, r) :: acc)
      | none => none

def gradleAns (t : RTok) : Option SpecAns :=
  let dec (it : String) : Option Gradle.GRec :=
    if !it.startsWith "r" then none else
    match ((dropS it 1).splitOn ",").mapM hx? with
    | some [g, a, v, c, ld, tr] => some { group := g, artifact := a, ver := v, confs := c, lead := ld, trail := tr }
    | _ => none
  match fillRuns dec gradleFiller? t.items [] [] with
  | none => none
  | some (runs, after) =>
    let rs := runs.map (·.2)
    let befores := runs.map (·.1)
    let ℓ : Gradle.Layout := { before := fun i => befores.getD i [], after := after, eols := ⟨t.crlf, t.final⟩ }
    some ⟨decide (Gradle.WF rs ∧ Gradle.LayoutWF ℓ rs.length ∧ Gradle.LayoutOK ℓ rs), Gradle.render ℓ rs, Gradle.installed rs⟩

def spTabChar (c : Char) : Bool := c = ' ' || c = '\t'

def reqFiller? (l : List Char) : Option Requirements.Filler :=
  let lead := l.takeWhile spTabChar
  let rest := l.drop lead.length
  match rest with
  | [] => some (.blank l)
  | '#' :: t => some (.comment lead t)
  | '-' :: t =>
    if !lead.isEmpty then none else
    match t with
    | 'r' :: u =>
      -- `-r<blanks><path>` with a path the Spec can express is an include line; any other text after "-r" stays an option line
      let sp := u.takeWhile spTabChar
      let tg := u.drop sp.length
      if decide (Requirements.WFfiller (.incl sp tg)) then some (.incl sp tg) else some (.option t)
    | _ => some (.option t)
  | _ => none

def reqOp? (o : List Char) : Option Requirements.Op :=
  [Requirements.Op.eq3, .eq2, .ge, .le, .compat, .bare].find? (fun x => Requirements.opText x = o)

def reqSpec? (t : RTok) : Option (Requirements.Layout × List Requirements.GRec) :=
  let dec (it : String) : Option Requirements.GRec :=
    if !it.startsWith "r" then none else
    match (dropS it 1).splitOn "," with
    | [n, o, v, hasEx, ex, ld, s1, s2, hasC, cw, ct] =>
      match hx? n, hx? o, hx? v, hx? ex, hx? ld, hx? s1, hx? s2, hx? cw, hx? ct with
      | some n, some o, some v, some ex, some ld, some s1, some s2, some cw, some ct =>
        (reqOp? o).map fun op => { name := n, op := op, ver := v, extras := if hasEx = "1" then some ex else none, lead := ld, sp1 := s1, sp2 := s2,
                                   comment := if hasC = "1" then some (cw, ct) else none }
      | _, _, _, _, _, _, _, _, _ => none
    | _ => none
  match fillRuns dec reqFiller? t.items [] [] with
  | none => none
  | some (runs, after) =>
    let rs := runs.map (·.2)
    let befores := runs.map (·.1)
    let ℓ : Requirements.Layout := { before := fun i => befores.getD i [], after := after, eols := ⟨t.crlf, t.final⟩ }
    some (ℓ, rs)

def reqAns (t : RTok) : Option SpecAns :=
  (reqSpec? t).map fun (ℓ, rs) =>
    ⟨decide (Requirements.WF rs ∧ Requirements.LayoutWF ℓ rs.length ∧ Requirements.LayoutOK ℓ rs), Requirements.render ℓ rs, Requirements.installed rs⟩

/-! ### reqtree: requirements files that include each other -/

def fmtLocPairs (ps : List (List Char × List Char × List Line)) : String :=
  let xs := ps.map fun (n, v, ls) => hexOfChars n ++ "@" ++ hexOfChars v ++ "@" ++ joinWith "/" (ls.map hexOfChars)
  if xs.isEmpty then "-" else joinWith "," (xs.toArray.qsort (· < ·)).toList

structure TreeFile where
  path : Line
  bytes : List Char
  rtok : Option RTok

/-- `F:<hex path>:<hex content|->:<R token|->` -/
def treeFile? (tok : String) : Option TreeFile :=
  match tok.splitOn ":" with
  | "F" :: p :: c :: rt =>
    match hx? p, charsOfHex c with
    | some p, some c =>
      match rt with
      | ["-"] => some ⟨p, c, none⟩
      | ["R", body] => (parseR ("R:" ++ body)).map fun r => ⟨p, c, some r⟩
      | _ => none
    | _, _ => none
  | _ => none

/-- `T:<hex top path>:<hex reachable paths|->` -/
def treeHead? (tok : String) : Option (Line × List Line) :=
  match tok.splitOn ":" with
  | ["T", p, reach] =>
    match hx? p, (if reach = "-" then some [] else (reach.splitOn ",").mapM hx?) with
    | some p, some r => some (p, r)
    | _, _ => none
  | _ => none

def treeReply (hex expect : String) (toks : List String) : String :=
  match toks with
  | hd :: fts =>
    match charsOfHex hex, treeHead? hd, fts.mapM treeFile? with
    | some bs, some (top, reach), some tfs =>
      let fs : Requirements.Files := tfs.map fun f => (f.path, f.bytes)
      let pk := match Requirements.extractAll fs top bs with
        | .ok ps => fmtLocPairs ps
        | .err => "err"
        | .panic => "panic"
      let spec := sortList expect
      -- the Spec side: every file rebuilt from its R token
      let specs : Option (List Requirements.FileSpec) := tfs.mapM fun f =>
        f.rtok.bind fun r => (reqSpec? r).map fun (ℓ, rs) => ({ path := f.path, ℓ := ℓ, rs := rs } : Requirements.FileSpec)
      match specs, expect with
      | some (t :: rest), e =>
        if e = "?" || t.path ≠ top then s!"pk={pk} spec={spec} src=gen" else
        -- the scan input is the first file; the file system holds all of them (the first one too)
        let files := t :: rest
        let wf := decide (∀ f ∈ t :: files, Requirements.WFfile f) && Requirements.isReachCert files t reach
        let same := (files.zip tfs).all fun (f, tf) => Requirements.content f == tf.bytes
        s!"pk={pk} spec={fmtLocPairs (Requirements.expectedTree files t reach)} src=lean wf={boolStr wf} same={boolStr (same && Requirements.content t == bs)}"
      | _, _ => s!"pk={pk} spec={spec} src=gen"
    | _, _, _ => "bad-op"
  | [] => "bad-op"

/-- sections: `s` header, then `p` (spec) / `a` (other indented line) / `b` (blank) items -/
def gemSecs : List String → Nat → Option Gemfile.GSec → List (Nat × Gemfile.GSec) → Nat → Option (List (Nat × Gemfile.GSec))
  | [], _, cur, acc, lead => some ((match cur with | some c => (lead, c) :: acc | none => acc).reverse)
  | it :: rest, nb, cur, acc, lead =>
    let push (i : Gemfile.Item) : Option (List (Nat × Gemfile.GSec)) :=
      match cur with
      | some c => gemSecs rest 0 (some { c with items := c.items ++ [i] }) acc lead
      | none => none
    if it = "b" then
      (match cur with
       | some _ => push .blank
       | none => gemSecs rest (nb + 1) none acc lead)
    else if it.startsWith "s" then
      match hx? (dropS it 1) with
      | some n => gemSecs rest 0 (some ⟨n, []⟩) (match cur with | some c => (lead, c) :: acc | none => acc) (match cur with | some _ => 0 | none => nb)
      | none => none
    else if it.startsWith "p" then
      match (dropS it 1).splitOn "," with
      | [n, v, pl] => match hx? n, hx? v, (if pl = "!" then some none else (hx? pl).map some) with
        | some n, some v, some pl => push (.spec n v pl)
        | _, _, _ => none
      | _ => none
    else if it.startsWith "a" then
      match (dropS it 1).splitOn "," with
      | [k, tx] => match k.toNat?, hx? tx with
        | some k, some tx => push (.aux k tx)
        | _, _ => none
      | _ => none
    else none

def gemAns (t : RTok) : Option SpecAns :=
  match gemSecs t.items 0 none [] 0 with
  | none => none
  | some runs =>
    let secs := runs.map (·.2)
    let leads := runs.map (·.1)
    let ℓ : Gemfile.Layout := { lead := fun i => leads.getD i 0, eols := ⟨t.crlf, t.final⟩ }
    some ⟨decide (Gemfile.WF secs ∧ Gemfile.LayoutOK ℓ secs), Gemfile.render ℓ secs, Gemfile.installed secs⟩

def dpkgField? (s : String) : Option Dpkg.Field :=
  match s.splitOn "=" with
  | [k, sp, v, cs] =>
    match hx? k, hx? sp, hx? v, (if cs = "" then some [] else (cs.splitOn "~").mapM hx?) with
    | some k, some sp, some v, some cs => some ⟨k, sp, v, cs⟩
    | _, _, _, _ => none
  | _ => none

def dpkgRec? (it : String) : Option Dpkg.GRec :=
  if !it.startsWith "r" then none else
  match ((dropS it 1).splitOn ".").mapM dpkgField? with
  | none => none
  | some fs =>
    let byKey (k : String) : Option Dpkg.Field := fs.find? fun f => Dpkg.canonKey f.key = some k.toList
    match byKey "Package", byKey "Status" with
    | some fp, some fst =>
      match Dpkg.splitSp fst.value [] with
      | [w, fl, st] =>
        let fv := byKey "Version"
        let fsrc := byKey "Source"
        let sig := [some fp, some fst, fv, fsrc].filterMap id
        some { name := fp.value, ver := (fv.map (·.value)).getD [], want := w, flag := fl, state := st,
               source := fsrc.map (·.value),
               keyP := fp.key, keyS := fst.key, keyV := (fv.map (·.key)).getD "Version".toList, keySrc := (fsrc.map (·.key)).getD "Source".toList,
               sepP := fp.sep, sepS := fst.sep, sepV := (fv.map (·.sep)).getD [' '],
               extras := fs.filter (fun f => !sig.contains f), fields := fs }
      | _ => none
    | _, _ => none

def dpkgAns (t : RTok) : Option SpecAns :=
  match runsOf dpkgRec? t.items 0 [] with
  | none => none
  | some (runs, tail) =>
    match gapsOf runs with
    | none => none
    | some (lead, gaps) =>
      let rs := runs.map (·.2)
      let ℓ : Dpkg.Layout := { lead := if rs.isEmpty then 0 else lead, gap := fun i => gaps.getD i 0, tail := if rs.isEmpty then lead + tail else tail, eols := ⟨t.crlf, t.final⟩ }
      some ⟨decide (Dpkg.WF rs ∧ Dpkg.LayoutOK ℓ rs), Dpkg.render ℓ rs, Dpkg.installed rs⟩

def specAns (fmt : String) (t : RTok) : Option SpecAns :=
  match fmt with
  | "apk" => apkAns t
  | "gradle" => gradleAns t
  | "gemfile" => gemAns t
  | "dpkg" => dpkgAns t
  | "requirements" => reqAns t
  | _ => none

def handle (line : String) : String :=
  match line.splitOn " " with
  | fmt :: hex :: expect :: rest =>
    let spec := sortList expect
    let byBytes (f : List Char → Outcome (List (List Char × List Char))) (r : Option String) : String :=
      match charsOfHex hex with
      | some bs =>
        let pk := fmtOutcome (f bs)
        match r with
        | none => s!"pk={pk} spec={spec} src=gen"
        | some tok =>
          match parseR tok with
          | none => "bad-op"
          | some t =>
            match specAns fmt t with
            | none => s!"pk={pk} spec={spec} src=gen"        -- records the Lean generator-side types cannot express
            | some a => s!"pk={pk} spec={fmtPairs a.spec} src=lean wf={boolStr a.wf} same={boolStr (a.bytes == bs)}"
      | none => "bad-op"
    let lineFmt (r : Option String) : Option String :=
      match fmt with
      | "apk" => some (byBytes Apk.parse r)
      | "gradle" => some (byBytes Gradle.parse r)
      | "gemfile" => some (byBytes Gemfile.parse r)
      | "dpkg" => some (byBytes Dpkg.parse r)
      | "dpkgd" => some (byBytes Dpkg.parseD none)   -- var/lib/dpkg/status.d/<name>: stanzas without Status count; a reader error gives no packages
      | "requirements" => some (byBytes Requirements.parse r)
      | _ => none
    if fmt = "reqtree" then treeReply hex expect rest else
    match rest with
    | [] => (lineFmt none).getD "bad-op"
    | [x, s] =>
      -- gomod with the bytes of go.sum (`S:<hex>`, for replay only: what the model needs is inside the document token)
      if !s.startsWith "S:" then "bad-op" else
      match runDoc fmt x with
      | some (o, some sp) => if expect = "?" then s!"pk={fmtOutcome o} spec={spec} src=gen" else s!"pk={fmtOutcome o} spec={fmtPairs sp} src=lean wf=1 same=1"
      | some (o, none) => s!"pk={fmtOutcome o} spec={spec} src=gen"
      | none => "bad-op"
    | [x] =>
      match lineFmt (some x) with
      | some reply => if x.startsWith "R:" then reply else "bad-op"
      | none =>
        match runDoc fmt x with
        | some (o, some sp) => if expect = "?" then s!"pk={fmtOutcome o} spec={spec} src=gen" else
            s!"pk={fmtOutcome o} spec={fmtPairs sp} src=lean wf=1 same=1"   -- spec from the Spec's executable right-hand side
        | some (o, none) => s!"pk={fmtOutcome o} spec={spec} src=gen"
        | none => "bad-op"
    | _ => "bad-op"
  | _ => "bad-op"

def main : IO Unit := serve handle
