/-
Line-protocol driver for C03 (and the modelled parsers of C02).
request : <format> <hex file bytes|-> <expected|?> [<decoded document>]
  (a) line formats  apk | gradle | gemfile | dpkg | requirements : the model parses the BYTES
  (b) decoded formats plock | composer | cargo | poetry | pipfile | pkgslock | gomod : the model runs on the
      decoded document (4th token, printed by the harness from the extractor's own decoder + struct)
  expected = the generator's package set (the specification's `installed` list), `?` for malformed inputs;
  both lists are `hex(name)@hex(version)` joined by ','; `-` is the empty list.
reply   : pk=<sorted list|-|err|panic> spec=<sorted expected|?>
-/
import Scalibr.Base.Wire
import Scalibr.Model.Parsers.Apk
import Scalibr.Model.Parsers.Gradle
import Scalibr.Model.Parsers.Gemfile
import Scalibr.Model.Parsers.Dpkg
import Scalibr.Model.Parsers.Requirements
import Scalibr.Model.Lockfiles
open Scalibr Scalibr.Wire Scalibr.Parsers Scalibr.Lockfiles

/-- Latin-1 embedding of bytes -/
def charsOfHex (s : String) : Option (List Char) :=
  if s = "-" then some [] else (bytesOfHex s).map fun bs => bs.map fun b => Char.ofNat b.toNat

def hexOfChars (cs : List Char) : String := hexOfBytes (cs.map fun c => UInt8.ofNat (c.toNat % 256))

def fmtPairs (ps : List (List Char × List Char)) : String :=
  let xs := ps.map fun (n, v) => hexOfChars n ++ "@" ++ hexOfChars v
  joinWith "," (xs.toArray.qsort (· < ·)).toList

def fmtOutcome : Outcome (List (List Char × List Char)) → String
  | .ok ps => fmtPairs ps
  | .err => "err"
  | .panic => "panic"

def sortList (s : String) : String :=
  if s = "?" then "?" else joinWith "," ((listOf s ",").toArray.qsort (· < ·)).toList

/-- "a:b:c" → hex-decoded fields -/
def fieldsOf (s : String) : Option (List (List Char)) := (s.splitOn ":").mapM fun f => if f = "" then some [] else charsOfHex f

def nvList (s : String) (sep : String) : Option (List NV) :=
  (listOf s sep).mapM fun e => match fieldsOf e with
    | some [n, v] => some ⟨n, v⟩
    | _ => none

def kvList (s : String) (sep : String) : Option (List (Str × Str)) :=
  (listOf s sep).mapM fun e => match fieldsOf e with
    | some [n, v] => some (n, v)
    | _ => none

def nvOut (ps : List NV) : Outcome (List (List Char × List Char)) := .ok (ps.map fun p => (p.name, p.version))

/-- preorder decoding of a v1 dependency forest: each token `name:version:commit:nchildren` -/
partial def parseForest (n : Nat) (ts : List String) : Option (List PackageLock.Dep × List String) :=
  match n with
  | 0 => some ([], ts)
  | n + 1 =>
    match ts with
    | [] => none
    | t :: rest =>
      match t.splitOn ":" with
      | [a, b, c, k] =>
        match fieldsOf (a ++ ":" ++ b ++ ":" ++ c), k.toNat? with
        | some [name, ver, commit], some k =>
          match parseForest k rest with
          | some (kids, rest') =>
            match parseForest n rest' with
            | some (sibs, rest'') => some (PackageLock.Dep.mk name ver commit kids :: sibs, rest'')
            | none => none
          | none => none
        | _, _ => none
      | _ => none

def runDoc (fmt doc : String) : Option (Outcome (List (List Char × List Char))) :=
  match fmt with
  | "plock" =>
    match doc.splitOn ";" with
    | "p" :: es =>
      let ps := (es.filter (· ≠ "")).mapM fun e => match fieldsOf e with
        | some [p, n, v, c] => some (⟨p, n, v, c⟩ : PackageLock.LPkg)
        | _ => none
      ps.map fun ps => match PackageLock.extract ⟨some ps, []⟩ with
        | .ok ds => .ok (ds.map fun d => (d.name, d.version))
        | .err => .err
        | .panic => .panic
    | "d" :: nroots :: ts =>
      match nroots.toNat? with
      | some n => match parseForest n (ts.filter (· ≠ "")) with
        | some (ds, []) => some (match PackageLock.extract ⟨none, ds⟩ with
          | .ok xs => .ok (xs.map fun d => (d.name, d.version))
          | .err => .err
          | .panic => .panic)
        | _ => none
      | none => none
    | _ => none
  | "composer" =>
    match doc.splitOn "|" with
    | [a, b] => match nvList a ",", nvList b "," with
      | some x, some y => some (nvOut (Composer.extract ⟨x, y⟩))
      | _, _ => none
    | _ => none
  | "cargo" => (nvList doc ",").map fun x => nvOut (Cargo.extract x)
  | "poetry" => (nvList doc ",").map fun x => nvOut (Poetry.extract x)
  | "pipfile" =>
    match doc.splitOn "|" with
    | [a, b] => match kvList a ",", kvList b "," with
      | some x, some y => some (match Pipfile.extract ⟨x, y⟩ with
        | .ok ps => nvOut ps
        | .err => .err
        | .panic => .panic)
      | _, _ => none
    | _ => none
  | "pkgslock" =>
    let fws := (listOf doc "|").mapM fun f => match f.splitOn "=" with
      | [k, es] => match charsOfHex (if k = "" then "-" else k), kvList es "," with
        | some k, some es => some (k, es)
        | _, _ => none
      | _ => none
    fws.map fun d => nvOut (PackagesLock.extract d)
  | "gomod" =>
    match doc.splitOn "|" with
    | [rq, rp, gv, tc] =>
      let reps := (listOf rp ",").mapM fun e => match fieldsOf e with
        | some [a, b, c, d] => some (⟨a, b, c, d⟩ : GoMod.Replace)
        | _ => none
      match kvList rq ",", reps, charsOfHex (if gv = "" then "-" else gv), charsOfHex (if tc = "" then "-" else tc) with
      | some rq, some reps, some gv, some tc => some (nvOut (GoMod.extract ⟨rq, reps, gv, tc⟩))
      | _, _, _, _ => none
    | _ => none
  | _ => none

def handle (line : String) : String :=
  match line.splitOn " " with
  | fmt :: hex :: expect :: rest =>
    let spec := sortList expect
    let byBytes (f : List Char → Outcome (List (List Char × List Char))) : String :=
      match charsOfHex hex with
      | some bs => s!"pk={fmtOutcome (f bs)} spec={spec}"
      | none => "bad-op"
    match fmt, rest with
    | "apk", [] => byBytes Apk.parse
    | "gradle", [] => byBytes Gradle.parse
    | "gemfile", [] => byBytes Gemfile.parse
    | "dpkg", [] => byBytes Dpkg.parse
    | "requirements", [] => byBytes Requirements.parse
    | _, [doc] =>
      match runDoc fmt doc with
      | some o => s!"pk={fmtOutcome o} spec={spec}"
      | none => "bad-op"
    | _, _ => "bad-op"
  | _ => "bad-op"

def main : IO Unit := serve handle
