/-
Line-protocol driver for C07.
request : cmp <eco> <hexA> <hexB>           (eco: ecosystem name with ' ' written as '_'; "-" = empty string)
          tri <eco> <hexA> <hexB> <hexC>
reply   : cmp → r=<a?b> rr=<b?a> ra=<a?a> rb=<b?b> acc=<xy> gv=<xy> kf=<xy> [spec=<lt|eq|gt>]
                (semver-like, Debian/Ubuntu, PyPI, RubyGems, NuGet, CRAN, Red Hat: when both strings read as canonical
                 versions, spec = the verdict of the ecosystem's published rule, Spec/Semantic/*.lean)
          tri → ab=<a?b> bc=<b?c> ac=<a?c> ba=<b?a> cb=<c?b> ca=<c?a> acc=<xyz> gv=<xyz> kf=<xyz>
          results are lt|eq|gt|err|panic, or `unsup` for an ecosystem `Parse` does not know.
          acc = Parse accepted the string; gv = acceptedByCode (the code-defined domain on which transitivity is judged);
          kf = member of a known-finding class (Spec.Semantic.knownClass).
-/
import Scalibr.Base.Wire
import Scalibr.Spec.Semantic
import Scalibr.Spec.Semantic.Debian
import Scalibr.Spec.Semantic.PyPI
import Scalibr.Spec.Semantic.RubyGems
import Scalibr.Spec.Semantic.NuGet
import Scalibr.Spec.Semantic.Cran
import Scalibr.Spec.Semantic.RedHat
import Scalibr.Spec.Semantic.Alpine
import Scalibr.Spec.Semantic.Ecosystems
open Scalibr Scalibr.Semantic Scalibr.Wire

def decodeStr (h : String) : Option (List Char) :=
  if h = "-" then some [] else (strOfHex h).map (·.toList)

def ecoName (t : String) : String := String.ofList (t.toList.map fun c => if c = '_' then ' ' else c)

def flags (f : Fam) (xs : List (List Char)) : String :=
  let acc := String.join (xs.map fun s => boolStr (accepted f s))
  let gv := String.join (xs.map fun s => boolStr (acceptedByCode f s))
  let kf := String.join (xs.map fun s => boolStr (knownClass f s))
  s!"acc={acc} gv={gv} kf={kf}"

def flags2 (f : Fam) (xs : List (List Char)) : String :=
  let gv := String.join (xs.map fun s => boolStr (acceptedByCode f s))
  let kf := String.join (xs.map fun s => boolStr (knownClass f s))
  s!"gv={gv} kf={kf}"

def specStr (o : Ordering) : String := s!" spec={(Outcome.ofOrd o).str}"

/-- the published rule's verdict, when both strings read as canonical versions of the ecosystem -/
def specFields (f : Fam) (a b : List Char) : String :=
  match f with
  | .semver =>
    match specParse a, specParse b with
    | some x, some y => specStr (specCmp x y)
    | _, _ => ""
  | .debian =>
    match DebSpec.specParse a, DebSpec.specParse b with
    | some x, some y => specStr (DebSpec.specCmp x y)
    | _, _ => ""
  | .pypi =>
    match PepSpec.specParse a, PepSpec.specParse b with
    | some x, some y => specStr (PepSpec.specCmp x y)
    | _, _ => ""
  | .rubygems =>
    match RubySpec.specParse a, RubySpec.specParse b with
    | some x, some y => specStr (RubySpec.specCmp x y)
    | _, _ => ""
  | .nuget =>
    match NuGetSpec.specParse a, NuGetSpec.specParse b with
    | some x, some y => specStr (NuGetSpec.specCmp x y)
    | _, _ => ""
  | .cran =>
    match CranSpec.specParse a, CranSpec.specParse b with
    | some x, some y => specStr (CranSpec.specCmp x y)
    | _, _ => ""
  | .redhat =>
    match RpmSpec.specParse a, RpmSpec.specParse b with
    | some x, some y => specStr (RpmSpec.specCmp x y)
    | _, _ => ""
  | .alpine =>
    -- the documented suffix rule speaks about two versions that differ in their suffixes only
    match ApkSpec.specParse a, ApkSpec.specParse b with
    | some x, some y => if x.wf && y.wf && ApkSpec.sameBase x y then specStr (ApkSpec.specCmp x y) else ""
    | _, _ => ""
  | _ => ""

/-- what the SPECIFICATION's ecosystem table says: `sup` = the name is a documented ecosystem; `spec=` the
published rule's verdict under the DOCUMENTED rule of that name (not the one the model's `dispatch`
chose); `wit=` the documented example verdict when the pair is one of the ecosystem's examples -/
def ecoFields (eco : String) (a b : List Char) : String :=
  match ecosystemRule eco with
  | none => " sup=0"
  | some g =>
    let w := match witnessVerdict eco a b with
      | some o => s!" wit={o.str}"
      | none => ""
    s!" sup=1{specFields g a b}{w}"

/-- `MustParse`: returns the version when `Parse` does, panics with its error otherwise -/
def mpFlag (p : Option Fam) (s : List Char) : String :=
  match p with
  | none => "u"
  | some f =>
    match f.family.parse s with
    | .ok _ => "k"
    | .err => "e"
    | .panic => "p"

def handle (line : String) : String :=
  match line.splitOn " " with
  | ["cmp", eco, ha, hb] =>
    match decodeStr ha, decodeStr hb with
    | some a, some b =>
      match dispatch (ecoName eco) with
      | none => s!"r=unsup rr=unsup ra=unsup rb=unsup acc=00 mp=uu gv=00 kf=00{ecoFields (ecoName eco) a b}"
      | some f =>
        let F := f.family
        let pa := F.parse a
        let pb := F.parse b
        s!"r={(F.cmpParsed pa pb).str} rr={(F.cmpParsed pb pa).str} ra={(F.cmpParsed pa pa).str} rb={(F.cmpParsed pb pb).str} acc={boolStr (accepted f a)}{boolStr (accepted f b)} mp={mpFlag (some f) a}{mpFlag (some f) b} {flags2 f [a, b]}{ecoFields (ecoName eco) a b}"
    | _, _ => "bad-op"
  | ["tri", eco, ha, hb, hc] =>
    match decodeStr ha, decodeStr hb, decodeStr hc with
    | some a, some b, some c =>
      match dispatch (ecoName eco) with
      | none => "ab=unsup bc=unsup ac=unsup ba=unsup cb=unsup ca=unsup acc=000 gv=000 kf=000"
      | some f =>
        let F := f.family
        let pa := F.parse a
        let pb := F.parse b
        let pc := F.parse c
        s!"ab={(F.cmpParsed pa pb).str} bc={(F.cmpParsed pb pc).str} ac={(F.cmpParsed pa pc).str} ba={(F.cmpParsed pb pa).str} cb={(F.cmpParsed pc pb).str} ca={(F.cmpParsed pc pa).str} {flags f [a, b, c]}"
    | _, _, _ => "bad-op"
  | _ => "bad-op"

def main : IO Unit := serve handle
