/-
Line-protocol driver for C19 (model of plugin.ValidateRequirements, the list packages' filters and
name resolution, ScanConfig.EnableRequiredExtractors / ValidatePluginRequirements) over the
REGENERATED registry `Scalibr.Gen.Registry`.

caps / req  : four digits  <os 0..4><net 0..2><directFS 0|1><runningSystem 0|1>
kind        : fs | st | det
names       : hex strings joined by "," ("-" = empty list)
entry       : <hexname>/<req>/<hexrequired+hexrequired|->

requests and replies
  val <req> <caps>                         -> errs=<U,O,N,F,D,R|-> ok=<0|1> spec=<0|1>
  fromcaps <kind> <caps>                   -> names=<sorted names> spec=<sorted names>
  filterl <kind> <caps> <req;req;…|->      -> kept=<indices joined by ,|-> spec=<same>
  names <kind> <k|r> <names>               -> res=ok:<sorted entries joined by ,|-> | res=err:<hexname>     must=<0|1>
  name <kind> <hexname>                    -> res=ok:<entry> | res=unknown | res=notexact                    must=<0|1>
  pre <flt 0|1> <caps> <fs names> <st names> <det names>
                                           -> res=ok|missing:<hex>|invalid:<sorted names>|badname fs=<sorted names> st=<sorted names> must=<0|1>
  prer <shape n|r|v|rv|c [p]> <flt> <caps> <fs names> <st names> <det names>   (scan roots: none | real dir | virtual FS | both)
                                           -> same reply as pre, plus scan=<ok|prefail|noroot|other> of a real Scan over those roots
  pref <caps> <detector req> <required names>   (one hand-made detector, nothing else enabled)
                                           -> same reply as pre, must=0
  seq <kind> <l:req;req;… | n:names | c:caps> <caps;caps;…>   (one list filtered several times in a row)
                                           -> r=<results, '|'-separated> after=<the same results read again after all calls> input=<the list afterwards> sr= sinput=
  reqd <hex detector name>                 -> ok=<0|1> must=1
  uniq                                     -> n=<count> dup=<sorted duplicate names|-> must=1
-/
import Scalibr.Base.Wire
import Scalibr.Base.Sort
import Scalibr.Spec.Registry
import Scalibr.Gen.Registry
open Scalibr Scalibr.Registry Scalibr.Wire Scalibr.Gen.Registry

def osOf? : Char → Option OS
  | '0' => some .any | '1' => some .linux | '2' => some .windows | '3' => some .mac | '4' => some .unix | _ => none
def netOf? : Char → Option Net
  | '0' => some .any | '1' => some .offline | '2' => some .online | _ => none
def bOf? : Char → Option Bool
  | '0' => some false | '1' => some true | _ => none

def capsOf? (s : String) : Option Caps :=
  match s.toList with
  | [o, n, d, r] =>
    match osOf? o, netOf? n, bOf? d, bOf? r with
    | some o, some n, some d, some r => some ⟨o, n, d, r⟩
    | _, _, _, _ => none
  | _ => none

def osStr : OS → String
  | .any => "0" | .linux => "1" | .windows => "2" | .mac => "3" | .unix => "4"
def netStr : Net → String
  | .any => "0" | .offline => "1" | .online => "2"
def capsStr (c : Caps) : String := osStr c.os ++ netStr c.net ++ boolStr c.directFS ++ boolStr c.runningSystem

def errStr : ReqErr → String
  | .nonUnix => "U" | .otherOS => "O" | .needsNetwork => "N" | .onlyOffline => "F"
  | .needsDirectFS => "D" | .notRunningSystem => "R"

def hexE (s : String) : String := if s.isEmpty then "-" else hexOfStr s
def unhex? (s : String) : Option String := if s = "-" then some "" else strOfHex s

def sortStrs (xs : List String) : List String := isort (fun a b => decide (a < b)) xs

def entryStr (p : Plugin) : String :=
  s!"{hexE p.name}/{capsStr p.req}/{joinWith "+" (p.required.map hexE)}"

def namesStr (ps : List Plugin) : String := joinWith "," (sortStrs (ps.map fun p => hexE p.name))

def tablesOf? : String → Option (Table × Table)
  | "fs" => some (fsNames, fsAll)
  | "st" => some (stNames, stAll)
  | "det" => some (detNames, detAll)
  | _ => none

def namesOf? (s : String) : Option (List String) := (listOf s ",").mapM unhex?

def isKey (t : Table) (n : String) : Bool := (t.lookup n).isSome

def dups : List String → List String
  | [] => []
  | x :: xs => if xs.contains x then x :: dups xs else dups xs

/-- the six filesystem extractors for which the `enab` tree of c19gen holds exactly one required file -/
def enableFiles : List String :=
  ["python/wheelegg", "python/requirements", "javascript/packagejson", "go/gomod", "rust/cargolock", "os/dpkg"]

def handle (line : String) : String :=
  match line.splitOn " " with
  | ["val", r, c] =>
    match capsOf? r, capsOf? c with
    | some r, some c =>
      s!"errs={joinWith "," ((validateErrs r c).map errStr)} ok={boolStr (validate r c)} spec={boolStr (satisfied r c)}"
    | _, _ => "bad-op"
  | ["fromcaps", k, c] =>
    match tablesOf? k, capsOf? c with
    | some (_, all), some c =>
      s!"names={namesStr (fromCapabilities all c)} spec={namesStr (specFilter (allPlugins all) c)}"
    | _, _ => "bad-op"
  | ["filterl", k, c, rs] =>
    match tablesOf? k, capsOf? c, (listOf rs ";").mapM capsOf? with
    | some _, some c, some reqs =>
      let ps : List Plugin := (reqs.zip (List.range reqs.length)).map fun (r, i) => ⟨toString i, r, []⟩
      s!"kept={joinWith "," ((filterByCapabilities ps c).map (·.name))} spec={joinWith "," ((specFilter ps c).map (·.name))}"
    | _, _, _ => "bad-op"
  | ["names", k, mode, ns] =>
    match tablesOf? k, namesOf? ns with
    | some (t, _), some ns =>
      let must := boolStr (mode = "k" && ns.all (isKey t))
      if mode ≠ "k" && mode ≠ "r" then "bad-op" else
      -- SPECIFICATION of resolving a LIST: the set union of the SINGLE resolutions, no plugin twice (`ResolvesTo`)
      let singles := ns.map fun n => (n, fromNames t [n])
      let isErr : String × Except String (List Plugin) → Bool := fun x => match x.2 with | .error _ => true | .ok _ => false
      let sres := match singles.find? isErr with
        | some (n, _) => s!"err:{hexE n}"
        | none =>
          let es := singles.flatMap fun (x : String × Except String (List Plugin)) => match x.2 with | .ok ps => ps.map entryStr | .error _ => []
          s!"ok:{joinWith "," (sortStrs (es.foldl (fun acc e => if acc.contains e then acc else acc ++ [e]) []))}"
      match fromNames t ns with
      | .ok ps => s!"res=ok:{joinWith "," (sortStrs (ps.map entryStr))} must={must} sres={sres}"
      | .error n => s!"res=err:{hexE n} must={must} sres={sres}"
    | _, _ => "bad-op"
  | ["name", k, n] =>
    match tablesOf? k, unhex? n with
    | some (t, all), some n =>
      if k = "det" then "bad-op" else
      let must := boolStr ((allPlugins all).any fun p => p.name == n)
      match fromName t n with
      | .ok p => s!"res=ok:{entryStr p} must={must}"
      | .error .unknown => s!"res=unknown must={must}"
      | .error .notExact => s!"res=notexact must={must}"
    | _, _ => "bad-op"
  -- ONE filtered extractor list in TWO configurations (A enables first, then B). Model: `enableRequired` twice on the same (immutable)
  -- lists. SPECIFICATION (sena2): what A holds after B's call is what it held after its own
  | ["share", c, fsn, dan, dbn] =>
    match capsOf? c, namesOf? fsn, namesOf? dan, namesOf? dbn with
    | some c, some fsn, some dan, some dbn =>
      match fromNames fsNames fsn, fromNames stNames ["all"], fromNames detNames dan, fromNames detNames dbn with
      | .ok fs, .ok st, .ok da, .ok db =>
        let fs := filterByCapabilities fs c
        let st := filterByCapabilities st c
        let en := fun (dets : List Plugin) => match enableRequired fsNames stNames fs st dets with
          | .ok cfg => namesStr cfg.fs ++ "|" ++ namesStr cfg.st
          | .error _ => "err"
        s!"ena={en da} enb={en db} sena2={en da}"
      | _, _, _, _ => "ena=badname enb=badname sena2=badname"
    | _, _, _, _ => "bad-op"
  -- capabilities left nil. SPECIFICATION: nothing is known about the environment, so exactly the plugins without requirements pass
  -- (= validation against the zero value of Capabilities); never a panic
  | ["nilcaps", k, r] =>
    if k ≠ "val" ∧ k ≠ "flt" ∧ k ≠ "one" then "bad-op" else
    match capsOf? r with
    | some req => s!"snres={if validate req ⟨.any, .any, false, false⟩ then "ok" else "err"}"
    | none => "bad-op"
  -- the configuration binary/cli builds with --filter-by-capabilities. SPECIFICATION: plugins are configured from the flags and THEN
  -- filtered, so enabling the required extractors and validating the requirements succeeds, and no plugin is enabled twice
  | ["cli", _, _, _, _] => "scres=ok sdup=-"
  -- SPECIFICATION of govulncheck's network requirement: without a local vulnerability database it queries the online one (online = 2);
  -- with one it needs no network (any = 0)
  | ["govreq", db] => match unhex? db with
    | some p => s!"snet={if p.isEmpty then 2 else 0}"
    | none => "bad-op"
  | ["pre", flt, c, fsn, stn, dn] =>
    match boolOf? flt, capsOf? c, namesOf? fsn, namesOf? stn, namesOf? dn with
    | some flt, some c, some fsn, some stn, some dn =>
      match fromNames fsNames fsn, fromNames stNames stn, fromNames detNames dn with
      | .ok fs, .ok st, .ok dets =>
        let f := fun (ps : List Plugin) => if flt then filterByCapabilities ps c else ps
        let must := boolStr flt
        match precheck fsNames stNames (f fs) (f st) (f dets) c with
        | .ok fs' st' => s!"res=ok fs={namesStr fs'} st={namesStr st'} must={must}"
        | .missing e => s!"res=missing:{hexE e} fs=- st=- must={must}"
        | .invalid bad => s!"res=invalid:{joinWith "," (sortStrs (bad.map hexE))} fs=- st=- must={must}"
      | _, _, _ => "res=badname fs=- st=- must=0"
    | _, _, _, _, _ => "bad-op"
  -- the same check with scan roots of a given shape in the configuration, followed by a real Scan. SPECIFICATION: the outcome
  -- of requirement validation is a function of (capabilities, plugin requirements) only; the scan-root shape plays no part —
  -- except that, validation passed, a scan without any root stops with "no scan root specified"
  | ["prer", shape, flt, c, fsn, stn, dn] =>
    -- a trailing p: PathsToExtract is set; Scan refuses specific files with more than one scan root (after the two checks above)
    let paths := shape.endsWith "p" && shape ≠ "p"
    let shape := if paths then String.ofList (shape.toList.dropLast) else shape
    if shape ≠ "n" ∧ shape ≠ "r" ∧ shape ≠ "v" ∧ shape ≠ "rv" ∧ shape ≠ "c" ∧ shape ≠ "e" then "bad-op" else
    match boolOf? flt, capsOf? c, namesOf? fsn, namesOf? stn, namesOf? dn with
    | some flt, some c, some fsn, some stn, some dn =>
      match fromNames fsNames fsn, fromNames stNames stn, fromNames detNames dn with
      | .ok fs, .ok st, .ok dets =>
        let f := fun (ps : List Plugin) => if flt then filterByCapabilities ps c else ps
        let must := boolStr flt
        -- c: ScanContainer supplies exactly one root (the image's file system), whatever the configuration says
        let after := if shape = "n" then "noroot" else if paths && shape = "rv" then "severalroots" else "ok"
        -- e: an image without layers is refused by ScanContainer before Scan (and its precondition chain) is reached at all
        if shape = "e" then
          (match precheck fsNames stNames (f fs) (f st) (f dets) c with
           | .ok fs' st' => s!"res=ok fs={namesStr fs'} st={namesStr st'} scan=nolayers must={must}"
           | .missing e => s!"res=missing:{hexE e} fs=- st=- scan=nolayers must={must}"
           | .invalid bad => s!"res=invalid:{joinWith "," (sortStrs (bad.map hexE))} fs=- st=- scan=nolayers must={must}")
        else
        match precheck fsNames stNames (f fs) (f st) (f dets) c with
        | .ok fs' st' => s!"res=ok fs={namesStr fs'} st={namesStr st'} scan={after} must={must}"
        | .missing e => s!"res=missing:{hexE e} fs=- st=- scan=prefail must={must}"
        | .invalid bad => s!"res=invalid:{joinWith "," (sortStrs (bad.map hexE))} fs=- st=- scan=prefail must={must}"
      | _, _, _ => "res=badname fs=- st=- scan=- must=0"
    | _, _, _, _, _ => "bad-op"
  -- auto-enabling observed through a real Scan (harness/cmd/c19gen/enable.go). Model: `enableRequired` over the regenerated
  -- tables. SPECIFICATION (sen): explicit lists, then the required names not enabled yet, each once, in order of first
  -- occurrence (`firstNew`), in the list(s) whose table knows the name; one Extract call per enabled extractor that has a
  -- file in the tree, no package twice, one status entry per enabled plugin
  | ["enab", fsx, stx, ds] =>
    match namesOf? fsx, namesOf? stx, (ds.splitOn "|").mapM namesOf? with
    | some fsx, some stx, some reqs =>
      let one := fun (t : Table) (n : String) => match fromName t n with | .ok p => some p | .error _ => none
      match fsx.mapM (one fsNames), stx.mapM (one stNames) with
      | some fs, some st =>
        let dets : List Plugin := (reqs.zip (List.range reqs.length)).map fun (r, i) => ⟨s!"fd{i}", ⟨.any, .any, false, false⟩, r⟩
        let enStr := fun (a b : List String) => joinWith "," (a.map hexE) ++ "|" ++ joinWith "," (b.map hexE)
        -- specification, on names
        let fresh := firstNew (fsx ++ stx) (reqs.flatMap id)
        let unknown := fresh.find? fun n => (one fsNames n).isNone && (one stNames n).isNone
        let sfs := fsx ++ fresh.filter fun n => (one fsNames n).isSome
        let sst := stx ++ fresh.filter fun n => (one stNames n).isSome
        let cnt := fun (xs : List String) => joinWith "," (sortStrs (xs.map fun n => s!"{hexE n}:1"))
        let spec := match unknown with
          | some n => s!"sres=missing:{hexE n} sen=-|- scalls=- sstat=-"
          | none => s!"sres=ok sen={enStr sfs sst} scalls={cnt (sfs.filter enableFiles.contains)} " ++
                    s!"sstat={cnt (sfs ++ sst ++ dets.map (fun (d : Plugin) => d.name))}"
        match enableRequired fsNames stNames fs st dets with
        | .ok c =>
          let f := c.fs.map (·.name)
          s!"res=ok en={enStr f (c.st.map (·.name))} calls={cnt (f.filter enableFiles.contains)} dup=0 " ++
          s!"stat={cnt (f ++ c.st.map (·.name) ++ dets.map (fun (d : Plugin) => d.name))} scan=ok {spec}"
        | .error e => s!"res=missing:{hexE e} en=-|- calls=- dup=0 stat=- scan=failed {spec}"
      | _, _ => "res=badname"
    | _, _, _ => "bad-op"
  | ["pref", c, dr, ns] =>
    match capsOf? c, capsOf? dr, namesOf? ns with
    | some c, some dr, some ns =>
      match precheck fsNames stNames [] [] [⟨"fakedet", dr, ns⟩] c with
      | .ok fs' st' => s!"res=ok fs={namesStr fs'} st={namesStr st'} must=0"
      | .missing e => s!"res=missing:{hexE e} fs=- st=- must=0"
      | .invalid bad => s!"res=invalid:{joinWith "," (sortStrs (bad.map hexE))} fs=- st=- must=0"
    | _, _, _ => "bad-op"
  -- operation sequences: one plugin list filtered with several capability tuples in a row. The model's filter is a pure
  -- function, so every call's result (r), every result re-read later (after) and the input list (input) are what they are
  | ["seq", k, src, cs] =>
    match tablesOf? k, (cs.splitOn ";").mapM capsOf? with
    | some (t, all), some capsSeq =>
      let arg := String.ofList (src.toList.drop 2)
      let input : Option (List Plugin × Bool) :=
        if src.startsWith "l:" then
          ((listOf arg ";").mapM capsOf?).map fun reqs =>
            ((reqs.zip (List.range reqs.length)).map (fun (r, i) => (⟨toString i, r, []⟩ : Plugin)), false)
        else if src.startsWith "n:" then
          match namesOf? arg with
          | some ns => (match fromNames t ns with | .ok ps => some (ps, true) | .error _ => none)
          | none => none
        else if src.startsWith "c:" then (capsOf? arg).map fun c => (fromCapabilities all c, true)
        else none
      match input with
      | some (ps, sorted) =>
        let nm := fun (xs : List Plugin) => if sorted then namesStr xs else joinWith "," (xs.map (·.name))
        let rs := "|".intercalate (capsSeq.map fun c => nm (filterByCapabilities ps c))
        let sp := "|".intercalate (capsSeq.map fun c => nm (specFilter ps c))
        s!"r={rs} after={rs} input={nm ps} sr={sp} sinput={nm ps}"
      | none => "res=badname"
    | _, _ => "bad-op"
  | ["reqd", d] =>
    match unhex? d with
    | some d =>
      match (allPlugins detAll).find? (fun p => p.name == d) with
      | some p => s!"ok={boolStr (p.required.all fun e => requiredOKB fsNames stNames p.req e)} must=1"
      | none => "ok=unknown must=1"
    | none => "bad-op"
  | ["uniq"] =>
    let ns := (allPlugins fsAll ++ allPlugins stAll ++ allPlugins detAll).map (·.name)
    s!"n={ns.length} dup={joinWith "," (sortStrs ((dups ns).map hexE))} must=1"
  | _ => "bad-op"

def main : IO Unit := serve handle
