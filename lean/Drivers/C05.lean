/-
Line-protocol driver for C05.
request : trace <H|N|S|G> <nfiles> [c<k>|-] <layer>,<layer>,…
          layer = E (history entry with EmptyLayer)  |  L/<op>/<op>…  (one op per file)
          op    = k (file untouched) | d (whiteout) | w<digits> (file rewritten with these packages, in this order;
                  a digit d in 1..8 is the package p<(d-1)%4+1> at version (d-1)/4+1: ids d and d+4 share their name)
                | s<digits> (location replaced by a symlink to a list with these packages)
                | t<digits> (the location is a symlink: this layer rewrites the link's TARGET, not the link)
                | l<n> / h<n> (that directory is replaced by a symlink / hard link to another directory)
                | a<n> / r<n> (the directory n levels above the file — the files sit up to three directories deep
                  — is deleted by a whiteout / replaced by a regular file; every file below goes)
          c<k>  = the context is cancelled once the trace has made k re-extractions; c0 = a detector cancels it after the
                  extraction of the final view and before the trace starts; - or absent = never
          history mode (an appended p: the extractor's ToPURL returns nil; identity is then name and version, same answers): H = one history entry per layer (CreatedBy "cmd<i>"), N = no history, S = last entry dropped,
          G = one extra non-empty entry appended
reply   : n=<chain layers> pk=<tok>,<tok>…  spec=<tok>,…  al=<ord|e>:<hex cmd|->,…   (pk/spec sorted; "-" when empty)
          al = the chain layers the SPECIFICATION prescribes (`Spec.specChain`), one entry per chain layer in order:
               ordinal of its v1 layer (e = empty layer) and its command; the check holds the implementation's
               DiffID/Command against it
          pk   tok = f<file>p<pkg>@<index>:<v1 layer ordinal | e>:<hex command | ->   or f<file>p<pkg>@nil (no LayerDetails);
                     sa@nil = the package of the harness' standalone extractor, which the trace must leave alone
          spec tok = f<file>p<pkg>@<least L with the package in every view L..last>
          or `loaderr` when the history cannot be aligned, `scanerr` when there is no chain layer at all
-/
import Scalibr.Base.Wire
import Scalibr.Base.Sort
import Scalibr.Spec.Trace
import Scalibr.Model.TraceSize
open Scalibr Scalibr.Trace Scalibr.Wire

/-- an op as written in the case: an op on the file itself, or `a<n>` / `r<n>`: the directory `n` levels
above the file is deleted (whiteout) / replaced by a regular file -/
inductive ROp | own (o : Op) | anc (n : Nat) | retarget (ps : List Pkg)

def parseOp (s : String) : Option ROp :=
  if s = "k" then some (.own .keep)
  else if s = "d" then some (.own .delete)
  else match s.toList with
    | 'w' :: ds => (ds.mapM fun (c : Char) => if c.isDigit then some (c.toNat - 48) else none).map (ROp.own ∘ Op.write)
    | 's' :: ds => (ds.mapM fun (c : Char) => if c.isDigit then some (c.toNat - 48) else none).map (ROp.own ∘ Op.link)
    | 't' :: ds => (ds.mapM fun (c : Char) => if c.isDigit then some (c.toNat - 48) else none).map ROp.retarget
    | ['a', d] => if '1' ≤ d ∧ d ≤ '9' then some (.anc (d.toNat - 48)) else none
    | ['r', d] => if '1' ≤ d ∧ d ≤ '9' then some (.anc (d.toNat - 48)) else none
    -- l<n> / h<n>: the directory n levels up is replaced by a symlink / hard link to another directory: like r<n>, the path
    -- is no longer a directory, so everything older layers have below it is gone
    | ['l', d] => if '1' ≤ d ∧ d ≤ '9' then some (.anc (d.toNat - 48)) else none
    | ['h', d] => if '1' ≤ d ∧ d ≤ '9' then some (.anc (d.toNat - 48)) else none
    | _ => none

/-- the directories of the harness' files: 0 = var/lib/a/pkgs.list, 1 = usr/share/b/pkgs.list, 2 = opt/pkgs.list
(no two files share an ancestor directory: see the generator) -/
def fileDir (f : Nat) : List String :=
  if f = 0 then ["var", "lib", "a"] else if f = 1 then ["usr", "share", "b"] else ["opt"]

/-- the directory `n` levels above file `f` (n = 1: its own directory) -/
def ancestorDir (f n : Nat) : Option (List String) :=
  let d := fileDir f
  if 1 ≤ n ∧ n ≤ d.length then some (d.take (d.length - (n - 1))) else none

/-- What a layer does to each file, as the OCI rule reads the tar: a deleted or replaced directory takes
every file below it along. `none`: the case is not well formed (no such ancestor, or a file re-created in
the very layer that deletes a directory above it — the result would depend on the tar order, C04's matter). -/
def effective (ops : List ROp) : Option (List (Op × Bool)) :=
  let gone : List (List String) := (List.range ops.length).filterMap fun g =>
    match ops[g]? with
    | some (ROp.anc n) => ancestorDir g n
    | _ => none
  let wf := (List.range ops.length).all fun g =>
    match ops[g]? with
    | some (ROp.anc n) => (ancestorDir g n).isSome
    | _ => true
  if !wf then none else
  (List.range ops.length).mapM fun f =>
    let hit := gone.any fun d => d.isPrefixOf (fileDir f)
    -- second component: does the layer's own diff have an entry AT the location (what filesExistInLayer sees)?
    match ops[f]? with
    | some (ROp.own o) =>
      if hit then (match o with | Op.keep => some (Op.delete, false) | Op.delete => some (Op.delete, false) | _ => none)
      else some (o, match o with | Op.write _ => true | Op.link _ => true | _ => false)
    | some (ROp.anc _) => some (Op.delete, false)
    -- t<digits>: the location is a symlink and this layer rewrites its TARGET: the view at the location changes, the
    -- layer's diff has nothing at the location
    | some (ROp.retarget ps) => if hit then none else some (Op.link ps, false)
    | none => none

/-- a layer: none = empty history entry, some ops = one op per file -/
def parseLayer (nf : Nat) (s : String) : Option (Option (List (Op × Bool))) :=
  if s = "E" then some none
  else match s.splitOn "/" with
    | "L" :: ops => if ops.length = nf then ((ops.mapM parseOp).bind effective).map some else none
    | _ => none

def sortStr (xs : List String) : List String := isort (fun a b => decide (a < b)) xs

/-- `sortResults` orders the inventory by name, then by location; the harness' files are
0 = var/lib/a/pkgs.list, 1 = usr/share/b/pkgs.list, 2 = opt/pkgs.list, so by path: 2 < 1 < 0 -/
def fileRank (f : Nat) : Nat := if f = 0 then 2 else if f = 1 then 1 else 0

/-- a package id is a (name, version) pair with SHARED names: id d and id d+4 are name p<(d-1)%4+1> at
versions 1 and 2 (purls that differ only in the version). The model's `Pkg` equality is purl equality. -/
def pkgName (p : Pkg) : Nat := (p - 1) % 4
def pkgVersion (p : Pkg) : Nat := (p - 1) / 4

/-- `CmpPackages`: name, then version, then extractor name, then location (file ids ≥ nf: the second extractor) -/
def pkgLt (nf : Nat) (a b : Nat × Pkg) : Bool :=
  let nf := if nf = 0 then 1 else nf
  let ka := [pkgName a.2, pkgVersion a.2, a.1 / nf, fileRank (a.1 % nf)]
  let kb := [pkgName b.2, pkgVersion b.2, b.1 / nf, fileRank (b.1 % nf)]
  decide (ka < kb)

def parseCancel (s : String) : Option (Option Nat) :=
  if s = "-" then some none
  else match s.toList with
    | 'c' :: ds => (String.ofList ds).toNat?.map some
    | _ => none

def run (mode0 : String) (nf : Nat) (cancelAt : Option Nat) (ls : String) : String :=
      let mode := (mode0.take 1).toString
      match (listOf ls ",").mapM (parseLayer nf) with
      | none => "bad-op"
      | some layers =>
        let full : List HEntry := (List.range layers.length).map fun i =>
          ⟨(layers.getD i none).isNone, s!"cmd{i}"⟩
        let hist := if mode = "H" then full else if mode = "N" then []
          else if mode = "G" then full ++ [⟨false, "ghost"⟩] else full.dropLast
        let v1 : List (List (Op × Bool)) := layers.filterMap id
        match initChain v1.length hist with
        | none => "loaderr"
        | some cms =>
          let n := cms.length
          if n = 0 then "scanerr" else     -- ScanContainer: "no chain layers found"
          -- the model's "file" is the trace's cache key (location, extractor): with a second extractor reading the same
          -- files (mode letter x) the ids nf … 2nf-1 are the same locations as seen by that extractor
          let two := mode0.toList.contains 'x'
          let img : Nat → History := fun f => chainHistory cms (v1.map fun ops => (ops.getD (f % nf) (.keep, false)).1)
          let diff : Nat → Nat → Bool := fun f i =>
            match (cms[i]?).bind (·.layer) with
            | some k => ((v1.getD k []).getD (f % nf) (.keep, false)).2
            | none => false
          let pkgs : List (Nat × Pkg) := isort (pkgLt nf) ((List.range (if two then 2 * nf else nf)).flatMap fun f =>
            ((viewAt (img f) (n - 1)).getD []).map fun p => (f, p))
          let tag (f : Nat) : String := if f < nf then s!"f{f}" else s!"g{f - nf}"
          let origins := populate img diff cancelAt pkgs St.empty
          let toks := (pkgs.zip origins).map fun ((f, p), o) =>
            match o with
            | none => s!"{tag f}p{p}@nil"
            | some o =>
              match details cms o with
              | some (i, l, c) =>
                s!"{tag f}p{p}@{i}:{match l with | some k => toString k | none => "e"}:{if c = "" then "-" else hexOfStr c}"
              | none => s!"{tag f}p{p}@?"
          let spec := pkgs.map fun (f, p) =>
            match originSpec (img f) p with
            | some L => s!"{tag f}p{p}@{L}"
            | none => s!"{tag f}p{p}@none"
          -- the harness also runs a standalone extractor reporting one package "sa" (with a location): not traceable
          let toks := if mode0.toList.contains 's' then toks else toks ++ [if traceable false 1 then "sa@?" else "sa@nil"]
          let al := (specChain v1.length hist).map fun cm =>
            s!"{match cm.layer with | some k => toString k | none => "e"}:{if cm.cmd = "" then "-" else hexOfStr cm.cmd}"
          s!"n={n} pk={joinWith "," (sortStr toks)} spec={joinWith "," (sortStr spec)} al={joinWith "," al}"

def handle (line : String) : String :=
  -- a trailing p: the extractor has no PURL for its packages; identity is then name and version, which is what
  -- the ids stand for anyway, so the answers are the same
  -- after the history letter: p (PURL-less extractor) and one of i m e s: what goes wrong AFTER the extraction of the final
  -- view (inconsistent advisories, a finding without advisory, a failing detector, a failing standalone extractor).
  -- None of it may change the attribution; s only takes the standalone extractor's own package away.
  -- x: a second extractor reads the same files and reports the same packages under other PURLs (tokens g<file>p<pkg>).
  let okMode (m : String) := match m.toList with
    | h :: fl => "HNSG".toList.contains h && fl.all (fun c => "pimesx".toList.contains c)
    | [] => false
  match line.splitOn " " with
  | ["trace", mode, nf, ls] =>
    match nf.toNat? with
    | some nf => if okMode mode then run mode nf none ls else "bad-op"
    | none => "bad-op"
  | ["trace", mode, nf, c, ls] =>
    match nf.toNat?, parseCancel c with
    | some nf, some cancelAt => if okMode mode then run mode nf cancelAt ls else "bad-op"
    | _, _ => "bad-op"
  | _ => "bad-op"

/-- the `sizes` stream (verdict: C10): `sz <limit> <maxinodes> <op>,…` with op = E | k | d | w<bytes>.
reply: sizes=<bytes handed to each Extract call, in call order> runs=<inode visits of the trace's re-runs> bound=<limit | -> : the model's prediction and
the specification's bound (every size handed to an extractor is at most the limit, when one is set) -/
def handleSizes (limit : Nat) (ops : String) : String :=
  let parse (s : String) : Option TraceSize.SOp :=
    if s = "E" || s = "k" then some .keep
    else if s = "d" then some .delete
    else match s.toList with
      | 'w' :: ds => (String.ofList ds).toNat?.map TraceSize.SOp.write
      | _ => none
  match (listOf ops ",").mapM parse with
  | none => "bad-op"
  | some h =>
    if h.isEmpty then "scanerr" else
    let sizes := TraceSize.handed limit h
    s!"sizes={joinWith "." (sizes.map toString)} runs={TraceSize.traceInodes limit h} bound={if limit = 0 then "-" else toString limit}"

def handleAll (line : String) : String :=
  match line.splitOn " " with
  | ["sz", limit, inodes, ops] =>
    (match limit.toNat?, inodes.toNat? with
     | some limit, some _ => handleSizes limit ops
     | _, _ => "bad-op")
  | _ => handle line

def main : IO Unit := serve handleAll
