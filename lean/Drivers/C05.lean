/-
Line-protocol driver for C05.
request : trace <H|N|S> <nfiles> <layer>,<layer>,…
          layer = E (history entry with EmptyLayer)  |  L/<op>/<op>…  (one op per file)
          op    = k (file untouched) | d (whiteout) | w<digits> (file rewritten with these packages, in this order)
          history mode: H = one history entry per layer (CreatedBy "cmd<i>"), N = no history, S = last entry dropped
reply   : n=<chain layers> pk=<tok>,<tok>…  spec=<tok>,…      (sorted; "-" when empty)
          pk   tok = f<file>p<pkg>@<index>:<v1 layer ordinal | e>:<hex command | ->
          spec tok = f<file>p<pkg>@<least L with the package in every view L..last>
          or `loaderr` when the history cannot be aligned, `scanerr` when there is no chain layer at all
-/
import Scalibr.Base.Wire
import Scalibr.Base.Sort
import Scalibr.Spec.Trace
open Scalibr Scalibr.Trace Scalibr.Wire

def parseOp (s : String) : Option Op :=
  if s = "k" then some .keep
  else if s = "d" then some .delete
  else match s.toList with
    | 'w' :: ds => (ds.mapM fun (c : Char) => if c.isDigit then some (c.toNat - 48) else none).map Op.write
    | _ => none

/-- a layer: none = empty history entry, some ops = one op per file -/
def parseLayer (nf : Nat) (s : String) : Option (Option (List Op)) :=
  if s = "E" then some none
  else match s.splitOn "/" with
    | "L" :: ops => if ops.length = nf then (ops.mapM parseOp).map some else none
    | _ => none

def sortStr (xs : List String) : List String := isort (fun a b => decide (a < b)) xs

def handle (line : String) : String :=
  match line.splitOn " " with
  | ["trace", mode, nf, ls] =>
    match nf.toNat?, (if mode = "H" || mode = "N" || mode = "S" then some mode else none) with
    | some nf, some mode =>
      match (listOf ls ",").mapM (parseLayer nf) with
      | none => "bad-op"
      | some layers =>
        let full : List HEntry := (List.range layers.length).map fun i =>
          ⟨(layers.getD i none).isNone, s!"cmd{i}"⟩
        let hist := if mode = "H" then full else if mode = "N" then [] else full.dropLast
        let v1 : List (List Op) := layers.filterMap id
        match initChain v1.length hist with
        | none => "loaderr"
        | some cms =>
          let n := cms.length
          if n = 0 then "scanerr" else     -- ScanContainer: "no chain layers found"
          let img : Nat → History := fun f => chainHistory cms (v1.map fun ops => ops.getD f .keep)
          let pkgs : List (Nat × Pkg) := (List.range nf).flatMap fun f =>
            ((viewAt (img f) (n - 1)).getD []).map fun p => (f, p)
          let origins := populate img (fun _ => false) pkgs Cache.empty
          let toks := (pkgs.zip origins).map fun ((f, p), o) =>
            match details cms o with
            | some (i, l, c) =>
              s!"f{f}p{p}@{i}:{match l with | some k => toString k | none => "e"}:{if c = "" then "-" else hexOfStr c}"
            | none => s!"f{f}p{p}@?"
          let spec := pkgs.map fun (f, p) =>
            match originSpec (img f) p with
            | some L => s!"f{f}p{p}@{L}"
            | none => s!"f{f}p{p}@none"
          s!"n={n} pk={joinWith "," (sortStr toks)} spec={joinWith "," (sortStr spec)}"
    | _, _ => "bad-op"
  | _ => "bad-op"

def main : IO Unit := serve handle
