/-
Line-protocol driver for C12.
  cp <maxUpgrades> <noIntroduce> <vuln ids .> <patches ;>   patch = n.f.t+n.f.t/fixed ./introduced .
      → sel=<chosen patches> un=<id:0|1 , sorted by id>
  cd <old ids .> <new ids .> <old reqs name.alias:v ,> <new reqs name.alias:v ,>
      → fixed=<ids . sorted> intro=<ids . sorted> ups=<name.alias:from|-:to , sorted>
  e2e2 <k> <explicit .> <orig .> <np> <fixed .> <intro .> <after .> <unfix .> <reqsame 0|1>
       <entries before name.alias:v ,> <entries after> <reported updates name.alias:from|-:to ,>
      (built by the check from the IMPLEMENTATION's observations) → spec=1 | spec=0 why=<token>, then cls=<known class|->
-/
import Scalibr.Base.Wire
import Scalibr.Spec.Pipeline
import Scalibr.Spec.EntryPoints
open Scalibr Scalibr.Wire Scalibr.Pipeline

def natsOf (s : String) : Option (List Nat) := (listOf s ".").mapM (·.toNat?)
def showNats (l : List Nat) : String := joinWith "." (l.map toString)
def sortNats (l : List Nat) : List Nat := (l.toArray.qsort (· < ·)).toList
def sortStrs (l : List String) : List String := (l.toArray.qsort (· < ·)).toList

def parsePatch (s : String) : Option Patch :=
  match s.splitOn "/" with
  | [us, fx, ins] => do
    let ups ← (listOf us "+").mapM fun u => do
      match ← natsOf u with
      | [n, f, t] => some (⟨n, f, t⟩ : Update)
      | _ => none
    some ⟨ups, ← natsOf fx, ← natsOf ins⟩
  | _ => none

def showPatch (p : Patch) : String :=
  joinWith "+" (p.updates.map fun u => s!"{u.name}.{u.frm}.{u.to}") ++ "/" ++ showNats p.fixed ++ "/" ++ showNats p.introduced

def parseKey (s : String) : Option Key :=
  match s.splitOn "." with
  | [k, a] => match k.toNat?, a.toNat? with | some k, some a => some (k, a) | _, _ => none
  | _ => none

def showKey (k : Key) : String := s!"{k.1}.{k.2}"

/-- requirement entries `name.alias:version` -/
def parseReqs (s : String) : Option (List (Key × Nat)) :=
  (listOf s ",").mapM fun e => match e.splitOn ":" with
    | [k, v] => match parseKey k, v.toNat? with | some k, some v => some (k, v) | _, _ => none
    | _ => none

/-- updates `name.alias:from|-:to` -/
def parseUps (s : String) : Option (List ReqUpdate) :=
  (listOf s ",").mapM fun e => match e.splitOn ":" with
    | [k, f, t] => match parseKey k, t.toNat? with
      | some k, some t => if f = "-" then some ⟨k, none, t⟩ else (f.toNat?).map fun f => ⟨k, some f, t⟩
      | _, _ => none
    | _ => none

def showReqs (rs : List (Key × Nat)) : String := joinWith "," (sortStrs (rs.map fun (k, v) => s!"{showKey k}:{v}"))

def handleCP (k ni vs ps : String) : String :=
  match k.toInt?, boolOf? ni, natsOf vs, (listOf ps ";").mapM parsePatch with
  | some k, some ni, some vs, some ps =>
    let sel := choosePatches ps k ni
    let un := (computeVulnsResult vs ps).toArray.qsort (fun a b => a.1 < b.1) |>.toList
    s!"sel={joinWith ";" (sel.map showPatch)} un={joinWith "," (un.map fun (v, b) => s!"{v}:{boolStr b}")}"
  | _, _, _, _ => "bad-op"

def handleCD (o n orq nrq : String) : String :=
  match natsOf o, natsOf n, parseReqs orq, parseReqs nrq with
  | some o, some n, some orq, some nrq =>
    let (fx, ins) := vulnDiff o n
    let ups := (reqDiff orq nrq).map fun u => s!"{showKey u.key}:{match u.frm with | some f => toString f | none => "-"}:{u.to}"
    s!"fixed={showNats (sortNats fx)} intro={showNats (sortNats ins)} ups={joinWith "," (sortStrs ups).eraseDups}"
  | _, _, _, _ => "bad-op"

def sameSet (a b : List Nat) : Bool := a.all b.contains && b.all a.contains

def judgeE2E (orig : List Nat) (np : Nat) (fx ins after unfix : List Nat) (reqsame : Bool) : String :=
    if !unfix.isEmpty then "spec=0 why=fixed-vulnerability-marked-unactionable"
    else if np = 0 then
      (if !reqsame then "spec=0 why=no-patch-but-requirements-changed"
       else if !sameSet after orig then "spec=0 why=no-patch-but-vulnerabilities-changed" else "spec=1")
    else if np = 1 then
      let dom := orig ++ fx ++ ins ++ after
      if dom.all fun v => after.contains v == expectedAfter orig fx ins v then "spec=1"
      else "spec=0 why=reanalysis-differs-from-original-minus-fixed-plus-introduced"
    else "spec=1"   -- several patches applied together: the property states the equation for a single patch only; the
                    -- unactionable rule above and the written-as-reported check below still apply

/-- "every reported PackageUpdate is applied in the written file", per manifest ENTRY: the re-read
requirement entries are the original entries with the reported updates substituted (an update with no
old version is an added entry) -/
def writtenAsReported (before after : List (Key × Nat)) (ups : List ReqUpdate) : Bool :=
  let adds := (ups.filter (·.frm.isNone)).map fun u => (u.key, u.to)
  showReqs after == showReqs (applyUpdates before ups ++ adds)

/-- known class: ExplicitVulns is set and the patch reports as introduced a vulnerability outside it -/
def handleE2E (k expl orig np fx ins after unfix reqsame rb ra ru : String) : String :=
  match k.toInt?, natsOf expl, natsOf orig, np.toNat?, natsOf fx, natsOf ins, natsOf after, natsOf unfix, boolOf? reqsame,
        parseReqs rb, parseReqs ra, parseUps ru with
  | some _, some expl, some orig, some np, some fx, some ins, some after, some unfix, some reqsame, some rb, some ra, some ru =>
    let cls := if !expl.isEmpty && ins.any (fun v => !expl.contains v) then "C12/explicit-vulns-introduced" else "-"
    let j := judgeE2E orig np fx ins after unfix reqsame
    let j := if j = "spec=1" && !writtenAsReported rb ra ru then "spec=0 why=written-manifest-differs-from-original-with-the-reported-updates-substituted" else j
    j ++ " cls=" ++ cls
  | _, _, _, _, _, _, _, _, _, _, _, _ => "bad-op"

/-- `ep <kind>`: what Spec.EntryPoints asks of the call -/
def handleEp (k : Nat) : String :=
  match Scalibr.EntryPoints.want k with
  | some .refuse => "r=ok want=refuse"
  | some .succeed => "r=ok want=succeed"
  | some .flagged => "r=ok want=flagged"
  | none => "bad-op"

def handle (line : String) : String :=
  match line.splitOn " " with
  | ["cp", k, ni, vs, ps] => handleCP k ni vs ps
  | ["cd", o, n, orq, nrq] => handleCD o n orq nrq
  | ["ep", k] => (match k.toNat? with | some k => handleEp k | none => "bad-op")
  | ["e2e2", k, expl, orig, np, fx, ins, after, unfix, reqsame, rb, ra, ru] => handleE2E k expl orig np fx ins after unfix reqsame rb ra ru
  | _ => "bad-op"

def main : IO Unit := serve handle
