/-
Line-protocol driver for C04 (and the layer byte-limit clause of C10).
request : ov <MaxFileBytes> <req> <hist> <probes> <layers>          (grammar: harness/cmd/c04gen/main.go)
reply   : err=1 | err=0 nv=<n> walk=<views> look=<views> spec_walk=<views> spec_look=<views>
          wf=<one 0/1 per view> cls=<failing clauses per view> dec=<0|1> fw=<0|1> sz=<0|1>
          dd=<0|1> alt_wf=<one of - 0 1 per view> alt_walk=<views> alt_look=<views>
  mt            : per view, the regular files with the modification time of the node's entry (generator: (cid mod 26)*1000 + size)
  walk/look     : the model of image.FromV1Image (literal lock-step loader, final-view pruning)
  spec_walk/... : the OCI visibility rule (for the last view restricted to the needed files)
  wf            : hypothesis H of C04_view_partial per view (and: reading the rejected entries as whiteouts changes nothing in
                  that view);  cls: which clauses fail (rejected-shadow: a rejected entry has something older at or beneath its
                  path; rejected-parents: only the directories it implies differ)
  dec           : the one-view-at-a-time formulation `viewOf` agrees with the literal loader on every path
  fw            : the forward fold `ociApply` agrees with the visibility rule on every view where H holds
  sz            : no file node of any view has size ≥ MaxFileBytes (C10_layer_bytes on the model)
  alt_*         : views whose tars repeat a member name: H and the OCI rule on the image with the repeats left out
                  (`dedupFirst`: the first entry counts); '-' no repeated name, `~` not computed (alt_wf ≠ 1)
  dd            : the model's view of the image is its view of the image with the repeats left out, wherever alt_wf = 1
-/
import Scalibr.Base.Wire
import Scalibr.Model.OverlayImage
import Scalibr.Spec.Overlay
import Scalibr.Spec.OverlayRequired
import Scalibr.Spec.OverlayRejected
open Scalibr Scalibr.Wire Scalibr.Overlay Scalibr.GoPath

def hexS (s : String) : String := if s = "" then "-" else hexOfStr s
def unhexS (s : String) : Option String := if s = "-" || s = "" then some "" else strOfHex s

def octal (n : Nat) : String := String.ofList (Nat.toDigits 8 n)

def parseOctal (s : String) : Option Nat :=
  s.toList.foldl (fun acc c => match acc with
    | none => none
    | some a => if '0' ≤ c ∧ c ≤ '7' then some (a * 8 + (c.toNat - 48)) else none) (some 0)

def parseEntry (s : String) : Option RawEntry :=
  match s.splitOn ":" with
  | [t, name, mode, size, cid, link] =>
    match t.toList, unhexS name, parseOctal mode, size.toNat?, cid.toNat?, unhexS link with
    | [c], some name, some mode, some size, some cid, some link => some ⟨c, name, mode, size, cid, link⟩
    | _, _, _, _, _, _ => none
  | _ => none

def parseLayer (s : String) : Option (List RawEntry) := (listOf s ";").mapM parseEntry

def sortStrings (l : List String) : List String := (l.toArray.qsort (· < ·)).toList

def bytesContent (bs : List Nat) : String :=
  match bs with
  | [] => "e"
  | b :: rest => if rest.all (· == b) then s!"c{b % 26}n{bs.length}" else s!"m{bs.length}"

def targetStr (t : List String) : String := renderAbs t

/-- one node as the harness prints it; `content` renders a regular file's body -/
def itemOf (content : Path → Node → String) (q : Path) (n : Node) : String :=
  match n.kind with
  | .dir => s!"d:{octal n.mode}:{n.size}:-"
  | .file => s!"f:{octal n.mode}:{n.size}:{content q n}"
  | .link => s!"l:{octal n.mode}:{n.size}:{hexS (targetStr n.target)}"

def relStr (q : Path) : String := "/".intercalate q

def walkListing (U : List Path) (content : Path → Node → String) (t : Tree) : String :=
  let items := (walkAll U t).filterMap fun q =>
    match t q with
    | some n => some (hexS (relStr q) ++ ":" ++ itemOf content q n)
    | none => none
  joinWith "," (sortStrings items)

def lookListing (probes : List Path) (content : Path → Node → String) (t : Tree) : String :=
  joinWith "," (probes.map fun q =>
    match t q with
    | some n => if n.wh then "-" else itemOf content q n
    | none => "-")

def probeSegs (p : String) : Path := if p = "." || p = "" then [] else p.splitOn "/"

def prefixesOf (p : Path) : List Path := (List.range (p.length + 1)).map p.take

def specContent (_ : Path) (n : Node) : String := if n.size = 0 then "e" else s!"c{n.cid % 26}n{n.size}"

/-- a file rejected for its size leaves bytes in the layer directory; when the same tar names that path again the
accepted file is written over them without truncation. Duplicate member names: ill-formed, outside `H`'s scope
(`H` speaks about nodes, this is about the bytes behind a node). -/
def bigDup (l : List PEntry) : Bool :=
  l.any fun b => b.act = Act.big && (l.filter fun x => x.real == b.real).length ≥ 2

def handle (line : String) : String :=
  match line.splitOn " " with
  | ["ov", lim, req, hist, probes, layers] =>
    match lim.toNat?, (listOf probes ",").mapM unhexS, (if layers = "~" then some [] else (layers.splitOn "|").mapM parseLayer) with
    | some limit, some probes, some raw =>
      let reqP : Option (Path → Bool) :=
        if req = "A" then some (fun _ => true)
        else if req = "N" then some (fun _ => false)
        else if req.startsWith "P" then
          match (listOf (req.drop 1).toString ",").mapM unhexS with
          | some set => some (fun q => set.contains (renderAbs q) || set.contains (relStr q))
          | none => none
        else none
      match reqP with
      | none => "bad-op"
      | some reqF =>
        let pl := raw.map (normLayer limit)
        let chain := chainOf hist.toList pl
        let probeP := probes.map probeSegs
        let U : List Path := ((chain.flatMap fun (l : List PEntry) => l.flatMap fun (pe : PEntry) => prefixesOf pe.e.p ++ (if pe.e.kind = Kind.link then prefixesOf pe.e.target else []))
                              ++ probeP.flatMap prefixesOf ++ [[]]).eraseDups
        match loadImage limit chain with
        | none => "err=1"
        | some (chains, disks) =>
          let n := chain.length
          let depth := 6
          let lastT := chains.getD (n - 1) emptyTree
          let deleted := if req = "A" then [] else deletedFiles U reqF depth (chains.take (n - 1)) lastT
          let views : List Tree := chains.mapIdx fun j t => if j + 1 = n then pruneFinal U reqF depth t else t
          let content : Path → Node → String := fun q nd =>
            if deleted.contains (nd.layer, q) then "readerr" else
            match (disks.find? (·.1 = nd.layer)).bind (fun d => d.2.get q) with
            | some (.file bs) => bytesContent bs
            | _ => "readerr"
          let eff := chain.map effective
          -- the specification reads an entry the loader rejects (size limit, link out of the root) as a whiteout of its path
          let effS := chain.map specEffective
          let specs : List Tree := (List.range n).map fun j =>
            let s := specView effS j
            if j + 1 = n then specRequired U reqF depth s else s
          -- … which changes nothing where the rejected entries have nothing to hide
          let rejNoop := fun (j : Nat) => U.all fun q => obsOf (specView eff j q) == obsOf (specView effS j q)
          let bigD := fun (j : Nat) => (chain.take (j+1)).any bigDup
          let wfs := (List.range n).map fun j => H eff j && !bigD j && rejNoop j
          let cls := (List.range n).map fun j => joinWith "," (failingOf eff j ++ (if bigD j then ["ill-dup-big"] else [])
            ++ (if rejNoop j then [] else [if rejectedShadowsAt chain j then "rejected-shadow" else "rejected-parents"]))
          let dec := (List.range n).all fun j => U.all fun q => (chains.getD j emptyTree) q == viewOf eff j q
          let fw := (List.range n).all fun j => !(H eff j) || U.all fun q => obsOf (specView eff j q) == obsOf (ociView eff j q)
          let sz := views.all fun t => sizesBelow limit U t
          -- duplicate member names: the same image with every repeated entry left out ("first wins"), where that reading is well-formed
          let effD := eff.map (dedupFirst [])
          let altWf : List Char := (List.range n).map fun j =>
            if !((eff.take (j+1)).any (duplicateEntry [])) then '-' else if H effD j && !bigD j then '1' else '0'
          let altSpecs : List (Option Tree) := (List.range n).map fun j =>
            if altWf.getD j '-' = '1' then
              let s := specView effD j
              some (if j + 1 = n then specRequired U reqF depth s else s)
            else none
          let dd := (List.range n).all fun j => altWf.getD j '-' != '1' || U.all fun q => (chains.getD j emptyTree) q == viewOf effD j q
          let aw := "|".intercalate (altSpecs.map fun o => match o with | some t => walkListing U specContent t | none => "~")
          let al := "|".intercalate (altSpecs.map fun o => match o with | some t => lookListing probeP specContent t | none => "~")
          let mtListing := fun (t : Tree) =>
            joinWith "," (sortStrings (U.filterMap fun q => if q = [] then none else
              match t q with
              | some nd => if !nd.wh && nd.kind = Kind.file then some (hexS (relStr q) ++ ":" ++ toString ((nd.cid % 26) * 1000 + nd.size)) else none
              | none => none))
          let mt := "|".intercalate (views.map mtListing)
          let vw := "|".intercalate (views.map (walkListing U content))
          let vl := "|".intercalate (views.map (lookListing probeP content))
          let sw := "|".intercalate (specs.map (walkListing U specContent))
          let sl := "|".intercalate (specs.map (lookListing probeP specContent))
          s!"err=0 nv={n} walk={vw} look={vl} mt={mt} spec_walk={sw} spec_look={sl} wf={String.join (wfs.map boolStr)} cls={"|".intercalate cls} dec={boolStr dec} fw={boolStr fw} sz={boolStr sz} dd={boolStr dd} alt_wf={String.ofList altWf} alt_walk={aw} alt_look={al}"
    | _, _, _ => "bad-op"
  | _ => "bad-op"

def main : IO Unit := serve handle
