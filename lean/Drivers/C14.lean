/-
Line-protocol driver for C14.
  index <pkgs>      pkgs := '-' | pkg (',' pkg)*   pkg := 'x' (no purl) | <hextype> ':' <hexname>
     -> obs=<observation of the MODEL index: A=ids;T<type>=ids;…;S<type>:<name>=ids;…> spec=<the same queries answered by filtering the list>
  harvest <hex extractor> <hex fixture>  |  layout <hex os-release variant>
     -> issues=-      (the specification: a harvested package raises no issue; the harvest itself is testing, see c14gen)
  accept <e|c> <hextype> <hex origin>
     -> acc=1 accs=1 idem=1 must=<1 for e: a type some built-in ToPURL can emit must be accepted by purl.FromString>
Package ids are positions in the list. Query pool: types and names in order of first appearance, plus "zz".
-/
import Scalibr.Base.Wire
import Scalibr.Base.Sort
import Scalibr.Spec.Index
import Scalibr.Spec.ProtoPkg
import Scalibr.Gen.Purl
open Scalibr Scalibr.Wire Scalibr.Index

def unhex? (s : String) : Option String := if s = "-" then some "" else strOfHex s
def hexE (s : String) : String := if s.isEmpty then "-" else hexOfStr s
def sortNats (xs : List Nat) : List Nat := isort (fun a b => decide (a < b)) xs

def parsePkg (s : String) : Option (Option (String × String)) :=
  if s = "x" then some none else
  match s.splitOn ":" with
  | [t, n] => match unhex? t, unhex? n with
    | some t, some n => some (some (t, n))
    | _, _ => none
  | _ => none

def idsStr (ps : List Pkg) (sorted : Bool) : String :=
  let ids := ps.map (·.id)
  joinWith "." ((if sorted then sortNats ids else ids).map toString)

def dedup (xs : List String) : List String := xs.foldl (fun acc x => if acc.contains x then acc else acc ++ [x]) []

def observe (types names : List String) (all : List Pkg) (ofType : String → List Pkg) (spec : String → String → List Pkg) : String :=
  let a := ["A=" ++ idsStr all true]
  let t := types.map fun t => s!"T{hexE t}={idsStr (ofType t) true}"
  let s := types.flatMap fun t => names.map fun n => s!"S{hexE t}:{hexE n}={idsStr (spec n t) false}"
  ";".intercalate (a ++ t ++ s)

/-! ### `proto` cases (grammar: harness/cmd/c14gen/protopurl.go) -/
def itemsOf? (s : String) : Option (List String) := if s = "_" then some [] else (s.splitOn ",").mapM unhex?

def itemsStr (xs : List String) : String := if xs.isEmpty then "_" else ",".intercalate (xs.map hexE)

def qualsOf? (s : String) : Option (List (String × String)) :=
  if s = "_" then some [] else (s.splitOn ";").mapM fun q =>
    match q.splitOn "=" with
    | [k, v] => match unhex? k, unhex? v with
      | some k, some v => some (k, v)
      | _, _ => none
    | _ => none

def qualsStr (qs : List (String × String)) : String :=
  if qs.isEmpty then "_" else ";".intercalate (qs.map fun (k, v) => hexE k ++ "=" ++ hexE v)

def purlOf? (s : String) : Option (Option ProtoPkg.Purl) :=
  if s = "_" then some none else
  match s.splitOn ":" with
  | [t, ns, n, v, qs, sub] =>
    match unhex? t, unhex? ns, unhex? n, unhex? v, qualsOf? qs, unhex? sub with
    | some t, some ns, some n, some v, some qs, some sub => some (some ⟨t, ns, n, v, qs, sub⟩)
    | _, _, _, _, _, _ => none
  | _ => none

def srcOf? (s : String) : Option (Option ProtoPkg.SourceCode) :=
  if s = "_" then some none else
  match s.splitOn ":" with
  | [r, c] => match unhex? r, unhex? c with
    | some r, some c => some (some ⟨r, c⟩)
    | _, _ => none
  | _ => none

def layerOf? (s : String) : Option (Option ProtoPkg.LayerDetails) :=
  if s = "_" then some none else
  match s.splitOn ":" with
  | [i, d, c, b] => match i.toInt?, unhex? d, unhex? c, boolOf? b with
    | some i, some d, some c, some b => some (some ⟨i, d, c, b⟩)
    | _, _, _, _ => none
  | _ => none

def annsOf? (s : String) : Option (List Int) := if s = "_" then some [] else (s.splitOn ",").mapM (·.toInt?)

def annStr : ProtoPkg.ProtoAnnotation → String
  | .unspecified => "U" | .transitional => "T" | .insideOSPackage => "O" | .insideCacheDir => "C"

/-- the metadata of a `proto` case is its Go type name; `setProtoMetadata` sets the oneof iff its switch has that type -/
def protoOps (eco ex : String) (u : Option ProtoPkg.Purl) : ProtoPkg.Ops String Unit :=
  { toPURL := fun _ => u, ecosystem := fun _ => eco, extractorName := fun _ => ex,
    purlString := fun _ => "S", setMeta := fun t => if Scalibr.Gen.Purl.protoMetaTypes.contains t then some () else none }

def handleProto (t : List String) : String :=
  match t with
  | [n, v, locs, src, anns, layer, pu, eco, ex, mt] =>
    match unhex? n, unhex? v, itemsOf? locs, srcOf? src, annsOf? anns, layerOf? layer, purlOf? pu, unhex? eco, unhex? ex,
          (if mt = "_" then some "" else unhex? mt) with
    | some n, some v, some locs, some src, some anns, some layer, some pu, some eco, some ex, some mty =>
      let pkg : ProtoPkg.Package String := ⟨n, v, src, locs, anns, layer, mty⟩
      let r := ProtoPkg.packageToProto (protoOps eco ex pu) pkg
      let srcS := match r.sourceCode with | none => "_" | some s => hexE s.repo ++ ":" ++ hexE s.commit
      let layS := match r.layerDetails with
        | none => "_"
        | some l => s!"{l.index}:{hexE l.diffID}:{hexE l.command}:{boolStr l.inBaseImage}"
      let puS := match r.purl with
        | none => "_"
        | some p => ":".intercalate [hexE p.typ, hexE p.ns, hexE p.name, hexE p.version, qualsStr p.qualifiers, hexE p.subpath]
      let annS := if r.annotations.isEmpty then "_" else ",".intercalate (r.annotations.map annStr)
      -- SPEC side: the package's generic content (`genericOf`), rendered; the harness renders what the spec reader (`read`)
      -- recovers from the REAL record the same way. `repr` = `Representable pkg` (C14_proto_lossless_partial's hypothesis)
      let g := ProtoPkg.genericOf (protoOps eco ex pu) pkg
      let gSrc := match g.sourceCode with | none => "_" | some s => hexE s.repo ++ ":" ++ hexE s.commit
      let gLay := match g.layerDetails with
        | none => "_"
        | some l => s!"{l.index}:{hexE l.diffID}:{hexE l.command}:{boolStr l.inBaseImage}"
      let gPu := match g.purl with
        | none => "_"
        | some p => ":".intercalate [hexE p.typ, hexE p.ns, hexE p.name, hexE p.version, qualsStr p.qualifiers, hexE p.subpath]
      let gAnn := if g.annotations.isEmpty then "_" else ",".intercalate (g.annotations.map toString)
      let sgen := "|".intercalate [hexE g.name, hexE g.version, itemsStr g.locations, gSrc, gAnn, gLay, gPu, g.purlString.getD "_",
        hexE g.ecosystem, hexE g.extractor]
      let repr := anns.all (fun a => a == 0 || a == 1 || a == 2 || a == 3) &&
        (match layer with | none => true | some l => decide (-2147483648 ≤ l.index) && decide (l.index < 2147483648))
      s!"sgen={sgen} repr={boolStr repr} " ++
      s!"name={hexE r.name} version={hexE r.version} locs={itemsStr r.locations} src={srcS} anns={annS} layer={layS} purl={puS} " ++
      s!"eco={hexE r.ecosystem} ex={hexE r.extractor} meta={boolStr r.metadata.isSome} pstr=1"
    | _, _, _, _, _, _, _, _, _, _ => "bad-op"
  | _ => "bad-op"

def handle (line : String) : String :=
  match line.splitOn " " with
  | ["index", ps] =>
    match (listOf ps ",").mapM parsePkg with
    | some specs =>
      let pkgs : List Pkg := (specs.zip (List.range specs.length)).map fun (p, i) => ⟨i, p⟩
      let types := dedup (specs.filterMap fun p => p.map (·.1)) ++ ["zz"]
      let names := dedup (specs.filterMap fun p => p.map (·.2)) ++ ["zz"]
      let px := Index.new pkgs
      s!"obs={observe types names (getAll px) (getAllOfType px) (getSpecific px)} " ++
      s!"spec={observe types names (specAll pkgs) (specOfType pkgs) (specSpecific pkgs)}"
    | none => "bad-op"
  | "proto" :: rest => handleProto rest
  -- the specification: printing, parsing and printing again is the identity, and the index finds the package
  | ["purlrt", _, _, _] => "ok=1 same=1 idx=1"
  | ["harvest", _, _] => "issues=-"
  | ["layout", _] => "issues=-"
  | ["boundary", _, _, _] => "issues=-"
  -- the specification: a purl type a built-in extractor can emit (`e`) must be accepted and round-trip;
  -- a declared constant no extractor emits (`c`) is reported only
  | ["accept", "e", _, _] => "acc=1 accs=1 idem=1 must=1"
  | ["accept", "c", _, _] => "acc=1 accs=1 idem=1 must=0"
  | _ => "bad-op"

def main : IO Unit := serve handle
